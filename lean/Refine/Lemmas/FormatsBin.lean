import Refine.Model.FormatsBin
import Refine.Model.FormatsMapbc
import Refine.Lemmas.FormatsText
import Refine.Lemmas.UgridBytes

/-! facts about the binary readers of `Refine.Model.FormatsBin` and the dictionary of `FormatsMapbc` -/
namespace Refine.Lemmas.Formats
open Refine.Model.Formats Refine.Model.FormatsBin Refine.Model.FormatsMapbc
open Refine.Model.Meshb (Bytes Status Vertex Cfg adjAddAll int32 wrap32)

/-! ### `.r8.ugrid` -/

theorem r8Cells_ok {fx : BFix} {nnode : Int} {per : Nat} {e : Bool} {n : Nat} {s r : Bytes} {cs : List (List Int)}
    (h : r8Cells fx nnode per e n s = .ok (cs, r)) :
    cs.length = n ∧ (fx.r8 = true → ∀ c ∈ cs, nodesIn per 0 nnode c) := by
  induction n generalizing s cs r with
  | zero => simp [r8Cells] at h; simp [h.1, nodesIn]
  | succ n ih =>
    simp only [r8Cells] at h
    cases h1 : Refine.Model.Ugrid.rdInts r8Fl per s with
    | error e => simp [h1] at h
    | ok p =>
      obtain ⟨raw, s1⟩ := p
      simp only [h1] at h
      split at h
      · cases h
      · rename_i hchk
        split at h
        · cases h
        · cases h2 : adjAddAll Cfg.faithful (raw.map (· - 1)) with
          | error e => simp [h2] at h
          | ok u =>
            simp only [h2] at h
            cases h3 : r8Cells fx nnode per e n s1 with
            | error e => simp [h3] at h
            | ok q =>
              obtain ⟨cs', r'⟩ := q
              simp only [h3, Except.ok.injEq, Prod.mk.injEq] at h
              obtain ⟨il, ichk⟩ := ih h3
              have hlen := (Refine.Lemmas.Ugrid.rdInts_len h1).1
              refine ⟨by rw [← h.1, List.length_cons, il], fun hf d hd => ?_⟩
              rw [← h.1] at hd
              simp only [List.mem_cons] at hd
              rcases hd with rfl | hd
              · have hrl : (raw.map (· - 1)).length = per := by simp [hlen]
                refine ⟨by simp; omega, fun x hx => ?_⟩
                rw [List.take_append_of_le_length (by omega), List.take_of_length_le (by omega)] at hx
                obtain ⟨y, hy, rfl⟩ := List.mem_map.mp hx
                have hnot : ¬ (y < 1 ∨ nnode < y) := by
                  intro hcon
                  apply hchk
                  refine ⟨hf, ?_⟩
                  rw [List.any_eq_true]
                  exact ⟨y, hy, decide_eq_true hcon⟩
                omega
              · exact ichk hf d hd

/-! ### integer division facts used by the `.rst` count test -/

theorem mul_le_of_le_ediv {a v x : Int} (hv : 0 < v) (h : x ≤ a / v) : x * v ≤ a := by
  have := (Int.le_ediv_iff_mul_le hv).mp h
  exact this

/-! ### the `.mapbc` dictionary -/

def lookup (d : List (Int × Int)) (k : Int) : Option Int := (d.find? fun e => e.1 == k).map (·.2)

theorem lookup_dictStore (d : List (Int × Int)) (k v k' : Int) :
    lookup (dictStore d k v) k' = if k' = k then some v else lookup d k' := by
  induction d with
  | nil =>
    simp only [dictStore, lookup, List.find?]
    by_cases h : k' = k
    · simp [h]
    · have : (k == k') = false := by simp; omega
      simp [h, this]
  | cons e d ih =>
    obtain ⟨a, b⟩ := e
    simp only [dictStore]
    by_cases h1 : a = k
    · subst h1
      simp only [if_true, lookup, List.find?]
      by_cases h : k' = a
      · simp [h]
      · have : (a == k') = false := by simp; omega
        simp [h, this]
    · simp only [h1, if_false]
      by_cases h2 : k < a
      · simp only [h2, if_true, lookup, List.find?]
        by_cases h : k' = k
        · simp [h]
        · have : (k == k') = false := by simp; omega
          simp [h, this]
      · simp only [h2, if_false]
        show lookup ((a, b) :: dictStore d k v) k' = _
        unfold lookup at ih ⊢
        simp only [List.find?]
        by_cases h3 : (a == k') = true
        · have hak : a = k' := by simpa using h3
          have : ¬ k' = k := by omega
          simp [h3, this]
        · simp only [Bool.not_eq_true] at h3
          simp only [h3]
          exact ih

/-- strictly ascending keys -/
def Sorted : List (Int × Int) → Prop
  | [] => True
  | [_] => True
  | a :: b :: r => a.1 < b.1 ∧ Sorted (b :: r)

theorem sorted_tail {a : Int × Int} {d : List (Int × Int)} (h : Sorted (a :: d)) : Sorted d := by
  cases d with
  | nil => trivial
  | cons b r => exact h.2

theorem sorted_head_lt {a : Int × Int} {d : List (Int × Int)} (h : Sorted (a :: d)) : ∀ e ∈ d, a.1 < e.1 := by
  induction d generalizing a with
  | nil => simp
  | cons b r ih =>
    intro e he
    simp only [List.mem_cons] at he
    rcases he with rfl | he
    · exact h.1
    · have := ih (a := b) h.2 e he
      have := h.1
      omega

theorem dictStore_sorted {d : List (Int × Int)} (h : Sorted d) (k v : Int) : Sorted (dictStore d k v) := by
  induction d with
  | nil => trivial
  | cons e d ih =>
    obtain ⟨a, b⟩ := e
    simp only [dictStore]
    by_cases h1 : a = k
    · subst h1
      simp only [if_true]
      cases d with
      | nil => trivial
      | cons c r => exact ⟨h.1, h.2⟩
    · simp only [h1, if_false]
      by_cases h2 : k < a
      · simp only [h2, if_true]
        exact ⟨h2, h⟩
      · simp only [h2, if_false]
        have ht := ih (sorted_tail h)
        have hlt := sorted_head_lt h
        -- the head of `dictStore d k v` is `k` or the head of `d`: both above `a`
        cases hd : dictStore d k v with
        | nil => trivial
        | cons c r =>
          refine ⟨?_, hd ▸ ht⟩
          have hc : c ∈ dictStore d k v := by rw [hd]; simp
          have hmem : ∀ c ∈ dictStore d k v, c.1 = k ∨ c ∈ d := by
            clear hd hc ht ih hlt h
            induction d with
            | nil => intro c hc; simp [dictStore] at hc; left; rw [hc]
            | cons e d ih2 =>
              obtain ⟨a', b'⟩ := e
              intro c hc
              simp only [dictStore] at hc
              split at hc
              · simp only [List.mem_cons] at hc
                rcases hc with rfl | hc
                · left; rfl
                · right; simp [hc]
              · split at hc
                · simp only [List.mem_cons] at hc
                  rcases hc with rfl | rfl | hc
                  · left; rfl
                  · right; simp
                  · right; simp [hc]
                · simp only [List.mem_cons] at hc
                  rcases hc with rfl | hc
                  · right; simp
                  · rcases ih2 c hc with h | h
                    · left; exact h
                    · right; simp [h]
          rcases hmem c hc with hk | hin
          · show a < c.1
            omega
          · exact hlt c hin

theorem fold_sorted (es : List (Int × Int)) {d : List (Int × Int)} (h : Sorted d) :
    Sorted (es.foldl (fun d e => dictStore d e.1 e.2) d) := by
  induction es generalizing d with
  | nil => exact h
  | cons e es ih => exact ih (dictStore_sorted h e.1 e.2)

/-- in a dictionary with strictly ascending keys an entry is found by its key -/
theorem mem_iff_lookup {d : List (Int × Int)} (h : Sorted d) (k v : Int) : (k, v) ∈ d ↔ lookup d k = some v := by
  induction d with
  | nil => simp [lookup]
  | cons e d ih =>
    obtain ⟨a, b⟩ := e
    have hlt := sorted_head_lt h
    unfold lookup
    simp only [List.find?, List.mem_cons, Prod.mk.injEq]
    by_cases hak : a = k
    · subst hak
      simp only [beq_self_eq_true, Option.map_some, Option.some.injEq]
      constructor
      · rintro (⟨_, rfl⟩ | hin)
        · rfl
        · have := hlt (a, v) hin
          simp at this
      · intro hb
        left
        exact ⟨trivial, hb.symm⟩
    · have hf : (a == k) = false := by simp [hak]
      simp only [hf]
      have := ih (sorted_tail h)
      unfold lookup at this
      constructor
      · rintro (⟨rfl, _⟩ | hin)
        · exact absurd rfl hak
        · exact this.mp hin
      · intro hl
        right
        exact this.mpr hl

/-- the code of the last line that names `id` -/
def lastCode (es : List (Int × Int)) (id : Int) : Option Int := (es.reverse.find? fun e => e.1 == id).map (·.2)

theorem lookup_fold (es : List (Int × Int)) (d : List (Int × Int)) (k : Int) :
    lookup (es.foldl (fun d e => dictStore d e.1 e.2) d) k = (lastCode es k).or (lookup d k) := by
  induction es generalizing d with
  | nil => simp [lastCode]
  | cons e es ih =>
    simp only [List.foldl_cons]
    rw [ih, lookup_dictStore]
    unfold lastCode
    simp only [List.reverse_cons, List.find?_append, List.find?]
    cases hfind : (es.reverse.find? fun x => x.1 == k) with
    | some x => simp
    | none =>
      by_cases hk : k = e.1
      · have : (e.1 == k) = true := by simp [hk]
        simp [hk]
      · have : (e.1 == k) = false := by simp; omega
        simp [hk, this]

end Refine.Lemmas.Formats
