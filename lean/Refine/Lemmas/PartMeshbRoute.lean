import Refine.Model.PartMeshb
import Refine.Lemmas.Comm
import Mathlib.Tactic.Linarith
import Mathlib.Tactic.Set

/-! the counting sort of `ref_part_meshb_cell` (`elements_to_send`, `start_to_send`, `new_location`) puts into the
    slice of part `p` exactly the cells of the chunk with `dest = p`, in chunk order -/
namespace Refine.Lemmas.PartMeshb
open Refine.Model.Meshb Refine.Model.PartMeshb Refine.Model.Comm Refine.Lemmas.Comm

/-- the chunk as (destination, one-cell item) pairs -/
def pairsOf (N : Int) (np : Nat) (cells : List Cell) : List (Nat × List Cell) :=
  cells.map fun c => ((destOf N np c).toNat, [c])

theorem bucket_pairsOf (N : Int) (np : Nat) (cells : List Cell) (q : Nat)
    (h0 : ∀ c ∈ cells, 0 ≤ destOf N np c) :
    (bucket q (pairsOf N np cells)).flatten = cells.filter fun c => destOf N np c == (q : Int) := by
  induction cells with
  | nil => simp [pairsOf, bucket]
  | cons c cs ih =>
    have hc := h0 c List.mem_cons_self
    have ih' := ih (fun c' hc' => h0 c' (List.mem_cons_of_mem _ hc'))
    have hiff : ((destOf N np c).toNat == q) = (destOf N np c == (q : Int)) := by
      by_cases hq : destOf N np c = (q : Int)
      · simp [hq]
      · have : (destOf N np c).toNat ≠ q := by omega
        simp [hq, this]
    simp only [pairsOf, List.map_cons] at ih' ⊢
    by_cases hq : destOf N np c == (q : Int)
    · have h1 : ((destOf N np c).toNat == q) = true := by rw [hiff]; exact hq
      simp only [bucket, List.filter_cons, h1, if_true, List.map_cons, List.flatten_cons, hq]
      simp only [bucket] at ih'
      rw [ih']
      rfl
    · have h1 : ((destOf N np c).toNat == q) = false := by rw [hiff]; simpa using hq
      simp only [bucket, List.filter_cons, h1, hq]
      simp only [bucket] at ih'
      simpa using ih'

theorem bucket_pairsOf_length (N : Int) (np : Nat) (cells : List Cell) (q : Nat) :
    (bucket q (pairsOf N np cells)).flatten.length = (bucket q (pairsOf N np cells)).length := by
  have : ∀ it ∈ bucket q (pairsOf N np cells), it.length = 1 := by
    intro it hit
    obtain ⟨x, hx, rfl⟩ := mem_bucket q _ it hit
    simp only [pairsOf, List.mem_map] at hx
    obtain ⟨c, _, rfl⟩ := hx
    rfl
  rw [length_flatten_uniform 1 _ this]; simp

theorem flatten_singletons {β : Type} (l : List β) : (l.map fun c => [c]).flatten = l := by
  induction l with
  | nil => rfl
  | cons c cs ih => simp [ih]

/-- **the routing as coded is the routing the driver runs** -/
theorem routeChunkCoded_eq (N : Int) (np : Nat) (cells : List Cell) :
    routeChunkCoded N np cells = routeChunk N np cells := by
  unfold routeChunkCoded routeChunk
  by_cases hany : (cells.map (destOf N np)).any (fun d => decide (d < 0 ∨ (np : Int) ≤ d)) = true
  · rw [if_pos hany, if_pos hany]
  · rw [if_neg hany, if_neg hany]
    have hrange : ∀ c ∈ cells, 0 ≤ destOf N np c ∧ destOf N np c < (np : Int) := by
      intro c hc
      by_contra hb
      apply hany
      rw [List.any_eq_true]
      exact ⟨destOf N np c, List.mem_map.2 ⟨c, hc, rfl⟩, by simp; omega⟩
    set pairs := pairsOf N np cells with hpairs
    have hd : ∀ x ∈ pairs, x.1 < np := by
      intro x hx
      simp only [hpairs, pairsOf, List.mem_map] at hx
      obtain ⟨c, hc, rfl⟩ := hx
      have := hrange c hc
      simp only
      omega
    have hi : ∀ x ∈ pairs, x.2.length = 1 := by
      intro x hx
      simp only [hpairs, pairsOf, List.mem_map] at hx
      obtain ⟨c, _, rfl⟩ := hx
      rfl
    have hdest : cells.map (destOf N np) = pairs.map fun x => (x.1 : Int) := by
      simp only [hpairs, pairsOf, List.map_map]
      apply List.map_congr_left
      intro c hc
      have := hrange c hc
      simp only [Function.comp]
      omega
    have hsend : cells = (pairs.map (·.2)).flatten := by
      simp only [hpairs, pairsOf, List.map_map]
      exact (flatten_singletons cells).symm
    have hlen : pairs.length = cells.length := by simp [hpairs, pairsOf]
    let L : List (List Cell) := (List.range np).map fun q => (bucket q pairs).flatten
    have hcounts : countDest np (cells.map (destOf N np)) = lensI L := by
      rw [hdest, countDest_eq np pairs hd]
      simp only [L, lensI, List.map_map]
      apply List.map_congr_left
      intro q _
      simp only [Function.comp]
      rw [hpairs, bucket_pairsOf_length]
    have hpack : pack 1 (cells.map (destOf N np)) cells (List.replicate cells.length [])
        (displs (countDest np (cells.map (destOf N np)))) = L.flatten := by
      have h := pack_init 1 np pairs hd hi (List.replicate cells.length []) (by
        rw [bucket_total np pairs hd, hlen]; simp)
      rw [← hdest, ← hsend] at h
      rw [h, List.flatMap_def]
    show Except.ok (List.map (fun p => slice (pack 1 (cells.map (destOf N np)) cells (List.replicate cells.length [])
        (displs (countDest np (cells.map (destOf N np)))))
        ((displs (countDest np (cells.map (destOf N np)))).getD p 0).toNat
        ((countDest np (cells.map (destOf N np))).getD p 0).toNat) (List.range np)) = _
    rw [hpack, hcounts]
    congr 1
    apply List.map_congr_left
    intro p hp
    have hp' : p < np := List.mem_range.1 hp
    rw [slice_flatten L p]
    simp only [L]
    rw [List.getD_eq_getElem?_getD, List.getElem?_map, List.getElem?_range hp']
    simp only [Option.map_some, Option.getD_some]
    rw [hpairs, bucket_pairsOf N np cells p (fun c hc => (hrange c hc).1)]

end Refine.Lemmas.PartMeshb
