import Refine.Lemmas.QualityReal
import Refine.Props.C15
import Mathlib.Analysis.SpecialFunctions.Pow.Deriv

/-!
  Calculus helpers for the quality derivatives: the position of node 0 moved along a line, the polynomial
  pieces (volume affine, `Σ eᵀMe` quadratic) as functions of the line parameter, and the quotient / power rule
  in the shape `ref_node_tet_jac_dquality_dnode0` codes it.  Used by `Props/C15Quality.lean`.
-/
namespace Refine.QualityDeriv
open Refine Refine.Model.Geom Refine.Model.Quality Refine.ScalarReal Refine.GeomReal Refine.QualityReal

/-- the coded `d_l2` of `ref_node_tet_jac_dquality_dnode0` -/
noncomputable def tetJacDL2 (m : M6 ℝ) (x0 x1 x2 x3 : V3 ℝ) : V3 ℝ :=
  let de0 := (vtMvDeriv m (V3.sub x1 x0)).2
  let de1 := (vtMvDeriv m (V3.sub x2 x0)).2
  let de2 := (vtMvDeriv m (V3.sub x3 x0)).2
  ⟨(-. de0.x) -. de1.x -. de2.x, (-. de0.y) -. de1.y -. de2.y, (-. de0.z) -. de1.z -. de2.z⟩

theorem tetJacL2_expand_aux (m : M6 ℝ) (x0 x1 x2 x3 δ : V3 ℝ) :
    tetJacL2 m (vadd x0 δ) x1 x2 x3 =
      tetJacL2 m x0 x1 x2 x3 + vdot (tetJacDL2 m x0 x1 x2 x3) δ + 3 * vtMv m δ := by
  simp only [tetJacL2, tetJacDL2, vtMv, vtMvDeriv, V3.sub, vadd, vdot, add_eq, sub_eq, mul_eq, neg_eq]; ring

/-- quotient / power rule for `t ↦ c (s·vol t)^(2/3) / l2 t`, in the shape the C codes it -/
theorem hasDerivAt_meanRatio (c s : ℝ) (vol l2 : ℝ → ℝ) (vol' l2' t : ℝ)
    (hv : HasDerivAt vol vol' t) (hl : HasDerivAt l2 l2' t) (hvim : s * vol t ≠ 0) (hl2 : l2 t ≠ 0) :
    HasDerivAt (fun t => c * (s * vol t) ^ ((2 : ℝ) / 3) / l2 t)
      (c * ((2 : ℝ) / 3 * (s * vol t) ^ ((-1 : ℝ) / 3) * s * vol' * l2 t - (s * vol t) ^ ((2 : ℝ) / 3) * l2')
        / (l2 t * l2 t)) t := by
  have h1 : HasDerivAt (fun t => s * vol t) (s * vol') t := hv.const_mul s
  have h2 := h1.rpow_const (p := (2 : ℝ) / 3) (Or.inl hvim)
  have h3 := (h2.const_mul c).div hl hl2
  have this : (2 : ℝ) / 3 - 1 = -1 / 3 := by norm_num
  rw [this] at h3
  refine HasDerivAt.congr_deriv (f' := _) h3 ?_
  field_simp

/-- node 0 moved along a straight line -/
def line (a δ : V3 ℝ) (t : ℝ) : V3 ℝ := vadd a (vsmul t δ)

theorem line_zero (a δ : V3 ℝ) : line a δ 0 = a := by
  simp only [line, vadd, vsmul]; ext <;> simp

theorem vdot_smul (d δ : V3 ℝ) (t : ℝ) : vdot d (vsmul t δ) = t * vdot d δ := by
  simp only [vdot, vsmul]; ring

theorem vtMv_smul (m : M6 ℝ) (δ : V3 ℝ) (t : ℝ) : vtMv m (vsmul t δ) = t ^ 2 * vtMv m δ := by
  simp only [vtMv, vsmul, add_eq, mul_eq]; ring

theorem hasDerivAt_affine (A B : ℝ) : HasDerivAt (fun t : ℝ => A + t * B) B 0 := by
  simpa using ((hasDerivAt_id (0 : ℝ)).mul_const B).const_add A

theorem hasDerivAt_quadratic (A B C : ℝ) : HasDerivAt (fun t : ℝ => A + t * B + 3 * (t ^ 2 * C)) B 0 := by
  have h1 := ((hasDerivAt_id (0 : ℝ)).mul_const B).const_add A
  have h2 := ((hasDerivAt_pow 2 (0 : ℝ)).mul_const C).const_mul 3
  exact HasDerivAt.congr_deriv (h1.add h2) (by norm_num)

theorem tetVol_line (a b c d δ : V3 ℝ) :
    HasDerivAt (fun t => tetVol (line a δ t) b c d) (vdot (tetDvolDnode0 a b c d).2 δ) 0 := by
  have : (fun t => tetVol (line a δ t) b c d) = fun t => tetVol a b c d + t * vdot (tetDvolDnode0 a b c d).2 δ := by
    funext t
    rw [line, Refine.Props.C15.tetVol_affine0, vdot_smul]
  rw [this]
  exact hasDerivAt_affine _ _

theorem tetJacL2_line (m : M6 ℝ) (x0 x1 x2 x3 δ : V3 ℝ) :
    HasDerivAt (fun t => tetJacL2 m (line x0 δ t) x1 x2 x3) (vdot (tetJacDL2 m x0 x1 x2 x3) δ) 0 := by
  have : (fun t => tetJacL2 m (line x0 δ t) x1 x2 x3) =
      fun t => tetJacL2 m x0 x1 x2 x3 + t * vdot (tetJacDL2 m x0 x1 x2 x3) δ + 3 * (t ^ 2 * vtMv m δ) := by
    funext t
    rw [line, tetJacL2_expand_aux, vdot_smul, vtMv_smul]
  rw [this]
  exact hasDerivAt_quadratic _ _ _

/-- what `ref_node_tet_jac_quality` computes on its smooth branch, as a function of the vertex positions -/
noncomputable def tetJacSmooth (mx : Model.Matrix.M6 ℝ) (x0 x1 x2 x3 : V3 ℝ) : ℝ :=
  (c36 : ℝ) * (Real.sqrt (Model.Matrix.detM mx) * tetVol x0 x1 x2 x3) ^ ((2 : ℝ) / 3) /
    tetJacL2 (ofMx mx) x0 x1 x2 x3

/-- the part of `ref_node_tet_epic_quality` after volume, smallest determinant and `Σ l²` are known -/
noncomputable def epicTail (mv vol minDet denom : ℝ) : ℝ :=
  if vol <=. mv then vol -. mv else
  if Scalar.divisible (Scalar.pow (Scalar.sqrt minDet *. vol) twoThirds) denom then
    c36 *. Scalar.pow (Scalar.sqrt minDet *. vol) twoThirds /. denom else litm1

theorem tetEpicQuality_eq (mv : ℝ) (n0 n1 n2 n3 : QNode ℝ) :
    tetEpicQuality mv n0 n1 n2 n3 =
      epicTail mv (tetVol n0.x n1.x n2.x n3.x)
        (min (min (min (detOf n0.m) (detOf n1.m)) (detOf n2.m)) (detOf n3.m))
        (ratioGeometric n0.x n1.x n0.m n1.m ^ 2 + ratioGeometric n0.x n2.x n0.m n2.m ^ 2 +
         ratioGeometric n0.x n3.x n0.m n3.m ^ 2 + ratioGeometric n1.x n2.x n1.m n2.m ^ 2 +
         ratioGeometric n1.x n3.x n1.m n3.m ^ 2 + ratioGeometric n2.x n3.x n2.m n3.m ^ 2) := by
  unfold tetEpicQuality epicTail
  simp only [cmin_eq, mul_eq, add_eq, pow_two]


/-- node 0 with its position moved along a line (metric and log-metric stay with the vertex) -/
def Refine.Model.Quality.QNode.moved (n : QNode ℝ) (δ : V3 ℝ) (t : ℝ) : QNode ℝ := ⟨line n.x δ t, n.m, n.l⟩

/-- the value of a quality result (`0` for an error status) -/
def qval : Except Err ℝ → ℝ
  | .ok q => q
  | .error _ => 0


/-! ### permutation helpers -/

theorem avg4_cycle012 (a b c d : M6 ℝ) : avg4 b c a d = avg4 a b c d := by
  simp only [avg4, add_eq, div_eq, M6.mk.injEq]
  refine ⟨?_, ?_, ?_, ?_, ?_, ?_⟩ <;> ring

theorem avg4_cycle123 (a b c d : M6 ℝ) : avg4 a c d b = avg4 a b c d := by
  simp only [avg4, add_eq, div_eq, M6.mk.injEq]
  refine ⟨?_, ?_, ?_, ?_, ?_, ?_⟩ <;> ring

theorem avg3_cycle (a b c : M6 ℝ) : avg3 b c a = avg3 a b c := by
  simp only [avg3, add_eq, div_eq, M6.mk.injEq]
  refine ⟨?_, ?_, ?_, ?_, ?_, ?_⟩ <;> ring

theorem tetJacL2_cycle012 (m : M6 ℝ) (x0 x1 x2 x3 : V3 ℝ) : tetJacL2 m x1 x2 x0 x3 = tetJacL2 m x0 x1 x2 x3 := by
  simp only [tetJacL2, vtMv, V3.sub, add_eq, sub_eq, mul_eq]; ring

theorem tetJacL2_cycle123 (m : M6 ℝ) (x0 x1 x2 x3 : V3 ℝ) : tetJacL2 m x0 x2 x3 x1 = tetJacL2 m x0 x1 x2 x3 := by
  simp only [tetJacL2, vtMv, V3.sub, add_eq, sub_eq, mul_eq]; ring

/-! ### the jac triangle quality: folded pieces, expansions, calculus -/

/-- `n·n` of `ref_node_tri_jac_(d)quality`: squared norm of the normal of the triangle mapped by `jac` -/
noncomputable def triJacNN (J : J9 ℝ) (x0 x1 x2 : V3 ℝ) : ℝ :=
  let xyz0 := vectMult J x0
  let xyz1 := vectMult J x1
  let xyz2 := vectMult J x2
  let e0 := V3.sub xyz2 xyz1
  let e2 := V3.sub xyz1 xyz0
  let n := cross e2 e0
  dot n n

/-- `l2` of `ref_node_tri_jac_(d)quality`: sum of the squared edge lengths of the mapped triangle -/
noncomputable def triJacL2 (J : J9 ℝ) (x0 x1 x2 : V3 ℝ) : ℝ :=
  let xyz0 := vectMult J x0
  let xyz1 := vectMult J x1
  let xyz2 := vectMult J x2
  let e0 := V3.sub xyz2 xyz1
  let e1 := V3.sub xyz0 xyz2
  let e2 := V3.sub xyz1 xyz0
  dot e0 e0 +. dot e1 e1 +. dot e2 e2

/-- the tail of `ref_node_tri_jac_quality` -/
noncomputable def triJacTail (nn l2 : ℝ) : Except Err ℝ :=
  if Scalar.divisible (half *. Scalar.sqrt nn) l2 then .ok (cTriJac *. ((half *. Scalar.sqrt nn) /. l2)) else .ok litm1

theorem triJacQuality_eq (n0 n1 n2 : QNode ℝ) :
    triJacQuality n0 n1 n2 =
      match Model.Matrix.expM (toMx (avg3 n0.l n1.l n2.l)) with
      | .error e => .error e
      | .ok mx =>
        match Model.Matrix.jacobM mx with
        | .error e => .error e
        | .ok jm => triJacTail (triJacNN (J9.ofM33 jm) n0.x n1.x n2.x) (triJacL2 (J9.ofM33 jm) n0.x n1.x n2.x) := by
  unfold triJacQuality
  dsimp only []
  cases Model.Matrix.expM (toMx (avg3 n0.l n1.l n2.l)) with
  | error e => rfl
  | ok mx =>
    dsimp only []
    cases Model.Matrix.jacobM mx with
    | error e => rfl
    | ok jm => rfl

theorem triJacNN_cycle (J : J9 ℝ) (x0 x1 x2 : V3 ℝ) : triJacNN J x1 x2 x0 = triJacNN J x0 x1 x2 := by
  simp only [triJacNN, vectMult, cross, dot, V3.sub, add_eq, sub_eq, mul_eq]; ring

theorem triJacL2_cycle (J : J9 ℝ) (x0 x1 x2 : V3 ℝ) : triJacL2 J x1 x2 x0 = triJacL2 J x0 x1 x2 := by
  simp only [triJacL2, vectMult, dot, V3.sub, add_eq, sub_eq, mul_eq]; ring

/-- the bracket `2 n·dn[.][j]` of the coded `da[j]` -/
noncomputable def triJacDNN (J : J9 ℝ) (x0 x1 x2 : V3 ℝ) : V3 ℝ :=
  let xyz0 := vectMult J x0
  let xyz1 := vectMult J x1
  let xyz2 := vectMult J x2
  let e0 := V3.sub xyz2 xyz1
  let e2 := V3.sub xyz1 xyz0
  let n := cross e2 e0
  let dn (c0 c1 c2 : ℝ) : V3 ℝ :=
    ⟨(-. c1) *. e0.z -. (-. c2) *. e0.y, (-. c2) *. e0.x -. (-. c0) *. e0.z, (-. c0) *. e0.y -. (-. c1) *. e0.x⟩
  let b (d : V3 ℝ) : ℝ := lit2 *. n.x *. d.x +. lit2 *. n.y *. d.y +. lit2 *. n.z *. d.z
  ⟨b (dn J.j0 J.j3 J.j6), b (dn J.j1 J.j4 J.j7), b (dn J.j2 J.j5 J.j8)⟩

/-- the coded `dl2[j]` -/
noncomputable def triJacDL2 (J : J9 ℝ) (x0 x1 x2 : V3 ℝ) : V3 ℝ :=
  let xyz0 := vectMult J x0
  let xyz1 := vectMult J x1
  let xyz2 := vectMult J x2
  let e1 := V3.sub xyz0 xyz2
  let e2 := V3.sub xyz1 xyz0
  let dl2 (c0 c1 c2 : ℝ) : ℝ :=
    lit2 *. e1.x *. c0 +. lit2 *. e1.y *. c1 +. lit2 *. e1.z *. c2 +.
    lit2 *. e2.x *. (-. c0) +. lit2 *. e2.y *. (-. c1) +. lit2 *. e2.z *. (-. c2)
  ⟨dl2 J.j0 J.j3 J.j6, dl2 J.j1 J.j4 J.j7, dl2 J.j2 J.j5 J.j8⟩

/-- second-order term of `n·n`: squared norm of `(-J δ) × e0` -/
noncomputable def triJacNNq (J : J9 ℝ) (x1 x2 δ : V3 ℝ) : ℝ :=
  let e0 := V3.sub (vectMult J x2) (vectMult J x1)
  let w := vectMult J δ
  let ν := cross (⟨-w.x, -w.y, -w.z⟩ : V3 ℝ) e0
  dot ν ν

theorem triJacNN_expand_aux (J : J9 ℝ) (x0 x1 x2 δ : V3 ℝ) :
    triJacNN J (vadd x0 δ) x1 x2 = triJacNN J x0 x1 x2 + vdot (triJacDNN J x0 x1 x2) δ + triJacNNq J x1 x2 δ := by
  simp only [triJacNN, triJacDNN, triJacNNq, vectMult, cross, dot, V3.sub, vadd, vdot, add_eq, sub_eq, mul_eq,
    neg_eq, lit2_eq]
  ring

theorem triJacL2_expand_aux (J : J9 ℝ) (x0 x1 x2 δ : V3 ℝ) :
    triJacL2 J (vadd x0 δ) x1 x2 =
      triJacL2 J x0 x1 x2 + vdot (triJacDL2 J x0 x1 x2) δ + 2 * vdot (vectMult J δ) (vectMult J δ) := by
  simp only [triJacL2, triJacDL2, vectMult, dot, V3.sub, vadd, vdot, add_eq, sub_eq, mul_eq, neg_eq, lit2_eq]
  ring

theorem triJacNNq_smul (J : J9 ℝ) (x1 x2 δ : V3 ℝ) (t : ℝ) :
    triJacNNq J x1 x2 (vsmul t δ) = t ^ 2 * triJacNNq J x1 x2 δ := by
  simp only [triJacNNq, vectMult, cross, dot, V3.sub, vsmul, add_eq, sub_eq, mul_eq]; ring

theorem vectMult_smul_sq (J : J9 ℝ) (δ : V3 ℝ) (t : ℝ) :
    vdot (vectMult J (vsmul t δ)) (vectMult J (vsmul t δ)) = t ^ 2 * vdot (vectMult J δ) (vectMult J δ) := by
  simp only [vectMult, vdot, vsmul, add_eq, mul_eq]; ring

theorem hasDerivAt_quad (A B C : ℝ) : HasDerivAt (fun t : ℝ => A + t * B + t ^ 2 * C) B 0 := by
  have h1 := ((hasDerivAt_id (0 : ℝ)).mul_const B).const_add A
  have h2 := (hasDerivAt_pow 2 (0 : ℝ)).mul_const C
  exact HasDerivAt.congr_deriv (h1.add h2) (by norm_num)

theorem triJacNN_line (J : J9 ℝ) (x0 x1 x2 δ : V3 ℝ) :
    HasDerivAt (fun t => triJacNN J (line x0 δ t) x1 x2) (vdot (triJacDNN J x0 x1 x2) δ) 0 := by
  have : (fun t => triJacNN J (line x0 δ t) x1 x2) =
      fun t => triJacNN J x0 x1 x2 + t * vdot (triJacDNN J x0 x1 x2) δ + t ^ 2 * triJacNNq J x1 x2 δ := by
    funext t
    rw [line, triJacNN_expand_aux, vdot_smul, triJacNNq_smul]
  rw [this]
  exact hasDerivAt_quad _ _ _

theorem triJacL2_line (J : J9 ℝ) (x0 x1 x2 δ : V3 ℝ) :
    HasDerivAt (fun t => triJacL2 J (line x0 δ t) x1 x2) (vdot (triJacDL2 J x0 x1 x2) δ) 0 := by
  have : (fun t => triJacL2 J (line x0 δ t) x1 x2) =
      fun t => triJacL2 J x0 x1 x2 + t * vdot (triJacDL2 J x0 x1 x2) δ +
        t ^ 2 * (2 * vdot (vectMult J δ) (vectMult J δ)) := by
    funext t
    rw [line, triJacL2_expand_aux, vdot_smul, vectMult_smul_sq]; ring
  rw [this]
  exact hasDerivAt_quad _ _ _

/-- quotient / square-root rule for `t ↦ c (½ √(nn t)) / l2 t`, in the shape the C codes it -/
theorem hasDerivAt_triRatio (c : ℝ) (nn l2 : ℝ → ℝ) (nn' l2' t : ℝ)
    (hn : HasDerivAt nn nn' t) (hl : HasDerivAt l2 l2' t) (hnn : 0 < nn t) (hl2 : l2 t ≠ 0) :
    HasDerivAt (fun t => c * ((1 / 2 : ℝ) * Real.sqrt (nn t) / l2 t))
      (c * ((1 / 2 : ℝ) * (1 / 2) / Real.sqrt (nn t) * nn' * l2 t - (1 / 2 : ℝ) * Real.sqrt (nn t) * l2') / l2 t / l2 t) t := by
  have h1 := (hn.sqrt hnn.ne').const_mul (1 / 2 : ℝ)
  have h2 := (h1.div hl hl2).const_mul c
  refine HasDerivAt.congr_deriv h2 ?_
  have hs : Real.sqrt (nn t) ≠ 0 := (Real.sqrt_pos.mpr hnn).ne'
  field_simp


/-! ### epic tet: sum of squared edge lengths, smooth-branch formula -/

theorem hasDerivAt_sumsq (l1 l2 l3 : ℝ → ℝ) (a1 a2 a3 c4 c5 c6 t : ℝ)
    (H1 : HasDerivAt l1 a1 t) (H2 : HasDerivAt l2 a2 t) (H3 : HasDerivAt l3 a3 t) :
    HasDerivAt (fun t => l1 t ^ 2 + l2 t ^ 2 + l3 t ^ 2 + c4 + c5 + c6)
      (2 * l1 t * a1 + 2 * l2 t * a2 + 2 * l3 t * a3) t := by
  have h := ((H1.pow 2).add (H2.pow 2)).add (H3.pow 2)
  have h' : HasDerivAt (fun t => l1 t ^ 2 + l2 t ^ 2 + l3 t ^ 2) _ t := h
  have h'' := ((h'.add_const c4).add_const c5).add_const c6
  exact h''.congr_deriv (by simp)

/-- what `ref_node_tet_epic_quality` computes on its smooth branch: node 0 at `p`, everything else fixed -/
noncomputable def tetEpicSmooth (n0 n1 n2 n3 : QNode ℝ) (p : V3 ℝ) : ℝ :=
  let minDet := min (min (min (detOf n0.m) (detOf n1.m)) (detOf n2.m)) (detOf n3.m)
  (c36 : ℝ) * (Real.sqrt minDet * tetVol p n1.x n2.x n3.x) ^ ((2 : ℝ) / 3) /
    (ratioGeometric p n1.x n0.m n1.m ^ 2 + ratioGeometric p n2.x n0.m n2.m ^ 2 +
     ratioGeometric p n3.x n0.m n3.m ^ 2 + ratioGeometric n1.x n2.x n1.m n2.m ^ 2 +
     ratioGeometric n1.x n3.x n1.m n3.m ^ 2 + ratioGeometric n2.x n3.x n2.m n3.m ^ 2)


end Refine.QualityDeriv
