import Refine.Lemmas.PartMeshbParse
import Mathlib.Tactic.Linarith
import Mathlib.Data.List.Basic

/-! one rank of the parallel meshb reader: the vertex table and the cell store under `ref_cell_add_many_global` -/
namespace Refine.Lemmas.PartMeshb
open Refine.Model.Meshb Refine.Model.PartMeshb
open Refine.Gen.PartMacros

/-- the block owner of vertex `g` -/
abbrev imp (N : Int) (np : Nat) (g : Int) : Int := ref_part_implicit N (np : Int) g

/-! ### membership in the first entries -/

theorem memFirst_iff (n : Nat) (l : List Int) (x : Int) : memFirst n l x = true ↔ x ∈ l.take n := by
  induction n generalizing l with
  | zero => simp [memFirst]
  | succ n ih =>
    cases l with
    | nil => simp [memFirst]
    | cons y ys =>
      simp only [memFirst, List.take_succ_cons, List.mem_cons, Bool.or_eq_true, beq_iff_eq, ih]

theorem subFirst_iff (m : Nat) (b : List Int) (n : Nat) (a : List Int) :
    subFirst m b n a = true ↔ ∀ x ∈ a.take n, x ∈ b.take m := by
  induction n generalizing a with
  | zero => simp [subFirst]
  | succ n ih =>
    cases a with
    | nil => simp [subFirst]
    | cons y ys =>
      simp only [subFirst, List.take_succ_cons, List.mem_cons, Bool.and_eq_true, memFirst_iff, ih]
      constructor
      · rintro ⟨h1, h2⟩ x (rfl | hx)
        · exact h1
        · exact h2 x hx
      · intro h
        exact ⟨h y (Or.inl rfl), fun x hx => h x (Or.inr hx)⟩

/-- `sameSet`: the two cells have the same set of vertices -/
theorem sameSet_iff (n : Nat) (a b : Cell) :
    sameSet n a b = true ↔ ∀ x, x ∈ a.take n ↔ x ∈ b.take n := by
  simp only [sameSet, Bool.and_eq_true, subFirst_iff]
  constructor
  · rintro ⟨h1, h2⟩ x
    exact ⟨h1 x, h2 x⟩
  · intro h
    exact ⟨fun x => (h x).1, fun x => (h x).2⟩

theorem sameSet_refl (n : Nat) (a : Cell) : sameSet n a a = true := (sameSet_iff n a a).2 fun _ => Iff.rfl

theorem sameSet_congr (n : Nat) (a a' b b' : Cell) (ha : a.take n = a'.take n) (hb : b.take n = b'.take n) :
    sameSet n a b = sameSet n a' b' := by
  rw [Bool.eq_iff_iff, sameSet_iff, sameSet_iff, ha, hb]

/-! ### the stored form of a cell -/

/-- what `ref_cell_add` stores: the vertices, and the id column through `(REF_INT)` -/
def norm (ci : CellInfo) (c : Cell) : Cell := c.take ci.nodePer ++ (c.drop ci.nodePer).map wrap32

theorem wrap32_range (x : Int) : -2147483648 ≤ wrap32 x ∧ wrap32 x < 2147483648 := by
  unfold wrap32 toSigned ofSigned
  norm_num
  split <;> omega

theorem wrap32_of_range (y : Int) (h : -2147483648 ≤ y ∧ y < 2147483648) : wrap32 y = y := by
  unfold wrap32 toSigned ofSigned
  norm_num
  split <;> omega

theorem wrap32_idem (x : Int) : wrap32 (wrap32 x) = wrap32 x := wrap32_of_range _ (wrap32_range x)

theorem norm_take (ci : CellInfo) (c : Cell) (h : ci.nodePer ≤ c.length) :
    (norm ci c).take ci.nodePer = c.take ci.nodePer := by
  unfold norm
  rw [List.take_left' (by simp [h])]

theorem norm_idem (ci : CellInfo) (c : Cell) (h : ci.nodePer ≤ c.length) : norm ci (norm ci c) = norm ci c := by
  have hl : (c.take ci.nodePer).length = ci.nodePer := by simp [h]
  unfold norm
  rw [List.take_left' hl, List.drop_left' hl, List.map_map]
  congr 1
  apply List.map_congr_left
  intro x _
  exact wrap32_idem x

theorem norm_length (ci : CellInfo) (c : Cell) : (norm ci c).length = c.length := by
  unfold norm
  simp only [List.length_append, List.length_take, List.length_map, List.length_drop]
  omega

theorem norm_getD0 (ci : CellInfo) (c : Cell) (h1 : 1 ≤ ci.nodePer) (h : ci.nodePer ≤ c.length) :
    (norm ci c).getD 0 0 = c.getD 0 0 := by
  cases c with
  | nil => simp at h; omega
  | cons a as =>
    unfold norm
    have : ci.nodePer = (ci.nodePer - 1) + 1 := by omega
    rw [this, List.take_succ_cons]
    simp

theorem addCells_cons (ci : CellInfo) (stored : List Cell) (c : Cell) (cs : List Cell) :
    addCells ci stored (c :: cs) =
      addCells ci (if stored.any (sameSet ci.nodePer (norm ci c)) then stored else stored ++ [norm ci c]) cs := rfl

/-- nothing stored is lost, and what is stored is old or the stored form of a new cell -/
theorem addCells_mem (ci : CellInfo) (new : List Cell) : ∀ (stored : List Cell),
    (∀ d ∈ stored, d ∈ addCells ci stored new) ∧
    (∀ d ∈ addCells ci stored new, d ∈ stored ∨ ∃ c ∈ new, d = norm ci c) := by
  induction new with
  | nil => intro stored; simp [addCells]
  | cons c cs ih =>
    intro stored
    rw [addCells_cons]
    obtain ⟨h1, h2⟩ := ih (if stored.any (sameSet ci.nodePer (norm ci c)) then stored else stored ++ [norm ci c])
    constructor
    · intro d hd
      apply h1
      split
      · exact hd
      · exact List.mem_append_left _ hd
    · intro d hd
      rcases h2 d hd with h | ⟨c', hc', rfl⟩
      · split at h
        · exact Or.inl h
        · rcases List.mem_append.1 h with h | h
          · exact Or.inl h
          · simp only [List.mem_singleton] at h
            exact Or.inr ⟨c, List.mem_cons_self, h⟩
      · exact Or.inr ⟨c', List.mem_cons_of_mem _ hc', rfl⟩

/-- when no two cells at hand have the same vertex set, `ref_cell_with` never finds anything: plain append -/
theorem addCells_append (ci : CellInfo) (S : List Cell)
    (hS : ∀ a ∈ S, ∀ b ∈ S, sameSet ci.nodePer a b = true → a = b) (new : List Cell) : ∀ (stored : List Cell),
    (∀ x ∈ stored ++ new.map (norm ci), x ∈ S) → (stored ++ new.map (norm ci)).Nodup →
    addCells ci stored new = stored ++ new.map (norm ci) := by
  induction new with
  | nil => intro stored _ _; simp [addCells]
  | cons c cs ih =>
    intro stored hsub hnd
    rw [addCells_cons]
    have hnot : stored.any (sameSet ci.nodePer (norm ci c)) = false := by
      rw [Bool.eq_false_iff]
      intro hany
      rw [List.any_eq_true] at hany
      obtain ⟨d, hd, hsame⟩ := hany
      have hc : norm ci c ∈ S := hsub _ (by simp)
      have hdS : d ∈ S := hsub _ (by simp [hd])
      have := hS _ hc _ hdS hsame
      subst this
      rw [List.map_cons, List.nodup_append] at hnd
      exact hnd.2.2 _ hd _ List.mem_cons_self rfl
    rw [hnot]
    simp only [Bool.false_eq_true, if_false]
    rw [ih (stored ++ [norm ci c])]
    · simp
    · intro x hx; apply hsub; simpa using hx
    · simpa using hnd

/-! ### the vertex table -/

theorem has_iff (st : PRank) (g : Int) : st.has g = true ↔ ∃ n ∈ st.nodes, n.glob = g := by
  simp [PRank.has, List.any_eq_true]

theorem partOf_eq (st : PRank) (g q : Int) (hall : ∀ n ∈ st.nodes, n.glob = g → n.part = q)
    (hhas : st.has g = true) : st.partOf g = q := by
  unfold PRank.partOf
  cases hf : st.nodes.find? (fun n => n.glob == g) with
  | none =>
    rw [List.find?_eq_none] at hf
    obtain ⟨n, hn, rfl⟩ := (has_iff st g).1 hhas
    exact absurd (by simp) (hf n hn)
  | some n =>
    have hp := List.find?_some hf
    have hm := List.mem_of_find?_eq_some hf
    simp only [beq_iff_eq] at hp
    exact hall n hm hp

theorem addNodes_cons (me : Nat) (nodes : List PNode) (g : Int) (gs : List Int) :
    addNodes me nodes (g :: gs) =
      addNodes me (if nodes.any (fun n => n.glob == g) then nodes
                   else nodes ++ [{ glob := g, part := (me : Int), xyz := none }]) gs := rfl

/-- `ref_node_add_many`: the old table is a prefix; the new entries are fresh, default-initialised, from the list -/
theorem addNodes_spec (me : Nat) (gs : List Int) : ∀ (nodes : List PNode),
    ∃ extra, addNodes me nodes gs = nodes ++ extra ∧
      (∀ n ∈ extra, n.part = (me : Int) ∧ n.xyz = none ∧ n.glob ∈ gs ∧ ∀ m ∈ nodes, m.glob ≠ n.glob) ∧
      (∀ g ∈ gs, ∃ n ∈ nodes ++ extra, n.glob = g) ∧
      ((nodes.map (·.glob)).Nodup → ((nodes ++ extra).map (·.glob)).Nodup) := by
  induction gs with
  | nil => intro nodes; exact ⟨[], by simp [addNodes]⟩
  | cons g gs ih =>
    intro nodes
    rw [addNodes_cons]
    by_cases hany : nodes.any (fun n => n.glob == g) = true
    · rw [if_pos hany]
      obtain ⟨extra, he, h1, h2, h3⟩ := ih nodes
      refine ⟨extra, he, ?_, ?_, h3⟩
      · intro n hn
        obtain ⟨a, b, c, d⟩ := h1 n hn
        exact ⟨a, b, List.mem_cons_of_mem _ c, d⟩
      · intro g' hg'
        rcases List.mem_cons.1 hg' with rfl | hg'
        · rw [List.any_eq_true] at hany
          obtain ⟨n, hn, hng⟩ := hany
          exact ⟨n, List.mem_append_left _ hn, by simpa using hng⟩
        · exact h2 g' hg'
    · rw [if_neg hany]
      have hfresh : ∀ m ∈ nodes, m.glob ≠ g := by
        intro m hm hmg
        apply hany
        rw [List.any_eq_true]
        exact ⟨m, hm, by simp [hmg]⟩
      obtain ⟨extra, he, h1, h2, h3⟩ := ih (nodes ++ [{ glob := g, part := (me : Int), xyz := none }])
      refine ⟨{ glob := g, part := (me : Int), xyz := none } :: extra, by rw [he]; simp, ?_, ?_, ?_⟩
      · intro n hn
        rcases List.mem_cons.1 hn with rfl | hn
        · exact ⟨rfl, rfl, List.mem_cons_self, hfresh⟩
        · obtain ⟨a, b, c, d⟩ := h1 n hn
          exact ⟨a, b, List.mem_cons_of_mem _ c, fun m hm => d m (List.mem_append_left _ hm)⟩
      · intro g' hg'
        rcases List.mem_cons.1 hg' with rfl | hg'
        · exact ⟨({ glob := g', part := (me : Int), xyz := none } : PNode), by simp, rfl⟩
        · obtain ⟨n, hn, hng⟩ := h2 g' hg'
          exact ⟨n, by simpa using hn, hng⟩
      · intro hnd
        have : ((nodes ++ [({ glob := g, part := (me : Int), xyz := none } : PNode)]).map (·.glob)).Nodup := by
          rw [List.map_append, List.nodup_append]
          refine ⟨hnd, by simp, ?_⟩
          intro a ha b hb
          simp only [List.map_cons, List.map_nil, List.mem_singleton] at hb
          obtain ⟨m, hm, rfl⟩ := List.mem_map.1 ha
          rw [hb]
          exact hfresh m hm
        simpa using h3 this

/-- the part a vertex ends with after the `ref_node_part(…) = part` loop over `(global, part)` pairs -/
def partAfter (verts : List (Int × Int)) (g : Int) (p0 : Int) : Int :=
  verts.foldl (fun p gp => if gp.1 == g then gp.2 else p) p0

theorem setParts_eq (verts : List (Int × Int)) : ∀ (nodes : List PNode),
    verts.foldl (fun ns gp => setPart ns gp.1 gp.2) nodes =
      nodes.map fun n => { n with part := partAfter verts n.glob n.part } := by
  induction verts with
  | nil => intro nodes; simp [partAfter]
  | cons gp rest ih =>
    intro nodes
    rw [List.foldl_cons, ih, setPart, List.map_map]
    apply List.map_congr_left
    intro n _
    simp only [Function.comp, partAfter, List.foldl_cons]
    by_cases h : n.glob = gp.1
    · have h1 : (n.glob == gp.1) = true := by simp [h]
      have h2 : (gp.1 == n.glob) = true := by simp [h]
      simp only [h1, h2, if_true]
    · have h1 : (n.glob == gp.1) = false := by simp [h]
      have h2 : (gp.1 == n.glob) = false := by
        simp only [beq_eq_false_iff_ne, ne_eq]; exact fun e => h e.symm
      simp only [h1, h2, Bool.false_eq_true, if_false]

theorem partAfter_eq (verts : List (Int × Int)) (g q : Int) (hall : ∀ gp ∈ verts, gp.1 = g → gp.2 = q) :
    ∀ p0, (p0 = q ∨ ∃ gp ∈ verts, gp.1 = g) → partAfter verts g p0 = q := by
  induction verts with
  | nil => intro p0 h; rcases h with h | ⟨_, h, _⟩ <;> simp_all [partAfter]
  | cons gp rest ih =>
    intro p0 h
    have hall' : ∀ gp' ∈ rest, gp'.1 = g → gp'.2 = q := fun gp' h' => hall gp' (List.mem_cons_of_mem _ h')
    simp only [partAfter, List.foldl_cons]
    by_cases hg : gp.1 = g
    · have : (gp.1 == g) = true := by simp [hg]
      rw [this]
      exact ih hall' _ (Or.inl (hall gp List.mem_cons_self hg))
    · have : (gp.1 == g) = false := by simp [hg]
      rw [this]
      apply ih hall'
      rcases h with h | ⟨gp', hm, hg'⟩
      · exact Or.inl h
      · rcases List.mem_cons.1 hm with rfl | hm
        · exact absurd hg' hg
        · exact Or.inr ⟨gp', hm, hg'⟩

/-! ### the invariant of a rank while cells are placed -/

/-- `V g`: the coordinates of vertex `g` in the file.  The rank knows every vertex of its block with its coordinates,
    every `part` is the block owner, globals are distinct, every vertex of a stored cell is local, every ghost is a
    vertex of a stored cell. -/
structure RankInv (N : Int) (np : Nat) (V : Int → Vertex) (r : Nat) (st : PRank) : Prop where
  parts : ∀ n ∈ st.nodes, 0 ≤ n.glob ∧ n.glob < N ∧ n.part = imp N np n.glob
  nodup : (st.nodes.map (·.glob)).Nodup
  owned : ∀ g, 0 ≤ g → g < N → imp N np g = (r : Int) → st.has g = true
  xyz : ∀ n ∈ st.nodes, n.part = (r : Int) → n.xyz = some (V n.glob)
  ncells : st.cells.length = 16
  verts : ∀ k ci, cellInfos[k]? = some ci → ∀ c ∈ st.group k, ∀ x ∈ c.take ci.nodePer, st.has x = true
  ghosts : ∀ n ∈ st.nodes, n.part ≠ (r : Int) →
    ∃ k ci, cellInfos[k]? = some ci ∧ ∃ c ∈ st.group k, n.glob ∈ c.take ci.nodePer

theorem RankInv.partOf_eq {N : Int} {np : Nat} {V : Int → Vertex} {r : Nat} {st : PRank}
    (h : RankInv N np V r st) (g : Int) (hg : st.has g = true) : st.partOf g = imp N np g :=
  Refine.Lemmas.PartMeshb.partOf_eq st g _ (fun n hn e => by rw [← e]; exact (h.parts n hn).2.2) hg

theorem group_set_self (st : PRank) (k : Nat) (hk : k < st.cells.length) (x : List Cell) (nodes : List PNode) :
    ({ st with nodes := nodes, cells := st.cells.set k x } : PRank).group k = x := by
  simp [PRank.group, List.getD_eq_getElem?_getD, hk]

theorem group_set_ne (st : PRank) (k j : Nat) (hj : j ≠ k) (x : List Cell) (nodes : List PNode) :
    ({ st with nodes := nodes, cells := st.cells.set k x } : PRank).group j = st.group j := by
  simp [PRank.group, List.getD_eq_getElem?_getD, List.getElem?_set_ne (Ne.symm hj)]

theorem zip_map_self {α β : Type} (l : List α) (f : α → β) : l.zip (l.map f) = l.map fun x => (x, f x) := by
  induction l with
  | nil => rfl
  | cons a l ih => simp [ih]

/-- the `(global, part)` pairs of cells that carry the implicit parts -/
theorem verts_of_implicit (N : Int) (np : Nat) (ci : CellInfo) (cells : List Cell) :
    ((cells.map fun c => (c, implicitParts N np ci c)).flatMap fun cp => (cp.1.take ci.nodePer).zip cp.2) =
      cells.flatMap fun c => (c.take ci.nodePer).map fun g => (g, imp N np g) := by
  rw [List.flatMap_map]
  apply List.flatMap_congr
  intro c _
  simp only [implicitParts]
  exact zip_map_self _ _

/-- **`ref_cell_add_many_global` on a rank that satisfies the invariant**, for cells with in-range vertices carrying
    the implicit parts: it succeeds (`ref_node_local` finds every vertex), keeps the invariant, leaves the other
    groups, the geometry and the CAD bytes alone -/
theorem addManyGlobal_ok {N : Int} {np : Nat} {V : Int → Vertex} {r : Nat} {st : PRank}
    (hinv : RankInv N np V r st) (k : Nat) (ci : CellInfo) (hci : cellInfos[k]? = some ci)
    (cells : List Cell) (hok : ∀ c ∈ cells, CellOK ci N c)
    (hexact : addCells ci (st.group k) cells = st.group k ++ cells.map (norm ci)) :
    ∃ st', addManyGlobal r ci k (cells.map fun c => (c, implicitParts N np ci c)) st = .ok st' ∧
      RankInv N np V r st' ∧ st'.group k = st.group k ++ cells.map (norm ci) ∧
      (∀ j, j ≠ k → st'.group j = st.group j) ∧ st'.geoms = st.geoms ∧ st'.cad = st.cad ∧
      st'.nGlobal = st.nGlobal ∧
      st'.nodes.filter (fun n => n.part == (r : Int)) = st.nodes.filter (fun n => n.part == (r : Int)) := by
  have hk16 : k < st.cells.length := by
    rw [hinv.ncells]
    have := (List.getElem?_eq_some_iff.1 hci).1
    rw [cellInfos_length] at this
    exact this
  -- the (global, part) pairs
  set verts : List (Int × Int) := cells.flatMap fun c => (c.take ci.nodePer).map fun g => (g, imp N np g) with hverts
  have hvmem : ∀ gp ∈ verts, ∃ c ∈ cells, gp.1 ∈ c.take ci.nodePer ∧ gp.2 = imp N np gp.1 := by
    intro gp hgp
    simp only [hverts, List.mem_flatMap, List.mem_map] at hgp
    obtain ⟨c, hc, g, hg, rfl⟩ := hgp
    exact ⟨c, hc, hg, rfl⟩
  have hvrange : ∀ gp ∈ verts, 0 ≤ gp.1 ∧ gp.1 < N := by
    intro gp hgp
    obtain ⟨c, hc, hg, _⟩ := hvmem gp hgp
    exact (hok c hc).2 _ hg
  set newGlobals : List Int := (cells.map fun c => (c, implicitParts N np ci c)).flatMap fun cp =>
    ((cp.1.take ci.nodePer).zip cp.2).filterMap fun gp => if gp.2 != (r : Int) then some gp.1 else none
    with hnew
  have hnewmem : ∀ g, g ∈ newGlobals ↔ ∃ gp ∈ verts, gp.1 = g ∧ gp.2 ≠ (r : Int) := by
    intro g
    have e : newGlobals = verts.filterMap fun gp => if gp.2 != (r : Int) then some gp.1 else none := by
      rw [hnew, hverts, ← verts_of_implicit, List.filterMap_flatMap]
    rw [e, List.mem_filterMap]
    constructor
    · rintro ⟨gp, hgp, h⟩
      by_cases hp : gp.2 != (r : Int)
      · simp only [hp, if_true, Option.some.injEq] at h
        exact ⟨gp, hgp, h, by simpa using hp⟩
      · simp [hp] at h
    · rintro ⟨gp, hgp, rfl, hne⟩
      exact ⟨gp, hgp, by simp [hne]⟩
  obtain ⟨extra, he, hx1, hx2, hx3⟩ := addNodes_spec r newGlobals st.nodes
  -- every vertex is local after `ref_node_add_many`
  have hlocal : ∀ gp ∈ verts, ∃ n ∈ st.nodes ++ extra, n.glob = gp.1 := by
    intro gp hgp
    by_cases hp : gp.2 = (r : Int)
    · obtain ⟨c, hc, hg, hgp2⟩ := hvmem gp hgp
      obtain ⟨h0, h1⟩ := hvrange gp hgp
      have := hinv.owned gp.1 h0 h1 (by rw [← hgp2]; exact hp)
      obtain ⟨n, hn, hng⟩ := (has_iff st gp.1).1 this
      exact ⟨n, List.mem_append_left _ hn, hng⟩
    · exact hx2 gp.1 ((hnewmem gp.1).2 ⟨gp, hgp, rfl, hp⟩)
  have hcheck : (verts.any fun gp => !((st.nodes ++ extra).any fun n => n.glob == gp.1)) = false := by
    rw [Bool.eq_false_iff]
    intro hany
    rw [List.any_eq_true] at hany
    obtain ⟨gp, hgp, hb⟩ := hany
    obtain ⟨n, hn, hng⟩ := hlocal gp hgp
    have : ((st.nodes ++ extra).any fun n => n.glob == gp.1) = true := by
      rw [List.any_eq_true]; exact ⟨n, hn, by simp [hng]⟩
    simp [this] at hb
  -- unfold the call
  have hcall : addManyGlobal r ci k (cells.map fun c => (c, implicitParts N np ci c)) st =
      .ok { st with nodes := (st.nodes ++ extra).map fun n => { n with part := partAfter verts n.glob n.part },
                    cells := st.cells.set k (st.group k ++ cells.map (norm ci)) } := by
    unfold addManyGlobal
    simp only
    rw [verts_of_implicit, ← hverts, ← hnew, he, hcheck]
    simp only [Bool.false_eq_true, if_false]
    rw [setParts_eq]
    have hm : List.map (fun x : CellP => x.1) (cells.map fun c => (c, implicitParts N np ci c)) = cells := by
      rw [List.map_map]
      exact List.map_id'' (fun _ => rfl) cells
    rw [hm, hexact]
  -- the final part of every entry
  have hpart : ∀ n ∈ st.nodes ++ extra, 0 ≤ n.glob ∧ n.glob < N ∧ partAfter verts n.glob n.part = imp N np n.glob := by
    intro n hn
    have hall : ∀ gp ∈ verts, gp.1 = n.glob → gp.2 = imp N np n.glob := by
      intro gp hgp e
      obtain ⟨_, _, _, h2⟩ := hvmem gp hgp
      rw [h2, e]
    rcases List.mem_append.1 hn with hn | hn
    · obtain ⟨h0, h1, h2⟩ := hinv.parts n hn
      exact ⟨h0, h1, partAfter_eq verts _ _ hall _ (Or.inl h2)⟩
    · obtain ⟨_, _, hg, _⟩ := hx1 n hn
      obtain ⟨gp, hgp, e, _⟩ := (hnewmem n.glob).1 hg
      obtain ⟨h0, h1⟩ := hvrange gp hgp
      rw [e] at h0 h1
      exact ⟨h0, h1, partAfter_eq verts _ _ hall _ (Or.inr ⟨gp, hgp, e⟩)⟩
  refine ⟨_, hcall, ?_, group_set_self st k hk16 _ _, fun j hj => group_set_ne st k j hj _ _, rfl, rfl, rfl, ?_⟩
  · -- the invariant
    have hhas' : ∀ g, (∃ n ∈ st.nodes ++ extra, n.glob = g) →
        PRank.has { st with nodes := (st.nodes ++ extra).map fun n => { n with part := partAfter verts n.glob n.part },
                            cells := st.cells.set k (st.group k ++ cells.map (norm ci)) } g = true := by
      intro g ⟨n, hn, hng⟩
      rw [has_iff]
      exact ⟨_, List.mem_map.2 ⟨n, hn, rfl⟩, hng⟩
    have hgroup : ∀ j c, c ∈ PRank.group { st with
          nodes := (st.nodes ++ extra).map fun n => { n with part := partAfter verts n.glob n.part },
          cells := st.cells.set k (st.group k ++ cells.map (norm ci)) } j →
        c ∈ st.group j ∨ (j = k ∧ ∃ c0 ∈ cells, c = norm ci c0) := by
      intro j c hc
      by_cases hj : j = k
      · subst hj
        rw [group_set_self st j hk16] at hc
        rcases List.mem_append.1 hc with hc | hc
        · exact Or.inl hc
        · obtain ⟨c0, hc0, rfl⟩ := List.mem_map.1 hc
          exact Or.inr ⟨rfl, c0, hc0, rfl⟩
      · rw [group_set_ne st k j hj] at hc
        exact Or.inl hc
    constructor
    · intro n hn
      obtain ⟨m, hm, rfl⟩ := List.mem_map.1 hn
      exact hpart m hm
    · have := hx3 hinv.nodup
      simp only [List.map_map]
      exact this
    · intro g h0 h1 hi
      obtain ⟨n, hn, hng⟩ := (has_iff st g).1 (hinv.owned g h0 h1 hi)
      exact hhas' g ⟨n, List.mem_append_left _ hn, hng⟩
    · intro n hn hp
      obtain ⟨m, hm, rfl⟩ := List.mem_map.1 hn
      simp only at hp ⊢
      obtain ⟨_, _, hpa⟩ := hpart m hm
      rcases List.mem_append.1 hm with hm | hm
      · have := (hinv.parts m hm).2.2
        exact hinv.xyz m hm (by rw [this, ← hpa]; exact hp)
      · obtain ⟨_, _, hg, _⟩ := hx1 m hm
        obtain ⟨gp, hgp, e, hne⟩ := (hnewmem m.glob).1 hg
        obtain ⟨_, _, _, h2⟩ := hvmem gp hgp
        rw [hpa, ← e, ← h2] at hp
        exact absurd hp hne
    · simp [hinv.ncells]
    · intro j cj hcj c hc x hx
      rcases hgroup j c hc with hc | ⟨rfl, c0, hc0, rfl⟩
      · obtain ⟨n, hn, hng⟩ := (has_iff st x).1 (hinv.verts j cj hcj c hc x hx)
        exact hhas' x ⟨n, List.mem_append_left _ hn, hng⟩
      · rw [hci] at hcj
        injection hcj with hcj
        subst hcj
        have hlen : ci.nodePer ≤ c0.length := by
          have := (hok c0 hc0).1; unfold CellInfo.sizePer at this; omega
        rw [norm_take ci c0 hlen] at hx
        have hv : (x, imp N np x) ∈ verts := by
          simp only [hverts, List.mem_flatMap, List.mem_map]
          exact ⟨c0, hc0, x, hx, rfl⟩
        exact hhas' x (hlocal _ hv)
    · intro n hn hp
      obtain ⟨m, hm, rfl⟩ := List.mem_map.1 hn
      simp only at hp ⊢
      obtain ⟨_, _, hpa⟩ := hpart m hm
      rcases List.mem_append.1 hm with hm | hm
      · have hmp := (hinv.parts m hm).2.2
        obtain ⟨j, cj, hcj, c, hc, hx⟩ := hinv.ghosts m hm (by rw [hmp, ← hpa]; exact hp)
        refine ⟨j, cj, hcj, c, ?_, hx⟩
        by_cases hj : j = k
        · subst hj
          rw [group_set_self st j hk16]
          exact List.mem_append_left _ hc
        · rw [group_set_ne st k j hj]; exact hc
      · obtain ⟨_, _, hg, _⟩ := hx1 m hm
        obtain ⟨gp, hgp, e, _⟩ := (hnewmem m.glob).1 hg
        obtain ⟨c0, hc0, hx, _⟩ := hvmem gp hgp
        have hlen : ci.nodePer ≤ c0.length := by
          have := (hok c0 hc0).1; unfold CellInfo.sizePer at this; omega
        refine ⟨k, ci, hci, norm ci c0, ?_, ?_⟩
        · rw [group_set_self st k hk16]
          exact List.mem_append_right _ (List.mem_map.2 ⟨c0, hc0, rfl⟩)
        · rw [norm_take ci c0 hlen, ← e]; exact hx
  · -- owned entries are kept as they are, in their order; no new entry is owned
    show ((st.nodes ++ extra).map fun n => ({ n with part := partAfter verts n.glob n.part } : PNode)).filter
      (fun n => n.part == (r : Int)) = _
    rw [List.map_append, List.filter_append]
    have hA : st.nodes.map (fun n => ({ n with part := partAfter verts n.glob n.part } : PNode)) = st.nodes := by
      conv_rhs => rw [← List.map_id st.nodes]
      apply List.map_congr_left
      intro n hn
      obtain ⟨_, _, hpa⟩ := hpart n (List.mem_append_left _ hn)
      have := (hinv.parts n hn).2.2
      cases n with
      | mk g p x => simp only at hpa this ⊢; rw [hpa, ← this]; rfl
    have hB : (extra.map fun n => ({ n with part := partAfter verts n.glob n.part } : PNode)).filter
        (fun n => n.part == (r : Int)) = [] := by
      rw [List.filter_eq_nil_iff]
      intro n hn
      obtain ⟨m, hm, rfl⟩ := List.mem_map.1 hn
      obtain ⟨_, _, hpa⟩ := hpart m (List.mem_append_right _ hm)
      obtain ⟨_, _, hg, _⟩ := hx1 m hm
      obtain ⟨gp, hgp, e, hne⟩ := (hnewmem m.glob).1 hg
      obtain ⟨_, _, _, h2⟩ := hvmem gp hgp
      simp only [beq_iff_eq]
      rw [hpa, ← e, ← h2]
      exact hne
    rw [hA, hB, List.append_nil]

end Refine.Lemmas.PartMeshb
