import Refine.Lemmas.UgridRoundtrip
import Mathlib.Data.List.Perm.Basic

/-! sizes of the UGRID sections, the writer's boundary-face order, and the generated parallel-reader offsets -/
namespace Refine.Lemmas.Ugrid
open Refine.Gen Refine.Model.Endian Refine.Model.Ugrid
open Refine.Model.Meshb (Bytes Status Vertex P Cfg takeN encLE decLE toSigned ofSigned int32 wrap32 adjAdd adjAddAll)

/-! ### section sizes -/

theorem secHeader_length (fl : Flavor) (m : UMesh) : (secHeader fl m).length = 7 * fl.ibytes := by
  unfold secHeader
  rw [flatMap_encInt_length]; simp

theorem secNodes_length (fl : Flavor) (m : UMesh) : (secNodes fl m).length = m.nodes.length * 24 := by
  unfold secNodes; exact flatMap_encVertex_length fl _

theorem secConn_length (fl : Flavor) (k : Kind) {n : Nat} (cs : List (List Int)) (h : ∀ c ∈ cs, cellOk k n c = true) :
    (secConn fl k cs).length = cs.length * (k.nodePer * fl.ibytes) := by
  rw [secConn_eq, flatMap_encInt_length, flatten_connOf_length k cs h]
  rw [Nat.mul_comm k.nodePer cs.length, Nat.mul_assoc]

theorem secTags_length (fl : Flavor) (k : Kind) (cs : List (List Int)) :
    (secTags fl k cs).length = cs.length * fl.ibytes := by
  rw [secTags_eq, flatMap_encInt_length]; simp

theorem nodePer_tri : Kind.nodePer .tri = 3 := by decide
theorem nodePer_qua : Kind.nodePer .qua = 4 := by decide
theorem nodePer_tet : Kind.nodePer .tet = 4 := by decide
theorem nodePer_pyr : Kind.nodePer .pyr = 5 := by decide
theorem nodePer_pri : Kind.nodePer .pri = 6 := by decide
theorem nodePer_hex : Kind.nodePer .hex = 8 := by decide

/-! ### the writer's boundary-face order -/

theorem sortFaces_perm (k : Kind) (cs : List (List Int)) : (sortFaces k cs).Perm cs := List.mergeSort_perm _ _

theorem sortFaces_length (k : Kind) (cs : List (List Int)) : (sortFaces k cs).length = cs.length :=
  (sortFaces_perm k cs).length_eq

theorem mem_sortFaces {k : Kind} {cs : List (List Int)} {c : List Int} : c ∈ sortFaces k cs ↔ c ∈ cs :=
  (sortFaces_perm k cs).mem_iff

theorem sortFaces_sorted (k : Kind) (cs : List (List Int)) :
    (sortFaces k cs).Pairwise (fun a b => tagOf k a ≤ tagOf k b) := by
  have := List.pairwise_mergeSort (le := fun a b => decide (tagOf k a ≤ tagOf k b))
    (fun a b c hab hbc => by simp only [decide_eq_true_eq] at *; omega)
    (fun a b => by simp only [Bool.or_eq_true, decide_eq_true_eq]; omega) cs
  simpa [sortFaces] using this

theorem sortFaces_of_sorted (k : Kind) (cs : List (List Int))
    (h : cs.Pairwise (fun a b => tagOf k a ≤ tagOf k b)) : sortFaces k cs = cs := by
  unfold sortFaces
  apply List.mergeSort_of_pairwise
  simpa using h

theorem normalize_of_sorted (m : UMesh) (h : FacesSorted m) : normalize m = m := by
  unfold normalize
  rw [sortFaces_of_sorted .tri m.tri h.1, sortFaces_of_sorted .qua m.qua h.2]

theorem wf_normalize {m : UMesh} (hw : WellFormed m = true) : WellFormed (normalize m) = true := by
  obtain ⟨hn, hk⟩ := (wf_iff m).1 hw
  rw [wf_iff]
  refine ⟨by simpa [normalize] using hn, fun k => ?_⟩
  have := hk k
  cases k <;> simp only [normalize, UMesh.get] at this ⊢
  · exact ⟨by rw [sortFaces_length]; exact this.1, fun c hc => this.2 c (mem_sortFaces.1 hc)⟩
  · exact ⟨by rw [sortFaces_length]; exact this.1, fun c hc => this.2 c (mem_sortFaces.1 hc)⟩
  · exact this
  · exact this
  · exact this
  · exact this

theorem normalize_idem (m : UMesh) : normalize (normalize m) = normalize m :=
  normalize_of_sorted _ ⟨by simpa [normalize] using sortFaces_sorted .tri m.tri,
    by simpa [normalize] using sortFaces_sorted .qua m.qua⟩

/-! ### the header the readers see -/

/-- the seven counts of the file written for `m` -/
def hdrOf (m : UMesh) : List Int :=
  [m.nodes.length, m.tri.length, m.qua.length, m.tet.length, m.pyr.length, m.pri.length, m.hex.length].map
    fun (n : Nat) => (n : Int)

theorem hdrOf_normalize (m : UMesh) : hdrOf (normalize m) = hdrOf m := by
  simp [hdrOf, normalize, sortFaces_length]

theorem ibyte_eq (fl : Flavor) : UgridOffsets.ibyte fl.fat = (fl.ibytes : Int) := by
  unfold UgridOffsets.ibyte Flavor.ibytes; cases fl.fat <;> simp

theorem pack_ibyte_eq (fl : Flavor) : UgridOffsets.pack_ibyte fl.fat = (fl.ibytes : Int) := by
  unfold UgridOffsets.pack_ibyte Flavor.ibytes; cases fl.fat <;> simp

theorem ibytes_cases (fl : Flavor) : fl.ibytes = 4 ∨ fl.ibytes = 8 := by
  unfold Flavor.ibytes; cases fl.fat <;> simp

/-- positions of the ten sections of `encodeRaw fl m` (prefix sums of the section sizes) -/
def rawStart (fl : Flavor) (m : UMesh) (i : Nat) : Nat := ((sectionsRaw fl m).take i).flatten.length

/-- **offsets, raw layout**: every generated section offset of ref_part_bin_ugrid, evaluated on the header of the
    file, is the byte position of that section -/
theorem offsets_raw (fl : Flavor) (m : UMesh) (hw : WellFormed m = true) :
    offsetsOf .tri (UgridOffsets.ibyte fl.fat) (hdrOf m) = (((rawStart fl m 2 : Nat) : Int), ((rawStart fl m 4 : Nat) : Int)) ∧
    offsetsOf .qua (UgridOffsets.ibyte fl.fat) (hdrOf m) = (((rawStart fl m 3 : Nat) : Int), ((rawStart fl m 5 : Nat) : Int)) ∧
    (offsetsOf .tet (UgridOffsets.ibyte fl.fat) (hdrOf m)).1 = ((rawStart fl m 6 : Nat) : Int) ∧
    (offsetsOf .pyr (UgridOffsets.ibyte fl.fat) (hdrOf m)).1 = ((rawStart fl m 7 : Nat) : Int) ∧
    (offsetsOf .pri (UgridOffsets.ibyte fl.fat) (hdrOf m)).1 = ((rawStart fl m 8 : Nat) : Int) ∧
    (offsetsOf .hex (UgridOffsets.ibyte fl.fat) (hdrOf m)).1 = ((rawStart fl m 9 : Nat) : Int) := by
  obtain ⟨hn, hk⟩ := (wf_iff m).1 hw
  have htri := (hk .tri).2; have hqua := (hk .qua).2; have htet := (hk .tet).2
  have hpyr := (hk .pyr).2; have hpri := (hk .pri).2; have hhex := (hk .hex).2
  simp only [UMesh.get] at htri hqua htet hpyr hpri hhex
  have l0 := secHeader_length fl m
  have l1 := secNodes_length fl m
  have l2 := secConn_length fl .tri m.tri htri
  have l3 := secConn_length fl .qua m.qua hqua
  have l4 := secTags_length fl .tri m.tri
  have l5 := secTags_length fl .qua m.qua
  have l6 := secConn_length fl .tet m.tet htet
  have l7 := secConn_length fl .pyr m.pyr hpyr
  have l8 := secConn_length fl .pri m.pri hpri
  rw [nodePer_tri] at l2; rw [nodePer_qua] at l3; rw [nodePer_tet] at l6; rw [nodePer_pyr] at l7
  rw [nodePer_pri] at l8
  rw [ibyte_eq]
  simp only [offsetsOf, hdrOf, List.map_cons, List.map_nil, List.getD_cons_zero, List.getD_cons_succ, rawStart,
    sectionsRaw, List.take_succ_cons, List.take_zero, List.flatten_cons, List.flatten_nil, List.length_append,
    List.length_nil, UgridOffsets.tri_conn, UgridOffsets.tri_faceid, UgridOffsets.qua_conn, UgridOffsets.qua_faceid,
    UgridOffsets.tet_conn, UgridOffsets.pyr_conn, UgridOffsets.pri_conn, UgridOffsets.hex_conn, Prod.mk.injEq]
  rw [l0, l1, l2, l3, l4, l5, l6, l7, l8]
  rcases ibytes_cases fl with h | h <;> rw [h] <;> push_cast <;> refine ⟨⟨?_, ?_⟩, ⟨?_, ?_⟩, ?_, ?_, ?_, ?_⟩ <;> omega

end Refine.Lemmas.Ugrid
