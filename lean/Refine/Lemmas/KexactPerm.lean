import Refine.Lemmas.KexactReal
import Mathlib.Data.List.Perm.Basic
import Mathlib.Algebra.BigOperators.Group.List.Basic
import Mathlib.Tactic.Positivity

/-!
  The coded least-squares chain returns THE least-squares solution (normal equations hold, and they have
  one solution because a successful QR means full column rank); hence the result does not depend on the
  order of the rows (= order of the cloud = vertex numbering), for any right-hand side.
-/
namespace Refine.KexactReal
open Refine Refine.Model.Geom Refine.Model.Kexact Refine.ScalarReal Refine.GeomReal

/-! ### what `solve_ab` returns on `[R | c]`, arbitrary `c` -/

theorem backSub_length : ∀ (ps : List (List ℝ)) (x : List ℝ), backSub ps = some x → x.length = ps.length
  | [], x, h => by simp [backSub] at h; simp [← h]
  | p :: ps, x, h => by
    unfold backSub at h
    cases hrec : backSub ps with
    | none => rw [hrec] at h; cases h
    | some xs =>
      rw [hrec] at h
      dsimp only at h
      split at h
      · simp only [Option.some.injEq] at h
        rw [← h]; simp [backSub_length ps xs hrec]
      · cases h

theorem normRows_length : ∀ (R : List (List ℝ)) (c : List ℝ), c.length = R.length →
    (normRows R c).length = R.length
  | [], _, _ => by simp [normRows]
  | _ :: _, [], h => by simp at h
  | r :: R, c0 :: cs, h => by simp [normRows, normRows_length R cs (by simpa using h)]

theorem backSub_sol : ∀ (R : List (List ℝ)) (c x : List ℝ), Tri R → c.length = R.length →
    (∀ r ∈ R, r.headD 0 ≠ 0) → backSub (normRows R c) = some x → rhsOf R x = c
  | [], c, x, _, hc, _, h => by
    have : c = [] := by simpa using hc
    simp [this, rhsOf]
  | r :: R, [], _, _, hc, _, _ => by simp at hc
  | r :: R, c0 :: cs, x, ht, hc, hd, h => by
    obtain ⟨hrl, ht'⟩ := ht
    obtain ⟨d, rt, rfl⟩ : ∃ d rt, r = d :: rt := by
      cases r with
      | nil => simp at hrl
      | cons d rt => exact ⟨d, rt, rfl⟩
    have hd0 : d ≠ 0 := by simpa using hd (d :: rt) (by simp)
    have hcl : cs.length = R.length := by simpa using hc
    simp only [normRows, List.cons_append, List.headD_cons, List.map_cons] at h
    unfold backSub at h
    cases hrec : backSub (normRows R cs) with
    | none => rw [hrec] at h; cases h
    | some xs =>
      rw [hrec] at h
      have hxl : xs.length = R.length := by
        rw [backSub_length _ xs hrec, normRows_length R cs hcl]
      have hrtl : rt.length = xs.length := by simp at hrl; omega
      have ih := backSub_sol R cs xs ht' hcl (fun r' hr' => hd r' (by simp [hr'])) hrec
      simp only [List.headD_cons, List.tail_cons, List.map_append, List.map_cons, List.map_nil] at h
      have hzip : List.zip (rt.map (fun x => x / d) ++ [c0 / d]) xs =
          List.zip (rt.map (fun x => x / d)) xs := by
        have := List.zip_append (l₁ := rt.map (fun x => x / d)) (r₁ := [c0 / d])
          (l₂ := xs) (r₂ := []) (by simp [hrtl])
        simpa using this
      have hget : (rt.map (fun x => x / d) ++ [c0 / d]).getD xs.length (lit0 : ℝ) = c0 / d := by
        rw [← hrtl]
        simp [List.getD_eq_getElem?_getD]
      rw [hzip, hget, foldl_sub_mul, ipl_map_div] at h
      split at h
      case isFalse => cases h
      case isTrue =>
        simp only [Option.some.injEq] at h
        rw [← h]
        simp only [rhsOf, ipl_cons, div_eq, ih, List.cons.injEq, and_true]
        field_simp
        ring

theorem solve_sol (R : List (List ℝ)) (c x : List ℝ) (ill : Bool) (ht : Tri R) (hc : c.length = R.length)
    (h : solveAb (augment 0 R c) = some (ill, x)) : rhsOf R x = c ∧ x.length = R.length := by
  unfold solveAb at h
  rw [augment_length R _ 0 hc] at h
  cases he : elim R.length (augment 0 R c) with
  | none => rw [he] at h; cases h
  | some res =>
    obtain ⟨ill', ps⟩ := res
    rw [he] at h
    dsimp only at h
    obtain ⟨hps, hd⟩ := elim_upper R _ R.length ill' ps ht hc (le_refl _) he
    subst hps
    cases hb : backSub (normRows R c) with
    | none => rw [hb] at h; cases h
    | some x' =>
      rw [hb] at h
      simp only [Option.some.injEq, Prod.mk.injEq] at h
      rw [← h.2]
      exact ⟨backSub_sol R c x' ht hc hd hb, by rw [backSub_length _ x' hb, normRows_length R c hc]⟩

theorem solve_diag (R : List (List ℝ)) (c x : List ℝ) (ill : Bool) (ht : Tri R) (hc : c.length = R.length)
    (h : solveAb (augment 0 R c) = some (ill, x)) : ∀ r ∈ R, r.headD 0 ≠ 0 := by
  unfold solveAb at h
  rw [augment_length R _ 0 hc] at h
  cases he : elim R.length (augment 0 R c) with
  | none => rw [he] at h; cases h
  | some res =>
    obtain ⟨ill', ps⟩ := res
    exact (elim_upper R _ R.length ill' ps ht hc (le_refl _) he).2

theorem rhsOf_inj : ∀ (R : List (List ℝ)) (u v : List ℝ), Tri R → (∀ r ∈ R, r.headD 0 ≠ 0) →
    u.length = R.length → v.length = R.length → rhsOf R u = rhsOf R v → u = v
  | [], u, v, _, _, hu, hv, _ => by
    have h1 : u = [] := by simpa using hu
    have h2 : v = [] := by simpa using hv
    rw [h1, h2]
  | r :: R, [], _, _, _, hu, _, _ => by simp at hu
  | r :: R, _ :: _, [], _, _, _, hv, _ => by simp at hv
  | r :: R, u0 :: us, v0 :: vs, ht, hd, hu, hv, h => by
    obtain ⟨hrl, ht'⟩ := ht
    obtain ⟨d, rt, rfl⟩ : ∃ d rt, r = d :: rt := by
      cases r with
      | nil => simp at hrl
      | cons d rt => exact ⟨d, rt, rfl⟩
    have hd0 : d ≠ 0 := by simpa using hd (d :: rt) (by simp)
    simp only [rhsOf, ipl_cons, List.cons.injEq] at h
    obtain ⟨h0, hrest⟩ := h
    have := rhsOf_inj R us vs ht' (fun r' hr' => hd r' (by simp [hr'])) (by simpa using hu)
      (by simpa using hv) hrest
    subst this
    have : u0 = v0 := by
      have : d * u0 = d * v0 := by linarith
      exact mul_left_cancel₀ hd0 this
    rw [this]

/-! ### normal equations and uniqueness -/

/-- `Σ_j x_j · row[j]` -/
def rowDot (n : ℕ) (row x : List ℝ) : ℝ := ∑ j ∈ Finset.range n, x.getD j 0 * row.getD j 0

theorem list_sum_eq_range {β : Type} (d : β) (F : β → ℝ) : ∀ (l : List β),
    (l.map F).sum = ∑ i ∈ Finset.range l.length, F (l.getD i d)
  | [] => by simp
  | a :: l => by
    rw [List.map_cons, List.sum_cons, List.length_cons, Finset.sum_range_succ', list_sum_eq_range d F l]
    simp only [List.getD_cons_succ, List.getD_cons_zero]
    ring

/-- everything the chain knows on success -/
theorem lsq_facts (n : ℕ) (rws : List (List ℝ × ℝ)) (x : List ℝ) (hne : rws ≠ [])
    (h : lsq n (rws.map (·.1)) (rws.map (·.2)) = (KSt.ok, x)) :
    x.length = n ∧
    (∀ j, j < n → (rws.map (fun p => p.1.getD j 0 * (rowDot n p.1 x - p.2))).sum = 0) ∧
    (∀ x' : List ℝ, x'.length = n → (∀ p ∈ rws, rowDot n p.1 x = rowDot n p.1 x') → x = x') := by
  set rows := rws.map (·.1) with hrows
  set b := rws.map (·.2) with hbdef
  have hrne : rows ≠ [] := by simpa [hrows] using hne
  have hb : b.length = rows.length := by simp [hrows, hbdef]
  have hm : 0 < rows.length := List.length_pos_iff.mpr hrne
  set m := rows.length with hmdef
  have hmr : rws.length = m := by simp [hmdef, hrows]
  unfold lsq at h
  cases hq : qr (columns n rows) with
  | none => rw [hq] at h; simp at h
  | some QR =>
    obtain ⟨Q, R⟩ := QR
    rw [hq] at h
    dsimp only at h
    have hlen : ∀ a ∈ columns n rows, a.length = m := by
      intro a ha
      simp only [columns, List.mem_map] at ha
      obtain ⟨j, _, rfl⟩ := ha
      exact column_length rows j
    have hpair : List.Forall₂ (Pair m []) (columns n rows) (columns n rows) := by
      rw [List.forall₂_same]
      exact fun a ha => ⟨hlen a ha, by simp, fun _ _ => rfl⟩
    obtain ⟨hQ, hQtA, hspan⟩ := qrLoop_spec m hm _ _ [] Q R hlen hpair hq
    have hcl : (columns n rows).length = n := by simp [columns]
    have hRl : R.length = n := by rw [(QtA_length m Q R _ hQtA).2, hcl]
    have hQl : Q.length = n := by rw [(QtA_length m Q R _ hQtA).1, hcl]
    have htri := QtA_tri m Q R _ hQtA
    cases hs : solveAb (augment 0 R (Q.map (fun qj => dotl qj b))) with
    | none => rw [hs] at h; simp at h
    | some res =>
      obtain ⟨ill, x0⟩ := res
      rw [hs] at h
      dsimp only at h
      cases ill with
      | true => simp at h
      | false =>
        simp only [Bool.false_eq_true, if_false, Prod.mk.injEq, true_and] at h
        subst h
        have hcL : (Q.map (fun qj => dotl qj b)).length = R.length := by simp [hQl, hRl]
        obtain ⟨hsol, hxl⟩ := solve_sol R _ x0 false htri hcL hs
        have hdiag := solve_diag R _ x0 false htri hcL hs
        have hxn : x0.length = n := by rw [hxl, hRl]
        -- A y as a function
        have hlc : ∀ (y : List ℝ), y.length = n → ∀ i,
            lincomb (columns n rows) y i = rowDot n (rows.getD i []) y := by
          intro y hy i
          have := lincomb_columns rows i n 0 y hy
          rw [columns, List.range_eq_range', this]
          simp only [Nat.zero_add, rowDot]
        have hQy : ∀ (y : List ℝ), y.length = n →
            Q.map (fun q => ip m (vec q) (lincomb (columns n rows) y)) = rhsOf R y := fun y hy =>
          map_dot_eq_rhsOf m Q R _ y _ hQtA (by rw [hcl, hy]) (fun _ _ => rfl)
        have hrowsi : ∀ i, rows.getD i [] = (rws.getD i ([], 0)).1 := by
          intro i
          simp only [hrows, List.getD_eq_getElem?_getD, List.getElem?_map]
          cases rws[i]? <;> simp
        have hbi : ∀ i, vec b i = (rws.getD i ([], 0)).2 := by
          intro i
          simp only [vec, hbdef, List.getD_eq_getElem?_getD, List.getElem?_map]
          cases rws[i]? <;> simp
        refine ⟨hxn, ?_, ?_⟩
        · -- normal equations: the residual is orthogonal to every q, hence to every column
          intro j hj
          set e : ℕ → ℝ := fun i => lincomb (columns n rows) x0 i - 1 * vec b i with he
          have heq : ∀ q ∈ Q, ip m (vec q) e = 0 := by
            intro q hq
            rw [he, ip_sub_smul_right, one_mul]
            have h1 := hQy x0 hxn
            rw [hsol] at h1
            have h2 := (List.map_inj_left.mp h1) q hq
            rw [h2, dotl_eq_ip q b m (hQ q hq).1 hb]; ring
          have hcol := hspan e (by simp) (fun q hq => by rw [ip_comm]; exact heq q hq)
            (column rows j) (by simp only [columns, List.mem_map, List.mem_range]; exact ⟨j, hj, rfl⟩)
          have hL : (rws.map (fun p => p.1.getD j 0 * (rowDot n p.1 x0 - p.2))).sum =
              ip m (vec (column rows j)) e := by
            rw [list_sum_eq_range ([], (0 : ℝ)), hmr]
            unfold ip
            refine Finset.sum_congr rfl (fun i _ => ?_)
            rw [vec_column, he]
            simp only [hlc x0 hxn, hrowsi, hbi, one_mul]
          rw [hL, ip_comm]
          exact hcol
        · intro x' hx' hsame
          have hfun : ∀ i, i < m → lincomb (columns n rows) x0 i = lincomb (columns n rows) x' i := by
            intro i hi
            rw [hlc x0 hxn, hlc x' hx', hrowsi]
            refine hsame _ ?_
            rw [List.getD_eq_getElem?_getD, List.getElem?_eq_getElem (by rw [hmr]; exact hi)]
            exact List.getElem_mem _
          have h1 := hQy x0 hxn
          have h2 := hQy x' hx'
          have : rhsOf R x0 = rhsOf R x' := by
            rw [← h1, ← h2]
            exact List.map_congr_left (fun q _ => ip_congr_right _ hfun)
          exact rhsOf_inj R x0 x' htri hdiag (by rw [hxn, hRl]) (by rw [hx', hRl]) this

theorem list_sum_map_sub {β : Type} (f g : β → ℝ) : ∀ (l : List β),
    (l.map (fun p => f p - g p)).sum = (l.map f).sum - (l.map g).sum
  | [] => by simp
  | a :: l => by simp only [List.map_cons, List.sum_cons, list_sum_map_sub f g l]; ring

theorem sum_sq_zero {β : Type} (f : β → ℝ) : ∀ (l : List β), (l.map (fun p => f p * f p)).sum = 0 →
    ∀ p ∈ l, f p = 0
  | [], _, p, hp => by simp at hp
  | a :: l, h, p, hp => by
    rw [List.map_cons, List.sum_cons] at h
    have hnn : 0 ≤ (l.map (fun p => f p * f p)).sum :=
      List.sum_nonneg (by intro y hy; obtain ⟨q, _, rfl⟩ := List.mem_map.mp hy; exact mul_self_nonneg _)
    have ha : f a * f a = 0 := by nlinarith [mul_self_nonneg (f a)]
    have hl : (l.map (fun p => f p * f p)).sum = 0 := by nlinarith [mul_self_nonneg (f a)]
    rcases List.mem_cons.mp hp with rfl | hp
    · exact mul_self_eq_zero.mp ha
    · exact sum_sq_zero f l hl p hp

theorem sum_mul_list_sum {β : Type} (n : ℕ) (c : ℕ → ℝ) (F : ℕ → β → ℝ) : ∀ (l : List β),
    ∑ j ∈ Finset.range n, c j * (l.map (F j)).sum =
      (l.map (fun p => ∑ j ∈ Finset.range n, c j * F j p)).sum
  | [] => by simp
  | a :: l => by
    simp only [List.map_cons, List.sum_cons, mul_add, Finset.sum_add_distrib, sum_mul_list_sum n c F l]

/-- the result of the coded least-squares chain does not depend on the order of the rows -/
theorem lsq_perm (n : ℕ) (rws rws' : List (List ℝ × ℝ)) (hp : rws.Perm rws') (x x' : List ℝ)
    (h : lsq n (rws.map (·.1)) (rws.map (·.2)) = (KSt.ok, x))
    (h' : lsq n (rws'.map (·.1)) (rws'.map (·.2)) = (KSt.ok, x')) : x = x' := by
  by_cases hne : rws = []
  · subst hne
    have : rws' = [] := by simpa using hp.symm.eq_nil
    subst this
    rw [h] at h'
    simpa using h'
  have hne' : rws' ≠ [] := fun h0 => hne (by rw [h0] at hp; exact hp.eq_nil)
  obtain ⟨hxn, hN, huniq⟩ := lsq_facts n rws x hne h
  obtain ⟨hxn', hN', _⟩ := lsq_facts n rws' x' hne' h'
  refine huniq x' hxn' ?_
  -- both satisfy the normal equations of the same rows
  have hN'' : ∀ j, j < n → (rws.map (fun p => p.1.getD j 0 * (rowDot n p.1 x' - p.2))).sum = 0 := by
    intro j hj
    exact ((hp.map (fun p : List ℝ × ℝ => p.1.getD j 0 * (rowDot n p.1 x' - p.2))).sum_eq).trans (hN' j hj)
  have hdiff : ∀ j, j < n →
      (rws.map (fun p => p.1.getD j 0 * (rowDot n p.1 x - rowDot n p.1 x'))).sum = 0 := by
    intro j hj
    have e1 := hN j hj
    have e2 := hN'' j hj
    have : (rws.map (fun p => p.1.getD j 0 * (rowDot n p.1 x - rowDot n p.1 x'))).sum =
        (rws.map (fun p => p.1.getD j 0 * (rowDot n p.1 x - p.2))).sum -
        (rws.map (fun p => p.1.getD j 0 * (rowDot n p.1 x' - p.2))).sum := by
      rw [← list_sum_map_sub]
      congr 1
      exact List.map_congr_left (fun p _ => by ring)
    rw [this, e1, e2, sub_zero]
  have hq : (rws.map (fun p => (rowDot n p.1 x - rowDot n p.1 x') *
      (rowDot n p.1 x - rowDot n p.1 x'))).sum = 0 := by
    have hs := sum_mul_list_sum n (fun j => x.getD j 0 - x'.getD j 0)
      (fun j (p : List ℝ × ℝ) => p.1.getD j 0 * (rowDot n p.1 x - rowDot n p.1 x')) rws
    have hz : ∑ j ∈ Finset.range n, (x.getD j 0 - x'.getD j 0) *
        (rws.map (fun p => p.1.getD j 0 * (rowDot n p.1 x - rowDot n p.1 x'))).sum = 0 :=
      Finset.sum_eq_zero (fun j hj => by rw [hdiff j (Finset.mem_range.mp hj), mul_zero])
    rw [hs] at hz
    rw [← hz]
    congr 1
    refine List.map_congr_left (fun p _ => ?_)
    have : ∑ j ∈ Finset.range n, (x.getD j 0 - x'.getD j 0) *
        (p.1.getD j 0 * (rowDot n p.1 x - rowDot n p.1 x')) =
        (∑ j ∈ Finset.range n, (x.getD j 0 - x'.getD j 0) * p.1.getD j 0) *
          (rowDot n p.1 x - rowDot n p.1 x') := by
      rw [Finset.sum_mul]
      exact Finset.sum_congr rfl (fun j _ => by ring)
    rw [this]
    congr 1
    unfold rowDot
    rw [← Finset.sum_sub_distrib]
    exact Finset.sum_congr rfl (fun j _ => by ring)
  intro p hpm
  have := sum_sq_zero (fun p : List ℝ × ℝ => rowDot n p.1 x - rowDot n p.1 x') rws hq p hpm
  linarith

end Refine.KexactReal
