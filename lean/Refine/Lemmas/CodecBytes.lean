import Refine.Model.Meshb
import Mathlib.Tactic.Ring
import Mathlib.Tactic.Linarith

/-! byte-level lemmas for the codec models: little-endian words, two's complement, checked reads -/
namespace Refine.Lemmas.Codec
open Refine.Model.Meshb

@[simp] theorem encLE_length (k n : Nat) : (encLE k n).length = k := by
  induction k generalizing n with
  | zero => rfl
  | succ k ih => simp [encLE, ih]

theorem decLE_encLE (k n : Nat) : decLE (encLE k n) = n % 256 ^ k := by
  induction k generalizing n with
  | zero => simp [encLE, decLE, Nat.mod_one]
  | succ k ih =>
    simp only [encLE, decLE, ih]
    have h1 : (UInt8.ofNat (n % 256)).toNat = n % 256 := by
      rw [UInt8.toNat_ofNat']; omega
    rw [h1, Nat.pow_succ, Nat.mul_comm (256 ^ k) 256, Nat.mod_mul]

theorem decLE_lt (bs : Bytes) : decLE bs < 256 ^ bs.length := by
  induction bs with
  | nil => simp [decLE]
  | cons b bs ih =>
    simp only [decLE, List.length_cons, Nat.pow_succ]
    have := b.toNat_lt
    omega

theorem decLE_encLE_of_lt {k n : Nat} (h : n < 256 ^ k) : decLE (encLE k n) = n := by
  rw [decLE_encLE, Nat.mod_eq_of_lt h]

/-! ### two's complement -/

theorem ofSigned_lt (bits : Nat) (x : Int) : ofSigned bits x < 2 ^ bits := by
  unfold ofSigned
  have hpos : (0 : Int) < ((2 ^ bits : Nat) : Int) := by positivity
  have h1 := Int.emod_lt_of_pos x hpos
  have h0 := Int.emod_nonneg x (ne_of_gt hpos)
  omega

theorem toSigned_ofSigned {bits : Nat} (hb : 0 < bits) {x : Int}
    (h : -((2 ^ (bits - 1) : Nat) : Int) ≤ x ∧ x < ((2 ^ (bits - 1) : Nat) : Int)) :
    toSigned bits (ofSigned bits x) = x := by
  obtain ⟨lo, hi⟩ := h
  have hp : (2 ^ bits : Nat) = 2 * 2 ^ (bits - 1) := by
    cases bits with
    | zero => omega
    | succ b => simp [Nat.pow_succ, Nat.mul_comm]
  unfold toSigned ofSigned
  set P : Nat := 2 ^ (bits - 1) with hP
  have hPpos : 0 < P := by positivity
  rw [hp]
  by_cases hx : 0 ≤ x
  · have : x % ((2 * P : Nat) : Int) = x := Int.emod_eq_of_lt hx (by push_cast; omega)
    rw [this]
    have : x.toNat < P := by omega
    simp only [this, if_true]
    omega
  · have hx' : x < 0 := by omega
    have : x % ((2 * P : Nat) : Int) = x + (2 * P : Nat) := by
      rw [← Int.add_emod_right]
      exact Int.emod_eq_of_lt (by push_cast; omega) (by push_cast; omega)
    rw [this]
    have h2 : ¬ ((x + ((2 * P : Nat) : Int)).toNat < P) := by push_cast; omega
    simp only [h2, if_false]
    push_cast
    omega

theorem int32_iff (x : Int) : int32 x ↔ -((2 ^ 31 : Nat) : Int) ≤ x ∧ x < ((2 ^ 31 : Nat) : Int) := by
  unfold int32; norm_num

theorem toSigned32_ofSigned32 {x : Int} (h : int32 x) : toSigned 32 (ofSigned 32 x) = x :=
  toSigned_ofSigned (by norm_num) ((int32_iff x).1 h)

theorem wrap32_of_int32 {x : Int} (h : int32 x) : wrap32 x = x := toSigned32_ofSigned32 h

/-- a 32-bit value sign-extended to 64 bits and truncated back -/
theorem ofSigned64_mod {x : Int} (h : int32 x) : ofSigned 64 x % 2 ^ 32 = ofSigned 32 x := by
  unfold ofSigned
  obtain ⟨lo, hi⟩ := h
  by_cases hx : 0 ≤ x
  · have e1 : x % ((2 ^ 64 : Nat) : Int) = x := Int.emod_eq_of_lt hx (by norm_num; omega)
    have e2 : x % ((2 ^ 32 : Nat) : Int) = x := Int.emod_eq_of_lt hx (by norm_num; omega)
    rw [e1, e2]
    have : x.toNat < 2 ^ 32 := by omega
    exact Nat.mod_eq_of_lt this
  · have e1 : x % ((2 ^ 64 : Nat) : Int) = x + (2 ^ 64 : Nat) := by
      rw [← Int.add_emod_right]; exact Int.emod_eq_of_lt (by norm_num; omega) (by norm_num; omega)
    have e2 : x % ((2 ^ 32 : Nat) : Int) = x + (2 ^ 32 : Nat) := by
      rw [← Int.add_emod_right]; exact Int.emod_eq_of_lt (by norm_num; omega) (by norm_num; omega)
    rw [e1, e2]
    norm_num
    omega

/-! ### checked reads -/

theorem takeN_append (a r : Bytes) : takeN a.length (a ++ r) = .ok (a, r) := by
  induction a with
  | nil => cases r <;> rfl
  | cons b a ih => simp [takeN, ih]

theorem takeN_ok {n : Nat} {s a r : Bytes} (h : takeN n s = .ok (a, r)) : s = a ++ r ∧ a.length = n := by
  induction n generalizing s a r with
  | zero =>
    cases s <;> simp [takeN] at h <;> obtain ⟨rfl, rfl⟩ := h <;> simp
  | succ n ih =>
    cases s with
    | nil => simp [takeN] at h
    | cons b s =>
      simp only [takeN] at h
      cases h' : takeN n s with
      | error e => simp [h'] at h
      | ok p =>
        obtain ⟨a', r'⟩ := p
        simp [h'] at h
        obtain ⟨rfl, rfl⟩ := h
        obtain ⟨rfl, hl⟩ := ih h'
        simp [hl]

theorem takeN_error {n : Nat} {s : Bytes} {e : Status} (h : takeN n s = .error e) : e = .failure := by
  induction n generalizing s with
  | zero => cases s <;> simp [takeN] at h
  | succ n ih =>
    cases s with
    | nil => simp [takeN] at h; exact h.symm
    | cons b s =>
      simp only [takeN] at h
      cases h' : takeN n s with
      | error e' => simp [h'] at h; subst h; exact ih h'
      | ok p => simp [h'] at h

theorem rdU_append (k : Nat) (a r : Bytes) (h : a.length = k) : rdU k (a ++ r) = .ok (decLE a, r) := by
  subst h; simp [rdU, takeN_append]

theorem rdU_ok {k : Nat} {s r : Bytes} {n : Nat} (h : rdU k s = .ok (n, r)) :
    ∃ a, s = a ++ r ∧ a.length = k ∧ n = decLE a := by
  unfold rdU at h
  cases h' : takeN k s with
  | error e => simp [h'] at h
  | ok p =>
    obtain ⟨a, r'⟩ := p
    simp [h'] at h
    obtain ⟨rfl, rfl⟩ := h
    obtain ⟨hs, hl⟩ := takeN_ok h'
    exact ⟨a, hs, hl, rfl⟩

theorem rdU_len {k : Nat} {s r : Bytes} {n : Nat} (h : rdU k s = .ok (n, r)) : s.length = k + r.length := by
  obtain ⟨a, rfl, hl, _⟩ := rdU_ok h; simp [hl]

theorem rdI32_len {s r : Bytes} {n : Int} (h : rdI32 s = .ok (n, r)) : s.length = 4 + r.length := by
  unfold rdI32 at h
  cases h' : rdU 4 s with
  | error e => simp [h'] at h
  | ok p => obtain ⟨m, r'⟩ := p; simp [h'] at h; obtain ⟨_, rfl⟩ := h; exact rdU_len h'

theorem rdInt_len {v : Nat} {s r : Bytes} {n : Int} (h : rdInt v s = .ok (n, r)) :
    s.length = intSize v + r.length := by
  unfold rdInt at h
  unfold intSize
  split at h
  · have : ¬ 3 < v := by omega
    simp [this]; exact rdI32_len h
  · have : 3 < v := by omega
    simp [this]
    cases h' : rdU 8 s with
    | error e => simp [h'] at h
    | ok p => obtain ⟨m, r'⟩ := p; simp [h'] at h; obtain ⟨_, rfl⟩ := h; exact rdU_len h'

theorem rdPos_len {v : Nat} {s r : Bytes} {n : Int} (h : rdPos v s = .ok (n, r)) :
    s.length = fpSize v + r.length := by
  unfold rdPos at h
  unfold fpSize
  split at h
  · have : 2 < v := by omega
    simp [this]
    cases h' : rdU 8 s with
    | error e => simp [h'] at h
    | ok p => obtain ⟨m, r'⟩ := p; simp [h'] at h; obtain ⟨_, rfl⟩ := h; exact rdU_len h'
  · have : ¬ 2 < v := by omega
    simp [this]; exact rdI32_len h

theorem rdF64_len {s r : Bytes} {x : UInt64} (h : rdF64 s = .ok (x, r)) : s.length = 8 + r.length := by
  unfold rdF64 at h
  cases h' : rdU 8 s with
  | error e => simp [h'] at h
  | ok p => obtain ⟨m, r'⟩ := p; simp [h'] at h; obtain ⟨_, rfl⟩ := h; exact rdU_len h'

theorem rdReal_len {v : Nat} {s r : Bytes} {x : UInt64} (h : rdReal v s = .ok (x, r)) :
    s.length ≥ 4 + r.length := by
  unfold rdReal at h
  split at h
  · cases h' : rdU 4 s with
    | error e => simp [h'] at h
    | ok p => obtain ⟨m, r'⟩ := p; simp [h'] at h; obtain ⟨_, rfl⟩ := h; have := rdU_len h'; omega
  · have := rdF64_len h; omega

/-! ### encoders followed by the matching reader -/

theorem le32_length (n : Nat) : (le32 n).length = 4 := by simp [le32]

theorem rdI32_le32 {n : Nat} (h : n < 2 ^ 31) (r : Bytes) : rdI32 (le32 n ++ r) = .ok ((n : Int), r) := by
  unfold rdI32
  have h' : n < 2147483648 := by simpa using h
  rw [le32, rdU_append 4 _ r (by simp), decLE_encLE_of_lt (by norm_num; omega)]
  simp [toSigned, h']

theorem encInt_length (v : Nat) (x : Int) : (encInt v x).length = intSize v := by
  unfold encInt intSize
  by_cases h : v < 4
  · have : ¬ 3 < v := by omega
    simp [h, this]
  · have : 3 < v := by omega
    simp [h, this]

theorem encPos_length (v : Nat) (x : Int) : (encPos v x).length = fpSize v := by
  unfold encPos fpSize
  by_cases h : 3 ≤ v
  · have : 2 < v := by omega
    simp [h, this]
  · have : ¬ 2 < v := by omega
    simp [h, this]

@[simp] theorem encF64_length (u : UInt64) : (encF64 u).length = 8 := by simp [encF64]

theorem rdInt_encInt (v : Nat) {x : Int} (h : int32 x) (r : Bytes) :
    rdInt v (encInt v x ++ r) = .ok (x, r) := by
  unfold rdInt encInt
  by_cases hv : v < 4
  · simp only [hv, if_true]
    unfold rdI32
    rw [rdU_append 4 _ r (by simp), decLE_encLE_of_lt (by have := ofSigned_lt 32 x; norm_num at this ⊢; omega)]
    simp [toSigned32_ofSigned32 h]
  · simp only [hv, if_false]
    rw [rdU_append 8 _ r (by simp), decLE_encLE_of_lt (by have := ofSigned_lt 64 x; norm_num at this ⊢; omega)]
    have e := ofSigned64_mod h
    norm_num at e
    simp [e, toSigned32_ofSigned32 h]

/-- a file position fits the position field of version `v` -/
def posFits (v : Nat) (p : Int) : Prop :=
  if 3 ≤ v then -((2 ^ 63 : Nat) : Int) ≤ p ∧ p < ((2 ^ 63 : Nat) : Int)
  else -((2 ^ 31 : Nat) : Int) ≤ p ∧ p < ((2 ^ 31 : Nat) : Int)

theorem rdPos_encPos (v : Nat) {p : Int} (h : posFits v p) (r : Bytes) :
    rdPos v (encPos v p ++ r) = .ok (p, r) := by
  unfold rdPos encPos
  unfold posFits at h
  by_cases hv : 3 ≤ v
  · simp only [hv, if_true] at h ⊢
    rw [rdU_append 8 _ r (by simp), decLE_encLE_of_lt (by have := ofSigned_lt 64 p; norm_num at this ⊢; omega)]
    simp [toSigned_ofSigned (bits := 64) (by norm_num) (by simpa using h)]
  · simp only [hv, if_false] at h ⊢
    unfold rdI32
    rw [rdU_append 4 _ r (by simp), decLE_encLE_of_lt (by have := ofSigned_lt 32 p; norm_num at this ⊢; omega)]
    simp [toSigned_ofSigned (bits := 32) (by norm_num) (by simpa using h)]

theorem rdF64_encF64 (u : UInt64) (r : Bytes) : rdF64 (encF64 u ++ r) = .ok (u, r) := by
  unfold rdF64 encF64
  rw [rdU_append 8 _ r (by simp), decLE_encLE_of_lt (by have := u.toNat_lt; norm_num at this ⊢; omega)]
  simp

theorem rdReal_encF64 {v : Nat} (hv : v ≠ 1) (u : UInt64) (r : Bytes) :
    rdReal v (encF64 u ++ r) = .ok (u, r) := by
  unfold rdReal; simp [hv, rdF64_encF64]

end Refine.Lemmas.Codec
