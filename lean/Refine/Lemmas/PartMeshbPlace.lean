import Refine.Lemmas.PartMeshbRank
import Refine.Lemmas.PartMeshbRoute
import Mathlib.Data.List.Nodup

/-! all ranks of the parallel meshb reader while the cells are placed: the world after every chunk, after
    `ref_migrate_shufflin_cell`, after every group — in closed form -/
namespace Refine.Lemmas.PartMeshb
open Refine.Model.Meshb Refine.Model.PartMeshb
open Refine.Model.Comm (World)
open Refine.Gen.PartMacros

/-! ### the closed form -/

/-- the cells of `cs` routed to rank `r` by the reading loop: FIRST vertex owned by `r`, file order -/
def directRaw (N : Int) (np r : Nat) (cs : List Cell) : List Cell :=
  cs.filter fun c => destOf N np c == (r : Int)

/-- the cell has a vertex owned by rank `r` -/
def touches (N : Int) (np : Nat) (ci : CellInfo) (r : Nat) (c : Cell) : Bool :=
  (c.take ci.nodePer).any fun g => imp N np g == (r : Int)

/-- what rank `r` receives in `ref_migrate_shufflin_cell`: from every other rank `s`, in rank order, the cells routed
    to `s` that touch `r` -/
def recvRaw (N : Int) (np : Nat) (ci : CellInfo) (r : Nat) (cs : List Cell) : List Cell :=
  (List.range np).flatMap fun s => if s = r then [] else (directRaw N np s cs).filter (touches N np ci r)

/-- the cells of the group on rank `r` when `ref_part_meshb_cell` returns, in local order -/
def finalRaw (N : Int) (np : Nat) (ci : CellInfo) (r : Nat) (cs : List Cell) : List Cell :=
  directRaw N np r cs ++ recvRaw N np ci r cs

/-- no two cells of the group have the same vertex set (on their stored forms) -/
def Distinct (ci : CellInfo) (cs : List Cell) : Prop :=
  (∀ a ∈ cs.map (norm ci), ∀ b ∈ cs.map (norm ci), sameSet ci.nodePer a b = true → a = b) ∧
  (cs.map (norm ci)).Nodup

theorem CellOK.len {ci : CellInfo} {N : Int} {c : Cell} (h : CellOK ci N c) : ci.nodePer ≤ c.length := by
  have := h.1; unfold CellInfo.sizePer at this; omega

theorem CellOK.norm {ci : CellInfo} {N : Int} {c : Cell} (h : CellOK ci N c) : CellOK ci N (norm ci c) := by
  refine ⟨by rw [norm_length]; exact h.1, ?_⟩
  rw [norm_take ci c h.len]; exact h.2

theorem dest_range {ci : CellInfo} {N : Int} {np : Nat} {c : Cell} (hci : 2 ≤ ci.nodePer) (hnp : 1 ≤ np)
    (h : CellOK ci N c) :
    c.getD 0 0 ∈ c.take ci.nodePer ∧ 0 ≤ destOf N np c ∧ destOf N np c < (np : Int) := by
  have hlen := h.len
  have hmem : c.getD 0 0 ∈ c.take ci.nodePer := by
    cases c with
    | nil => simp at hlen; omega
    | cons a as =>
      have : ci.nodePer = (ci.nodePer - 1) + 1 := by omega
      rw [this, List.take_succ_cons]; simp
  obtain ⟨h0, h1⟩ := h.2 _ hmem
  obtain ⟨i0, i1, _, _⟩ := Refine.Lemmas.Part.implicit_bracket N (np : Int) (c.getD 0 0) (by omega) (by omega) h0 h1
  exact ⟨hmem, i0, i1⟩

theorem imp_range {N : Int} {np : Nat} {g : Int} (hnp : 1 ≤ np) (h0 : 0 ≤ g) (h1 : g < N) :
    0 ≤ imp N np g ∧ imp N np g < (np : Int) := by
  obtain ⟨i0, i1, _, _⟩ := Refine.Lemmas.Part.implicit_bracket N (np : Int) g (by omega) (by omega) h0 h1
  exact ⟨i0, i1⟩

theorem destOf_norm {ci : CellInfo} {N : Int} {np : Nat} {c : Cell} (hci : 2 ≤ ci.nodePer) (h : CellOK ci N c) :
    destOf N np (norm ci c) = destOf N np c := by
  unfold destOf; rw [norm_getD0 ci c (by omega) h.len]

theorem touches_norm {ci : CellInfo} {N : Int} {np : Nat} {c : Cell} (r : Nat) (h : CellOK ci N c) :
    touches N np ci r (norm ci c) = touches N np ci r c := by
  unfold touches; rw [norm_take ci c h.len]

theorem routeChunk_ok {ci : CellInfo} {N : Int} {np : Nat} {ch : List Cell} (hci : 2 ≤ ci.nodePer) (hnp : 1 ≤ np)
    (h : ∀ c ∈ ch, CellOK ci N c) :
    routeChunk N np ch = .ok ((List.range np).map fun r => directRaw N np r ch) := by
  unfold routeChunk
  rw [if_neg]
  · rfl
  · intro hany
    rw [List.any_eq_true] at hany
    obtain ⟨d, hd, hbad⟩ := hany
    obtain ⟨c, hc, rfl⟩ := List.mem_map.1 hd
    obtain ⟨_, i0, i1⟩ := dest_range (np := np) hci hnp (h c hc)
    have := of_decide_eq_true hbad
    omega

theorem any_congr_mem {α : Type} {l : List α} {p q : α → Bool} (h : ∀ x ∈ l, p x = q x) : l.any p = l.any q := by
  induction l with
  | nil => rfl
  | cons a l ih =>
    simp only [List.any_cons]
    rw [h a List.mem_cons_self, ih (fun x hx => h x (List.mem_cons_of_mem _ hx))]

/-! ### per-rank maps -/

theorem mapRanksFrom_rel (f : Nat → PRank → Except Status PRank) (R : Nat → PRank → PRank → Prop) :
    ∀ (l : List PRank) (r0 : Nat),
      (∀ i, i < l.length → ∃ st', f (r0 + i) (l.getD i default) = .ok st' ∧ R (r0 + i) (l.getD i default) st') →
      ∃ l', mapRanksFrom f r0 l = .ok l' ∧ l'.length = l.length ∧
        ∀ i, i < l.length → R (r0 + i) (l.getD i default) (l'.getD i default) := by
  intro l
  induction l with
  | nil => intro r0 _; exact ⟨[], rfl, rfl, by simp⟩
  | cons st rest ih =>
    intro r0 h
    obtain ⟨st', h1, hR⟩ := h 0 (by simp)
    simp only [Nat.add_zero, List.getD_cons_zero] at h1 hR
    obtain ⟨rest', h2, hl, hRs⟩ := ih (r0 + 1) (by
      intro i hi
      have := h (i + 1) (by simpa using hi)
      simpa [Nat.add_assoc, Nat.add_comm 1 i] using this)
    refine ⟨st' :: rest', by simp [mapRanksFrom, h1, h2], by simp [hl], ?_⟩
    intro i hi
    cases i with
    | zero => simpa using hR
    | succ i =>
      have := hRs i (by simpa using hi)
      simpa [Nat.add_assoc, Nat.add_comm 1 i] using this

theorem mapRanks_rel (f : Nat → PRank → Except Status PRank) (R : Nat → PRank → PRank → Prop) (w : World PRank)
    (h : ∀ r, r < w.length → ∃ st', f r (w.getD r default) = .ok st' ∧ R r (w.getD r default) st') :
    ∃ w', mapRanks f w = .ok w' ∧ w'.length = w.length ∧
      ∀ r, r < w.length → R r (w.getD r default) (w'.getD r default) := by
  have := mapRanksFrom_rel f R w 0 (by simpa using h)
  simpa [mapRanks] using this

theorem zipIdx_flatMap_from {β : Type} (F : PRank × Nat → List β) : ∀ (l : List PRank) (n : Nat),
    (l.zipIdx n).flatMap F = (List.range l.length).flatMap fun i => F (l.getD i default, n + i) := by
  intro l
  induction l with
  | nil => intro n; simp
  | cons a l ih =>
    intro n
    rw [List.zipIdx_cons, List.flatMap_cons, ih, List.length_cons, List.range_succ_eq_map, List.flatMap_cons,
      List.flatMap_map]
    simp only [List.getD_cons_zero, Nat.add_zero, List.getD_cons_succ]
    congr 1
    apply List.flatMap_congr
    intro i _
    rw [Nat.add_assoc, Nat.add_comm 1 i]

theorem zipIdx_flatMap {β : Type} (F : PRank × Nat → List β) (l : List PRank) :
    l.zipIdx.flatMap F = (List.range l.length).flatMap fun i => F (l.getD i default, i) := by
  have := zipIdx_flatMap_from F l 0
  simpa using this

theorem zipIdx_map_id_from (F : PRank × Nat → PRank) : ∀ (l : List PRank) (n : Nat),
    (∀ i, i < l.length → F (l.getD i default, n + i) = l.getD i default) → (l.zipIdx n).map F = l := by
  intro l
  induction l with
  | nil => intro n _; simp
  | cons a l ih =>
    intro n h
    rw [List.zipIdx_cons, List.map_cons]
    have h0 := h 0 (by simp)
    simp only [List.getD_cons_zero, Nat.add_zero] at h0
    rw [h0, ih (n + 1)]
    intro i hi
    have := h (i + 1) (by simpa using hi)
    simpa [Nat.add_assoc, Nat.add_comm 1 i] using this

/-! ### the world -/

/-- `O r`: the vertex entries rank `r` owns (from `ref_part_node`); `G j r`: the cells of group `j` on rank `r` -/
structure WorldIs (N : Int) (np : Nat) (V : Int → Vertex) (O : Nat → List PNode) (G : Nat → Nat → List Cell)
    (w : World PRank) : Prop where
  len : w.length = np
  inv : ∀ r, r < np → RankInv N np V r (w.getD r default)
  grp : ∀ r, r < np → ∀ j, (w.getD r default).group j = G j r
  own : ∀ r, r < np → (w.getD r default).nodes.filter (fun n => n.part == (r : Int)) = O r
  geo : ∀ r, r < np → (w.getD r default).geoms = [] ∧ (w.getD r default).cad = [] ∧
    (w.getD r default).nGlobal = N

/-- `G` with group `k` replaced -/
def setG (G : Nat → Nat → List Cell) (k : Nat) (f : Nat → List Cell) : Nat → Nat → List Cell :=
  fun j r => if j = k then f r else G j r

theorem setG_setG (G : Nat → Nat → List Cell) (k : Nat) (f f' : Nat → List Cell) :
    setG (setG G k f) k f' = setG G k f' := by
  funext j r; unfold setG; split <;> rfl

theorem directRaw_append (N : Int) (np r : Nat) (a b : List Cell) :
    directRaw N np r (a ++ b) = directRaw N np r a ++ directRaw N np r b := by
  simp [directRaw]

theorem Distinct.sub {ci : CellInfo} {cs l : List Cell} (h : Distinct ci cs) (hsub : ∀ x ∈ l, x ∈ cs)
    (hnd : (l.map (norm ci)).Nodup) (stored new : List Cell) (hl : stored ++ new.map (norm ci) = l.map (norm ci)) :
    addCells ci stored new = stored ++ new.map (norm ci) := by
  apply addCells_append ci (cs.map (norm ci)) h.1 new stored
  · intro x hx
    rw [hl] at hx
    obtain ⟨c, hc, rfl⟩ := List.mem_map.1 hx
    exact List.mem_map.2 ⟨c, hsub c hc, rfl⟩
  · rw [hl]; exact hnd

/-- one chunk: every rank gets, behind what it had, the cells of the chunk whose first vertex it owns -/
theorem placeChunk_ok {N : Int} {np : Nat} {V : Int → Vertex} {O : Nat → List PNode} {G : Nat → Nat → List Cell}
    {w : World PRank} (hW : WorldIs N np V O G w) (hnp : 1 ≤ np) (k : Nat) (ci : CellInfo)
    (hk : cellInfos[k]? = some ci) (pre ch rest : List Cell) (hdist : Distinct ci (pre ++ ch ++ rest))
    (hok : ∀ c ∈ ch, CellOK ci N c)
    (hG : ∀ r, r < np → G k r = (directRaw N np r pre).map (norm ci)) :
    ∃ w', placeChunk N np ci k w ch = .ok w' ∧
      WorldIs N np V O (setG G k fun r => (directRaw N np r (pre ++ ch)).map (norm ci)) w' := by
  have hci2 : 2 ≤ ci.nodePer := cellInfos_nodePer_pos ci (List.mem_of_getElem? hk)
  unfold placeChunk
  rw [routeChunk_ok hci2 hnp hok]
  simp only
  obtain ⟨w', hw', hlen, hR⟩ := mapRanks_rel
    (fun r st =>
      let b := ((List.range np).map fun r => directRaw N np r ch).getD r []
      if b.isEmpty then .ok st
      else addManyGlobal r ci k (b.map fun c => (c, implicitParts N np ci c)) st)
    (fun r st st' => RankInv N np V r st' ∧
      st'.group k = st.group k ++ (directRaw N np r ch).map (norm ci) ∧
      (∀ j, j ≠ k → st'.group j = st.group j) ∧ st'.geoms = st.geoms ∧ st'.cad = st.cad ∧
      st'.nGlobal = st.nGlobal ∧
      st'.nodes.filter (fun n => n.part == (r : Int)) = st.nodes.filter (fun n => n.part == (r : Int)))
    w (by
      intro r hr
      rw [hW.len] at hr
      have hb : ((List.range np).map fun r => directRaw N np r ch).getD r [] = directRaw N np r ch := by
        rw [List.getD_eq_getElem?_getD, List.getElem?_map, List.getElem?_range hr]; rfl
      simp only [hb]
      by_cases hemp : (directRaw N np r ch).isEmpty = true
      · rw [if_pos hemp]
        have : directRaw N np r ch = [] := List.isEmpty_iff.1 hemp
        exact ⟨_, rfl, hW.inv r hr, by simp [this], fun _ _ => rfl, rfl, rfl, rfl, rfl⟩
      · rw [if_neg hemp]
        have hokb : ∀ c ∈ directRaw N np r ch, CellOK ci N c := fun c hc => hok c (List.mem_of_mem_filter hc)
        have hexact : addCells ci ((w.getD r default).group k) (directRaw N np r ch) =
            (w.getD r default).group k ++ (directRaw N np r ch).map (norm ci) := by
          apply hdist.sub (l := directRaw N np r (pre ++ ch))
          · intro x hx
            have := List.mem_of_mem_filter hx
            simp only [List.mem_append] at this ⊢
            tauto
          · have hsl : List.Sublist ((directRaw N np r (pre ++ ch)).map (norm ci))
                ((pre ++ ch ++ rest).map (norm ci)) := by
              apply List.Sublist.map
              exact (List.filter_sublist).trans (List.sublist_append_left _ _)
            exact hdist.2.sublist hsl
          · rw [hW.grp r hr k, hG r hr, directRaw_append, List.map_append]
        exact addManyGlobal_ok (hW.inv r hr) k ci hk (directRaw N np r ch) hokb hexact)
  refine ⟨w', hw', ?_⟩
  have hlen' : w'.length = np := by rw [hlen, hW.len]
  refine ⟨hlen', ?_, ?_, ?_, ?_⟩
  · intro r hr
    exact (hR r (by rw [hW.len]; exact hr)).1
  · intro r hr j
    obtain ⟨_, h2, h3, _⟩ := hR r (by rw [hW.len]; exact hr)
    unfold setG
    by_cases hj : j = k
    · subst hj
      rw [if_pos rfl, h2, hW.grp r hr j, hG r hr]
      show _ = List.map (norm ci) (directRaw N np r (pre ++ ch))
      rw [directRaw_append, List.map_append]
    · rw [if_neg hj, h3 j hj, hW.grp r hr j]
  · intro r hr
    obtain ⟨_, _, _, _, _, _, h7⟩ := hR r (by rw [hW.len]; exact hr)
    rw [h7]; exact hW.own r hr
  · intro r hr
    obtain ⟨_, _, _, h4, h5, h6, _⟩ := hR r (by rw [hW.len]; exact hr)
    obtain ⟨g1, g2, g3⟩ := hW.geo r hr
    exact ⟨by rw [h4, g1], by rw [h5, g2], by rw [h6, g3]⟩

/-- all chunks of a group, for every way the file was cut into chunks -/
theorem placeChunks_ok {N : Int} {np : Nat} {V : Int → Vertex} {O : Nat → List PNode} (hnp : 1 ≤ np) (k : Nat)
    (ci : CellInfo) (hk : cellInfos[k]? = some ci) :
    ∀ (chs : List (List Cell)) (pre : List Cell) (G : Nat → Nat → List Cell) (w : World PRank),
      WorldIs N np V O G w → Distinct ci (pre ++ chs.flatten) → (∀ ch ∈ chs, ∀ c ∈ ch, CellOK ci N c) →
      (∀ r, r < np → G k r = (directRaw N np r pre).map (norm ci)) →
      ∃ w', placeChunks N np ci k chs w = .ok w' ∧
        WorldIs N np V O (setG G k fun r => (directRaw N np r (pre ++ chs.flatten)).map (norm ci)) w' := by
  intro chs
  induction chs with
  | nil =>
    intro pre G w hW _ _ hG
    refine ⟨w, rfl, ?_⟩
    have : setG G k (fun r => (directRaw N np r (pre ++ ([] : List (List Cell)).flatten)).map (norm ci)) = fun j r =>
        if j = k then (directRaw N np r pre).map (norm ci) else G j r := by
      funext j r; simp [setG]
    rw [this]
    refine ⟨hW.len, hW.inv, ?_, hW.own, hW.geo⟩
    intro r hr j
    by_cases hj : j = k
    · subst hj; rw [if_pos rfl, hW.grp r hr j, hG r hr]
    · rw [if_neg hj]; exact hW.grp r hr j
  | cons ch chs ih =>
    intro pre G w hW hdist hok hG
    rw [List.flatten_cons, ← List.append_assoc] at hdist
    obtain ⟨w1, h1, hW1⟩ := placeChunk_ok hW hnp k ci hk pre ch chs.flatten hdist
      (hok ch List.mem_cons_self) hG
    obtain ⟨w2, h2, hW2⟩ := ih (pre ++ ch) _ w1 hW1 hdist
      (fun ch' h' => hok ch' (List.mem_cons_of_mem _ h')) (by intro r _; simp [setG])
    refine ⟨w2, by simp [placeChunks, h1, h2], ?_⟩
    rw [setG_setG] at hW2
    simpa [List.append_assoc] using hW2

/-! ### `ref_migrate_shufflin_cell` -/

theorem recvRaw_np1 (N : Int) (ci : CellInfo) (cs : List Cell) : recvRaw N 1 ci 0 cs = [] := by
  simp [recvRaw]

theorem mem_directRaw {N : Int} {np r : Nat} {cs : List Cell} {c : Cell} :
    c ∈ directRaw N np r cs ↔ c ∈ cs ∧ destOf N np c = (r : Int) := by
  simp [directRaw]

theorem mem_recvRaw {N : Int} {np : Nat} {ci : CellInfo} {r : Nat} {cs : List Cell} {c : Cell} :
    c ∈ recvRaw N np ci r cs ↔
      ∃ s, s < np ∧ s ≠ r ∧ c ∈ cs ∧ destOf N np c = (s : Int) ∧ touches N np ci r c = true := by
  simp only [recvRaw, List.mem_flatMap, List.mem_range]
  constructor
  · rintro ⟨s, hs, h⟩
    by_cases hsr : s = r
    · simp [hsr] at h
    · rw [if_neg hsr, List.mem_filter, mem_directRaw] at h
      exact ⟨s, hs, hsr, h.1.1, h.1.2, h.2⟩
  · rintro ⟨s, hs, hsr, h1, h2, h3⟩
    refine ⟨s, hs, ?_⟩
    rw [if_neg hsr, List.mem_filter, mem_directRaw]
    exact ⟨⟨h1, h2⟩, h3⟩

theorem finalRaw_subset {N : Int} {np : Nat} {ci : CellInfo} {r : Nat} {cs : List Cell} :
    ∀ c ∈ finalRaw N np ci r cs, c ∈ cs := by
  intro c hc
  rcases List.mem_append.1 hc with h | h
  · exact (mem_directRaw.1 h).1
  · obtain ⟨_, _, _, h1, _⟩ := mem_recvRaw.1 h; exact h1

theorem finalRaw_nodup {N : Int} {np : Nat} {ci : CellInfo} {r : Nat} {cs : List Cell} (hnd : cs.Nodup) :
    (finalRaw N np ci r cs).Nodup := by
  unfold finalRaw
  rw [List.nodup_append]
  refine ⟨hnd.filter _, ?_, ?_⟩
  · unfold recvRaw
    rw [List.nodup_flatMap]
    constructor
    · intro s _
      split
      · exact List.nodup_nil
      · exact (hnd.filter _).filter _
    · have : (List.range np).Pairwise (· ≠ ·) := List.nodup_range
      apply this.imp
      intro s s' hne
      intro c h1 h2
      dsimp only at h1 h2
      by_cases hs : s = r
      · simp [hs] at h1
      · by_cases hs' : s' = r
        · simp [hs'] at h2
        · rw [if_neg hs, List.mem_filter, mem_directRaw] at h1
          rw [if_neg hs', List.mem_filter, mem_directRaw] at h2
          have := h1.1.2.symm.trans h2.1.2
          exact hne (by exact_mod_cast this)
  · intro a ha b hb hab
    subst hab
    obtain ⟨s, _, hsr, _, hd, _⟩ := mem_recvRaw.1 hb
    have := (mem_directRaw.1 ha).2
    rw [hd] at this
    exact hsr (by exact_mod_cast this)

/-- the stored forms of the final cells are pairwise different -/
theorem finalRaw_norm_nodup {N : Int} {np : Nat} {ci : CellInfo} {r : Nat} {cs : List Cell}
    (hd : Distinct ci cs) : ((finalRaw N np ci r cs).map (norm ci)).Nodup := by
  have hnd : cs.Nodup := List.Nodup.of_map _ hd.2
  apply (finalRaw_nodup hnd).map_on
  intro a ha b hb hab
  exact List.inj_on_of_nodup_map hd.2 (finalRaw_subset a ha) (finalRaw_subset b hb) hab

theorem map_norm_norm {ci : CellInfo} {N : Int} (l : List Cell) (h : ∀ c ∈ l, CellOK ci N c) :
    (l.map (norm ci)).map (norm ci) = l.map (norm ci) := by
  rw [List.map_map]
  apply List.map_congr_left
  intro c hc
  exact norm_idem ci c (h c hc).len

theorem setGroup_self (st : PRank) (k : Nat) (hk : k < st.cells.length) : st.setGroup k (st.group k) = st := by
  unfold PRank.setGroup PRank.group
  cases st with
  | mk a b cells d e =>
    simp only at hk ⊢
    congr
    rw [List.getD_eq_getElem?_getD, List.getElem?_eq_getElem hk]
    simp

/-- **the completion step**: from the world in which every rank holds the cells routed to it, to the world in which
    rank `r` holds — behind those — the cells routed elsewhere that touch one of its vertices, in source-rank order -/
theorem shufflinCell_ok {N : Int} {np : Nat} {V : Int → Vertex} {O : Nat → List PNode} {G : Nat → Nat → List Cell}
    {w : World PRank} (hW : WorldIs N np V O G w) (hnp : 1 ≤ np) (k : Nat) (ci : CellInfo)
    (hk : cellInfos[k]? = some ci) (cs : List Cell) (hdist : Distinct ci cs) (hok : ∀ c ∈ cs, CellOK ci N c)
    (hG : ∀ r, r < np → G k r = (directRaw N np r cs).map (norm ci)) :
    ∃ w', shufflinCell np ci k w = .ok w' ∧
      WorldIs N np V O (setG G k fun r => (finalRaw N np ci r cs).map (norm ci)) w' := by
  have hci2 : 2 ≤ ci.nodePer := cellInfos_nodePer_pos ci (List.mem_of_getElem? hk)
  unfold shufflinCell
  by_cases h1 : np ≤ 1
  · rw [if_pos h1]
    have hnp1 : np = 1 := by omega
    subst hnp1
    refine ⟨w, rfl, hW.len, hW.inv, ?_, hW.own, hW.geo⟩
    intro r hr j
    have hr0 : r = 0 := by omega
    subst hr0
    unfold setG
    by_cases hj : j = k
    · subst hj
      rw [if_pos rfl, hW.grp 0 hr j, hG 0 hr]
      simp [finalRaw, recvRaw_np1]
    · rw [if_neg hj]; exact hW.grp 0 hr j
  · rw [if_neg h1]
    -- every rank's table knows the vertices of its cells, with the block owner as part
    have hpart : ∀ r, r < np → ∀ c ∈ (w.getD r default).group k, ∀ g ∈ c.take ci.nodePer,
        (w.getD r default).partOf g = imp N np g ∧ 0 ≤ imp N np g ∧ imp N np g < (np : Int) := by
      intro r hr c hc g hg
      have hinv := hW.inv r hr
      have hhas := hinv.verts k ci hk c hc g hg
      obtain ⟨n, hn, hng⟩ := (has_iff _ g).1 hhas
      obtain ⟨h0, h1', _⟩ := hinv.parts n hn
      rw [hng] at h0 h1'
      exact ⟨hinv.partOf_eq g hhas, imp_range hnp h0 h1'⟩
    have hguard : (w.any fun st => (st.group k).any fun c => (c.take ci.nodePer).any fun g =>
        decide (st.partOf g < 0 ∨ (np : Int) ≤ st.partOf g)) = false := by
      rw [Bool.eq_false_iff]
      intro hany
      simp only [List.any_eq_true] at hany
      obtain ⟨st, hst, c, hc, g, hg, hbad⟩ := hany
      obtain ⟨r, hr, rfl⟩ := List.getElem_of_mem hst
      have hr' : r < np := by rw [← hW.len]; exact hr
      have hgd : w.getD r default = w[r] := by
        rw [List.getD_eq_getElem?_getD, List.getElem?_eq_getElem hr]; rfl
      rw [← hgd] at hc hbad
      obtain ⟨e, i0, i1⟩ := hpart r hr' c hc g hg
      have := of_decide_eq_true hbad
      rw [e] at this
      omega
    rw [if_neg (by rw [hguard]; simp)]
    -- what every rank receives
    have hrecv : ∀ r, r < np → (w.zipIdx.flatMap fun ss => shufflinSend ci k ss.2 ss.1 r) =
        ((recvRaw N np ci r cs).map (norm ci)).map fun c => (c, implicitParts N np ci c) := by
      intro r hr
      rw [zipIdx_flatMap, hW.len]
      unfold recvRaw
      rw [List.map_flatMap, List.map_flatMap]
      apply List.flatMap_congr
      intro s hs
      have hs' : s < np := List.mem_range.1 hs
      simp only [shufflinSend]
      rw [hW.grp s hs' k, hG s hs']
      by_cases hsr : s = r
      · subst hsr
        rw [if_pos rfl]
        simp [cellSendsTo]
      · rw [if_neg hsr]
        have hgrp : (w.getD s default).group k = (directRaw N np s cs).map (norm ci) := by
          rw [hW.grp s hs' k, hG s hs']
        have hfilter : ((directRaw N np s cs).map (norm ci)).filter (cellSendsTo (w.getD s default) ci s r) =
            ((directRaw N np s cs).filter (touches N np ci r)).map (norm ci) := by
          have hpt : ∀ c ∈ directRaw N np s cs,
              (cellSendsTo (w.getD s default) ci s r ∘ norm ci) c = touches N np ci r c := by
            intro c hc
            have hcok : CellOK ci N c := hok c (mem_directRaw.1 hc).1
            have hmem : norm ci c ∈ (w.getD s default).group k := by
              rw [hgrp]; exact List.mem_map.2 ⟨c, hc, rfl⟩
            simp only [Function.comp, cellSendsTo, touches]
            have hne : decide (r ≠ s) = true := by simp; exact fun e => hsr e.symm
            rw [hne, Bool.true_and, norm_take ci c hcok.len]
            apply any_congr_mem
            intro g hg
            have := (hpart s hs' _ hmem g (by rw [norm_take ci c hcok.len]; exact hg)).1
            rw [this]
          rw [List.filter_map, List.filter_congr hpt]
        rw [hfilter, List.map_map, List.map_map]
        apply List.map_congr_left
        intro c hc
        have hcd : c ∈ directRaw N np s cs := List.mem_of_mem_filter hc
        have hcok : CellOK ci N c := hok c (mem_directRaw.1 hcd).1
        have hmem : norm ci c ∈ (w.getD s default).group k := by
          rw [hgrp]; exact List.mem_map.2 ⟨c, hcd, rfl⟩
        show (norm ci c, ((norm ci c).take ci.nodePer).map (w.getD s default).partOf) =
          (norm ci c, implicitParts N np ci (norm ci c))
        unfold implicitParts
        congr 1
        apply List.map_congr_left
        intro g hg
        exact (hpart s hs' _ hmem g hg).1
    have hrok : ∀ r, ∀ c ∈ recvRaw N np ci r cs, CellOK ci N c := by
      intro r c hc
      obtain ⟨_, _, _, h, _⟩ := mem_recvRaw.1 hc
      exact hok c h
    obtain ⟨w1, hw1, hlen1, hR⟩ := mapRanks_rel
      (fun r st => addManyGlobal r ci k (w.zipIdx.flatMap fun ss => shufflinSend ci k ss.2 ss.1 r) st)
      (fun r st st' => RankInv N np V r st' ∧
        st'.group k = (finalRaw N np ci r cs).map (norm ci) ∧
        (∀ j, j ≠ k → st'.group j = st.group j) ∧ st'.geoms = st.geoms ∧ st'.cad = st.cad ∧
        st'.nGlobal = st.nGlobal ∧
      st'.nodes.filter (fun n => n.part == (r : Int)) = st.nodes.filter (fun n => n.part == (r : Int)))
      w (by
        intro r hr
        rw [hW.len] at hr
        rw [hrecv r hr]
        have hokn : ∀ c ∈ (recvRaw N np ci r cs).map (norm ci), CellOK ci N c := by
          intro c hc
          obtain ⟨c0, hc0, rfl⟩ := List.mem_map.1 hc
          exact (hrok r c0 hc0).norm
        have hgrp : (w.getD r default).group k = (directRaw N np r cs).map (norm ci) := by
          rw [hW.grp r hr k, hG r hr]
        have hfin : (w.getD r default).group k ++ ((recvRaw N np ci r cs).map (norm ci)).map (norm ci) =
            (finalRaw N np ci r cs).map (norm ci) := by
          rw [map_norm_norm _ (hrok r), hgrp, finalRaw, List.map_append]
        have hexact : addCells ci ((w.getD r default).group k) ((recvRaw N np ci r cs).map (norm ci)) =
            (w.getD r default).group k ++ ((recvRaw N np ci r cs).map (norm ci)).map (norm ci) :=
          hdist.sub (l := finalRaw N np ci r cs) finalRaw_subset (finalRaw_norm_nodup hdist) _ _ hfin
        obtain ⟨st', h1', h2, h3, h4, h5, h6, h7, h8⟩ :=
          addManyGlobal_ok (hW.inv r hr) k ci hk _ hokn hexact
        exact ⟨st', h1', h2, by rw [h3, hfin], h4, h5, h6, h7, h8⟩)
    dsimp only
    rw [hw1]
    dsimp only
    -- nothing is removed
    have hkeep : w1.zipIdx.map (fun sr => sr.1.setGroup k ((sr.1.group k).filter fun c =>
        (c.take ci.nodePer).any fun g => sr.1.partOf g == (sr.2 : Int))) = w1 := by
      apply zipIdx_map_id_from _ w1 0
      intro r hr
      have hr' : r < np := by rw [hlen1, hW.len] at hr; exact hr
      obtain ⟨hinv', hg', _⟩ := hR r (by rw [hW.len]; exact hr')
      simp only [Nat.zero_add]
      have hall : ((w1.getD r default).group k).filter (fun c =>
          (c.take ci.nodePer).any fun g => (w1.getD r default).partOf g == (r : Int)) =
          (w1.getD r default).group k := by
        rw [List.filter_eq_self]
        intro c hc
        have hpo : ∀ g ∈ c.take ci.nodePer, (w1.getD r default).partOf g = imp N np g :=
          fun g hg => hinv'.partOf_eq g (hinv'.verts k ci hk c hc g hg)
        rw [hg'] at hc
        obtain ⟨c0, hc0, rfl⟩ := List.mem_map.1 hc
        have hc0ok : CellOK ci N c0 := hok c0 (finalRaw_subset c0 hc0)
        rw [List.any_eq_true]
        rcases List.mem_append.1 hc0 with hd | hrv
        · obtain ⟨hm, _, _⟩ := dest_range (np := np) hci2 hnp hc0ok
          refine ⟨c0.getD 0 0, by rw [norm_take ci c0 hc0ok.len]; exact hm, ?_⟩
          rw [hpo _ (by rw [norm_take ci c0 hc0ok.len]; exact hm)]
          have := (mem_directRaw.1 hd).2
          unfold destOf at this
          rw [beq_iff_eq]
          exact this
        · obtain ⟨_, _, _, _, _, ht⟩ := mem_recvRaw.1 hrv
          unfold touches at ht
          rw [List.any_eq_true] at ht
          obtain ⟨g, hg, hgr⟩ := ht
          refine ⟨g, by rw [norm_take ci c0 hc0ok.len]; exact hg, ?_⟩
          rw [hpo g (by rw [norm_take ci c0 hc0ok.len]; exact hg)]
          exact hgr
      rw [hall]
      exact setGroup_self _ k (by rw [hinv'.ncells]; have := (List.getElem?_eq_some_iff.1 hk).1;
                                  rw [cellInfos_length] at this; exact this)
    rw [hkeep]
    refine ⟨w1, rfl, by rw [hlen1, hW.len], ?_, ?_, ?_, ?_⟩
    · intro r hr; exact (hR r (by rw [hW.len]; exact hr)).1
    · intro r hr j
      obtain ⟨_, h2, h3, _⟩ := hR r (by rw [hW.len]; exact hr)
      unfold setG
      by_cases hj : j = k
      · subst hj; rw [if_pos rfl, h2]
      · rw [if_neg hj, h3 j hj, hW.grp r hr j]
    · intro r hr
      obtain ⟨_, _, _, _, _, _, h7⟩ := hR r (by rw [hW.len]; exact hr)
      rw [h7]; exact hW.own r hr
    · intro r hr
      obtain ⟨_, _, _, h4, h5, h6, _⟩ := hR r (by rw [hW.len]; exact hr)
      obtain ⟨g1, g2, g3⟩ := hW.geo r hr
      exact ⟨by rw [h4, g1], by rw [h5, g2], by rw [h6, g3]⟩

end Refine.Lemmas.PartMeshb
