import Refine.Lemmas.SearchWall
import Refine.Lemmas.GeomReal
import Refine.Model.Interp

/-!
  Lemmas for C11 (donor-cell search of `ref_interp.c`, exact arithmetic): the tree built by
  `ref_interp_create_search`, convexity of balls for tets, the running best of `ref_interp_enclosing_*_in_list`,
  the walk loop.
-/
namespace Refine.Lemmas.Interp
open Refine Refine.Model.Geom Refine.Model.Search Refine.Model.Interp Refine.ScalarReal Refine.Lemmas.Search
open Refine.GeomReal

/-! ## convexity of balls, four points -/

/-- the point `u a + v b + w c + t d` -/
def comb4 (a b c d : V3 ℝ) (u v w t : ℝ) : V3 ℝ :=
  ⟨u * a.x + v * b.x + w * c.x + t * d.x, u * a.y + v * b.y + w * c.y + t * d.y,
   u * a.z + v * b.z + w * c.z + t * d.z⟩

/-- `y` lies in the closed tetrahedron `a b c d` (convex hull of the four vertices) -/
def InTet (a b c d y : V3 ℝ) : Prop :=
  ∃ u v w t : ℝ, 0 ≤ u ∧ 0 ≤ v ∧ 0 ≤ w ∧ 0 ≤ t ∧ u + v + w + t = 1 ∧ y = comb4 a b c d u v w t

theorem sqd_comb4_center (c p0 p1 p2 p3 : V3 ℝ) (u v w t : ℝ) (h : u + v + w + t = 1) :
    sqd c (comb4 p0 p1 p2 p3 u v w t) =
      u * sqd c p0 + v * sqd c p1 + w * sqd c p2 + t * sqd c p3 -
        (u * v * sqd p0 p1 + u * w * sqd p0 p2 + u * t * sqd p0 p3 + v * w * sqd p1 p2 + v * t * sqd p1 p3 +
          w * t * sqd p2 p3) := by
  have ht : t = 1 - u - v - w := by linarith
  subst ht
  unfold sqd comb4; ring

/-- a ball containing the four vertices contains the tetrahedron -/
theorem inTet_in_ball (c p0 p1 p2 p3 : V3 ℝ) (r : ℝ) (h0 : edist c p0 ≤ r) (h1 : edist c p1 ≤ r)
    (h2 : edist c p2 ≤ r) (h3 : edist c p3 ≤ r) (y : V3 ℝ) (hy : InTet p0 p1 p2 p3 y) : edist c y ≤ r := by
  obtain ⟨u, v, w, t, hu, hv, hw, ht, hs, rfl⟩ := hy
  have hr : 0 ≤ r := le_trans (edist_nonneg c p0) h0
  apply edist_le_of_sqd_le_sq hr
  rw [sqd_comb4_center _ _ _ _ _ _ _ _ _ hs]
  have g0 := sqd_le_sq_of_edist_le h0
  have g1 := sqd_le_sq_of_edist_le h1
  have g2 := sqd_le_sq_of_edist_le h2
  have g3 := sqd_le_sq_of_edist_le h3
  have e1 := mul_nonneg (mul_nonneg hu hv) (sqd_nonneg p0 p1)
  have e2 := mul_nonneg (mul_nonneg hu hw) (sqd_nonneg p0 p2)
  have e3 := mul_nonneg (mul_nonneg hu ht) (sqd_nonneg p0 p3)
  have e4 := mul_nonneg (mul_nonneg hv hw) (sqd_nonneg p1 p2)
  have e5 := mul_nonneg (mul_nonneg hv ht) (sqd_nonneg p1 p3)
  have e6 := mul_nonneg (mul_nonneg hw ht) (sqd_nonneg p2 p3)
  have f0 := mul_le_mul_of_nonneg_left g0 hu
  have f1 := mul_le_mul_of_nonneg_left g1 hv
  have f2 := mul_le_mul_of_nonneg_left g2 hw
  have f3 := mul_le_mul_of_nonneg_left g3 ht
  have : u * r ^ 2 + v * r ^ 2 + w * r ^ 2 + t * r ^ 2 = r ^ 2 := by
    rw [← add_mul, ← add_mul, ← add_mul, hs, one_mul]
  linarith

/-! ## the closed donor cell -/

/-- `x` lies in the closed donor cell (triangle for a 2-D donor, tetrahedron otherwise) -/
def Encloses (d : Donor ℝ) (n : CellN) (x : V3 ℝ) : Prop :=
  if d.twod then InTri (d.pt n.n0) (d.pt n.n1) (d.pt n.n2) x
  else InTet (d.pt n.n0) (d.pt n.n1) (d.pt n.n2) (d.pt n.n3) x

/-- a ball that contains every vertex handed to `ref_node_bounding_sphere` contains the closed cell -/
theorem encloses_in_ball (d : Donor ℝ) (n : CellN) (c : V3 ℝ) (r : ℝ)
    (hv : ∀ p ∈ d.cellPts n, edist c p ≤ r) (x : V3 ℝ) (hx : Encloses d n x) : edist c x ≤ r := by
  unfold Encloses at hx
  unfold Donor.cellPts at hv
  by_cases ht : d.twod = true
  · simp only [ht, if_true] at hx hv
    exact inTri_in_ball c _ _ _ r (hv _ (by simp)) (hv _ (by simp)) (hv _ (by simp)) x hx
  · simp only [ht] at hx hv
    exact inTet_in_ball c _ _ _ _ r (hv _ (by simp)) (hv _ (by simp)) (hv _ (by simp)) (hv _ (by simp)) x hx

/-! ## the tree of `ref_interp_create_search` -/

/-- the entry `e` carries the scaled bounding sphere of donor cell `(cell, n)` -/
def CellSphere (d : Donor ℝ) (scale : ℝ) (cell : Int) (n : CellN) (e : Entry ℝ) : Prop :=
  e.item = cell ∧ e.pos = (boundingSphere (d.cellPts n)).1 ∧ e.rad = scale * (boundingSphere (d.cellPts n)).2

theorem createSearchGo_spec (d : Donor ℝ) (scale : ℝ) (cells : List (Int × CellN)) (s : Search ℝ)
    (h : BallInv s.root) :
    BallInv (createSearchGo d scale s cells).2.root ∧
    (∀ e ∈ (createSearchGo d scale s cells).2.root.pre,
        e ∈ s.root.pre ∨ ∃ p ∈ cells, CellSphere d scale p.1 p.2 e) ∧
    (∀ e ∈ s.root.pre, e ∈ (createSearchGo d scale s cells).2.root.pre) ∧
    ((createSearchGo d scale s cells).1 = .ok →
        ∀ p ∈ cells, ∃ e ∈ (createSearchGo d scale s cells).2.root.pre, CellSphere d scale p.1 p.2 e) := by
  induction cells generalizing s with
  | nil =>
    simp only [createSearchGo]
    exact ⟨h, fun e he => Or.inl he, fun e he => he, fun _ p hp => by simp at hp⟩
  | cons p rest ih =>
    obtain ⟨cell, n⟩ := p
    simp only [createSearchGo, cellSphere, mul_eq]
    rcases insert_root s cell (boundingSphere (d.cellPts n)).1
        (scale * (boundingSphere (d.cellPts n)).2) with ⟨h1, h2⟩ | ⟨h1, h2⟩
    · generalize hs' : s.insert cell (boundingSphere (d.cellPts n)).1
        (scale * (boundingSphere (d.cellPts n)).2) = r at h1 h2
      obtain ⟨st, s'⟩ := r
      simp only at h1 h2
      subst h1
      simp only
      have hb' : BallInv s'.root := by rw [h2]; exact home_BallInv _ _ h
      obtain ⟨i1, i2, i3, i4⟩ := ih s' hb'
      refine ⟨i1, ?_, ?_, ?_⟩
      · intro e he
        rcases i2 e he with he' | ⟨q, hq, hsp⟩
        · rw [h2, mem_pre_home] at he'
          rcases he' with rfl | he'
          · right; exact ⟨(cell, n), by simp, rfl, rfl, rfl⟩
          · left; exact he'
        · right; exact ⟨q, List.mem_cons_of_mem _ hq, hsp⟩
      · intro e he
        apply i3
        rw [h2, mem_pre_home]; right; exact he
      · intro hok q hq
        rcases List.mem_cons.mp hq with rfl | hq
        · refine ⟨⟨s.empty, cell, (boundingSphere (d.cellPts n)).1, scale * (boundingSphere (d.cellPts n)).2⟩,
            ?_, rfl, rfl, rfl⟩
          apply i3
          rw [h2, mem_pre_home]; left; rfl
        · exact i4 hok q hq
    · generalize hs' : s.insert cell (boundingSphere (d.cellPts n)).1
        (scale * (boundingSphere (d.cellPts n)).2) = r at h1 h2
      obtain ⟨st, s'⟩ := r
      simp only at h1 h2
      subst h2
      cases st with
      | ok => exact absurd rfl h1
      | failure => exact ⟨h, fun e he => Or.inl he, fun e he => he, fun hok => by simp at hok⟩
      | invalid => exact ⟨h, fun e he => Or.inl he, fun e he => he, fun hok => by simp at hok⟩
      | increaseLimit => exact ⟨h, fun e he => Or.inl he, fun e he => he, fun hok => by simp at hok⟩

/-- what `ref_interp_create_search` returns: a tree with the children-ball invariant whose entries are exactly the
    scaled bounding spheres of the valid donor cells (all of them when the status is ok) -/
theorem createSearch_spec (d : Donor ℝ) (scale : ℝ) (st : Refine.Model.Search.Status) (s : Search ℝ)
    (hw : createSearch d scale = (st, some s)) :
    BallInv s.root ∧ (∀ e ∈ s.root.pre, ∃ p ∈ d.cells, CellSphere d scale p.1 p.2 e) ∧
    (st = .ok → ∀ p ∈ d.cells, ∃ e ∈ s.root.pre, CellSphere d scale p.1 p.2 e) := by
  unfold createSearch at hw
  unfold Search.create at hw
  have hn : ¬ (Int.ofNat d.cells.length < 0) := by simp
  simp only [hn, if_false] at hw
  have hspec := createSearchGo_spec d scale d.cells ⟨(Int.ofNat d.cells.length).toNat, 0, .nil⟩ (by simp [BallInv])
  generalize createSearchGo d scale ⟨(Int.ofNat d.cells.length).toNat, 0, .nil⟩ d.cells = r at hw hspec
  obtain ⟨st', s'⟩ := r
  simp only [Prod.mk.injEq, Option.some.injEq] at hw
  obtain ⟨rfl, rfl⟩ := hw
  obtain ⟨i1, i2, _, i4⟩ := hspec
  refine ⟨i1, ?_, i4⟩
  intro e he
  rcases i2 e he with he' | h
  · simp [STree.pre] at he'
  · exact h

/-- the stored sphere contains the closed cell when `donor_scale ≥ 1` -/
theorem cellSphere_contains {d : Donor ℝ} {scale : ℝ} {cell : Int} {n : CellN} {e : Entry ℝ}
    (h : CellSphere d scale cell n e) (hs : 1 ≤ scale) (x : V3 ℝ) (hx : Encloses d n x) :
    edist e.pos x ≤ e.rad := by
  obtain ⟨_, hpos, hrad⟩ := h
  rw [hpos, hrad]
  apply encloses_in_ball d n _ _ _ x hx
  intro p hp
  unfold boundingSphere
  simp only
  have h1 := sphereRadius_contains (sphereCenter (d.cellPts n)) (d.cellPts n) p hp
  have h2 := sphereRadius_nonneg (sphereCenter (d.cellPts n)) (d.cellPts n)
  nlinarith

/-! ## `cellAt` -/

theorem cellAt_mem {d : Donor ℝ} {c : Int} {n : CellN} (h : d.cellAt c = some n) : (c, n) ∈ d.cells := by
  unfold Donor.cellAt at h
  cases hf : d.cells.find? (fun p => p.1 == c) with
  | none => simp [hf] at h
  | some p =>
    simp only [hf, Option.map_some, Option.some.injEq] at h
    have h1 := List.mem_of_find?_eq_some hf
    have h2 := List.find?_some hf
    simp only [beq_iff_eq] at h2
    obtain ⟨a, b⟩ := p
    simp only at h h2
    subst h; subst h2
    exact h1

theorem cellAt_isSome_of_mem {d : Donor ℝ} {p : Int × CellN} (h : p ∈ d.cells) : d.cellAt p.1 ≠ none := by
  unfold Donor.cellAt
  intro hn
  simp only [Option.map_eq_none_iff] at hn
  have := List.find?_eq_none.mp hn p h
  simp at this

/-! ## barycentric weights -/

theorem baryOf_twod {d : Donor ℝ} (h : d.twod = true) (n : CellN) (x : V3 ℝ) :
    baryOf d n x = ((bary3 (d.pt n.n0) (d.pt n.n1) (d.pt n.n2) x).1,
      ⟨(bary3 (d.pt n.n0) (d.pt n.n1) (d.pt n.n2) x).2.b0, (bary3 (d.pt n.n0) (d.pt n.n1) (d.pt n.n2) x).2.b1,
       (bary3 (d.pt n.n0) (d.pt n.n1) (d.pt n.n2) x).2.b2, 0⟩) := by
  unfold baryOf
  simp [h]

theorem baryOf_3d {d : Donor ℝ} (h : d.twod = false) (n : CellN) (x : V3 ℝ) :
    baryOf d n x = bary4 (d.pt n.n0) (d.pt n.n1) (d.pt n.n2) (d.pt n.n3) x := by
  unfold baryOf
  simp [h]

theorem ite_status {β : Type} (c : Prop) [Decidable c] (a b : St × β) (ha : a.1 = St.ok) (hb : b.1 = St.divZero) :
    (if c then a else b).1 = St.ok ∨ (if c then a else b).1 = St.divZero := by
  split
  · left; exact ha
  · right; exact hb

theorem baryOf_status (d : Donor ℝ) (n : CellN) (x : V3 ℝ) :
    (baryOf d n x).1 = St.ok ∨ (baryOf d n x).1 = St.divZero := by
  rcases Bool.eq_false_or_eq_true d.twod with ht | ht
  · rw [baryOf_twod ht]
    simp only
    unfold bary3
    simp only []
    exact ite_status _ _ _ rfl rfl
  · rw [baryOf_3d ht]
    unfold bary4
    simp only []
    exact ite_status _ _ _ rfl rfl

theorem minBary_le (twod : Bool) (b : B4 ℝ) :
    minBary twod b ≤ b.b0 ∧ minBary twod b ≤ b.b1 ∧ minBary twod b ≤ b.b2 ∧ (twod = false → minBary twod b ≤ b.b3) := by
  unfold minBary
  cases twod
  · simp only [Bool.false_eq_true, if_false, cmin_eq]
    refine ⟨?_, ?_, ?_, fun _ => ?_⟩
    · exact le_trans (min_le_left _ _) (min_le_left _ _)
    · exact le_trans (min_le_left _ _) (min_le_right _ _)
    · exact le_trans (min_le_right _ _) (min_le_left _ _)
    · exact le_trans (min_le_right _ _) (min_le_right _ _)
  · simp only [if_true, cmin_eq]
    refine ⟨?_, ?_, ?_, fun h => by simp at h⟩
    · exact le_trans (min_le_left _ _) (min_le_left _ _)
    · exact le_trans (min_le_left _ _) (min_le_right _ _)
    · exact min_le_right _ _

theorem le_minBary (twod : Bool) (b : B4 ℝ) (t : ℝ) (h0 : t ≤ b.b0) (h1 : t ≤ b.b1) (h2 : t ≤ b.b2)
    (h3 : t ≤ b.b3) : t ≤ minBary twod b := by
  unfold minBary
  cases twod
  · simp only [Bool.false_eq_true, if_false, cmin_eq]
    exact le_min (le_min h0 h1) (le_min h2 h3)
  · simp only [if_true, cmin_eq]
    exact le_min (le_min h0 h1) h2

/-! ## the running best of `ref_interp_enclosing_*_in_list` -/

/-- candidate `c` is a valid cell whose weights at `x` were computed (`REF_SUCCESS`) with min weight `m` -/
def OkMin (d : Donor ℝ) (x : V3 ℝ) (c : Int) (m : ℝ) : Prop :=
  ∃ n b, d.cellAt c = some n ∧ baryOf d n x = (St.ok, b) ∧ minBary d.twod b = m

theorem okMin_unique {d : Donor ℝ} {x : V3 ℝ} {c : Int} {m m' : ℝ} (h : OkMin d x c m) (h' : OkMin d x c m') :
    m = m' := by
  obtain ⟨n, b, h1, h2, h3⟩ := h
  obtain ⟨n', b', h1', h2', h3'⟩ := h'
  rw [h1] at h1'
  cases h1'
  rw [h2] at h2'
  cases h2'
  rw [← h3, ← h3']

theorem inListFold_spec (d : Donor ℝ) (x : V3 ℝ) (l : List Int) (best r : Int × ℝ)
    (h : inListFold d x l best = .ok r) (hne : ∀ c ∈ l, c ≠ refEmpty) :
    (r = best ∨ (r.1 ∈ l ∧ OkMin d x r.1 r.2)) ∧
    (best.1 ≠ refEmpty → best.2 ≤ r.2 ∧ r.1 ≠ refEmpty) ∧
    (∀ c ∈ l, ∀ m, OkMin d x c m → r.1 ≠ refEmpty ∧ m ≤ r.2) := by
  induction l generalizing best with
  | nil =>
    simp only [inListFold, Except.ok.injEq] at h
    subst h
    exact ⟨Or.inl rfl, fun hb => ⟨le_refl _, hb⟩, fun c hc => by simp at hc⟩
  | cons c rest ih =>
    have hne' : ∀ c ∈ rest, c ≠ refEmpty := fun c hc => hne c (List.mem_cons_of_mem _ hc)
    have hc : c ≠ refEmpty := hne c (by simp)
    simp only [inListFold] at h
    cases hca : d.cellAt c with
    | none => simp [hca] at h
    | some n =>
      simp only [hca] at h
      rcases hb : baryOf d n x with ⟨st, b⟩
      rw [hb] at h
      cases st with
      | ok =>
        simp only at h
        have hok : OkMin d x c (minBary d.twod b) := ⟨n, b, hca, hb, rfl⟩
        by_cases htake : (best.1 == refEmpty || best.2 <. minBary d.twod b) = true
        · rw [if_pos htake] at h
          obtain ⟨a1, a2, a3⟩ := ih (c, minBary d.twod b) h hne'
          have a2' := a2 hc
          refine ⟨?_, ?_, ?_⟩
          · rcases a1 with rfl | ⟨m1, m2⟩
            · right; exact ⟨by simp, hok⟩
            · right; exact ⟨List.mem_cons_of_mem _ m1, m2⟩
          · intro hb1
            refine ⟨?_, a2'.2⟩
            simp only [Bool.or_eq_true, beq_iff_eq, lt_iff] at htake
            rcases htake with ht | ht
            · exact absurd ht hb1
            · exact le_trans ht.le a2'.1
          · intro c' hc' m hm
            rcases List.mem_cons.mp hc' with rfl | hc'
            · rw [okMin_unique hm hok]
              exact ⟨a2'.2, a2'.1⟩
            · exact a3 c' hc' m hm
        · rw [if_neg htake] at h
          obtain ⟨a1, a2, a3⟩ := ih best h hne'
          simp only [Bool.or_eq_true, beq_iff_eq, lt_iff, not_or, not_lt] at htake
          obtain ⟨hb1, hle⟩ := htake
          have a2' := a2 hb1
          refine ⟨?_, fun _ => a2', ?_⟩
          · rcases a1 with rfl | ⟨m1, m2⟩
            · left; rfl
            · right; exact ⟨List.mem_cons_of_mem _ m1, m2⟩
          · intro c' hc' m hm
            rcases List.mem_cons.mp hc' with rfl | hc'
            · rw [okMin_unique hm hok]
              exact ⟨a2'.2, le_trans hle a2'.1⟩
            · exact a3 c' hc' m hm
      | divZero =>
        simp only at h
        obtain ⟨a1, a2, a3⟩ := ih best h hne'
        refine ⟨?_, a2, ?_⟩
        · rcases a1 with rfl | ⟨m1, m2⟩
          · left; rfl
          · right; exact ⟨List.mem_cons_of_mem _ m1, m2⟩
        · intro c' hc' m hm
          rcases List.mem_cons.mp hc' with rfl | hc'
          · obtain ⟨n', b', h1, h2, _⟩ := hm
            rw [hca] at h1
            cases h1
            rw [hb] at h2
            cases h2
          · exact a3 c' hc' m hm
      | failure => simp at h
      | invalid => simp at h
      | implement => simp at h

theorem inListFold_noerr (d : Donor ℝ) (x : V3 ℝ) (l : List Int) (best : Int × ℝ)
    (hv : ∀ c ∈ l, d.cellAt c ≠ none) : ∃ r, inListFold d x l best = .ok r := by
  induction l generalizing best with
  | nil => exact ⟨best, rfl⟩
  | cons c rest ih =>
    have hv' : ∀ c ∈ rest, d.cellAt c ≠ none := fun c hc => hv c (List.mem_cons_of_mem _ hc)
    simp only [inListFold]
    cases hca : d.cellAt c with
    | none => exact absurd hca (hv c (by simp))
    | some n =>
      simp only
      rcases hb : baryOf d n x with ⟨st, b⟩
      have hs := baryOf_status d n x
      rw [hb] at hs
      simp only at hs
      rcases hs with rfl | rfl
      · simp only
        exact ih _ hv'
      · simp only
        exact ih _ hv'

theorem inListFold_error (d : Donor ℝ) (x : V3 ℝ) (l : List Int) (best : Int × ℝ) (e : ISt)
    (h : inListFold d x l best = .error e) : e ≠ .ok := by
  induction l generalizing best with
  | nil => simp [inListFold] at h
  | cons c rest ih =>
    simp only [inListFold] at h
    cases hca : d.cellAt c with
    | none =>
      simp only [hca, Except.error.injEq] at h
      rw [← h]; simp
    | some n =>
      simp only [hca] at h
      rcases hb : baryOf d n x with ⟨st, b⟩
      rw [hb] at h
      cases st with
      | ok => exact ih _ h
      | divZero => exact ih _ h
      | failure => simp only [Except.error.injEq] at h; rw [← h]; simp [ISt.ofGeom]
      | invalid => simp only [Except.error.injEq] at h; rw [← h]; simp [ISt.ofGeom]
      | implement => simp only [Except.error.injEq] at h; rw [← h]; simp [ISt.ofGeom]

/-! ## the walk -/

theorem updateSeed_mode (d : Donor ℝ) (a : Agent ℝ) (face : List Nat) :
    (updateSeed d a face).2.mode = a.mode ∨ (updateSeed d a face).2.mode = .atBoundary := by
  unfold updateSeed
  simp only
  split
  · left; rfl
  · split
    · right; rfl
    · split
      · right; rfl
      · left; rfl
  · split
    · left; rfl
    · split
      · left; rfl
      · left; rfl
  · left; rfl

/-- what `walkIter` hands back -/
theorem walkIter_done {d : Donor ℝ} {inside : ℝ} {x : V3 ℝ} {a a' : Agent ℝ}
    (h : walkIter d inside x a = .done a') :
    a'.mode = .enclosing ∧ a'.seed = a.seed ∧
      ∃ n, d.cellAt a.seed = some n ∧ a'.bary = (baryOf d n x).2 ∧ baryInside inside a'.bary = true := by
  unfold walkIter at h
  cases hca : d.cellAt a.seed with
  | none => simp [hca] at h
  | some n =>
    simp only [hca] at h
    rcases hb : baryOf d n x with ⟨st, b⟩
    rw [hb] at h
    cases st with
    | ok =>
      simp only at h
      by_cases hi : baryInside inside b = true
      · rw [if_pos hi] at h
        cases h
        exact ⟨rfl, rfl, n, rfl, by rw [hb], hi⟩
      · rw [if_neg hi] at h
        split at h
        · cases h
        · split at h <;> cases h
    | divZero =>
      simp only at h
      by_cases hi : baryInside inside b = true
      · rw [if_pos hi] at h
        cases h
        exact ⟨rfl, rfl, n, rfl, by rw [hb], hi⟩
      · rw [if_neg hi] at h
        split at h
        · cases h
        · split at h <;> cases h
    | failure => simp at h
    | invalid => simp at h
    | implement => simp at h

theorem walkIter_next {d : Donor ℝ} {inside : ℝ} {x : V3 ℝ} {a a' : Agent ℝ}
    (h : walkIter d inside x a = .next a') : a'.mode = a.mode ∨ a'.mode = .atBoundary := by
  unfold walkIter at h
  cases hca : d.cellAt a.seed with
  | none => simp [hca] at h
  | some n =>
    simp only [hca] at h
    rcases hb : baryOf d n x with ⟨st, b⟩
    rw [hb] at h
    cases st with
    | ok =>
      simp only at h
      split at h
      · cases h
      · split at h
        · cases h
        · rename_i face _
          have hm := updateSeed_mode d a face
          split at h
          · rename_i a'' hu
            cases h
            rw [hu] at hm
            exact hm
          · cases h
    | divZero =>
      simp only at h
      split at h
      · cases h
      · split at h
        · cases h
        · rename_i face _
          have hm := updateSeed_mode d a face
          split at h
          · rename_i a'' hu
            cases h
            rw [hu] at hm
            exact hm
          · cases h
    | failure => simp at h
    | invalid => simp at h
    | implement => simp at h

theorem walkLoop_sound (d : Donor ℝ) (inside : ℝ) (x : V3 ℝ) (fuel : Nat) (a a' : Agent ℝ) (st : ISt)
    (h : walkLoop d inside x fuel a = (st, a')) (hm : a.mode ≠ .enclosing) (he : a'.mode = .enclosing) :
    st = .ok ∧ ∃ n, d.cellAt a'.seed = some n ∧ a'.bary = (baryOf d n x).2 ∧ baryInside inside a'.bary = true := by
  induction fuel generalizing a with
  | zero =>
    simp only [walkLoop, Prod.mk.injEq] at h
    obtain ⟨_, rfl⟩ := h
    simp at he
  | succ k ih =>
    simp only [walkLoop] at h
    by_cases hw : a.mode = .walking
    · simp only [hw, bne_self_eq_false, Bool.false_eq_true, if_false] at h
      cases hi : walkIter d inside x a with
      | error e =>
        simp only [hi, Prod.mk.injEq] at h
        obtain ⟨_, rfl⟩ := h
        exact absurd he hm
      | done a1 =>
        simp only [hi, Prod.mk.injEq] at h
        obtain ⟨rfl, rfl⟩ := h
        obtain ⟨_, hseed, n, h1, h2, h3⟩ := walkIter_done hi
        exact ⟨rfl, n, by rw [hseed]; exact h1, h2, h3⟩
      | next a1 =>
        simp only [hi] at h
        apply ih _ h
        simp only
        rcases walkIter_next hi with h1 | h1
        · rw [h1, hw]; simp
        · rw [h1]; simp
    · have : (a.mode != Mode.walking) = true := by simp [hw]
      simp only [this, if_true, Prod.mk.injEq] at h
      obtain ⟨_, rfl⟩ := h
      exact absurd he hm

end Refine.Lemmas.Interp
