import Refine.Lemmas.SmoothInterp

/-!
  Split insertion (`ref_interp_locate_between`, `ref_metric_interpolate_between`) against the donor relation, and the
  history lift: the invariants of `Lemmas/SmoothInterp.lean` along any list of improver calls and insertions.
-/
namespace Refine.Lemmas.SmoothInterp
open Refine.Model.SmoothInterp

variable {P B M : Type}

/-- a walk of `ref_interp_locate_between` that ends enclosing started on this rank, so its donor is local -/
theorem betweenWalk_some {bg : Bg P B M} {D : P → Int → B → Prop} (hs : Sound bg D) (fr : Option (Int × Int)) (x : P)
    (c p : Int) (b : B) (h : betweenWalk bg fr x = .ok (some (c, p, b))) : p = bg.rank ∧ D x c b := by
  unfold betweenWalk at h
  cases fr with
  | none => simp at h
  | some cp =>
    obtain ⟨cell, part⟩ := cp
    simp only at h
    split at h
    · rename_i he
      cases hw : bg.walk part cell x with
      | abort => rw [hw] at h; simp at h
      | lost => rw [hw] at h; simp at h
      | enclosing c' p' b' =>
        rw [hw] at h
        simp only [Except.ok.injEq, Option.some.injEq, Prod.mk.injEq] at h
        obtain ⟨rfl, rfl, rfl⟩ := h
        exact ⟨(hs.walk_part _ _ _ _ _ _ hw).trans he.2.symm, hs.walk_donor _ _ _ _ _ _ hw⟩
    · simp at h

theorem betweenWalks_some {bg : Bg P B M} {D : P → Int → B → Prop} (hs : Sound bg D) (n0 n1 : Option (Int × Int)) (x : P)
    (c p : Int) (b : B) (h : betweenWalks bg n0 n1 x = .ok (some (c, p, b))) : p = bg.rank ∧ D x c b := by
  unfold betweenWalks at h
  cases h0 : betweenWalk bg n0 x with
  | error e => rw [h0] at h; simp at h
  | ok w0 =>
    rw [h0] at h
    cases w0 with
    | some r =>
      simp only [Except.ok.injEq, Option.some.injEq] at h
      subst h
      exact betweenWalk_some hs n0 x c p b h0
    | none => exact betweenWalk_some hs n1 x c p b h

theorem betweenFinish_spec {bg : Bg P B M} {D : P → Int → B → Prop} (hs : Sound bg D) (s : NodeSt P B M)
    (hs0 : s.cell = EMPTY) (w : Option (Int × Int × B))
    (hw : ∀ c p b, w = some (c, p, b) → p = bg.rank ∧ D s.xyz c b) :
    (betweenFinish bg s w).2.xyz = s.xyz ∧ (betweenFinish bg s w).2.met = s.met ∧
    (betweenFinish bg s w).1 ≠ .notFound ∧
    ((betweenFinish bg s w).1 = .ok → (betweenFinish bg s w).2.cell ≠ EMPTY →
      (betweenFinish bg s w).2.part = bg.rank ∧ D s.xyz (betweenFinish bg s w).2.cell (betweenFinish bg s w).2.bary) := by
  unfold betweenFinish
  cases w with
  | none =>
    simp only
    by_cases hpa : bg.para = true
    · simp [hpa, hs0]
    · simp only [hpa, Bool.not_false, hs0, and_self, if_true]
      cases hq : bg.seq s.xyz with
      | abort => simp
      | none => simp [hs0]
      | found c b =>
        have hc : c ≠ EMPTY := hs.seq_nonempty _ _ _ hq
        simp only [ne_eq, hc, not_false_eq_true, if_true, reduceCtorEq, true_and]
        exact fun _ _ => hs.seq_donor _ _ _ hq
  | some r =>
    obtain ⟨c, p, b⟩ := r
    obtain ⟨hp, hd⟩ := hw c p b rfl
    simp only
    by_cases hc : c = EMPTY
    · subst hc
      by_cases hpa : bg.para = true
      · simp [hpa]
      · simp only [hpa, Bool.not_false, and_self, if_true]
        cases hq : bg.seq s.xyz with
        | abort => simp
        | none => simp
        | found c b =>
          have hc : c ≠ EMPTY := hs.seq_nonempty _ _ _ hq
          simp only [ne_eq, hc, not_false_eq_true, if_true, reduceCtorEq, true_and]
          exact fun _ _ => hs.seq_donor _ _ _ hq
    · have : ¬ ((!bg.para) = true ∧ c = EMPTY) := fun h => hc h.2
      simp only [this, if_false, ne_eq, reduceCtorEq, not_false_eq_true, true_and]
      exact fun _ _ => ⟨hp, hd⟩

/-- `ref_interp_locate_between`: position and metric untouched; never `REF_NOT_FOUND`; a vertex that comes out
    located is located on this rank at a donor of its position — on the walk path AND on the sequential fall-back
    (the statement that needs the repair of /repo 7d5a551: `part[new_node] = rank`) -/
theorem locateBetween_spec {bg : Bg P B M} {D : P → Int → B → Prop} (hs : Sound bg D) (n0 n1 : Option (Int × Int))
    (s : NodeSt P B M) :
    (locateBetween bg n0 n1 s).2.xyz = s.xyz ∧ (locateBetween bg n0 n1 s).2.met = s.met ∧
    (locateBetween bg n0 n1 s).1 ≠ .notFound ∧
    ((locateBetween bg n0 n1 s).1 = .ok → (locateBetween bg n0 n1 s).2.cell ≠ EMPTY →
      (locateBetween bg n0 n1 s).2.part = bg.rank ∧
      D s.xyz (locateBetween bg n0 n1 s).2.cell (locateBetween bg n0 n1 s).2.bary) := by
  unfold locateBetween
  simp only
  cases h0 : betweenWalks bg n0 n1 s.xyz with
  | error e => simp
  | ok w =>
    simp only
    exact betweenFinish_spec hs { s with cell := EMPTY } rfl w
      (fun c p b hw => betweenWalks_some hs n0 n1 s.xyz c p b (hw ▸ h0))

/-- serial, complete fall-back: an inserted vertex whose position has a donor at all comes out located -/
theorem locateBetween_total {bg : Bg P B M} {D : P → Int → B → Prop} (ht : Total bg D)
    (n0 n1 : Option (Int × Int)) (s : NodeSt P B M) (hd : ∃ c b, D s.xyz c b)
    (hok : (locateBetween bg n0 n1 s).1 = .ok) : (locateBetween bg n0 n1 s).2.cell ≠ EMPTY := by
  obtain ⟨c0, b0, hd⟩ := hd
  obtain ⟨c', b', hq, hc'⟩ := ht.seq_complete _ _ _ hd
  unfold locateBetween at hok ⊢
  simp only at hok ⊢
  cases h0 : betweenWalks bg n0 n1 s.xyz with
  | error e => rw [h0] at hok; simp at hok
  | ok w =>
    simp only
    unfold betweenFinish
    cases w with
    | none => simp [ht.serial, hq, hc']
    | some r =>
      obtain ⟨c, p, b⟩ := r
      by_cases hc : c = EMPTY
      · subst hc; simp [ht.serial, hq, hc']
      · simp [hc]

/-! ### `ref_metric_interpolate_between` -/

theorem between_frame (cfg : Cfg) {bg : Bg P B M} {D : P → Int → B → Prop} (hs : Sound bg D)
    (n0 n1 : Option (Int × Int)) (s : NodeSt P B M) :
    (metricInterpolateBetween cfg bg n0 n1 s).2.xyz = s.xyz := by
  have h := locateBetween_spec hs n0 n1 s
  unfold metricInterpolateBetween
  split
  · rfl
  · split
    · rfl
    · rcases hr : locateBetween bg n0 n1 s with ⟨st, s1⟩
      rw [hr] at h
      cases st with
      | ok =>
        simp only
        split
        · exact h.1
        · split <;> exact h.1
      | notFound => exact h.1
      | failure => exact h.1

/-- an inserted vertex that is located on this rank has a fresh record; an unlocated one keeps the edge-interpolated
    metric it arrived with -/
theorem between_spec {cfg : Cfg} (hl : Live cfg) {bg : Bg P B M} {D : P → Int → B → Prop} (hs : Sound bg D)
    (n0 n1 : Option (Int × Int)) (s : NodeSt P B M) (hok : (metricInterpolateBetween cfg bg n0 n1 s).1 = .ok) :
    (Fresh bg D (metricInterpolateBetween cfg bg n0 n1 s).2 ∧
      (locateBetween bg n0 n1 s).1 = .ok ∧ (locateBetween bg n0 n1 s).2.cell ≠ EMPTY) ∨
    ((metricInterpolateBetween cfg bg n0 n1 s).2.cell = EMPTY ∧ (metricInterpolateBetween cfg bg n0 n1 s).2.met = s.met ∧
      (locateBetween bg n0 n1 s).1 = .ok ∧ (locateBetween bg n0 n1 s).2.cell = EMPTY) := by
  have h := locateBetween_spec hs n0 n1 s
  unfold metricInterpolateBetween at hok ⊢
  simp only [hl.1, hl.2, Bool.not_true, Bool.false_eq_true, if_false] at hok ⊢
  rcases hr : locateBetween bg n0 n1 s with ⟨st, s1⟩
  rw [hr] at h hok
  simp only at h
  cases st with
  | notFound => exact absurd rfl h.2.2.1
  | failure => simp at hok
  | ok =>
    simp only at hok ⊢
    by_cases hc : s1.cell = EMPTY
    · right
      simp only [hc, true_or, if_true]
      exact ⟨trivial, h.2.1, trivial, trivial⟩
    · obtain ⟨hp, hd⟩ := h.2.2.2 rfl hc
      have hn : ¬ (s1.cell = EMPTY ∨ bg.rank ≠ s1.part) := by
        rintro (h1 | h1)
        · exact hc h1
        · exact h1 hp.symm
      simp only [hn, if_false] at hok ⊢
      cases hi : bg.interp s1.cell s1.bary with
      | none => rw [hi] at hok; simp at hok
      | some m =>
        left
        simp only
        refine ⟨⟨hc, hp, ?_, hi⟩, trivial, hc⟩
        rw [h.1]; exact hd

/-! ### histories -/

/-- every vertex that is located on this rank has a fresh record -/
def GridWeak (bg : Bg P B M) (D : P → Int → B → Prop) (G : GridSt P B M) : Prop := ∀ n, MetricAtPosition bg D (G n)

/-- every vertex of `A` is located on this rank with a fresh record -/
def GridFresh (bg : Bg P B M) (D : P → Int → B → Prop) (A : Nat → Prop) (G : GridSt P B M) : Prop :=
  ∀ n, A n → Fresh bg D (G n)

theorem GridSt.set_same (G : GridSt P B M) (n : Nat) (s : NodeSt P B M) : (G.set n s) n = s := by
  unfold GridSt.set; simp

theorem GridSt.set_other (G : GridSt P B M) (n i : Nat) (s : NodeSt P B M) (h : i ≠ n) : (G.set n s) i = G i := by
  unfold GridSt.set; simp [h]

/-! ### the improver from a located vertex: accepted ⇒ fresh; the roll-back is a parameter -/

/-- Improver rule for a vertex that enters located on this rank.  Every accepted try leaves a fresh record at the
    trial position; what holds after the roll-back is whatever one interpolation at the original position from a
    located guess establishes (`Rb`). -/
theorem improve_local_rule {cfg : Cfg} (hl : Live cfg) {bg : Bg P B M} {D : P → Int → B → Prop} (hs : Sound bg D)
    (kind : Kind) (g : Guards P B M) (tries : Nat) (trial : Nat → P) (s0 : NodeSt P B M) (h0 : Local bg s0)
    (Rb : NodeSt P B M → Prop)
    (hrb : ∀ s, Local bg s → (metricInterpolateNode cfg bg { s with xyz := s0.xyz }).1 ≠ .failure →
      Rb (metricInterpolateNode cfg bg { s with xyz := s0.xyz }).2) :
    (∀ j, (improve kind cfg bg g tries trial s0).outcome = .accepted j →
      Fresh bg D (improve kind cfg bg g tries trial s0).st ∧ (improve kind cfg bg g tries trial s0).st.xyz = trial j ∧
      j < tries ∧ g.accept j (improve kind cfg bg g tries trial s0).st = true) ∧
    ((improve kind cfg bg g tries trial s0).outcome = .rolledBack → Rb (improve kind cfg bg g tries trial s0).st) := by
  have hguess : interpGuess cfg s0 = s0.cell := by unfold interpGuess; simp [hl.1, hl.2]
  have hg : interpGuess cfg s0 ≠ EMPTY := by rw [hguess]; exact h0.1
  have key := loop_rule kind.reinterp cfg bg g trial s0.xyz (interpGuess cfg s0) (Local bg)
    (fun x s => Fresh bg D s ∧ s.xyz = x) Rb
    (by
      intro s x hinv hnf
      have hloc := interpolate_local hl hs { s with xyz := x } ⟨hinv.1, hinv.2⟩
      have hfr := interpolate_frame cfg bg { s with xyz := x }
      rcases hr : metricInterpolateNode cfg bg { s with xyz := x } with ⟨st, s2⟩
      rw [hr] at hloc hfr hnf
      simp only at hloc hfr hnf ⊢
      rcases hloc with ⟨hst, hf⟩ | ⟨hst, he⟩ | hst
      · subst hst
        rw [restoreGuess_ok]
        exact ⟨⟨hf.1, hf.2.1⟩, fun _ => ⟨hf, hfr⟩⟩
      · subst hst
        refine ⟨?_, fun h => by cases h⟩
        unfold restoreGuess
        simp only [ne_eq, hg, not_false_eq_true, reduceCtorEq, and_self, if_true]
        subst he
        exact ⟨hg, hinv.2⟩
      · exact absurd hst hnf)
    (by
      intro x s2 hacc hok
      have hloc := interpolate_local hl hs s2 ⟨hacc.1.1, hacc.1.2.1⟩
      have hfr := interpolate_frame cfg bg s2
      rcases hr : metricInterpolateNode cfg bg s2 with ⟨st, s3⟩
      rw [hr] at hloc hfr hok
      simp only at hloc hfr hok ⊢
      subst hok
      rcases hloc with ⟨_, hf⟩ | ⟨hst, _⟩ | hst
      · exact ⟨⟨hf, hfr.trans hacc.2⟩, hf.1, hf.2.1⟩
      · cases hst
      · cases hst)
    hrb tries 0 s0 [] h0
  unfold improve
  refine ⟨fun j hj => ?_, fun hj => key.2 hj⟩
  obtain ⟨a, _, c, d⟩ := key.1 j hj
  exact ⟨a.1, a.2, by omega, d⟩

/-- the original position is re-located to exactly the original donor record from every located guess -/
def StableAt (bg : Bg P B M) (s0 : NodeSt P B M) : Prop :=
  ∀ s, Local bg s → locateNode bg { s with xyz := s0.xyz } =
    (.ok, { s with xyz := s0.xyz, cell := s0.cell, part := s0.part, bary := s0.bary })

theorem interpolate_stable {cfg : Cfg} (hl : Live cfg) {bg : Bg P B M} {D : P → Int → B → Prop} (s0 : NodeSt P B M)
    (h0 : Fresh bg D s0) (hst : StableAt bg s0) (s : NodeSt P B M) (hloc : Local bg s) :
    metricInterpolateNode cfg bg { s with xyz := s0.xyz } = (.ok, s0) := by
  unfold metricInterpolateNode
  simp only [hl.1, hl.2, Bool.not_true, Bool.false_eq_true, if_false]
  rw [hst s hloc]
  have hn : ¬ (s0.cell = EMPTY ∨ bg.rank ≠ s0.part) := by
    rintro (h1 | h1)
    · exact h0.1 h1
    · exact h1 h0.2.1.symm
  simp only [hn, if_false, h0.2.2.2]

/-! ### bookkeeping of the history theorems -/

/-- what a step needs for the strong invariant: the position of an inserted vertex has a donor -/
def OpOk (D : P → Int → B → Prop) : Op P B M → Prop
  | .improve .. => True
  | .between _ _ _ xyz _ => ∃ c b, D xyz c b

/-- the vertices known to be fresh after a step: an insertion adds its vertex -/
def opDom (A : Nat → Prop) : Op P B M → Nat → Prop
  | .improve .., n => A n
  | .between _ _ new _ _, n => A n ∨ n = new

def opsDom (A : Nat → Prop) : List (Op P B M) → Nat → Prop
  | [] => A
  | op :: rest => opsDom (opDom A op) rest


end Refine.Lemmas.SmoothInterp
