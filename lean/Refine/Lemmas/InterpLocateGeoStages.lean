import Refine.Lemmas.InterpLocateGeo
import Refine.Lemmas.InterpLocateStages

/-!
  The geometric invariant of `ref_interp_locate`: what is stored for a located receptor vertex are the weights of ITS OWN
  position in the stored cell of the donor of rank `part`.

  * `WeightsOf dw p c x s`   slots `s` are what the C stores (`storeBary`) for the weights of `x` in cell `c` of the donor
                             part of rank `p`;
  * `QAgeo dw rw a`          an agent's target point is the position of the vertex it works for (known by local index at
                             home, or — a `SUGGESTION` — by global id), and an `ENCLOSING` agent carries `WeightsOf` of its
                             target point in its seed cell on rank `part`;
  * `GhostOK rw`             hypothesis: a ghost copy of a receptor vertex has the coordinates of the owner's copy.

  This file: the facts about single agents / records, and the world-level steps.
-/
set_option linter.unusedSectionVars false

namespace Refine.Lemmas.InterpLocate
open Refine Refine.Model.Geom Refine.Model.Interp Refine.Model.InterpLocate Refine.Model.Comm Refine.Lemmas.Comm
open Refine.Gen

variable {α : Type} [Scalar α]

/-- `s` = the stored weights of `x` in cell `c` of rank `p`'s donor -/
def WeightsOf (dw : World (DonorR α)) (p c : Int) (x : V3 α) (s : Slots α) : Prop :=
  0 ≤ p ∧ ∃ dr, dw[p.toNat]? = some dr ∧ ∃ n, dr.d.cellAt c = some n ∧
    s = storeBary dr.d.twod Slots.unwritten (Refine.Model.Interp.baryOf dr.d n x).2

/-- the agent works for local node `node` of rank `home` and aims at its position -/
def Tgt (rw : World (RecvR α)) (a : AgentP α) : Prop :=
  0 ≤ a.home ∧ 0 ≤ a.node ∧ ∃ rc, rw[a.home.toNat]? = some rc ∧ a.xyz = rc.pt a.node.toNat

/-- a suggestion aims at the position of the vertex with its global id, as the home rank sees it -/
def TgtS (rw : World (RecvR α)) (a : AgentP α) : Prop :=
  ∀ (rc : RecvR α) (i : Nat), 0 ≤ a.home → rw[a.home.toNat]? = some rc → localOf rc.glob a.glob = some i → a.xyz = rc.pt i

def QAgeo (dw : World (DonorR α)) (rw : World (RecvR α)) (a : AgentP α) : Prop :=
  (a.mode = AMode.enclosing → WeightsOf dw a.part a.seed a.xyz a.bary) ∧
  (a.mode ≠ AMode.suggestion → Tgt rw a) ∧ (a.mode = AMode.suggestion → TgtS rw a)

/-- ghost consistency of the receptor: where the owner's view finds the global id of a rank's local vertex, the
    coordinates agree -/
def GhostOK (rw : World (RecvR α)) : Prop :=
  ∀ (r r' : Nat) (rc rc' : RecvR α) (i i' : Nat), rw[r]? = some rc → rw[r']? = some rc' →
    localOf rc'.glob (rc.glob.getD i (-1)) = some i' →
    rc.pt i = rc'.pt i'

/-- cell ids are not `REF_EMPTY` -/
def CellIdsOK (dw : World (DonorR α)) : Prop := ∀ dr ∈ dw, ∀ p ∈ dr.d.cells, p.1 ≠ refEmpty

/-- the per-node clause of rank `r` -/
def PNgeo (dw : World (DonorR α)) (rc : RecvR α) (i : Nat) (c p : Int) (s : Slots α) : Prop :=
  WeightsOf dw p c (rc.pt i) s

theorem cellAt_ne_empty {d : Donor α} {c : Int} {n : CellN} (h : d.cellAt c = some n) (hid : ∀ p ∈ d.cells, p.1 ≠ refEmpty) :
    c ≠ refEmpty := by
  simp only [Donor.cellAt, Option.map_eq_some_iff] at h
  obtain ⟨p, hp, _⟩ := h
  have hm := List.mem_of_find?_eq_some hp
  have he := List.find?_some hp
  simp only [beq_iff_eq] at he
  rw [← he]
  exact hid p hm

theorem weightsOf_cell_ne {dw : World (DonorR α)} (hid : CellIdsOK dw) {p c : Int} {x : V3 α} {s : Slots α}
    (h : WeightsOf dw p c x s) : c ≠ refEmpty := by
  obtain ⟨_, dr, hdr, n, hn, _⟩ := h
  exact cellAt_ne_empty hn (hid dr (List.mem_of_getElem? hdr))

/-! ## single agents -/

theorem qa_mkWalker {dw : World (DonorR α)} {rw : World (RecvR α)} {r : Nat} {rc : RecvR α} (hrc : rw[r]? = some rc)
    (other : Nat) (sp sc : Int) : QAgeo dw rw (mkWalker r rc other sp sc) := by
  refine ⟨by intro h; simp [mkWalker] at h, ?_, by intro h; simp [mkWalker] at h⟩
  intro _
  refine ⟨by simp [mkWalker], by simp [mkWalker], rc, ?_, ?_⟩
  · simpa [mkWalker] using hrc
  · simp [mkWalker]

theorem qa_mkSuggestion {dw : World (DonorR α)} {rw : World (RecvR α)} (hg : GhostOK rw) {r : Nat} {rc : RecvR α}
    (hrc : rw[r]? = some rc) (other : Nat) (sp sc : Int) : QAgeo dw rw (mkSuggestion rc other sp sc) := by
  refine ⟨by intro h; simp [mkSuggestion] at h, by intro h; simp [mkSuggestion] at h, ?_⟩
  intro _ rc' i _ hrc' hloc
  simp only [mkSuggestion] at hrc' hloc ⊢
  exact hg r _ rc rc' other i hrc hrc' hloc

theorem qa_hop {dw : World (DonorR α)} {rw : World (RecvR α)} (a : AgentP α) (seed' : Int) (h : QAgeo dw rw a)
    (hm : a.mode = AMode.hopPart) : QAgeo dw rw { a with mode := AMode.walking, seed := seed' } := by
  refine ⟨by intro h; simp at h, ?_, by intro h; simp at h⟩
  intro _
  have := h.2.1 (by rw [hm]; simp)
  exact this

theorem localOf_lt {globs : List Int} {g : Int} {i : Nat} (h : localOf globs g = some i) : i < globs.length := by
  unfold localOf at h
  simp only at h
  split at h
  · simp only [Option.some.injEq] at h
    subst h; assumption
  · cases h

theorem qa_suggestion {dw : World (DonorR α)} {rw : World (RecvR α)} {r : Nat} {rc : RecvR α} (hrc : rw[r]? = some rc)
    (a : AgentP α) (node : Nat) (h : QAgeo dw rw a) (hm : a.mode = AMode.suggestion) (hh : a.home = (r : Int))
    (hloc : localOf rc.glob a.glob = some node) :
    QAgeo dw rw { a with mode := AMode.walking, node := (node : Int), glob := refEmpty } := by
  refine ⟨by intro h; simp at h, ?_, by intro h; simp at h⟩
  intro _
  have hx := h.2.2 hm rc node (by rw [hh]; exact Int.natCast_nonneg _) (by rw [hh]; simpa using hrc) hloc
  refine ⟨by simp only; rw [hh]; exact Int.natCast_nonneg _, by simp, rc, ?_, ?_⟩
  · simp only; rw [hh]; simpa using hrc
  · simpa using hx

theorem qa_walk {dw : World (DonorR α)} {rw : World (RecvR α)} {r : Nat} {dr : DonorR α} (hdr : dw[r]? = some dr)
    (a a' : AgentP α) (rnd rnd' : Nat) (e : ISt) (h : QAgeo dw rw a) (hw : walkAgentP r dr a rnd = (e, a', rnd'))
    (hm : a.mode = AMode.walking) (hp : a.part = (r : Int)) : QAgeo dw rw a' := by
  unfold walkAgentP at hw
  obtain ⟨f1, f2, f3, f4, f5⟩ := walkLoopP_fields r dr _ a a' rnd rnd' e hw (by rw [hm]; simp) (by rw [hm]; simp)
  have ht : Tgt rw a := h.2.1 (by rw [hm]; simp)
  refine ⟨?_, ?_, fun hs => absurd hs f4⟩
  · intro he
    obtain ⟨hpart, n, b, s0, hn, hb, _, hbary⟩ := f5 he
    refine ⟨by rw [hpart, hp]; exact Int.natCast_nonneg _, dr, by rw [hpart, hp]; simpa using hdr, n, hn, ?_⟩
    rw [hbary, walkCopy_eq, copyN_four, hb]
  · intro _
    obtain ⟨t1, t2, rc, t3, t4⟩ := ht
    exact ⟨by rw [f1]; exact t1, by rw [f2]; exact t2, rc, by rw [f1]; exact t3, by rw [f3, f2]; exact t4⟩

theorem qa_enclose {dw : World (DonorR α)} {rw : World (RecvR α)} (hid : CellIdsOK dw) {r : Nat} {rc : RecvR α}
    (hrc : rw[r]? = some rc) (a : AgentP α) (h : QAgeo dw rw a) (hm : a.mode = AMode.enclosing) (hh : a.home = (r : Int))
    (_hn : 0 ≤ a.node) : a.seed ≠ refEmpty ∧ PNgeo dw rc a.node.toNat a.seed a.part a.bary := by
  have hw := h.1 hm
  have ht := h.2.1 (by rw [hm]; simp)
  obtain ⟨_, _, rc', hrc', hx⟩ := ht
  rw [hh] at hrc'
  simp only [Int.toNat_natCast] at hrc'
  rw [hrc] at hrc'
  cases hrc'
  refine ⟨weightsOf_cell_ne hid hw, ?_⟩
  unfold PNgeo
  rw [← hx]
  exact hw

/-! ## index-aware plumbing -/

theorem collect_getElem? {β : Type} : ∀ {l : List (Except ISt β)} {l' : List β}, collect l = .ok l' →
    ∀ {r : Nat} {b : β}, l'[r]? = some b → l[r]? = some (Except.ok b)
  | [], l', h, r, b, hb => by
    simp only [collect, Except.ok.injEq] at h
    subst h; simp at hb
  | .error e :: rest, l', h, r, b, hb => by simp [collect] at h
  | .ok a :: rest, l', h, r, b, hb => by
    simp only [collect] at h
    obtain ⟨t, ht, rfl⟩ := map_eq_ok.mp h
    cases r with
    | zero => simp only [List.getElem?_cons_zero, Option.some.injEq] at hb ⊢; rw [hb]
    | succ k =>
      simp only [List.getElem?_cons_succ] at hb ⊢
      exact collect_getElem? ht hb

theorem getElem?_mapIdx_zip {β γ δ : Type} {l1 : List β} {l2 : List γ} {f : Nat → β × γ → δ} {r : Nat} {d : δ}
    (h : ((l1.zip l2).mapIdx f)[r]? = some d) : ∃ a b, l1[r]? = some a ∧ l2[r]? = some b ∧ f r (a, b) = d := by
  rw [List.getElem?_mapIdx] at h
  simp only [Option.map_eq_some_iff] at h
  obtain ⟨q, hq, rfl⟩ := h
  obtain ⟨h1, h2⟩ := List.getElem?_zip_eq_some.mp hq
  exact ⟨q.1, q.2, h1, h2, rfl⟩

theorem getElem?_map_zip {β γ δ : Type} {l1 : List β} {l2 : List γ} {f : β × γ → δ} {r : Nat} {d : δ}
    (h : ((l1.zip l2).map f)[r]? = some d) : ∃ a b, l1[r]? = some a ∧ l2[r]? = some b ∧ f (a, b) = d := by
  rw [List.getElem?_map] at h
  simp only [Option.map_eq_some_iff] at h
  obtain ⟨q, hq, rfl⟩ := h
  obtain ⟨h1, h2⟩ := List.getElem?_zip_eq_some.mp hq
  exact ⟨q.1, q.2, h1, h2, rfl⟩

/-! ## `ref_mpi_allconcat` of item lists -/

/-- a successful `concatItems`: every rank gets the source rank of every item and all items, rank by rank -/
theorem concatItems_ok {β : Type} [Inhabited β] (ty : RefType) (hty : ty.id = true) (ldim : Nat)
    (w : World (List (List β))) (hi : ∀ its ∈ w, ∀ it ∈ its, it.length = ldim)
    {res : World (List Int × List (List β))} (h : concatItems ty ldim w = .ok res) :
    res = w.map fun _ => ((w.mapIdx fun r its => List.replicate its.length (r : Int)).flatten, w.flatten) := by
  unfold concatItems at h
  have hspec := allconcat_eq ty hty ldim w hi
  have hform : (w.map fun its => (its.length, its.flatten)) = balanceIn w := rfl
  rw [hform, hspec] at h
  simp only at h
  split at h
  · simp only [Except.ok.injEq] at h
    rw [← h]
    simp only [List.map_map]
    apply List.map_congr_left
    intro x _
    simp only [Function.comp, Int.toNat_natCast, Prod.mk.injEq, true_and]
    exact chunks_flatten ldim w.flatten (by
      intro it hit
      obtain ⟨its, hits, hit2⟩ := List.mem_flatten.mp hit
      exact hi its hits it hit2)
  · cases h

/-- the targets every rank sees: `(rank, local node, position)` of every listed node, rank by rank -/
def targetsOf (rw : World (RecvR α)) (lists : World (List Nat)) : List (Int × Int × V3 α) :=
  ((rw.zip lists).mapIdx fun s q => q.2.map fun (i : Nat) => ((s : Int), (i : Int), q.1.pt i)).flatten

theorem replicate_eq_map {β γ : Type} (l : List β) (c : γ) : List.replicate l.length c = l.map fun _ => c := by
  induction l with
  | nil => rfl
  | cons x rest ih => simp only [List.length_cons, List.replicate_succ, List.map_cons, ih]

theorem zipTargets_one (r : Int) (q : RecvR α × List Nat) :
    zipTargets (List.replicate (nodeItems q).length r) (nodeItems q) (xyzItems q) =
      q.2.map fun (i : Nat) => (r, (i : Int), q.1.pt i) := by
  unfold zipTargets nodeItems xyzItems
  rw [List.length_map, replicate_eq_map, zip_map_same, zip_map_same, List.map_map]
  apply List.map_congr_left
  intro i _
  simp [Function.comp, v3OfList, RecvR.pt]

theorem zipTargets_append (s1 s2 : List Int) (n1 n2 : List (List Int)) (x1 x2 : List (List α))
    (h1 : s1.length = n1.length) (h2 : n1.length = x1.length) :
    zipTargets (s1 ++ s2) (n1 ++ n2) (x1 ++ x2) = zipTargets s1 n1 x1 ++ zipTargets s2 n2 x2 := by
  unfold zipTargets
  rw [List.zip_append h2, List.zip_append (by rw [h1, List.length_zip, ← h2, Nat.min_self]), List.map_append]

theorem zipTargets_aux : ∀ (l : List (RecvR α × List Nat)) (k : Nat),
    zipTargets ((l.map nodeItems).mapIdx fun r its => List.replicate its.length ((r + k : Nat) : Int)).flatten
        (l.map nodeItems).flatten (l.map xyzItems).flatten =
      (l.mapIdx fun s q => q.2.map fun (i : Nat) => (((s + k : Nat) : Int), (i : Int), q.1.pt i)).flatten
  | [], k => by simp [zipTargets]
  | q :: rest, k => by
    simp only [List.map_cons, List.mapIdx_cons, List.flatten_cons, Nat.zero_add]
    rw [zipTargets_append _ _ _ _ _ _ (by simp) (by simp [nodeItems, xyzItems]), zipTargets_one]
    congr 1
    have := zipTargets_aux rest (k + 1)
    simp only [Nat.add_assoc, Nat.add_comm 1 k] at this ⊢
    exact this

/-- the three concatenated lists re-assembled: the targets are exactly `targetsOf` -/
theorem zipTargets_spec (rw : World (RecvR α)) (lists : World (List Nat)) :
    zipTargets (((rw.zip lists).map nodeItems).mapIdx fun r its => List.replicate its.length (r : Int)).flatten
      ((rw.zip lists).map nodeItems).flatten ((rw.zip lists).map xyzItems).flatten = targetsOf rw lists := by
  have := zipTargets_aux (rw.zip lists) 0
  simpa [targetsOf] using this

theorem mem_targetsOf {rw : World (RecvR α)} {lists : World (List Nat)} {t : Int × Int × V3 α}
    (h : t ∈ targetsOf rw lists) :
    ∃ (s : Nat) (rc : RecvR α) (i : Nat), rw[s]? = some rc ∧ t = ((s : Int), (i : Int), rc.pt i) := by
  simp only [targetsOf, List.mem_flatten] at h
  obtain ⟨l, hl, ht⟩ := h
  obtain ⟨s, hs, rfl⟩ := List.mem_mapIdx.mp hl
  simp only [List.mem_map] at ht
  obtain ⟨i, _, rfl⟩ := ht
  refine ⟨s, (rw.zip lists)[s].1, i, ?_, rfl⟩
  have : (rw.zip lists)[s]? = some (rw.zip lists)[s] := List.getElem?_eq_getElem hs
  exact (List.getElem?_zip_eq_some.mp this).1

/-! ## what a selected candidate is -/

theorem inListFold_error_ne_ok (d : Donor α) (x : V3 α) :
    ∀ (l : List Int) (best : Int × α) (e : ISt), inListFold d x l best = .error e → e ≠ ISt.ok
  | [], best, e, h => by simp [inListFold] at h
  | c :: rest, best, e, h => by
    simp only [inListFold] at h
    cases hca : d.cellAt c with
    | none =>
      simp only [hca, Except.error.injEq] at h
      rw [← h]; simp
    | some n =>
      simp only [hca] at h
      rcases hb : Refine.Model.Interp.baryOf d n x with ⟨st, b⟩
      rw [hb] at h
      cases st with
      | ok => exact inListFold_error_ne_ok d x rest _ e h
      | divZero => exact inListFold_error_ne_ok d x rest _ e h
      | failure => simp only [Except.error.injEq] at h; rw [← h]; simp [ISt.ofGeom]
      | invalid => simp only [Except.error.injEq] at h; rw [← h]; simp [ISt.ofGeom]
      | implement => simp only [Except.error.injEq] at h; rw [← h]; simp [ISt.ofGeom]

/-- `ref_interp_enclosing_*_in_list` / `ref_interp_exhaustive_*_around_node`, success: a real cell, and the returned
    weights are that cell's weights at the query, computed with `REF_SUCCESS` -/
theorem enclosingInList_ok {d : Donor α} {l : List Int} {x : V3 α} {c : Int} {b : B4 α}
    (h : enclosingInList d l x = (.ok, c, b)) :
    c ≠ refEmpty ∧ ∃ n, d.cellAt c = some n ∧ Refine.Model.Interp.baryOf d n x = (St.ok, b) := by
  unfold enclosingInList at h
  cases hf : inListFold d x l bestInit with
  | error e =>
    simp only [hf, Prod.mk.injEq] at h
    exact absurd h.1 (inListFold_error_ne_ok d x l _ e hf)
  | ok best =>
    simp only [hf] at h
    by_cases hb : (best.1 == refEmpty) = true
    · simp [hb] at h
    · rw [if_neg hb] at h
      cases hca : d.cellAt best.1 with
      | none => simp [hca] at h
      | some n =>
        simp only [hca] at h
        rcases hbo : Refine.Model.Interp.baryOf d n x with ⟨st, b'⟩
        rw [hbo] at h
        cases st with
        | ok =>
          simp only [Prod.mk.injEq, true_and] at h
          obtain ⟨rfl, rfl⟩ := h
          exact ⟨by simpa using hb, n, hca, hbo⟩
        | divZero => simp [ISt.ofGeom] at h
        | failure => simp [ISt.ofGeom] at h
        | invalid => simp [ISt.ofGeom] at h
        | implement => simp [ISt.ofGeom] at h

/-! ## the records of stage 1 and stage 3 -/

/-- a record `ref_interp_geom_nodes` sends answers one target: destination and node are the target's, `proc` is the
    sender, the cell is a real cell of the sender's donor and the slots are the weights of the TARGET POINT in it -/
theorem geomSends_rec (r : Nat) (dr : DonorR α) :
    ∀ (targets : List (Int × Int × V3 α)) (who : List Int) (best : List (α × Int)) (l : List (Located α)),
      geomSends r dr targets who best = .ok l → ∀ x ∈ l, ∃ t ∈ targets,
        x.dest = t.1.toNat ∧ x.node = t.2.1 ∧ x.proc = (r : Int) ∧ x.cell ≠ refEmpty ∧
        ∃ n b, dr.d.cellAt x.cell = some n ∧ Refine.Model.Interp.baryOf dr.d n t.2.2 = (St.ok, b) ∧
          x.bary = storeBary dr.d.twod Slots.unwritten b := by
  intro targets
  unfold geomSends
  induction targets with
  | nil =>
    intro who best l h x hx
    simp only [geomSends.go, Except.ok.injEq] at h
    subst h; cases hx
  | cons t ts ih =>
    intro who best l h x hx
    cases who with
    | nil => simp only [geomSends.go, Except.ok.injEq] at h; subst h; cases hx
    | cons p ps =>
      cases best with
      | nil => simp only [geomSends.go, Except.ok.injEq] at h; subst h; cases hx
      | cons b bs =>
        simp only [geomSends.go] at h
        have lift : (∃ t' ∈ ts, x.dest = t'.1.toNat ∧ x.node = t'.2.1 ∧ x.proc = (r : Int) ∧ x.cell ≠ refEmpty ∧
            ∃ n b, dr.d.cellAt x.cell = some n ∧ Refine.Model.Interp.baryOf dr.d n t'.2.2 = (St.ok, b) ∧
              x.bary = storeBary dr.d.twod Slots.unwritten b) →
            ∃ t' ∈ t :: ts, x.dest = t'.1.toNat ∧ x.node = t'.2.1 ∧ x.proc = (r : Int) ∧ x.cell ≠ refEmpty ∧
            ∃ n b, dr.d.cellAt x.cell = some n ∧ Refine.Model.Interp.baryOf dr.d n t'.2.2 = (St.ok, b) ∧
              x.bary = storeBary dr.d.twod Slots.unwritten b := by
          rintro ⟨t', ht', rest⟩
          exact ⟨t', List.mem_cons_of_mem _ ht', rest⟩
        split at h
        · split at h
          · rename_i c wts hex
            obtain ⟨l', hl', rfl⟩ := map_eq_ok.mp h
            rcases List.mem_cons.mp hx with rfl | hx'
            · obtain ⟨hc, n, hn, hb⟩ := enclosingInList_ok hex
              exact ⟨t, List.mem_cons_self, rfl, rfl, rfl, hc, n, wts, hn, hb, rfl⟩
            · exact lift (ih ps bs l' hl' x hx')
          · cases h
        · exact lift (ih ps bs l h x hx)

theorem tree_slots_eq (twod : Bool) (b : B4 α) :
    (if twod then (Slots.unwritten.zero3).write3 b else Slots.unwritten.write4 b) = storeBary twod Slots.unwritten b := by
  cases twod <;> simp [storeBary, Slots.write3, Slots.zero3, Slots.write4, Slots.unwritten]

theorem treeSends_rec (r : Nat) (dr : DonorR α) :
    ∀ (targets : List (Int × Int × V3 α)) (who : List Int) (best : List (α × Int)) (l : List (Located α)) (inc : Bool),
      treeSends r dr targets who best = .ok (l, inc) → ∀ x ∈ l, x.cell ≠ refEmpty → ∃ t ∈ targets,
        x.dest = t.1.toNat ∧ x.node = t.2.1 ∧ x.proc = (r : Int) ∧
        ∃ n b, dr.d.cellAt x.cell = some n ∧ Refine.Model.Interp.baryOf dr.d n t.2.2 = (St.ok, b) ∧
          x.bary = storeBary dr.d.twod Slots.unwritten b := by
  intro targets
  unfold treeSends
  induction targets with
  | nil =>
    intro who best l inc h x hx
    simp only [treeSends.go, Except.ok.injEq, Prod.mk.injEq] at h
    obtain ⟨rfl, _⟩ := h; cases hx
  | cons t ts ih =>
    intro who best l inc h x hx hc
    cases who with
    | nil =>
      simp only [treeSends.go, Except.ok.injEq, Prod.mk.injEq] at h
      obtain ⟨rfl, _⟩ := h; cases hx
    | cons p ps =>
      cases best with
      | nil =>
        simp only [treeSends.go, Except.ok.injEq, Prod.mk.injEq] at h
        obtain ⟨rfl, _⟩ := h; cases hx
      | cons b bs =>
        simp only [treeSends.go] at h
        have lift : (∃ t' ∈ ts, x.dest = t'.1.toNat ∧ x.node = t'.2.1 ∧ x.proc = (r : Int) ∧
            ∃ n b, dr.d.cellAt x.cell = some n ∧ Refine.Model.Interp.baryOf dr.d n t'.2.2 = (St.ok, b) ∧
              x.bary = storeBary dr.d.twod Slots.unwritten b) →
            ∃ t' ∈ t :: ts, x.dest = t'.1.toNat ∧ x.node = t'.2.1 ∧ x.proc = (r : Int) ∧
            ∃ n b, dr.d.cellAt x.cell = some n ∧ Refine.Model.Interp.baryOf dr.d n t'.2.2 = (St.ok, b) ∧
              x.bary = storeBary dr.d.twod Slots.unwritten b := by
          rintro ⟨t', ht', rest⟩
          exact ⟨t', List.mem_cons_of_mem _ ht', rest⟩
        split at h
        · split at h
          · split at h
            · cases h
            · rename_i n hn
              split at h
              · rename_i wts hbo
                obtain ⟨q, hq, hq2⟩ := map_eq_ok.mp h
                simp only [Prod.mk.injEq] at hq2
                obtain ⟨rfl, _⟩ := hq2
                rcases List.mem_cons.mp hx with rfl | hx'
                · exact ⟨t, List.mem_cons_self, rfl, rfl, rfl, n, wts, hn, hbo, tree_slots_eq _ _⟩
                · exact lift (ih ps bs q.1 q.2 hq x hx' hc)
              · cases h
          · obtain ⟨q, hq, hq2⟩ := map_eq_ok.mp h
            simp only [Prod.mk.injEq] at hq2
            obtain ⟨rfl, _⟩ := hq2
            rcases List.mem_cons.mp hx with rfl | hx'
            · exact absurd rfl hc
            · exact lift (ih ps bs q.1 q.2 hq x hx' hc)
        · exact lift (ih ps bs l inc h x hx hc)

/-! ## the world-level invariant -/

/-- every rank satisfies the geometric invariant with respect to its own receptor view -/
def GoodWG (dw : World (DonorR α)) (rw : World (RecvR α)) (w : World (RankSt α)) : Prop :=
  w.length = rw.length ∧
    ∀ (r : Nat) (st : RankSt α) (rc : RecvR α), w[r]? = some st → rw[r]? = some rc →
      GoodG (PNgeo dw rc) (QAgeo dw rw) st

theorem allminwho_length {β : Type} (lt : β → β → Bool) (n : Nat) (w : World (List β)) :
    (allminwho lt n w).length = w.length := by
  unfold allminwho
  split <;> simp

/-- what every rank's target list is after the two concatenations -/
theorem targets_eq {rw : World (RecvR α)} {lists : World (List Nat)}
    {xyzs : World (List Int × List (List α))} {nodes : World (List Int × List (List Int))}
    (hx : concatItems (β := α) RefType.dbl 3 ((rw.zip lists).map xyzItems) = .ok xyzs)
    (hn : concatItems RefType.int 1 ((rw.zip lists).map nodeItems) = .ok nodes) :
    ((nodes.zip xyzs).map fun q => zipTargets q.1.1 q.1.2 q.2.2) =
      (rw.zip lists).map fun _ => targetsOf rw lists := by
  have h1 := concatItems_ok RefType.dbl rfl 3 _ (by
    intro its hits it hit
    simp only [List.mem_map] at hits
    obtain ⟨q, _, rfl⟩ := hits
    simp only [xyzItems, List.mem_map] at hit
    obtain ⟨i, _, rfl⟩ := hit
    rfl) hx
  have h2 := concatItems_ok RefType.int rfl 1 _ (by
    intro its hits it hit
    simp only [List.mem_map] at hits
    obtain ⟨q, _, rfl⟩ := hits
    simp only [nodeItems, List.mem_map] at hit
    obtain ⟨i, _, rfl⟩ := hit
    rfl) hn
  rw [h1, h2, List.map_map, List.map_map, zip_map_same, List.map_map]
  apply List.map_congr_left
  intro q _
  simp only [Function.comp]
  exact zipTargets_spec rw lists

theorem getElem?_const_map {β γ : Type} {l : List β} {c : γ} {r : Nat} {x : γ}
    (h : (l.map fun _ => c)[r]? = some x) : x = c := by
  rw [List.getElem?_map] at h
  cases hl : l[r]? with
  | none => simp [hl] at h
  | some y => simp [hl] at h; exact h.symm

/-! ## stage 1 -/

theorem goodWG_geomStage {dw : World (DonorR α)} {rw : World (RecvR α)} {w w' : World (RankSt α)}
    (hgh : GhostOK rw) (hdl : dw.length = rw.length) (hg : GoodWG dw rw w)
    (h : geomStage dw rw w = .ok w') : GoodWG dw rw w' := by
  unfold geomStage at h
  try simp only at h
  obtain ⟨xyzs, hx, h⟩ := bind_eq_ok.mp h
  obtain ⟨nodes, hn, h⟩ := bind_eq_ok.mp h
  try simp only at h
  rw [targets_eq hx hn] at h
  obtain ⟨sends, hsends, h⟩ := bind_eq_ok.mp h
  obtain ⟨recvs, hrecvs, h⟩ := bind_eq_ok.mp h
  obtain ⟨w1, hw1, h⟩ := bind_eq_ok.mp h
  simp only [pure, Except.pure, Except.ok.injEq] at h
  subst h
  have hrec := exchangeLocated_ok sends hrecvs
  -- the ranks of the new world
  have key : ∀ (r : Nat) (st1 : RankSt α) (rc : RecvR α), w1[r]? = some st1 → rw[r]? = some rc →
      GoodG (PNgeo dw rc) (QAgeo dw rw) st1 := by
    intro r st1 rc hst1 hrc
    obtain ⟨rc', q, hrc', hq, hrecv⟩ := getElem?_mapIdx_zip (collect_getElem? hw1 hst1)
    rw [hrc] at hrc'
    cases hrc'
    obtain ⟨hqw, hqr⟩ := List.getElem?_zip_eq_some.mp hq
    refine goodG_geomRecv r rc (fun o sp sc => qa_mkWalker hrc o sp sc) (fun o sp sc => qa_mkSuggestion hgh hrc o sp sc)
      q.2 q.1 st1 (hg.2 r q.1 rc hqw hrc) ?_ hrecv
    intro it hit _
    -- the record was sent to `r` by some rank `r2`
    rw [hrec, List.getElem?_map] at hqr
    simp only [Option.map_eq_some_iff] at hqr
    obtain ⟨r', hr', hitems⟩ := hqr
    obtain ⟨_, hval⟩ := List.getElem?_eq_some_iff.mp hr'
    have hr'' : r' = r := by rw [← hval, List.getElem_range]
    subst hr''
    rw [← hitems] at hit
    simp only [List.mem_map] at hit
    obtain ⟨x, hx', rfl⟩ := hit
    obtain ⟨l, hl, hxl⟩ := mem_deliveredG hx'
    simp only [locatedPairs, List.mem_map] at hl
    obtain ⟨l0, hl0, rfl⟩ := hl
    simp only [List.mem_map, Prod.mk.injEq] at hxl
    obtain ⟨y, hy, hyd, rfl⟩ := hxl
    obtain ⟨r2, hr2lt, hr2⟩ := List.mem_iff_getElem.mp hl0
    have hs2 : sends[r2]? = some l0 := by rw [← hr2]; exact List.getElem?_eq_getElem hr2lt
    obtain ⟨dr, q2, hdr, hq2, hgs⟩ := getElem?_mapIdx_zip (collect_getElem? hsends hs2)
    obtain ⟨htg, _⟩ := List.getElem?_zip_eq_some.mp hq2
    have htg' := getElem?_const_map htg
    rw [htg'] at hgs
    obtain ⟨t, ht, hd, hnode, hproc, hcell, n, b, hcn, hbo, hbary⟩ := geomSends_rec r2 dr _ _ _ l0 hgs y hy
    obtain ⟨s, rcs, i, hrcs, rfl⟩ := mem_targetsOf ht
    simp only [Int.toNat_natCast] at hd
    rw [hyd] at hd
    subst hd
    rw [hrc] at hrcs
    cases hrcs
    simp only at hnode
    refine ⟨hcell, ?_⟩
    show WeightsOf dw y.proc y.cell (rc.pt y.node.toNat) y.bary
    rw [hnode, hproc, Int.toNat_natCast]
    refine ⟨Int.natCast_nonneg _, dr, by simpa using hdr, n, hcn, ?_⟩
    rw [hbary, hbo]
  constructor
  · -- lengths
    have l1 := collect_length hw1
    have l2 := exchangeLocated_length hrecvs
    have l3 := collect_length hsends
    simp only [List.length_map, List.length_mapIdx, List.length_zip, allminwho_length] at l1 l3 ⊢
    rw [l1, l2, l3]
    have := hg.1
    omega
  · intro r st' rc hst' hrc
    rw [List.getElem?_map] at hst'
    simp only [Option.map_eq_some_iff] at hst'
    obtain ⟨st1, hst1, rfl⟩ := hst'
    have := key r st1 rc hst1 hrc
    exact goodG_frame this rfl rfl rfl rfl this.agents

/-! ## stage 2 -/

theorem goodWG_sweep {dw : World (DonorR α)} {rw : World (RecvR α)} {w w' : World (RankSt α)}
    (hid : CellIdsOK dw) (hgh : GhostOK rw) (hdl : dw.length = rw.length) (hg : GoodWG dw rw w)
    (h : sweep dw rw w = .ok w') : GoodWG dw rw w' := by
  unfold sweep at h
  obtain ⟨w1, hw1, h⟩ := bind_eq_ok.mp h
  obtain ⟨ags, hags, h⟩ := bind_eq_ok.mp h
  try simp only at h
  obtain ⟨w3, hw3, h⟩ := bind_eq_ok.mp h
  obtain ⟨w4, hw4, h⟩ := bind_eq_ok.mp h
  obtain ⟨w5, hw5, h⟩ := bind_eq_ok.mp h
  have hwl := hg.1
  have g1 : GoodWG dw rw w1 := by
    refine ⟨by have := collect_length hw1; simp only [List.length_mapIdx, List.length_zip] at this; omega, ?_⟩
    intro r st rc hst hrc
    obtain ⟨dr, st0, hdr, hst0, hwk⟩ := getElem?_mapIdx_zip (collect_getElem? hw1 hst)
    exact goodG_walkAll (hg.2 r st0 rc hst0 hrc) (fun a a' rnd rnd' e hq hwa hm hp => qa_walk hdr a a' rnd rnd' e hq hwa hm hp) hwk
  have g2 : GoodWG dw rw ((w1.zip ags).map fun q => { q.1 with ag := q.2 }) := by
    have hal := migrate_length hags
    refine ⟨by simp only [List.length_map, List.length_zip, hal]; have := g1.1; omega, ?_⟩
    intro r st rc hst hrc
    obtain ⟨st1, ag, hst1, hag, rfl⟩ := getElem?_map_zip hst
    refine goodG_frame (g1.2 r st1 rc hst1 hrc) rfl rfl rfl rfl ?_
    intro p hp
    obtain ⟨a, ha, p0, hp0, hpp⟩ := migrate_mem hags (List.mem_of_getElem? hag) hp
    simp only [List.mem_map] at ha
    obtain ⟨st0, hst0, rfl⟩ := ha
    obtain ⟨r0, hr0lt, hr0⟩ := List.mem_iff_getElem.mp hst0
    have hs0 : w1[r0]? = some st0 := by rw [← hr0]; exact List.getElem?_eq_getElem hr0lt
    have hr0rw : r0 < rw.length := by rw [← g1.1]; exact hr0lt
    have := (g1.2 r0 st0 rw[r0] hs0 (List.getElem?_eq_getElem hr0rw)).agents p0 hp0
    rw [← hpp]; exact this
  have g3 : GoodWG dw rw w3 := by
    refine ⟨by
      have := collect_length hw3
      have g2l := g2.1
      simp only [List.length_mapIdx, List.length_zip, List.length_map] at this g2l
      omega, ?_⟩
    intro r st rc hst hrc
    obtain ⟨dr, st0, hdr, hst0, hwk⟩ := getElem?_mapIdx_zip (collect_getElem? hw3 hst)
    exact goodG_hopArrive (g2.2 r st0 rc hst0 hrc) (fun a sd hq hm => qa_hop a sd hq hm) hwk
  have g4 : GoodWG dw rw w4 := by
    refine ⟨by have := collect_length hw4; simp only [List.length_mapIdx, List.length_zip] at this; have := g3.1; omega, ?_⟩
    intro r st rc hst hrc
    obtain ⟨rc', st0, hrc', hst0, hwk⟩ := getElem?_mapIdx_zip (collect_getElem? hw4 hst)
    rw [hrc] at hrc'; cases hrc'
    exact goodG_suggestionArrive (g3.2 r st0 rc hst0 hrc)
      (fun a nd hq hm hh hl => qa_suggestion hrc a nd hq hm hh hl) hwk
  have g5 : GoodWG dw rw w5 := by
    refine ⟨by have := collect_length hw5; simp only [List.length_mapIdx, List.length_zip] at this; have := g4.1; omega, ?_⟩
    intro r st rc hst hrc
    obtain ⟨rc', st0, hrc', hst0, hwk⟩ := getElem?_mapIdx_zip (collect_getElem? hw5 hst)
    rw [hrc] at hrc'; cases hrc'
    exact goodG_giveUp (g4.2 r st0 rc hst0 hrc) hwk
  refine ⟨by have := collect_length h; simp only [List.length_mapIdx, List.length_zip] at this; have := g5.1; omega, ?_⟩
  intro r st rc hst hrc
  obtain ⟨rc', st0, hrc', hst0, hwk⟩ := getElem?_mapIdx_zip (collect_getElem? h hst)
  rw [hrc] at hrc'; cases hrc'
  exact goodG_enclose (g5.2 r st0 rc hst0 hrc) (fun o sp sc => qa_mkWalker hrc o sp sc)
    (fun o sp sc => qa_mkSuggestion hgh hrc o sp sc) (fun a hq hm hh hn => qa_enclose hid hrc a hq hm hh hn) hwk

theorem goodWG_sweeps {dw : World (DonorR α)} {rw : World (RecvR α)}
    (hid : CellIdsOK dw) (hgh : GhostOK rw) (hdl : dw.length = rw.length) :
    ∀ (fuel : Nat) (w w' : World (RankSt α)), GoodWG dw rw w → sweeps dw rw fuel w = .ok w' → GoodWG dw rw w'
  | 0, w, w', hg, h => by
    simp only [sweeps] at h
    split at h
    · simp only [Except.ok.injEq] at h; subst h; exact hg
    · cases h
  | fuel + 1, w, w', hg, h => by
    simp only [sweeps] at h
    split at h
    · simp only [Except.ok.injEq] at h; subst h; exact hg
    · split at h
      · rename_i w1 hs
        exact goodWG_sweeps hid hgh hdl fuel w1 w' (goodWG_sweep hid hgh hdl hg hs) h
      · cases h

theorem goodWG_frame {dw : World (DonorR α)} {rw : World (RecvR α)} {w : World (RankSt α)} (hg : GoodWG dw rw w)
    (f : RankSt α → RankSt α) (hb : ∀ st, (f st).bary = st.bary) (hs : ∀ st, (f st).stage = st.stage)
    (hc : ∀ st, (f st).cell = st.cell) (hp : ∀ st, (f st).part = st.part) (ha : ∀ st, (f st).ag = st.ag) :
    GoodWG dw rw (w.map f) := by
  refine ⟨by simp [hg.1], ?_⟩
  intro r st' rc hst' hrc
  rw [List.getElem?_map] at hst'
  simp only [Option.map_eq_some_iff] at hst'
  obtain ⟨st1, hst1, rfl⟩ := hst'
  have := hg.2 r st1 rc hst1 hrc
  exact goodG_frame this (hb _) (hs _) (hc _) (hp _) (by rw [ha]; exact this.agents)

theorem goodWG_processAgents {dw : World (DonorR α)} {rw : World (RecvR α)} {w w' : World (RankSt α)}
    (hid : CellIdsOK dw) (hgh : GhostOK rw) (hdl : dw.length = rw.length) (hg : GoodWG dw rw w)
    (h : processAgents dw rw w = .ok w') : GoodWG dw rw w' := by
  unfold processAgents at h
  obtain ⟨w1, hw1, h⟩ := bind_eq_ok.mp h
  try simp only at h
  split at h
  · cases h
  · simp only [pure, Except.pure, Except.ok.injEq] at h
    subst h
    exact goodWG_frame (goodWG_sweeps hid hgh hdl _ _ _ hg hw1) _ (fun _ => rfl) (fun _ => rfl) (fun _ => rfl)
      (fun _ => rfl) (fun _ => rfl)

/-! ## stage 3 -/

theorem goodWG_treeStage {dw : World (DonorR α)} {ss : World (Refine.Model.Search.Search α)} {rw : World (RecvR α)}
    {fuzz : α} {w w' : World (RankSt α)} {inc : Bool} (hdl : dw.length = rw.length) (hsl : ss.length = rw.length)
    (hg : GoodWG dw rw w) (h : treeStage dw ss rw fuzz w = .ok (w', inc)) : GoodWG dw rw w' := by
  unfold treeStage at h
  try simp only at h
  obtain ⟨xyzs, hx, h⟩ := bind_eq_ok.mp h
  obtain ⟨nodes, hn, h⟩ := bind_eq_ok.mp h
  try simp only at h
  rw [targets_eq hx hn] at h
  obtain ⟨props, hprops, h⟩ := bind_eq_ok.mp h
  try simp only at h
  obtain ⟨sends, hsends, h⟩ := bind_eq_ok.mp h
  obtain ⟨recvs, hrecvs, h⟩ := bind_eq_ok.mp h
  try simp only at h
  obtain ⟨w2, hw2, h⟩ := bind_eq_ok.mp h
  try simp only at h
  have hrec := exchangeLocated_ok _ hrecvs
  have hwl := hg.1
  have key : ∀ (r : Nat) (st2 : RankSt α) (rc : RecvR α), w2[r]? = some st2 → rw[r]? = some rc →
      GoodG (PNgeo dw rc) (QAgeo dw rw) st2 := by
    intro r st2 rc hst2 hrc
    obtain ⟨st1, items, hst1, hitems, hrecv⟩ := getElem?_map_zip (collect_getElem? hw2 hst2)
    obtain ⟨st0, pr, hst0, _, rfl⟩ := getElem?_map_zip hst1
    have hg0 := hg.2 r st0 rc hst0 hrc
    simp only at hrecv
    refine goodG_treeRecv items { st0 with treeCells := st0.treeCells + sumAll (pr.map fun p => (p.2 : Int)) } st2
      (goodG_frame hg0 rfl rfl rfl rfl hg0.agents) ?_ hrecv
    intro it hit hcne
    rw [hrec, List.getElem?_map] at hitems
    simp only [Option.map_eq_some_iff] at hitems
    obtain ⟨r', hr', hitems⟩ := hitems
    obtain ⟨_, hval⟩ := List.getElem?_eq_some_iff.mp hr'
    have hr'' : r' = r := by rw [← hval, List.getElem_range]
    subst hr''
    rw [← hitems] at hit
    simp only [List.mem_map] at hit
    obtain ⟨x, hx', rfl⟩ := hit
    obtain ⟨l, hl, hxl⟩ := mem_deliveredG hx'
    simp only [locatedPairs, List.mem_map] at hl
    obtain ⟨l0, ⟨sd, hsd, rfl⟩, rfl⟩ := hl
    simp only [List.mem_map, Prod.mk.injEq] at hxl
    obtain ⟨y, hy, hyd, rfl⟩ := hxl
    obtain ⟨r2, hr2lt, hr2⟩ := List.mem_iff_getElem.mp hsd
    have hs2 : sends[r2]? = some sd := by rw [← hr2]; exact List.getElem?_eq_getElem hr2lt
    obtain ⟨dr, q2, hdr, hq2, hgs⟩ := getElem?_mapIdx_zip (collect_getElem? hsends hs2)
    obtain ⟨htg, _⟩ := List.getElem?_zip_eq_some.mp hq2
    have htg' := getElem?_const_map htg
    rw [htg'] at hgs
    obtain ⟨t, ht, hd, hnode, hproc, n, b, hcn, hbo, hbary⟩ :=
      treeSends_rec r2 dr _ _ _ sd.1 sd.2 hgs y hy hcne
    obtain ⟨s, rcs, i, hrcs, rfl⟩ := mem_targetsOf ht
    simp only [Int.toNat_natCast] at hd
    rw [hyd] at hd
    subst hd
    rw [hrc] at hrcs
    cases hrcs
    simp only at hnode
    show WeightsOf dw y.proc y.cell (rc.pt y.node.toNat) y.bary
    rw [hnode, hproc, Int.toNat_natCast]
    refine ⟨Int.natCast_nonneg _, dr, by simpa using hdr, n, hcn, ?_⟩
    rw [hbary, hbo]
  have hlen : w2.length = rw.length := by
    have l1 := collect_length hw2
    have l2 := exchangeLocated_length hrecvs
    have l3 := collect_length hsends
    have l4 := collect_length hprops
    simp only [List.length_map, List.length_mapIdx, List.length_zip, allminwho_length] at l1 l2 l3 l4
    omega
  have hgoal : GoodWG dw rw (w2.map fun st => { st with nTree := sumAll (w2.map (·.nTree)) }) :=
    goodWG_frame ⟨hlen, key⟩ _ (fun _ => rfl) (fun _ => rfl) (fun _ => rfl) (fun _ => rfl) (fun _ => rfl)
  split at h
  · cases h
  · simp only [pure, Except.pure, Except.ok.injEq, Prod.mk.injEq] at h
    obtain ⟨rfl, _⟩ := h
    exact hgoal

theorem goodWG_treeLoop {dw : World (DonorR α)} {ss : World (Refine.Model.Search.Search α)} {rw : World (RecvR α)}
    (hdl : dw.length = rw.length) (hsl : ss.length = rw.length) :
    ∀ (k : Nat) (inc : Bool) (fuzz fuzz' : α) (w w' : World (RankSt α)), GoodWG dw rw w →
      treeLoop dw ss rw k inc fuzz w = .ok (w', fuzz') → GoodWG dw rw w'
  | 0, inc, fuzz, fuzz', w, w', hg, h => by
    simp only [treeLoop] at h
    split at h
    · cases h
    · simp only [Except.ok.injEq, Prod.mk.injEq] at h
      obtain ⟨rfl, _⟩ := h; exact hg
  | k + 1, inc, fuzz, fuzz', w, w', hg, h => by
    simp only [treeLoop] at h
    split at h
    · cases h
    · rename_i w1 inc1 hts
      have g1 := goodWG_treeStage hdl hsl hg hts
      split at h
      · exact goodWG_treeLoop hdl hsl k true _ fuzz' w1 w' g1 h
      · simp only [Except.ok.injEq, Prod.mk.injEq] at h
        obtain ⟨rfl, _⟩ := h; exact g1

/-- the geometric invariant after `ref_interp_locate` -/
theorem goodWG_locate {dw : World (DonorR α)} {ss : World (Refine.Model.Search.Search α)} {rw : World (RecvR α)}
    {fuzz fuzz' : α} {w w' : World (RankSt α)} (hid : CellIdsOK dw) (hgh : GhostOK rw) (hdl : dw.length = rw.length)
    (hsl : ss.length = rw.length) (hg : GoodWG dw rw w) (h : locate dw ss rw fuzz w = .ok (w', fuzz')) :
    GoodWG dw rw w' := by
  unfold locate at h
  obtain ⟨w1, hw1, h⟩ := bind_eq_ok.mp h
  obtain ⟨w2, hw2, h⟩ := bind_eq_ok.mp h
  exact goodWG_treeLoop hdl hsl _ _ _ _ _ _
    (goodWG_processAgents hid hgh hdl (goodWG_geomStage hgh hdl hg hw1) hw2) h

/-- what `ref_interp_create` leaves satisfies it -/
theorem goodWG_create {dw : World (DonorR α)} {rw : World (RecvR α)} (seeds : List (Nat × Nat))
    (hl : seeds.length = rw.length) :
    GoodWG dw rw (seeds.map fun q => (RankSt.create q.1 q.2 : RankSt α)) := by
  refine ⟨by simp [hl], ?_⟩
  intro r st rc hst _
  rw [List.getElem?_map] at hst
  simp only [Option.map_eq_some_iff] at hst
  obtain ⟨q, _, rfl⟩ := hst
  have hs : ∀ i, (List.replicate q.1 0).getD i 0 = 0 := by
    intro i
    simp only [List.getD_eq_getElem?_getD, List.getElem?_replicate]
    split <;> rfl
  refine ⟨by simp [RankSt.create], by simp [RankSt.create], by simp [RankSt.create], ?_, ?_, ?_⟩
  · intro i hi
    simp only [RankSt.create] at hi
    exact absurd (hs i) hi
  · intro i hi
    simp only [RankSt.create] at hi
    exact absurd (hs i) hi
  · intro p hp
    simp [RankSt.create, Agents.create] at hp

end Refine.Lemmas.InterpLocate
