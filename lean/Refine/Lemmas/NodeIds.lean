import Refine.Model.NodeIds

/-!
  Invariants of the `NodeIds` state machine and the lemmas behind `Refine/Props/C14NodeCell.lean`.
-/
namespace Refine.Model.NodeIds
open NodeIds

@[simp] theorem next2index_index2next (i : Nat) : next2index (index2next i) = i := by
  simp [next2index, index2next]; omega

theorem index2next_neg (i : Nat) : index2next i < 0 := by simp [index2next]; omega
theorem index2next_ne_empty (i : Nat) : index2next i ≠ -1 := by simp [index2next]; omega
theorem index2next_inj {i j : Nat} (h : index2next i = index2next j) : i = j := by
  simp [index2next] at h; omega

/-! ### the free list threaded through `global[]` -/

/-- `IsChain g b l`: following the links of `g` from head `b` visits exactly the slots `l`, in order,
    and ends at `REF_EMPTY`.  A finite list: the chain is acyclic as soon as `l.Nodup`. -/
inductive IsChain (g : List Int) : Int → List Nat → Prop
  | nil : IsChain g (-1) []
  | cons {i : Nat} {l : List Nat} : i < g.length → g.getD i (-1) < 0 →
      IsChain g (g.getD i (-1)) l → IsChain g (index2next i) (i :: l)

theorem IsChain.head_neg {g b l} (h : IsChain g b l) : b < 0 := by
  cases h with
  | nil => decide
  | cons _ _ _ => exact index2next_neg _

theorem IsChain.nil_iff {g b l} (h : IsChain g b l) : b = -1 ↔ l = [] := by
  cases h with
  | nil => simp
  | cons _ _ _ => simp [index2next_ne_empty]

theorem IsChain.lt_length {g b l} (h : IsChain g b l) : ∀ i ∈ l, i < g.length := by
  induction h with
  | nil => simp
  | cons hi _ _ ih => intro j hj; rcases List.mem_cons.1 hj with rfl | hj; exact hi; exact ih j hj

theorem IsChain.neg_of_mem {g b l} (h : IsChain g b l) : ∀ i ∈ l, g.getD i (-1) < 0 := by
  induction h with
  | nil => simp
  | cons _ hn _ ih => intro j hj; rcases List.mem_cons.1 hj with rfl | hj; exact hn; exact ih j hj

theorem IsChain.cons_inv {g b l} (h : IsChain g b l) (hb : b ≠ -1) :
    ∃ i l', b = index2next i ∧ l = i :: l' ∧ i < g.length ∧ g.getD i (-1) < 0 ∧
      IsChain g (g.getD i (-1)) l' := by
  cases h with
  | nil => exact absurd rfl hb
  | @cons i l' hi hn hc => exact ⟨i, l', rfl, rfl, hi, hn, hc⟩

/-- writing a slot that is not on the chain does not change the chain -/
theorem IsChain.set_of_not_mem {g b l} (h : IsChain g b l) {v : Nat} {x : Int} (hv : v ∉ l) :
    IsChain (g.set v x) b l := by
  induction h with
  | nil => exact .nil
  | @cons i l hi hn _ ih =>
    have hvi : v ≠ i := fun e => hv (by simp [e])
    have hvl : v ∉ l := fun e => hv (by simp [e])
    have hget : (g.set v x).getD i (-1) = g.getD i (-1) := by
      simp [List.getD_eq_getElem?_getD, hvi]
    have := ih hvl
    rw [← hget] at this
    exact .cons (by simpa using hi) (by rw [hget]; exact hn) this

/-- appending does not change the chain -/
theorem IsChain.append {g b l} (h : IsChain g b l) (t : List Int) : IsChain (g ++ t) b l := by
  induction h with
  | nil => exact .nil
  | @cons i l hi hn _ ih =>
    have hget : (g ++ t).getD i (-1) = g.getD i (-1) := by
      simp [List.getD_eq_getElem?_getD, List.getElem?_append_left hi]
    rw [← hget] at ih
    exact .cons (by simp; omega) (by rw [hget]; exact hn) ih

theorem freeRun_length (orig m : Nat) : (freeRun orig m).length = m - orig := by simp [freeRun]

theorem freeRun_getD {orig m k : Nat} (h : k < m - orig) :
    (freeRun orig m).getD k (-1) = if orig + k + 1 = m then (-1 : Int) else index2next (orig + k + 1) := by
  simp [freeRun, List.getD_eq_getElem?_getD, List.getElem?_map, List.getElem?_range h]

theorem freeRun_neg {orig m k : Nat} (h : k < m - orig) : (freeRun orig m).getD k (-1) < 0 := by
  rw [freeRun_getD h]; split; decide; exact index2next_neg _

/-- the run written by create / growth is the chain `j, j+1, …, m-1` -/
theorem isChain_freeRun (g : List Int) (m : Nat) :
    ∀ (k j : Nat), j + k = m → g.length ≤ j → 0 < k →
      IsChain (g ++ freeRun g.length m) (index2next j) (List.range' j k) := by
  intro k
  induction k with
  | zero => intro j _ _ h; omega
  | succ k ih =>
    intro j hjk hgj _
    have hlen : j < (g ++ freeRun g.length m).length := by simp [freeRun_length]; omega
    have hget : (g ++ freeRun g.length m).getD j (-1) =
        if j + 1 = m then (-1 : Int) else index2next (j + 1) := by
      have : j - g.length < m - g.length := by omega
      rw [List.getD_eq_getElem?_getD, List.getElem?_append_right hgj, ← List.getD_eq_getElem?_getD,
        freeRun_getD this]
      have : g.length + (j - g.length) + 1 = j + 1 := by omega
      rw [this]
    have hneg : (g ++ freeRun g.length m).getD j (-1) < 0 := by
      rw [hget]; split; decide; exact index2next_neg _
    rw [List.range'_succ]
    refine .cons hlen hneg ?_
    rw [hget]
    by_cases hk : k = 0
    · subst hk
      have : j + 1 = m := by omega
      simp [this]; exact .nil
    · have : ¬ (j + 1 = m) := by omega
      simp only [this, if_false]
      exact ih (j + 1) (by omega) (by omega) (by omega)


/-! ### `FreeInv`: the part of `NodeInv` that every operation preserves -/

/-- free list acyclic and exactly the invalid slots; `n` counts the valid slots -/
structure FreeInv (s : NodeIds) : Prop where
  chain : ∃ l, IsChain s.global s.blank l ∧ l.Nodup ∧
    ∀ i, i < s.max → (i ∈ l ↔ s.global.getD i (-1) < 0)
  count : s.n = s.global.countP (fun x => decide (0 ≤ x))

theorem getD_set_ne {g : List Int} {v w : Nat} {x : Int} (h : w ≠ v) :
    (g.set v x).getD w (-1) = g.getD w (-1) := by
  simp [List.getD_eq_getElem?_getD, Ne.symm h]

theorem getD_set_self {g : List Int} {v : Nat} {x : Int} (h : v < g.length) :
    (g.set v x).getD v (-1) = x := by
  simp [List.getD_eq_getElem?_getD, h]

theorem getD_eq_getElem' {g : List Int} {v : Nat} (h : v < g.length) : g.getD v (-1) = g[v] := by
  simp [List.getD_eq_getElem?_getD, h]

theorem getD_neg_of_ge {g : List Int} {v : Nat} (h : g.length ≤ v) : g.getD v (-1) = -1 := by
  simp [List.getD_eq_getElem?_getD, List.getElem?_eq_none h]

theorem lt_length_of_getD_nonneg {g : List Int} {v : Nat} (h : 0 ≤ g.getD v (-1)) : v < g.length := by
  refine Nat.lt_of_not_le fun hc => ?_
  rw [getD_neg_of_ge hc] at h
  omega

theorem create_FreeInv : FreeInv create := by
  refine ⟨⟨List.range' 0 20, ?_, List.nodup_range', ?_⟩, by decide⟩
  · have := isChain_freeRun [] 20 20 0 (by omega) (by simp) (by omega)
    simpa [create] using this
  · intro i hi
    have hi : i < 20 := by simpa [create, NodeIds.max, freeRun_length] using hi
    simp only [create]
    have := @freeRun_neg 0 20 i (by omega)
    simp only [List.mem_range'_1, this, iff_true]
    omega

/-- popping the head of a non-empty free list and storing a global id there -/
theorem pop_FreeInv {t : NodeIds} (h : FreeInv t) (hb : t.blank ≠ -1) {g : Int} (hg : 0 ≤ g) (p : List Int) :
    let node := next2index t.blank
    FreeInv { t with blank := t.global.getD node (-1), global := t.global.set node g, part := p, n := t.n + 1 }
      ∧ node < t.max ∧ t.global.getD node (-1) < 0 := by
  obtain ⟨⟨l, hc, hnd, hmem⟩, hcount⟩ := h
  obtain ⟨i, l', hbi, rfl, hi, hn, hc'⟩ := hc.cons_inv hb
  · simp only [hbi, next2index_index2next]
    have hil : i ∉ l' := (List.nodup_cons.1 hnd).1
    refine ⟨⟨⟨l', hc'.set_of_not_mem hil, (List.nodup_cons.1 hnd).2, ?_⟩, ?_⟩, hi, hn⟩
    · intro j hj
      have hj' : j < t.max := by simpa [NodeIds.max] using hj
      by_cases hji : j = i
      · subst hji
        simp only [getD_set_self hi]
        constructor
        · intro h; exact absurd h hil
        · intro h; omega
      · rw [getD_set_ne hji, ← hmem j hj']
        simp [hji]
    · simp only
      rw [List.countP_set hi, hcount]
      have : ¬ (0 ≤ t.global[i]) := by
        have := hn; rw [getD_eq_getElem' hi] at this; omega
      simp [this, hg]


@[simp] theorem grow_n (s : NodeIds) : s.grow.n = s.n := by unfold grow; split <;> rfl
@[simp] theorem grow_sorted (s : NodeIds) : s.grow.sorted = s.sorted := by unfold grow; split <;> rfl
@[simp] theorem grow_unusedStk (s : NodeIds) : s.grow.unusedStk = s.unusedStk := by unfold grow; split <;> rfl
@[simp] theorem grow_maxUnused (s : NodeIds) : s.grow.maxUnused = s.maxUnused := by unfold grow; split <;> rfl
@[simp] theorem grow_newN (s : NodeIds) : s.grow.newN = s.newN := by unfold grow; split <;> rfl
@[simp] theorem grow_oldN (s : NodeIds) : s.grow.oldN = s.oldN := by unfold grow; split <;> rfl

theorem grow_max_le (s : NodeIds) : s.max ≤ s.grow.max := by
  unfold grow; split <;> simp [NodeIds.max]

theorem grow_getD_old (s : NodeIds) {v : Nat} (hv : v < s.max) :
    s.grow.global.getD v (-1) = s.global.getD v (-1) := by
  unfold grow; split
  · simp only [NodeIds.max] at hv
    simp [List.getD_eq_getElem?_getD, List.getElem?_append_left hv]
  · rfl

theorem grow_getD_new (s : NodeIds) {v : Nat} (hv : s.max ≤ v) : s.grow.global.getD v (-1) < 0 := by
  unfold grow; split
  · simp only [NodeIds.max] at hv ⊢
    by_cases hlt : v - s.global.length < (s.global.length + Nat.max 5000 (s.global.length + s.global.length / 2)) - s.global.length
    · rw [List.getD_eq_getElem?_getD, List.getElem?_append_right hv, ← List.getD_eq_getElem?_getD]
      exact freeRun_neg hlt
    · rw [getD_neg_of_ge (by simp [freeRun_length]; omega)]; decide
  · rw [getD_neg_of_ge hv]; decide

/-- the growth branch with an explicit chunk -/
def grown (s : NodeIds) (chunk : Nat) : NodeIds :=
  { s with global := s.global ++ freeRun s.max (s.max + chunk),
           part := s.part ++ List.replicate chunk 0,
           blank := index2next s.max }

theorem grow_eq (s : NodeIds) :
    s.grow = if s.blank = -1 then grown s (Nat.max 5000 (s.max + s.max / 2)) else s := rfl

theorem grown_FreeInv {s : NodeIds} (h : FreeInv s) (hb : s.blank = -1) {chunk : Nat} (hchunk : 0 < chunk) :
    FreeInv (grown s chunk) := by
  obtain ⟨⟨l, hc, hnd, hmem⟩, hcount⟩ := h
  have hl : l = [] := (hc.nil_iff).1 hb
  subst hl
  refine ⟨⟨List.range' s.max chunk, ?_, List.nodup_range', ?_⟩, ?_⟩
  · exact isChain_freeRun s.global (s.max + chunk) chunk s.max rfl (Nat.le_refl _) hchunk
  · intro i hi
    simp only [grown, NodeIds.max, List.length_append, freeRun_length] at hi
    simp only [List.mem_range'_1, grown]
    by_cases hlt : i < s.max
    · have h1 := (hmem i hlt)
      simp only [List.not_mem_nil, false_iff] at h1
      have : (s.global ++ freeRun s.max (s.max + chunk)).getD i (-1) = s.global.getD i (-1) := by
        simp only [NodeIds.max] at hlt
        simp [List.getD_eq_getElem?_getD, List.getElem?_append_left hlt]
      rw [this]
      constructor
      · intro h; omega
      · intro h; exact absurd h h1
    · have hge : s.global.length ≤ i := by simp only [NodeIds.max] at hlt; omega
      have : (s.global ++ freeRun s.max (s.max + chunk)).getD i (-1) < 0 := by
        rw [List.getD_eq_getElem?_getD, List.getElem?_append_right hge, ← List.getD_eq_getElem?_getD]
        exact freeRun_neg (by simp only [NodeIds.max]; omega)
      simp only [this, iff_true]
      simp only [NodeIds.max] at hlt ⊢
      omega
  · simp only [grown, List.countP_append]
    rw [hcount]
    have : (freeRun s.max (s.max + chunk)).countP (fun x => decide (0 ≤ x)) = 0 := by
      rw [List.countP_eq_zero]
      intro a ha
      obtain ⟨k, hk, rfl⟩ := List.mem_iff_getElem.1 ha
      have := @freeRun_neg s.max (s.max + chunk) k (by simpa [freeRun_length] using hk)
      rw [List.getD_eq_getElem?_getD, List.getElem?_eq_getElem hk] at this
      simp only [Option.getD_some] at this
      simp only [decide_eq_true_eq]
      omega
    omega

theorem grow_FreeInv {s : NodeIds} (h : FreeInv s) : FreeInv s.grow ∧ s.grow.blank ≠ -1 := by
  rw [grow_eq]
  split
  · rename_i hb
    have hchunk : 0 < Nat.max 5000 (s.max + s.max / 2) := by
      have : 5000 ≤ Nat.max 5000 (s.max + s.max / 2) := Nat.le_max_left _ _
      omega
    exact ⟨grown_FreeInv h hb hchunk, index2next_ne_empty _⟩
  · rename_i hb
    exact ⟨h, hb⟩

/-- pushing a valid slot on the free list (`global[v] = blank; blank = index2next(v); n--`) -/
theorem freeSlot_FreeInv {t : NodeIds} (h : FreeInv t) {v : Nat} (hv : 0 ≤ t.global.getD v (-1)) :
    FreeInv (t.freeSlot v) := by
  obtain ⟨⟨l, hc, hnd, hmem⟩, hcount⟩ := h
  have hvlen : v < t.global.length := lt_length_of_getD_nonneg hv
  have hvl : v ∉ l := fun hm => by
    have := (hmem v hvlen).1 hm
    omega
  refine ⟨⟨v :: l, ?_, List.nodup_cons.2 ⟨hvl, hnd⟩, ?_⟩, ?_⟩
  · have h1 : IsChain (t.global.set v t.blank) t.blank l := hc.set_of_not_mem hvl
    have hget : (t.global.set v t.blank).getD v (-1) = t.blank := getD_set_self hvlen
    simp only [freeSlot]
    refine .cons (by simpa using hvlen) (by rw [hget]; exact hc.head_neg) ?_
    rw [hget]; exact h1
  · intro j hj
    simp only [freeSlot, NodeIds.max, List.length_set] at hj ⊢
    by_cases hjv : j = v
    · subst hjv
      rw [getD_set_self hvlen]
      simp [hc.head_neg]
    · rw [getD_set_ne hjv, List.mem_cons, ← hmem j hj]
      simp [hjv]
  · simp only [freeSlot]
    rw [List.countP_set hvlen, hcount]
    have h1 : 0 ≤ t.global[v] := by rw [← getD_eq_getElem' hvlen]; exact hv
    have h2 : ¬ (0 ≤ t.blank) := by have := hc.head_neg; omega
    have h3 : 0 < t.global.countP (fun x => decide (0 ≤ x)) :=
      List.countP_pos_iff.2 ⟨t.global[v], List.getElem_mem hvlen, by simpa using h1⟩
    simp [h1, h2]


/-! ### `ref_sort_search_glob` on a strictly increasing list -/

theorem getD0_eq {xs : List Int} {i : Nat} (h : i < xs.length) : xs.getD i 0 = xs[i] := by
  simp [List.getD_eq_getElem?_getD, h]

theorem strictMono_of_pairwise {xs : List Int} (h : xs.Pairwise (· < ·)) {i j : Nat} (hij : i < j)
    (hj : j < xs.length) : xs.getD i 0 < xs.getD j 0 := by
  rw [getD0_eq hj, getD0_eq (by omega)]
  exact (List.pairwise_iff_getElem.1 h) i j (by omega) hj hij

theorem searchLoop_some {xs : List Int} {t : Int} :
    ∀ (fuel lower upper mid i : Nat), upper < xs.length →
      searchLoop xs t fuel lower upper mid = some i → i < xs.length ∧ xs.getD i 0 = t := by
  intro fuel
  induction fuel with
  | zero => intro _ _ _ _ _ h; simp [searchLoop] at h
  | succ fuel ih =>
    intro lower upper mid i hu h
    unfold searchLoop at h
    split at h
    · rename_i hm
      split at h
      · split at h
        · rename_i heq
          simp only [Option.some.injEq] at h
          subst h
          exact ⟨by omega, heq.symm⟩
        · exact ih _ _ _ _ hu h
      · exact ih _ _ _ _ (by omega) h
    · simp at h

theorem searchGlob_some {xs : List Int} {t : Int} {i : Nat} (h : searchGlob xs t = some i) :
    i < xs.length ∧ xs.getD i 0 = t := by
  unfold searchGlob at h
  simp only at h
  split at h
  · simp at h
  · rename_i hn
    split at h
    · simp at h
    · split at h
      · rename_i heq
        simp only [Option.some.injEq] at h
        subst h
        exact ⟨by omega, heq.symm⟩
      · split at h
        · rename_i heq
          simp only [Option.some.injEq] at h
          subst h
          exact ⟨by omega, heq.symm⟩
        · exact searchLoop_some _ _ _ _ _ (by omega) h

/-- the loop cannot miss a key that lies strictly between `lower` and `upper` -/
theorem searchLoop_ne_none {xs : List Int} {t : Int} (hs : xs.Pairwise (· < ·)) {k : Nat}
    (hk : k < xs.length) (hkt : xs.getD k 0 = t) :
    ∀ (fuel lower upper mid : Nat), lower < k → k < upper → upper < xs.length → upper - lower ≤ fuel →
      (2 ≤ upper - lower → lower < mid ∧ mid < upper) →
      searchLoop xs t fuel lower upper mid ≠ none := by
  intro fuel
  induction fuel with
  | zero => intro lower upper mid h1 h2 _ hf _; omega
  | succ fuel ih =>
    intro lower upper mid h1 h2 hu hf hm
    have hm' := hm (by omega)
    unfold searchLoop
    rw [if_pos hm']
    split
    · rename_i hge
      split
      · simp
      · rename_i hne
        -- t > xs[mid] hence k > mid
        have hkm : mid < k := by
          refine Nat.lt_of_not_le fun hle => ?_
          rcases Nat.lt_or_eq_of_le hle with hlt | heq
          · have := strictMono_of_pairwise hs hlt (by omega)
            rw [hkt] at this; omega
          · subst heq; exact hne hkt.symm
        exact ih mid upper ((mid + upper) / 2) hkm h2 hu (by omega) (by omega)
    · rename_i hlt
      have hkm : k < mid := by
        refine Nat.lt_of_not_le fun hle => ?_
        rcases Nat.lt_or_eq_of_le hle with hlt' | heq
        · have := strictMono_of_pairwise hs hlt' (by omega)
          rw [hkt] at this; omega
        · subst heq; rw [hkt] at hlt; omega
      exact ih lower mid ((lower + mid) / 2) h1 hkm (by omega) (by omega) (by omega)

theorem searchGlob_none {xs : List Int} {t : Int} (hs : xs.Pairwise (· < ·))
    (h : searchGlob xs t = none) : t ∉ xs := by
  intro hmem
  obtain ⟨k, hk, hkt⟩ := List.mem_iff_getElem.1 hmem
  have hkt' : xs.getD k 0 = t := by rw [getD0_eq hk]; exact hkt
  have hmono : ∀ i j, i < j → j < xs.length → xs.getD i 0 < xs.getD j 0 :=
    fun i j hij hj => strictMono_of_pairwise hs hij hj
  unfold searchGlob at h
  simp only at h
  split at h
  · omega
  · split at h
    · rename_i hout
      rcases hout with hlt | hgt
      · rcases Nat.eq_zero_or_pos k with h0 | hpos
        · subst h0; omega
        · have := hmono 0 k hpos hk; omega
      · rcases Nat.lt_or_eq_of_le (Nat.le_sub_one_of_lt hk) with hlt | heq
        · have := hmono k (xs.length - 1) hlt (by omega); omega
        · rw [← heq] at hgt; omega
    · split at h
      · simp at h
      · rename_i hne0
        split at h
        · simp at h
        · rename_i hnel
          have hk0 : 0 < k := by
            rcases Nat.eq_zero_or_pos k with h0 | hpos
            · subst h0; exact absurd hkt'.symm hne0
            · exact hpos
          have hkl : k < xs.length - 1 := by
            rcases Nat.lt_or_eq_of_le (Nat.le_sub_one_of_lt hk) with hlt | heq
            · exact hlt
            · rw [← heq] at hnel; exact absurd hkt'.symm hnel
          exact searchLoop_ne_none hs hk hkt' xs.length 0 (xs.length - 1) (xs.length / 2) hk0 hkl
            (by omega) (by omega) (by omega) h

theorem searchGlob_isSome_of_mem {xs : List Int} {t : Int} (hs : xs.Pairwise (· < ·)) (h : t ∈ xs) :
    ∃ i, searchGlob xs t = some i := by
  cases hh : searchGlob xs t with
  | none => exact absurd h (searchGlob_none hs hh)
  | some i => exact ⟨i, rfl⟩


/-! ### the insertion point of `ref_node_add` -/

theorem insertPointGo_le (ks : List Int) (g : Int) : ∀ m, insertPointGo ks g m ≤ m := by
  intro m
  induction m with
  | zero => simp [insertPointGo]
  | succ m ih => unfold insertPointGo; split <;> omega

theorem insertPointGo_ge (ks : List Int) (g : Int) :
    ∀ m j, insertPointGo ks g m ≤ j → j < m → ¬ ks.getD j 0 < g := by
  intro m
  induction m with
  | zero => intro j _ h; omega
  | succ m ih =>
    intro j h1 h2
    unfold insertPointGo at h1
    split at h1
    · omega
    · rename_i hn
      rcases Nat.lt_or_eq_of_le (Nat.le_of_lt_succ h2) with hlt | heq
      · exact ih j h1 hlt
      · subst heq; exact hn

theorem insertPointGo_pos (ks : List Int) (g : Int) :
    ∀ m, 0 < insertPointGo ks g m → ks.getD (insertPointGo ks g m - 1) 0 < g := by
  intro m
  induction m with
  | zero => simp [insertPointGo]
  | succ m ih =>
    intro h
    unfold insertPointGo at h ⊢
    split
    · rename_i hlt; simpa using hlt
    · rename_i hn
      rw [if_neg hn] at h
      exact ih h

theorem insertPoint_le (ks : List Int) (g : Int) : insertPoint ks g ≤ ks.length := insertPointGo_le _ _ _

/-- inserting at the point found by the backward scan keeps a strictly increasing list strictly increasing -/
theorem insert_pairwise {ks : List Int} {g : Int} (hs : ks.Pairwise (· < ·)) (hg : g ∉ ks) :
    (ks.take (insertPoint ks g) ++ g :: ks.drop (insertPoint ks g)).Pairwise (· < ·) := by
  have hle := insertPoint_le ks g
  generalize hip : insertPoint ks g = ip at hle
  have hlow : ∀ a ∈ ks.take ip, a < g := by
    intro a ha
    obtain ⟨j, hj, rfl⟩ := List.mem_take_iff_getElem.1 ha
    have hjip : j < ip := by omega
    have hpos : 0 < insertPointGo ks g ks.length := by unfold insertPoint at hip; omega
    have h1 := insertPointGo_pos ks g ks.length hpos
    unfold insertPoint at hip; rw [hip] at h1
    rcases Nat.lt_or_eq_of_le (Nat.le_sub_one_of_lt hjip) with hlt | heq
    · have := strictMono_of_pairwise hs hlt (by omega)
      rw [getD0_eq (by omega)] at this; omega
    · rw [← heq, getD0_eq (by omega)] at h1; exact h1
  have hhigh : ∀ b ∈ ks.drop ip, g < b := by
    intro b hb
    obtain ⟨j, hj, rfl⟩ := List.mem_drop_iff_getElem.1 hb
    have hj' : ip + j < ks.length := by omega
    have h1 := insertPointGo_ge ks g ks.length (ip + j) (by unfold insertPoint at hip; omega) hj'
    rw [getD0_eq hj'] at h1
    have h2 : ks[ip + j] ≠ g := fun e => hg (e ▸ List.getElem_mem hj')
    omega
  rw [List.pairwise_append]
  refine ⟨hs.sublist (List.take_sublist _ _), ?_, ?_⟩
  · rw [List.pairwise_cons]
    exact ⟨hhigh, hs.sublist (List.drop_sublist _ _)⟩
  · intro a ha b hb
    rcases List.mem_cons.1 hb with rfl | hb
    · exact hlow a ha
    · have := hlow a ha; have := hhigh b hb; omega


/-! ### `SortedInv`, `NodeInv` -/

/-- `sorted_global` strictly increasing, `global[sorted_local[i]] = sorted_global[i]`, every valid slot is
    listed, length `n` -/
structure SortedInv (s : NodeIds) : Prop where
  sorted : s.keys.Pairwise (· < ·)
  sound : ∀ p ∈ s.sorted, s.global.getD p.2 (-1) = p.1 ∧ 0 ≤ p.1
  complete : ∀ v, 0 ≤ s.global.getD v (-1) → (s.global.getD v (-1), v) ∈ s.sorted
  len : s.sorted.length = s.n

structure NodeInv (s : NodeIds) : Prop where
  free : FreeInv s
  srt : SortedInv s

theorem FreeInv.congr {a b : NodeIds} (h : FreeInv a) (hg : b.global = a.global) (hb : b.blank = a.blank)
    (hn : b.n = a.n) : FreeInv b := by
  obtain ⟨hc, hcount⟩ := h
  refine ⟨?_, ?_⟩
  · simpa [NodeIds.max, hg, hb] using hc
  · rw [hg, hn]; exact hcount

theorem create_NodeInv : NodeInv create :=
  ⟨create_FreeInv, ⟨by simp [create, keys], by simp [create], by
    intro v hv
    exfalso
    by_cases hlt : v < 20
    · have := @freeRun_neg 0 20 v (by omega)
      simp only [create] at hv; omega
    · simp only [create] at hv
      rw [getD_neg_of_ge (by simp [freeRun_length]; omega)] at hv; omega, rfl⟩⟩

theorem add_hit {s : NodeIds} {g : Int} {loc : Nat} (hg : 0 ≤ g) (hm : searchGlob s.keys g = some loc) :
    s.add g = (.ok, (s.sorted.getD loc (0, 0)).2, s) := by
  simp [add, hm, Int.not_lt.2 hg]

theorem add_miss {s : NodeIds} {g : Int} (hg : 0 ≤ g) (hm : searchGlob s.keys g = none) :
    s.add g = (.ok, next2index s.grow.blank,
      { s.grow with
        blank := s.grow.global.getD (next2index s.grow.blank) (-1),
        global := s.grow.global.set (next2index s.grow.blank) g,
        part := s.grow.part.set (next2index s.grow.blank) 0,
        n := s.n + 1,
        sorted := s.sorted.take (insertPoint s.keys g) ++
          (g, next2index s.grow.blank) :: s.sorted.drop (insertPoint s.keys g) }) := by
  simp [add, addCore, hm, Int.not_lt.2 hg]


theorem mem_take_cons_drop {α} {l : List α} {i : Nat} {x p : α} :
    p ∈ l.take i ++ x :: l.drop i ↔ p = x ∨ p ∈ l := by
  constructor
  · intro h
    rcases List.mem_append.1 h with h | h
    · exact Or.inr (List.mem_of_mem_take h)
    · rcases List.mem_cons.1 h with h | h
      · exact Or.inl h
      · exact Or.inr (List.mem_of_mem_drop h)
  · intro h
    rcases h with rfl | h
    · exact List.mem_append.2 (Or.inr (List.mem_cons_self))
    · rw [← List.take_append_drop i l] at h
      rcases List.mem_append.1 h with h | h
      · exact List.mem_append.2 (Or.inl h)
      · exact List.mem_append.2 (Or.inr (List.mem_cons_of_mem _ h))

/-- the state reached by `add` of a global that is not live: facts about the fresh slot -/
theorem add_miss_NodeInv {s : NodeIds} (h : NodeInv s) {g : Int} (hg : 0 ≤ g)
    (hm : searchGlob s.keys g = none) :
    NodeInv (s.add g).2.2 ∧ (s.add g).2.1 < (s.add g).2.2.max ∧
      s.grow.global.getD (s.add g).2.1 (-1) < 0 := by
  rw [add_miss hg hm]
  obtain ⟨hfree, hsrt⟩ := h
  obtain ⟨hft, hbt⟩ := grow_FreeInv hfree
  obtain ⟨hpop, hnode, hneg⟩ := pop_FreeInv hft hbt hg (s.grow.part.set (next2index s.grow.blank) 0)
  generalize hnd : next2index s.grow.blank = node at *
  have hnotin : g ∉ s.keys := searchGlob_none hsrt.sorted hm
  have hnlen : node < s.grow.global.length := hnode
  refine ⟨⟨hpop.congr rfl rfl (by simp), ?_⟩, by simpa [NodeIds.max] using hnode, hneg⟩
  have hold : ∀ p ∈ s.sorted, p.2 ≠ node ∧ s.grow.global.getD p.2 (-1) = p.1 := by
    intro p hp
    obtain ⟨h1, h2⟩ := hsrt.sound p hp
    have hlt : p.2 < s.max := lt_length_of_getD_nonneg (by rw [h1]; exact h2)
    have h3 := grow_getD_old s hlt
    refine ⟨fun e => ?_, by rw [h3, h1]⟩
    rw [e] at h3 h1; omega
  refine ⟨?_, ?_, ?_, ?_⟩
  · have : (NodeIds.keys { s.grow with
        blank := s.grow.global.getD node (-1), global := s.grow.global.set node g,
        part := s.grow.part.set node 0, n := s.n + 1,
        sorted := s.sorted.take (insertPoint s.keys g) ++ (g, node) :: s.sorted.drop (insertPoint s.keys g) })
        = s.keys.take (insertPoint s.keys g) ++ g :: s.keys.drop (insertPoint s.keys g) := by
      simp [keys, List.map_take, List.map_drop]
    rw [this]
    exact insert_pairwise hsrt.sorted hnotin
  · intro p hp
    simp only at hp ⊢
    rcases mem_take_cons_drop.1 hp with rfl | hp
    · exact ⟨getD_set_self hnlen, hg⟩
    · obtain ⟨h1, h2⟩ := hold p hp
      rw [getD_set_ne h1, h2]
      exact ⟨rfl, (hsrt.sound p hp).2⟩
  · intro v hv
    simp only at hv ⊢
    by_cases hvn : v = node
    · subst hvn
      rw [getD_set_self hnlen]
      exact mem_take_cons_drop.2 (Or.inl rfl)
    · rw [getD_set_ne hvn] at hv ⊢
      have hlt : v < s.max := by
        refine Nat.lt_of_not_le fun hle => ?_
        have := grow_getD_new s hle; omega
      rw [grow_getD_old s hlt] at hv ⊢
      exact mem_take_cons_drop.2 (Or.inr (hsrt.complete v hv))
  · simp only [List.length_append, List.length_take, List.length_cons, List.length_drop]
    have := insertPoint_le s.keys g
    have hl : s.keys.length = s.sorted.length := by simp [keys]
    have := hsrt.len
    omega

theorem add_NodeInv {s : NodeIds} (h : NodeInv s) {g : Int} (hg : 0 ≤ g) :
    (s.add g).1 = .ok ∧ NodeInv (s.add g).2.2 := by
  cases hm : searchGlob s.keys g with
  | some loc => rw [add_hit hg hm]; exact ⟨rfl, h⟩
  | none => exact ⟨by rw [add_miss hg hm], (add_miss_NodeInv h hg hm).1⟩

theorem add_neg {s : NodeIds} {g : Int} (hg : g < 0) : s.add g = (.invalid, 0, s) := by
  simp [add, hg]


/-! ### remove -/

theorem keys_inj {ks : List Int} (hs : ks.Pairwise (· < ·)) {i j : Nat} (hi : i < ks.length)
    (hj : j < ks.length) (h : ks.getD i 0 = ks.getD j 0) : i = j := by
  rcases Nat.lt_trichotomy i j with hlt | heq | hgt
  · have := strictMono_of_pairwise hs hlt hj; omega
  · exact heq
  · have := strictMono_of_pairwise hs hgt hi; omega

theorem keys_getD (s : NodeIds) {i : Nat} (hi : i < s.sorted.length) :
    s.keys.getD i 0 = (s.sorted[i]).1 := by
  simp [keys, List.getD_eq_getElem?_getD, hi]

theorem validSlot_iff {s : NodeIds} {node : Int} :
    s.validSlot node = true ↔ 0 ≤ node ∧ 0 ≤ s.global.getD node.toNat (-1) := by
  simp only [validSlot, Bool.and_eq_true, decide_eq_true_eq]
  constructor
  · rintro ⟨⟨h1, _⟩, h3⟩; exact ⟨by omega, h3⟩
  · rintro ⟨h1, h3⟩
    have := lt_length_of_getD_nonneg h3
    simp only [NodeIds.max]
    refine ⟨⟨by omega, by omega⟩, h3⟩

/-- under `NodeInv` the binary search for the global of a valid slot hits the entry of that slot -/
theorem search_valid {s : NodeIds} (h : NodeInv s) {v : Nat} (hv : 0 ≤ s.global.getD v (-1)) :
    ∃ loc, searchGlob s.keys (s.global.getD v (-1)) = some loc ∧ ∃ hl : loc < s.sorted.length,
      s.sorted[loc] = (s.global.getD v (-1), v) := by
  have hmem := h.srt.complete v hv
  have hk : s.global.getD v (-1) ∈ s.keys := List.mem_map.2 ⟨_, hmem, rfl⟩
  obtain ⟨loc, hloc⟩ := searchGlob_isSome_of_mem h.srt.sorted hk
  obtain ⟨hl, hkey⟩ := searchGlob_some hloc
  have hl' : loc < s.sorted.length := by simpa [keys] using hl
  refine ⟨loc, hloc, hl', ?_⟩
  obtain ⟨k, hk, hkeq⟩ := List.mem_iff_getElem.1 hmem
  have : k = loc := by
    apply keys_inj h.srt.sorted (by simpa [keys] using hk) hl
    rw [keys_getD s hk, hkeq, hkey]
  subst this
  exact hkeq

theorem erase_SortedInv {s : NodeIds} (h : NodeInv s) {v loc : Nat} (hv : 0 ≤ s.global.getD v (-1))
    (hl : loc < s.sorted.length) (hloc : s.sorted[loc] = (s.global.getD v (-1), v))
    {t : NodeIds} (hg : t.global = s.global.set v s.blank) (hs : t.sorted = s.sorted.eraseIdx loc)
    (hn : t.n = s.n - 1) : SortedInv t := by
  obtain ⟨hfree, hsrt⟩ := h
  have hvlen : v < s.global.length := lt_length_of_getD_nonneg hv
  have hbneg : s.blank < 0 := by
    obtain ⟨⟨l, hc, _, _⟩, _⟩ := hfree
    exact hc.head_neg
  refine ⟨?_, ?_, ?_, ?_⟩
  · simp only [keys, hs]
    exact hsrt.sorted.sublist ((List.eraseIdx_sublist _ _).map _)
  · intro p hp
    rw [hs] at hp
    obtain ⟨i, hi, hne, rfl⟩ := List.mem_eraseIdx_iff_getElem.1 hp
    obtain ⟨h1, h2⟩ := hsrt.sound _ (List.getElem_mem hi)
    have hpv : (s.sorted[i]).2 ≠ v := by
      intro e
      apply hne
      apply keys_inj hsrt.sorted (by simpa [keys] using hi) (by simpa [keys] using hl)
      rw [keys_getD s hi, keys_getD s hl, hloc, ← h1, e]
    rw [hg, getD_set_ne hpv]
    exact ⟨h1, h2⟩
  · intro w hw
    rw [hg] at hw ⊢
    have hwv : w ≠ v := by
      intro e; subst e
      rw [getD_set_self hvlen] at hw; omega
    rw [getD_set_ne hwv] at hw ⊢
    obtain ⟨k, hk, hkeq⟩ := List.mem_iff_getElem.1 (hsrt.complete w hw)
    rw [hs]
    refine List.mem_eraseIdx_iff_getElem.2 ⟨k, hk, ?_, hkeq⟩
    intro e; subst e
    rw [hloc] at hkeq
    exact hwv (by simpa using (congrArg Prod.snd hkeq).symm)
  · rw [hs, hn, List.length_eraseIdx_of_lt hl, hsrt.len]

theorem remove_eq {s : NodeIds} {node : Int} {loc : Nat} (hv : s.validSlot node = true)
    (hloc : searchGlob s.keys (s.global.getD node.toNat (-1)) = some loc) :
    s.remove node = (.ok, (({ s with sorted := s.sorted.eraseIdx loc }).pushUnused
      (s.global.getD node.toNat (-1))).freeSlot node.toNat) := by
  simp only [remove, hv, Bool.not_true, Bool.false_eq_true, if_false, hloc]

theorem removeWithoutGlobal_eq {s : NodeIds} {node : Int} {loc : Nat} (hv : s.validSlot node = true)
    (hloc : searchGlob s.keys (s.global.getD node.toNat (-1)) = some loc) :
    s.removeWithoutGlobal node = (.ok, ({ s with sorted := s.sorted.eraseIdx loc }).freeSlot node.toNat) := by
  simp only [removeWithoutGlobal, hv, Bool.not_true, Bool.false_eq_true, if_false, hloc]

theorem remove_invalid {s : NodeIds} {node : Int} (hv : s.validSlot node = false) :
    s.remove node = (.invalid, s) := by simp [remove, hv]

theorem remove_NodeInv {s : NodeIds} (h : NodeInv s) {node : Int} (hv : s.validSlot node = true) :
    (s.remove node).1 = .ok ∧ NodeInv (s.remove node).2 := by
  obtain ⟨_, hv2⟩ := validSlot_iff.1 hv
  obtain ⟨loc, hloc, hl, hat⟩ := search_valid h hv2
  rw [remove_eq hv hloc]
  refine ⟨rfl, ⟨?_, ?_⟩⟩
  · exact (freeSlot_FreeInv h.free hv2).congr rfl rfl rfl
  · exact erase_SortedInv h hv2 hl hat rfl rfl rfl

theorem removeWithoutGlobal_NodeInv {s : NodeIds} (h : NodeInv s) {node : Int} (hv : s.validSlot node = true) :
    (s.removeWithoutGlobal node).1 = .ok ∧ NodeInv (s.removeWithoutGlobal node).2 := by
  obtain ⟨_, hv2⟩ := validSlot_iff.1 hv
  obtain ⟨loc, hloc, hl, hat⟩ := search_valid h hv2
  rw [removeWithoutGlobal_eq hv hloc]
  refine ⟨rfl, ⟨?_, ?_⟩⟩
  · exact (freeSlot_FreeInv h.free hv2).congr rfl rfl rfl
  · exact erase_SortedInv h hv2 hl hat rfl rfl rfl


/-! ### the abstract state: a finite map `global id ↦ slot` and a pool of reusable ids -/

/-- the slot holding global `g` (first match in `global[]`; unique under `NodeInv`) -/
def NodeIds.liveSlot (s : NodeIds) (g : Int) : Option Nat := if g < 0 then none else s.global.idxOf? g

/-- where fresh ids start: `new_n_global`, or `n` while it is still uninitialised (`REF_EMPTY`),
    exactly what `ref_node_next_global` would use -/
def NodeIds.effNew (s : NodeIds) : Int := if s.newN = -1 then (s.n : Int) else s.newN

structure Abs where
  live : Int → Option Nat
  pool : Int → Prop

/-- `abs s = (live : global ↦ slot, pool = unused ∪ [new_n_global, ∞))` -/
def NodeIds.abs (s : NodeIds) : Abs := ⟨s.liveSlot, fun g => g ∈ s.unusedStk ∨ s.effNew ≤ g⟩

theorem Abs.ext' {a b : Abs} (h1 : ∀ g, a.live g = b.live g) (h2 : ∀ g, a.pool g ↔ b.pool g) : a = b := by
  cases a; cases b
  simp only [Abs.mk.injEq]
  exact ⟨funext h1, funext fun g => propext (h2 g)⟩

theorem live_unique {s : NodeIds} (h : NodeInv s) {v w : Nat} (hv : 0 ≤ s.global.getD v (-1))
    (he : s.global.getD v (-1) = s.global.getD w (-1)) : v = w := by
  obtain ⟨loc, hloc, hl, hat⟩ := search_valid h hv
  obtain ⟨loc', hloc', hl', hat'⟩ := search_valid h (v := w) (by rw [← he]; exact hv)
  rw [← he, hloc] at hloc'
  simp only [Option.some.injEq] at hloc'
  subst hloc'
  rw [hat] at hat'
  exact (congrArg Prod.snd hat')

theorem liveSlot_eq_some_iff {s : NodeIds} (h : NodeInv s) {g : Int} {v : Nat} :
    s.liveSlot g = some v ↔ 0 ≤ g ∧ s.global.getD v (-1) = g := by
  unfold NodeIds.liveSlot
  split
  · rename_i hneg
    constructor
    · intro h; exact absurd h (by simp)
    · rintro ⟨h1, _⟩; omega
  · rename_i hnn
    rw [List.idxOf?_eq_some_iff]
    constructor
    · rintro ⟨hl, heq, _⟩
      exact ⟨by omega, by rw [getD_eq_getElem' hl]; exact heq⟩
    · rintro ⟨h0, heq⟩
      have hl : v < s.global.length := lt_length_of_getD_nonneg (by rw [heq]; exact h0)
      refine ⟨hl, by rw [← getD_eq_getElem' hl]; exact heq, ?_⟩
      intro j hj hjeq
      have hjl : j < s.global.length := by omega
      have : j = v := live_unique h (by rw [getD_eq_getElem' hjl, hjeq]; exact h0)
        (by rw [getD_eq_getElem' hjl, hjeq, heq])
      omega

theorem liveSlot_eq_none_iff {s : NodeIds} (h : NodeInv s) {g : Int} :
    s.liveSlot g = none ↔ ∀ v, ¬ (0 ≤ g ∧ s.global.getD v (-1) = g) := by
  constructor
  · intro hn v hv
    rw [← liveSlot_eq_some_iff h] at hv
    rw [hn] at hv; exact absurd hv (by simp)
  · intro hall
    cases hl : s.liveSlot g with
    | none => rfl
    | some v => exact absurd ((liveSlot_eq_some_iff h).1 hl) (hall v)

theorem mem_keys_iff {s : NodeIds} (h : NodeInv s) {g : Int} :
    g ∈ s.keys ↔ ∃ v, 0 ≤ g ∧ s.global.getD v (-1) = g := by
  constructor
  · intro hm
    obtain ⟨p, hp, rfl⟩ := List.mem_map.1 hm
    obtain ⟨h1, h2⟩ := h.srt.sound p hp
    exact ⟨p.2, h2, h1⟩
  · rintro ⟨v, h0, heq⟩
    have := h.srt.complete v (by rw [heq]; exact h0)
    rw [heq] at this
    exact List.mem_map.2 ⟨_, this, rfl⟩

theorem search_none_iff {s : NodeIds} (h : NodeInv s) {g : Int} :
    searchGlob s.keys g = none ↔ s.liveSlot g = none := by
  rw [liveSlot_eq_none_iff h]
  constructor
  · intro hn v hv
    exact searchGlob_none h.srt.sorted hn ((mem_keys_iff h).2 ⟨v, hv⟩)
  · intro hall
    cases hs : searchGlob s.keys g with
    | none => rfl
    | some loc =>
      obtain ⟨hl, hk⟩ := searchGlob_some hs
      have : g ∈ s.keys := by rw [← hk, getD0_eq hl]; exact List.getElem_mem hl
      obtain ⟨v, hv⟩ := (mem_keys_iff h).1 this
      exact absurd hv (hall v)

/-- `ref_node_local` returns the slot holding `g` iff `g` is live -/
theorem localOf_eq {s : NodeIds} (h : NodeInv s) (g : Int) :
    s.localOf g = match s.liveSlot g with
      | some v => (.ok, (v : Int))
      | none => (.not_found, -1) := by
  unfold localOf
  cases hs : searchGlob s.keys g with
  | none => rw [(search_none_iff h).1 hs]
  | some loc =>
    obtain ⟨hl, hk⟩ := searchGlob_some hs
    have hl' : loc < s.sorted.length := by simpa [keys] using hl
    have hgd : s.sorted.getD loc (0, 0) = s.sorted[loc] := by simp [List.getD_eq_getElem?_getD, hl']
    obtain ⟨h1, h2⟩ := h.srt.sound _ (List.getElem_mem hl')
    rw [keys_getD s hl'] at hk
    have : s.liveSlot g = some (s.sorted[loc]).2 :=
      (liveSlot_eq_some_iff h).2 ⟨by rw [← hk]; exact h2, by rw [h1, hk]⟩
    rw [this]
    simp only [hgd]


/-! ### add / remove refine map insert / erase -/

theorem grow_getD_eq_iff (s : NodeIds) {v : Nat} {x : Int} (hx : 0 ≤ x) :
    s.grow.global.getD v (-1) = x ↔ s.global.getD v (-1) = x := by
  by_cases hlt : v < s.max
  · rw [grow_getD_old s hlt]
  · have h1 := grow_getD_new s (Nat.le_of_not_lt hlt)
    have h2 := getD_neg_of_ge (g := s.global) (v := v) (Nat.le_of_not_lt hlt)
    constructor <;> intro h <;> omega

theorem add_hit_live {s : NodeIds} (h : NodeInv s) {g : Int} {loc : Nat}
    (hm : searchGlob s.keys g = some loc) : s.liveSlot g = some (s.sorted.getD loc (0, 0)).2 := by
  have := localOf_eq h g
  unfold localOf at this
  rw [hm] at this
  cases hl : s.liveSlot g with
  | none => rw [hl] at this; simp at this
  | some v =>
    rw [hl] at this
    simp only [Prod.mk.injEq, true_and] at this
    congr 1; omega

theorem add_live {s : NodeIds} (h : NodeInv s) {g : Int} (hg : 0 ≤ g) (x : Int) :
    (s.add g).2.2.liveSlot x = if x = g then some (s.add g).2.1 else s.liveSlot x := by
  cases hm : searchGlob s.keys g with
  | some loc =>
    rw [add_hit hg hm]
    split
    · rename_i hx; subst hx; exact add_hit_live h hm
    · rfl
  | none =>
    have hinv := (add_miss_NodeInv h hg hm)
    have hnotlive := (liveSlot_eq_none_iff h).1 ((search_none_iff h).1 hm)
    rw [add_miss hg hm] at hinv ⊢
    obtain ⟨hinv, hnode, hneg⟩ := hinv
    simp only at hnode hneg ⊢
    generalize next2index s.grow.blank = node at *
    have hnlen : node < s.grow.global.length := by simpa [NodeIds.max] using hnode
    apply Option.ext
    intro v
    rw [liveSlot_eq_some_iff hinv]
    simp only
    by_cases hvn : v = node
    · subst hvn
      rw [getD_set_self hnlen]
      split
      · rename_i hx; subst hx; simp [hg]
      · rename_i hx
        have : ¬ s.liveSlot x = some v := by
          intro hl
          obtain ⟨h0, heq⟩ := (liveSlot_eq_some_iff h).1 hl
          have := (grow_getD_eq_iff s h0).2 heq
          omega
        constructor
        · rintro ⟨_, he⟩; exact absurd he.symm hx
        · intro hl; exact absurd hl this
    · rw [getD_set_ne hvn]
      split
      · rename_i hx; subst hx
        constructor
        · rintro ⟨h0, he⟩
          exact absurd ⟨h0, (grow_getD_eq_iff s h0).1 he⟩ (hnotlive v)
        · intro he
          simp only [Option.some.injEq] at he
          exact absurd he.symm hvn
      · rw [liveSlot_eq_some_iff h]
        constructor
        · rintro ⟨h0, he⟩; exact ⟨h0, (grow_getD_eq_iff s h0).1 he⟩
        · rintro ⟨h0, he⟩; exact ⟨h0, (grow_getD_eq_iff s h0).2 he⟩

/-- frame: `add` does not move any slot that was live -/
theorem add_frame {s : NodeIds} (h : NodeInv s) {g : Int} (hg : 0 ≤ g) {v : Nat}
    (hv : 0 ≤ s.global.getD v (-1)) : (s.add g).2.2.global.getD v (-1) = s.global.getD v (-1) := by
  cases hm : searchGlob s.keys g with
  | some loc => rw [add_hit hg hm]
  | none =>
    obtain ⟨_, _, hneg⟩ := add_miss_NodeInv h hg hm
    rw [add_miss hg hm] at hneg ⊢
    simp only at hneg ⊢
    have hlt : v < s.max := lt_length_of_getD_nonneg hv
    have hne : v ≠ next2index s.grow.blank := by
      intro e; rw [← e, grow_getD_old s hlt] at hneg; omega
    rw [getD_set_ne hne, grow_getD_old s hlt]

theorem remove_fields {s : NodeIds} (h : NodeInv s) {node : Int} (hv : s.validSlot node = true) :
    (s.remove node).2.global = s.global.set node.toNat s.blank ∧
    (s.remove node).2.blank = index2next node.toNat ∧
    (s.remove node).2.n = s.n - 1 ∧
    (s.remove node).2.unusedStk = s.global.getD node.toNat (-1) :: s.unusedStk ∧
    (s.remove node).2.newN = s.newN ∧ (s.remove node).2.oldN = s.oldN := by
  obtain ⟨_, hv2⟩ := validSlot_iff.1 hv
  obtain ⟨loc, hloc, _, _⟩ := search_valid h hv2
  rw [remove_eq hv hloc]
  simp [freeSlot, pushUnused]

theorem freed_live {s t : NodeIds} (h : NodeInv s) (ht : NodeInv t) {v : Nat}
    (hv : 0 ≤ s.global.getD v (-1)) (hg : t.global = s.global.set v s.blank) (x : Int) :
    t.liveSlot x = if x = s.global.getD v (-1) then none else s.liveSlot x := by
  have hvlen : v < s.global.length := lt_length_of_getD_nonneg hv
  have hbneg : s.blank < 0 := by
    obtain ⟨⟨l, hc, _, _⟩, _⟩ := h.free
    exact hc.head_neg
  apply Option.ext
  intro w
  rw [liveSlot_eq_some_iff ht, hg]
  by_cases hwv : w = v
  · subst hwv
    rw [getD_set_self hvlen]
    split
    · constructor
      · rintro ⟨h0, he⟩; omega
      · intro h; exact absurd h (by simp)
    · rename_i hx
      rw [liveSlot_eq_some_iff h]
      constructor
      · rintro ⟨h0, he⟩; omega
      · rintro ⟨_, he⟩; exact absurd he.symm hx
  · rw [getD_set_ne hwv]
    split
    · rename_i hx; subst hx
      constructor
      · rintro ⟨_, he⟩
        exact absurd (live_unique h hv he.symm).symm hwv
      · intro h; exact absurd h (by simp)
    · rw [liveSlot_eq_some_iff h]

theorem remove_live {s : NodeIds} (h : NodeInv s) {node : Int} (hv : s.validSlot node = true) (x : Int) :
    (s.remove node).2.liveSlot x =
      if x = s.global.getD node.toNat (-1) then none else s.liveSlot x := by
  obtain ⟨_, hv2⟩ := validSlot_iff.1 hv
  exact freed_live h (remove_NodeInv h hv).2 hv2 (remove_fields h hv).1 x

/-- frame: `remove` does not touch any other slot -/
theorem remove_frame {s : NodeIds} (h : NodeInv s) {node : Int} (hv : s.validSlot node = true) {w : Nat}
    (hw : w ≠ node.toNat) : (s.remove node).2.global.getD w (-1) = s.global.getD w (-1) := by
  rw [(remove_fields h hv).1, getD_set_ne hw]


/-! ### the id pool, `next_global`, and the trial-vertex round trip -/

theorem NodeInv.congr {a b : NodeIds} (h : NodeInv a) (hg : b.global = a.global) (hb : b.blank = a.blank)
    (hn : b.n = a.n) (hs : b.sorted = a.sorted) : NodeInv b := by
  refine ⟨h.free.congr hg hb hn, ?_, ?_, ?_, ?_⟩
  · simpa [keys, hs] using h.srt.sorted
  · intro p hp; rw [hg]; rw [hs] at hp; exact h.srt.sound p hp
  · intro v hv; rw [hg] at hv ⊢; rw [hs]; exact h.srt.complete v hv
  · rw [hs, hn]; exact h.srt.len

theorem liveSlot_congr {a b : NodeIds} (hg : b.global = a.global) (x : Int) : b.liveSlot x = a.liveSlot x := by
  simp [NodeIds.liveSlot, hg]

/-- no pooled id is negative, no pooled id is live -/
structure PoolInv (s : NodeIds) : Prop where
  nonneg : ∀ x, s.abs.pool x → 0 ≤ x
  fresh : ∀ x, s.abs.pool x → s.liveSlot x = none

theorem nextGlobal_cons {s : NodeIds} {g : Int} {rest : List Int} (hu : s.unusedStk = g :: rest) :
    s.nextGlobal = (.ok, g, { s with unusedStk := rest }) := by
  simp [nextGlobal, nUnused, popUnused, hu]

theorem nextGlobal_nil {s : NodeIds} (hu : s.unusedStk = []) :
    s.nextGlobal = (.ok, s.effNew,
      { s with oldN := if s.newN = -1 then (s.n : Int) else s.oldN, newN := s.effNew + 1 }) := by
  have h0 : s.nUnused = 0 := by simp [nUnused, hu]
  simp only [nextGlobal, h0, Nat.lt_irrefl, if_false, NodeIds.effNew, initNGlobal]
  split <;> rfl

/-- `ref_node_next_global` returns an id of the pool -/
theorem nextGlobal_mem_pool (s : NodeIds) : s.nextGlobal.1 = .ok ∧ s.abs.pool s.nextGlobal.2.1 := by
  cases hu : s.unusedStk with
  | nil => rw [nextGlobal_nil hu]; exact ⟨rfl, Or.inr (Int.le_refl _)⟩
  | cons g rest => rw [nextGlobal_cons hu]; exact ⟨rfl, Or.inl (by simp [hu])⟩

theorem nextGlobal_keeps (s : NodeIds) :
    s.nextGlobal.2.2.global = s.global ∧ s.nextGlobal.2.2.blank = s.blank ∧ s.nextGlobal.2.2.n = s.n ∧
      s.nextGlobal.2.2.sorted = s.sorted := by
  cases hu : s.unusedStk with
  | nil => rw [nextGlobal_nil hu]; exact ⟨rfl, rfl, rfl, rfl⟩
  | cons g rest => rw [nextGlobal_cons hu]; exact ⟨rfl, rfl, rfl, rfl⟩

theorem validSlot_of_getD {s : NodeIds} {v : Nat} (h : 0 ≤ s.global.getD v (-1)) :
    s.validSlot (v : Int) = true := validSlot_iff.2 ⟨by omega, by simpa using h⟩

/-- **C13, id clause**: a vertex created with the next global id and removed again (rejected split)
    leaves the abstract state — live map and id pool — exactly as it was. -/
theorem trial_roundtrip {s : NodeIds} (h : NodeInv s) (hp : PoolInv s) :
    (s.nextGlobal).1 = .ok ∧
    ((s.nextGlobal).2.2.add (s.nextGlobal).2.1).1 = .ok ∧
    ((((s.nextGlobal).2.2.add (s.nextGlobal).2.1).2.2).remove
        (((s.nextGlobal).2.2.add (s.nextGlobal).2.1).2.1 : Int)).1 = .ok ∧
    NodeInv ((((s.nextGlobal).2.2.add (s.nextGlobal).2.1).2.2).remove
        (((s.nextGlobal).2.2.add (s.nextGlobal).2.1).2.1 : Int)).2 ∧
    ((((s.nextGlobal).2.2.add (s.nextGlobal).2.1).2.2).remove
        (((s.nextGlobal).2.2.add (s.nextGlobal).2.1).2.1 : Int)).2.abs = s.abs := by
  obtain ⟨hok1, hpool⟩ := nextGlobal_mem_pool s
  obtain ⟨kg, kb, kn, ks⟩ := nextGlobal_keeps s
  have hg0 : 0 ≤ s.nextGlobal.2.1 := hp.nonneg _ hpool
  have hfresh : s.liveSlot s.nextGlobal.2.1 = none := hp.fresh _ hpool
  -- facts about the pool fields of s1, by cases on the unused list
  have hpoolfields :
      (∀ x, (x = s.nextGlobal.2.1 ∨ x ∈ s.nextGlobal.2.2.unusedStk ∨
          (if s.nextGlobal.2.2.newN = -1 then (s.n : Int) else s.nextGlobal.2.2.newN) ≤ x) ↔ s.abs.pool x) := by
    intro x
    cases hu : s.unusedStk with
    | nil =>
      rw [nextGlobal_nil hu] at hg0 ⊢
      simp only [NodeIds.abs, hu, List.not_mem_nil, false_or] at hg0 ⊢
      have : ¬ (s.effNew + 1 = -1) := by omega
      simp only [this, if_false]
      constructor
      · rintro (h | h) <;> omega
      · intro h; omega
    | cons g rest =>
      rw [nextGlobal_cons hu]
      simp only [NodeIds.abs, hu, List.mem_cons, NodeIds.effNew]
      constructor
      · rintro (h | h | h)
        · exact Or.inl (Or.inl h)
        · exact Or.inl (Or.inr h)
        · exact Or.inr h
      · rintro ((h | h) | h)
        · exact Or.inl h
        · exact Or.inr (Or.inl h)
        · exact Or.inr (Or.inr h)
  generalize hs1 : s.nextGlobal.2.2 = s1 at *
  generalize hgg : s.nextGlobal.2.1 = g at *
  have h1 : NodeInv s1 := h.congr kg kb kn ks
  have hfresh1 : s1.liveSlot g = none := by rw [liveSlot_congr kg]; exact hfresh
  have hm : searchGlob s1.keys g = none := (search_none_iff h1).2 hfresh1
  obtain ⟨h2, hnode, _⟩ := add_miss_NodeInv h1 hg0 hm
  have hlive2 := add_live h1 hg0
  have hadd_ok : (s1.add g).1 = .ok := (add_NodeInv h1 hg0).1
  have hfields2 : (s1.add g).2.2.unusedStk = s1.unusedStk ∧ (s1.add g).2.2.newN = s1.newN ∧
      (s1.add g).2.2.n = s1.n + 1 ∧ (s1.add g).2.2.global.getD (s1.add g).2.1 (-1) = g := by
    rw [add_miss hg0 hm] at hnode ⊢
    simp only [grow_unusedStk, grow_newN, true_and]
    exact getD_set_self (by simpa [NodeIds.max] using hnode)
  generalize hs2 : (s1.add g).2.2 = s2 at *
  generalize hnd : (s1.add g).2.1 = node at *
  obtain ⟨hu2, hnew2, hn2, hgl2⟩ := hfields2
  have hvalid : s2.validSlot (node : Int) = true := validSlot_of_getD (by rw [hgl2]; exact hg0)
  obtain ⟨hok3, h3⟩ := remove_NodeInv h2 hvalid
  obtain ⟨_, _, hn3, hu3, hnew3, _⟩ := remove_fields h2 hvalid
  refine ⟨hok1, hadd_ok, hok3, h3, ?_⟩
  apply Abs.ext'
  · intro x
    show (s2.remove node).2.liveSlot x = s.liveSlot x
    rw [remove_live h2 hvalid, Int.toNat_natCast, hgl2, hlive2 x, liveSlot_congr kg]
    split
    · rename_i hx; subst hx; exact hfresh.symm
    · rfl
  · intro x
    rw [← hpoolfields x]
    show (x ∈ (s2.remove node).2.unusedStk ∨ (s2.remove node).2.effNew ≤ x) ↔ _
    simp only [NodeIds.effNew, hu3, hnew3, hn3, hn2, hu2, hnew2, Int.toNat_natCast, hgl2, List.mem_cons, kn]
    have : ((s.n + 1 - 1 : Nat) : Int) = (s.n : Int) := by simp
    rw [this, or_assoc]


/-! ### the `*_invalidates_sorted` removals and `rebuild_sorted_global` -/

/-- two valid slots never hold the same global id -/
def LiveDistinct (s : NodeIds) : Prop :=
  ∀ v w, 0 ≤ s.global.getD v (-1) → s.global.getD v (-1) = s.global.getD w (-1) → v = w

/-- what survives the removals that do not maintain the sorted arrays -/
structure WeakInv (s : NodeIds) : Prop where
  free : FreeInv s
  distinct : LiveDistinct s

theorem NodeInv.weak {s : NodeIds} (h : NodeInv s) : WeakInv s :=
  ⟨h.free, fun _ _ hv he => live_unique h hv he⟩

theorem freeSlot_WeakInv {s t : NodeIds} (h : WeakInv s) {v : Nat} (hv : 0 ≤ s.global.getD v (-1))
    (hg : t.global = s.global.set v s.blank) (hb : t.blank = index2next v) (hn : t.n = s.n - 1) :
    WeakInv t := by
  have hvlen : v < s.global.length := lt_length_of_getD_nonneg hv
  have hbneg : s.blank < 0 := by
    obtain ⟨⟨l, hc, _, _⟩, _⟩ := h.free
    exact hc.head_neg
  refine ⟨(freeSlot_FreeInv h.free hv).congr hg hb hn, ?_⟩
  intro a b ha he
  rw [hg] at ha he
  have hav : a ≠ v := by
    intro e; subst e; rw [getD_set_self hvlen] at ha; omega
  have hbv : b ≠ v := by
    intro e; subst e; rw [getD_set_self hvlen, getD_set_ne hav] at he
    rw [getD_set_ne hav] at ha; omega
  rw [getD_set_ne hav] at ha he
  rw [getD_set_ne hbv] at he
  exact h.distinct a b ha he

theorem removeInvalidatesSorted_WeakInv {s : NodeIds} (h : WeakInv s) {node : Int}
    (hv : s.validSlot node = true) :
    (s.removeInvalidatesSorted node).1 = .ok ∧ WeakInv (s.removeInvalidatesSorted node).2 := by
  obtain ⟨_, hv2⟩ := validSlot_iff.1 hv
  simp only [removeInvalidatesSorted, hv, Bool.not_true, Bool.false_eq_true, if_false, true_and]
  exact freeSlot_WeakInv h hv2 rfl rfl rfl

theorem removeWithoutGlobalInvalidatesSorted_WeakInv {s : NodeIds} (h : WeakInv s) {node : Int}
    (hv : s.validSlot node = true) :
    (s.removeWithoutGlobalInvalidatesSorted node).1 = .ok ∧
      WeakInv (s.removeWithoutGlobalInvalidatesSorted node).2 := by
  obtain ⟨_, hv2⟩ := validSlot_iff.1 hv
  simp only [removeWithoutGlobalInvalidatesSorted, hv, Bool.not_true, Bool.false_eq_true, if_false, true_and]
  exact freeSlot_WeakInv h hv2 rfl rfl rfl

theorem isNondecr_iff : ∀ (l : List Int), isNondecr l = true ↔ l.Pairwise (· ≤ ·)
  | [] => by simp [isNondecr]
  | [_] => by simp [isNondecr]
  | a :: b :: rest => by
    have ih := isNondecr_iff (b :: rest)
    simp only [isNondecr, Bool.and_eq_true, decide_eq_true_eq, ih]
    constructor
    · rintro ⟨hab, hp⟩
      refine List.pairwise_cons.2 ⟨?_, hp⟩
      intro x hx
      rcases List.mem_cons.1 hx with rfl | hx
      · exact hab
      · exact Int.le_trans hab ((List.pairwise_cons.1 hp).1 x hx)
    · intro hp
      obtain ⟨h1, h2⟩ := List.pairwise_cons.1 hp
      exact ⟨h1 b (by simp), h2⟩

/-- the checked sorting permutation: a permutation of the indices that makes the keys non-decreasing -/
theorem sortIdx_spec (keys : List Int) :
    (sortIdx keys).Perm (List.range keys.length) ∧
      ((sortIdx keys).map fun i => keys.getD i 0).Pairwise (· ≤ ·) := by
  unfold sortIdx
  simp only
  split
  · rename_i hc
    simp only [sortsCheck, Bool.and_eq_true, beq_iff_eq] at hc
    refine ⟨?_, (isNondecr_iff _).1 hc.2⟩
    have := List.mergeSort_perm (heapSortIdx keys) (fun a b => decide (a ≤ b))
    rw [hc.1] at this
    exact this.symm
  · refine ⟨List.mergeSort_perm _ _, ?_⟩
    unfold mergeIdx
    rw [List.pairwise_map]
    have := List.pairwise_mergeSort (le := fun i j => decide (keys.getD i 0 ≤ keys.getD j 0))
      (fun a b c hab hbc => by
        simp only [decide_eq_true_eq] at hab hbc ⊢; exact Int.le_trans hab hbc)
      (fun a b => by
        simp only [Bool.or_eq_true, decide_eq_true_eq]; exact Int.le_total _ _)
      (List.range keys.length)
    exact this.imp (fun h => by simpa using h)

theorem map_getD_range {α} (l : List α) (d : α) : (List.range l.length).map (fun i => l.getD i d) = l := by
  apply List.ext_getElem
  · simp
  · intro i h1 h2
    simp [List.getD_eq_getElem?_getD, h2]

theorem mem_livePairs {s : NodeIds} {p : Int × Nat} :
    p ∈ s.livePairs ↔ s.global.getD p.2 (-1) = p.1 ∧ 0 ≤ p.1 := by
  simp only [livePairs, List.mem_filter, List.mem_zipIdx_iff_getElem?, decide_eq_true_eq, ge_iff_le]
  constructor
  · rintro ⟨h1, h2⟩
    exact ⟨by rw [List.getD_eq_getElem?_getD, h1]; rfl, h2⟩
  · rintro ⟨h1, h2⟩
    have hl : p.2 < s.global.length := lt_length_of_getD_nonneg (by rw [h1]; exact h2)
    rw [getD_eq_getElem' hl] at h1
    exact ⟨by rw [List.getElem?_eq_getElem hl, h1], h2⟩

theorem livePairs_length (s : NodeIds) : s.livePairs.length = s.global.countP (fun x => decide (0 ≤ x)) := by
  have h1 : (s.livePairs.map Prod.fst) = s.global.filter (fun x => decide (0 ≤ x)) := by
    simp only [livePairs]
    rw [show (fun gv : Int × Nat => decide (gv.1 ≥ 0)) = (fun x => decide (0 ≤ x)) ∘ Prod.fst from rfl,
      ← List.filter_map, List.zipIdx_map_fst]
  rw [List.countP_eq_length_filter, ← h1, List.length_map]

theorem livePairs_keys_nodup {s : NodeIds} (hd : LiveDistinct s) : (s.livePairs.map Prod.fst).Nodup := by
  rw [List.nodup_iff_pairwise_ne, List.pairwise_map]
  have hz : s.global.zipIdx.Pairwise (fun a b => a.2 ≠ b.2) := by
    have : (s.global.zipIdx.map Prod.snd).Nodup := by
      rw [List.zipIdx_map_snd]; exact List.nodup_range'
    rw [List.nodup_iff_pairwise_ne, List.pairwise_map] at this
    exact this
  have hp : s.livePairs.Pairwise (fun a b => a.2 ≠ b.2) := hz.sublist List.filter_sublist
  refine hp.imp_of_mem ?_
  intro a b ha hb hne heq
  obtain ⟨ha1, ha2⟩ := mem_livePairs.1 ha
  obtain ⟨hb1, _⟩ := mem_livePairs.1 hb
  exact hne (hd a.2 b.2 (by rw [ha1]; exact ha2) (by rw [ha1, hb1]; exact heq))

/-- `ref_node_rebuild_sorted_global` re-establishes the full invariant -/
theorem rebuild_NodeInv {s : NodeIds} (h : WeakInv s) : NodeInv s.rebuild := by
  obtain ⟨hperm, hsorted⟩ := sortIdx_spec (s.livePairs.map Prod.fst)
  have hperm' : s.rebuild.sorted.Perm s.livePairs := by
    have := hperm.map (fun i => s.livePairs.getD i (0, 0))
    rw [List.length_map, map_getD_range] at this
    exact this
  have hkeys : s.rebuild.keys = (sortIdx (s.livePairs.map Prod.fst)).map
      (fun i => (s.livePairs.map Prod.fst).getD i 0) := by
    simp only [keys, rebuild, List.map_map]
    apply List.map_congr_left
    intro i _
    simp [List.getD_eq_getElem?_getD, List.getElem?_map]
    cases s.livePairs[i]? <;> rfl
  refine ⟨h.free.congr rfl rfl rfl, ?_, ?_, ?_, ?_⟩
  · have hnd : s.rebuild.keys.Nodup := by
      have : s.rebuild.keys.Perm (s.livePairs.map Prod.fst) := hperm'.map _
      exact this.nodup_iff.2 (livePairs_keys_nodup h.distinct)
    rw [hkeys] at hnd ⊢
    exact (hsorted.and (List.nodup_iff_pairwise_ne.1 hnd)).imp (fun ⟨h1, h2⟩ => by omega)
  · intro p hp
    exact mem_livePairs.1 (hperm'.mem_iff.1 hp)
  · intro v hv
    exact hperm'.mem_iff.2 (mem_livePairs.2 ⟨rfl, hv⟩)
  · rw [hperm'.length_eq, livePairs_length]
    exact h.free.count.symm


/-! ### `ref_node_add_many` -/

theorem getD0_set_ne {g : List Int} {v w : Nat} {x : Int} (h : w ≠ v) : (g.set v x).getD w 0 = g.getD w 0 := by
  simp [List.getD_eq_getElem?_getD, Ne.symm h]

theorem getD0_set_self {g : List Int} {v : Nat} {x : Int} (h : v < g.length) : (g.set v x).getD v 0 = x := by
  simp [List.getD_eq_getElem?_getD, h]

/-- loop invariant of the duplicate-marking pass of `ref_node_add_many` (`done` = the part of the sorted
    index list already visited, `pj` = the last index kept) -/
structure MarkInv (g0 g : List Int) (pj : Nat) (done todo : List Nat) : Prop where
  nodup : (done ++ todo).Nodup
  bound : ∀ k ∈ done ++ todo, k < g0.length
  len : g.length = g0.length
  pjmem : pj ∈ done
  todoSame : ∀ k ∈ todo, g.getD k 0 = g0.getD k 0
  pjSame : g.getD pj 0 = g0.getD pj 0
  only : ∀ k, g.getD k 0 = g0.getD k 0 ∨ g.getD k 0 = -1
  below : ∀ a ∈ done, a ≠ pj → g.getD a 0 = -1 ∨ g.getD a 0 < g.getD pj 0
  distinct : ∀ a ∈ done, ∀ b ∈ done, a ≠ b → g.getD a 0 ≠ -1 → g.getD a 0 ≠ g.getD b 0
  ahead : ∀ k ∈ todo, g0.getD pj 0 ≤ g0.getD k 0
  sorted : todo.Pairwise (fun a b => g0.getD a 0 ≤ g0.getD b 0)
  survive : ∀ a ∈ done, ∃ b ∈ done, g.getD b 0 = g0.getD a 0

theorem markDups_spec (p : List Nat) (g0 : List Int) :
    ∀ (todo done : List Nat) (g : List Int) (pj : Nat), MarkInv g0 g pj done todo →
      ∃ pj', MarkInv g0 (markDups p g pj todo) pj' (done ++ todo) [] := by
  intro todo
  induction todo with
  | nil => intro done g pj h; exact ⟨pj, by simpa [markDups] using h⟩
  | cons pi rest ih =>
    intro done g pj h
    obtain ⟨hnd, hbound, hlen, hpj, htodo, hpjs, honly, hbelow, hdist, hahead, hsorted, hsurv⟩ := h
    have hnd' := List.nodup_append.1 hnd
    have hpi_done : pi ∉ done := fun hm => hnd'.2.2 pi hm pi (by simp) rfl
    have hpi_rest : pi ∉ rest := (List.nodup_cons.1 hnd'.2.1).1
    have hpipj : pi ≠ pj := fun e => hpi_done (e ▸ hpj)
    have hgpi : g.getD pi 0 = g0.getD pi 0 := htodo pi (by simp)
    have hle : g0.getD pj 0 ≤ g0.getD pi 0 := hahead pi (by simp)
    have hpilen : pi < g.length := by rw [hlen]; exact hbound pi (by simp)
    have hassoc : done ++ [pi] ++ rest = done ++ pi :: rest := by simp
    have hmemd : ∀ a, a ∈ done ++ [pi] ↔ a ∈ done ∨ a = pi := by intro a; simp
    obtain ⟨hs1, hs2⟩ := List.pairwise_cons.1 hsorted
    unfold markDups
    split
    · -- keep `pi`
      rename_i hne
      have hlt : g.getD pj 0 < g.getD pi 0 := by rw [hgpi, hpjs] at hne ⊢; omega
      have := ih (done ++ [pi]) g pi
        { nodup := by rw [hassoc]; exact hnd
          bound := by rw [hassoc]; exact hbound
          len := hlen
          pjmem := by simp
          todoSame := fun k hk => htodo k (by simp [hk])
          pjSame := hgpi
          only := honly
          below := by
            intro a ha hapi
            rcases (hmemd a).1 ha with ha | ha
            · by_cases hapj : a = pj
              · subst hapj; exact Or.inr hlt
              · rcases hbelow a ha hapj with h | h
                · exact Or.inl h
                · exact Or.inr (by omega)
            · exact absurd ha hapi
          distinct := by
            intro a ha b hb hab hna
            have hbd : ∀ c ∈ done, g.getD c 0 = -1 ∨ g.getD c 0 < g.getD pi 0 := by
              intro c hc
              by_cases hcpj : c = pj
              · subst hcpj; exact Or.inr hlt
              · rcases hbelow c hc hcpj with h | h
                · exact Or.inl h
                · exact Or.inr (by omega)
            rcases (hmemd a).1 ha with ha1 | ha1
            · rcases (hmemd b).1 hb with hb1 | hb1
              · exact hdist a ha1 b hb1 hab hna
              · rw [hb1]
                rcases hbd a ha1 with h | h
                · exact absurd h hna
                · omega
            · rcases (hmemd b).1 hb with hb1 | hb1
              · rw [ha1]
                rcases hbd b hb1 with h | h
                · rw [h]; rw [ha1] at hna; exact hna
                · omega
              · exact absurd (ha1.trans hb1.symm) hab
          ahead := fun k hk => hs1 k hk
          sorted := hs2
          survive := by
            intro a ha
            rcases (hmemd a).1 ha with ha | ha
            · obtain ⟨b, hb, hbe⟩ := hsurv a ha
              exact ⟨b, (hmemd b).2 (Or.inl hb), hbe⟩
            · subst ha; exact ⟨a, by simp, hgpi⟩ }
      rw [hassoc] at this
      exact this
    · -- mark `pi` as a duplicate
      rename_i heq
      have heq : g.getD pi 0 = g.getD pj 0 := by simpa using heq
      have hset : ∀ k, k ≠ pi → (g.set pi (-1)).getD k 0 = g.getD k 0 := fun k hk => getD0_set_ne hk
      have hself : (g.set pi (-1)).getD pi 0 = -1 := getD0_set_self hpilen
      have hne_done : ∀ a ∈ done, a ≠ pi := fun a ha e => hpi_done (e ▸ ha)
      have := ih (done ++ [pi]) (g.set pi (-1)) pj
        { nodup := by rw [hassoc]; exact hnd
          bound := by rw [hassoc]; exact hbound
          len := by rw [List.length_set]; exact hlen
          pjmem := by simp [hpj]
          todoSame := by
            intro k hk
            rw [hset k (fun e => hpi_rest (e ▸ hk))]
            exact htodo k (by simp [hk])
          pjSame := by rw [hset pj (Ne.symm hpipj)]; exact hpjs
          only := by
            intro k
            by_cases hk : k = pi
            · subst hk; exact Or.inr hself
            · rw [hset k hk]; exact honly k
          below := by
            intro a ha hapj
            rcases (hmemd a).1 ha with ha | ha
            · rw [hset a (hne_done a ha), hset pj (Ne.symm hpipj)]
              exact hbelow a ha hapj
            · subst ha; exact Or.inl hself
          distinct := by
            intro a ha b hb hab hna
            rcases (hmemd a).1 ha with ha | ha
            · rw [hset a (hne_done a ha)] at hna ⊢
              rcases (hmemd b).1 hb with hb | hb
              · rw [hset b (hne_done b hb)]
                exact hdist a ha b hb hab hna
              · subst hb; rw [hself]; exact hna
            · subst ha; exact absurd hself hna
          ahead := fun k hk => hahead k (by simp [hk])
          sorted := hs2
          survive := by
            intro a ha
            rcases (hmemd a).1 ha with ha | ha
            · obtain ⟨b, hb, hbe⟩ := hsurv a ha
              exact ⟨b, (hmemd b).2 (Or.inl hb), by rw [hset b (hne_done b hb)]; exact hbe⟩
            · subst ha
              exact ⟨pj, (hmemd pj).2 (Or.inl hpj), by rw [hset pj (Ne.symm hpipj), ← heq, hgpi]⟩ }
      rw [hassoc] at this
      exact this

/-- the list after the duplicate-marking pass of `add_many` -/
def dedupMarked (g0 : List Int) : List Int :=
  match sortIdx g0 with
  | [] => g0
  | p0 :: rest => markDups (sortIdx g0) g0 p0 rest

/-- what the pass guarantees: entries are only ever overwritten by `REF_EMPTY`, the survivors are pairwise
    distinct, and every value survives at least once -/
theorem dedupMarked_spec (g0 : List Int) :
    (∀ x ∈ dedupMarked g0, x = -1 ∨ x ∈ g0) ∧
    (dedupMarked g0).Pairwise (fun a b => a ≠ -1 → a ≠ b) ∧
    (∀ x ∈ g0, x ∈ dedupMarked g0) := by
  obtain ⟨hperm, hsorted⟩ := sortIdx_spec g0
  cases hp : sortIdx g0 with
  | nil =>
    have hd : dedupMarked g0 = g0 := by unfold dedupMarked; rw [hp]
    rw [hd]
    rw [hp] at hperm
    have hlen : g0.length = 0 := by
      have := hperm.length_eq; simp at this; omega
    have : g0 = [] := List.length_eq_zero_iff.1 hlen
    subst this
    simp
  | cons p0 rest =>
    have hd : dedupMarked g0 = markDups (p0 :: rest) g0 p0 rest := by unfold dedupMarked; rw [hp]
    rw [hd]
    rw [hp] at hperm hsorted
    have hmem : ∀ k, k ∈ p0 :: rest ↔ k < g0.length := by
      intro k; rw [hperm.mem_iff, List.mem_range]
    have hnd : (p0 :: rest).Nodup := hperm.nodup_iff.2 List.nodup_range
    have hsorted' : (p0 :: rest).Pairwise (fun a b => g0.getD a 0 ≤ g0.getD b 0) :=
      List.pairwise_map.1 hsorted
    obtain ⟨hs1, hs2⟩ := List.pairwise_cons.1 hsorted'
    obtain ⟨pj', hI⟩ := markDups_spec (p0 :: rest) g0 rest [p0] g0 p0
      { nodup := hnd
        bound := fun k hk => (hmem k).1 hk
        len := rfl
        pjmem := by simp
        todoSame := fun _ _ => rfl
        pjSame := rfl
        only := fun _ => Or.inl rfl
        below := by intro a ha hne; simp at ha; exact absurd ha hne
        distinct := by intro a ha b hb hab; simp at ha hb; exact absurd (ha.trans hb.symm) hab
        ahead := hs1
        sorted := hs2
        survive := by intro a ha; exact ⟨a, ha, rfl⟩ }
    simp only [List.singleton_append] at hI
    generalize markDups (p0 :: rest) g0 p0 rest = g1 at hI
    have hlen := hI.len
    have hget : ∀ k (hk : k < g1.length), g1.getD k 0 = g1[k] := fun k hk => getD0_eq hk
    refine ⟨?_, ?_, ?_⟩
    · intro x hx
      obtain ⟨k, hk, rfl⟩ := List.mem_iff_getElem.1 hx
      rcases hI.only k with h | h
      · right
        rw [hget k hk, getD0_eq (by omega)] at h
        rw [h]; exact List.getElem_mem _
      · left; rw [← hget k hk]; exact h
    · rw [List.pairwise_iff_getElem]
      intro i j hi hj hij hne
      have := hI.distinct i ((hmem i).2 (by omega)) j ((hmem j).2 (by omega)) (by omega)
        (by rw [hget i hi]; exact hne)
      rw [hget i hi, hget j hj] at this
      exact this
    · intro x hx
      obtain ⟨a, ha, rfl⟩ := List.mem_iff_getElem.1 hx
      obtain ⟨b, hb, hbe⟩ := hI.survive a ((hmem a).2 ha)
      have hbl : b < g1.length := by rw [hlen]; exact (hmem b).1 hb
      rw [hget b hbl, getD0_eq ha] at hbe
      rw [← hbe]; exact List.getElem_mem _


/-- `x` is the global id of some valid slot -/
def NodeIds.liveSet (s : NodeIds) (x : Int) : Prop := 0 ≤ x ∧ ∃ v, s.global.getD v (-1) = x

theorem addCore_eq {s : NodeIds} {g : Int} (hg : 0 ≤ g) :
    s.addCore g = (.ok, next2index s.grow.blank,
      { s.grow with
        blank := s.grow.global.getD (next2index s.grow.blank) (-1),
        global := s.grow.global.set (next2index s.grow.blank) g,
        part := s.grow.part.set (next2index s.grow.blank) 0,
        n := s.n + 1 }) := by
  simp [addCore, Int.not_lt.2 hg]

/-- `ref_node_add_core` of a global that is not live keeps `WeakInv`, adds exactly that global, and moves
    no live slot -/
theorem addCore_Weak {s : NodeIds} (h : WeakInv s) {g : Int} (hg : 0 ≤ g) (hfresh : ¬ s.liveSet g) :
    (s.addCore g).1 = .ok ∧ WeakInv (s.addCore g).2.2 ∧
      (∀ x, (s.addCore g).2.2.liveSet x ↔ x = g ∨ s.liveSet x) ∧
      (∀ v, 0 ≤ s.global.getD v (-1) → (s.addCore g).2.2.global.getD v (-1) = s.global.getD v (-1)) ∧
      (s.addCore g).2.2.unusedStk = s.unusedStk ∧ (s.addCore g).2.2.newN = s.newN ∧
      (s.addCore g).2.2.oldN = s.oldN := by
  rw [addCore_eq hg]
  obtain ⟨hft, hbt⟩ := grow_FreeInv h.free
  obtain ⟨hpop, hnode, hneg⟩ := pop_FreeInv hft hbt hg (s.grow.part.set (next2index s.grow.blank) 0)
  generalize next2index s.grow.blank = node at *
  have hnlen : node < s.grow.global.length := hnode
  have hnotlive : ∀ v, s.global.getD v (-1) ≠ g := fun v e => hfresh ⟨hg, v, e⟩
  refine ⟨rfl, ⟨hpop.congr rfl rfl (by simp), ?_⟩, ?_, ?_, by simp, by simp, by simp⟩
  · intro a b ha he
    simp only at ha he
    by_cases han : a = node <;> by_cases hbn : b = node
    · rw [han, hbn]
    · subst han
      rw [getD_set_self hnlen, getD_set_ne hbn] at he
      exact absurd ((grow_getD_eq_iff s hg).1 he.symm) (hnotlive b)
    · subst hbn
      rw [getD_set_self hnlen, getD_set_ne han] at he
      exact absurd ((grow_getD_eq_iff s hg).1 he) (hnotlive a)
    · rw [getD_set_ne han] at ha he
      rw [getD_set_ne hbn] at he
      have h1 := (grow_getD_eq_iff s ha).1 rfl
      have h2 := (grow_getD_eq_iff s ha).1 he.symm
      exact h.distinct a b (by rw [h1]; exact ha) (by rw [h1, h2])
  · intro x
    simp only [NodeIds.liveSet]
    constructor
    · rintro ⟨h0, v, hv⟩
      by_cases hvn : v = node
      · subst hvn; rw [getD_set_self hnlen] at hv; exact Or.inl hv.symm
      · rw [getD_set_ne hvn] at hv
        exact Or.inr ⟨h0, v, (grow_getD_eq_iff s h0).1 hv⟩
    · rintro (rfl | ⟨h0, v, hv⟩)
      · exact ⟨hg, node, getD_set_self hnlen⟩
      · have hv' := (grow_getD_eq_iff s h0).2 hv
        have hvn : v ≠ node := by intro e; rw [e] at hv'; omega
        exact ⟨h0, v, by rw [getD_set_ne hvn]; exact hv'⟩
  · intro v hv
    simp only
    have hlt : v < s.max := lt_length_of_getD_nonneg hv
    have hvn : v ≠ node := by
      intro e; rw [← e, grow_getD_old s hlt] at hneg; omega
    rw [getD_set_ne hvn, grow_getD_old s hlt]

theorem addCoreAll_spec : ∀ (gs : List Int) (s : NodeIds), WeakInv s → (∀ x ∈ gs, -1 ≤ x) →
    gs.Pairwise (fun a b => a ≠ -1 → a ≠ b) → (∀ x ∈ gs, x ≠ -1 → ¬ s.liveSet x) →
    (addCoreAll s gs).1 = .ok ∧ WeakInv (addCoreAll s gs).2 ∧
      (∀ x, (addCoreAll s gs).2.liveSet x ↔ s.liveSet x ∨ (x ∈ gs ∧ x ≠ -1)) ∧
      (∀ v, 0 ≤ s.global.getD v (-1) → (addCoreAll s gs).2.global.getD v (-1) = s.global.getD v (-1)) ∧
      (addCoreAll s gs).2.unusedStk = s.unusedStk ∧ (addCoreAll s gs).2.newN = s.newN ∧
      (addCoreAll s gs).2.oldN = s.oldN
  | [], s, h, _, _, _ => by simp [addCoreAll, h]
  | g :: rest, s, h, hge, hpw, hfresh => by
    obtain ⟨hp1, hp2⟩ := List.pairwise_cons.1 hpw
    unfold addCoreAll
    by_cases hg1 : g = -1
    · simp only [hg1, if_true]
      obtain ⟨a, b, c, d, e⟩ := addCoreAll_spec rest s h (fun x hx => hge x (by simp [hx])) hp2
        (fun x hx => hfresh x (by simp [hx]))
      refine ⟨a, b, ?_, d, e⟩
      intro x; rw [c x]
      constructor
      · rintro (h | ⟨h1, h2⟩)
        · exact Or.inl h
        · exact Or.inr ⟨by simp [h1], h2⟩
      · rintro (h | ⟨h1, h2⟩)
        · exact Or.inl h
        · rcases List.mem_cons.1 h1 with e | h1
          · exact absurd e h2
          · exact Or.inr ⟨h1, h2⟩
    · simp only [hg1, if_false]
      have hg0 : 0 ≤ g := by have := hge g (by simp); omega
      obtain ⟨hok, hw, hlive, hframe, hu, hn, ho⟩ := addCore_Weak h hg0 (hfresh g (by simp) hg1)
      simp only [hok, if_true]
      obtain ⟨a, b, c, d, e1, e2, e3⟩ := addCoreAll_spec rest (s.addCore g).2.2 hw
        (fun x hx => hge x (by simp [hx])) hp2
        (by
          intro x hx hx1 hl
          rcases (hlive x).1 hl with e | hl
          · exact hp1 x hx hg1 e.symm
          · exact hfresh x (by simp [hx]) hx1 hl)
      refine ⟨a, b, ?_, ?_, by rw [e1, hu], by rw [e2, hn], by rw [e3, ho]⟩
      · intro x; rw [c x, hlive x]
        constructor
        · rintro ((h | h) | ⟨h1, h2⟩)
          · exact Or.inr ⟨by simp [h], by rw [h]; exact hg1⟩
          · exact Or.inl h
          · exact Or.inr ⟨by simp [h1], h2⟩
        · rintro (h | ⟨h1, h2⟩)
          · exact Or.inl (Or.inr h)
          · rcases List.mem_cons.1 h1 with e | h1
            · exact Or.inl (Or.inl e)
            · exact Or.inr ⟨h1, h2⟩
      · intro v hv
        rw [d v (by rw [hframe v hv]; exact hv), hframe v hv]

theorem liveSet_iff_liveSlot {s : NodeIds} (h : NodeInv s) {x : Int} :
    s.liveSet x ↔ s.liveSlot x ≠ none := by
  rw [Ne, liveSlot_eq_none_iff h]
  simp only [NodeIds.liveSet]
  constructor
  · rintro ⟨h0, v, hv⟩ hall; exact hall v ⟨h0, hv⟩
  · intro hn
    refine Classical.byContradiction fun hc => hn ?_
    intro v hv; exact hc ⟨hv.1, v, hv.2⟩

/-- `ref_node_add_many` on a list without entries below `REF_EMPTY`: succeeds, re-establishes `NodeInv`,
    the live globals become `old ∪ {x ∈ list | 0 ≤ x}`, and no previously live slot moves -/
theorem addMany_spec {s : NodeIds} (h : NodeInv s) {orig : List Int} (hge : ∀ x ∈ orig, -1 ≤ x) :
    (s.addMany orig).1 = .ok ∧ NodeInv (s.addMany orig).2 ∧
      (∀ x, (s.addMany orig).2.liveSet x ↔ s.liveSet x ∨ (x ∈ orig ∧ 0 ≤ x)) ∧
      (∀ v, 0 ≤ s.global.getD v (-1) → (s.addMany orig).2.global.getD v (-1) = s.global.getD v (-1)) ∧
      (s.addMany orig).2.unusedStk = s.unusedStk ∧ (s.addMany orig).2.newN = s.newN ∧
      (s.addMany orig).2.oldN = s.oldN := by
  have hmem0 : ∀ x, x ∈ orig.filter (fun x => (searchGlob s.keys x).isNone) ↔ x ∈ orig ∧ ¬ s.liveSet x := by
    intro x
    rw [List.mem_filter, liveSet_iff_liveSlot h, Option.isNone_iff_eq_none, search_none_iff h]
    simp
  obtain ⟨hA, hB, hC⟩ := dedupMarked_spec (orig.filter (fun x => (searchGlob s.keys x).isNone))
  have hunf : s.addMany orig =
      (if (addCoreAll s (dedupMarked (orig.filter (fun x => (searchGlob s.keys x).isNone)))).1 = .ok then
        (.ok, (addCoreAll s (dedupMarked (orig.filter (fun x => (searchGlob s.keys x).isNone)))).2.rebuild)
      else addCoreAll s (dedupMarked (orig.filter (fun x => (searchGlob s.keys x).isNone)))) := rfl
  generalize dedupMarked (orig.filter (fun x => (searchGlob s.keys x).isNone)) = g1 at *
  obtain ⟨hok, hw, hlive, hframe, hu, hn, ho⟩ := addCoreAll_spec g1 s h.weak
    (by
      intro x hx
      rcases hA x hx with e | hx0
      · omega
      · exact hge x ((hmem0 x).1 hx0).1)
    hB
    (by
      intro x hx hx1
      rcases hA x hx with e | hx0
      · exact absurd e hx1
      · exact ((hmem0 x).1 hx0).2)
  rw [hunf]
  simp only [hok, if_true]
  refine ⟨trivial, rebuild_NodeInv hw, ?_, hframe, hu, hn, ho⟩
  intro x
  show (0 ≤ x ∧ ∃ v, (addCoreAll s g1).2.global.getD v (-1) = x) ↔ _
  rw [show (0 ≤ x ∧ ∃ v, (addCoreAll s g1).2.global.getD v (-1) = x) ↔ (addCoreAll s g1).2.liveSet x from Iff.rfl,
    hlive x]
  constructor
  · rintro (hl | ⟨h1, h2⟩)
    · exact Or.inl hl
    · rcases hA x h1 with e | hx0
      · exact absurd e h2
      · have := (hmem0 x).1 hx0
        have := hge x this.1
        exact Or.inr ⟨((hmem0 x).1 hx0).1, by omega⟩
  · rintro (hl | ⟨h1, h2⟩)
    · exact Or.inl hl
    · by_cases hl : s.liveSet x
      · exact Or.inl hl
      · exact Or.inr ⟨hC x ((hmem0 x).2 ⟨h1, hl⟩), by omega⟩

end Refine.Model.NodeIds
