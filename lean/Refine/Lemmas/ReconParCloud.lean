import Refine.Lemmas.ReconParMesh
import Refine.Props.C19Kexact
import Mathlib.Data.List.Perm.Basic
import Mathlib.Data.List.Nodup

/-!
  `ref_cloud_store` bookkeeping: a cloud built by storing entries `item k` (payload a function of the id) is strictly
  sorted by id and holds exactly the entries stored, whatever the order and multiplicity of the stores.  Hence the
  one-layer cloud `ref_recon_local_immediate_cloud` builds for a vertex is determined by the SET of vertices sharing a
  cell with it, and the cloud an owner builds from its stored cells, re-keyed by global id, is literally the serial
  cloud of the global mesh (`localCloud_owned_eq_serial`).
-/
namespace Refine.ReconParCloud
open Refine Refine.Model.Geom Refine.Model.Recon Refine.Model.ReconPar Refine.Model.Kexact Refine.ScalarReal Refine.GeomReal
open Refine.Props.C19Kexact (itemOf store_mem)
open Refine.ReconParMesh

/-- strictly increasing global ids -/
def SortedG (c : List (Item ℝ)) : Prop := c.Pairwise fun a b => a.g < b.g

/-- every entry is `item k` of the mesh `(xyz, s)` -/
def AllItems (xyz : List (V3 ℝ)) (s : List ℝ) (c : List (Item ℝ)) : Prop := ∀ x ∈ c, ∃ k : Nat, x = itemOf xyz s k

theorem itemOf_g (xyz : List (V3 ℝ)) (s : List ℝ) (k : Nat) : (itemOf xyz s k).g = (k : Int) := rfl

theorem itemOf_inj_g {xyz : List (V3 ℝ)} {s : List ℝ} {a b : Item ℝ} (ha : ∃ k : Nat, a = itemOf xyz s k)
    (hb : ∃ k : Nat, b = itemOf xyz s k) (h : a.g = b.g) : a = b := by
  obtain ⟨k, rfl⟩ := ha
  obtain ⟨k', rfl⟩ := hb
  simp only [itemOf_g] at h
  have : k = k' := by exact_mod_cast h
  rw [this]

theorem mem_store_self (it : Item ℝ) : ∀ c : List (Item ℝ), it ∈ store c it
  | [] => by simp [store]
  | h :: t => by
    unfold store
    split
    · simp
    · split
      · simp
      · simp [mem_store_self it t]

theorem mem_store_of_ne {it x : Item ℝ} : ∀ {c : List (Item ℝ)}, x ∈ c → x.g ≠ it.g → x ∈ store c it
  | [], h, _ => by simp at h
  | hd :: t, h, hne => by
    unfold store
    split
    · rename_i heq
      have hg : hd.g = it.g := by simpa using heq
      rcases List.mem_cons.mp h with rfl | h'
      · exact absurd hg hne
      · simp [h']
    · split
      · simp [List.mem_cons.mp h]
      · rcases List.mem_cons.mp h with rfl | h'
        · simp
        · simp [mem_store_of_ne h' hne]

/-- storing `item k0` into a cloud of items: the cloud's entries plus the new one -/
theorem mem_store_items {xyz : List (V3 ℝ)} {s : List ℝ} {c : List (Item ℝ)} (hc : AllItems xyz s c) (k0 : Nat)
    (x : Item ℝ) : x ∈ store c (itemOf xyz s k0) ↔ x = itemOf xyz s k0 ∨ x ∈ c := by
  constructor
  · intro h
    rcases store_mem h with h | h
    · exact Or.inr h
    · exact Or.inl h
  · rintro (rfl | h)
    · exact mem_store_self _ _
    · by_cases hg : x.g = (itemOf xyz s k0).g
      · rw [itemOf_inj_g (hc x h) ⟨k0, rfl⟩ hg]
        exact mem_store_self _ _
      · exact mem_store_of_ne h hg

theorem store_sorted (it : Item ℝ) : ∀ c : List (Item ℝ), SortedG c → SortedG (store c it)
  | [], _ => by simp [store, SortedG]
  | hd :: t, h => by
    unfold SortedG at h ⊢
    rw [List.pairwise_cons] at h
    unfold store
    split
    · rename_i heq
      have hg : hd.g = it.g := by simpa using heq
      rw [List.pairwise_cons]
      exact ⟨fun b hb => hg ▸ h.1 b hb, h.2⟩
    · rename_i hne
      have hne' : hd.g ≠ it.g := by simpa using hne
      split
      · rename_i hlt
        rw [List.pairwise_cons, List.pairwise_cons]
        refine ⟨fun b hb => ?_, h.1, h.2⟩
        rcases List.mem_cons.mp hb with rfl | hb'
        · exact hlt
        · exact lt_trans hlt (h.1 b hb')
      · rename_i hnlt
        have hlt : hd.g < it.g := lt_of_le_of_ne (not_lt.mp hnlt) hne'
        rw [List.pairwise_cons]
        refine ⟨fun b hb => ?_, store_sorted it t h.2⟩
        rcases store_mem hb with hb' | rfl
        · exact h.1 b hb'
        · exact hlt

theorem store_allItems {xyz : List (V3 ℝ)} {s : List ℝ} {c : List (Item ℝ)} (hc : AllItems xyz s c) (k0 : Nat) :
    AllItems xyz s (store c (itemOf xyz s k0)) := by
  intro x hx
  rcases store_mem hx with h | rfl
  · exact hc x h
  · exact ⟨k0, rfl⟩

/-- `storeAll` of items `item k`, `k ∈ ks`: sorted, items, and the entries are the old ones plus the new ones -/
theorem storeAll_items {xyz : List (V3 ℝ)} {s : List ℝ} (ks : List Nat) :
    ∀ (c : List (Item ℝ)), SortedG c → AllItems xyz s c →
      SortedG (storeAll c (ks.map (itemOf xyz s))) ∧ AllItems xyz s (storeAll c (ks.map (itemOf xyz s))) ∧
      ∀ x, x ∈ storeAll c (ks.map (itemOf xyz s)) ↔ (∃ k ∈ ks, x = itemOf xyz s k) ∨ x ∈ c := by
  induction ks with
  | nil => intro c h1 h2; exact ⟨h1, h2, fun x => by simp [storeAll]⟩
  | cons k rest ih =>
    intro c h1 h2
    have := ih (store c (itemOf xyz s k)) (store_sorted _ c h1) (store_allItems h2 k)
    simp only [storeAll, List.map_cons, List.foldl_cons] at this ⊢
    refine ⟨this.1, this.2.1, fun x => ?_⟩
    rw [this.2.2 x, mem_store_items h2 k x]
    constructor
    · rintro (⟨k', hk', rfl⟩ | rfl | h)
      · exact Or.inl ⟨k', List.mem_cons_of_mem _ hk', rfl⟩
      · exact Or.inl ⟨k, List.mem_cons_self, rfl⟩
      · exact Or.inr h
    · rintro (⟨k', hk', rfl⟩ | h)
      · rcases List.mem_cons.mp hk' with rfl | hk''
        · exact Or.inr (Or.inl rfl)
        · exact Or.inl ⟨k', hk'', rfl⟩
      · exact Or.inr (Or.inr h)

/-- two strictly sorted clouds with the same entries are the same list -/
theorem sorted_ext {a b : List (Item ℝ)} (ha : SortedG a) (hb : SortedG b) (h : ∀ x, x ∈ a ↔ x ∈ b) : a = b := by
  have nd : ∀ {c : List (Item ℝ)}, SortedG c → c.Nodup := by
    intro c hc
    unfold SortedG at hc
    refine List.Pairwise.imp ?_ hc
    intro x y hxy e
    rw [e] at hxy
    exact lt_irrefl _ hxy
  have hp : a.Perm b := (List.perm_ext_iff_of_nodup (nd ha) (nd hb)).mpr h
  exact List.Perm.eq_of_pairwise (fun x y _ _ h1 h2 => absurd (lt_trans h1 h2) (lt_irrefl _)) ha hb hp

/-! ### `ref_recon_local_immediate_cloud` -/

/-- what the cloud of vertex `v` must hold: the vertices of the cells containing `v` -/
def InRing (cells : List (List Nat)) (v k : Nat) : Prop := ∃ cell ∈ cells, v ∈ cell ∧ k ∈ cell

/-- entry `v` of an accumulator: sorted items, holding `item k` exactly for the `k` in `R` -/
def EntryIs (xyz : List (V3 ℝ)) (s : List ℝ) (acc : List (List (Item ℝ))) (v : Nat) (R : Nat → Prop) : Prop :=
  ∃ L, acc[v]? = some L ∧ SortedG L ∧ AllItems xyz s L ∧ ∀ x, x ∈ L ↔ ∃ k, R k ∧ x = itemOf xyz s k

theorem oneLayer_entry (xyz : List (V3 ℝ)) (s : List ℝ) (cells : List (List Nat)) (v : Nat) (hv : v < xyz.length) :
    EntryIs xyz s (oneLayer xyz s cells) v (InRing cells v) := by
  unfold oneLayer
  dsimp only
  have hitem : ∀ i : Nat, (⟨(i : Int), (xyz.getD i V3.zero).x, (xyz.getD i V3.zero).y, (xyz.getD i V3.zero).z,
      s.getD i lit0⟩ : Item ℝ) = itemOf xyz s i := fun i => by simp [itemOf, lit0_eq]
  simp only [hitem]
  -- generalise the accumulator and the cells already processed
  have key : ∀ (todo done : List (List Nat)) (acc : List (List (Item ℝ))), acc.length = xyz.length →
      EntryIs xyz s acc v (InRing done v) →
      EntryIs xyz s (todo.foldl (fun acc cell => cell.foldl (fun a u => a.modify u
        (fun c => storeAll c (cell.map (itemOf xyz s)))) acc) acc) v (InRing (done ++ todo) v) := by
    intro todo
    induction todo with
    | nil => intro done acc _ h; simpa using h
    | cons cell rest ih =>
      intro done acc hlen h
      simp only [List.foldl_cons]
      -- the inner loop over the vertices of `cell`
      have inner : ∀ (us pre : List Nat) (a : List (List (Item ℝ))), a.length = xyz.length →
          EntryIs xyz s a v (fun k => InRing done v k ∨ (v ∈ pre ∧ k ∈ cell)) →
          (us.foldl (fun a u => a.modify u (fun c => storeAll c (cell.map (itemOf xyz s)))) a).length = xyz.length ∧
          EntryIs xyz s (us.foldl (fun a u => a.modify u (fun c => storeAll c (cell.map (itemOf xyz s)))) a) v
            (fun k => InRing done v k ∨ (v ∈ pre ++ us ∧ k ∈ cell)) := by
        intro us
        induction us with
        | nil => intro pre a hl h; exact ⟨hl, by simpa using h⟩
        | cons u us ihu =>
          intro pre a hl h
          simp only [List.foldl_cons]
          have hl' : (a.modify u (fun c => storeAll c (cell.map (itemOf xyz s)))).length = xyz.length := by
            rw [List.length_modify]; exact hl
          have step : EntryIs xyz s (a.modify u (fun c => storeAll c (cell.map (itemOf xyz s)))) v
              (fun k => InRing done v k ∨ (v ∈ pre ++ [u] ∧ k ∈ cell)) := by
            obtain ⟨L, hL, hs, hi, hm⟩ := h
            by_cases huv : u = v
            · subst huv
              obtain ⟨s1, s2, s3⟩ := storeAll_items (xyz := xyz) (s := s) cell L hs hi
              refine ⟨_, by rw [List.getElem?_modify, hL]; simp, s1, s2, fun x => ?_⟩
              rw [s3 x, hm x]
              constructor
              · rintro (⟨k, hk, rfl⟩ | ⟨k, hk, rfl⟩)
                · exact ⟨k, Or.inr ⟨by simp, hk⟩, rfl⟩
                · rcases hk with hk | ⟨hp, hk⟩
                  · exact ⟨k, Or.inl hk, rfl⟩
                  · exact ⟨k, Or.inr ⟨by simp [hp], hk⟩, rfl⟩
              · rintro ⟨k, hk | ⟨_, hk⟩, rfl⟩
                · exact Or.inr ⟨k, Or.inl hk, rfl⟩
                · exact Or.inl ⟨k, hk, rfl⟩
            · refine ⟨L, by rw [List.getElem?_modify, hL]; simp [huv], hs, hi, fun x => ?_⟩
              rw [hm x]
              constructor
              · rintro ⟨k, hk | ⟨hp, hk⟩, rfl⟩
                · exact ⟨k, Or.inl hk, rfl⟩
                · exact ⟨k, Or.inr ⟨by simp [hp], hk⟩, rfl⟩
              · rintro ⟨k, hk | ⟨hp, hk⟩, rfl⟩
                · exact ⟨k, Or.inl hk, rfl⟩
                · refine ⟨k, Or.inr ⟨?_, hk⟩, rfl⟩
                  rcases List.mem_append.mp hp with hp | hp
                  · exact hp
                  · simp at hp; exact absurd hp.symm huv
          have := ihu (pre ++ [u]) _ hl' step
          simpa [List.append_assoc] using this
      have h0 : EntryIs xyz s acc v (fun k => InRing done v k ∨ (v ∈ ([] : List Nat) ∧ k ∈ cell)) := by
        obtain ⟨L, hL, hs, hi, hm⟩ := h
        exact ⟨L, hL, hs, hi, fun x => by rw [hm x]; simp⟩
      obtain ⟨il, ie⟩ := inner cell [] acc hlen h0
      have := ih (done ++ [cell]) _ il (by
        obtain ⟨L, hL, hs, hi, hm⟩ := ie
        refine ⟨L, hL, hs, hi, fun x => ?_⟩
        rw [hm x]
        constructor
        · rintro ⟨k, hk | ⟨hv', hk⟩, rfl⟩
          · obtain ⟨c, hc, h1, h2⟩ := hk
            exact ⟨k, ⟨c, by simp [hc], h1, h2⟩, rfl⟩
          · exact ⟨k, ⟨cell, by simp, by simpa using hv', hk⟩, rfl⟩
        · rintro ⟨k, ⟨c, hc, h1, h2⟩, rfl⟩
          rcases List.mem_append.mp hc with hc | hc
          · exact ⟨k, Or.inl ⟨c, hc, h1, h2⟩, rfl⟩
          · simp at hc; subst hc
            exact ⟨k, Or.inr ⟨by simpa using h1, h2⟩, rfl⟩)
      simpa [List.append_assoc] using this
  have := key cells [] (List.replicate xyz.length []) (by simp) (by
    refine ⟨[], by simp [hv], by simp [SortedG], by intro x hx; simp at hx, fun x => ?_⟩
    simp [InRing])
  simpa using this

/-! ### the owner's cloud, re-keyed by global id, is the serial cloud -/

/-- a local item re-keyed by global id is the global item -/
theorem relab_item (gxyz : List (V3 ℝ)) (gs : List ℝ) (l2g : List Nat) (k : Nat) (hk : k < l2g.length) :
    ({ itemOf (l2g.map (xyzAt gxyz)) (l2g.map fun g => gs.getD g 0) k with
        g := ((l2g.getD (itemOf (l2g.map (xyzAt gxyz)) (l2g.map fun g => gs.getD g 0) k).g.toNat 0 : Nat) : Int) } :
      Item ℝ) = itemOf gxyz gs (gOf l2g k) := by
  have hx : (l2g.map (xyzAt gxyz)).getD k V3.zero = gxyz.getD (gOf l2g k) V3.zero := by
    have := xyzAt_map l2g (xyzAt gxyz) k hk
    simpa [xyzAt] using this
  have hs : (l2g.map fun g => gs.getD g 0).getD k 0 = gs.getD (gOf l2g k) 0 := by
    have := sAt_map l2g gs k hk
    simpa [sAt] using this
  simp only [itemOf, hx, hs, Int.toNat_natCast, gOf]

/-- `relabel` of a sorted cloud of local items whose ids are stored vertices -/
theorem relabel_items (gxyz : List (V3 ℝ)) (gs : List ℝ) (l2g : List Nat) (L : List (Item ℝ))
    (hi : AllItems (l2g.map (xyzAt gxyz)) (l2g.map fun g => gs.getD g 0) L)
    (hr : ∀ x ∈ L, x.g.toNat < l2g.length) :
    SortedG (relabel l2g L) ∧ ∀ x, x ∈ relabel l2g L ↔
      ∃ k : Nat, itemOf (l2g.map (xyzAt gxyz)) (l2g.map fun g => gs.getD g 0) k ∈ L ∧ x = itemOf gxyz gs (gOf l2g k) := by
  have e : L.map (fun it => ({ it with g := ((l2g.getD it.g.toNat 0 : Nat) : Int) } : Item ℝ)) =
      (L.map fun it => gOf l2g it.g.toNat).map (itemOf gxyz gs) := by
    rw [List.map_map]
    apply List.map_congr_left
    intro x hx
    obtain ⟨k, rfl⟩ := hi x hx
    have hk : k < l2g.length := by simpa [itemOf] using hr _ hx
    rw [relab_item gxyz gs l2g k hk]
    simp [itemOf]
  unfold relabel
  rw [e]
  obtain ⟨s1, _, s3⟩ := storeAll_items (xyz := gxyz) (s := gs) (L.map fun it => gOf l2g it.g.toNat) []
    (by simp [SortedG]) (by intro x hx; simp at hx)
  refine ⟨s1, fun x => ?_⟩
  rw [s3 x]
  constructor
  · rintro (⟨n, hn, rfl⟩ | h)
    · obtain ⟨y, hy, rfl⟩ := List.mem_map.mp hn
      obtain ⟨k, rfl⟩ := hi y hy
      exact ⟨k, hy, by simp [itemOf]⟩
    · simp at h
  · rintro ⟨k, hk, rfl⟩
    exact Or.inl ⟨gOf l2g k, List.mem_map.mpr ⟨_, hk, by simp [itemOf]⟩, rfl⟩

theorem mem_map_gOf {l2g : List Nat} (hnd : l2g.Nodup) {cell : List Nat} (hc : ∀ v ∈ cell, v < l2g.length) {i : Nat}
    (hi : i < l2g.length) : gOf l2g i ∈ cell.map (gOf l2g) ↔ i ∈ cell := by
  constructor
  · intro h
    obtain ⟨k, hk, e⟩ := List.mem_map.mp h
    rw [← gOf_inj hnd k i (hc k hk) hi e]; exact hk
  · intro h; exact List.mem_map.mpr ⟨i, h, rfl⟩

/-- **the one-layer cloud an owner builds is the serial cloud**: with every cell (tet, or triangle in 2-D) around the
    owned vertex stored, `ref_recon_local_immediate_cloud` on the rank's local mesh, keyed by global id, gives literally
    the list the serial code builds on the global mesh — the same points in the same (global-id) order -/
theorem localCloud_owned_eq_serial (twod : Bool) (gxyz : List (V3 ℝ)) (gs : List ℝ) (gcells : List Cell) (r : Rank)
    (me i : Nat) (hnd : r.l2g.Nodup) (hi : i < r.l2g.length) (hown : r.owned me i = true)
    (hwf : ∀ cell ∈ kxCells twod r.cells, ∀ v ∈ cell, v < r.l2g.length)
    (hgr : ∀ k, k < r.l2g.length → gOf r.l2g k < gxyz.length)
    (hcomp : (((kxCells twod r.cells).map (·.map (gOf r.l2g))).filter (·.contains (gOf r.l2g i))).Perm
      ((kxCells twod gcells).filter (·.contains (gOf r.l2g i)))) :
    (localClouds twod gxyz me r (r.restrict 0 gs))[i]? =
      (oneLayer gxyz gs (kxCells twod gcells))[gOf r.l2g i]? := by
  set lx := r.l2g.map (xyzAt gxyz) with hlx
  set ls := r.l2g.map (fun g => gs.getD g 0) with hls
  have hlxlen : lx.length = r.l2g.length := by simp [hlx]
  obtain ⟨L, hL, hLs, hLi, hLm⟩ := oneLayer_entry lx ls (kxCells twod r.cells) i (by rw [hlxlen]; exact hi)
  obtain ⟨S, hS, hSs, _, hSm⟩ := oneLayer_entry gxyz gs (kxCells twod gcells) (gOf r.l2g i) (hgr i hi)
  have hloc : (localClouds twod gxyz me r (r.restrict 0 gs))[i]? = some (relabel r.l2g L) := by
    unfold localClouds
    rw [List.getElem?_mapIdx]
    have : r.xyz gxyz = lx := rfl
    rw [this, restrict_eq, ← hls, hL]
    simp [hown]
  rw [hloc, hS]
  congr 1
  have hrange : ∀ x ∈ L, x.g.toNat < r.l2g.length := by
    intro x hx
    obtain ⟨k, ⟨cell, hc, _, hk⟩, rfl⟩ := (hLm x).mp hx
    simpa [itemOf] using hwf cell hc k hk
  obtain ⟨r1, r2⟩ := relabel_items gxyz gs r.l2g L hLi hrange
  apply sorted_ext r1 hSs
  intro x
  rw [r2 x, hSm x]
  constructor
  · rintro ⟨k, hk, rfl⟩
    obtain ⟨k', ⟨cell, hc, hic, hkc⟩, e⟩ := (hLm _).mp hk
    have hkk : k = k' := by
      have := congrArg Item.g e
      simp only [itemOf] at this
      exact_mod_cast this
    subst hkk
    refine ⟨gOf r.l2g k, ⟨cell.map (gOf r.l2g), ?_, ?_, List.mem_map.mpr ⟨k, hkc, rfl⟩⟩, rfl⟩
    · have hm : cell.map (gOf r.l2g) ∈ ((kxCells twod r.cells).map (·.map (gOf r.l2g))).filter
          (·.contains (gOf r.l2g i)) := by
        rw [List.mem_filter]
        refine ⟨List.mem_map.mpr ⟨cell, hc, rfl⟩, ?_⟩
        simp only [List.contains_iff_mem]
        exact List.mem_map.mpr ⟨i, hic, rfl⟩
      exact (List.mem_filter.mp (hcomp.subset hm)).1
    · exact List.mem_map.mpr ⟨i, hic, rfl⟩
  · rintro ⟨n, ⟨gc, hgc, hg1, hg2⟩, rfl⟩
    have hm : gc ∈ (kxCells twod gcells).filter (·.contains (gOf r.l2g i)) := by
      rw [List.mem_filter]
      exact ⟨hgc, by simpa using hg1⟩
    have hm' := hcomp.symm.subset hm
    obtain ⟨hm1, _⟩ := List.mem_filter.mp hm'
    obtain ⟨cell, hc, rfl⟩ := List.mem_map.mp hm1
    obtain ⟨k, hkc, rfl⟩ := List.mem_map.mp hg2
    have hic : i ∈ cell := (mem_map_gOf hnd (hwf cell hc) hi).mp hg1
    exact ⟨k, (hLm _).mpr ⟨k, ⟨cell, hc, hic, hkc⟩, rfl⟩, rfl⟩

end Refine.ReconParCloud
