import Refine.Model.PhysDist
import Refine.Lemmas.ContainersListDict

/-!
  The wall selection (`isWallId`, `localWall`) and the bc-tag parsers (`scanInt`, `fgets`, `readMapbc`,
  `parseTags`) of `Refine.Model.PhysDist`.
-/
namespace Refine.Lemmas.PhysDist
open Refine Refine.Model Refine.Model.Geom Refine.Model.PhysDist

/-! ## the bc dict -/

/-- the generated predicate is membership in the generated list -/
theorem wallDistanceBc_iff (bc : Int) :
    Refine.Gen.PhysBc.wallDistanceBc bc = true ↔ bc ∈ Refine.Gen.PhysBc.viscousCodes := by
  simp [Refine.Gen.PhysBc.wallDistanceBc, Refine.Gen.PhysBc.viscousCodes, or_assoc]

/-- an id is a wall iff the dict maps it to a viscous code (an absent id keeps `REF_EMPTY`, which is none) -/
theorem isWallId_iff {d : RDict} (h : RDict.Inv d) (id : Int) :
    isWallId d id = true ↔ ∃ bc, RDict.lookup d id = some bc ∧ bc ∈ Refine.Gen.PhysBc.viscousCodes := by
  unfold isWallId
  rw [RDict.valueOf_spec h id]
  cases hl : RDict.lookup d id with
  | none =>
    simp only [reduceCtorEq, false_and, exists_false, iff_false]
    rw [wallDistanceBc_iff]
    decide
  | some bc =>
    simp only [Option.some.injEq, exists_eq_left']
    exact wallDistanceBc_iff bc

/-- the finite map after storing the pairs in order (later pairs win) -/
def updAll (m : Int → Option Int) (kvs : List (Int × Int)) : Int → Option Int :=
  kvs.foldl (fun m kv => fun k' => if k' = kv.1 then some kv.2 else m k') m

theorem storeAll_spec (d : RDict) (h : RDict.Inv d) (kvs : List (Int × Int)) :
    RDict.Inv (kvs.foldl (fun d kv => (d.store kv.1 kv.2).1) d) ∧
    ∀ k, RDict.lookup (kvs.foldl (fun d kv => (d.store kv.1 kv.2).1) d) k = updAll (RDict.lookup d) kvs k := by
  induction kvs generalizing d with
  | nil => exact ⟨h, fun _ => rfl⟩
  | cons kv rest ih =>
    obtain ⟨_, hinv, hl, _⟩ := RDict.store_spec h kv.1 kv.2
    obtain ⟨i1, i2⟩ := ih (d.store kv.1 kv.2).1 hinv
    refine ⟨i1, ?_⟩
    intro k
    simp only [List.foldl_cons, updAll] at i2 ⊢
    rw [i2 k]
    have : RDict.lookup (d.store kv.1 kv.2).1 = fun k' => if k' = kv.1 then some kv.2 else RDict.lookup d k' :=
      funext hl
    rw [this]

/-- the last value stored for `k` if there is one, else what was there before -/
theorem updAll_eq (m : Int → Option Int) (kvs : List (Int × Int)) (k : Int) :
    updAll m kvs k = match kvs.reverse.find? fun kv => kv.1 == k with
      | some kv => some kv.2
      | none => m k := by
  induction kvs generalizing m with
  | nil => rfl
  | cons kv rest ih =>
    have hstep : updAll m (kv :: rest) k = updAll (fun k' => if k' = kv.1 then some kv.2 else m k') rest k := rfl
    rw [hstep, ih, List.reverse_cons, List.find?_append]
    cases hf : rest.reverse.find? fun kv => kv.1 == k with
    | some x => rfl
    | none =>
      simp only [Option.none_or, List.find?_cons, List.find?_nil]
      by_cases hk : k = kv.1
      · subst hk; simp
      · have : (kv.1 == k) = false := by simp [Ne.symm hk]
        simp [hk, this]

/-! ## `fscanf("%d")` and `fgets` on concatenated input -/

theorem dropWhile_append_of_ne_nil {β : Type} (p : β → Bool) (l t : List β) (h : l.dropWhile p ≠ []) :
    (l ++ t).dropWhile p = l.dropWhile p ++ t := by
  induction l with
  | nil => simp at h
  | cons x xs ih =>
    by_cases hx : p x = true
    · simp only [List.cons_append, List.dropWhile_cons, hx, if_true] at h ⊢
      exact ih h
    · simp [List.dropWhile_cons, hx]

theorem takeWhile_append_stop {β : Type} (p : β → Bool) (l t : List β) (ht : ∀ c ∈ t.head?, p c = false) :
    (l ++ t).takeWhile p = l.takeWhile p := by
  induction l with
  | nil =>
    match t, ht with
    | [], _ => rfl
    | c :: cs, ht => simp [List.takeWhile_cons, ht c (by simp)]
  | cons x xs ih =>
    by_cases hx : p x = true
    · simp [List.takeWhile_cons, hx, ih]
    · simp [List.takeWhile_cons, hx]

theorem dropWhile_append_stop {β : Type} (p : β → Bool) (l t : List β) (ht : ∀ c ∈ t.head?, p c = false) :
    (l ++ t).dropWhile p = l.dropWhile p ++ t := by
  induction l with
  | nil =>
    match t, ht with
    | [], _ => rfl
    | c :: cs, ht => simp [List.dropWhile_cons, ht c (by simp)]
  | cons x xs ih =>
    by_cases hx : p x = true
    · simp [List.dropWhile_cons, hx, ih]
    · simp [List.dropWhile_cons, hx]

theorem signSplit_append (s t : List Char) (h : s ≠ []) :
    signSplit (s ++ t) = ((signSplit s).1, (signSplit s).2 ++ t) := by
  match s, h with
  | c :: u, _ =>
    simp only [signSplit, List.cons_append]
    split
    · rfl
    · split <;> rfl

/-- a successful `%d` on a prefix is the same `%d` on the whole input, provided the next character (if any) is not
    a digit -/
theorem scanInt_append (l t : List Char) (v : Int) (r : List Char) (h : scanInt l = some (v, r))
    (ht : ∀ c ∈ t.head?, isDigit c = false) : scanInt (l ++ t) = some (v, r ++ t) := by
  unfold scanInt at h ⊢
  have hne : l.dropWhile isSpace ≠ [] := by
    intro hnil
    simp [hnil, signSplit] at h
  rw [dropWhile_append_of_ne_nil isSpace l t hne, signSplit_append _ t hne]
  simp only
  rw [takeWhile_append_stop isDigit _ t ht, dropWhile_append_stop isDigit _ t ht]
  simp only at h
  split at h
  · cases h
  · rename_i hd
    simp only [hd, if_false]
    simp only [Option.some.injEq, Prod.mk.injEq] at h
    obtain ⟨h1, h2⟩ := h
    rw [h1, h2]
    simp

theorem signSplit_suffix (s : List Char) : (signSplit s).2 <:+ s := by
  match s with
  | [] => exact List.suffix_refl _
  | c :: u =>
    simp only [signSplit]
    split
    · exact List.suffix_cons _ _
    · split
      · exact List.suffix_cons _ _
      · exact List.suffix_refl _

/-- what `%d` leaves is a suffix of its input -/
theorem scanInt_suffix (l : List Char) (v : Int) (r : List Char) (h : scanInt l = some (v, r)) : r <:+ l := by
  unfold scanInt at h
  simp only at h
  split at h
  · cases h
  · simp only [Option.some.injEq, Prod.mk.injEq] at h
    rw [← h.2]
    exact ((List.dropWhile_suffix _).trans (signSplit_suffix _)).trans (List.dropWhile_suffix _)

theorem fgetsGo_line (n : Nat) (l t : List Char) (hnl : '\n' ∉ l) (hlen : l.length < n) :
    fgetsGo n (l ++ '\n' :: t) = (l ++ ['\n'], t) := by
  induction l generalizing n with
  | nil =>
    match n, hlen with
    | k + 1, _ => simp [fgetsGo]
  | cons c cs ih =>
    match n, hlen with
    | k + 1, hlen =>
      have hc : (c == '\n') = false := by
        have : c ≠ '\n' := fun e => hnl (by simp [e])
        simpa using this
      simp only [List.cons_append, fgetsGo, hc, Bool.false_eq_true, if_false]
      rw [ih k (fun hm => hnl (List.mem_cons_of_mem _ hm)) (by simpa using hlen)]

theorem fgets_line (n : Nat) (l t : List Char) (hnl : '\n' ∉ l) (hlen : l.length < n) :
    fgets n (l ++ '\n' :: t) = some (l ++ ['\n'], t) := by
  unfold fgets
  have : (l ++ '\n' :: t).isEmpty = false := by cases l <;> rfl
  rw [this, fgetsGo_line n l t hnl hlen]
  rfl

/-! ## a well-formed mapbc file -/

/-- one record line (without its newline) and the two numbers it starts with -/
structure MapbcRec where
  line : List Char
  id : Int
  ty : Int

/-- the line has no newline, fits the 1023-character buffer, and starts with `id` and `type` in the sense of `%d` -/
def RecOk (r : MapbcRec) : Prop :=
  '\n' ∉ r.line ∧ r.line.length < 1023 ∧
    ∃ r1 r2, scanInt r.line = some (r.id, r1) ∧ scanInt r1 = some (r.ty, r2)

theorem mapbcLoop_records (recs : List MapbcRec) (hr : ∀ r ∈ recs, RecOk r) (tail : List Char) (d : RDict) :
    mapbcLoop recs.length (recs.flatMap (fun r => r.line ++ ['\n']) ++ tail) d
      = (recs.foldl (fun d r => (d.store r.id r.ty).1) d, Status.ok) := by
  induction recs generalizing d with
  | nil => rfl
  | cons rc rest ih =>
    obtain ⟨hnl, hlen, r1, r2, h1, h2⟩ := hr rc List.mem_cons_self
    have hnd : ∀ (more : List Char), ∀ c ∈ ('\n' :: more).head?, isDigit c = false := by
      intro more c hc
      simp only [List.head?_cons, Option.mem_def, Option.some.injEq] at hc
      subst hc
      decide
    have hs1 := scanInt_suffix _ _ _ h1
    have hs2 := scanInt_suffix _ _ _ h2
    have hsub : r2 <:+ rc.line := hs2.trans hs1
    have hnl2 : '\n' ∉ r2 := fun hm => hnl (hsub.subset hm)
    have hlen2 : r2.length < 1023 := Nat.lt_of_le_of_lt hsub.length_le hlen
    simp only [List.length_cons, List.flatMap_cons, List.append_assoc, List.singleton_append, List.cons_append,
      List.nil_append, mapbcLoop]
    rw [scanInt_append rc.line _ rc.id r1 h1 (hnd _)]
    simp only
    rw [scanInt_append r1 _ rc.ty r2 h2 (hnd _)]
    simp only
    rw [fgets_line 1023 r2 _ hnl2 hlen2]
    simp only [List.foldl_cons]
    exact ih (fun r hr' => hr r (List.mem_cons_of_mem _ hr')) _

/-- the text of a well-formed file: a header line, then one line per record -/
def mapbcText (header : List Char) (recs : List MapbcRec) : List Char :=
  header ++ '\n' :: recs.flatMap (fun r => r.line ++ ['\n'])

/-- **`ref_phys_read_mapbc` on a well-formed file**: whatever follows the announced records, the call succeeds and
    the dict receives exactly the `(id, type)` pairs of the records, in order (a later pair for the same id wins) -/
theorem readMapbc_wellformed (d : RDict) (header : List Char) (recs : List MapbcRec) (tail : List Char)
    (hnl : '\n' ∉ header) (hlen : header.length < 1023)
    (hn : ∃ r, scanInt header = some ((recs.length : Int), r)) (hr : ∀ r ∈ recs, RecOk r) :
    readMapbc d (some (mapbcText header recs ++ tail))
      = (recs.foldl (fun d r => (d.store r.id r.ty).1) d, Status.ok) := by
  obtain ⟨r, hn⟩ := hn
  unfold readMapbc mapbcText
  simp only [List.append_assoc, List.cons_append]
  rw [fgets_line 1023 header _ hnl hlen]
  simp only
  have hd : ∀ c ∈ (['\n'] : List Char).head?, isDigit c = false := by
    intro c hc
    simp only [List.head?_cons, Option.mem_def, Option.some.injEq] at hc
    subst hc
    decide
  rw [scanInt_append header ['\n'] _ r hn hd]
  simp only [Int.toNat_natCast]
  exact mapbcLoop_records recs hr tail d

/-! ## `--viscous-tags` -/

/-- the pieces joined by single commas -/
def joinComma : List (List Char) → List Char
  | [] => []
  | [p] => p
  | p :: q :: rest => p ++ ',' :: joinComma (q :: rest)

theorem splitOnComma_single (p : List Char) (hp : ',' ∉ p) : splitOnComma p = [p] := by
  induction p with
  | nil => rfl
  | cons c cs ih =>
    have hc : (c == ',') = false := by
      have : c ≠ ',' := fun e => hp (by simp [e])
      simpa using this
    simp only [splitOnComma, hc, Bool.false_eq_true, if_false]
    rw [ih (fun hm => hp (List.mem_cons_of_mem _ hm))]

theorem splitOnComma_append (p t : List Char) (hp : ',' ∉ p) :
    splitOnComma (p ++ ',' :: t) = p :: splitOnComma t := by
  induction p with
  | nil => simp [splitOnComma]
  | cons c cs ih =>
    have hc : (c == ',') = false := by
      have : c ≠ ',' := fun e => hp (by simp [e])
      simpa using this
    simp only [List.cons_append, splitOnComma, hc, Bool.false_eq_true, if_false]
    rw [ih (fun hm => hp (List.mem_cons_of_mem _ hm))]

theorem splitOnComma_join (pieces : List (List Char)) (hne : pieces ≠ []) (hp : ∀ p ∈ pieces, ',' ∉ p) :
    splitOnComma (joinComma pieces) = pieces := by
  match pieces, hne with
  | [p], _ => exact splitOnComma_single p (hp p (by simp))
  | p :: q :: rest, _ =>
    simp only [joinComma]
    rw [splitOnComma_append p _ (hp p (by simp)),
      splitOnComma_join (q :: rest) (by simp) (fun x hx => hp x (List.mem_cons_of_mem _ hx))]

/-- `strtok` on a list of non-empty comma-free pieces joined by commas gives the pieces back -/
theorem splitComma_join (pieces : List (List Char)) (hp : ∀ p ∈ pieces, ',' ∉ p ∧ p ≠ []) :
    splitComma (joinComma pieces) = pieces := by
  unfold splitComma
  by_cases hne : pieces = []
  · subst hne; rfl
  · rw [splitOnComma_join pieces hne (fun p h => (hp p h).1)]
    apply List.filter_eq_self.mpr
    intro p h
    have := (hp p h).2
    cases p with
    | nil => exact absurd rfl this
    | cons _ _ => rfl

/-- **`ref_phys_parse_tags`**: every piece of a well-formed list is stored with the generated type (4000) -/
theorem parseTags_join (d : RDict) (pieces : List (List Char)) (hp : ∀ p ∈ pieces, ',' ∉ p ∧ p ≠ []) :
    parseTags d (joinComma pieces)
      = (pieces.foldl (fun d p => (d.store (atoi p) Refine.Gen.PhysBc.tagsType).1) d, Status.ok) := by
  unfold parseTags
  rw [splitComma_join pieces hp]

/-! ## `ref_phys_local_wall` -/

section LocalWall
variable {α : Type} [Inhabited α]

theorem localWall_mem (twod : Bool) (dict : RDict) (r : PRank α) (e : Elem α) :
    e ∈ localWall twod dict r ↔
      if twod then ∃ c ∈ r.edg, isWallId dict c.id = true ∧ e = [cellXyz r.nodes c 0, cellXyz r.nodes c 1]
      else (∃ c ∈ r.tri, isWallId dict c.id = true ∧
              e = [cellXyz r.nodes c 0, cellXyz r.nodes c 1, cellXyz r.nodes c 2]) ∨
           (∃ c ∈ r.qua, isWallId dict c.id = true ∧
              (e = [cellXyz r.nodes c 0, cellXyz r.nodes c 1, cellXyz r.nodes c 2] ∨
               e = [cellXyz r.nodes c 0, cellXyz r.nodes c 2, cellXyz r.nodes c 3])) := by
  unfold localWall
  cases twod with
  | true =>
    simp only [if_true, List.mem_map, List.mem_filter]
    constructor
    · rintro ⟨c, ⟨hc, hw⟩, rfl⟩; exact ⟨c, hc, hw, rfl⟩
    · rintro ⟨c, hc, hw, rfl⟩; exact ⟨c, ⟨hc, hw⟩, rfl⟩
  | false =>
    simp only [Bool.false_eq_true, if_false, List.mem_append, List.mem_map, List.mem_filter, List.mem_flatMap,
      quadTris, List.mem_cons, List.not_mem_nil, or_false]
    constructor
    · rintro (⟨c, ⟨hc, hw⟩, rfl⟩ | ⟨c, ⟨hc, hw⟩, he⟩)
      · exact Or.inl ⟨c, hc, hw, rfl⟩
      · exact Or.inr ⟨c, hc, hw, he⟩
    · rintro (⟨c, hc, hw, rfl⟩ | ⟨c, hc, hw, he⟩)
      · exact Or.inl ⟨c, ⟨hc, hw⟩, rfl⟩
      · exact Or.inr ⟨c, ⟨hc, hw⟩, he⟩

theorem localWall_length (twod : Bool) (dict : RDict) (r : PRank α) :
    (localWall twod dict r).length =
      if twod then (r.edg.filter fun c => isWallId dict c.id).length
      else (r.tri.filter fun c => isWallId dict c.id).length
            + 2 * (r.qua.filter fun c => isWallId dict c.id).length := by
  unfold localWall
  cases twod with
  | true => simp
  | false =>
    simp only [Bool.false_eq_true, if_false, List.length_append, List.length_map, List.length_flatMap, quadTris]
    congr 1
    generalize (r.qua.filter fun c => isWallId dict c.id) = l
    induction l with
    | nil => rfl
    | cons c cs ih =>
      simp only [List.map_cons, List.sum_cons, List.length_cons, List.length_nil] at ih ⊢
      omega

/-- the two triangles of a wall quad share the diagonal `0–2` and together contain all four vertices -/
theorem quadTris_cover (nodes : List (PNode α)) (c : PCell) :
    ∃ t1 t2, quadTris nodes c = [t1, t2] ∧
      cellXyz nodes c 0 ∈ t1 ∧ cellXyz nodes c 2 ∈ t1 ∧ cellXyz nodes c 0 ∈ t2 ∧ cellXyz nodes c 2 ∈ t2 ∧
      cellXyz nodes c 1 ∈ t1 ∧ cellXyz nodes c 3 ∈ t2 ∧
      (∀ v, v ∈ t1 ∨ v ∈ t2 ↔ ∃ k, k < 4 ∧ v = cellXyz nodes c k) := by
  refine ⟨_, _, rfl, by simp, by simp, by simp, by simp, by simp, by simp, ?_⟩
  intro v
  simp only [List.mem_cons, List.not_mem_nil, or_false]
  constructor
  · rintro ((rfl | rfl | rfl) | (rfl | rfl | rfl))
    · exact ⟨0, by omega, rfl⟩
    · exact ⟨1, by omega, rfl⟩
    · exact ⟨2, by omega, rfl⟩
    · exact ⟨0, by omega, rfl⟩
    · exact ⟨2, by omega, rfl⟩
    · exact ⟨3, by omega, rfl⟩
  · rintro ⟨k, hk, rfl⟩
    have : k = 0 ∨ k = 1 ∨ k = 2 ∨ k = 3 := by omega
    rcases this with rfl | rfl | rfl | rfl
    · exact Or.inl (Or.inl rfl)
    · exact Or.inl (Or.inr (Or.inl rfl))
    · exact Or.inl (Or.inr (Or.inr rfl))
    · exact Or.inr (Or.inr (Or.inr rfl))

end LocalWall

end Refine.Lemmas.PhysDist
