import Refine.Props.C10Gradation
import Refine.Model.MetricPipe

/-!
  Helper lemmas for `Props/C10Pipe.lean`: the shape "the last operation is the exact rescale", the loop of
  `ref_metric_buffer_at_complexity` seen from its last relaxation, SPD of the buffer cap, and the facts about
  `ref_args_find` used by the option theorems.
-/
namespace Refine.Lemmas.MetricPipe
open Refine Refine.Scalar Refine.ScalarReal Refine.Model.Matrix Refine.Model.Metric Refine.Model.Gradation
open Refine.Model.MetricPipe
open Refine.Model.Recon (Cell)
open Refine.Model.Geom (V3)
open Refine.Props.C10 Refine.Props.C10Gradation

/-- the field `out` is what `ref_metric_set_complexity`'s block returns on some field `g` that is embedded on a
    2-D grid: the shape every modelled driver ends with -/
def EndsWithRescale (twod : Bool) (owned : Nat → Bool) (xyz : List (V3 ℝ)) (cells : List Cell) (target : ℝ)
    (out : List (M6 ℝ)) : Prop :=
  ∃ g, setComplexity twod owned xyz g cells target = .ok out ∧ (twod = true → ∀ m ∈ g, IsEmbedded m)

theorem EndsWithRescale.embedded {owned : Nat → Bool} {xyz : List (V3 ℝ)} {cells : List Cell} {target : ℝ}
    {out : List (M6 ℝ)} (h : EndsWithRescale true owned xyz cells target out) : ∀ m ∈ out, IsEmbedded m := by
  obtain ⟨g, hs, _⟩ := h
  intro m hm
  rw [setComplexity_out hs, List.mem_map] at hm
  obtain ⟨m0, _, rfl⟩ := hm
  exact rescaleNode_true_embedded _ _

theorem EndsWithRescale.complexity {twod : Bool} {owned : Nat → Bool} {xyz : List (V3 ℝ)} {cells : List Cell} {target : ℝ}
    {out : List (M6 ℝ)} (h : EndsWithRescale twod owned xyz cells target out) (ht : 0 < target)
    (hc : ∀ g, setComplexity twod owned xyz g cells target = .ok out → 0 < complexity owned xyz g cells)
    (hdim : twod = !(haveVolCells owned cells)) : complexity owned xyz out cells = target := by
  obtain ⟨g, hs, he⟩ := h
  exact setComplexity_exact twod owned xyz g out cells target hs (hc g hs) ht hdim he

/-- the buffer loop seen from its last relaxation -/
theorem bufLoop_succ_last (twod : Bool) (owned : Nat → Bool) (xyz : List (V3 ℝ)) (cells : List Cell) (target : ℝ)
    (n : Nat) (metric out : List (M6 ℝ)) (h : bufLoop twod owned xyz cells target (n + 1) metric = .ok out) :
    ∃ prev, bufLoop twod owned xyz cells target n metric = .ok prev ∧
      bufRelax twod owned xyz cells target prev = .ok out := by
  induction n generalizing metric with
  | zero =>
    unfold bufLoop at h
    cases h1 : bufRelax twod owned xyz cells target metric with
    | error e => rw [h1] at h; cases h
    | ok m1 =>
      rw [h1] at h
      unfold bufLoop at h
      injection h with h
      subst h
      exact ⟨metric, by unfold bufLoop; rfl, h1⟩
  | succ n ih =>
    unfold bufLoop at h
    cases h1 : bufRelax twod owned xyz cells target metric with
    | error e => rw [h1] at h; cases h
    | ok m1 =>
      rw [h1] at h
      obtain ⟨prev, hp, hr⟩ := ih m1 h
      refine ⟨prev, ?_, hr⟩
      unfold bufLoop
      rw [h1]
      exact hp

theorem bufRelax_split {twod : Bool} {owned : Nat → Bool} {xyz : List (V3 ℝ)} {cells : List Cell} {target : ℝ}
    {metric out : List (M6 ℝ)} (h : bufRelax twod owned xyz cells target metric = .ok out) :
    ∃ buffered, buffer xyz metric = .ok buffered ∧
      setComplexity twod owned xyz (reEmbed twod buffered) cells target = .ok out := by
  unfold bufRelax at h
  cases h1 : buffer xyz metric with
  | error e => rw [h1] at h; cases h
  | ok b => rw [h1] at h; exact ⟨b, rfl, h⟩

theorem reEmbed_true_embedded (f : List (M6 ℝ)) : ∀ m ∈ reEmbed true f, IsEmbedded m :=
  (gradationSweep_twod_embed [] f).1

theorem reEmbed_spd (twod : Bool) (f : List (M6 ℝ)) (h : ∀ m ∈ f, SPD m) : ∀ m ∈ reEmbed twod f, SPD m := by
  cases twod with
  | false => rw [reEmbed_false]; exact h
  | true => exact (gradationSweep_twod_embed [] f).2.1 h

/-! ### SPD of the buffer cap -/

/-- positive eigenvalues returned by every successful decomposition of the field's tensors (what an exact
    decomposition of an SPD tensor gives; the frame's orthonormality is proved, the exactness is not) -/
def EigPos (metric : List (M6 ℝ)) : Prop :=
  ∀ m ∈ metric, ∀ d, diagM m = .ok d → 0 < d.l0 ∧ 0 < d.l1 ∧ 0 < d.l2

theorem bufferNode_spd {rmax xmax : ℝ} {p : V3 ℝ} {m out : M6 ℝ}
    (hpos : ∀ d, diagM m = .ok d → 0 < d.l0 ∧ 0 < d.l1 ∧ 0 < d.l2)
    (h : bufferNode rmax xmax p m = .ok out) : SPD out := by
  unfold bufferNode at h
  cases hd : diagM m with
  | error e => rw [hd] at h; cases h
  | ok d =>
    rw [hd] at h
    dsimp only at h
    have ho := diagM_orthonormal' m d hd
    obtain ⟨p0, p1, p2⟩ := hpos d hd
    split_ifs at h with hg
    · injection h with h
      subst h
      have hne : bufferHmin rmax xmax p * bufferHmin rmax xmax p ≠ 0 := by
        simp only [mul_eq] at hg
        exact divisible_ne_zero hg
      have h2 : 0 < bufferHmin rmax xmax p * bufferHmin rmax xmax p :=
        lt_of_le_of_ne (mul_self_nonneg _) (Ne.symm hne)
      have he : (0 : ℝ) < 1 / (bufferHmin rmax xmax p * bufferHmin rmax xmax p) := by positivity
      apply formM_spd (orthonormal_mapEig _ ho)
      simp only [mapEig, cmin_eq, one_eq, div_eq, mul_eq]
      exact ⟨lt_min p0 he, lt_min p1 he, lt_min p2 he⟩
    · injection h with h
      subst h
      exact formM_spd ho ⟨p0, p1, p2⟩

theorem bufferGo_spd (rmax xmax : ℝ) (ps : List (V3 ℝ)) (ms out : List (M6 ℝ)) (hpos : EigPos ms)
    (h : bufferGo rmax xmax ps ms = .ok out) : ∀ m ∈ out, SPD m := by
  induction ps generalizing ms out with
  | nil =>
    unfold bufferGo at h
    injection h with h; subst h; intro m hm; cases hm
  | cons p ps ih =>
    cases ms with
    | nil => unfold bufferGo at h; injection h with h; subst h; intro m hm; cases hm
    | cons m0 ms =>
      unfold bufferGo at h
      cases hn : bufferNode rmax xmax p m0 with
      | error e => rw [hn] at h; cases h
      | ok x =>
        rw [hn] at h
        cases hg : bufferGo rmax xmax ps ms with
        | error e => rw [hg] at h; cases h
        | ok xs =>
          rw [hg] at h
          injection h with h; subst h
          intro m hm
          rcases List.mem_cons.mp hm with rfl | hm
          · exact bufferNode_spd (hpos m0 (List.mem_cons_self ..)) hn
          · exact ih ms xs (fun m hm => hpos m (List.mem_cons_of_mem _ hm)) hg m hm

theorem buffer_spd (xyz : List (V3 ℝ)) (metric out : List (M6 ℝ)) (hpos : EigPos metric)
    (h : buffer xyz metric = .ok out) : ∀ m ∈ out, SPD m :=
  bufferGo_spd _ _ _ _ _ hpos h

/-! ### `ref_args_find` -/

theorem argsFind_go_none (args : List String) (t : String) (i : Nat) :
    argsFind.go t args i = none ↔ t ∉ args := by
  induction args generalizing i with
  | nil => simp [argsFind.go]
  | cons a rest ih =>
    unfold argsFind.go
    by_cases h : a = t
    · simp [h]
    · have h' : (a == t) = false := by simpa using h
      simp only [h', Bool.false_eq_true, if_false, List.mem_cons, not_or]
      rw [ih]
      constructor
      · intro hr; exact ⟨fun e => h e.symm, hr⟩
      · intro hr; exact hr.2

theorem argsFind_none_iff (args : List String) (t : String) : argsFind args t = none ↔ t ∉ args := by
  unfold argsFind
  exact argsFind_go_none args t 0

end Refine.Lemmas.MetricPipe
