import Refine.Lemmas.SubdivChain

/-!
  The children of every tet pattern of `ref_subdiv_split_tet`, written out for a symbolic tet `(a,b,c,d)`.
  GENERATED from the model (`Scratch`-style `#eval` of `splitTetChildren` on atom indices); each equation is
  re-checked by `rfl` against `Refine.Model.Subdiv.splitTetChildren`, so a change of the model breaks this file.
-/
namespace Refine.Lemmas.Subdiv
open Refine.Model.Subdiv
open Refine.Model.Cavity (Tet)

theorem kids_0 (btw : Int → Int → Int) (a b c d : Int) :
    keepOr ⟨a, b, c, d⟩ ((splitTetChildren btw 0 ⟨a, b, c, d⟩).getD []) = [⟨a, b, c, d⟩] := rfl

theorem kids_1 (btw : Int → Int → Int) (a b c d : Int) :
    keepOr ⟨a, b, c, d⟩ ((splitTetChildren btw 1 ⟨a, b, c, d⟩).getD []) =
      [⟨btw a b, b, c, d⟩, ⟨a, btw a b, c, d⟩] := rfl

theorem kids_2 (btw : Int → Int → Int) (a b c d : Int) :
    keepOr ⟨a, b, c, d⟩ ((splitTetChildren btw 2 ⟨a, b, c, d⟩).getD []) =
      [⟨btw a c, b, c, d⟩, ⟨a, b, btw a c, d⟩] := rfl

theorem kids_4 (btw : Int → Int → Int) (a b c d : Int) :
    keepOr ⟨a, b, c, d⟩ ((splitTetChildren btw 4 ⟨a, b, c, d⟩).getD []) =
      [⟨btw a d, b, c, d⟩, ⟨a, b, c, btw a d⟩] := rfl

theorem kids_8 (btw : Int → Int → Int) (a b c d : Int) :
    keepOr ⟨a, b, c, d⟩ ((splitTetChildren btw 8 ⟨a, b, c, d⟩).getD []) =
      [⟨a, btw b c, c, d⟩, ⟨a, b, btw b c, d⟩] := rfl

theorem kids_16 (btw : Int → Int → Int) (a b c d : Int) :
    keepOr ⟨a, b, c, d⟩ ((splitTetChildren btw 16 ⟨a, b, c, d⟩).getD []) =
      [⟨a, btw b d, c, d⟩, ⟨a, b, c, btw b d⟩] := rfl

theorem kids_32 (btw : Int → Int → Int) (a b c d : Int) :
    keepOr ⟨a, b, c, d⟩ ((splitTetChildren btw 32 ⟨a, b, c, d⟩).getD []) =
      [⟨a, b, btw c d, d⟩, ⟨a, b, c, btw c d⟩] := rfl

theorem kids_11 (btw : Int → Int → Int) (a b c d : Int) :
    keepOr ⟨a, b, c, d⟩ ((splitTetChildren btw 11 ⟨a, b, c, d⟩).getD []) =
      [⟨a, btw a b, btw a c, d⟩, ⟨btw b a, b, btw b c, d⟩, ⟨btw c a, btw c b, c, d⟩, ⟨btw a b, btw b c, btw c a, d⟩] := rfl

theorem kids_56 (btw : Int → Int → Int) (a b c d : Int) :
    keepOr ⟨a, b, c, d⟩ ((splitTetChildren btw 56 ⟨a, b, c, d⟩).getD []) =
      [⟨d, btw d c, btw d b, a⟩, ⟨btw c d, c, btw c b, a⟩, ⟨btw b d, btw b c, b, a⟩, ⟨btw d c, btw c b, btw b d, a⟩] := rfl

theorem kids_38 (btw : Int → Int → Int) (a b c d : Int) :
    keepOr ⟨a, b, c, d⟩ ((splitTetChildren btw 38 ⟨a, b, c, d⟩).getD []) =
      [⟨c, btw c d, btw c a, b⟩, ⟨btw d c, d, btw d a, b⟩, ⟨btw a c, btw a d, a, b⟩, ⟨btw c d, btw d a, btw a c, b⟩] := rfl

theorem kids_21 (btw : Int → Int → Int) (a b c d : Int) :
    keepOr ⟨a, b, c, d⟩ ((splitTetChildren btw 21 ⟨a, b, c, d⟩).getD []) =
      [⟨b, btw b a, btw b d, c⟩, ⟨btw a b, a, btw a d, c⟩, ⟨btw d b, btw d a, d, c⟩, ⟨btw b a, btw a d, btw d b, c⟩] := rfl

theorem kids_63 (btw : Int → Int → Int) (a b c d : Int) :
    keepOr ⟨a, b, c, d⟩ ((splitTetChildren btw 63 ⟨a, b, c, d⟩).getD []) =
      [⟨btw a b, btw a d, btw a c, a⟩, ⟨btw a b, btw b c, btw b d, b⟩, ⟨btw a c, btw c d, btw b c, c⟩, ⟨btw a d, btw b d, btw c d, d⟩, ⟨btw a b, btw c d, btw a c, btw a d⟩, ⟨btw a b, btw c d, btw a d, btw b d⟩, ⟨btw a b, btw c d, btw b d, btw b c⟩, ⟨btw a b, btw c d, btw b c, btw a c⟩] := rfl

end Refine.Lemmas.Subdiv
