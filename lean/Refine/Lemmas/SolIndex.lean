import Refine.Model.Sol

/-!
  Entry `g` of a field file belongs to vertex `g`: after one pass over the rows (`scatterRows`, which the chunk loop
  equals by `Refine.Lemmas.Sol.readLoop_eq`) the local node that `ref_node_local` returns for global `g` holds row `g`.
-/
namespace Refine.Lemmas.Sol
open Refine.Model.Sol

theorem length_setRow (nnode : Int) (gl : List Nat) (g : Int) (row : Row) (arr : List Row) :
    (setRow false nnode gl g row arr).length = arr.length := by
  unfold setRow
  cases refNodeLocal gl g <;> simp

/-- rows of other globals do not touch local `l`; the row of global `g` is stored there -/
theorem scatterRows_getElem? (nnode : Int) (gl : List Nat) (g : Int) (l : Nat)
    (hloc : refNodeLocal gl g = some l) (hinj : ∀ g', refNodeLocal gl g' = some l → g' = g) :
    ∀ (rows : List Row) (base : Int) (arr : List Row), l < arr.length →
      (scatterRows false nnode gl base rows arr)[l]? =
        if base ≤ g ∧ g < base + rows.length then rows[(g - base).toNat]? else arr[l]? := by
  intro rows
  induction rows with
  | nil =>
    intro base arr _
    have hneg : ¬ (base ≤ g ∧ g < base + (([] : List Row).length : Int)) := by
      simp only [List.length_nil]; omega
    simp only [scatterRows]
    rw [if_neg hneg]
  | cons row rest ih =>
    intro base arr hl
    simp only [scatterRows]
    have hl' : l < (setRow false nnode gl base row arr).length := by rw [length_setRow]; exact hl
    rw [ih (base + 1) _ hl']
    by_cases hb : base = g
    · subst hb
      have h1 : ¬ (base + 1 ≤ base ∧ base < base + 1 + (rest.length : Int)) := by omega
      have h2 : base ≤ base ∧ base < base + ((row :: rest).length : Int) := by
        simp only [List.length_cons]; push_cast; omega
      rw [if_neg h1, if_pos h2]
      simp [setRow, hloc, hl]
    · have hset : (setRow false nnode gl base row arr)[l]? = arr[l]? := by
        unfold setRow
        cases hq : refNodeLocal gl base with
        | none => simp
        | some l' =>
          have : l' ≠ l := by
            intro h
            subst h
            exact hb (hinj base hq)
          simp [List.getElem?_set_ne this]
      by_cases hin : base + 1 ≤ g ∧ g < base + 1 + (rest.length : Int)
      · have h2 : base ≤ g ∧ g < base + ((row :: rest).length : Int) := by
          simp only [List.length_cons]; push_cast; omega
        rw [if_pos hin, if_pos h2]
        have : (g - base).toNat = (g - (base + 1)).toNat + 1 := by omega
        rw [this, List.getElem?_cons_succ]
      · have h2 : ¬ (base ≤ g ∧ g < base + ((row :: rest).length : Int)) := by
          simp only [List.length_cons]; push_cast; omega
        rw [if_neg hin, if_neg h2, hset]

end Refine.Lemmas.Sol
