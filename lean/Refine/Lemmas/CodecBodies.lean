import Refine.Lemmas.CodecLayout
import Refine.Lemmas.CodecGref

/-! record-level round trips: what `ref_export_meshb` writes for vertices, cells, geometry records and
    the CAD blob is read back unchanged by the corresponding loops of `ref_import_meshb` -/
namespace Refine.Lemmas.Codec
open Refine.Model.Meshb Refine.Gen

/-- a vertex index that `ref_adj_add` takes without growing beyond the allocator cap, and (fixed
    reader) below the vertex count -/
def NodeOK (cfg : Cfg) (nnode : Int) (x : Int) : Prop :=
  0 ≤ x ∧ x ≤ 2 ^ 31 - 1 - 100 ∧ 4 * (x.toNat + 100) ≤ cfg.allocCap ∧ (cfg.checkIndex = true → x < nnode)

def CellOK (cfg : Cfg) (ci : CellInfo) (nnode : Int) (c : List Int) : Prop :=
  c.length = ci.sizePer ∧ (∀ x ∈ c.take ci.nodePer, NodeOK cfg nnode x) ∧ (∀ x ∈ c, int32 x)

theorem adjAdd_ok {cfg : Cfg} {nnode x : Int} (h : NodeOK cfg nnode x) : adjAdd cfg x = .ok () := by
  obtain ⟨h0, h1, h2, _⟩ := h
  unfold adjAdd
  rw [if_neg (by omega), if_neg (by omega), if_neg (by omega)]

theorem adjAddAll_ok {cfg : Cfg} {nnode : Int} {xs : List Int} (h : ∀ x ∈ xs, NodeOK cfg nnode x) :
    adjAddAll cfg xs = .ok () := by
  induction xs with
  | nil => rfl
  | cons x xs ih =>
    unfold adjAddAll
    rw [adjAdd_ok (h x (List.mem_cons_self ..))]
    exact ih (fun y hy => h y (List.mem_cons_of_mem _ hy))

theorem rdInts_flatMap (v : Nat) (xs : List Int) (r : Bytes) (h : ∀ x ∈ xs, int32 x) :
    rdInts v xs.length (xs.flatMap (encInt v) ++ r) = .ok (xs, r) := by
  induction xs with
  | nil => simp [rdInts]
  | cons x xs ih =>
    simp only [List.length_cons, List.flatMap_cons, List.append_assoc]
    unfold rdInts
    rw [rdInt_encInt v (h x (List.mem_cons_self ..))]
    dsimp only
    rw [ih (fun y hy => h y (List.mem_cons_of_mem _ hy))]

theorem take_append_getD {l : List Int} {n : Nat} (h : l.length = n + 1) : l.take n ++ [l.getD n 0] = l := by
  induction l generalizing n with
  | nil => simp at h
  | cons a l ih =>
    cases n with
    | zero =>
      cases l with
      | nil => simp
      | cons b l => simp at h
    | succ n =>
      simp only [List.length_cons, Nat.add_right_cancel_iff] at h
      simp only [List.take_succ_cons, List.getD_cons_succ, List.cons_append, ih h]

theorem permute_mem {p : List Nat} {L : List Int} {y : Int} (h : y ∈ permute p L) : y ∈ L ∨ y = 0 := by
  unfold permute at h
  obtain ⟨i, _, rfl⟩ := List.mem_map.1 h
  rw [List.getD_eq_getElem?_getD]
  cases hi : L[i]? with
  | none => right; simp
  | some z => left; simp; exact List.mem_of_getElem? hi

theorem cellInfos_facts : ∀ ci ∈ cellInfos, (ci.isPyr = true → ci.nodePer = 5 ∧ ci.lastId = false) := by decide

/-- the file record of a cell, as a list of integers -/
def cellRecord (ci : CellInfo) (cell : List Int) : List Int :=
  (if ci.isPyr then permute PyrPerm.exportMeshb ((cell.take ci.nodePer).map (· + 1))
   else (cell.take ci.nodePer).map (· + 1)) ++
  [if ci.lastId then cell.getD ci.nodePer 0 else CodecConsts.volumeId]

theorem encCell_eq (v : Nat) (ci : CellInfo) (cell : List Int) :
    encCell v ci cell = (cellRecord ci cell).flatMap (encInt v) := by
  unfold encCell cellRecord; rfl

theorem recordNodes_cellRecord {cfg : Cfg} {ci : CellInfo} {nnode : Int} {c : List Int}
    (hf : ci.isPyr = true → ci.nodePer = 5 ∧ ci.lastId = false) (hc : CellOK cfg ci nnode c) :
    recordNodes ci (cellRecord ci c) = c.take ci.nodePer ∧ (cellRecord ci c).length = ci.nodePer + 1 ∧
    (cellRecord ci c).drop ci.nodePer = [if ci.lastId then c.getD ci.nodePer 0 else CodecConsts.volumeId] ∧
    (cellRecord ci c).take ci.nodePer =
      (if ci.isPyr then permute PyrPerm.exportMeshb ((c.take ci.nodePer).map (· + 1))
       else (c.take ci.nodePer).map (· + 1)) := by
  obtain ⟨hl, _, _⟩ := hc
  by_cases hp : ci.isPyr = true
  · obtain ⟨h5, hid⟩ := hf hp
    have hl5 : c.length = 5 := by rw [hl]; simp [CellInfo.sizePer, h5, hid]
    match c, hl5 with
    | [a, b, c', d, e], _ =>
      simp [recordNodes, cellRecord, hp, h5, hid, permute, PyrPerm.exportMeshb, PyrPerm.importMeshb]
  · have hp' : ci.isPyr = false := by simpa using hp
    have hle : ci.nodePer ≤ c.length := by rw [hl]; unfold CellInfo.sizePer; omega
    have hlen : ((c.take ci.nodePer).map (· + 1)).length = ci.nodePer := by
      simp [List.length_take, hle]
    have ht : (cellRecord ci c).take ci.nodePer = (c.take ci.nodePer).map (· + 1) := by
      simp only [cellRecord, hp']
      exact List.take_left' hlen
    refine ⟨?_, ?_, ?_, ?_⟩
    · simp only [recordNodes, ht, List.map_map]
      have hid : ((fun x : Int => x - 1) ∘ fun x => x + 1) = id := by funext x; simp
      simp [hp', hid]
    · simp only [cellRecord, hp', List.length_append]
      rw [show (if false = true then permute PyrPerm.exportMeshb (List.map (fun x => x + 1) (List.take ci.nodePer c))
            else List.map (fun x => x + 1) (List.take ci.nodePer c)) =
            List.map (fun x => x + 1) (List.take ci.nodePer c) by simp, hlen]
      simp
    · simp only [cellRecord, hp']
      exact List.drop_left' hlen
    · simp [ht, hp']

theorem cellOfRecord_cellRecord {cfg : Cfg} {ci : CellInfo} {nnode : Int} {c : List Int}
    (hf : ci.isPyr = true → ci.nodePer = 5 ∧ ci.lastId = false) (hc : CellOK cfg ci nnode c) :
    cellOfRecord cfg ci nnode (cellRecord ci c) = .ok c := by
  obtain ⟨hrn, hlen, hdrop, htake⟩ := recordNodes_cellRecord hf hc
  obtain ⟨hl, hnodes, hint⟩ := hc
  unfold cellOfRecord
  have h1 : ¬ ((cellRecord ci c).take ci.nodePer).any (fun x => decide (x = -(2 ^ 31 : Int))) = true := by
    rw [List.any_eq_true]
    rintro ⟨x, hx, hbad⟩
    simp only [decide_eq_true_eq] at hbad
    rw [htake] at hx
    have key : ∀ y ∈ (c.take ci.nodePer).map (· + 1), (1 : Int) ≤ y := by
      intro y hy
      obtain ⟨z, hz, rfl⟩ := List.mem_map.1 hy
      have := (hnodes z hz).1; omega
    by_cases hp : ci.isPyr = true
    · simp only [hp, if_true] at hx
      rcases permute_mem hx with hm | h0
      · have := key x hm; omega
      · omega
    · have hp' : ci.isPyr = false := by simpa using hp
      simp only [hp'] at hx
      have := key x (by simpa using hx); omega
  rw [if_neg (fun h => h1 h.2), hrn]
  have h2 : ¬ (cfg.checkIndex = true ∧ (c.take ci.nodePer).any (fun x => decide (x < 0 ∨ nnode ≤ x)) = true) := by
    rintro ⟨hchk, hany⟩
    rw [List.any_eq_true] at hany
    obtain ⟨x, hx, hbad⟩ := hany
    simp only [decide_eq_true_eq] at hbad
    obtain ⟨h0, _, _, hlt⟩ := hnodes x hx
    have := hlt hchk; omega
  rw [if_neg h2, adjAddAll_ok hnodes]
  dsimp only
  rw [hdrop]
  congr 1
  by_cases hid : ci.lastId = true
  · simp only [hid, if_true]
    exact take_append_getD (by rw [hl]; simp [CellInfo.sizePer, hid])
  · have hid' : ci.lastId = false := by simpa using hid
    have hlen2 : c.length ≤ ci.nodePer := by rw [hl]; simp [CellInfo.sizePer, hid']
    simp only [hid', Bool.false_eq_true, if_false, List.append_nil]
    exact List.take_of_length_le hlen2


theorem cellRecord_int32 {cfg : Cfg} {ci : CellInfo} {nnode : Int} {c : List Int}
    (hf : ci.isPyr = true → ci.nodePer = 5 ∧ ci.lastId = false) (hc : CellOK cfg ci nnode c) :
    ∀ x ∈ cellRecord ci c, int32 x := by
  obtain ⟨hl, hnodes, hint⟩ := hc
  have key : ∀ y ∈ (c.take ci.nodePer).map (· + 1), int32 y := by
    intro y hy
    obtain ⟨z, hz, rfl⟩ := List.mem_map.1 hy
    obtain ⟨h0, h1, _, _⟩ := hnodes z hz
    unfold int32; constructor <;> omega
  intro x hx
  unfold cellRecord at hx
  rcases List.mem_append.1 hx with hx | hx
  · by_cases hp : ci.isPyr = true
    · simp only [hp, if_true] at hx
      rcases permute_mem hx with hm | h0
      · exact key x hm
      · subst h0; unfold int32; norm_num
    · have hp' : ci.isPyr = false := by simpa using hp
      simp only [hp'] at hx
      exact key x (by simpa using hx)
  · simp only [List.mem_singleton] at hx
    subst hx
    by_cases hid : ci.lastId = true
    · simp only [hid, if_true]
      rw [List.getD_eq_getElem?_getD]
      cases hi : c[ci.nodePer]? with
      | none => simp; unfold int32; norm_num
      | some z => simp; exact hint z (List.mem_of_getElem? hi)
    · have hid' : ci.lastId = false := by simpa using hid
      simp [hid', CodecConsts.volumeId]; unfold int32; norm_num

theorem rdCells_flatMap {cfg : Cfg} (v : Nat) {ci : CellInfo} {nnode : Int} (cs : List (List Int)) (r : Bytes)
    (hf : ci.isPyr = true → ci.nodePer = 5 ∧ ci.lastId = false) (hcs : ∀ c ∈ cs, CellOK cfg ci nnode c) :
    rdCells cfg v ci nnode cs.length (cs.flatMap (encCell v ci) ++ r) = .ok (cs, r) := by
  induction cs with
  | nil => simp [rdCells]
  | cons c cs ih =>
    have hc := hcs c (List.mem_cons_self ..)
    simp only [List.length_cons, List.flatMap_cons, List.append_assoc]
    unfold rdCells
    have hlen := (recordNodes_cellRecord hf hc).2.1
    rw [encCell_eq, ← hlen, rdInts_flatMap v _ _ (cellRecord_int32 hf hc)]
    dsimp only
    rw [cellOfRecord_cellRecord hf hc]
    dsimp only
    rw [ih (fun c' hc' => hcs c' (List.mem_cons_of_mem _ hc'))]

theorem rdVerts_flatMap {v : Nat} (hv : v ≠ 1) (twod : Bool) (ns : List Vertex) (r : Bytes)
    (hz : twod = true → ∀ p ∈ ns, p.z = 0) :
    rdVerts v twod ns.length (ns.flatMap (encVertex v twod) ++ r) = .ok (ns, r) := by
  induction ns with
  | nil => simp [rdVerts]
  | cons p ns ih =>
    simp only [List.length_cons, List.flatMap_cons, List.append_assoc]
    unfold rdVerts
    simp only [encVertex, List.append_assoc]
    rw [rdReal_encF64 hv]
    dsimp only
    rw [rdReal_encF64 hv]
    dsimp only
    have hid : int32 CodecConsts.vertexId := by unfold int32 CodecConsts.vertexId; norm_num
    cases twod with
    | true =>
      simp only [if_true, List.nil_append]
      rw [rdInt_encInt v hid]
      dsimp only
      rw [ih (fun h q hq => hz h q (List.mem_cons_of_mem _ hq))]
      have := hz rfl p (List.mem_cons_self ..)
      cases p; simp_all
    | false =>
      simp only [Bool.false_eq_true, if_false]
      rw [rdReal_encF64 hv]
      dsimp only
      rw [rdInt_encInt v hid]
      dsimp only
      rw [ih (fun h q hq => hz h q (List.mem_cons_of_mem _ hq))]


/-! ### geometry association records -/

def geomKey (g : GeomRec) : Int × Nat × Int := (g.node, g.type, g.id)

def GeomOK (cfg : Cfg) (nnode : Int) (g : GeomRec) : Prop :=
  g.type ≤ 2 ∧ NodeOK cfg nnode g.node ∧ int32 g.id ∧ int32 g.gref ∧
  (g.type = 0 → g.gref = g.id ∧ g.p0 = 0 ∧ g.p1 = 0) ∧ (g.type = 1 → g.p1 = 0)

theorem any_key_false {acc : List GeomRec} {node : Int} {t : Nat} {id : Int}
    (h : (node, t, id) ∉ acc.map geomKey) :
    acc.any (fun g => g.node == node && g.type == t && g.id == id) = false := by
  rw [Bool.eq_false_iff]
  intro hany
  rw [List.any_eq_true] at hany
  obtain ⟨g, hg, hm⟩ := hany
  simp only [Bool.and_eq_true, beq_iff_eq] at hm
  apply h
  rw [List.mem_map]
  exact ⟨g, hg, by simp [geomKey, hm.1.1, hm.1.2, hm.2]⟩

theorem map_key_noop {acc : List GeomRec} {node : Int} {t : Nat} {id : Int} (f : GeomRec → GeomRec)
    (h : (node, t, id) ∉ acc.map geomKey) :
    acc.map (fun g => if (g.node == node && g.type == t && g.id == id) = true then f g else g) = acc := by
  conv => rhs; rw [← List.map_id acc]
  apply List.map_congr_left
  intro g hg
  have : ¬ ((g.node == node && g.type == t && g.id == id) = true) := by
    intro hm
    simp only [Bool.and_eq_true, beq_iff_eq] at hm
    apply h
    rw [List.mem_map]
    exact ⟨g, hg, by simp [geomKey, hm.1.1, hm.1.2, hm.2]⟩
  simp [this]

theorem rdGeoms_flatMap {cfg : Cfg} (v : Nat) {t : Nat} (ht : t ≤ 2) {nnode : Int} (gs : List GeomRec) :
    ∀ (acc : List GeomRec) (r : Bytes), (∀ g ∈ gs, g.type = t ∧ GeomOK cfg nnode g) →
      ((acc ++ gs).map geomKey).Nodup →
      rdGeoms cfg v t nnode gs.length acc (gs.flatMap (encGeom v t) ++ r) = .ok (acc ++ gs, r) := by
  induction gs with
  | nil => intro acc r _ _; simp [rdGeoms]
  | cons g gs ih =>
    intro acc r hgs hnd
    obtain ⟨hty, _, hnode, hid, hgref, h0, h1⟩ := hgs g (List.mem_cons_self ..)
    have hd2i := d2i_i2d hgref
    obtain ⟨n0, n1, n2, n3⟩ := hnode
    have hn1 : int32 (g.node + 1) := by unfold int32; constructor <;> omega
    have hkey : (g.node, t, g.id) ∉ acc.map geomKey := by
      intro hmem
      rw [List.map_append, List.map_cons] at hnd
      have := (List.nodup_append.1 hnd).2.2
      exact this _ hmem _ (List.mem_cons_self ..) (by simp [geomKey, hty])
    have hrec : ((acc ++ [g] ++ gs).map geomKey).Nodup := by simpa using hnd
    have hgs' : ∀ g' ∈ gs, g'.type = t ∧ GeomOK cfg nnode g' := fun g' hg' => hgs g' (List.mem_cons_of_mem _ hg')
    simp only [List.length_cons, List.flatMap_cons, List.append_assoc]
    unfold rdGeoms
    simp only [encGeom, List.append_assoc]
    rw [rdInt_encInt v hn1]
    dsimp only
    rw [rdInt_encInt v hid]
    dsimp only
    have hnot : ¬ (g.node + 1 = -(2 ^ 31 : Int)) := by omega
    have hchk : ¬ (cfg.checkIndex = true ∧ (g.node + 1 - 1 < 0 ∨ nnode ≤ g.node + 1 - 1)) := by
      rintro ⟨hc, hbad⟩
      have := n3 hc; omega
    have hadd : adjAdd cfg (g.node + 1 - 1) = .ok () := by
      rw [show g.node + 1 - 1 = g.node by ring]
      exact adjAdd_ok (nnode := nnode) ⟨n0, n1, n2, n3⟩
    have hsimp : g.node + 1 - 1 = g.node := by ring
    have hlast := ih (acc ++ [g]) r hgs' hrec
    rw [List.append_assoc, List.singleton_append] at hlast
    rcases (by omega : t = 0 ∨ t = 1 ∨ t = 2) with rfl | rfl | rfl
    · -- node record: no parameters, no gref
      obtain ⟨e1, e2, e3⟩ := h0 hty
      simp only [Nat.lt_irrefl, if_false, List.nil_append, Nat.not_lt_zero, show ¬ (1 < 0) by omega]
      rw [if_neg (fun h => hnot h.2), if_neg hchk]
      unfold geomAdd
      rw [hsimp, any_key_false hkey]
      simp only [Bool.false_eq_true, if_false]
      rw [adjAdd_ok (nnode := nnode) ⟨n0, n1, n2, n3⟩]
      dsimp only
      have hg : ({ type := 0, id := g.id, gref := g.id, node := g.node, p0 := 0, p1 := 0 } : GeomRec) = g := by
        cases g; simp_all
      simp only [Nat.lt_irrefl, if_false, show ¬ (1 < 0) by omega, hg]
      exact hlast
    · -- edge record: one parameter, gref
      have e3 := h1 hty
      simp only [Nat.lt_irrefl, if_false, if_true, List.nil_append, Nat.zero_lt_one, Nat.lt_irrefl]
      rw [rdF64_encF64]
      dsimp only
      rw [if_neg (fun h => hnot h.2), if_neg hchk]
      unfold geomAdd
      rw [hsimp, any_key_false hkey]
      simp only [Bool.false_eq_true, if_false]
      rw [adjAdd_ok (nnode := nnode) ⟨n0, n1, n2, n3⟩]
      dsimp only
      rw [rdF64_encF64]
      dsimp only
      unfold geomSetGref
      rw [List.map_append, map_key_noop _ hkey]
      simp only [Nat.zero_lt_one, if_true, Nat.lt_irrefl, if_false, List.map_cons, List.map_nil, beq_self_eq_true,
        Bool.and_self, hd2i]
      have hg : ({ type := 1, id := g.id, gref := g.gref, node := g.node, p0 := g.p0, p1 := 0 } : GeomRec) = g := by
        cases g; simp_all
      rw [hg]
      exact hlast
    · -- face record: two parameters, gref
      simp only [if_true, Nat.zero_lt_two, Nat.one_lt_two, show (0 : Nat) < 2 by omega]
      rw [rdF64_encF64]
      dsimp only
      rw [rdF64_encF64]
      dsimp only
      rw [if_neg (fun h => hnot h.2), if_neg hchk]
      unfold geomAdd
      rw [hsimp, any_key_false hkey]
      simp only [Bool.false_eq_true, if_false]
      rw [adjAdd_ok (nnode := nnode) ⟨n0, n1, n2, n3⟩]
      dsimp only
      rw [rdF64_encF64]
      dsimp only
      unfold geomSetGref
      rw [List.map_append, map_key_noop _ hkey]
      simp only [if_true, Nat.zero_lt_two, Nat.one_lt_two, List.map_cons, List.map_nil, beq_self_eq_true,
        Bool.and_self, hd2i, show (0 : Nat) < 2 by omega]
      have hg : ({ type := 2, id := g.id, gref := g.gref, node := g.node, p0 := g.p0, p1 := g.p1 } : GeomRec) = g := by
        cases g; simp_all
      rw [hg]
      exact hlast

end Refine.Lemmas.Codec
