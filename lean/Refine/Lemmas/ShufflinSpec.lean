import Refine.Lemmas.ShufflinWorld
import Refine.Lemmas.DistGhostFull

/-!
  Lemmas for `Refine/Props/C06Shufflin.lean`, part 3: from the hypotheses on the input world to the state after the node
  phase, the sixteen cell phases, the removal of unreferenced ghosts and the ghost refresh.
-/
namespace Refine.Lemmas.ShufflinSpec
open Refine.Model.Dist Refine.Model.Shufflin Refine.Lemmas.Shufflin Refine.Lemmas.ShufflinWorld
open Refine.Model.Comm (World allSome INT_MAX RefType)

/-! ### the global mesh read off a world -/

/-- every stored copy of every vertex, rank by rank -/
def allNodes (w : World RankState) : List DNode := w.flatMap (·.nodes)

/-- the (new) part of global `g`: the part field of a stored copy -/
def partW (w : World RankState) (g : Int) : Int :=
  (((allNodes w).find? fun x => x.glob == g).map (·.part)).getD (-1)

/-- the payload of global `g`: the payload of a stored copy -/
def payW (w : World RankState) (g : Int) : List Nat :=
  (((allNodes w).find? fun x => x.glob == g).map (·.payload)).getD []

/-- `g` is a vertex of the mesh: some rank stores it -/
def Vw (w : World RankState) (g : Int) : Prop := g ∈ (allNodes w).map (·.glob)

/-- the hypotheses of `shufflin_spec` on the world `ref_migrate_shufflin` is entered with (the `part` fields hold the
    NEW partition).  `N` bounds the global ids, `ldim` is the payload length. -/
structure ShufHyp (ldim N : Nat) (w : World RankState) : Prop where
  synced : synced w = true
  nodupG : ∀ s ∈ w, (s.nodes.map (·.glob)).Nodup
  range : ∀ s ∈ w, ∀ nd ∈ s.nodes, 0 ≤ nd.part ∧ nd.part < (w.length : Int) ∧ 0 ≤ nd.glob ∧ nd.glob < (N : Int) ∧
    nd.payload.length = ldim
  agree : ∀ s ∈ w, ∀ t ∈ w, ∀ x ∈ s.nodes, ∀ y ∈ t.nodes, x.glob = y.glob → x.part = y.part ∧ x.payload = y.payload
  cellVerts : ∀ s ∈ w, ∀ c ∈ s.cells, c.group < NGROUP ∧ ∀ v ∈ c.nodes, v ∈ s.nodes.map (·.glob)
  cellsNd : ∀ s ∈ w, s.cells.Nodup
  cellsU : ∀ s ∈ w, ∀ t ∈ w, ∀ c ∈ s.cells, ∀ c' ∈ t.cells, c.group = c'.group → sameVerts c c' = true → c = c'
  size : ((max 1 ldim : Nat) : Int) * ((w.length : Int) * (N : Int)) ≤ INT_MAX

theorem mem_allNodes (w : World RankState) (nd : DNode) : nd ∈ allNodes w ↔ ∃ s ∈ w, nd ∈ s.nodes := by
  unfold allNodes; rw [List.mem_flatMap]

theorem mem_of_get {α : Type} {w : List α} {q : Nat} {s : α} (h : w[q]? = some s) : s ∈ w :=
  List.mem_of_getElem? h

section Hyp
variable {ldim N : Nat} {w : World RankState} (H : ShufHyp ldim N w)

include H in
/-- every stored copy is the canonical copy of its global -/
theorem canon_all : ∀ s ∈ w, ∀ nd ∈ s.nodes, nd.part = partW w nd.glob ∧ nd.payload = payW w nd.glob := by
  intro s hs nd hnd
  have hmem : nd ∈ allNodes w := (mem_allNodes w nd).mpr ⟨s, hs, hnd⟩
  cases hf : (allNodes w).find? (fun x => x.glob == nd.glob) with
  | none =>
    rw [List.find?_eq_none] at hf
    exact absurd (by simp) (hf nd hmem)
  | some y =>
    have hy : y ∈ allNodes w := List.mem_of_find?_eq_some hf
    have hg : y.glob = nd.glob := by simpa using List.find?_some hf
    obtain ⟨t, ht, hyt⟩ := (mem_allNodes w y).mp hy
    obtain ⟨h1, h2⟩ := H.agree s hs t ht nd hnd y hyt hg.symm
    unfold partW payW
    rw [hf]
    exact ⟨h1, h2⟩

include H in
theorem vw_facts (g : Int) (hg : Vw w g) :
    0 ≤ partW w g ∧ partW w g < (w.length : Int) ∧ 0 ≤ g ∧ g < (N : Int) ∧ (payW w g).length = ldim := by
  obtain ⟨nd, hnd, rfl⟩ := List.mem_map.mp hg
  obtain ⟨s, hs, hns⟩ := (mem_allNodes w nd).mp hnd
  obtain ⟨h1, h2, h3, h4, h5⟩ := H.range s hs nd hns
  obtain ⟨c1, c2⟩ := canon_all H s hs nd hns
  rw [← c1, ← c2]
  exact ⟨h1, h2, h3, h4, h5⟩

include H in
theorem partsInRange_true : partsInRange w = true := by
  unfold partsInRange
  rw [List.all_eq_true]
  intro s hs
  rw [List.all_eq_true]
  intro nd hnd
  obtain ⟨h1, h2, _⟩ := H.range s hs nd hnd
  simp [h1, h2]

/-- the world after `ref_migrate_shufflin_node` -/
def nodeWorld (w : World RankState) : World RankState :=
  w.mapIdx fun q s => { s with nodes := (nodesSentTo w q).foldl (ins (·.glob)) s.nodes }

theorem mem_nodesSentTo (w : World RankState) (q : Nat) (nd : DNode) :
    nd ∈ nodesSentTo w q ↔ ∃ r s, w[r]? = some s ∧ r ≠ q ∧ nd ∈ s.nodes ∧ nd.part = (q : Int) := by
  unfold nodesSentTo
  rw [mem_sent w q (fun s => s.nodes.filter fun nd => nd.part == (q : Int)) nd]
  constructor
  · rintro ⟨r, s, hs, hne, hm⟩
    rw [List.mem_filter] at hm
    exact ⟨r, s, hs, hne, hm.1, by simpa using hm.2⟩
  · rintro ⟨r, s, hs, hne, hm, hp⟩
    exact ⟨r, s, hs, hne, List.mem_filter.mpr ⟨hm, by simpa using hp⟩⟩

include H in
theorem nodePhase_eq : nodePhase w = some (nodeWorld w) := by
  unfold nodePhase
  rw [partsInRange_true H]
  simp only [Bool.not_true, Bool.false_eq_true, if_false, nodeWorld]
  congr 1
  apply mapIdx_congr'
  intro q s hs
  have hcan : Canon (partW w) (payW w) s.nodes := fun nd hnd => canon_all H s (mem_of_get hs) nd hnd
  have hrs : ∀ nd ∈ nodesSentTo w q, nd.part = (q : Int) ∧ nd.part = partW w nd.glob ∧ nd.payload = payW w nd.glob := by
    intro nd hnd
    obtain ⟨r, t, ht, _, hm, hp⟩ := (mem_nodesSentTo w q nd).mp hnd
    obtain ⟨c1, c2⟩ := canon_all H t (mem_of_get ht) nd hm
    exact ⟨hp, c1, c2⟩
  rw [(foldl_recvNode (partW w) (payW w) q (nodesSentTo w q) hrs s.nodes hcan).1]

theorem nodeWorld_get (w : World RankState) (q : Nat) (s' : RankState) (h : (nodeWorld w)[q]? = some s') :
    ∃ s, w[q]? = some s ∧ s' = { s with nodes := (nodesSentTo w q).foldl (ins (·.glob)) s.nodes } := by
  unfold nodeWorld at h
  rw [List.getElem?_mapIdx] at h
  cases hq : w[q]? with
  | none => rw [hq] at h; cases h
  | some s => rw [hq] at h; exact ⟨s, rfl, by simpa using h.symm⟩

include H in
theorem uniq_allC : Uniq (AllC w) := by
  rintro x y ⟨r, s, hs, hx⟩ ⟨r', t, ht, hy⟩ hg hv
  exact H.cellsU s (mem_of_get hs) t (mem_of_get ht) x hx y hy hg hv

include H in
theorem allC_verts : ∀ c, AllC w c → ∀ v ∈ c.nodes, Vw w v := by
  rintro c ⟨r, s, hs, hc⟩ v hv
  obtain ⟨nd, hnd, rfl⟩ := List.mem_map.mp ((H.cellVerts s (mem_of_get hs) c hc).2 v hv)
  exact List.mem_map.mpr ⟨nd, (mem_allNodes w nd).mpr ⟨s, mem_of_get hs, hnd⟩, rfl⟩

include H in
/-- after the node phase the invariant of the cell phases holds (`S` = the cells stored anywhere, `Vg` = the vertices
    stored anywhere in the input world) -/
theorem nodeWorld_inv : WInv (partW w) (payW w) (AllC w) (Vw w) (nodeWorld w) := by
  have hrs : ∀ q, ∀ nd ∈ nodesSentTo w q,
      nd.part = (q : Int) ∧ nd.part = partW w nd.glob ∧ nd.payload = payW w nd.glob ∧ Vw w nd.glob := by
    intro q nd hnd
    obtain ⟨r, t, ht, _, hm, hp⟩ := (mem_nodesSentTo w q nd).mp hnd
    obtain ⟨c1, c2⟩ := canon_all H t (mem_of_get ht) nd hm
    exact ⟨hp, c1, c2, List.mem_map.mpr ⟨nd, (mem_allNodes w nd).mpr ⟨t, mem_of_get ht, hm⟩, rfl⟩⟩
  refine ⟨?_, ?_, ?_, ?_, ?_⟩
  · intro q s' h
    obtain ⟨s, hs, rfl⟩ := nodeWorld_get w q s' h
    have hcan : Canon (partW w) (payW w) s.nodes := fun nd hnd => canon_all H s (mem_of_get hs) nd hnd
    have h2 := (foldl_recvNode (partW w) (payW w) q (nodesSentTo w q)
      (fun nd hnd => ⟨(hrs q nd hnd).1, (hrs q nd hnd).2.1, (hrs q nd hnd).2.2.1⟩) s.nodes hcan).2
    exact ⟨nodup_foldl_ins _ _ _ (H.nodupG s (mem_of_get hs)), fun nd hnd => ⟨(h2 nd hnd).1, fun _ => (h2 nd hnd).2⟩⟩
  · intro q s' h nd hnd
    obtain ⟨s, hs, rfl⟩ := nodeWorld_get w q s' h
    rcases mem_foldl_ins _ _ _ _ hnd with h1 | h1
    · exact List.mem_map.mpr ⟨nd, (mem_allNodes w nd).mpr ⟨s, mem_of_get hs, h1⟩, rfl⟩
    · exact (hrs q nd h1).2.2.2
  · intro q s' h c hc
    obtain ⟨s, hs, rfl⟩ := nodeWorld_get w q s' h
    refine ⟨⟨q, s, hs, hc⟩, fun v hv => ?_⟩
    exact (keys_foldl_ins _ _ _ v).mpr (Or.inl ((H.cellVerts s (mem_of_get hs) c hc).2 v hv))
  · intro q s' h
    obtain ⟨s, hs, rfl⟩ := nodeWorld_get w q s' h
    exact H.cellsNd s (mem_of_get hs)
  · intro g hg q s' h hp
    obtain ⟨s, hs, rfl⟩ := nodeWorld_get w q s' h
    obtain ⟨nd, hnd, rfl⟩ := List.mem_map.mp hg
    obtain ⟨t, ht, hnt⟩ := (mem_allNodes w nd).mp hnd
    obtain ⟨r, hr⟩ := List.getElem?_of_mem ht
    rw [keys_foldl_ins]
    by_cases hrq : r = q
    · subst hrq; rw [hs] at hr; cases hr
      exact Or.inl (List.mem_map_of_mem hnt)
    · refine Or.inr (List.mem_map_of_mem ((mem_nodesSentTo w q nd).mpr ⟨r, t, hr, hrq, hnt, ?_⟩))
      rw [(canon_all H t ht nd hnt).1]; exact hp

theorem allC_nodeWorld (w : World RankState) (c : DCell) : AllC (nodeWorld w) c ↔ AllC w c := by
  constructor
  · rintro ⟨r, s', h, hc⟩
    obtain ⟨s, hs, rfl⟩ := nodeWorld_get w r s' h
    exact ⟨r, s, hs, hc⟩
  · rintro ⟨r, s, hs, hc⟩
    refine ⟨r, { s with nodes := (nodesSentTo w r).foldl (ins (·.glob)) s.nodes }, ?_, hc⟩
    unfold nodeWorld
    rw [List.getElem?_mapIdx, hs]; rfl

end Hyp

/-! ### `ref_node_ghost_real` on tables that agree with `P`, `Y` -/

theorem length_le_of_nodup_range (l : List Int) (N : Nat) (hnd : l.Nodup) (h : ∀ x ∈ l, 0 ≤ x ∧ x < (N : Int)) :
    l.length ≤ N := by
  have h1 : (l.map Int.toNat).Nodup := by
    apply List.Nodup.map_on _ hnd
    intro x hx y hy hxy
    have := (h x hx).1; have := (h y hy).1
    omega
  have h2 : l.map Int.toNat ⊆ List.range N := by
    intro k hk
    obtain ⟨x, hx, rfl⟩ := List.mem_map.mp hk
    have := h x hx
    exact List.mem_range.mpr (by omega)
  have := (List.subperm_of_subset h1 h2).length_le
  simpa using this

theorem sum_mapIdx_le {α : Type} (w : List α) (f : Nat → α → Nat) (B : Nat)
    (h : ∀ (q : Nat) (s : α), w[q]? = some s → f q s ≤ B) : (w.mapIdx f).sum ≤ w.length * B := by
  induction w using List.reverseRecOn with
  | nil => simp
  | append_singleton l a ih =>
    rw [List.mapIdx_append, List.sum_append]
    simp only [List.mapIdx_cons, List.mapIdx_nil, List.sum_cons, List.sum_nil, List.length_append, List.length_cons,
      List.length_nil, Nat.zero_add, Nat.add_zero]
    have h1 := ih (fun q s hq => h q s (by
      have hlt : q < l.length := by
        by_contra hc
        rw [List.getElem?_eq_none (by omega)] at hq; cases hq
      rw [List.getElem?_append_left hlt]; exact hq))
    have h2 := h l.length a (by simp)
    rw [Nat.add_mul]
    omega

/-- one entry after `ref_node_ghost_real`: a ghost takes the payload of its global -/
def fixNode (Y : Int → List Nat) (q : Nat) (nd : DNode) : DNode :=
  if nd.part = (q : Int) then nd else { nd with payload := Y nd.glob }

theorem toG_glob (s : RankState) : (toG s).map (·.glob) = s.nodes.map (·.glob) := by
  unfold toG; rw [List.map_map]; rfl

theorem lookup_toG (P : Int → Int) (Y : Int → List Nat) (p : Nat) (t : RankState) (ht : Table P Y p t.nodes)
    (g : Int) (hg : g ∈ t.nodes.map (·.glob)) (hp : P g = (p : Int)) : lookupVals (toG t) g = some (Y g) := by
  obtain ⟨od, hod, rfl⟩ := List.mem_map.mp hg
  unfold lookupVals toG
  rw [List.find?_map]
  have : ((fun (nd : GNode Nat) => nd.glob == od.glob) ∘ fun (nd : DNode) => (⟨nd.glob, nd.part, nd.payload⟩ : GNode Nat))
      = fun x => x.glob == od.glob := rfl
  rw [this, find_glob ht.1 hod]
  simp only [Option.map_some]
  obtain ⟨h1, h2⟩ := ht.2 od hod
  rw [h2 (by rw [h1]; exact hp)]

theorem ghostReal_spec (P : Int → Int) (Y : Int → List Nat) (ldim N : Nat) (w3 : World RankState)
    (htab : ∀ (q : Nat) (s : RankState), w3[q]? = some s → Table P Y q s.nodes)
    (hrange : ∀ (q : Nat) (s : RankState), w3[q]? = some s → ∀ nd ∈ s.nodes,
      0 ≤ P nd.glob ∧ P nd.glob < (w3.length : Int) ∧ 0 ≤ nd.glob ∧ nd.glob < (N : Int) ∧ (Y nd.glob).length = ldim)
    (hown : ∀ (q : Nat) (s : RankState), w3[q]? = some s → ∀ nd ∈ s.nodes,
      ∀ (p : Nat) (t : RankState), w3[p]? = some t → P nd.glob = (p : Int) → nd.glob ∈ t.nodes.map (·.glob))
    (hsize : ((max 1 ldim : Nat) : Int) * ((w3.length : Int) * (N : Int)) ≤ INT_MAX) :
    ghostReal ldim w3 = some (w3.mapIdx fun q s => { s with nodes := s.nodes.map (fixNode Y q) }) := by
  have hget : ∀ (r : Nat) (hr : r < (w3.map toG).length), (w3.map toG)[r] = toG (w3[r]'(by simpa using hr)) := by
    intro r hr; simp
  have hlenN : ∀ (q : Nat) (s : RankState), w3[q]? = some s → s.nodes.length ≤ N := by
    intro q s hs
    have := length_le_of_nodup_range (s.nodes.map (·.glob)) N (htab q s hs).1 (by
      intro x hx
      obtain ⟨nd, hnd, rfl⟩ := List.mem_map.mp hx
      obtain ⟨_, _, h3, h4, _⟩ := hrange q s hs nd hnd
      exact ⟨h3, h4⟩)
    simpa using this
  have hspec := Refine.Lemmas.DistGhostFull.ghost_full (β := Nat) RefType.dbl rfl ldim (w3.map toG)
    (by
      intro nodes hn
      obtain ⟨s, hs, rfl⟩ := List.mem_map.mp hn
      obtain ⟨q, hq⟩ := List.getElem?_of_mem hs
      rw [toG_glob]; exact (htab q s hq).1)
    (by
      intro r hr nd hnd hp
      have hr' : r < w3.length := by simpa using hr
      have hs : w3[r]? = some w3[r] := List.getElem?_eq_getElem hr'
      rw [hget r hr] at hnd
      obtain ⟨x, hx, rfl⟩ := List.mem_map.mp hnd
      simp only at hp ⊢
      obtain ⟨h1, h2⟩ := (htab r _ hs).2 x hx
      obtain ⟨r1, r2, _, _, r5⟩ := hrange r _ hs x hx
      rw [h1]
      have hlt : (P x.glob).toNat < w3.length := by omega
      refine ⟨r1, by simpa using hlt, ?_⟩
      have ht : w3[(P x.glob).toNat]? = some w3[(P x.glob).toNat] := List.getElem?_eq_getElem hlt
      have hpp : P x.glob = (((P x.glob).toNat : Nat) : Int) := by omega
      have hin := hown r _ hs x hx _ _ ht hpp
      have hgd : (List.map toG w3).getD (P x.glob).toNat [] = toG w3[(P x.glob).toNat] := by
        rw [List.getD_eq_getElem?_getD, List.getElem?_map, ht]; rfl
      rw [hgd]
      obtain ⟨od, hod, hog⟩ := List.mem_map.mp hin
      refine ⟨⟨od.glob, od.part, od.payload⟩, List.mem_map.mpr ⟨od, hod, rfl⟩, hog, ?_⟩
      obtain ⟨o1, o2⟩ := (htab _ _ ht).2 od hod
      simp only
      rw [o2 (by rw [o1, hog]; exact hpp), hog]; exact r5)
    (by
      intro r hr
      have hr' : r < w3.length := by simpa using hr
      have hs : w3[r]? = some w3[r] := List.getElem?_eq_getElem hr'
      have hM : (0 : Int) ≤ ((max 1 ldim : Nat) : Int) := by omega
      constructor
      · have h1 : Refine.Lemmas.DistGhostFull.nGhosts r (w3.map toG)[r] ≤ N := by
          rw [hget r hr]
          unfold Refine.Lemmas.DistGhostFull.nGhosts
          have := List.length_filter_le (fun (nd : GNode Nat) => nd.part != (r : Int)) (toG w3[r])
          have h2 : (toG w3[r]).length = w3[r].nodes.length := by simp [toG]
          have := hlenN r _ hs
          omega
        have h3 : ((Refine.Lemmas.DistGhostFull.nGhosts r (w3.map toG)[r] : Nat) : Int) ≤ (w3.length : Int) * (N : Int) := by
          have : (N : Int) ≤ (w3.length : Int) * (N : Int) := by
            have : (1 : Int) ≤ (w3.length : Int) := by omega
            nlinarith
          have h1' : ((Refine.Lemmas.DistGhostFull.nGhosts r (w3.map toG)[r] : Nat) : Int) ≤ (N : Int) := by exact_mod_cast h1
          omega
        exact le_trans (Int.mul_le_mul_of_nonneg_left h3 hM) hsize
      · have h1 : Refine.Lemmas.DistGhostFull.nRequests (w3.map toG) r ≤ (w3.map toG).length * N := by
          unfold Refine.Lemmas.DistGhostFull.nRequests
          apply sum_mapIdx_le
          intro q nodes hq
          rw [List.getElem?_map] at hq
          cases hq' : w3[q]? with
          | none => rw [hq'] at hq; cases hq
          | some s =>
            rw [hq'] at hq
            simp only [Option.map_some, Option.some.injEq] at hq
            subst hq
            unfold Refine.Lemmas.DistGhostFull.ghostsTo
            have := List.length_filter_le (fun (nd : GNode Nat) => nd.part != (q : Int) && nd.part == (r : Int)) (toG s)
            have h2 : (toG s).length = s.nodes.length := by simp [toG]
            have := hlenN q s hq'
            omega
        have h3 : ((Refine.Lemmas.DistGhostFull.nRequests (w3.map toG) r : Nat) : Int) ≤ (w3.length : Int) * (N : Int) := by
          have : (w3.map toG).length = w3.length := by simp
          rw [this] at h1
          exact_mod_cast h1
        exact le_trans (Int.mul_le_mul_of_nonneg_left h3 hM) hsize)
  unfold ghostReal
  rw [hspec]
  simp only [Option.map_some, Option.some.injEq]
  unfold Refine.Lemmas.DistGhostFull.refreshed
  apply List.ext_getElem
  · simp
  · intro i h1 h2
    have hi : i < w3.length := by simpa using h2
    have hs : w3[i]? = some w3[i] := List.getElem?_eq_getElem hi
    simp only [List.getElem_map, List.getElem_zip, List.getElem_mapIdx]
    unfold ofG toG
    simp only [List.map_map]
    congr 1
    apply List.map_congr_left
    intro nd hnd
    simp only [Function.comp, Refine.Lemmas.DistGhostFull.refreshNode]
    unfold fixNode
    by_cases hp : nd.part = (i : Int)
    · simp only [hp, if_true]
      cases nd with
      | mk a b c => simp only at hp; simp [hp]
    · simp only [hp, if_false]
      obtain ⟨t1, _⟩ := (htab i _ hs).2 nd hnd
      obtain ⟨r1, r2, _, _, _⟩ := hrange i _ hs nd hnd
      have hlt : (P nd.glob).toNat < w3.length := by omega
      have ht : w3[(P nd.glob).toNat]? = some w3[(P nd.glob).toNat] := List.getElem?_eq_getElem hlt
      have hpp : P nd.glob = (((P nd.glob).toNat : Nat) : Int) := by omega
      have hin := hown i _ hs nd hnd _ _ ht hpp
      unfold Refine.Lemmas.DistGhostFull.ownerVals
      simp only
      have hgd : (List.map (fun (s : RankState) => List.map (fun (nd : DNode) => (⟨nd.glob, nd.part, nd.payload⟩ : GNode Nat)) s.nodes) w3).getD
          nd.part.toNat [] = toG w3[(P nd.glob).toNat] := by
        rw [t1, List.getD_eq_getElem?_getD, List.getElem?_map, ht]; rfl
      rw [hgd, lookup_toG P Y _ _ (htab _ _ ht) nd.glob hin hpp]
      rfl

/-! ### assembly -/

/-- the state determined by the global mesh (`AllC w`, `Vw w`, `payW w`) and the new partition `partW w` -/
structure IsLayout (w w' : World RankState) : Prop where
  len : w'.length = w.length
  rank : ∀ (q : Nat) (s s' : RankState), w[q]? = some s → w'[q]? = some s' →
    s'.oldN = s.oldN ∧ s'.newN = s.newN ∧ s'.nUnused = s.nUnused ∧
    s'.cells.Nodup ∧ (s'.nodes.map (·.glob)).Nodup ∧
    (∀ c, c ∈ s'.cells ↔ AllC w c ∧ ∃ v ∈ c.nodes, partW w v = (q : Int)) ∧
    (∀ nd, nd ∈ s'.nodes ↔ Vw w nd.glob ∧ nd.part = partW w nd.glob ∧ nd.payload = payW w nd.glob ∧
      (nd.part = (q : Int) ∨ ∃ c ∈ s'.cells, nd.glob ∈ c.nodes))

theorem table_filter (P : Int → Int) (Y : Int → List Nat) (me : Nat) (nodes : List DNode) (f : DNode → Bool)
    (ht : Table P Y me nodes) : Table P Y me (nodes.filter f) :=
  ⟨(ht.1.sublist (List.Sublist.map _ List.filter_sublist)), fun nd hnd => ht.2 nd (List.mem_filter.mp hnd).1⟩

/-- the last two steps on one rank: unreferenced ghosts removed, ghosts refreshed -/
def finishRank (Y : Int → List Nat) (q : Nat) (s : RankState) : RankState :=
  { (pruneRank q s) with nodes := (pruneRank q s).nodes.map (fixNode Y q) }

section Main
variable {ldim N : Nat} {w : World RankState} (H : ShufHyp ldim N w)

include H in
theorem shufflin_main (hnp : 2 ≤ w.length) : ∃ w', shufflin ldim w = some w' ∧ IsLayout w w' := by
  have hu := uniq_allC H
  have hS := allC_verts H
  have hw1 := nodeWorld_inv H
  obtain ⟨w2, he2, hl2, hw2, hch2⟩ := phasesL_spec (partW w) (payW w) (AllC w) (Vw w) hu hS (List.range NGROUP)
    List.nodup_range (nodeWorld w) hw1
  have hl1 : (nodeWorld w).length = w.length := by unfold nodeWorld; exact List.length_mapIdx
  have hl3 : (w2.mapIdx pruneRank).length = w.length := by rw [List.length_mapIdx, hl2, hl1]
  have hget3 : ∀ (q : Nat) (s3 : RankState), (w2.mapIdx pruneRank)[q]? = some s3 →
      ∃ s2, w2[q]? = some s2 ∧ s3 = pruneRank q s2 := by
    intro q s3 h
    rw [List.getElem?_mapIdx] at h
    cases hq : w2[q]? with
    | none => rw [hq] at h; cases h
    | some s => rw [hq] at h; exact ⟨s, rfl, by simpa using h.symm⟩
  have hg := ghostReal_spec (partW w) (payW w) ldim N (w2.mapIdx pruneRank)
    (by
      intro q s3 h
      obtain ⟨s2, hs2, rfl⟩ := hget3 q s3 h
      exact table_filter _ _ _ _ _ (hw2.table q s2 hs2))
    (by
      intro q s3 h nd hnd
      obtain ⟨s2, hs2, rfl⟩ := hget3 q s3 h
      have hv := hw2.known q s2 hs2 nd (List.mem_filter.mp hnd).1
      obtain ⟨a, b, c, d, e⟩ := vw_facts H nd.glob hv
      rw [hl3]; exact ⟨a, b, c, d, e⟩)
    (by
      intro q s3 h nd hnd p t3 ht hp
      obtain ⟨s2, hs2, rfl⟩ := hget3 q s3 h
      obtain ⟨t2, ht2, rfl⟩ := hget3 p t3 ht
      have hv := hw2.known q s2 hs2 nd (List.mem_filter.mp hnd).1
      obtain ⟨od, hod, hog⟩ := List.mem_map.mp (hw2.owner nd.glob hv p t2 ht2 hp)
      refine List.mem_map.mpr ⟨od, ?_, hog⟩
      unfold pruneRank
      rw [List.mem_filter]
      refine ⟨hod, ?_⟩
      have := ((hw2.table p t2 ht2).2 od hod).1
      rw [hog, hp] at this
      simp [this])
    (by rw [hl3]; exact H.size)
  refine ⟨(w2.mapIdx pruneRank).mapIdx (fun q s => { s with nodes := s.nodes.map (fixNode (payW w) q) }), ?_, ⟨?_, ?_⟩⟩
  · unfold shufflin
    have h1 : ¬ w.length ≤ 1 := by omega
    simp only [h1, if_false, H.synced, Bool.not_true, Bool.false_eq_true]
    rw [nodePhase_eq H]
    simp only [Option.bind_some]
    have : cellPhases (nodeWorld w) = phasesL (List.range NGROUP) (nodeWorld w) := rfl
    rw [this, he2]
    simp only [Option.bind_some]
    exact hg
  · rw [List.length_mapIdx]; exact hl3
  · intro q s s4 hs hs4
    rw [List.getElem?_mapIdx] at hs4
    cases hq3 : (w2.mapIdx pruneRank)[q]? with
    | none => rw [hq3] at hs4; cases hs4
    | some s3 =>
      rw [hq3] at hs4
      simp only [Option.map_some, Option.some.injEq] at hs4
      obtain ⟨s2, hs2, rfl⟩ := hget3 q s3 hq3
      subst hs4
      have hs1 : (nodeWorld w)[q]? = some { s with nodes := (nodesSentTo w q).foldl (ins (·.glob)) s.nodes } := by
        unfold nodeWorld; rw [List.getElem?_mapIdx, hs]; rfl
      obtain ⟨c1, c2, c3, _, c5⟩ := hch2 q _ s2 hs1 hs2
      have hcells : ∀ c, c ∈ s2.cells ↔ AllC w c ∧ ∃ v ∈ c.nodes, partW w v = (q : Int) := by
        intro c
        rw [c5 c]
        by_cases hin : c.group ∈ List.range NGROUP
        · simp only [hin, if_true]; rw [allC_nodeWorld]
        · simp only [hin, if_false]
          constructor
          · intro hc
            exact absurd (List.mem_range.mpr (H.cellVerts s (mem_of_get hs) c hc).1) hin
          · rintro ⟨⟨r, t, ht, hc⟩, _⟩
            exact absurd (List.mem_range.mpr (H.cellVerts t (mem_of_get ht) c hc).1) hin
      have ht2 := hw2.table q s2 hs2
      refine ⟨c1, c2, c3, hw2.cellsNd q s2 hs2, ?_, hcells, ?_⟩
      · show (List.map (·.glob) (List.map (fixNode (payW w) q) (pruneRank q s2).nodes)).Nodup
        rw [List.map_map]
        have : ((fun (x : DNode) => x.glob) ∘ fixNode (payW w) q) = fun x => x.glob := by
          funext x; simp only [Function.comp, fixNode]; split <;> rfl
        rw [this]
        exact (table_filter _ _ _ _ _ ht2).1
      · intro nd
        show nd ∈ List.map (fixNode (payW w) q) (pruneRank q s2).nodes ↔ _
        rw [List.mem_map]
        constructor
        · rintro ⟨x, hx, rfl⟩
          unfold pruneRank at hx
          rw [List.mem_filter] at hx
          obtain ⟨hx1, hx2⟩ := hx
          obtain ⟨t1, t2⟩ := ht2.2 x hx1
          have hglob : (fixNode (payW w) q x).glob = x.glob := by unfold fixNode; split <;> rfl
          have hpart : (fixNode (payW w) q x).part = x.part := by unfold fixNode; split <;> rfl
          have hpay : (fixNode (payW w) q x).payload = payW w x.glob := by
            unfold fixNode; split
            · rename_i h; exact t2 h
            · rfl
          rw [hglob, hpart, hpay]
          refine ⟨hw2.known q s2 hs2 x hx1, t1, rfl, ?_⟩
          simp only [Bool.or_eq_true, beq_iff_eq, List.any_eq_true, List.contains_eq_mem, decide_eq_true_eq] at hx2
          exact hx2
        · rintro ⟨hv, hp, hy, hk⟩
          have hpres : nd.glob ∈ s2.nodes.map (·.glob) := by
            rcases hk with hk | ⟨c, hc, hvc⟩
            · exact hw2.owner nd.glob hv q s2 hs2 (by rw [← hp]; exact hk)
            · exact (hw2.cellsS q s2 hs2 c hc).2 nd.glob hvc
          obtain ⟨x, hx, hxg⟩ := List.mem_map.mp hpres
          obtain ⟨t1, t2⟩ := ht2.2 x hx
          refine ⟨x, ?_, ?_⟩
          · unfold pruneRank
            rw [List.mem_filter]
            refine ⟨hx, ?_⟩
            simp only [Bool.or_eq_true, beq_iff_eq, List.any_eq_true, List.contains_eq_mem, decide_eq_true_eq]
            rcases hk with hk | ⟨c, hc, hvc⟩
            · left; rw [t1, hxg, ← hp]; exact hk
            · right; exact ⟨c, hc, by rw [hxg]; exact hvc⟩
          · cases nd with
            | mk g p y =>
              simp only at hxg hp hy
              unfold fixNode
              split
              · rename_i h
                cases x with
                | mk a b c =>
                  simp only at hxg t1 t2 h
                  simp only [DNode.mk.injEq]
                  exact ⟨hxg, by rw [t1, hxg, hp], by rw [t2 h, hxg, hy]⟩
              · cases x with
                | mk a b c =>
                  simp only at hxg t1
                  simp only [DNode.mk.injEq]
                  exact ⟨hxg, by rw [t1, hxg, hp], by rw [hxg, hy]⟩

end Main

end Refine.Lemmas.ShufflinSpec
