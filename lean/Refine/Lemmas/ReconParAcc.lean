import Refine.Lemmas.ReconReal
import Refine.Model.ReconPar
import Mathlib.Algebra.BigOperators.Group.List.Basic
import Mathlib.Data.List.Perm.Basic
import Mathlib.Data.List.Count
import Mathlib.Tactic.Ring
import Mathlib.Tactic.Linarith

/-!
  The accumulation of `ref_recon_l2_projection_grad` in exact arithmetic, as sums: the accumulator of node `i` after
  `Recon.accumulate` holds `Σ_c mult(c,i)·w_c·g_c` and `Σ_c mult(c,i)·w_c` (`mult` = how often `i` occurs among the
  nodes of a contributing simplex).  Hence the projected gradient at a node depends only on the MULTISET of simplices
  touching it — not on the order in which the cells are visited, not on the local numbering, not on the simplices
  elsewhere: the arithmetic core of partition independence (`Refine/Props/C19Par.lean`).
-/
namespace Refine.ReconParAcc
open Refine Refine.Model.Geom Refine.Model.Recon Refine.ScalarReal Refine.GeomReal Refine.ReconReal

/-- how often node `i` receives the contribution `c` -/
noncomputable def mult (c : Contrib ℝ) (i : Nat) : ℝ := if c.st = St.ok then (c.nodes.count i : ℝ) else 0

/-- `Σ_c mult(c,i)·φ(w_c, g_c)` -/
noncomputable def S (cs : List (Contrib ℝ)) (i : Nat) (φ : ℝ → V3 ℝ → ℝ) : ℝ :=
  (cs.map fun c => mult c i * φ c.w c.g).sum

def addK (x : NodeAcc ℝ) (k : ℝ) (w : ℝ) (g : V3 ℝ) : NodeAcc ℝ :=
  ⟨x.gx + k * (w * g.x), x.gy + k * (w * g.y), x.gz + k * (w * g.z), x.w + k * w⟩

theorem NodeAcc.ext' {a b : NodeAcc ℝ} (h1 : a.gx = b.gx) (h2 : a.gy = b.gy) (h3 : a.gz = b.gz) (h4 : a.w = b.w) :
    a = b := by
  cases a; cases b; simp_all

theorem scatter_getElem? (ns : List Nat) (w : ℝ) (g : V3 ℝ) (i : Nat) :
    ∀ acc : List (NodeAcc ℝ), (scatter acc ns w g)[i]? = (acc[i]?).map fun x => addK x (ns.count i : ℝ) w g := by
  induction ns with
  | nil =>
    intro acc
    simp only [scatter, List.foldl_nil, List.count_nil, Nat.cast_zero]
    cases acc[i]? with
    | none => rfl
    | some x => simp [addK]
  | cons k rest ih =>
    intro acc
    rw [scatter_cons, ih, List.getElem?_modify]
    cases hx : acc[i]? with
    | none => simp
    | some x =>
      by_cases hk : k = i
      · subst hk
        simp only [if_true, Option.map_eq_map, Option.map_some, Option.some.injEq, List.count_cons_self,
          Nat.cast_add, Nat.cast_one]
        apply NodeAcc.ext' <;> simp only [addK, NodeAcc.add, add_eq, mul_eq] <;> ring
      · have hc : List.count i (k :: rest) = List.count i rest := by
          simp [hk]
        simp only [hk, if_false, Option.map_eq_map, Option.map_some, hc]

theorem S_cons (c : Contrib ℝ) (cs : List (Contrib ℝ)) (i : Nat) (φ : ℝ → V3 ℝ → ℝ) :
    S (c :: cs) i φ = mult c i * φ c.w c.g + S cs i φ := by
  simp [S]

noncomputable def accSum (cs : List (Contrib ℝ)) (i : Nat) (x : NodeAcc ℝ) : NodeAcc ℝ :=
  ⟨x.gx + S cs i (fun w g => w * g.x), x.gy + S cs i (fun w g => w * g.y), x.gz + S cs i (fun w g => w * g.z),
   x.w + S cs i (fun w _ => w)⟩

/-- the accumulator of node `i` after all contributions: initial value plus the four sums -/
theorem accumulate_getElem? (cs : List (Contrib ℝ)) (i : Nat) :
    ∀ acc : List (NodeAcc ℝ), (accumulate acc cs)[i]? = (acc[i]?).map (accSum cs i) := by
  induction cs with
  | nil =>
    intro acc
    cases h : acc[i]? with
    | none => simp [accumulate, h]
    | some x => simp [accumulate, h, accSum, S]
  | cons c rest ih =>
    intro acc
    rw [accumulate_cons, ih]
    by_cases hc : c.st = St.ok
    · simp only [hc, if_true, scatter_getElem?]
      cases acc[i]? with
      | none => rfl
      | some x =>
        simp only [Option.map_some, Option.some.injEq]
        apply NodeAcc.ext' <;> simp only [accSum, addK, S_cons, mult, hc, if_true] <;> ring
    · simp only [hc, if_false]
      cases acc[i]? with
      | none => rfl
      | some x =>
        simp only [Option.map_some, Option.some.injEq]
        apply NodeAcc.ext' <;> simp only [accSum, S_cons, mult, hc, if_false] <;> ring

/-- the four sums a node's result is computed from -/
noncomputable def sums (cs : List (Contrib ℝ)) (i : Nat) : NodeAcc ℝ :=
  ⟨S cs i (fun w g => w * g.x), S cs i (fun w g => w * g.y), S cs i (fun w g => w * g.z), S cs i (fun w _ => w)⟩

/-- **`project` at a node = the guarded division of the four sums** -/
theorem project_getElem? (n : Nat) (cs : List (Contrib ℝ)) (i : Nat) (hi : i < n) :
    (project n cs).2[i]? = some (finishNode (sums cs i)).2 := by
  unfold project
  simp only [List.getElem?_map, accumulate_getElem?, List.getElem?_replicate, if_pos hi, Option.map_some,
    Option.some.injEq]
  congr 2
  apply NodeAcc.ext' <;> simp [accSum, sums, NodeAcc.zero]

/-- the div-zero flag of node `i` -/
theorem project_flag (n : Nat) (cs : List (Contrib ℝ)) :
    (project n cs).1 = if (List.range n).any (fun i => (finishNode (sums cs i)).1) then St.divZero else St.ok := by
  have hlen : (accumulate (List.replicate n (NodeAcc.zero : NodeAcc ℝ)) cs).length = n := by
    rw [length_accumulate, List.length_replicate]
  have e : ∀ i, accSum cs i (NodeAcc.zero : NodeAcc ℝ) = sums cs i := by
    intro i; apply NodeAcc.ext' <;> simp [accSum, sums, NodeAcc.zero]
  have hget : ∀ i (hi : i < n), (accumulate (List.replicate n (NodeAcc.zero : NodeAcc ℝ)) cs)[i]? = some (sums cs i) := by
    intro i hi
    rw [accumulate_getElem?, List.getElem?_replicate, if_pos hi, Option.map_some, e]
  have hb : ((accumulate (List.replicate n (NodeAcc.zero : NodeAcc ℝ)) cs).map finishNode).any (·.1) =
      (List.range n).any (fun i => (finishNode (sums cs i)).1) := by
    rw [Bool.eq_iff_iff]
    simp only [List.any_eq_true, List.mem_map, List.mem_range]
    constructor
    · rintro ⟨x, ⟨a, ha, rfl⟩, hx⟩
      obtain ⟨i, hi, hg⟩ := List.getElem_of_mem ha
      have hi' : i < n := by rw [← hlen]; exact hi
      refine ⟨i, hi', ?_⟩
      have := hget i hi'
      rw [List.getElem?_eq_getElem hi, hg, Option.some.injEq] at this
      rw [← this]; exact hx
    · rintro ⟨i, hi, hx⟩
      have hi' : i < (accumulate (List.replicate n (NodeAcc.zero : NodeAcc ℝ)) cs).length := by rw [hlen]; exact hi
      refine ⟨_, ⟨_, List.getElem_mem hi', rfl⟩, ?_⟩
      have := hget i hi
      rw [List.getElem?_eq_getElem hi', Option.some.injEq] at this
      rw [this]; exact hx
  unfold project
  simp only [hb]

/-! ### the sums see only the simplices that touch the node, as a multiset -/

def touches (i : Nat) (c : Contrib ℝ) : Bool := c.nodes.contains i

theorem mult_of_not_touches {c : Contrib ℝ} {i : Nat} (h : touches i c = false) : mult c i = 0 := by
  unfold mult
  split
  · have : i ∉ c.nodes := by
      intro hm
      simp [touches, hm] at h
    rw [List.count_eq_zero_of_not_mem this]; simp
  · rfl

theorem S_filter (cs : List (Contrib ℝ)) (i : Nat) (φ : ℝ → V3 ℝ → ℝ) :
    S (cs.filter (touches i)) i φ = S cs i φ := by
  induction cs with
  | nil => rfl
  | cons c rest ih =>
    rw [List.filter_cons]
    cases h : touches i c with
    | true => simp only [if_true, S_cons, ih]
    | false =>
      simp only [Bool.false_eq_true, if_false, S_cons, ih, mult_of_not_touches h, zero_mul, zero_add]

theorem S_perm {cs cs' : List (Contrib ℝ)} (h : cs.Perm cs') (i : Nat) (φ : ℝ → V3 ℝ → ℝ) : S cs i φ = S cs' i φ := by
  unfold S
  exact (h.map _).sum_eq

/-- the sums at node `i` depend only on the multiset of contributions touching `i` -/
theorem sums_congr {cs cs' : List (Contrib ℝ)} (i : Nat)
    (h : (cs.filter (touches i)).Perm (cs'.filter (touches i))) : sums cs i = sums cs' i := by
  have k : ∀ φ, S cs i φ = S cs' i φ := fun φ => by
    rw [← S_filter cs, ← S_filter cs', S_perm h]
  simp only [sums, k]

/-! ### renaming the nodes (local index → global id) -/

/-- the same contribution with its nodes renamed -/
def rename (f : Nat → Nat) (c : Contrib ℝ) : Contrib ℝ := ⟨c.nodes.map f, c.st, c.w, c.g⟩

theorem count_map_injOn (f : Nat → Nat) (n : Nat) (hf : ∀ a b, a < n → b < n → f a = f b → a = b) (i : Nat) (hi : i < n) :
    ∀ ns : List Nat, (∀ k ∈ ns, k < n) → (ns.map f).count (f i) = ns.count i := by
  intro ns
  induction ns with
  | nil => intro _; rfl
  | cons k rest ih =>
    intro h
    have hk : k < n := h k List.mem_cons_self
    have ih' := ih (fun a ha => h a (List.mem_cons_of_mem _ ha))
    rw [List.map_cons]
    by_cases e : k = i
    · subst e; rw [List.count_cons_self, List.count_cons_self, ih']
    · have : f k ≠ f i := fun he => e (hf k i hk hi he)
      rw [List.count_cons_of_ne this, List.count_cons_of_ne e, ih']

theorem mult_rename (f : Nat → Nat) (n : Nat) (hf : ∀ a b, a < n → b < n → f a = f b → a = b) (i : Nat) (hi : i < n)
    (c : Contrib ℝ) (hc : ∀ k ∈ c.nodes, k < n) : mult (rename f c) (f i) = mult c i := by
  unfold mult rename
  simp only
  split
  · rw [count_map_injOn f n hf i hi c.nodes hc]
  · rfl

theorem S_rename (f : Nat → Nat) (n : Nat) (hf : ∀ a b, a < n → b < n → f a = f b → a = b) (i : Nat) (hi : i < n)
    (φ : ℝ → V3 ℝ → ℝ) : ∀ cs : List (Contrib ℝ), (∀ c ∈ cs, ∀ k ∈ c.nodes, k < n) →
    S (cs.map (rename f)) (f i) φ = S cs i φ := by
  intro cs
  induction cs with
  | nil => intro _; rfl
  | cons c rest ih =>
    intro h
    rw [List.map_cons, S_cons, S_cons, mult_rename f n hf i hi c (h c List.mem_cons_self),
      ih (fun c' hc' => h c' (List.mem_cons_of_mem _ hc'))]
    rfl

theorem sums_rename (f : Nat → Nat) (n : Nat) (hf : ∀ a b, a < n → b < n → f a = f b → a = b) (i : Nat) (hi : i < n)
    (cs : List (Contrib ℝ)) (h : ∀ c ∈ cs, ∀ k ∈ c.nodes, k < n) : sums (cs.map (rename f)) (f i) = sums cs i := by
  simp only [sums, S_rename f n hf i hi _ cs h]

/-- **the core**: node `i` of a local mesh and node `f i` of the global mesh receive the same projected value when the
    renamed local contributions touching `f i` are, as a multiset, the global contributions touching `f i` -/
theorem project_local_eq_global (nl nG : Nat) (f : Nat → Nat) (hf : ∀ a b, a < nl → b < nl → f a = f b → a = b)
    (csL csG : List (Contrib ℝ)) (hL : ∀ c ∈ csL, ∀ k ∈ c.nodes, k < nl) (i : Nat) (hi : i < nl) (hg : f i < nG)
    (hperm : ((csL.map (rename f)).filter (touches (f i))).Perm (csG.filter (touches (f i)))) :
    (project nl csL).2[i]? = (project nG csG).2[f i]? := by
  rw [project_getElem? nl csL i hi, project_getElem? nG csG (f i) hg, ← sums_rename f nl hf i hi csL hL,
    sums_congr (f i) hperm]

end Refine.ReconParAcc
