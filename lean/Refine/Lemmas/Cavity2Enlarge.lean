import Refine.Lemmas.Cavity2Replace
import Refine.Props.C01

/-!
  `ref_cavity_enlarge_face` / `ref_cavity_enlarge_visible`: what one enlarge step does, the invariants the loop
  carries, the budgets of the model are never exhausted, and what `VISIBLE` at the end means.
-/
namespace Refine.Lemmas.Cavity2
open Refine.Model.Cavity Refine.Model.Cavity2 Refine.Lemmas.Cavity Refine.Props.C01

variable {G : Type} [AddCommGroup G] {α : Type}

/-- the list side of a cavity: blank chains consistent, listed cells live and listed once -/
structure CavInv (g : Grid α) (c : Cav) : Prop where
  finv : SlotsInv c.faces
  sinv : SlotsInv c.segs
  tetsLive : ∀ cell ∈ c.tetList, ∃ t, g.tets.get? cell = some t
  tetsNodup : c.tetList.Nodup
  trisLive : ∀ cell ∈ c.triList, ∃ t, g.tris.get? cell = some t
  trisNodup : c.triList.Nodup

/-- everything but faces, state and tet list -/
def SameSegSide (c c' : Cav) : Prop :=
  c'.segs = c.segs ∧ c'.node = c.node ∧ c'.surfNode = c.surfNode ∧ c'.triList = c.triList

theorem SameSegSide.refl (c : Cav) : SameSegSide c c := ⟨rfl, rfl, rfl, rfl⟩
theorem SameSegSide.trans {a b c : Cav} (h1 : SameSegSide a b) (h2 : SameSegSide b c) : SameSegSide a c :=
  ⟨h2.1.trans h1.1, h2.2.1.trans h1.2.1, h2.2.2.1.trans h1.2.2.1, h2.2.2.2.trans h1.2.2.2⟩

theorem insertFace_frame (c : Cav) (f : Face) :
    SameSegSide c (insertFace c f).2 ∧ (insertFace c f).2.tetList = c.tetList := by
  unfold insertFace; split <;> exact ⟨⟨rfl, rfl, rfl, rfl⟩, rfl⟩

theorem addTetFaces_frame (g : Grid α) (fs : List Face) (c : Cav) :
    SameSegSide c (addTetFaces g c fs).2 ∧ (addTetFaces g c fs).2.tetList = c.tetList := by
  induction fs generalizing c with
  | nil => exact ⟨SameSegSide.refl c, rfl⟩
  | cons f t ih =>
    unfold addTetFaces
    split
    · exact ⟨⟨rfl, rfl, rfl, rfl⟩, rfl⟩
    · have h0 := insertFace_frame c f
      rcases hins : insertFace c f with ⟨s1, c1⟩
      rw [hins] at h0
      cases s1 <;> simp only [] <;> try exact h0
      split
      · exact h0
      · have h1 := ih c1
        exact ⟨h0.1.trans h1.1, h1.2.trans h0.2⟩

/-- `ref_cavity_add_tet`, any status: the seg side is untouched; either nothing at all happened or `cell` (live, not
    yet listed) was pushed -/
theorem addTet_frame (g : Grid α) (c : Cav) (cell : Int) :
    SameSegSide c (addTet g c cell).2 ∧
    ((addTet g c cell).2 = c ∨
      ((addTet g c cell).2.tetList = c.tetList ++ [cell] ∧ cell ∉ c.tetList ∧ ∃ t, g.tets.get? cell = some t)) := by
  unfold addTet
  split
  · exact ⟨SameSegSide.refl c, Or.inl rfl⟩
  · next tet hget =>
    split
    · exact ⟨SameSegSide.refl c, Or.inl rfl⟩
    · next hnot =>
      have h1 := addTetFaces_frame g (tetFaces tet) { c with tetList := c.tetList ++ [cell] }
      refine ⟨h1.1, Or.inr ⟨h1.2, ?_, tet, hget⟩⟩
      intro hm
      exact hnot (List.contains_iff_mem.mpr hm)

/-- a full `ref_cavity_add_tet` that ends ok in state unknown -/
theorem addTet_full {φ : Int → Int → Int → G} (hφ : Alt φ) (g : Grid α) (cell : Int) (c c' : Cav)
    (hinv : SlotsInv c.faces) (h : addTet g c cell = (.ok, c')) (hs : c'.state = .unknown) :
    c.state = .unknown ∧ SameSegSide c c' ∧ SlotsInv c'.faces ∧
    (c' = c ∨ (c'.tetList = c.tetList ++ [cell] ∧ cell ∉ c.tetList ∧ ∃ t, g.tets.get? cell = some t)) ∧
    (∃ new, c'.tetList = c.tetList ++ new ∧
      rowsSum φ c'.faces.rows = rowsSum φ c.faces.rows + (new.map (tetBd φ g)).sum ∧
      (∀ x ∈ c'.validFaces, x ∈ c.validFaces ∨ x ∈ cellFaces g new)) := by
  have hf := addTet_frame g c cell
  rw [h] at hf
  obtain ⟨new, htl, st, hmem, _⟩ := addTet_spec hφ g cell c c' hinv h hs
  exact ⟨addTet_state g cell c c' _ h hs, hf.1, st.inv, hf.2, new, htl, st.sum, hmem⟩

/-! ### the invariant and the ledger across `add_tet` -/

theorem live_nonneg {β : Type} (s : Cells β) (cell : Int) (x : β) (h : s.get? cell = some x) :
    0 ≤ cell ∧ cell.toNat < s.slots.rows.length := by
  unfold Cells.get? Slots.get? at h
  split at h
  · cases h
  · next hneg => exact ⟨by omega, getD_lt_of_some _ _ _ h⟩

theorem nodup_live_length {β : Type} (s : Cells β) (l : List Int) (hnd : l.Nodup)
    (hl : ∀ cell ∈ l, ∃ x, s.get? cell = some x) : l.length ≤ s.slots.rows.length := by
  have h1 : (l.map Int.toNat).Nodup := by
    refine (List.nodup_map_iff_inj_on hnd).mpr ?_
    intro a ha b hb hab
    obtain ⟨x, hx⟩ := hl a ha
    obtain ⟨y, hy⟩ := hl b hb
    have := (live_nonneg s a x hx).1
    have := (live_nonneg s b y hy).1
    omega
  have h2 : l.map Int.toNat ⊆ List.range s.slots.rows.length := by
    intro n hn
    obtain ⟨a, ha, rfl⟩ := List.mem_map.mp hn
    obtain ⟨x, hx⟩ := hl a ha
    exact List.mem_range.mpr (live_nonneg s a x hx).2
  have := (List.subperm_of_subset h1 h2).length_le
  simpa using this

theorem CavInv.tet_length_le {g : Grid α} {c : Cav} (h : CavInv g c) :
    c.tetList.length ≤ g.tets.slots.rows.length := nodup_live_length g.tets c.tetList h.tetsNodup h.tetsLive

theorem CavInv.tri_length_le {g : Grid α} {c : Cav} (h : CavInv g c) :
    c.triList.length ≤ g.tris.slots.rows.length := nodup_live_length g.tris c.triList h.trisNodup h.trisLive

/-- one step of the relation the enlarge-visible loop iterates: the tet side grew by live, new cells, the seg side is
    untouched, and the face sum followed -/
structure TetStep (φ : Int → Int → Int → G) (g : Grid α) (c c' : Cav) : Prop where
  same : SameSegSide c c'
  finv : SlotsInv c'.faces
  grow : ∃ new, c'.tetList = c.tetList ++ new ∧ new.Nodup ∧ (∀ cell ∈ new, cell ∉ c.tetList) ∧
    (∀ cell ∈ new, ∃ t, g.tets.get? cell = some t) ∧
    rowsSum φ c'.faces.rows = rowsSum φ c.faces.rows + (new.map (tetBd φ g)).sum ∧
    (∀ x ∈ c'.validFaces, x ∈ c.validFaces ∨ x ∈ cellFaces g new) ∧
    (c' ≠ c → new ≠ [])

theorem TetStep.refl (φ : Int → Int → Int → G) (g : Grid α) (c : Cav) (h : SlotsInv c.faces) : TetStep φ g c c :=
  ⟨SameSegSide.refl c, h, [], by simp, by simp, by simp, by simp, by simp, fun x hx => Or.inl hx, fun h => absurd rfl h⟩

theorem TetStep.trans {φ : Int → Int → Int → G} {g : Grid α} {a b c : Cav} (h1 : TetStep φ g a b)
    (h2 : TetStep φ g b c) : TetStep φ g a c := by
  obtain ⟨n1, t1, d1, f1, l1, s1, m1, e1⟩ := h1.grow
  obtain ⟨n2, t2, d2, f2, l2, s2, m2, e2⟩ := h2.grow
  refine ⟨h1.same.trans h2.same, h2.finv, n1 ++ n2, by rw [t2, t1, List.append_assoc], ?_, ?_, ?_, ?_, ?_, ?_⟩
  · refine List.nodup_append.mpr ⟨d1, d2, ?_⟩
    intro x hx y hy hxy
    subst hxy
    exact f2 x hy (by rw [t1]; exact List.mem_append_right _ hx)
  · intro x hx
    rcases List.mem_append.mp hx with h | h
    · exact f1 x h
    · intro hm; exact f2 x h (by rw [t1]; exact List.mem_append_left _ hm)
  · intro x hx
    rcases List.mem_append.mp hx with h | h
    · exact l1 x h
    · exact l2 x h
  · rw [s2, s1]; simp only [List.map_append, List.sum_append]; abel
  · intro x hx
    rcases m2 x hx with h | h
    · rcases m1 x h with h' | h'
      · exact Or.inl h'
      · right; simp only [cellFaces, List.flatMap_append, List.mem_append]; exact Or.inl h'
    · right; simp only [cellFaces, List.flatMap_append, List.mem_append]; exact Or.inr h
  · intro hne
    by_cases hab : b = a
    · subst hab
      have := e2 hne
      intro hnil
      exact this (List.append_eq_nil_iff.mp hnil).2
    · have := e1 hab
      intro hnil
      exact this (List.append_eq_nil_iff.mp hnil).1

theorem addTet_step {φ : Int → Int → Int → G} (hφ : Alt φ) (g : Grid α) (cell : Int) (c c' : Cav)
    (hinv : SlotsInv c.faces) (h : addTet g c cell = (.ok, c')) (hs : c'.state = .unknown) :
    c.state = .unknown ∧ TetStep φ g c c' := by
  obtain ⟨h0, hsame, hfinv, hcase, new, htl, hsum, hmem⟩ := addTet_full hφ g cell c c' hinv h hs
  refine ⟨h0, hsame, hfinv, ?_⟩
  rcases hcase with rfl | ⟨htl2, hnot, hlive⟩
  · have : new = [] := by
      have := htl; simpa using this
    subst this
    exact ⟨[], by simp, by simp, by simp, by simp, by simpa using hsum, fun x hx => Or.inl hx, fun h => absurd rfl h⟩
  · have hnew : new = [cell] := List.append_cancel_left (htl.symm.trans htl2)
    subst hnew
    exact ⟨[cell], htl, by simp, by simpa using hnot, by simpa using hlive, hsum, hmem, fun _ => by simp⟩

/-! ### enlarge_face -/

/-- what `ref_cavity_enlarge_face` did when it returns ok with the state still unknown -/
theorem enlargeFace_step {φ : Int → Int → Int → G} (hφ : Alt φ) (g : Grid α) (c c' : Cav) (i : Nat)
    (hinv : SlotsInv c.faces) (h : enlargeFace g c i = (.ok, c')) (hs : c'.state = .unknown) :
    c.state = .unknown ∧ TetStep φ g c c' := by
  unfold enlargeFace at h
  split at h
  · simp at h
  · next f hf =>
    split at h
    · simp only [Prod.mk.injEq, true_and] at h; subst h; simp at hs
    · split at h
      · next t0 t1 hw =>
        split at h
        · simp only [Prod.mk.injEq, true_and] at h; subst h; simp at hs
        · split at h
          · simp only [Prod.mk.injEq, true_and] at h; subst h; simp at hs
          · simp only at h
            split at h
            · next c1 h1 =>
              -- first conditional add
              have hstep1 : (c'.state = .unknown → c1.state = .unknown) := by
                intro _
                split at h
                · exact addTet_state g t0 c1 c' _ h hs
                · simp only [Prod.mk.injEq, true_and] at h; subst h; exact hs
              have hs1 := hstep1 hs
              have e1 : c.state = .unknown ∧ TetStep φ g c c1 := by
                split at h1
                · exact addTet_step hφ g t1 c c1 hinv h1 hs1
                · simp only [Prod.mk.injEq, true_and] at h1; subst h1
                  exact ⟨hs1, TetStep.refl φ g c hinv⟩
              split at h
              · obtain ⟨_, e2⟩ := addTet_step hφ g t0 c1 c' e1.2.finv h hs
                exact ⟨e1.1, e1.2.trans e2⟩
              · simp only [Prod.mk.injEq, true_and] at h; subst h; exact e1
            · next r hr hne =>
              -- the first add did not return ok: the function returns that result
              exact (hne c' h).elim
      · next s hw => simp only [Prod.mk.injEq] at h; exact absurd h.1 (by
          intro e; subst e; simp_all)


theorem CavInv.of_step {φ : Int → Int → Int → G} {g : Grid α} {c c' : Cav} (h : CavInv g c) (st : TetStep φ g c c') :
    CavInv g c' := by
  obtain ⟨new, t1, d1, f1, l1, _, _, _⟩ := st.grow
  obtain ⟨e1, _, _, e4⟩ := st.same
  refine ⟨st.finv, by rw [e1]; exact h.sinv, ?_, ?_, by rw [e4]; exact h.trisLive, by rw [e4]; exact h.trisNodup⟩
  · intro cell hc
    rw [t1] at hc
    rcases List.mem_append.mp hc with h1 | h1
    · exact h.tetsLive cell h1
    · exact l1 cell h1
  · rw [t1]
    refine List.nodup_append.mpr ⟨h.tetsNodup, d1, ?_⟩
    intro x hx y hy hxy
    subst hxy
    exact f1 x hy hx

theorem TetStep.length_lt {φ : Int → Int → Int → G} {g : Grid α} {c c' : Cav} (st : TetStep φ g c c') (hne : c' ≠ c) :
    c.tetList.length < c'.tetList.length := by
  obtain ⟨new, t1, _, _, _, _, _, e⟩ := st.grow
  have := e hne
  rw [t1, List.length_append]
  cases new with
  | nil => exact absurd rfl this
  | cons a b => simp

/-- the ledger equation survives a tet step -/
theorem TetStep.ledger {φ : Int → Int → Int → G} {g : Grid α} {c c' : Cav} (st : TetStep φ g c c')
    (hl : LedgerEq φ g c) : LedgerEq φ g c' := by
  obtain ⟨new, t1, _, _, _, s1, _, _⟩ := st.grow
  obtain ⟨e1, e2, e3, e4⟩ := st.same
  unfold LedgerEq ledgerVal at hl ⊢
  have hn : c'.segNode = c.segNode := segNode_eq e2 e3
  rw [hn, s1, t1, e4]
  simp only [Cav.validSegs, e1, List.map_append, List.sum_append]
  simp only [Cav.validSegs] at hl
  rw [show rowsSum φ c.faces.rows + (new.map (tetBd φ g)).sum - coneSum φ c.segNode c.segs.valid =
    (rowsSum φ c.faces.rows - coneSum φ c.segNode c.segs.valid) + (new.map (tetBd φ g)).sum by abel, hl]
  abel

/-- non-degenerate live faces survive a tet step on a grid of non-degenerate tets -/
theorem TetStep.faceNd {φ : Int → Int → Int → G} {g : Grid α} {c c' : Cav} (st : TetStep φ g c c')
    (hg : ∀ cell t, g.tets.get? cell = some t → TetNondeg t) (hnd : ∀ f ∈ c.validFaces, Nondeg f) :
    ∀ f ∈ c'.validFaces, Nondeg f := by
  obtain ⟨new, _, _, _, _, _, m1, _⟩ := st.grow
  intro f hf
  rcases m1 f hf with h0 | h1
  · exact hnd f h0
  · simp only [cellFaces, List.mem_flatMap] at h1
    obtain ⟨cell, _, hc⟩ := h1
    cases hget : g.tets.get? cell with
    | none => rw [hget] at hc; cases hc
    | some t => rw [hget] at hc; exact tetFaces_nondeg t (hg cell t hget) f hc

/-! ### states an enlarge step can leave behind -/

theorem addTetFaces_state_cases (g : Grid α) (fs : List Face) (c : Cav) :
    (addTetFaces g c fs).2.state = c.state ∨ (addTetFaces g c fs).2.state = .partition_constrained := by
  induction fs generalizing c with
  | nil => exact Or.inl rfl
  | cons f t ih =>
    unfold addTetFaces
    split
    · exact Or.inr rfl
    · have h0 := insertFace_state c f
      rcases hins : insertFace c f with ⟨s1, c1⟩
      rw [hins] at h0
      simp only at h0
      cases s1 <;> simp only [] <;> try exact Or.inl h0
      split
      · exact Or.inl h0
      · rcases ih c1 with h1 | h1
        · exact Or.inl (h1.trans h0)
        · exact Or.inr h1

theorem addTet_state_cases (g : Grid α) (c : Cav) (cell : Int) :
    (addTet g c cell).2.state = c.state ∨ (addTet g c cell).2.state = .partition_constrained := by
  unfold addTet
  split
  · exact Or.inl rfl
  · split
    · exact Or.inl rfl
    · exact addTetFaces_state_cases g _ { c with tetList := c.tetList ++ [cell] }

theorem condAdd_not_visible (g : Grid α) (c : Cav) (b : Bool) (cell : Int) (h : c.state ≠ .visible) :
    (if b = true then addTet g c cell else (.ok, c)).2.state ≠ .visible := by
  split
  · rcases addTet_state_cases g c cell with e | e
    · rw [e]; exact h
    · rw [e]; decide
  · exact h

theorem enlargeFace_not_visible (g : Grid α) (c : Cav) (i : Nat) (h : c.state ≠ .visible) :
    (enlargeFace g c i).2.state ≠ .visible := by
  unfold enlargeFace
  split
  · exact h
  · split
    · simp
    · split
      · split
        · simp
        · split
          · simp
          · next t0 t1 _ _ _ =>
            simp only
            have h1 := condAdd_not_visible g c (c.tetList.contains t0) t1 h
            rcases hr : (if c.tetList.contains t0 = true then addTet g c t1 else (.ok, c)) with ⟨s1, c1⟩
            rw [hr] at h1
            simp only at h1
            cases s1 <;> simp only [] <;> try exact h1
            exact condAdd_not_visible g c1 (c.tetList.contains t1) t0 h1
      · exact h

section loops
variable [Refine.Scalar α]

theorem scanVis_hit {φ : Int → Int → Int → G} (hφ : Alt φ) (g : Grid α) (c : Cav) (hinv : SlotsInv c.faces)
    (rows : List (Option Face)) (i : Nat) (st : Bool) (j : Nat) (c' : Cav) (st' : Bool)
    (h : scanVis g c rows i st = .hit j c' st') :
    c.state = .unknown ∧ c'.state = .unknown ∧ c' ≠ c ∧ TetStep φ g c c' := by
  induction rows generalizing i st with
  | nil => simp [scanVis] at h
  | cons r t ih =>
    cases r with
    | none => exact ih (i + 1) st h
    | some f =>
      unfold scanVis at h
      split at h
      · exact ih (i + 1) st h
      · split at h
        · cases h
        · exact ih (i + 1) st h
        · split at h
          · next c1 he =>
            split at h
            · cases h
            · next hun =>
              split at h
              · exact ih (i + 1) true h
              · next hne =>
                simp only [Scan.hit.injEq] at h
                obtain ⟨rfl, rfl, rfl⟩ := h
                have hs1 : c1.state = .unknown := by simpa using hun
                obtain ⟨h0, hstep⟩ := enlargeFace_step hφ g c c1 i hinv he hs1
                exact ⟨h0, hs1, hne, hstep⟩
          · cases h

theorem scanVis_none_stall (g : Grid α) (c : Cav) (rows : List (Option Face)) (i : Nat) (st : Bool)
    (h : scanVis g c rows i true = .none st) : st = true := by
  induction rows generalizing i with
  | nil => simp only [scanVis, Scan.none.injEq] at h; exact h.symm
  | cons r t ih =>
    cases r with
    | none => exact ih (i + 1) h
    | some f =>
      unfold scanVis at h
      split at h
      · exact ih (i + 1) h
      · split at h
        · cases h
        · exact ih (i + 1) h
        · split at h
          · split at h
            · cases h
            · split at h
              · exact ih (i + 1) h
              · cases h
          · cases h

/-- a scan that reaches the end without any enlarge call: every live face that is not attached to the node is
    visible (`ref_node_tet_vol > min_volume`) -/
theorem scanVis_none_false (g : Grid α) (c : Cav) (rows : List (Option Face)) (i : Nat)
    (h : scanVis g c rows i false = .none false) :
    ∀ f, some f ∈ rows → f.has c.node = false → faceVisible g c f = some true := by
  induction rows generalizing i with
  | nil => intro f hf; cases hf
  | cons r t ih =>
    cases r with
    | none =>
      intro f hf hh
      rcases List.mem_cons.mp hf with e | hf
      · cases e
      · exact ih (i + 1) h f hf hh
    | some f0 =>
      unfold scanVis at h
      split at h
      · next hatt =>
        intro f hf hh
        rcases List.mem_cons.mp hf with e | hf
        · simp only [Option.some.injEq] at e; subst e; rw [hatt] at hh; cases hh
        · exact ih (i + 1) h f hf hh
      · split at h
        · cases h
        · next hv =>
          intro f hf hh
          rcases List.mem_cons.mp hf with e | hf
          · simp only [Option.some.injEq] at e; subst e; exact hv
          · exact ih (i + 1) h f hf hh
        · split at h
          · split at h
            · cases h
            · split at h
              · have := scanVis_none_stall g c t (i + 1) false h; cases this
              · cases h
          · cases h

/-- one sweep that runs to the end -/
theorem visSweep_done {φ : Int → Int → Int → G} (hφ : Alt φ) (g : Grid α) (k : Nat) (c : Cav) (i : Nat) (grew : Bool)
    (c' : Cav) (grew' : Bool) (hinv : SlotsInv c.faces) (h : visSweep g k c i grew = .done c' grew') :
    TetStep φ g c c' ∧ (c' ≠ c → c'.state = .unknown ∧ c.state = .unknown) ∧
    (grew' = false → c' = c ∧ scanVis g c (c.faces.rows.drop i) i false = .none false) := by
  induction k generalizing c i grew with
  | zero => simp [visSweep] at h
  | succ k ih =>
    unfold visSweep at h
    split at h
    · next st hsc =>
      simp only [SweepRes.done.injEq] at h
      obtain ⟨rfl, rfl⟩ := h
      refine ⟨TetStep.refl φ g c hinv, fun hne => absurd rfl hne, ?_⟩
      intro hg
      simp only [Bool.or_eq_false_iff] at hg
      rw [hg.2] at hsc
      exact ⟨rfl, hsc⟩
    · cases h
    · next j c1 st1 hsc =>
      obtain ⟨h0, h1, hne, hstep⟩ := scanVis_hit hφ g c hinv _ _ _ _ _ _ hsc
      obtain ⟨s2, hst2, hfin⟩ := ih c1 (j + 1) true hstep.finv h
      refine ⟨hstep.trans s2, ?_, ?_⟩
      · intro _
        by_cases e : c' = c1
        · subst e; exact ⟨h1, h0⟩
        · exact ⟨(hst2 e).1, h0⟩
      · intro hg
        have := (hfin hg)
        -- grew' = false is impossible after a hit (the flag was set)
        exfalso
        clear this
        -- the recursive call carries grew = true
        have hh : ∀ (k : Nat) (c : Cav) (i : Nat) (c' : Cav), visSweep g k c i true = .done c' false → False := by
          intro k
          induction k with
          | zero => intro c i c' h; simp [visSweep] at h
          | succ k ihk =>
            intro c i c' h
            unfold visSweep at h
            split at h
            · simp only [SweepRes.done.injEq, Bool.true_or] at h; cases h.2
            · cases h
            · exact ihk _ _ _ h
        subst hg
        exact hh k c1 (j + 1) c' h

theorem visSweep_no_fuel {φ : Int → Int → Int → G} (hφ : Alt φ) (g : Grid α) (k : Nat) (c : Cav) (i : Nat)
    (grew : Bool) (hinv : CavInv g c) (hk : g.tets.slots.rows.length < c.tetList.length + k) (c' : Cav) :
    visSweep g k c i grew ≠ .fuel c' := by
  induction k generalizing c i grew with
  | zero =>
    have := hinv.tet_length_le
    omega
  | succ k ih =>
    unfold visSweep
    split
    · simp
    · simp
    · next j c1 st1 hsc =>
      obtain ⟨_, _, hne, hstep⟩ := scanVis_hit hφ g c hinv.finv _ _ _ _ _ _ hsc
      have := hstep.length_lt hne
      exact ih c1 (j + 1) true (hinv.of_step hstep) (by omega)

/-- the `while (keep_growing)` loop when it is left normally -/
theorem visLoop_done {φ : Int → Int → Int → G} (hφ : Alt φ) (g : Grid α) (adds n : Nat) (c c' : Cav)
    (hinv : SlotsInv c.faces) (h : visLoop g adds n c = .inr c') :
    TetStep φ g c c' ∧ (c' ≠ c → c'.state = .unknown ∧ c.state = .unknown) ∧
    scanVis g c' c'.faces.rows 0 false = .none false := by
  induction n generalizing c with
  | zero => simp [visLoop] at h
  | succ n ih =>
    unfold visLoop at h
    split at h
    · next c1 grew hsw =>
      obtain ⟨hstep, hst, hfin⟩ := visSweep_done hφ g adds c 0 false c1 grew hinv hsw
      split at h
      · next hg =>
        simp only [Sum.inr.injEq] at h; subst h
        have hg' : grew = false := by simpa using hg
        obtain ⟨e, hsc⟩ := hfin hg'
        subst e
        simp only [List.drop_zero] at hsc
        exact ⟨hstep, hst, hsc⟩
      · split at h
        · cases h
        · next hne =>
          obtain ⟨s2, hst2, hfin2⟩ := ih c1 hstep.finv h
          refine ⟨hstep.trans s2, ?_, hfin2⟩
          intro _
          have h1 := hst hne
          by_cases e : c' = c1
          · subst e; exact h1
          · exact ⟨(hst2 e).1, h1.2⟩
    · cases h
    · cases h

theorem visLoop_no_fuel {φ : Int → Int → Int → G} (hφ : Alt φ) (g : Grid α) (adds n : Nat) (c : Cav)
    (hinv : CavInv g c) (hadds : g.tets.slots.rows.length < adds)
    (hn : g.tets.slots.rows.length < c.tetList.length + n) (c' : Cav) :
    visLoop g adds n c ≠ .inl (.fuel c') := by
  induction n generalizing c with
  | zero =>
    have := hinv.tet_length_le
    omega
  | succ n ih =>
    unfold visLoop
    split
    · next c1 grew hsw =>
      obtain ⟨hstep, _, _⟩ := visSweep_done hφ g adds c 0 false c1 grew hinv.finv hsw
      split
      · simp
      · split
        · simp
        · next hne =>
          have := hstep.length_lt hne
          exact ih c1 (hinv.of_step hstep) (by omega)
    · simp
    · next c1 hsw =>
      exact absurd hsw (visSweep_no_fuel hφ g adds c 0 false hinv (by omega) c1)


theorem scanVis_exit_state (g : Grid α) (c : Cav) (hc : c.state ≠ .visible) (rows : List (Option Face)) (i : Nat)
    (st : Bool) (s : Refine.Model.Cavity.St) (c' : Cav) (h : scanVis g c rows i st = .exit s c') :
    c'.state ≠ .visible := by
  induction rows generalizing i st with
  | nil => simp [scanVis] at h
  | cons r t ih =>
    cases r with
    | none => exact ih (i + 1) st h
    | some f =>
      unfold scanVis at h
      split at h
      · exact ih (i + 1) st h
      · split at h
        · simp only [Scan.exit.injEq] at h; rw [← h.2]; exact hc
        · exact ih (i + 1) st h
        · have hne := enlargeFace_not_visible g c i hc
          rcases he : enlargeFace g c i with ⟨s1, c1⟩
          rw [he] at h hne
          simp only at hne
          cases s1 <;> simp only [] at h
          case ok =>
            split at h
            · simp only [Scan.exit.injEq] at h; rw [← h.2]; exact hne
            · split at h
              · exact ih (i + 1) true h
              · cases h
          all_goals (simp only [Scan.exit.injEq] at h; rw [← h.2]; exact hne)

theorem visSweep_exit_state {φ : Int → Int → Int → G} (hφ : Alt φ) (g : Grid α) (k : Nat) (c : Cav) (i : Nat)
    (grew : Bool) (hinv : SlotsInv c.faces) (hc : c.state ≠ .visible) (s : Refine.Model.Cavity.St) (c' : Cav)
    (h : visSweep g k c i grew = .exit s c') : c'.state ≠ .visible := by
  induction k generalizing c i grew with
  | zero => simp [visSweep] at h
  | succ k ih =>
    unfold visSweep at h
    split at h
    · cases h
    · next s1 c1 hsc =>
      simp only [SweepRes.exit.injEq] at h
      obtain ⟨rfl, rfl⟩ := h
      exact scanVis_exit_state g c hc _ _ _ _ _ hsc
    · next j c1 st1 hsc =>
      obtain ⟨_, h1, _, hstep⟩ := scanVis_hit hφ g c hinv _ _ _ _ _ _ hsc
      exact ih c1 (j + 1) true hstep.finv (by rw [h1]; decide) h

theorem visLoop_ret_state {φ : Int → Int → Int → G} (hφ : Alt φ) (g : Grid α) (adds n : Nat) (c : Cav)
    (hinv : SlotsInv c.faces) (hc : c.state ≠ .visible) (s : Refine.Model.Cavity.St) (c' : Cav)
    (h : visLoop g adds n c = .inl (.ret s c')) : c'.state ≠ .visible := by
  induction n generalizing c with
  | zero => simp [visLoop] at h
  | succ n ih =>
    unfold visLoop at h
    split at h
    · next c1 grew hsw =>
      obtain ⟨hstep, hst, _⟩ := visSweep_done hφ g adds c 0 false c1 grew hinv hsw
      split at h
      · cases h
      · split at h
        · cases h
        · next hne =>
          exact ih c1 hstep.finv (by rw [(hst hne).1]; decide) h
    · next s1 c1 hsw =>
      simp only [Sum.inl.injEq, Res.ret.injEq] at h
      obtain ⟨rfl, rfl⟩ := h
      exact visSweep_exit_state hφ g adds c 0 false hinv hc _ _ hsw
    · cases h

end loops

end Refine.Lemmas.Cavity2
