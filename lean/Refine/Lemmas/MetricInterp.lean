import Refine.Model.Metric
import Refine.Lemmas.ScalarReal
import Refine.Lemmas.MatrixReal
import Refine.Lemmas.MatrixFun
import Mathlib.Tactic.Ring
import Mathlib.Tactic.Linarith
import Mathlib.Tactic.LinearCombination

/-!
  Real-number side of the log-Euclidean combination `Σ wᵢ log Mᵢ` (C05): linear algebra on the six
  components, quadratic forms, Loewner bounds and their passage through an exact eigen decomposition.
-/
namespace Refine.Model.Metric
open Refine Refine.Scalar Refine.ScalarReal Refine.Model.Matrix
open Refine.Model.Geom (V3 B4)

/-- the combination loop over four donors, written out -/
theorem logCombine4_eq (w : B4 ℝ) (l0 l1 l2 l3 : M6 ℝ) :
    logCombine 4 w l0 l1 l2 l3 =
      ⟨w.b0 * l0.m11 + w.b1 * l1.m11 + w.b2 * l2.m11 + w.b3 * l3.m11,
       w.b0 * l0.m12 + w.b1 * l1.m12 + w.b2 * l2.m12 + w.b3 * l3.m12,
       w.b0 * l0.m13 + w.b1 * l1.m13 + w.b2 * l2.m13 + w.b3 * l3.m13,
       w.b0 * l0.m22 + w.b1 * l1.m22 + w.b2 * l2.m22 + w.b3 * l3.m22,
       w.b0 * l0.m23 + w.b1 * l1.m23 + w.b2 * l2.m23 + w.b3 * l3.m23,
       w.b0 * l0.m33 + w.b1 * l1.m33 + w.b2 * l2.m33 + w.b3 * l3.m33⟩ := by
  unfold logCombine
  simp only [zero_eq, add_eq, mul_eq, zero_add]
  rfl

/-- three donors (2-D background): the fourth slot is not read -/
theorem logCombine3_eq (w : B4 ℝ) (l0 l1 l2 l3 : M6 ℝ) :
    logCombine 3 w l0 l1 l2 l3 =
      ⟨w.b0 * l0.m11 + w.b1 * l1.m11 + w.b2 * l2.m11,
       w.b0 * l0.m12 + w.b1 * l1.m12 + w.b2 * l2.m12,
       w.b0 * l0.m13 + w.b1 * l1.m13 + w.b2 * l2.m13,
       w.b0 * l0.m22 + w.b1 * l1.m22 + w.b2 * l2.m22,
       w.b0 * l0.m23 + w.b1 * l1.m23 + w.b2 * l2.m23,
       w.b0 * l0.m33 + w.b1 * l1.m33 + w.b2 * l2.m33⟩ := by
  unfold logCombine
  simp only [zero_eq, add_eq, mul_eq, zero_add]
  rfl

/-- a field of symmetric matrices that is affine in position, component by component -/
def affM (L0 Lx Ly Lz : M6 ℝ) (p : V3 ℝ) : M6 ℝ :=
  ⟨L0.m11 + Lx.m11 * p.x + Ly.m11 * p.y + Lz.m11 * p.z,
   L0.m12 + Lx.m12 * p.x + Ly.m12 * p.y + Lz.m12 * p.z,
   L0.m13 + Lx.m13 * p.x + Ly.m13 * p.y + Lz.m13 * p.z,
   L0.m22 + Lx.m22 * p.x + Ly.m22 * p.y + Lz.m22 * p.z,
   L0.m23 + Lx.m23 * p.x + Ly.m23 * p.y + Lz.m23 * p.z,
   L0.m33 + Lx.m33 * p.x + Ly.m33 * p.y + Lz.m33 * p.z⟩

/-- `|x|²` -/
def normSq (x : Vec3 ℝ) : ℝ := x.x * x.x + x.y * x.y + x.z * x.z

/-- Loewner bounds `lo·I ≼ m ≼ hi·I`, i.e. the spectrum of `m` lies in `[lo, hi]` (Rayleigh quotient form) -/
def Between (lo hi : ℝ) (m : M6 ℝ) : Prop := ∀ x : Vec3 ℝ, lo * normSq x ≤ vtMv m x ∧ vtMv m x ≤ hi * normSq x

theorem vtMv_logCombine4 (w : B4 ℝ) (l0 l1 l2 l3 : M6 ℝ) (v : Vec3 ℝ) :
    vtMv (logCombine 4 w l0 l1 l2 l3) v =
      w.b0 * vtMv l0 v + w.b1 * vtMv l1 v + w.b2 * vtMv l2 v + w.b3 * vtMv l3 v := by
  rw [logCombine4_eq]
  simp only [vtMv, mul_eq, add_eq]; ring

theorem vtMv_logCombine3 (w : B4 ℝ) (l0 l1 l2 l3 : M6 ℝ) (v : Vec3 ℝ) :
    vtMv (logCombine 3 w l0 l1 l2 l3) v = w.b0 * vtMv l0 v + w.b1 * vtMv l1 v + w.b2 * vtMv l2 v := by
  rw [logCombine3_eq]
  simp only [vtMv, mul_eq, add_eq]; ring

/-- Parseval for an orthonormal frame: `Σ (v_k · x)² = |x|²` -/
theorem parseval {d : Eig12 ℝ} (ho : Orthonormal d) (x : Vec3 ℝ) :
    (d.x0 * x.x + d.y0 * x.y + d.z0 * x.z) ^ 2 + (d.x1 * x.x + d.y1 * x.y + d.z1 * x.z) ^ 2 +
      (d.x2 * x.x + d.y2 * x.y + d.z2 * x.z) ^ 2 = normSq x := by
  obtain ⟨r1, r2, r3, r4, r5, r6⟩ := ho.rows_eqs
  unfold normSq
  linear_combination (x.x * x.x) * r1 + (x.y * x.y) * r2 + (x.z * x.z) * r3 + (2 * x.x * x.y) * r4 +
    (2 * x.x * x.z) * r5 + (2 * x.y * x.z) * r6

theorem vtMv_formM_sq (d : Eig12 ℝ) (x : Vec3 ℝ) :
    vtMv (formM d) x =
      d.l0 * (d.x0 * x.x + d.y0 * x.y + d.z0 * x.z) ^ 2 +
      d.l1 * (d.x1 * x.x + d.y1 * x.y + d.z1 * x.z) ^ 2 +
      d.l2 * (d.x2 * x.x + d.y2 * x.y + d.z2 * x.z) ^ 2 := by
  simp only [vtMv, formM, mul_eq, add_eq]; ring

/-- eigenvalues in `[lo, hi]` and an orthonormal frame give Loewner bounds on the formed matrix -/
theorem between_of_eig {d : Eig12 ℝ} (ho : Orthonormal d) {lo hi : ℝ}
    (h0 : lo ≤ d.l0 ∧ d.l0 ≤ hi) (h1 : lo ≤ d.l1 ∧ d.l1 ≤ hi) (h2 : lo ≤ d.l2 ∧ d.l2 ≤ hi) :
    Between lo hi (formM d) := by
  intro x
  rw [vtMv_formM_sq, ← parseval ho x]
  set a0 := (d.x0 * x.x + d.y0 * x.y + d.z0 * x.z) ^ 2 with ha0
  set a1 := (d.x1 * x.x + d.y1 * x.y + d.z1 * x.z) ^ 2 with ha1
  set a2 := (d.x2 * x.x + d.y2 * x.y + d.z2 * x.z) ^ 2 with ha2
  have p0 : 0 ≤ a0 := sq_nonneg _
  have p1 : 0 ≤ a1 := sq_nonneg _
  have p2 : 0 ≤ a2 := sq_nonneg _
  constructor
  · nlinarith [mul_le_mul_of_nonneg_right h0.1 p0, mul_le_mul_of_nonneg_right h1.1 p1,
      mul_le_mul_of_nonneg_right h2.1 p2]
  · nlinarith [mul_le_mul_of_nonneg_right h0.2 p0, mul_le_mul_of_nonneg_right h1.2 p1,
      mul_le_mul_of_nonneg_right h2.2 p2]

/-- conversely the eigenvalues of an exact eigen system obey the Loewner bounds of the matrix
    (Rayleigh quotient at each eigenvector) -/
theorem eig_of_between {d : Eig12 ℝ} {m : M6 ℝ} (he : IsEigSys d m) {lo hi : ℝ} (hb : Between lo hi m) :
    (lo ≤ d.l0 ∧ d.l0 ≤ hi) ∧ (lo ≤ d.l1 ∧ d.l1 ≤ hi) ∧ (lo ≤ d.l2 ∧ d.l2 ≤ hi) := by
  obtain ⟨ho, hf⟩ := he
  have q0 : vtMv m ⟨d.x0, d.y0, d.z0⟩ = d.l0 := by
    rw [← hf, vtMv_formM_sq]
    have e0 : d.x0 * d.x0 + d.y0 * d.y0 + d.z0 * d.z0 = 1 := ho.n0
    have e1 : d.x1 * d.x0 + d.y1 * d.y0 + d.z1 * d.z0 = 0 := by linear_combination ho.p01
    have e2 : d.x2 * d.x0 + d.y2 * d.y0 + d.z2 * d.z0 = 0 := by linear_combination ho.p02
    simp only [e0, e1, e2]; ring
  have q1 : vtMv m ⟨d.x1, d.y1, d.z1⟩ = d.l1 := by
    rw [← hf, vtMv_formM_sq]
    have e0 : d.x0 * d.x1 + d.y0 * d.y1 + d.z0 * d.z1 = 0 := ho.p01
    have e1 : d.x1 * d.x1 + d.y1 * d.y1 + d.z1 * d.z1 = 1 := ho.n1
    have e2 : d.x2 * d.x1 + d.y2 * d.y1 + d.z2 * d.z1 = 0 := by linear_combination ho.p12
    simp only [e0, e1, e2]; ring
  have q2 : vtMv m ⟨d.x2, d.y2, d.z2⟩ = d.l2 := by
    rw [← hf, vtMv_formM_sq]
    have e0 : d.x0 * d.x2 + d.y0 * d.y2 + d.z0 * d.z2 = 0 := ho.p02
    have e1 : d.x1 * d.x2 + d.y1 * d.y2 + d.z1 * d.z2 = 0 := ho.p12
    have e2 : d.x2 * d.x2 + d.y2 * d.y2 + d.z2 * d.z2 = 1 := ho.n2
    simp only [e0, e1, e2]; ring
  have n0 : normSq ⟨d.x0, d.y0, d.z0⟩ = 1 := ho.n0
  have n1 : normSq ⟨d.x1, d.y1, d.z1⟩ = 1 := ho.n1
  have n2 : normSq ⟨d.x2, d.y2, d.z2⟩ = 1 := ho.n2
  have b0 := hb ⟨d.x0, d.y0, d.z0⟩
  have b1 := hb ⟨d.x1, d.y1, d.z1⟩
  have b2 := hb ⟨d.x2, d.y2, d.z2⟩
  rw [q0, n0, mul_one, mul_one] at b0
  rw [q1, n1, mul_one, mul_one] at b1
  rw [q2, n2, mul_one, mul_one] at b2
  exact ⟨b0, b1, b2⟩

/-- a function that is monotone on `[lo, hi]` carries Loewner bounds through an exact eigen system:
    `lo·I ≼ m ≼ hi·I ⇒ f(lo)·I ≼ f(m) ≼ f(hi)·I` -/
theorem between_fun {d : Eig12 ℝ} {m : M6 ℝ} (he : IsEigSys d m) {lo hi : ℝ} (hb : Between lo hi m)
    (f : ℝ → ℝ) (hmono : ∀ a b, lo ≤ a → a ≤ b → b ≤ hi → f a ≤ f b) :
    Between (f lo) (f hi) (formM (mapEig f d)) := by
  obtain ⟨e0, e1, e2⟩ := eig_of_between he hb
  have hlh : lo ≤ hi := le_trans e0.1 e0.2
  apply between_of_eig (orthonormal_mapEig f he.1)
  · exact ⟨hmono lo d.l0 le_rfl e0.1 e0.2, hmono d.l0 hi e0.1 e0.2 le_rfl⟩
  · exact ⟨hmono lo d.l1 le_rfl e1.1 e1.2, hmono d.l1 hi e1.1 e1.2 le_rfl⟩
  · exact ⟨hmono lo d.l2 le_rfl e2.1 e2.2, hmono d.l2 hi e2.1 e2.2 le_rfl⟩

end Refine.Model.Metric
