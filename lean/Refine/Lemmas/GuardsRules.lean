import Refine.Model.Guards
import Mathlib.Tactic.Linarith

/-!
  Combinatorial lemmas about the list view of the `ref_cell` queries and the face-id / mixed-element
  decision functions of `Refine/Model/Guards.lean`.
-/
namespace Refine.GuardsRules
open Refine Refine.Model Refine.Model.Guards

/-! ## `having`, `having2`, `nodeEmpty` -/

theorem mem_having {cells : List Cell} {n : Nat} {c : Cell} :
    c ∈ having cells n ↔ c ∈ cells ∧ n ∈ c.nodes := by
  unfold having
  simp only [List.mem_flatMap, List.mem_reverse, List.mem_replicate, ne_eq, List.count_eq_zero]
  constructor
  · rintro ⟨a, ha, hn, rfl⟩
    exact ⟨ha, by simpa using hn⟩
  · rintro ⟨hc, hn⟩
    exact ⟨c, hc, by simpa using hn, rfl⟩

theorem mem_having2 {cells : List Cell} {n0 n1 : Nat} {c : Cell} :
    c ∈ having2 cells n0 n1 ↔ c ∈ cells ∧ n0 ∈ c.nodes ∧ n1 ∈ c.nodes := by
  unfold having2
  simp only [List.mem_flatMap, List.mem_replicate, ne_eq, List.count_eq_zero]
  constructor
  · rintro ⟨a, ha, hn, rfl⟩
    have := mem_having.mp ha
    exact ⟨this.1, this.2, by simpa using hn⟩
  · rintro ⟨hc, h0, h1⟩
    exact ⟨c, mem_having.mpr ⟨hc, h0⟩, by simpa using h1, rfl⟩

theorem nodeEmpty_iff {cells : List Cell} {n : Nat} :
    nodeEmpty cells n = true ↔ ∀ c ∈ cells, n ∉ c.nodes := by
  unfold nodeEmpty
  rw [List.isEmpty_iff]
  constructor
  · intro h c hc hn
    have : c ∈ having cells n := mem_having.mpr ⟨hc, hn⟩
    rw [h] at this
    exact absurd this (List.not_mem_nil)
  · intro h
    apply List.eq_nil_iff_forall_not_mem.mpr
    intro c hc
    have := mem_having.mp hc
    exact h c this.1 this.2

/-! ## `ref_cell_id_list_around` -/

/-- what the loop of `ref_cell_id_list_around` returns in `ids` -/
theorem idListGo_spec (maxIds : Nat) (l : List Cell) (acc : List Int) (hnd : acc.Nodup) :
    (idListGo maxIds l acc).2.Nodup ∧
    (∀ x ∈ acc, x ∈ (idListGo maxIds l acc).2) ∧
    (∀ x ∈ (idListGo maxIds l acc).2, x ∈ acc ∨ ∃ c ∈ l, c.id = x) ∧
    ((∀ c ∈ l, c.id ∈ (idListGo maxIds l acc).2) ∨ maxIds ≤ (idListGo maxIds l acc).2.length) ∧
    (acc.length ≤ maxIds → (idListGo maxIds l acc).2.length ≤ maxIds) := by
  induction l generalizing acc with
  | nil =>
    simp only [idListGo]
    exact ⟨hnd, fun x hx => hx, fun x hx => Or.inl hx, Or.inl (by simp), fun h => h⟩
  | cons c rest ih =>
    unfold idListGo
    by_cases h1 : acc.contains c.id = true
    · rw [if_pos h1]
      obtain ⟨a1, a2, a3, a4, a5⟩ := ih acc hnd
      refine ⟨a1, a2, ?_, ?_, a5⟩
      · intro x hx
        rcases a3 x hx with h | ⟨c', hc', e⟩
        · exact Or.inl h
        · exact Or.inr ⟨c', List.mem_cons_of_mem _ hc', e⟩
      · rcases a4 with h | h
        · left
          intro c' hc'
          rcases List.mem_cons.mp hc' with rfl | hr
          · exact a2 _ (by simpa using h1)
          · exact h c' hr
        · exact Or.inr h
    · rw [if_neg h1]
      by_cases h2 : acc.length ≥ maxIds
      · rw [if_pos h2]
        refine ⟨hnd, fun x hx => hx, fun x hx => Or.inl hx, Or.inr h2, fun h => h⟩
      · rw [if_neg h2]
        have hnot : c.id ∉ acc := by simpa using h1
        have hnd' : (acc ++ [c.id]).Nodup := by
          rw [List.nodup_append]
          refine ⟨hnd, by simp, ?_⟩
          intro a ha b hb
          rw [List.mem_singleton] at hb
          subst hb
          intro e; subst e; exact hnot ha
        obtain ⟨a1, a2, a3, a4, a5⟩ := ih (acc ++ [c.id]) hnd'
        refine ⟨a1, fun x hx => a2 x (List.mem_append_left _ hx), ?_, ?_, ?_⟩
        · intro x hx
          rcases a3 x hx with h | ⟨c', hc', e⟩
          · rcases List.mem_append.mp h with h | h
            · exact Or.inl h
            · rw [List.mem_singleton] at h
              exact Or.inr ⟨c, List.mem_cons_self, h.symm⟩
          · exact Or.inr ⟨c', List.mem_cons_of_mem _ hc', e⟩
        · rcases a4 with h | h
          · left
            intro c' hc'
            rcases List.mem_cons.mp hc' with rfl | hr
            · exact a2 _ (List.mem_append_right _ (List.mem_singleton.mpr rfl))
            · exact h c' hr
          · exact Or.inr h
        · intro _
          apply a5
          rw [List.length_append, List.length_singleton]
          omega

/-- the ids collected around a node: duplicate-free, every one is the id of a cell around the node, and
    either they are *all* the ids around the node or the limit was reached -/
theorem idListAround_spec (cells : List Cell) (n maxIds : Nat) :
    let r := (idListAround cells n maxIds).2
    r.Nodup ∧ (∀ x ∈ r, ∃ c ∈ cells, n ∈ c.nodes ∧ c.id = x) ∧
    ((∀ c ∈ cells, n ∈ c.nodes → c.id ∈ r) ∨ maxIds ≤ r.length) ∧ r.length ≤ maxIds := by
  intro r
  obtain ⟨a1, _, a3, a4, a5⟩ := idListGo_spec maxIds (having cells n) [] List.nodup_nil
  refine ⟨a1, ?_, ?_, a5 (Nat.zero_le _)⟩
  · intro x hx
    rcases a3 x hx with h | ⟨c, hc, e⟩
    · exact absurd h List.not_mem_nil
    · have := mem_having.mp hc
      exact ⟨c, this.1, this.2, e⟩
  · rcases a4 with h | h
    · exact Or.inl fun c hc hn => h c (mem_having.mpr ⟨hc, hn⟩)
    · exact Or.inr h

/-- three pairwise distinct members force length ≥ 3 -/
theorem length_ge_three {l : List Int} {a b c : Int} (ha : a ∈ l) (hb : b ∈ l) (hc : c ∈ l)
    (hab : a ≠ b) (hac : a ≠ c) (hbc : b ≠ c) : 3 ≤ l.length := by
  match l, ha, hb, hc with
  | [], ha, _, _ => exact absurd ha List.not_mem_nil
  | [x], ha, hb, _ =>
    rw [List.mem_singleton] at ha hb
    exact absurd (ha.trans hb.symm) hab
  | [x, y], ha, hb, hc =>
    simp only [List.mem_cons, List.not_mem_nil, or_false] at ha hb hc
    rcases ha with rfl | rfl <;> rcases hb with rfl | rfl <;> rcases hc with rfl | rfl <;> simp_all
  | _ :: _ :: _ :: _, _, _, _ => simp

/-! ## `ref_cell_has_side` -/

/-- a reported side belongs to a cell of the group that contains both nodes at table positions -/
theorem hasSide_true {e2n : List (Nat × Nat)} {cells : List Cell} {n0 n1 : Nat}
    (h : hasSide e2n cells n0 n1 = true) :
    ∃ c ∈ cells, n0 ∈ c.nodes ∧ ∃ p ∈ e2n,
      (n0 = c.nd p.1 ∧ n1 = c.nd p.2) ∨ (n0 = c.nd p.2 ∧ n1 = c.nd p.1) := by
  unfold hasSide at h
  rw [List.any_eq_true] at h
  obtain ⟨c, hc, h⟩ := h
  rw [List.any_eq_true] at h
  obtain ⟨p, hp, h⟩ := h
  have hm := mem_having.mp hc
  refine ⟨c, hm.1, hm.2, p, hp, ?_⟩
  simpa using h

theorem hasSide_false {e2n : List (Nat × Nat)} {cells : List Cell} {n0 n1 : Nat}
    (h : hasSide e2n cells n0 n1 = false) :
    ∀ c ∈ cells, n0 ∈ c.nodes → ∀ p ∈ e2n,
      ¬ ((n0 = c.nd p.1 ∧ n1 = c.nd p.2) ∨ (n0 = c.nd p.2 ∧ n1 = c.nd p.1)) := by
  intro c hc hn p hp hside
  have : hasSide e2n cells n0 n1 = true := by
    unfold hasSide
    rw [List.any_eq_true]
    refine ⟨c, mem_having.mpr ⟨hc, hn⟩, ?_⟩
    rw [List.any_eq_true]
    exact ⟨p, hp, by simpa using hside⟩
  rw [h] at this
  exact Bool.noConfusion this

theorem nd_mem {c : Cell} {k : Nat} (hk : k < c.nodes.length) : c.nd k ∈ c.nodes := by
  unfold Cell.nd
  rw [List.getD_eq_getElem?_getD, List.getElem?_eq_getElem hk, Option.getD_some]
  exact List.getElem_mem hk

/-- for a triangle (three nodes) every pair of distinct nodes is a side -/
theorem hasSide_tri_iff {cells : List Cell} {n0 n1 : Nat} (hw : ∀ c ∈ cells, c.nodes.length = 3)
    (hne : n0 ≠ n1) :
    hasSide e2nTri cells n0 n1 = true ↔ ∃ c ∈ cells, n0 ∈ c.nodes ∧ n1 ∈ c.nodes := by
  constructor
  · intro h
    obtain ⟨c, hc, hn, p, hp, hs⟩ := hasSide_true h
    refine ⟨c, hc, hn, ?_⟩
    have h3 := hw c hc
    have hp' : p = (0, 1) ∨ p = (1, 2) ∨ p = (2, 0) := by
      have : e2nTri = [(0, 1), (1, 2), (2, 0)] := by decide
      rw [this] at hp
      simpa using hp
    rcases hp' with rfl | rfl | rfl <;> rcases hs with ⟨_, h⟩ | ⟨_, h⟩ <;> rw [h] <;> apply nd_mem <;> omega
  · rintro ⟨c, hc, h0, h1⟩
    have h3 := hw c hc
    obtain ⟨a, b, d, hn⟩ : ∃ a b d, c.nodes = [a, b, d] := by
      match hcn : c.nodes, h3 with
      | [a, b, d], _ => exact ⟨a, b, d, rfl⟩
    unfold hasSide
    rw [List.any_eq_true]
    refine ⟨c, mem_having.mpr ⟨hc, h0⟩, ?_⟩
    have he : e2nTri = [(0, 1), (1, 2), (2, 0)] := by decide
    rw [he]
    simp only [Cell.nd, hn, List.any_cons, List.any_nil, List.getD_cons_zero, List.getD_cons_succ, Bool.or_false]
    rw [hn] at h0 h1
    simp only [List.mem_cons, List.not_mem_nil, or_false] at h0 h1
    rcases h0 with rfl | rfl | rfl <;> rcases h1 with rfl | rfl | rfl <;> simp_all

/-! ## frames: groups without the node are untouched by substitution / split -/

theorem subst_eq_self {c : Cell} {n1 n0 : Nat} (h : n1 ∉ c.nodes) : Cell.subst n1 n0 c = c := by
  unfold Cell.subst
  have : c.nodes.map (fun n => if (n == n1) = true then n0 else n) = c.nodes := by
    conv_rhs => rw [← List.map_id c.nodes]
    apply List.map_congr_left
    intro n hn
    have : n ≠ n1 := fun e => h (e ▸ hn)
    simp [this]
  cases c
  simp_all

theorem collapseGroup_eq_self {cells : List Cell} {n0 n1 : Nat} (h : ∀ c ∈ cells, n1 ∉ c.nodes) :
    collapseGroup cells n0 n1 = cells := by
  unfold collapseGroup
  have hf : cells.filter (fun c => !(c.nodes.contains n0 && c.nodes.contains n1)) = cells := by
    apply List.filter_eq_self.mpr
    intro c hc
    have := h c hc
    simp [this]
  rw [hf]
  conv_rhs => rw [← List.map_id cells]
  apply List.map_congr_left
  intro c hc
  exact subst_eq_self (h c hc)

theorem splitGroup_eq_self {cells : List Cell} {n0 n1 new : Nat}
    (h : ∀ c ∈ cells, ¬ (n0 ∈ c.nodes ∧ n1 ∈ c.nodes)) : splitGroup cells n0 n1 new = cells := by
  unfold splitGroup
  induction cells with
  | nil => rfl
  | cons c rest ih =>
    rw [List.flatMap_cons]
    have hc := h c List.mem_cons_self
    have : (c.nodes.contains n0 && c.nodes.contains n1) = false := by
      rw [Bool.and_eq_false_iff]
      by_cases h0 : n0 ∈ c.nodes
      · right; simpa using fun h1 => hc ⟨h0, h1⟩
      · left; simpa using h0
    rw [this]
    simp only [Bool.false_eq_true, if_false, List.singleton_append]
    rw [ih fun c' hc' => h c' (List.mem_cons_of_mem _ hc')]

/-! ## ids under the collapse kernel -/

theorem subst_id (n1 n0 : Nat) (c : Cell) : (Cell.subst n1 n0 c).id = c.id := rfl

theorem mem_collapseGroup {cells : List Cell} {n0 n1 : Nat} {d : Cell} :
    d ∈ collapseGroup cells n0 n1 ↔
      ∃ c ∈ cells, ¬ (n0 ∈ c.nodes ∧ n1 ∈ c.nodes) ∧ d = Cell.subst n1 n0 c := by
  unfold collapseGroup
  simp only [List.mem_map, List.mem_filter]
  constructor
  · rintro ⟨c, ⟨hc, hk⟩, rfl⟩
    refine ⟨c, hc, ?_, rfl⟩
    intro ⟨h0, h1⟩
    simp [h0, h1] at hk
  · rintro ⟨c, hc, hk, rfl⟩
    refine ⟨c, ⟨hc, ?_⟩, rfl⟩
    by_cases h0 : n0 ∈ c.nodes
    · have : n1 ∉ c.nodes := fun h1 => hk ⟨h0, h1⟩
      simp [this]
    · simp [h0]

end Refine.GuardsRules
