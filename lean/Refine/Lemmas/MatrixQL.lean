import Refine.Lemmas.MatrixRot0

/-!
  The implicit QL loop of `ref_matrix_diag_m` over ℝ: every vector update is a plane rotation with
  c² + s² = 1, so the vectors stay orthonormal through any number of sweeps.  Proved for both
  settings of `relativeConvergence`.
-/
namespace Refine.Model.Matrix
open Refine Refine.ScalarReal

/-! ### plane rotations keep orthonormality -/

theorem rotVec_orthonormal (i : Nat) (c s : ℝ) (h : c * c + s * s = 1) {d : Eig12 ℝ} (ho : Orthonormal d) :
    Orthonormal (rotVec i c s d) := by
  obtain ⟨n0, n1, n2, p01, p02, p12⟩ := ho
  rcases i with _ | i
  · refine ⟨?_, ?_, n2, ?_, ?_, ?_⟩ <;> simp only [rotVec, mul_eq, add_eq, sub_eq]
    · linear_combination (c * c) * n0 + (s * s) * n1 - (2 * c * s) * p01 + h
    · linear_combination (s * s) * n0 + (c * c) * n1 + (2 * c * s) * p01 + h
    · linear_combination (c * s) * n0 - (c * s) * n1 + (c * c - s * s) * p01
    · linear_combination c * p02 - s * p12
    · linear_combination s * p02 + c * p12
  · refine ⟨n0, ?_, ?_, ?_, ?_, ?_⟩ <;> simp only [rotVec, mul_eq, add_eq, sub_eq]
    · linear_combination (c * c) * n1 + (s * s) * n2 - (2 * c * s) * p12 + h
    · linear_combination (s * s) * n1 + (c * c) * n2 + (2 * c * s) * p12 + h
    · linear_combination c * p01 - s * p02
    · linear_combination s * p01 + c * p02
    · linear_combination (c * s) * n1 - (c * s) * n2 + (c * c - s * s) * p12

theorem orthonormal_setD {st : QL ℝ} (i : Nat) (v : ℝ) (h : Orthonormal st.d) : Orthonormal (st.setD i v).d := by
  rcases i with _ | _ | i <;> exact ⟨h.n0, h.n1, h.n2, h.p01, h.p02, h.p12⟩

theorem orthonormal_setE {st : QL ℝ} (i : Nat) (v : ℝ) (h : Orthonormal st.d) : Orthonormal (st.setE i v).d := by
  rcases i with _ | _ | i <;> exact h

/-! ### field bookkeeping -/

@[simp] theorem setD_getE (st : QL ℝ) (i k : Nat) (v : ℝ) : (st.setD i v).getE k = st.getE k := by
  rcases i with _ | _ | i <;> rcases k with _ | _ | k <;> rfl

@[simp] theorem setD_tst1 (st : QL ℝ) (i : Nat) (v : ℝ) : (st.setD i v).tst1 = st.tst1 := by
  rcases i with _ | _ | i <;> rfl

@[simp] theorem setE_tst1 (st : QL ℝ) (i : Nat) (v : ℝ) : (st.setE i v).tst1 = st.tst1 := by
  rcases i with _ | _ | i <;> rfl

@[simp] theorem setD_e0 (st : QL ℝ) (i : Nat) (v : ℝ) : (st.setD i v).e0 = st.e0 := by
  rcases i with _ | _ | i <;> rfl
@[simp] theorem setD_e1 (st : QL ℝ) (i : Nat) (v : ℝ) : (st.setD i v).e1 = st.e1 := by
  rcases i with _ | _ | i <;> rfl
@[simp] theorem setD_e2 (st : QL ℝ) (i : Nat) (v : ℝ) : (st.setD i v).e2 = st.e2 := by
  rcases i with _ | _ | i <;> rfl

theorem getE_congr {st st' : QL ℝ} (h0 : st'.e0 = st.e0) (h1 : st'.e1 = st.e1) (h2 : st'.e2 = st.e2)
    (k : Nat) : st'.getE k = st.getE k := by
  rcases k with _ | _ | k <;> simp only [QL.getE, h0, h1, h2]

theorem shift_getE (l k : Nat) (st : QL ℝ) : (shift l st).getE k = st.getE k := by
  apply getE_congr <;> unfold shift <;> dsimp only <;> split_ifs <;> simp only [setD_e0, setD_e1, setD_e2]

theorem shift_tst1 (l : Nat) (st : QL ℝ) : (shift l st).tst1 = st.tst1 := by
  unfold shift
  dsimp only
  split_ifs <;> simp only [setD_tst1]

theorem shift_orthonormal (l : Nat) {st : QL ℝ} (h : Orthonormal st.d) : Orthonormal (shift l st).d := by
  unfold shift
  dsimp only
  split_ifs
  · exact orthonormal_setD _ _ (orthonormal_setD _ _ (orthonormal_setD _ _ h))
  · exact orthonormal_setD _ _ (orthonormal_setD _ _ h)

/-! ### the inner step is a plane rotation -/

theorem rot_unit (P E : ℝ) (hE : E ≠ 0) :
    P / Real.sqrt (P * P + E * E) * (P / Real.sqrt (P * P + E * E)) +
    E / Real.sqrt (P * P + E * E) * (E / Real.sqrt (P * P + E * E)) = 1 := by
  have hpos : 0 < P * P + E * E := by
    have := mul_self_pos.mpr hE
    nlinarith [mul_self_nonneg P]
  have hr : Real.sqrt (P * P + E * E) ≠ 0 := (Real.sqrt_pos.mpr hpos).ne'
  have hrr : Real.sqrt (P * P + E * E) * Real.sqrt (P * P + E * E) = P * P + E * E :=
    Real.mul_self_sqrt hpos.le
  generalize Real.sqrt (P * P + E * E) = r at hr hrr ⊢
  field_simp
  linear_combination -hrr

theorem sqrt_sumsq_pos (P E : ℝ) (hE : E ≠ 0) : 0 < Real.sqrt (P * P + E * E) := by
  apply Real.sqrt_pos.mpr
  have := mul_self_pos.mpr hE
  nlinarith [mul_self_nonneg P]

theorem innerStep_orthonormal (i : Nat) (w : Sweep ℝ) (he : w.st.getE i ≠ 0) (ho : Orthonormal w.st.d) :
    Orthonormal (innerStep i w).st.d := by
  unfold innerStep
  dsimp only
  apply rotVec_orthonormal
  · simp only [div_eq, mul_eq, add_eq, sqrt_eq]
    exact rot_unit _ _ he
  · exact orthonormal_setD _ _ (orthonormal_setE _ _ ho)

theorem innerStep_tst1 (i : Nat) (w : Sweep ℝ) : (innerStep i w).st.tst1 = w.st.tst1 := by
  unfold innerStep
  dsimp only
  rw [setD_tst1, setE_tst1]

theorem innerLoop_tst1 (n top : Nat) (w : Sweep ℝ) : (innerLoop n top w).st.tst1 = w.st.tst1 := by
  induction n generalizing top w with
  | zero => rfl
  | succ n ih => unfold innerLoop; rw [ih, innerStep_tst1]

theorem sweep_tst1 (l mm : Nat) (st : QL ℝ) : (sweep l mm st).tst1 = st.tst1 := by
  unfold sweep
  dsimp only
  rw [setD_tst1, setE_tst1, innerLoop_tst1, shift_tst1]

/-- a sweep over a 2x2 block (mm = l + 1): one rotation -/
theorem sweep_orthonormal_1 (l : Nat) (st : QL ℝ) (ho : Orthonormal st.d)
    (he : st.getE l ≠ 0) : Orthonormal (sweep l (l + 1) st).d := by
  unfold sweep
  dsimp only
  apply orthonormal_setD
  apply orthonormal_setE
  have hloop : ∀ w : Sweep ℝ, innerLoop (l + 1 - l) (l + 1) w = innerStep l w := by
    intro w
    have : l + 1 - l = 1 := by omega
    rw [this]
    rfl
  rw [hloop]
  apply innerStep_orthonormal
  · show (shift l st).getE l ≠ 0
    rw [shift_getE]; exact he
  · exact shift_orthonormal l ho

/-- a sweep over the full 3x3 block (l = 0, mm = 2): two rotations; the middle sub-diagonal entry stays non-zero -/
theorem sweep_orthonormal_2 (st : QL ℝ) (ho : Orthonormal st.d) (he0 : st.getE 0 ≠ 0) (he1 : st.getE 1 ≠ 0) :
    Orthonormal (sweep 0 2 st).d ∧ (sweep 0 2 st).getE 1 ≠ 0 := by
  have hloop : ∀ w : Sweep ℝ, innerLoop (2 - 0) 2 w = innerStep 0 (innerStep 1 w) := fun w => rfl
  have h0 : ∀ k, (shift 0 st).getE k = st.getE k := fun k => shift_getE 0 k st
  have e0' : (shift 0 st).e0 ≠ 0 := by
    have := h0 0; change (shift 0 st).e0 = st.e0 at this; rw [this]; exact he0
  have e1' : (shift 0 st).e1 ≠ 0 := by
    have := h0 1; change (shift 0 st).e1 = st.e1 at this; rw [this]; exact he1
  constructor
  · unfold sweep
    dsimp only
    apply orthonormal_setD
    apply orthonormal_setE
    rw [hloop]
    apply innerStep_orthonormal
    · show (innerStep 1 _).st.e0 ≠ 0
      show (shift 0 st).e0 ≠ 0
      exact e0'
    · apply innerStep_orthonormal
      · show (shift 0 st).getE 1 ≠ 0
        rw [h0]; exact he1
      · exact shift_orthonormal 0 ho
  · unfold sweep
    dsimp only
    rw [hloop]
    show (innerStep 0 (innerStep 1 _)).st.e1 ≠ 0
    generalize shift 0 st = s1 at e0' e1'
    simp only [innerStep, QL.getE, QL.setE, QL.setD, QL.getD, mul_eq, div_eq, add_eq, sqrt_eq, sub_eq,
      one_eq, zero_eq]
    apply mul_ne_zero
    · apply div_ne_zero e1'
      exact (sqrt_sumsq_pos _ _ e1').ne'
    · exact (sqrt_sumsq_pos _ _ e0').ne'

/-! ### the convergence test (both settings of the switch) -/

/-- a zero sub-diagonal entry passes the convergence test (needs `0 ≤ tst1` for the relative variant) -/
theorem isSmall_of_zero (st : QL ℝ) (i : Nat) (ht : 0 ≤ st.tst1) (he : st.getE i = 0) : st.isSmall i = true := by
  unfold QL.isSmall
  dsimp only
  rw [he]
  have hz : Scalar.cabs (Scalar.sub (Scalar.add st.tst1 (Scalar.cabs (0 : ℝ))) st.tst1) = 0 := by
    rw [cabs_eq, cabs_eq, add_eq, sub_eq]; simp
  rw [hz]
  cases relativeConvergence
  · simp only [Bool.false_eq_true, if_false, lt_iff, ofDec_eq]; norm_num
  · simp only [if_true, le_iff, ofDec_eq, mul_eq]
    apply mul_nonneg _ ht; norm_num

theorem ne_zero_of_not_isSmall (st : QL ℝ) (i : Nat) (ht : 0 ≤ st.tst1) (h : st.isSmall i = false) :
    st.getE i ≠ 0 := by
  intro he
  rw [isSmall_of_zero st i ht he] at h
  exact absurd h (by decide)

/-- the search `for (mm = l; mm < 3; mm++)` returns the first index that passes the test -/
theorem findSmall_spec (st : QL ℝ) (n mm : Nat) :
    mm ≤ st.findSmall mm n ∧ st.findSmall mm n ≤ mm + n ∧
    ∀ i, mm ≤ i → i < st.findSmall mm n → st.isSmall i = false := by
  induction n generalizing mm with
  | zero =>
    refine ⟨Nat.le_refl _, Nat.le_refl _, ?_⟩
    intro i h1 h2
    unfold QL.findSmall at h2
    omega
  | succ n ih =>
    unfold QL.findSmall
    by_cases hs : st.isSmall mm = true
    · rw [if_pos hs]
      refine ⟨Nat.le_refl _, by omega, ?_⟩
      intro i h1 h2; omega
    · rw [if_neg hs]
      obtain ⟨a, b, c⟩ := ih (mm + 1)
      refine ⟨by omega, by omega, ?_⟩
      intro i h1 h2
      by_cases hi : i = mm
      · rw [hi]; exact Bool.eq_false_iff.mpr hs
      · exact c i (by omega) h2

/-! ### the loops -/

/-- loop invariant of the `do … while` loop for the block l..mm -/
structure QLInv (l mm : Nat) (st : QL ℝ) : Prop where
  orth : Orthonormal st.d
  tst : 0 ≤ st.tst1
  sub : ∀ i, l ≤ i → i < mm → st.getE i ≠ 0

theorem sweep_inv (l mm : Nat) (hl : l < mm) (hm : mm ≤ 2) (st : QL ℝ) (h : QLInv l mm st) :
    Orthonormal (sweep l mm st).d ∧ 0 ≤ (sweep l mm st).tst1 ∧
    ∀ i, l < i → i < mm → (sweep l mm st).getE i ≠ 0 := by
  have ht : 0 ≤ (sweep l mm st).tst1 := by rw [sweep_tst1]; exact h.tst
  have hcases : (mm = l + 1) ∨ (l = 0 ∧ mm = 2) := by omega
  rcases hcases with e | ⟨e0, e2⟩
  · subst e
    refine ⟨sweep_orthonormal_1 l st h.orth (h.sub l (Nat.le_refl _) (by omega)), ht, ?_⟩
    intro i h1 h2; omega
  · subst e0; subst e2
    obtain ⟨a, b⟩ := sweep_orthonormal_2 st h.orth (h.sub 0 (by omega) (by omega)) (h.sub 1 (by omega) (by omega))
    refine ⟨a, ht, ?_⟩
    intro i h1 h2
    have : i = 1 := by omega
    rw [this]; exact b

theorem qlLoop_inv (fuel l mm : Nat) (hl : l < mm) (hm : mm ≤ 2) (st st' : QL ℝ) (h : QLInv l mm st)
    (hq : qlLoop fuel l mm st = .ok st') : Orthonormal st'.d ∧ 0 ≤ st'.tst1 := by
  induction fuel generalizing st with
  | zero => unfold qlLoop at hq; exact absurd hq (by simp)
  | succ fuel ih =>
    unfold qlLoop at hq
    dsimp only at hq
    obtain ⟨a, b, c⟩ := sweep_inv l mm hl hm st h
    by_cases hs : (sweep l mm st).isSmall l = true
    · rw [if_pos hs] at hq
      injection hq with hq
      rw [← hq]; exact ⟨a, b⟩
    · rw [if_neg hs] at hq
      apply ih (sweep l mm st) _ hq
      refine ⟨a, b, ?_⟩
      intro i h1 h2
      by_cases hi : i = l
      · rw [hi]; exact ne_zero_of_not_isSmall _ _ b (Bool.eq_false_iff.mpr hs)
      · exact c i (by omega) h2

/-- invariant between rows: orthonormal vectors, non-negative `tst1` -/
theorem rowStep_inv (l : Nat) (hl : l ≤ 2) (st st' : QL ℝ) (ho : Orthonormal st.d) (ht : 0 ≤ st.tst1)
    (h : rowStep l st = .ok st') : Orthonormal st'.d ∧ 0 ≤ st'.tst1 := by
  unfold rowStep at h
  dsimp only at h
  set h0 := Scalar.add (Scalar.cabs (st.getD l)) (Scalar.cabs (st.getE l)) with hh0
  have hh : (0 : ℝ) ≤ h0 := by
    rw [hh0, add_eq, cabs_eq, cabs_eq]; positivity
  set st1 : QL ℝ := if Scalar.lt st.tst1 h0 = true then { st with tst1 := h0 } else st with hst1
  have ho1 : Orthonormal st1.d := by
    rw [hst1]; split_ifs <;> exact ho
  have ht1 : 0 ≤ st1.tst1 := by
    rw [hst1]; split_ifs
    · exact hh
    · exact ht
  have hsub : ∀ i, st1.getE i = st.getE i := by
    intro i; rw [hst1]; split_ifs
    · rcases i with _ | _ | i <;> rfl
    · rfl
  obtain ⟨f1, f2, f3⟩ := findSmall_spec st1 (3 - l) l
  generalize st1.findSmall l (3 - l) = mm at h f1 f2 f3
  by_cases h3 : (mm == 3) = true
  · rw [if_pos h3] at h; exact absurd h (by simp)
  rw [if_neg h3] at h
  have hmm : mm ≤ 2 := by
    have : mm ≠ 3 := by simpa using h3
    omega
  by_cases hne : (mm != l) = true
  · rw [if_pos hne] at h
    have hlt : l < mm := by
      have : mm ≠ l := by simpa using hne
      omega
    split at h
    · rename_i st2 hq
      injection h with h
      have inv : QLInv l mm st1 := ⟨ho1, ht1, fun i h1 h2 => ne_zero_of_not_isSmall _ _ ht1 (f3 i h1 h2)⟩
      obtain ⟨a, b⟩ := qlLoop_inv 30 l mm hlt hmm st1 st2 inv hq
      rw [← h]
      exact ⟨orthonormal_setD _ _ a, by rw [setD_tst1]; exact b⟩
    · exact absurd h (by simp)
  · rw [if_neg hne] at h
    injection h with h
    rw [← h]
    exact ⟨orthonormal_setD _ _ ho1, by rw [setD_tst1]; exact ht1⟩

/-- `ref_matrix_diag_m`: every vector update of the QL iteration is a plane rotation with c² + s² = 1, so
    whatever the number of sweeps, a successful run returns orthonormal vectors -/
theorem diagM_orthonormal' (m : M6 ℝ) (d : Eig12 ℝ) (h : diagM m = .ok d) : Orthonormal d := by
  unfold diagM at h
  split_ifs at h
  split at h
  · exact absurd h (by simp)
  rename_i s1 h1
  split at h
  · exact absurd h (by simp)
  rename_i s2 h2
  split at h
  · exact absurd h (by simp)
  rename_i s3 h3
  injection h with h
  obtain ⟨a1, b1⟩ := rowStep_inv 0 (by omega) _ _ (rot0_spec m).1 (by rw [rot0_tst1]) h1
  obtain ⟨a2, b2⟩ := rowStep_inv 1 (by omega) _ _ a1 b1 h2
  obtain ⟨a3, _⟩ := rowStep_inv 2 (by omega) _ _ a2 b2 h3
  rw [← h]; exact a3


/-! ### diagonal input (used for the non-vacuity examples of `Props/C16.lean`) -/

/-- state after a row is accepted without a sweep -/
def acceptRow (l : Nat) (st : QL ℝ) (t : ℝ) : QL ℝ := ({ st with tst1 := t } : QL ℝ).setD l (st.getD l + st.f)

/-- a row whose sub-diagonal entry is exactly zero is accepted without any sweep: `d[l] += f` -/
theorem rowStep_of_zero (l : Nat) (hl : l ≤ 2) (st : QL ℝ) (ht : 0 ≤ st.tst1) (he : st.getE l = 0) :
    ∃ t : ℝ, 0 ≤ t ∧ rowStep l st = .ok (acceptRow l st t) := by
  unfold rowStep acceptRow
  dsimp only
  set h0 := Scalar.add (Scalar.cabs (st.getD l)) (Scalar.cabs (st.getE l)) with hh0
  have hh : (0 : ℝ) ≤ h0 := by
    rw [hh0, add_eq, cabs_eq, cabs_eq]; positivity
  by_cases hc : Scalar.lt st.tst1 h0 = true
  · rw [if_pos hc]
    refine ⟨h0, hh, ?_⟩
    have hs : ({ st with tst1 := h0 } : QL ℝ).isSmall l = true :=
      isSmall_of_zero _ l hh (by rcases l with _ | _ | l <;> exact he)
    have hf : ({ st with tst1 := h0 } : QL ℝ).findSmall l (3 - l) = l := by
      have : 3 - l = (2 - l) + 1 := by omega
      rw [this]; unfold QL.findSmall; rw [if_pos hs]
    rw [hf]
    have h3 : (l == 3) = false := by simp; omega
    simp only [h3, Bool.false_eq_true, if_false, bne_self_eq_false]
    rcases l with _ | _ | l <;> rfl
  · rw [if_neg hc]
    refine ⟨st.tst1, ht, ?_⟩
    have hs : st.isSmall l = true := isSmall_of_zero _ l ht he
    have hf : st.findSmall l (3 - l) = l := by
      have : 3 - l = (2 - l) + 1 := by omega
      rw [this]; unfold QL.findSmall; rw [if_pos hs]
    rw [hf]
    have h3 : (l == 3) = false := by simp; omega
    simp only [h3, Bool.false_eq_true, if_false, bne_self_eq_false]
    rfl

theorem acceptRow_tst1 (l : Nat) (st : QL ℝ) (t : ℝ) : (acceptRow l st t).tst1 = t := by
  unfold acceptRow; rw [setD_tst1]

theorem acceptRow_getE (l k : Nat) (st : QL ℝ) (t : ℝ) : (acceptRow l st t).getE k = st.getE k := by
  unfold acceptRow; rw [setD_getE]; rcases k with _ | _ | k <;> rfl

/-- a diagonal matrix is returned as it is, with the identity as eigenvectors -/
theorem diagM_diagonal' (a b c : ℝ) :
    diagM (⟨a, 0, 0, b, 0, c⟩ : M6 ℝ) = .ok ⟨a, b, c, 1, 0, 0, 0, 1, 0, 0, 0, 1⟩ := by
  have hrot : rot0 (⟨a, 0, 0, b, 0, c⟩ : M6 ℝ) =
      { d := ⟨a, b, c, 1, 0, 0, 0, 1, 0, 0, 0, 1⟩, e0 := 0, e1 := 0, e2 := 0, f := 0, tst1 := 0 } := by
    unfold rot0
    dsimp only
    have hL : Scalar.sqrt (Scalar.add (Scalar.mul (0 : ℝ) 0) (Scalar.mul (0 : ℝ) 0)) = 0 := by
      rw [sqrt_eq, add_eq, mul_eq]; simp
    rw [hL]
    have hd : Scalar.divisible (0 : ℝ) 0 = false := by
      rw [Bool.eq_false_iff]; intro h; exact divisible_ne_zero h rfl
    simp only [hd, Bool.false_and, Bool.false_eq_true, if_false, one_eq, zero_eq]
  unfold diagM
  simp only [M6.allFinite, isFinite_eq, Bool.and_self, Bool.not_true, Bool.false_eq_true, if_false, hrot]
  set st0 : QL ℝ :=
    { d := ⟨a, b, c, 1, 0, 0, 0, 1, 0, 0, 0, 1⟩, e0 := 0, e1 := 0, e2 := 0, f := 0, tst1 := 0 } with hst0
  obtain ⟨t0, ht0, r0⟩ := rowStep_of_zero 0 (by omega) st0 (le_refl _) rfl
  rw [r0]
  dsimp only
  obtain ⟨t1, ht1, r1⟩ := rowStep_of_zero 1 (by omega) (acceptRow 0 st0 t0)
    (by rw [acceptRow_tst1]; exact ht0) (by rw [acceptRow_getE]; rfl)
  rw [r1]
  dsimp only
  obtain ⟨t2, _, r2⟩ := rowStep_of_zero 2 (by omega) (acceptRow 1 (acceptRow 0 st0 t0) t1)
    (by rw [acceptRow_tst1]; exact ht1) (by rw [acceptRow_getE, acceptRow_getE]; rfl)
  rw [r2]
  simp [acceptRow, QL.setD, QL.getD, hst0]

theorem formM_diag (a b c : ℝ) : formM (⟨a, b, c, 1, 0, 0, 0, 1, 0, 0, 0, 1⟩ : Eig12 ℝ) = ⟨a, 0, 0, b, 0, c⟩ := by
  apply M6.ext' <;> simp only [formM, mul_eq, add_eq] <;> ring

theorem isEigSys_diag (a b c : ℝ) : IsEigSys ⟨a, b, c, 1, 0, 0, 0, 1, 0, 0, 0, 1⟩ (⟨a, 0, 0, b, 0, c⟩ : M6 ℝ) := by
  refine ⟨⟨?_, ?_, ?_, ?_, ?_, ?_⟩, formM_diag a b c⟩ <;> simp

theorem multM0M1M0_diag (a b c x y z : ℝ) :
    multM0M1M0 (⟨a, 0, 0, b, 0, c⟩ : M6 ℝ) ⟨x, 0, 0, y, 0, z⟩ = ⟨a * x * a, 0, 0, b * y * b, 0, c * z * c⟩ := by
  apply M6.ext' <;> simp only [multM0M1M0, multM, mul_eq, add_eq] <;> ring

end Refine.Model.Matrix
