import Refine.Lemmas.PartMeshbClauses
import Mathlib.Data.List.Perm.Basic

/-! gathering the world of the parallel meshb reader gives back what rank 0 read from the file -/
namespace Refine.Lemmas.PartMeshb
open Refine.Model.Meshb Refine.Model.PartMeshb
open Refine.Model.Comm (World)
open Refine.Model.Dist
open Refine.Gen.PartMacros

theorem flatten_eq_flatMap_range {α : Type} (l : List (List α)) :
    l.flatten = (List.range l.length).flatMap fun r => l.getD r [] := by
  induction l with
  | nil => simp
  | cons a l ih =>
    rw [List.flatten_cons, List.length_cons, List.range_succ_eq_map, List.flatMap_cons, List.flatMap_map, ih]
    simp

section Gather
variable {np : Nat} {p : Parsed} {w : World PRank} {cad : Bytes}

theorem gatherNodes_eq (hnp : 1 ≤ np) (hp : ParsedOK np p) (hF : FinalP np p cad w) :
    gatherNodes w = p.blocks.flatten := by
  unfold gatherNodes
  rw [zipIdx_flatMap, hF.len, flatten_eq_flatMap_range, hp.blocks.1]
  apply List.flatMap_congr
  intro r hr
  have hr' := List.mem_range.1 hr
  simp only
  rw [hF.own r hr', ownedNodes_base hp.nn hnp, List.map_map]
  have : ((fun n : PNode => n.xyz.getD default) ∘ fun vi : Vertex × Nat =>
      ({ glob := firstOf p.nnode np r + (vi.2 : Int), part := (r : Int), xyz := some vi.1 } : PNode)) =
      fun vi => vi.1 := rfl
  rw [this, List.zipIdx_map_fst]

theorem cellOwnerOf_eq (hF : FinalP np p cad w) (r : Nat) (hr : r < np) (j : Nat) (ci : CellInfo)
    (hci : cellInfos[j]? = some ci) (c : Cell) (hc : c ∈ (w.getD r default).group j) :
    cellOwnerOf (w.getD r default) ci.nodePer c = ownerFn p.nnode np (c.take ci.nodePer) := by
  unfold cellOwnerOf ownerFn
  congr 1
  apply List.map_congr_left
  intro g hg
  rw [(hF.inv r hr).partOf_eq g ((hF.inv r hr).verts j ci hci c hc g hg)]

/-- the gathered cells of a group are the cells of the file (as stored: id through `(REF_INT)`), each once -/
theorem gatherGroup_perm (hnp : 1 ≤ np) (hp : ParsedOK np p) (hF : FinalP np p cad w) (j : Nat) (ci : CellInfo)
    (hci : cellInfos[j]? = some ci) :
    (gatherGroup w j ci.nodePer).Perm ((fileGroup p j).map (norm ci)) := by
  have hci2 : 2 ≤ ci.nodePer := cellInfos_nodePer_pos ci (List.mem_of_getElem? hci)
  have hdist : Distinct ci (fileGroup p j) := by
    unfold fileGroup
    cases h2 : p.groups[j]? with
    | none => simp [List.getD_eq_getElem?_getD, h2, Distinct]
    | some chs =>
      have hz : (ci, chs) ∈ cellInfos.zip p.groups :=
        List.mem_iff_getElem?.2 ⟨j, List.getElem?_zip_eq_some.2 ⟨hci, h2⟩⟩
      simp only [List.getD_eq_getElem?_getD, h2, Option.getD_some]
      exact hp.dist _ hz
  -- what rank r contributes
  have hpiece : ∀ r, r < np → ∀ c, c ∈ ((w.getD r default).group j).filter
      (fun c => cellOwnerOf (w.getD r default) ci.nodePer c == (r : Int)) ↔
      c ∈ (w.getD r default).group j ∧ ownerFn p.nnode np (c.take ci.nodePer) = (r : Int) := by
    intro r hr c
    rw [List.mem_filter]
    constructor
    · rintro ⟨h1, h2⟩
      rw [cellOwnerOf_eq hF r hr j ci hci c h1, beq_iff_eq] at h2
      exact ⟨h1, h2⟩
    · rintro ⟨h1, h2⟩
      exact ⟨h1, by rw [cellOwnerOf_eq hF r hr j ci hci c h1, beq_iff_eq]; exact h2⟩
  have hgrpnd : ∀ r, r < np → ((w.getD r default).group j).Nodup := by
    intro r hr
    rw [hF.grp r hr j]
    unfold finalGroup
    rw [hci]
    cases h2 : p.groups[j]? with
    | none => simp
    | some chs =>
      simp only
      have hz : (ci, chs) ∈ cellInfos.zip p.groups :=
        List.mem_iff_getElem?.2 ⟨j, List.getElem?_zip_eq_some.2 ⟨hci, h2⟩⟩
      exact finalRaw_norm_nodup (hp.dist _ hz)
  rw [List.perm_ext_iff_of_nodup]
  · intro c
    unfold gatherGroup
    rw [zipIdx_flatMap, hF.len, List.mem_flatMap]
    constructor
    · rintro ⟨r, hr, hc⟩
      have hr' := List.mem_range.1 hr
      obtain ⟨h1, _⟩ := (hpiece r hr' c).1 hc
      rw [hF.grp r hr' j, mem_finalGroup hnp hp j r hr'] at h1
      obtain ⟨ci', hci', c0, hc0, rfl, _⟩ := h1
      rw [hci] at hci'; injection hci' with hci'; subst hci'
      exact List.mem_map.2 ⟨c0, hc0, rfl⟩
    · intro hc
      obtain ⟨c0, hc0, rfl⟩ := List.mem_map.1 hc
      obtain ⟨hok, _⟩ := fileGroup_ok hp j ci hci c0 hc0
      have hne : c0.take ci.nodePer ≠ [] := by
        intro h
        have := congrArg List.length h
        simp only [List.length_take, List.length_nil] at this
        have := hok.len
        omega
      obtain ⟨g, hg, hog⟩ := ownerFn_mem p.nnode np _ hne
      obtain ⟨g0, g1⟩ := hok.2 g hg
      obtain ⟨i0, i1⟩ := imp_range (N := p.nnode) hnp g0 g1
      have hq : (imp p.nnode np g).toNat < np := by omega
      have htq : touches p.nnode np ci (imp p.nnode np g).toNat c0 = true :=
        (touches_iff _ _ _ _ _).2 ⟨g, hg, by rw [Int.toNat_of_nonneg i0]⟩
      refine ⟨(imp p.nnode np g).toNat, List.mem_range.2 hq, ?_⟩
      rw [hpiece _ hq]
      refine ⟨rank_stores hnp hp hF _ hq j ci hci c0 hc0 htq, ?_⟩
      rw [norm_take ci c0 hok.len, hog, Int.toNat_of_nonneg i0]
  · unfold gatherGroup
    rw [zipIdx_flatMap, hF.len, List.nodup_flatMap]
    constructor
    · intro r hr
      exact (hgrpnd r (List.mem_range.1 hr)).filter _
    · have : (List.range np).Pairwise (· ≠ ·) := List.nodup_range
      apply List.Pairwise.imp_of_mem _ this
      intro r r' hr hr' hne c h1 h2
      have e1 := ((hpiece r (List.mem_range.1 hr) c).1 h1).2
      have e2 := ((hpiece r' (List.mem_range.1 hr') c).1 h2).2
      have : (r : Int) = (r' : Int) := e1.symm.trans e2
      exact hne (by exact_mod_cast this)
  · exact hdist.2

theorem cad_eq (hF : FinalP np p cad w) : ∀ st ∈ w, st.cad = cad := by
  intro st hst
  obtain ⟨r, hr, rfl⟩ := List.getElem_of_mem hst
  have hr' : r < np := by rw [← hF.len]; exact hr
  have := hF.cad r hr'
  rw [List.getD_eq_getElem?_getD, List.getElem?_eq_getElem hr] at this
  exact this

end Gather

end Refine.Lemmas.PartMeshb
