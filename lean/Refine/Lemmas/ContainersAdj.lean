import Refine.Model.ContainersAdj
import Mathlib.Data.List.Basic
import Mathlib.Data.List.Nodup
import Mathlib.Data.List.Perm.Subperm
import Mathlib.Data.List.Range

/-!
  Lemmas about the executable model of `ref_adj.c` (`Refine.Model.RAdj`).

  The invariant `Inv` is witness based: there is a list `B` of the blank items (in chain order)
  and for each node `v` a list `C v` of its items (in chain order); these lists are duplicate
  free, pairwise disjoint and cover `[0, nitem)`.  Chains are described by the inductive
  predicate `IsChain`, so that the fuel of `walk` never has to be reasoned about directly.
-/

open Refine.Model

namespace Refine.Model.RAdj

/-! ### list helpers -/

theorem natCast_ne_EMPTY (i : Nat) : (i : Int) ≠ EMPTY := by unfold EMPTY; omega

theorem getD_set_ne {α : Type} (l : List α) {i j : Nat} (x d : α) (h : i ≠ j) :
    (l.set i x).getD j d = l.getD j d := by
  simp [List.getD_eq_getElem?_getD, List.getElem?_set_ne h]

theorem getD_set_self {α : Type} (l : List α) {i : Nat} (x d : α) (h : i < l.length) :
    (l.set i x).getD i d = x := by
  simp [List.getD_eq_getElem?_getD, List.getElem?_set_self h]

theorem getD_append_lt {α : Type} (l e : List α) {i : Nat} (d : α) (h : i < l.length) :
    (l ++ e).getD i d = l.getD i d := by
  simp [List.getD_eq_getElem?_getD, List.getElem?_append_left h]

theorem getD_append_replicate {α : Type} (l : List α) (n i : Nat) (d : α) :
    (l ++ List.replicate n d).getD i d = l.getD i d := by
  by_cases h : i < l.length
  · exact getD_append_lt _ _ _ h
  · have h' : l.length ≤ i := Nat.le_of_not_lt h
    simp only [List.getD_eq_getElem?_getD, List.getElem?_append_right h']
    rw [List.getElem?_eq_none (l := l) h']
    by_cases h2 : i - l.length < n
    · simp [h2]
    · simp [h2]

theorem getD_replicate {α : Type} (n i : Nat) (d : α) : (List.replicate n d).getD i d = d := by
  simpa using getD_append_replicate ([] : List α) n i d

/-- pigeonhole: a duplicate free list of naturals below `n` has at most `n` entries -/
theorem length_le_of_nodup_lt {l : List Nat} {n : Nat} (hd : l.Nodup) (hlt : ∀ k ∈ l, k < n) :
    l.length ≤ n := by
  have hs : l ⊆ List.range n := fun k hk => List.mem_range.mpr (hlt k hk)
  simpa using (List.subperm_of_subset hd hs).length_le

/-! ### chains -/

/-- `IsChain next start l`: following `next` from `start` visits exactly the items `l`
    (all in range) and then reaches `EMPTY`. -/
inductive IsChain (next : List Int) : Int → List Nat → Prop
  | nil : IsChain next EMPTY []
  | cons {i : Nat} {l : List Nat} : i < next.length → IsChain next (next.getD i EMPTY) l →
      IsChain next (i : Int) (i :: l)

theorem IsChain.of_empty {next : List Int} {l : List Nat} (h : IsChain next EMPTY l) : l = [] := by
  generalize hs : EMPTY = st at h
  cases h with
  | nil => rfl
  | cons _ _ => exact absurd hs.symm (natCast_ne_EMPTY _)

theorem IsChain.of_nat {next : List Int} {i : Nat} {l : List Nat} (h : IsChain next (i : Int) l) :
    ∃ l', l = i :: l' ∧ i < next.length ∧ IsChain next (next.getD i EMPTY) l' := by
  generalize hs : (i : Int) = st at h
  cases h with
  | nil => exact absurd hs (natCast_ne_EMPTY _)
  | @cons j l' hj hl =>
    have : i = j := by omega
    subst this
    exact ⟨l', rfl, hj, hl⟩

theorem IsChain.of_cons {next : List Int} {st : Int} {i : Nat} {l : List Nat}
    (h : IsChain next st (i :: l)) :
    st = (i : Int) ∧ i < next.length ∧ IsChain next (next.getD i EMPTY) l := by
  cases h with
  | cons hj hl => exact ⟨rfl, hj, hl⟩

theorem IsChain.of_nil {next : List Int} {st : Int} (h : IsChain next st []) : st = EMPTY := by
  cases h with
  | nil => rfl

theorem IsChain.of_ne_empty {next : List Int} {st : Int} {l : List Nat} (h : IsChain next st l)
    (hne : st ≠ EMPTY) :
    ∃ (i : Nat) (l' : List Nat), st = (i : Int) ∧ l = i :: l' ∧ i < next.length ∧ IsChain next (next.getD i EMPTY) l' := by
  cases h with
  | nil => exact absurd rfl hne
  | @cons j l' hj hl => exact ⟨j, l', rfl, rfl, hj, hl⟩

theorem IsChain.lt {next : List Int} {st : Int} {l : List Nat} (h : IsChain next st l) :
    ∀ k ∈ l, k < next.length := by
  induction h with
  | nil => simp
  | cons hi _ ih =>
    intro k hk
    rcases List.mem_cons.mp hk with rfl | hk
    · exact hi
    · exact ih k hk

/-- chains are unique -/
theorem IsChain.unique {next : List Int} {st : Int} {l₁ l₂ : List Nat} (h₁ : IsChain next st l₁)
    (h₂ : IsChain next st l₂) : l₁ = l₂ := by
  induction h₁ generalizing l₂ with
  | nil => exact h₂.of_empty.symm
  | cons _ _ ih =>
    obtain ⟨l', rfl, _, hl'⟩ := h₂.of_nat
    rw [ih hl']

/-- a chain does not see writes to `next` outside of it -/
theorem IsChain.set {next : List Int} {st : Int} {l : List Nat} (h : IsChain next st l)
    {i : Nat} (x : Int) (hi : i ∉ l) : IsChain (next.set i x) st l := by
  induction h with
  | nil => exact .nil
  | @cons j l hj _ ih =>
    have hij : i ≠ j := fun e => hi (e ▸ List.mem_cons_self)
    have hil : i ∉ l := fun e => hi (List.mem_cons_of_mem _ e)
    refine .cons (by simpa using hj) ?_
    rw [getD_set_ne _ _ _ hij]
    exact ih hil

/-- a chain does not see an extension of `next` -/
theorem IsChain.append {next : List Int} {st : Int} {l : List Nat} (h : IsChain next st l)
    (e : List Int) : IsChain (next ++ e) st l := by
  induction h with
  | nil => exact .nil
  | @cons j l hj _ ih =>
    refine .cons (by simp; omega) ?_
    rw [getD_append_lt _ _ _ hj]
    exact ih

/-- with enough fuel, `walk` lists exactly the chain -/
theorem IsChain.walk_eq {next : List Int} {st : Int} {l : List Nat} (h : IsChain next st l) :
    ∀ fuel, l.length ≤ fuel → walk next fuel st = l.map (fun k : Nat => (k : Int)) := by
  induction h with
  | nil =>
    intro fuel _
    cases fuel <;> simp [walk]
  | @cons j l hj _ ih =>
    intro fuel hf
    cases fuel with
    | zero => simp at hf
    | succ f =>
      have hf' : l.length ≤ f := by simpa using hf
      simp only [walk, natCast_ne_EMPTY, if_false, Int.toNat_natCast, List.map_cons, ih f hf']

theorem walk_empty (next : List Int) (fuel : Nat) : walk next fuel EMPTY = [] := by
  cases fuel <;> simp [walk]

/-- the freshly appended run of items `[orig, orig+chunk)` is a chain ending in `EMPTY` -/
theorem getD_freshNext (next : List Int) (chunk k : Nat) (hk : k < chunk) :
    (next ++ freshNext next.length chunk).getD (next.length + k) EMPTY =
      if k + 1 = chunk then EMPTY else ((next.length + k + 1 : Nat) : Int) := by
  simp [List.getD_eq_getElem?_getD, freshNext, hk]

theorem isChain_fresh_aux (next : List Int) (chunk : Nat) :
    ∀ m k, k + (m + 1) = chunk →
      IsChain (next ++ freshNext next.length chunk) ((next.length + k : Nat) : Int)
        (List.range' (next.length + k) (m + 1)) := by
  intro m
  induction m with
  | zero =>
    intro k hk
    refine .cons (by simp [freshNext]; omega) ?_
    rw [getD_freshNext next chunk k (by omega), if_pos hk]
    exact .nil
  | succ m ih =>
    intro k hk
    rw [List.range'_succ]
    refine .cons (by simp [freshNext]; omega) ?_
    rw [getD_freshNext next chunk k (by omega), if_neg (by omega)]
    exact ih (k + 1) (by omega)

theorem isChain_fresh (next : List Int) (chunk : Nat) (hc : 0 < chunk) :
    IsChain (next ++ freshNext next.length chunk) (next.length : Int)
      (List.range' next.length chunk) := by
  obtain ⟨m, rfl⟩ : ∃ m, chunk = m + 1 := ⟨chunk - 1, by omega⟩
  exact isChain_fresh_aux next (m + 1) m 0 (by omega)

/-! ### the invariant -/

/-- `Wit s B C`: `B` lists the blank items and `C v` the items of node `v`, in chain order. -/
structure Wit (s : RAdj) (B : List Nat) (C : Nat → List Nat) : Prop where
  ref_len : s.ref.length = s.next.length
  nitem_le : s.next.length ≤ INT_MAX
  chainB : IsChain s.next s.blank B
  chainC : ∀ v, IsChain s.next (s.first.getD v EMPTY) (C v)
  nodupB : B.Nodup
  nodupC : ∀ v, (C v).Nodup
  disjBC : ∀ v, ∀ k ∈ B, k ∉ C v
  disjCC : ∀ v w, v ≠ w → ∀ k ∈ C v, k ∉ C w
  cover : ∀ k, k < s.next.length → k ∈ B ∨ ∃ v, k ∈ C v
  blank_ref : ∀ k ∈ B, s.ref.getD k EMPTY = EMPTY

/-- the structural invariant of `REF_ADJ` -/
def Inv (s : RAdj) : Prop := ∃ (B : List Nat) (C : Nat → List Nat), Wit s B C

variable {s : RAdj} {B : List Nat} {C : Nat → List Nat}

theorem getD_oob {α : Type} (l : List α) {i : Nat} (d : α) (h : l.length ≤ i) : l.getD i d = d := by
  simp [List.getD_eq_getElem?_getD, List.getElem?_eq_none h]

/-- nodes beyond `nnode` have no items -/
theorem Wit.C_out (w : Wit s B C) (v : Nat) (hv : s.first.length ≤ v) : C v = [] := by
  have h := w.chainC v
  rw [getD_oob _ _ hv] at h
  exact h.of_empty

theorem Wit.C_lt (w : Wit s B C) (v : Nat) : ∀ k ∈ C v, k < s.next.length := (w.chainC v).lt

theorem Wit.C_length (w : Wit s B C) (v : Nat) : (C v).length ≤ s.nitem :=
  length_le_of_nodup_lt (w.nodupC v) (w.C_lt v)

theorem Wit.B_length (w : Wit s B C) : B.length ≤ s.nitem :=
  length_le_of_nodup_lt w.nodupB w.chainB.lt

theorem firstOf_nat (s : RAdj) (n : Nat) :
    s.firstOf (n : Int) = if n < s.first.length then s.first.getD n EMPTY else EMPTY := by
  unfold firstOf nnode
  by_cases h : n < s.first.length
  · simp [h]
  · simp [h]

theorem firstOf_neg (s : RAdj) (node : Int) (h : node < 0) : s.firstOf node = EMPTY := by
  unfold firstOf
  rw [if_neg]
  omega

/-- the chain of node `n` starts at `firstOf n` (also for `n ≥ nnode`) -/
theorem Wit.chain_firstOf (w : Wit s B C) (n : Nat) : IsChain s.next (s.firstOf (n : Int)) (C n) := by
  rw [firstOf_nat]
  by_cases h : n < s.first.length
  · rw [if_pos h]; exact w.chainC n
  · rw [if_neg h, w.C_out n (Nat.le_of_not_lt h)]; exact .nil

theorem Wit.walk_firstOf (w : Wit s B C) (n : Nat) (fuel : Nat) (hf : s.nitem ≤ fuel) :
    walk s.next fuel (s.firstOf (n : Int)) = (C n).map (fun k : Nat => (k : Int)) :=
  (w.chain_firstOf n).walk_eq fuel (Nat.le_trans (w.C_length n) hf)

theorem Wit.itemsOf_nat (w : Wit s B C) (n : Nat) :
    s.itemsOf (n : Int) = (C n).map (fun k : Nat => (k : Int)) :=
  w.walk_firstOf n s.nitem (Nat.le_refl _)

theorem itemsOf_neg (s : RAdj) (node : Int) (h : node < 0) : s.itemsOf node = [] := by
  unfold itemsOf
  rw [firstOf_neg s node h, walk_empty]

theorem refsOf_neg (s : RAdj) (node : Int) (h : node < 0) : s.refsOf node = [] := by
  unfold refsOf
  rw [itemsOf_neg s node h]; rfl

theorem refOf_nat (s : RAdj) (k : Nat) : s.refOf (k : Int) = s.ref.getD k EMPTY := by
  simp [refOf]

theorem Wit.refsOf_nat (w : Wit s B C) (n : Nat) :
    s.refsOf (n : Int) = (C n).map (fun k : Nat => s.ref.getD k EMPTY) := by
  unfold refsOf
  rw [w.itemsOf_nat n, List.map_map]
  apply List.map_congr_left
  intro k _
  simp [refOf]

theorem Wit.blankItems_eq (w : Wit s B C) :
    s.blankItems = B.map (fun k : Nat => (k : Int)) :=
  w.chainB.walk_eq s.nitem w.B_length

/-! ### `create` -/

theorem wit_create : Wit create (List.range' 0 20) (fun _ => []) where
  ref_len := by simp [create, freshNext]
  nitem_le := by simp [create, freshNext, INT_MAX]
  chainB := isChain_fresh [] 20 (by omega)
  chainC := by
    intro v
    have : create.first.getD v EMPTY = EMPTY := getD_replicate 10 v EMPTY
    rw [this]; exact .nil
  nodupB := List.nodup_range'
  nodupC := fun _ => List.nodup_nil
  disjBC := by simp
  disjCC := by simp
  cover := by
    intro k hk
    left
    have : k < 20 := by simpa [create, freshNext] using hk
    simp [List.mem_range']
    omega
  blank_ref := by
    intro k _
    exact getD_replicate 20 k EMPTY

theorem inv_create : Inv create := ⟨_, _, wit_create⟩

/-! ### `growNodes` -/

@[simp] theorem growNodes_next (s : RAdj) (node : Int) : (s.growNodes node).next = s.next := by
  unfold growNodes; split <;> rfl

@[simp] theorem growNodes_ref (s : RAdj) (node : Int) : (s.growNodes node).ref = s.ref := by
  unfold growNodes; split <;> rfl

@[simp] theorem growNodes_blank (s : RAdj) (node : Int) : (s.growNodes node).blank = s.blank := by
  unfold growNodes; split <;> rfl

@[simp] theorem growNodes_nitem (s : RAdj) (node : Int) : (s.growNodes node).nitem = s.nitem := by
  unfold nitem; rw [growNodes_next]

theorem growNodes_first_getD (s : RAdj) (node : Int) (v : Nat) :
    (s.growNodes node).first.getD v EMPTY = s.first.getD v EMPTY := by
  unfold growNodes; split
  · exact getD_append_replicate _ _ _ _
  · rfl

theorem growNodes_length_le (s : RAdj) (node : Int) :
    s.first.length ≤ (s.growNodes node).first.length := by
  unfold growNodes; split
  · simp
  · exact Nat.le_refl _

theorem growNodes_lt (s : RAdj) (n : Nat) (hlt : n < INT_MAX) :
    n < (s.growNodes (n : Int)).first.length := by
  unfold growNodes nnode; split
  · simp only [List.length_append, List.length_replicate, Int.toNat_natCast]
    unfold INT_MAX at *
    omega
  · omega

@[simp] theorem growNodes_firstOf (s : RAdj) (node m : Int) :
    (s.growNodes node).firstOf m = s.firstOf m := by
  rcases (by omega : m < 0 ∨ 0 ≤ m) with h | h
  · rw [firstOf_neg _ _ h, firstOf_neg _ _ h]
  · obtain ⟨n, rfl⟩ := Int.eq_ofNat_of_zero_le h
    rw [firstOf_nat, firstOf_nat, growNodes_first_getD]
    have hle := growNodes_length_le s node
    by_cases h1 : n < s.first.length
    · rw [if_pos h1, if_pos (by omega)]
    · rw [if_neg h1, getD_oob _ _ (Nat.le_of_not_lt h1)]; simp

@[simp] theorem growNodes_refsOf (s : RAdj) (node m : Int) :
    (s.growNodes node).refsOf m = s.refsOf m := by
  have : (s.growNodes node).refOf = s.refOf := by
    funext k; simp [refOf]
  simp [refsOf, itemsOf, this]

theorem wit_growNodes (w : Wit s B C) (node : Int) : Wit (s.growNodes node) B C where
  ref_len := by simpa using w.ref_len
  nitem_le := by simpa using w.nitem_le
  chainB := by simpa using w.chainB
  chainC := by
    intro v
    rw [growNodes_first_getD, growNodes_next]; exact w.chainC v
  nodupB := w.nodupB
  nodupC := w.nodupC
  disjBC := w.disjBC
  disjCC := w.disjCC
  cover := by simpa using w.cover
  blank_ref := by simpa using w.blank_ref

/-! ### `growItems` -/

/-- the number of items added by `growItems` -/
def growChunk (s : RAdj) : Nat := min (max 100 (s.nitem / 2)) (INT_MAX - s.nitem)

theorem growItems_eq (s : RAdj) : s.growItems =
    { s with next := s.next ++ freshNext s.nitem (growChunk s),
             ref := s.ref ++ List.replicate (growChunk s) EMPTY,
             blank := (s.nitem : Int) } := rfl

theorem length_freshNext (orig chunk : Nat) : (freshNext orig chunk).length = chunk := by
  simp [freshNext]

theorem wit_growItems (w : Wit s [] C) (hlt : s.nitem ≠ INT_MAX) :
    Wit s.growItems (List.range' s.nitem (growChunk s)) C := by
  have hle := w.nitem_le
  have hpos : 0 < growChunk s := by
    unfold growChunk nitem INT_MAX at *; omega
  have hsum : s.nitem + growChunk s ≤ INT_MAX := by
    unfold growChunk nitem INT_MAX at *; omega
  rw [growItems_eq]
  refine
    { ref_len := ?_, nitem_le := ?_, chainB := ?_, chainC := ?_, nodupB := List.nodup_range',
      nodupC := w.nodupC, disjBC := ?_, disjCC := w.disjCC, cover := ?_, blank_ref := ?_ }
  · simp [length_freshNext, w.ref_len]
  · simpa [length_freshNext, nitem] using hsum
  · exact isChain_fresh s.next (growChunk s) hpos
  · intro v; exact (w.chainC v).append _
  · intro v k hk hkC
    have h1 := w.C_lt v k hkC
    have h2 := (List.mem_range'_1.mp hk).1
    unfold nitem at h2; omega
  · intro k hk
    by_cases h1 : k < s.next.length
    · rcases w.cover k h1 with h | h
      · simp at h
      · exact Or.inr h
    · left
      simp only [List.length_append, length_freshNext] at hk
      refine List.mem_range'_1.mpr ⟨?_, hk⟩
      unfold nitem; omega
  · intro k hk
    have h2 := (List.mem_range'_1.mp hk).1
    show (s.ref ++ List.replicate (growChunk s) EMPTY).getD k EMPTY = EMPTY
    rw [getD_append_replicate, getD_oob]
    rw [w.ref_len]; exact h2

theorem growItems_first (s : RAdj) : s.growItems.first = s.first := rfl

theorem growItems_refsOf (w : Wit s [] C) (hlt : s.nitem ≠ INT_MAX) (m : Int) :
    s.growItems.refsOf m = s.refsOf m := by
  rcases (by omega : m < 0 ∨ 0 ≤ m) with h | h
  · rw [refsOf_neg _ _ h, refsOf_neg _ _ h]
  · obtain ⟨n, rfl⟩ := Int.eq_ofNat_of_zero_le h
    rw [(wit_growItems w hlt).refsOf_nat, w.refsOf_nat]
    apply List.map_congr_left
    intro k hk
    have h1 := w.C_lt n k hk
    show (s.ref ++ List.replicate (growChunk s) EMPTY).getD k EMPTY = _
    rw [getD_append_lt]
    rw [w.ref_len]; exact h1

/-! ### `link` -/

theorem link_eq {b : Nat} (hb : s.blank = (b : Int)) (n : Nat) (hn : n < s.first.length)
    (reference : Int) :
    s.link (n : Int) reference =
      { first := s.first.set n (b : Int), next := s.next.set b (s.first.getD n EMPTY),
        ref := s.ref.set b reference, blank := s.next.getD b EMPTY } := by
  simp [link, hb, firstOf_nat, hn, nextOf]

theorem wit_link {b : Nat} {B' : List Nat} (w : Wit s (b :: B') C) (n : Nat)
    (hn : n < s.first.length) (reference : Int) :
    Wit (s.link (n : Int) reference) B' (fun v => if v = n then b :: C n else C v) := by
  obtain ⟨hb, hbl, hB'⟩ := w.chainB.of_cons
  obtain ⟨hbB', hndB'⟩ := List.nodup_cons.mp w.nodupB
  have hbC : ∀ v, b ∉ C v := fun v => w.disjBC v b List.mem_cons_self
  rw [link_eq hb n hn]
  refine
    { ref_len := ?_, nitem_le := ?_, chainB := ?_, chainC := ?_, nodupB := hndB',
      nodupC := ?_, disjBC := ?_, disjCC := ?_, cover := ?_, blank_ref := ?_ }
  · simpa using w.ref_len
  · simpa using w.nitem_le
  · exact hB'.set _ hbB'
  · intro v
    by_cases hv : v = n
    · subst hv
      simp only [if_true]
      rw [getD_set_self _ _ _ hn]
      refine .cons (by simpa using hbl) ?_
      rw [getD_set_self _ _ _ hbl]
      exact (w.chainC v).set _ (hbC v)
    · simp only [if_neg hv]
      rw [getD_set_ne _ _ _ (Ne.symm hv)]
      exact (w.chainC v).set _ (hbC v)
  · intro v
    by_cases hv : v = n
    · subst hv
      simp only [if_true]
      exact List.nodup_cons.mpr ⟨hbC v, w.nodupC v⟩
    · simp only [if_neg hv]; exact w.nodupC v
  · intro v k hk
    have hkb : k ≠ b := fun e => hbB' (e ▸ hk)
    have := w.disjBC
    by_cases hv : v = n
    · subst hv
      simp only [if_true, List.mem_cons, not_or]
      exact ⟨hkb, w.disjBC v k (List.mem_cons_of_mem _ hk)⟩
    · simp only [if_neg hv]; exact w.disjBC v k (List.mem_cons_of_mem _ hk)
  · intro v v' hne k hk
    by_cases hv : v = n
    · subst hv
      have hv' : v' ≠ v := Ne.symm hne
      simp only [if_true, if_neg hv', List.mem_cons] at hk ⊢
      rcases hk with rfl | hk
      · exact hbC v'
      · exact w.disjCC v v' hne k hk
    · simp only [if_neg hv] at hk
      by_cases hv' : v' = n
      · subst hv'
        simp only [if_true, List.mem_cons, not_or]
        exact ⟨fun e => hbC v (e ▸ hk), w.disjCC v v' hne k hk⟩
      · simp only [if_neg hv']; exact w.disjCC v v' hne k hk
  · intro k hk
    have hk' : k < s.next.length := by simpa using hk
    rcases w.cover k hk' with h | ⟨v, h⟩
    · rcases List.mem_cons.mp h with rfl | h
      · exact Or.inr ⟨n, by simp⟩
      · exact Or.inl h
    · refine Or.inr ⟨v, ?_⟩
      by_cases hv : v = n
      · subst hv; simp [h]
      · simp [hv, h]
  · intro k hk
    have hkb : b ≠ k := fun e => hbB' (e ▸ hk)
    show (s.ref.set b reference).getD k EMPTY = EMPTY
    rw [getD_set_ne _ _ _ hkb]
    exact w.blank_ref k (List.mem_cons_of_mem _ hk)

theorem link_first_length {b : Nat} (hb : s.blank = (b : Int)) (n : Nat) (hn : n < s.first.length)
    (reference : Int) : (s.link (n : Int) reference).first.length = s.first.length := by
  rw [link_eq hb n hn]; simp

theorem link_refsOf_self {b : Nat} {B' : List Nat} (w : Wit s (b :: B') C) (n : Nat)
    (hn : n < s.first.length) (reference : Int) :
    (s.link (n : Int) reference).refsOf (n : Int) = reference :: s.refsOf (n : Int) := by
  obtain ⟨hb, hbl, hB'⟩ := w.chainB.of_cons
  have hbC : ∀ v, b ∉ C v := fun v => w.disjBC v b List.mem_cons_self
  rw [(wit_link w n hn reference).refsOf_nat, w.refsOf_nat, link_eq hb n hn]
  simp only [if_true, List.map_cons]
  rw [getD_set_self _ _ _ (by rw [w.ref_len]; exact hbl)]
  congr 1
  apply List.map_congr_left
  intro k hk
  exact getD_set_ne _ _ _ (fun e => hbC n (e ▸ hk))

theorem link_refsOf_other {b : Nat} {B' : List Nat} (w : Wit s (b :: B') C) (n : Nat)
    (hn : n < s.first.length) (reference : Int) (m : Int) (hm : m ≠ (n : Int)) :
    (s.link (n : Int) reference).refsOf m = s.refsOf m := by
  rcases (by omega : m < 0 ∨ 0 ≤ m) with h | h
  · rw [refsOf_neg _ _ h, refsOf_neg _ _ h]
  · obtain ⟨n', rfl⟩ := Int.eq_ofNat_of_zero_le h
    have hne : n' ≠ n := fun e => hm (by rw [e])
    obtain ⟨hb, hbl, hB'⟩ := w.chainB.of_cons
    have hbC : ∀ v, b ∉ C v := fun v => w.disjBC v b List.mem_cons_self
    rw [(wit_link w n hn reference).refsOf_nat, w.refsOf_nat, link_eq hb n hn]
    simp only [if_neg hne]
    apply List.map_congr_left
    intro k hk
    exact getD_set_ne _ _ _ (fun e => hbC n' (e ▸ hk))

/-! ### `add` -/

theorem add_negative (node reference : Int) (hn : node < 0) :
    s.add node reference = (s, Status.invalid) := by
  unfold add; rw [if_pos hn]

theorem add_eq_of_nonneg (s : RAdj) (node reference : Int) (hn : 0 ≤ node) :
    s.add node reference =
      if (s.growNodes node).blank = EMPTY then
        if (s.growNodes node).nitem = INT_MAX then (s.growNodes node, Status.failure)
        else ((s.growNodes node).growItems.link node reference, Status.ok)
      else ((s.growNodes node).link node reference, Status.ok) := by
  unfold add; rw [if_neg (by omega)]

theorem link_full {b : Nat} {B' : List Nat} (w : Wit s (b :: B') C) (n : Nat)
    (hn : n < s.first.length) (reference : Int) :
    Inv (s.link (n : Int) reference) ∧
    (s.link (n : Int) reference).nnode = s.nnode ∧
    (s.link (n : Int) reference).refsOf (n : Int) = reference :: s.refsOf (n : Int) ∧
    ∀ m : Int, m ≠ (n : Int) → (s.link (n : Int) reference).refsOf m = s.refsOf m :=
  ⟨⟨_, _, wit_link w n hn reference⟩, link_first_length w.chainB.of_cons.1 n hn reference,
    link_refsOf_self w n hn reference, link_refsOf_other w n hn reference⟩

/-- everything about `add` on a valid node, in one statement -/
theorem add_full (h : Inv s) (n : Nat) (reference : Int) (hlt : n < INT_MAX) :
    Inv (s.add (n : Int) reference).1 ∧ s.nnode ≤ (s.add (n : Int) reference).1.nnode ∧
    (((s.add (n : Int) reference).2 = Status.ok ∧ n < (s.add (n : Int) reference).1.nnode ∧
        (s.add (n : Int) reference).1.refsOf (n : Int) = reference :: s.refsOf (n : Int) ∧
        ∀ m : Int, m ≠ (n : Int) → (s.add (n : Int) reference).1.refsOf m = s.refsOf m) ∨
     ((s.add (n : Int) reference).2 = Status.failure ∧ s.blank = EMPTY ∧ s.nitem = INT_MAX ∧
        ∀ m : Int, (s.add (n : Int) reference).1.refsOf m = s.refsOf m)) := by
  obtain ⟨B, C, w⟩ := h
  have w1 := wit_growNodes w (n : Int)
  have hle := growNodes_length_le s (n : Int)
  have hn1 := growNodes_lt s n hlt
  rw [add_eq_of_nonneg s _ _ (by omega)]
  by_cases hb : (s.growNodes (n : Int)).blank = EMPTY
  · rw [if_pos hb]
    by_cases hfull : (s.growNodes (n : Int)).nitem = INT_MAX
    · rw [if_pos hfull]
      exact ⟨⟨B, C, w1⟩, hle, Or.inr ⟨rfl, by simpa using hb, by simpa using hfull,
        fun m => growNodes_refsOf s _ m⟩⟩
    · rw [if_neg hfull]
      have hB : B = [] := by
        have := w1.chainB; rw [hb] at this; exact this.of_empty
      subst hB
      have w2 := wit_growItems w1 hfull
      have hpos : 0 < growChunk (s.growNodes (n : Int)) := by
        have := w1.nitem_le
        unfold growChunk nitem INT_MAX at *; omega
      obtain ⟨c, hc⟩ : ∃ c, growChunk (s.growNodes (n : Int)) = c + 1 :=
        ⟨growChunk (s.growNodes (n : Int)) - 1, by omega⟩
      rw [hc, List.range'_succ] at w2
      have hn2 : n < (s.growNodes (n : Int)).growItems.first.length := hn1
      obtain ⟨hI, hnn, hself, hother⟩ := link_full w2 n hn2 reference
      refine ⟨hI, ?_, Or.inl ⟨rfl, ?_, ?_, ?_⟩⟩
      · show s.nnode ≤ ((s.growNodes (n : Int)).growItems.link (n : Int) reference).nnode
        rw [hnn]; exact hle
      · show n < ((s.growNodes (n : Int)).growItems.link (n : Int) reference).nnode
        rw [hnn]; exact hn1
      · show ((s.growNodes (n : Int)).growItems.link (n : Int) reference).refsOf (n : Int) = _
        rw [hself, growItems_refsOf w1 hfull, growNodes_refsOf]
      · intro m hm
        show ((s.growNodes (n : Int)).growItems.link (n : Int) reference).refsOf m = _
        rw [hother m hm, growItems_refsOf w1 hfull, growNodes_refsOf]
  · rw [if_neg hb]
    obtain ⟨b, B', hbb, rfl, -, -⟩ := w1.chainB.of_ne_empty hb
    obtain ⟨hI, hnn, hself, hother⟩ := link_full w1 n hn1 reference
    refine ⟨hI, ?_, Or.inl ⟨rfl, ?_, ?_, ?_⟩⟩
    · show s.nnode ≤ ((s.growNodes (n : Int)).link (n : Int) reference).nnode
      rw [hnn]; exact hle
    · show n < ((s.growNodes (n : Int)).link (n : Int) reference).nnode
      rw [hnn]; exact hn1
    · show ((s.growNodes (n : Int)).link (n : Int) reference).refsOf (n : Int) = _
      rw [hself, growNodes_refsOf]
    · intro m hm
      show ((s.growNodes (n : Int)).link (n : Int) reference).refsOf m = _
      rw [hother m hm, growNodes_refsOf]

/-- `ref_adj_add` on a valid node: the invariant is kept, the only failure is item exhaustion
    (`nitem = REF_INT_MAX` with an empty free list), and on success `reference` is pushed in front
    of `node`'s list while all other lists are unchanged. -/
theorem add_spec (h : Inv s) (node reference : Int) (hn : 0 ≤ node) (hlt : node < (INT_MAX : Int)) :
    Inv (s.add node reference).1 ∧
    ((s.add node reference).2 = Status.ok ∨
      ((s.add node reference).2 = Status.failure ∧ s.blank = EMPTY ∧ s.nitem = INT_MAX)) ∧
    ((s.add node reference).2 = Status.ok →
      (s.add node reference).1.refsOf node = reference :: s.refsOf node ∧
      ∀ m : Int, m ≠ node → (s.add node reference).1.refsOf m = s.refsOf m) := by
  obtain ⟨n, rfl⟩ := Int.eq_ofNat_of_zero_le hn
  obtain ⟨hI, -, hcase⟩ := add_full h n reference (by omega)
  refine ⟨hI, ?_, ?_⟩
  · rcases hcase with ⟨hok, -⟩ | ⟨hf, hb, hfull, -⟩
    · exact Or.inl hok
    · exact Or.inr ⟨hf, hb, hfull⟩
  · intro hok
    rcases hcase with ⟨-, -, hself, hother⟩ | ⟨hf, -⟩
    · exact ⟨hself, hother⟩
    · rw [hf] at hok; exact absurd hok (by decide)

/-- `add` never shrinks `first[]`, and on success `node` is in range afterwards -/
theorem add_nnode (h : Inv s) (node reference : Int) (hn : 0 ≤ node) (hlt : node < (INT_MAX : Int)) :
    s.nnode ≤ (s.add node reference).1.nnode ∧
    ((s.add node reference).2 = Status.ok → node < ((s.add node reference).1.nnode : Int)) := by
  obtain ⟨n, rfl⟩ := Int.eq_ofNat_of_zero_le hn
  obtain ⟨-, hle, hcase⟩ := add_full h n reference (by omega)
  refine ⟨hle, ?_⟩
  intro hok
  rcases hcase with ⟨-, hlt', -⟩ | ⟨hf, -⟩
  · omega
  · rw [hf] at hok; exact absurd hok (by decide)

/-- a failed `add` leaves all adjacency lists unchanged -/
theorem add_failure_refs (h : Inv s) (node reference : Int) (hn : 0 ≤ node)
    (hlt : node < (INT_MAX : Int)) (hf : (s.add node reference).2 = Status.failure) (m : Int) :
    (s.add node reference).1.refsOf m = s.refsOf m := by
  obtain ⟨n, rfl⟩ := Int.eq_ofNat_of_zero_le hn
  obtain ⟨-, -, hcase⟩ := add_full h n reference (by omega)
  rcases hcase with ⟨hok, -⟩ | ⟨-, -, -, hall⟩
  · rw [hok] at hf; exact absurd hf (by decide)
  · exact hall m

/-! ### `findLoop` -/

section findLoop
variable {next ref : List Int} {reference : Int}

theorem findLoop_head {t : Nat} (ht : ref.getD t EMPTY = reference) (fuel : Nat) (parent : Int) :
    findLoop next ref reference (fuel + 1) (t : Int) parent = ((t : Int), parent) := by
  simp only [findLoop, natCast_ne_EMPTY, if_false, Int.toNat_natCast, ht, if_true]

theorem findLoop_step {a : Nat} (ha : ref.getD a EMPTY ≠ reference) (fuel : Nat) (parent : Int) :
    findLoop next ref reference (fuel + 1) (a : Int) parent =
      findLoop next ref reference fuel (next.getD a EMPTY) (a : Int) := by
  simp only [findLoop, natCast_ne_EMPTY, if_false, Int.toNat_natCast, ha]

/-- the search loop stops at the first item carrying `reference`, with its predecessor as parent -/
theorem findLoop_hit {p t : Nat} {l2 : List Nat} (hp : ref.getD p EMPTY ≠ reference)
    (ht : ref.getD t EMPTY = reference) :
    ∀ (l1 : List Nat) (st parent : Int) (fuel : Nat), IsChain next st (l1 ++ p :: t :: l2) →
      (l1 ++ p :: t :: l2).length ≤ fuel → (∀ k ∈ l1, ref.getD k EMPTY ≠ reference) →
      findLoop next ref reference fuel st parent = ((t : Int), (p : Int)) := by
  intro l1
  induction l1 with
  | nil =>
    intro st parent fuel hc hf _
    obtain ⟨rfl, _, hc'⟩ := hc.of_cons
    obtain ⟨hnt, _, _⟩ := hc'.of_cons
    obtain ⟨f, rfl⟩ : ∃ f, fuel = f + 2 := ⟨fuel - 2, by simp at hf; omega⟩
    rw [findLoop_step hp, hnt, findLoop_head ht]
  | cons a l1 ih =>
    intro st parent fuel hc hf hall
    obtain ⟨rfl, _, hc'⟩ := hc.of_cons
    obtain ⟨f, rfl⟩ : ∃ f, fuel = f + 1 := ⟨fuel - 1, by simp at hf; omega⟩
    rw [findLoop_step (hall a List.mem_cons_self)]
    exact ih _ _ f hc' (by simpa using hf) (fun k hk => hall k (List.mem_cons_of_mem _ hk))

/-- the search loop reports `EMPTY` when no item of the chain carries `reference` -/
theorem findLoop_miss {st : Int} {l : List Nat} (hc : IsChain next st l)
    (hall : ∀ k ∈ l, ref.getD k EMPTY ≠ reference) :
    ∀ (fuel : Nat) (parent : Int), (findLoop next ref reference fuel st parent).1 = EMPTY := by
  induction hc with
  | nil =>
    intro fuel parent
    cases fuel <;> simp [findLoop]
  | @cons a l _ _ ih =>
    intro fuel parent
    cases fuel with
    | zero => simp [findLoop]
    | succ f =>
      rw [findLoop_step (hall a List.mem_cons_self)]
      exact ih (fun k hk => hall k (List.mem_cons_of_mem _ hk)) f _

end findLoop

/-- unlinking `t` (the successor of `p`) from a chain -/
theorem IsChain.unlink {next : List Int} {p t : Nat} {l2 : List Nat} :
    ∀ (l1 : List Nat) (st : Int), IsChain next st (l1 ++ p :: t :: l2) →
      (l1 ++ p :: t :: l2).Nodup →
      IsChain (next.set p (next.getD t EMPTY)) st (l1 ++ p :: l2) := by
  intro l1
  induction l1 with
  | nil =>
    intro st hc hnd
    obtain ⟨rfl, hp, hc'⟩ := hc.of_cons
    obtain ⟨_, _, hc''⟩ := hc'.of_cons
    have hpl2 : p ∉ l2 := by
      have := (List.nodup_cons.mp hnd).1
      exact fun e => this (List.mem_cons_of_mem _ e)
    refine .cons (by simpa using hp) ?_
    rw [getD_set_self _ _ _ hp]
    exact hc''.set _ hpl2
  | cons a l1 ih =>
    intro st hc hnd
    obtain ⟨rfl, ha, hc'⟩ := hc.of_cons
    obtain ⟨hnotin, hnd'⟩ := List.nodup_cons.mp hnd
    have hpa : p ≠ a := by
      intro e; apply hnotin; rw [e]; simp
    refine .cons (by simpa using ha) ?_
    rw [getD_set_ne _ _ _ hpa]
    exact ih _ hc' hnd'

/-- split a list at the first element satisfying `P`, when the head does not satisfy it -/
theorem split_first {α : Type} (P : α → Prop) :
    ∀ (l : List α) (a : α), ¬ P a → (∃ k ∈ l, P k) →
      ∃ l1 p t l2, a :: l = l1 ++ p :: t :: l2 ∧ (∀ k ∈ l1, ¬ P k) ∧ ¬ P p ∧ P t := by
  intro l
  induction l with
  | nil => intro a _ h; simp at h
  | cons b l ih =>
    intro a ha hex
    by_cases hb : P b
    · exact ⟨[], a, b, l, rfl, by simp, ha, hb⟩
    · have hex' : ∃ k ∈ l, P k := by
        obtain ⟨k, hk, hPk⟩ := hex
        rcases List.mem_cons.mp hk with rfl | hk
        · exact absurd hPk hb
        · exact ⟨k, hk, hPk⟩
      obtain ⟨l1, p, t, l2, heq, h1, h2, h3⟩ := ih b hb hex'
      refine ⟨a :: l1, p, t, l2, by rw [heq]; rfl, ?_, h2, h3⟩
      intro k hk
      rcases List.mem_cons.mp hk with rfl | hk
      · exact ha
      · exact h1 k hk

theorem map_erase_first {f : Nat → Int} {t : Nat} {l2 : List Nat} :
    ∀ (l1 : List Nat), (∀ k ∈ l1, f k ≠ f t) →
      ((l1 ++ t :: l2).map f).erase (f t) = (l1 ++ l2).map f := by
  intro l1
  induction l1 with
  | nil => intro _; simp
  | cons a l1 ih =>
    intro h
    have ha : f a ≠ f t := h a List.mem_cons_self
    have := ih (fun k hk => h k (List.mem_cons_of_mem _ hk))
    simp only [List.cons_append, List.map_cons] at this ⊢
    rw [List.erase_cons_tail (by simpa using ha), this]

/-! ### `release` and `remove` -/

/-- generic step: item `t` leaves the chain of node `n` (leaving `R`) and is pushed on the free list -/
theorem wit_release (w : Wit s B C) (n t : Nat) (R : List Nat) (first' nx : List Int)
    (hmem : ∀ k, k ∈ C n ↔ k = t ∨ k ∈ R) (htR : t ∉ R) (hRnd : R.Nodup)
    (hlen : nx.length = s.next.length)
    (hfirst : ∀ v, v ≠ n → first'.getD v EMPTY = s.first.getD v EMPTY)
    (hR : IsChain nx (first'.getD n EMPTY) R)
    (hkeep : ∀ st l, IsChain s.next st l → (∀ k ∈ l, k ∉ C n) → IsChain nx st l) :
    Wit (s.release (t : Int) first' nx) (t :: B) (fun v => if v = n then R else C v) := by
  have htC : t ∈ C n := (hmem t).mpr (Or.inl rfl)
  have htlt : t < s.next.length := w.C_lt n t htC
  have htB : t ∉ B := fun e => w.disjBC n t e htC
  have htCv : ∀ v, v ≠ n → t ∉ C v := fun v hv e => w.disjCC v n hv t e htC
  have hRsub : ∀ k ∈ R, k ∈ C n := fun k hk => (hmem k).mpr (Or.inr hk)
  have hBn : ∀ k ∈ B, k ∉ C n := w.disjBC n
  show Wit { first := first', next := nx.set (t : Int).toNat s.blank,
             ref := s.ref.set (t : Int).toNat EMPTY, blank := (t : Int) } _ _
  rw [Int.toNat_natCast]
  refine
    { ref_len := ?_, nitem_le := ?_, chainB := ?_, chainC := ?_, nodupB := ?_,
      nodupC := ?_, disjBC := ?_, disjCC := ?_, cover := ?_, blank_ref := ?_ }
  · simpa [hlen] using w.ref_len
  · simpa [hlen] using w.nitem_le
  · refine .cons (by simpa [hlen] using htlt) ?_
    rw [getD_set_self _ _ _ (by rw [hlen]; exact htlt)]
    exact (hkeep _ _ w.chainB hBn).set _ htB
  · intro v
    by_cases hv : v = n
    · subst hv
      simp only [if_true]
      exact hR.set _ htR
    · simp only [if_neg hv]
      show IsChain _ (first'.getD v EMPTY) _
      rw [hfirst v hv]
      exact (hkeep _ _ (w.chainC v) (w.disjCC v n hv)).set _ (htCv v hv)
  · exact List.nodup_cons.mpr ⟨htB, w.nodupB⟩
  · intro v
    by_cases hv : v = n
    · subst hv; simpa using hRnd
    · simp only [if_neg hv]; exact w.nodupC v
  · intro v k hk
    by_cases hv : v = n
    · subst hv
      simp only [if_true]
      rcases List.mem_cons.mp hk with rfl | hk
      · exact htR
      · exact fun e => w.disjBC v k hk (hRsub k e)
    · simp only [if_neg hv]
      rcases List.mem_cons.mp hk with rfl | hk
      · exact htCv v hv
      · exact w.disjBC v k hk
  · intro v v' hne k hk
    by_cases hv : v = n
    · subst hv
      have hv' : v' ≠ v := Ne.symm hne
      simp only [if_true, if_neg hv'] at hk ⊢
      exact w.disjCC v v' hne k (hRsub k hk)
    · simp only [if_neg hv] at hk
      by_cases hv' : v' = n
      · subst hv'
        simp only [if_true]
        exact fun e => w.disjCC v v' hne k hk (hRsub k e)
      · simp only [if_neg hv']; exact w.disjCC v v' hne k hk
  · intro k hk
    have hk' : k < s.next.length := by simpa [hlen] using hk
    rcases w.cover k hk' with h | ⟨v, h⟩
    · exact Or.inl (List.mem_cons_of_mem _ h)
    · by_cases hv : v = n
      · subst hv
        rcases (hmem k).mp h with rfl | h
        · exact Or.inl List.mem_cons_self
        · exact Or.inr ⟨v, by simpa using h⟩
      · exact Or.inr ⟨v, by simpa [hv] using h⟩
  · intro k hk
    show (s.ref.set t EMPTY).getD k EMPTY = EMPTY
    rcases List.mem_cons.mp hk with rfl | hk
    · exact getD_set_self _ _ _ (by rw [w.ref_len]; exact htlt)
    · rw [getD_set_ne _ _ _ (fun e : t = k => htB (e ▸ hk))]
      exact w.blank_ref k hk

theorem release_ref (s : RAdj) (t : Nat) (first' nx : List Int) :
    (s.release (t : Int) first' nx).ref = s.ref.set t EMPTY := by
  simp [release]

/-- the lists after the generic release step -/
theorem release_refsOf (w : Wit s B C) (n t : Nat) (R : List Nat) (first' nx : List Int)
    (w' : Wit (s.release (t : Int) first' nx) (t :: B) (fun v => if v = n then R else C v))
    (htC : t ∈ C n) (htR : t ∉ R) :
    (s.release (t : Int) first' nx).refsOf (n : Int) = R.map (fun k => s.ref.getD k EMPTY) ∧
    ∀ m : Int, m ≠ (n : Int) → (s.release (t : Int) first' nx).refsOf m = s.refsOf m := by
  constructor
  · rw [w'.refsOf_nat, release_ref]
    simp only [if_true]
    apply List.map_congr_left
    intro k hk
    exact getD_set_ne _ _ _ (fun e => htR (e ▸ hk))
  · intro m hm
    rcases (by omega : m < 0 ∨ 0 ≤ m) with h | h
    · rw [refsOf_neg _ _ h, refsOf_neg _ _ h]
    · obtain ⟨n', rfl⟩ := Int.eq_ofNat_of_zero_le h
      have hne : n' ≠ n := fun e => hm (by rw [e])
      rw [w'.refsOf_nat, w.refsOf_nat, release_ref]
      simp only [if_neg hne]
      apply List.map_congr_left
      intro k hk
      exact getD_set_ne _ _ _ (fun e => w.disjCC n' n hne k hk (e ▸ htC))

theorem remove_eq_empty (node reference : Int) (hfo : s.firstOf node = EMPTY) :
    s.remove node reference = (s, Status.invalid) := by
  unfold remove; simp only [hfo, if_true]

theorem remove_eq_head {i : Nat} (node reference : Int) (hfo : s.firstOf node = (i : Int))
    (href : reference = s.ref.getD i EMPTY) :
    s.remove node reference =
      (s.release (i : Int) (s.first.set node.toNat (s.next.getD i EMPTY)) s.next, Status.ok) := by
  unfold remove
  simp only [hfo, natCast_ne_EMPTY, if_false, refOf_nat, href, if_true, nextOf, Int.toNat_natCast]

theorem remove_eq_found {i t p : Nat} (node reference : Int) (hfo : s.firstOf node = (i : Int))
    (href : reference ≠ s.ref.getD i EMPTY)
    (hfl : findLoop s.next s.ref reference s.nitem (i : Int) EMPTY = ((t : Int), (p : Int))) :
    s.remove node reference =
      (s.release (t : Int) s.first (s.next.set p (s.next.getD t EMPTY)), Status.ok) := by
  unfold remove
  simp only [hfo, natCast_ne_EMPTY, if_false, refOf_nat, href, hfl, nextOf, Int.toNat_natCast]

theorem remove_eq_miss {i : Nat} (node reference : Int) (hfo : s.firstOf node = (i : Int))
    (href : reference ≠ s.ref.getD i EMPTY)
    (hfl : (findLoop s.next s.ref reference s.nitem (i : Int) EMPTY).1 = EMPTY) :
    s.remove node reference = (s, Status.invalid) := by
  unfold remove
  rcases hx : findLoop s.next s.ref reference s.nitem (i : Int) EMPTY with ⟨t, p⟩
  rw [hx] at hfl
  simp only at hfl
  simp only [hfo, natCast_ne_EMPTY, if_false, refOf_nat, href, hx, hfl, if_true]

theorem nodup_unlink {l1 l2 : List Nat} {p t : Nat} (h : (l1 ++ p :: t :: l2).Nodup) :
    t ∉ l1 ++ p :: l2 ∧ (l1 ++ p :: l2).Nodup := by
  have e1 : l1 ++ p :: t :: l2 = (l1 ++ [p]) ++ t :: l2 := by simp
  have e2 : l1 ++ p :: l2 = (l1 ++ [p]) ++ l2 := by simp
  rw [e1, List.nodup_middle] at h
  rw [e2]
  exact List.nodup_cons.mp h

/-- `ref_adj_remove` of a present reference: succeeds, keeps the invariant, erases the first
    occurrence from `node`'s list and leaves the other lists alone. -/
theorem remove_spec_present (h : Inv s) (node reference : Int) (hm : reference ∈ s.refsOf node) :
    (s.remove node reference).2 = Status.ok ∧ Inv (s.remove node reference).1 ∧
    (s.remove node reference).1.refsOf node = (s.refsOf node).erase reference ∧
    ∀ m : Int, m ≠ node → (s.remove node reference).1.refsOf m = s.refsOf m := by
  obtain ⟨B, C, w⟩ := h
  rcases (by omega : node < 0 ∨ 0 ≤ node) with hneg | hnn
  · rw [refsOf_neg _ _ hneg] at hm; simp at hm
  obtain ⟨n, rfl⟩ := Int.eq_ofNat_of_zero_le hnn
  have hrefs := w.refsOf_nat n
  rw [hrefs] at hm
  obtain ⟨k0, hk0, hk0ref⟩ := List.mem_map.mp hm
  cases hC : C n with
  | nil => rw [hC] at hk0; simp at hk0
  | cons i rest =>
    have hch := w.chain_firstOf n
    rw [hC] at hch
    obtain ⟨hfo, hil, hrest⟩ := hch.of_cons
    rw [hfo] at hch
    have hnlt : n < s.first.length := by
      by_contra hcon
      have := w.C_out n (Nat.le_of_not_lt hcon)
      rw [hC] at this; simp at this
    have hfirst_n : s.first.getD n EMPTY = (i : Int) := by
      have := firstOf_nat s n
      rw [if_pos hnlt] at this
      rw [← this, hfo]
    have hnd := w.nodupC n
    rw [hC] at hnd
    by_cases href : reference = s.ref.getD i EMPTY
    · rw [remove_eq_head _ _ hfo href, Int.toNat_natCast]
      have w' := wit_release w n i rest (s.first.set n (s.next.getD i EMPTY)) s.next
        (by intro k; rw [hC]; simp) (List.nodup_cons.mp hnd).1 (List.nodup_cons.mp hnd).2 rfl
        (fun v hv => getD_set_ne _ _ _ (Ne.symm hv))
        (by rw [getD_set_self _ _ _ hnlt]; exact hrest) (fun _ _ hc _ => hc)
      obtain ⟨hself, hother⟩ := release_refsOf w n i rest _ _ w' (by rw [hC]; simp)
        (List.nodup_cons.mp hnd).1
      refine ⟨rfl, ⟨_, _, w'⟩, ?_, hother⟩
      show (s.release (i : Int) (s.first.set n (s.next.getD i EMPTY)) s.next).refsOf (n : Int) = _
      rw [hself, hrefs, hC, List.map_cons, ← href, List.erase_cons_head]
    · have hex : ∃ k ∈ rest, s.ref.getD k EMPTY = reference := by
        rw [hC] at hk0
        rcases List.mem_cons.mp hk0 with rfl | hk
        · exact absurd hk0ref.symm href
        · exact ⟨k0, hk, hk0ref⟩
      obtain ⟨l1, p, t, l2, heq, h1, h2, h3⟩ :=
        split_first (fun k => s.ref.getD k EMPTY = reference) rest i (fun e => href e.symm) hex
      rw [heq] at hch hnd
      have hlen : (l1 ++ p :: t :: l2).length ≤ s.nitem := by
        rw [← heq, ← hC]; exact w.C_length n
      have hfl := findLoop_hit h2 h3 l1 _ EMPTY s.nitem hch hlen h1
      rw [remove_eq_found _ _ hfo href hfl]
      obtain ⟨htR, hRnd⟩ := nodup_unlink hnd
      have hpC : p ∈ C n := by rw [hC, heq]; simp
      have htC : t ∈ C n := by rw [hC, heq]; simp
      have w' := wit_release w n t (l1 ++ p :: l2) s.first (s.next.set p (s.next.getD t EMPTY))
        (by
          intro k; rw [hC, heq]
          simp only [List.mem_append, List.mem_cons]
          constructor
          · rintro (h | h | h | h)
            · exact Or.inr (Or.inl h)
            · exact Or.inr (Or.inr (Or.inl h))
            · exact Or.inl h
            · exact Or.inr (Or.inr (Or.inr h))
          · rintro (h | h | h | h)
            · exact Or.inr (Or.inr (Or.inl h))
            · exact Or.inl h
            · exact Or.inr (Or.inl h)
            · exact Or.inr (Or.inr (Or.inr h)))
        htR hRnd (by simp) (fun _ _ => rfl)
        (by rw [hfirst_n]; exact IsChain.unlink l1 _ hch hnd)
        (fun st l hc hdis => hc.set _ (fun e => hdis p e hpC))
      obtain ⟨hself, hother⟩ := release_refsOf w n t _ _ _ w' htC htR
      refine ⟨rfl, ⟨_, _, w'⟩, ?_, hother⟩
      show (s.release (t : Int) s.first (s.next.set p (s.next.getD t EMPTY))).refsOf (n : Int) = _
      rw [hself, hrefs, hC, heq, ← h3]
      have e1 : l1 ++ p :: t :: l2 = (l1 ++ [p]) ++ t :: l2 := by simp
      have e2 : l1 ++ p :: l2 = (l1 ++ [p]) ++ l2 := by simp
      rw [e1, e2]
      symm
      apply map_erase_first (f := fun k => s.ref.getD k EMPTY)
      intro k hk
      rw [h3]
      rcases List.mem_append.mp hk with hk | hk
      · exact h1 k hk
      · rw [List.mem_singleton.mp hk]; exact h2

/-- `ref_adj_remove` of an absent reference (this includes invalid nodes): nothing changes and
    `REF_INVALID` is returned; `REF_FAILURE` is never returned under the invariant. -/
theorem remove_spec_absent (h : Inv s) (node reference : Int) (hm : reference ∉ s.refsOf node) :
    s.remove node reference = (s, Status.invalid) := by
  obtain ⟨B, C, w⟩ := h
  rcases (by omega : node < 0 ∨ 0 ≤ node) with hneg | hnn
  · exact remove_eq_empty _ _ (firstOf_neg _ _ hneg)
  obtain ⟨n, rfl⟩ := Int.eq_ofNat_of_zero_le hnn
  by_cases hfe : s.firstOf (n : Int) = EMPTY
  · exact remove_eq_empty _ _ hfe
  · have hch := w.chain_firstOf n
    obtain ⟨i, rest, hfo, hC, -, -⟩ := hch.of_ne_empty hfe
    rw [w.refsOf_nat n] at hm
    have hall : ∀ k ∈ C n, s.ref.getD k EMPTY ≠ reference := by
      intro k hk e
      exact hm (List.mem_map.mpr ⟨k, hk, e⟩)
    have href : reference ≠ s.ref.getD i EMPTY := by
      intro e
      exact hall i (by rw [hC]; simp) e.symm
    rw [hfo] at hch
    exact remove_eq_miss _ _ hfo href (findLoop_miss hch hall _ _)

/-! ### fuel, queries, counting -/

/-- the fuel `nitem` is never exhausted on a node chain: more fuel does not lengthen the walk -/
theorem walk_fuel_irrelevant (h : Inv s) (node : Int) (extra : Nat) :
    walk s.next (s.nitem + extra) (s.firstOf node) = walk s.next s.nitem (s.firstOf node) := by
  obtain ⟨B, C, w⟩ := h
  rcases (by omega : node < 0 ∨ 0 ≤ node) with hneg | hnn
  · rw [firstOf_neg _ _ hneg, walk_empty, walk_empty]
  · obtain ⟨n, rfl⟩ := Int.eq_ofNat_of_zero_le hnn
    rw [w.walk_firstOf n _ (Nat.le_add_right _ _), w.walk_firstOf n _ (Nat.le_refl _)]

/-- the fuel `nitem` is never exhausted on the free list -/
theorem walk_blank_fuel_irrelevant (h : Inv s) (extra : Nat) :
    walk s.next (s.nitem + extra) s.blank = walk s.next s.nitem s.blank := by
  obtain ⟨B, C, w⟩ := h
  rw [w.chainB.walk_eq _ (Nat.le_trans w.B_length (Nat.le_add_right _ _)),
    w.chainB.walk_eq _ w.B_length]

set_option linter.unusedVariables false in
/-- `ref_adj_add_uniquely` -/
theorem addUniquely_spec (h : Inv s) (node reference : Int) :
    s.addUniquely node reference =
      if reference ∈ s.refsOf node then (s, Status.ok) else s.add node reference := by
  unfold addUniquely
  by_cases hmem : reference ∈ s.refsOf node
  · simp [hmem]
  · simp [hmem]

/-- `ref_adj_degree` -/
theorem degree_spec (s : RAdj) (node : Int) :
    s.degree node = (Status.ok, (s.refsOf node).length) := by
  simp [degree, refsOf]

/-- macro `ref_adj_empty` -/
theorem isEmpty_spec (h : Inv s) (node : Int) : s.isEmpty node = true ↔ s.refsOf node = [] := by
  obtain ⟨B, C, w⟩ := h
  unfold isEmpty
  rw [beq_iff_eq]
  constructor
  · intro hfe
    unfold refsOf itemsOf
    rw [hfe, walk_empty]; rfl
  · intro hnil
    rcases (by omega : node < 0 ∨ 0 ≤ node) with hneg | hnn
    · exact firstOf_neg _ _ hneg
    · obtain ⟨n, rfl⟩ := Int.eq_ofNat_of_zero_le hnn
      by_contra hfe
      obtain ⟨i, rest, -, hC, -, -⟩ := (w.chain_firstOf n).of_ne_empty hfe
      rw [w.refsOf_nat n, hC] at hnil
      simp at hnil

/-- blank items carry `ref = REF_EMPTY` -/
theorem blank_spec (h : Inv s) : ∀ k ∈ s.blankItems, s.refOf k = EMPTY := by
  obtain ⟨B, C, w⟩ := h
  intro k hk
  rw [w.blankItems_eq] at hk
  obtain ⟨j, hj, rfl⟩ := List.mem_map.mp hk
  rw [refOf_nat]
  exact w.blank_ref j hj

theorem Wit.perm_range (w : Wit s B C) :
    (B ++ ((List.range s.first.length).map C).flatten).Perm (List.range s.next.length) := by
  rw [List.perm_ext_iff_of_nodup ?_ List.nodup_range]
  · intro k
    rw [List.mem_range, List.mem_append, List.mem_flatten]
    constructor
    · rintro (hk | ⟨l, hl, hk⟩)
      · exact w.chainB.lt k hk
      · obtain ⟨v, -, rfl⟩ := List.mem_map.mp hl
        exact w.C_lt v k hk
    · intro hk
      rcases w.cover k hk with hB | ⟨v, hv⟩
      · exact Or.inl hB
      · refine Or.inr ⟨C v, List.mem_map.mpr ⟨v, ?_, rfl⟩, hv⟩
        rw [List.mem_range]
        by_contra hcon
        rw [w.C_out v (Nat.le_of_not_lt hcon)] at hv
        simp at hv
  · rw [List.nodup_append]
    refine ⟨w.nodupB, ?_, ?_⟩
    · rw [List.nodup_flatten]
      constructor
      · intro l hl
        obtain ⟨v, -, rfl⟩ := List.mem_map.mp hl
        exact w.nodupC v
      · rw [List.pairwise_map]
        apply List.nodup_range.pairwise_of_forall_ne
        intro a _ b _ hab k hka hkb
        exact w.disjCC a b hab k hka hkb
    · intro a ha b hb hab
      obtain ⟨l, hl, hbl⟩ := List.mem_flatten.mp hb
      obtain ⟨v, -, rfl⟩ := List.mem_map.mp hl
      exact w.disjBC v a ha (hab ▸ hbl)

/-- every item is either free or in exactly one node list -/
theorem count_spec (h : Inv s) :
    s.blankItems.length + ((List.range s.nnode).map (fun v : Nat => (s.refsOf (v : Int)).length)).sum =
      s.nitem := by
  obtain ⟨B, C, w⟩ := h
  have hperm := w.perm_range.length_eq
  rw [List.length_append, List.length_flatten, List.length_range] at hperm
  have hmap : (List.range s.nnode).map (fun v : Nat => (s.refsOf (v : Int)).length) =
      ((List.range s.first.length).map C).map List.length := by
    rw [List.map_map]
    apply List.map_congr_left
    intro v _
    simp [w.refsOf_nat v]
  rw [hmap, w.blankItems_eq, List.length_map]
  exact hperm

/-! ### non-vacuity -/

example : ((create.add 3 7).1.add 3 8).1.refsOf 3 = [8, 7] := by decide

example : (((create.add 3 7).1.add 3 8).1.remove 3 7).1.refsOf 3 = [8] := by decide

example : (((create.add 3 7).1.add 3 8).1.remove 3 7).2 = Status.ok := by decide

example : (((create.add 3 7).1.add 3 8).1.remove 3 9) =
    (((create.add 3 7).1.add 3 8).1, Status.invalid) := by decide

theorem inv_example : Inv (((create.add 3 7).1.add 3 8).1.remove 3 7).1 := by
  have hlt : (3 : Int) < (INT_MAX : Int) := by unfold INT_MAX; omega
  have h1 : Inv (create.add 3 7).1 := (add_spec inv_create 3 7 (by omega) hlt).1
  have h2 : Inv ((create.add 3 7).1.add 3 8).1 := (add_spec h1 3 8 (by omega) hlt).1
  exact (remove_spec_present h2 3 7 (by decide)).2.1

end Refine.Model.RAdj
