import Refine.Lemmas.Cavity2Enlarge

/-!
  The form functions (`ref_cavity_form_edge_swap`, `_form_edge_split`, `_form_edge_collapse`): the cavity they leave
  behind satisfies the list invariant, and its ledger is the boundary of the listed tets minus the faces the form
  function deliberately skipped (those containing both ends of the edge / the kept node).
-/
namespace Refine.Lemmas.Cavity2
open Refine.Model.Cavity Refine.Model.Cavity2 Refine.Lemmas.Cavity Refine.Props.C01

variable {G : Type} [AddCommGroup G] {α : Type}

/-! ### frame facts: what the seg machinery never touches, tet list only grows -/

theorem insertFaces_frame (c : Cav) (fs : List Face) :
    SameSegSide c (insertFaces c fs).2 ∧ (insertFaces c fs).2.tetList = c.tetList ∧
    (insertFaces c fs).2.state = c.state := by
  induction fs generalizing c with
  | nil => exact ⟨SameSegSide.refl c, rfl, rfl⟩
  | cons f t ih =>
    unfold insertFaces
    have h0 := insertFace_frame c f
    have hs := insertFace_state c f
    rcases hins : insertFace c f with ⟨s1, c1⟩
    rw [hins] at h0 hs
    simp only at hs
    cases s1 <;> simp only [] <;> try exact ⟨h0.1, h0.2, hs⟩
    have h1 := ih c1
    exact ⟨h0.1.trans h1.1, h1.2.1.trans h0.2, h1.2.2.trans hs⟩

theorem rmSegTets_prefix (g : Grid α) (skip : List Nat) (cells : List (Nat × Tet)) (c : Cav) :
    ∃ l, (rmSegTets g skip c cells).2.tetList = c.tetList ++ l := by
  induction cells generalizing c with
  | nil => exact ⟨[], by simp [rmSegTets]⟩
  | cons p rest ih =>
    obtain ⟨cell, tet⟩ := p
    unfold rmSegTets
    split
    · exact ih c
    · simp only
      split
      · exact ⟨[(cell : Int)], rfl⟩
      · rw [rmSegTetFaces_eq]
        have h0 := insertFaces_frame { c with tetList := c.tetList ++ [(cell : Int)] }
          ((tetFaces tet).filter (rmSegKeep g skip))
        rcases hins : insertFaces { c with tetList := c.tetList ++ [(cell : Int)] }
          ((tetFaces tet).filter (rmSegKeep g skip)) with ⟨s1, c1⟩
        rw [hins] at h0
        simp only at h0
        cases s1 <;> simp only [] <;> try exact ⟨[(cell : Int)], h0.2.1⟩
        obtain ⟨l, hl⟩ := ih c1
        exact ⟨(cell : Int) :: l, by rw [hl, h0.2.1]; simp⟩

theorem removeSegFace_frame (c : Cav) (s : Seg) : (removeSegFace c s).2.tetList = c.tetList := by
  unfold removeSegFace
  split
  · rfl
  · split
    · rfl
    · split <;> rfl

theorem removeSegAddTets_prefix (g : Grid α) (c : Cav) (s : Seg) :
    ∃ l, (removeSegAddTets g c s).2.tetList = c.tetList ++ l := by
  unfold removeSegAddTets
  split
  · exact ⟨[], by simp⟩
  · split
    · exact ⟨[], by simp⟩
    · simp only
      split
      · exact ⟨[], by simp⟩
      · split
        · exact ⟨[], by simp⟩
        · exact rmSegTets_prefix g _ _ c

theorem addSegFace_frame (c : Cav) (s : Seg) :
    (addSegFace c s).2.tetList = c.tetList ∧ (addSegFace c s).2.state = c.state := by
  unfold addSegFace
  split
  · exact ⟨rfl, rfl⟩
  · split
    · exact ⟨rfl, rfl⟩
    · split
      · exact ⟨rfl, rfl⟩
      · exact ⟨(insertFace_frame c _).2, insertFace_state c _⟩

theorem removeSegFace_state (c : Cav) (s : Seg) : (removeSegFace c s).2.state = c.state := by
  unfold removeSegFace
  split
  · rfl
  · split
    · rfl
    · split <;> rfl

theorem insertSeg_prefix' (g : Grid α) (c c' : Cav) (s : Seg) (st : Refine.Model.Cavity.St)
    (h : insertSeg g c s = (st, c')) : ∃ l, c'.tetList = c.tetList ++ l := by
  unfold insertSeg at h
  split at h
  · next i hfind =>
    cases hold : c.segs.rows.getD i none with
    | none =>
      rw [hold] at h; simp only [Prod.mk.injEq] at h; rw [← h.2]; exact ⟨[], by simp⟩
    | some old =>
      rw [hold] at h
      simp only at h
      split at h
      · simp only [Prod.mk.injEq] at h; rw [← h.2]; exact ⟨[], by simp⟩
      · have h0 := removeSegFace_frame { c with segs := c.segs.remove i } s
        rcases h1 : removeSegFace { c with segs := c.segs.remove i } s with ⟨s1, c1⟩
        rw [h1] at h h0
        simp only at h0
        cases s1 <;> simp only [] at h
        case ok =>
          obtain ⟨l, hl⟩ := removeSegAddTets_prefix g c1 s
          rw [h] at hl
          exact ⟨l, by rw [hl, h0]⟩
        all_goals (simp only [Prod.mk.injEq] at h; rw [← h.2]; exact ⟨[], by simp [h0]⟩)
  · simp only [Prod.mk.injEq] at h; rw [← h.2]; exact ⟨[], by simp⟩
  · simp only at h
    have := (addSegFace_frame { c with segs := (c.segs.add 100 s).1 } s).1
    rw [h] at this
    exact ⟨[], by rw [this]; simp⟩

theorem insertSeg_prefix (g : Grid α) (c : Cav) (s : Seg) : ∃ l, (insertSeg g c s).2.tetList = c.tetList ++ l :=
  insertSeg_prefix' g c _ s _ rfl

theorem insertSegs_prefix (g : Grid α) (ss : List Seg) (c : Cav) :
    ∃ l, (insertSegs g c ss).2.tetList = c.tetList ++ l := by
  induction ss generalizing c with
  | nil => exact ⟨[], by simp [insertSegs]⟩
  | cons s t ih =>
    unfold insertSegs
    obtain ⟨l0, h0⟩ := insertSeg_prefix g c s
    rcases hins : insertSeg g c s with ⟨s1, c1⟩
    rw [hins] at h0
    simp only at h0
    cases s1 <;> simp only [] <;> try exact ⟨l0, h0⟩
    obtain ⟨l1, h1⟩ := ih c1
    exact ⟨l0 ++ l1, by rw [h1, h0, List.append_assoc]⟩

/-! ### a list of segs on an active cavity, no tet pulled in -/

/-- outcome of `insertSegs` when it ends ok, state unknown, and the tet list is what it was -/
structure SegsStep (φ : Int → Int → Int → G) (ψ : Int → Int → G) (c c' : Cav) (ss : List Seg) : Prop where
  finv : SlotsInv c'.faces
  sinv : SlotsInv c'.segs
  node : c'.node = c.node
  surf : c'.surfNode = c.surfNode
  tris : c'.triList = c.triList
  tets : c'.tetList = c.tetList
  ledger : ledgerVal φ c' = ledgerVal φ c
  segs : segSum ψ c'.validSegs = segSum ψ c.validSegs + segSum ψ ss
  segMem : ∀ x ∈ c'.validSegs, x ∈ c.validSegs ∨ x ∈ ss
  faceMem : ∀ x ∈ c'.validFaces, x ∈ c.validFaces ∨ ∃ s ∈ ss, x = ⟨s.n0, s.n1, c.segNode⟩

theorem rmSegTets_state_mono (g : Grid α) (skip : List Nat) (cells : List (Nat × Tet)) (c : Cav)
    (hs : (rmSegTets g skip c cells).2.state = .unknown) : c.state = .unknown := by
  induction cells generalizing c with
  | nil => simpa [rmSegTets] using hs
  | cons p rest ih =>
    obtain ⟨cell, tet⟩ := p
    unfold rmSegTets at hs
    split at hs
    · exact ih c hs
    · simp only at hs
      split at hs
      · simp at hs
      · rw [rmSegTetFaces_eq] at hs
        have h0 := insertFaces_frame { c with tetList := c.tetList ++ [(cell : Int)] }
          ((tetFaces tet).filter (rmSegKeep g skip))
        rcases hins : insertFaces { c with tetList := c.tetList ++ [(cell : Int)] }
          ((tetFaces tet).filter (rmSegKeep g skip)) with ⟨s1, c1⟩
        rw [hins] at h0 hs
        simp only at h0
        cases s1 <;> simp only [] at hs
        case ok => rw [← h0.2.2]; exact ih c1 hs
        all_goals (rw [← h0.2.2]; exact hs)

theorem removeSegAddTets_state_mono (g : Grid α) (c : Cav) (s : Seg)
    (hs : (removeSegAddTets g c s).2.state = .unknown) : c.state = .unknown := by
  unfold removeSegAddTets at hs
  split at hs
  · exact hs
  · split at hs
    · exact hs
    · simp only at hs
      split at hs
      · exact hs
      · split at hs
        · exact hs
        · exact rmSegTets_state_mono g _ _ c hs

theorem insertSeg_state_mono (g : Grid α) (c c' : Cav) (s : Seg) (st : Refine.Model.Cavity.St)
    (h : insertSeg g c s = (st, c')) (hs : c'.state = .unknown) : c.state = .unknown := by
  unfold insertSeg at h
  split at h
  · next i hfind =>
    cases hold : c.segs.rows.getD i none with
    | none => rw [hold] at h; simp only [Prod.mk.injEq] at h; rw [← h.2] at hs; exact hs
    | some old =>
      rw [hold] at h
      simp only at h
      split at h
      · simp only [Prod.mk.injEq] at h; rw [← h.2] at hs; simp at hs
      · have e1 := removeSegFace_state { c with segs := c.segs.remove i } s
        rcases h1 : removeSegFace { c with segs := c.segs.remove i } s with ⟨s1, c1⟩
        rw [h1] at h e1
        simp only at e1
        cases s1 <;> simp only [] at h
        case ok =>
          have := removeSegAddTets_state_mono g c1 s (by rw [h]; exact hs)
          rw [← e1]; exact this
        all_goals (simp only [Prod.mk.injEq] at h; rw [← h.2, e1] at hs; exact hs)
  · simp only [Prod.mk.injEq] at h; rw [← h.2] at hs; exact hs
  · simp only at h
    have := (addSegFace_frame { c with segs := (c.segs.add 100 s).1 } s).2
    rw [h] at this
    simp only at this
    rw [this] at hs; exact hs

theorem insertSegs_state_mono (g : Grid α) (ss : List Seg) (c c' : Cav) (st : Refine.Model.Cavity.St)
    (h : insertSegs g c ss = (st, c')) (hs : c'.state = .unknown) : c.state = .unknown := by
  induction ss generalizing c with
  | nil => simp only [insertSegs, Prod.mk.injEq] at h; rw [← h.2] at hs; exact hs
  | cons s t ih =>
    unfold insertSegs at h
    rcases hins : insertSeg g c s with ⟨s1, c1⟩
    rw [hins] at h
    cases s1 <;> simp only [] at h
    case ok => exact insertSeg_state_mono g c c1 s _ hins (ih c1 h)
    all_goals (simp only [Prod.mk.injEq] at h; exact insertSeg_state_mono g c c1 s _ hins (h.2 ▸ hs))

theorem insertSegs3_spec {φ : Int → Int → Int → G} {ψ : Int → Int → G} (hφ : Alt φ) (hd : Diag φ) (hψ : Alt2 ψ)
    (g : Grid α) (ss : List Seg) (c c' : Cav) (hf : SlotsInv c.faces) (hsg : SlotsInv c.segs)
    (htl : c.tetList ≠ []) (h : insertSegs g c ss = (.ok, c')) (hs : c'.state = .unknown)
    (hsame : c'.tetList = c.tetList) : SegsStep φ ψ c c' ss := by
  induction ss generalizing c with
  | nil =>
    simp only [insertSegs, Prod.mk.injEq, true_and] at h; subst h
    exact ⟨hf, hsg, rfl, rfl, rfl, rfl, rfl, by simp [segSum], fun x hx => Or.inl hx, fun x hx => Or.inl hx⟩
  | cons s t ih =>
    unfold insertSegs at h
    rcases hins : insertSeg g c s with ⟨s1, c1⟩
    rw [hins] at h
    cases s1 <;> simp only [] at h <;> first | exact (notok h (by decide)).elim | skip
    have hs1 : c1.state = .unknown := insertSegs_state_mono g t c1 c' _ h hs
    have hs0 : c.state = .unknown := insertSeg_state_mono g c c1 s _ hins hs1
    rcases insertSeg3_spec hφ hd hψ g c c1 s hf hsg ⟨htl, hs0⟩ hins with hbad | ⟨new, st⟩
    · exact absurd hs1 hbad
    · -- no tet was pulled in by this seg, nor by the rest
      obtain ⟨l, hl⟩ := insertSegs_prefix g t c1
      rw [h] at hl
      simp only at hl
      have hnil : new = [] ∧ l = [] := by
        rw [st.tets, List.append_assoc] at hl
        have := hsame.symm.trans hl
        have h2 : new ++ l = [] := by
          have := List.append_cancel_left (as := c.tetList) (bs := []) (cs := new ++ l) (by simpa using this)
          exact this.symm
        exact List.append_eq_nil_iff.mp h2
      obtain ⟨hn, hl0⟩ := hnil
      subst hn
      have ht1 : c1.tetList = c.tetList := by rw [st.tets]; simp
      have st2 := ih c1 st.finv st.sinv (by rw [ht1]; exact htl) h (by rw [hl, hl0]; simp)
      have hn1 : c1.segNode = c.segNode := segNode_eq st.node st.surf
      refine ⟨st2.finv, st2.sinv, st2.node.trans st.node, st2.surf.trans st.surf, st2.tris.trans st.tris,
        st2.tets.trans ht1, ?_, ?_, ?_, ?_⟩
      · rw [st2.ledger, st.ledger]; simp
      · rw [st2.segs, st.segs]; simp only [segSum, List.map_cons, List.sum_cons]; abel
      · intro x hx
        rcases st2.segMem x hx with h1 | h1
        · rcases st.segMem x h1 with h2 | h2
          · exact Or.inl h2
          · exact Or.inr (h2 ▸ List.mem_cons_self)
        · exact Or.inr (List.mem_cons_of_mem _ h1)
      · intro x hx
        rcases st2.faceMem x hx with h1 | ⟨s', hs', hx'⟩
        · rcases st.faceMem x h1 with h2 | h2 | ⟨cell, hc, _⟩
          · exact Or.inl h2
          · exact Or.inr ⟨s, List.mem_cons_self, h2⟩
          · cases hc
        · exact Or.inr ⟨s', List.mem_cons_of_mem _ hs', by rw [hx', hn1]⟩

/-! ### the tet loop of form_edge_split / form_edge_swap -/

/-- the faces of a tet that contain both ends of the edge: what `form_edge_split` / `form_edge_swap` do NOT insert -/
def edgeFaces (n0 n1 : Int) (t : Tet) : List Face := (tetFaces t).filter fun f => f.has n0 && f.has n1

theorem not_not_filter (n0 n1 : Int) (t : Tet) :
    ((tetFaces t).filter fun f => !(!(f.has n0 && f.has n1))) = edgeFaces n0 n1 t := by
  unfold edgeFaces
  congr 1
  funext f
  simp

theorem formSplitTets_spec {φ : Int → Int → Int → G} (hφ : Alt φ) (g : Grid α) (n0 n1 : Int)
    (cells : List (Nat × Tet)) (hcells : ∀ p ∈ cells, g.tets.get? (p.1 : Int) = some p.2) (c c' : Cav)
    (s : Refine.Model.Cavity.St) (hinv : SlotsInv c.faces) (h : formSplitTets g n0 n1 c cells = (s, c', false)) :
    s = .ok ∧ SlotsInv c'.faces ∧ SameSegSide c c' ∧ c'.state = c.state ∧
    c'.tetList = c.tetList ++ cells.map (fun p => (p.1 : Int)) ∧
    (cells.map (fun p => (p.1 : Int))).Nodup ∧ (∀ p ∈ cells, (p.1 : Int) ∉ c.tetList) ∧
    rowsSum φ c'.faces.rows = rowsSum φ c.faces.rows +
      (cells.map fun p => faceSum φ (tetFaces p.2) - faceSum φ (edgeFaces n0 n1 p.2)).sum ∧
    (∀ x ∈ c'.validFaces, x ∈ c.validFaces ∨ ∃ p ∈ cells, x ∈ tetFaces p.2) := by
  induction cells generalizing c with
  | nil =>
    simp only [formSplitTets, Prod.mk.injEq, and_true] at h
    obtain ⟨rfl, rfl⟩ := h
    exact ⟨rfl, hinv, SameSegSide.refl c, rfl, by simp, by simp, by simp, by simp, fun x hx => Or.inl hx⟩
  | cons p rest ih =>
    obtain ⟨cell, tet⟩ := p
    have hrest : ∀ p ∈ rest, g.tets.get? (p.1 : Int) = some p.2 := fun p hp => hcells p (List.mem_cons_of_mem _ hp)
    unfold formSplitTets at h
    split at h
    · simp at h
    · next hnot =>
      simp only at h
      split at h
      · simp at h
      · rcases hins : insertFaces { c with tetList := c.tetList ++ [(cell : Int)] }
          ((tetFaces tet).filter fun f => !(f.has n0 && f.has n1)) with ⟨s1, c1⟩
        rw [hins] at h
        cases s1 <;> simp only [] at h <;> try (simp at h)
        obtain ⟨hinv1, hsame1, hsum1, hmem1⟩ :=
          insertFaces_spec hφ _ { c with tetList := c.tetList ++ [(cell : Int)] } c1 hinv hins
        obtain ⟨a1, a2, a3, a4, a5, a6⟩ := hsame1
        obtain ⟨b0, b1, b2, b3, b4, b5, b6, b7, b8⟩ := ih hrest c1 hinv1 h
        have hcellnot : (cell : Int) ∉ c.tetList := fun hm => hnot (List.contains_iff_mem.mpr hm)
        refine ⟨b0, b1, ⟨b2.1.trans a4, b2.2.1.trans a2, b2.2.2.1.trans a3, b2.2.2.2.trans a6⟩, b3.trans a1, ?_, ?_, ?_,
          ?_, ?_⟩
        · rw [b4, a5]; simp
        · simp only [List.map_cons, List.nodup_cons]
          refine ⟨?_, b5⟩
          intro hm
          obtain ⟨p, hp, hpe⟩ := List.mem_map.mp hm
          exact b6 p hp (by rw [a5, hpe]; simp)
        · intro p hp
          rcases List.mem_cons.mp hp with rfl | hp
          · exact hcellnot
          · intro hm
            exact b6 p hp (by rw [a5]; exact List.mem_append_left _ hm)
        · rw [b7, hsum1]
          simp only [List.map_cons, List.sum_cons]
          have := faceSum_filter_split φ (fun f => !(f.has n0 && f.has n1)) (tetFaces tet)
          rw [not_not_filter] at this
          rw [this]; abel
        · intro x hx
          rcases b8 x hx with h1 | ⟨p, hp, hx2⟩
          · rcases hmem1 x h1 with h2 | h2
            · exact Or.inl h2
            · exact Or.inr ⟨(cell, tet), List.mem_cons_self, (List.mem_filter.mp h2).1⟩
          · exact Or.inr ⟨p, List.mem_cons_of_mem _ hp, hx2⟩

theorem formSwapTris_spec (g : Grid α) (cells : List (Nat × Tri)) (c c' : Cav) (id id' : Int)
    (h : formSwapTris g c id cells = (c', id', false)) :
    c'.faces = c.faces ∧ c'.segs = c.segs ∧ c'.node = c.node ∧ c'.surfNode = c.surfNode ∧ c'.tetList = c.tetList ∧
    c'.state = c.state ∧ c'.triList = c.triList ++ cells.map (fun p => (p.1 : Int)) := by
  induction cells generalizing c id with
  | nil =>
    simp only [formSwapTris, Prod.mk.injEq, and_true] at h
    obtain ⟨rfl, _⟩ := h
    simp
  | cons p rest ih =>
    obtain ⟨cell, tri⟩ := p
    unfold formSwapTris at h
    simp only at h
    split at h
    · simp at h
    · obtain ⟨a1, a2, a3, a4, a5, a6, a7⟩ := ih _ _ h
      exact ⟨a1, a2, a3, a4, a5, a6, by rw [a7]; simp⟩

theorem verifyBoth_spec (c c' : Cav) (s : Refine.Model.Cavity.St) (h : verifyBoth c = (s, c'))
    (hs : c'.state = .unknown) : c' = c := by
  unfold verifyBoth at h
  rcases verifyFaceManifold_cases c with hv | hv | hv <;> rw [hv] at h <;> simp only [] at h
  · rcases verifySegManifold_cases c with hw | hw | hw <;> rw [hw] at h <;> simp only [Prod.mk.injEq] at h
    · exact h.2.symm
    · rw [← h.2] at hs; simp at hs
    · exact h.2.symm
  · have : verifySegManifold { c with state := .inconsistent } = (.ok, { c with state := .inconsistent }) := by
      unfold verifySegManifold; simp
    rw [this] at h; simp only [Prod.mk.injEq] at h; rw [← h.2] at hs; simp at hs
  · simp only [Prod.mk.injEq] at h; exact h.2.symm


/-! ### form_edge_swap -/

/-- local conformity around the edge `(n0,n1)`: the faces containing the edge, summed over the tets around it,
    leave exactly the boundary tris on the edge (interior faces cancel in pairs) -/
def EdgeMatched (φ : Int → Int → Int → G) (g : Grid α) (n0 n1 : Int) : Prop :=
  ((g.tets.having2 Tet.nodes n0 n1).map fun p => faceSum φ (edgeFaces n0 n1 p.2)).sum =
    ((g.tris.having2 Tri.nodes n0 n1).map fun p => φ p.2.n0 p.2.n1 p.2.n2).sum

theorem formSplitTets_early (g : Grid α) (n0 n1 : Int) (cells : List (Nat × Tet)) (c c' : Cav)
    (s : Refine.Model.Cavity.St) (h : formSplitTets g n0 n1 c cells = (s, c', true)) :
    s ≠ .ok ∨ c'.state = .partition_constrained := by
  induction cells generalizing c with
  | nil => simp [formSplitTets] at h
  | cons p rest ih =>
    obtain ⟨cell, tet⟩ := p
    unfold formSplitTets at h
    split at h
    · simp only [Prod.mk.injEq, and_true] at h; left; rw [← h.1]; decide
    · simp only at h
      split at h
      · simp only [Prod.mk.injEq, and_true] at h; right; rw [← h.2]
      · rcases hins : insertFaces { c with tetList := c.tetList ++ [(cell : Int)] }
          ((tetFaces tet).filter fun f => !(f.has n0 && f.has n1)) with ⟨s1, c1⟩
        rw [hins] at h
        cases s1 <;> simp only [] at h
        case ok => exact ih c1 h
        all_goals (simp only [Prod.mk.injEq, and_true] at h; left; rw [← h.1]; decide)

theorem formSwapTris_early (g : Grid α) (cells : List (Nat × Tri)) (c c' : Cav) (id id' : Int)
    (h : formSwapTris g c id cells = (c', id', true)) : c'.state = .partition_constrained := by
  induction cells generalizing c id with
  | nil => simp [formSwapTris] at h
  | cons p rest ih =>
    obtain ⟨cell, tri⟩ := p
    unfold formSwapTris at h
    simp only at h
    split at h
    · simp only [Prod.mk.injEq, and_true] at h; rw [← h.1]
    · exact ih _ _ h

theorem create_facts :
    SlotsInv Cav.create.faces ∧ SlotsInv Cav.create.segs ∧ Cav.create.tetList = [] ∧ Cav.create.triList = [] ∧
    Cav.create.state = .unknown ∧ Cav.create.validSegs = [] ∧ Cav.create.validFaces = [] :=
  ⟨SlotsInv.create 10, SlotsInv.create 10, rfl, rfl, rfl, by decide, by decide⟩

theorem rowsSum_create (φ : Int → Int → Int → G) : rowsSum φ Cav.create.faces.rows = 0 := by
  simp [Cav.create, Slots.create, rowsSum, rowVal]

theorem tetBd_idx_sum (φ : Int → Int → Int → G) (g : Grid α) (cells : List (Nat × Tet))
    (hcells : ∀ p ∈ cells, g.tets.get? (p.1 : Int) = some p.2) :
    ((cells.map fun p => (p.1 : Int)).map (tetBd φ g)).sum = (cells.map fun p => faceSum φ (tetFaces p.2)).sum := by
  induction cells with
  | nil => simp
  | cons p rest ih =>
    simp only [List.map_cons, List.sum_cons]
    rw [ih (fun q hq => hcells q (List.mem_cons_of_mem _ hq))]
    simp only [tetBd, hcells p List.mem_cons_self]

theorem triVal_idx_sum (φ : Int → Int → Int → G) (g : Grid α) (cells : List (Nat × Tri))
    (hcells : ∀ p ∈ cells, g.tris.get? (p.1 : Int) = some p.2) :
    ((cells.map fun p => (p.1 : Int)).map (triVal φ g)).sum = (cells.map fun p => φ p.2.n0 p.2.n1 p.2.n2).sum := by
  induction cells with
  | nil => simp
  | cons p rest ih =>
    simp only [List.map_cons, List.sum_cons]
    rw [ih (fun q hq => hcells q (List.mem_cons_of_mem _ hq))]
    simp only [triVal, hcells p List.mem_cons_self]

theorem sum_map_sub {β : Type} (l : List β) (f h : β → G) :
    (l.map fun p => f p - h p).sum = (l.map f).sum - (l.map h).sum := by
  induction l with
  | nil => simp
  | cons a t ih => simp only [List.map_cons, List.sum_cons, ih]; abel

/-- what a cavity formed for an edge looks like: the lists are the cells around the edge, and the ledger is the
    boundary of the listed tets minus their faces through the edge -/
structure EdgeFormed (φ : Int → Int → Int → G) (g : Grid α) (n0 n1 : Int) (c' : Cav) : Prop where
  finv : SlotsInv c'.faces
  sinv : SlotsInv c'.segs
  tets : c'.tetList = (g.tets.having2 Tet.nodes n0 n1).map fun p => (p.1 : Int)
  tetsNodup : c'.tetList.Nodup
  tris : c'.triList = (g.tris.having2 Tri.nodes n0 n1).map fun p => (p.1 : Int)
  ledger : ledgerVal φ c' = (c'.tetList.map (tetBd φ g)).sum -
    ((g.tets.having2 Tet.nodes n0 n1).map fun p => faceSum φ (edgeFaces n0 n1 p.2)).sum

theorem EdgeFormed.ledgerEq {φ : Int → Int → Int → G} {g : Grid α} {n0 n1 : Int} {c' : Cav}
    (h : EdgeFormed φ g n0 n1 c') (hm : EdgeMatched φ g n0 n1) : LedgerEq φ g c' := by
  unfold LedgerEq
  rw [h.ledger, hm, h.tris, triVal_idx_sum φ g _ (fun p hp => having2_get g.tris Tri.nodes n0 n1 p hp)]

theorem EdgeFormed.cavInv {φ : Int → Int → Int → G} {g : Grid α} {n0 n1 : Int} {c' : Cav}
    (h : EdgeFormed φ g n0 n1 c') (hnd : ((g.tris.having2 Tri.nodes n0 n1).map fun p => (p.1 : Int)).Nodup) :
    CavInv g c' := by
  refine ⟨h.finv, h.sinv, ?_, h.tetsNodup, ?_, by rw [h.tris]; exact hnd⟩
  · intro cell hc
    rw [h.tets] at hc
    obtain ⟨p, hp, rfl⟩ := List.mem_map.mp hc
    exact ⟨p.2, having2_get g.tets Tet.nodes n0 n1 p hp⟩
  · intro cell hc
    rw [h.tris] at hc
    obtain ⟨p, hp, rfl⟩ := List.mem_map.mp hc
    exact ⟨p.2, having2_get g.tris Tri.nodes n0 n1 p hp⟩

/-- **`ref_cavity_form_edge_swap`.**  If it returns ok with the state unknown (so: all nodes owned, no ghost cell, no
    face-id mismatch, both verifications passed) and no tet beyond the ones around the edge was pulled in, then the
    cavity lists exactly the tets and tris around the edge and its ledger is `∂T − (faces of T through the edge)`. -/
theorem formEdgeSwap_formed {φ : Int → Int → Int → G} (hφ : Alt φ) (hd : Diag φ) (g : Grid α) (n0 n1 node : Int)
    (c' : Cav) (h : formEdgeSwap g Cav.create n0 n1 node = (.ok, c')) (hs : c'.state = .unknown)
    (hne : g.tets.having2 Tet.nodes n0 n1 ≠ [])
    (hextra : c'.tetList = (g.tets.having2 Tet.nodes n0 n1).map fun p => (p.1 : Int)) :
    EdgeFormed φ g n0 n1 c' := by
  obtain ⟨cf, cs, ct, ctr, cst, cvs, _⟩ := create_facts
  have hcells : ∀ p ∈ g.tets.having2 Tet.nodes n0 n1, g.tets.get? (p.1 : Int) = some p.2 :=
    fun p hp => having2_get g.tets Tet.nodes n0 n1 p hp
  have hψ : Alt2 (fun _ _ => (0 : G)) := ⟨fun _ _ => by simp, fun _ => rfl⟩
  unfold formEdgeSwap at h
  simp only at h
  split at h
  · simp only [Prod.mk.injEq, true_and] at h; rw [← h] at hs; simp at hs
  · split at h
    · next s1 c1 he =>
      simp only [Prod.mk.injEq] at h
      obtain ⟨rfl, rfl⟩ := h
      rcases formSplitTets_early g n0 n1 _ _ _ _ he with e | e
      · exact absurd rfl e
      · rw [e] at hs; cases hs
    · next s1 c1 he =>
      obtain ⟨_, f1, ⟨g1, g2, g3, g4⟩, g5, g6, g7, _, g9, _⟩ :=
        formSplitTets_spec hφ g n0 n1 _ hcells { Cav.create with node := node } c1 s1 cf he
      have hc1tets : c1.tetList = (g.tets.having2 Tet.nodes n0 n1).map fun p => (p.1 : Int) := by
        rw [g6]; simp [ct]
      have hc1sum : rowsSum φ c1.faces.rows = (c1.tetList.map (tetBd φ g)).sum -
          ((g.tets.having2 Tet.nodes n0 n1).map fun p => faceSum φ (edgeFaces n0 n1 p.2)).sum := by
        rw [g9, hc1tets, tetBd_idx_sum φ g _ hcells, sum_map_sub]
        have : rowsSum φ ({ Cav.create with node := node } : Cav).faces.rows = 0 := rowsSum_create φ
        rw [this]; abel
      have hc1segs : c1.validSegs = [] := by simp only [Cav.validSegs, g1]; exact cvs
      split at h
      · -- no boundary tri on the edge
        next hnt =>
        have := verifyBoth_spec c1 c' _ h hs
        subst this
        have htri0 : g.tris.having2 Tri.nodes n0 n1 = [] := by
          simpa [triHasSide] using hnt
        refine ⟨f1, by rw [g1]; exact cs, hc1tets, by rw [hc1tets]; simpa [ct] using g7, ?_, ?_⟩
        · rw [g4, htri0]; simp [ctr]
        · simp only [ledgerVal, hc1segs, coneSum, List.map_nil, List.sum_nil, sub_zero]; exact hc1sum
      · split at h
        · next n2 n3 h23 =>
          split at h
          · next c3 id3 htr =>
            simp only [Prod.mk.injEq, true_and] at h; subst h
            rw [formSwapTris_early g _ _ _ _ _ htr] at hs; cases hs
          · next c3 id3 htr =>
            obtain ⟨t1, t2, t3, t4, t5, t6, t7⟩ := formSwapTris_spec g _ _ _ _ _ htr
            split at h
            · simp at h
            · split at h
              · simp at h
              · rcases hseg : insertSegs g c3 [⟨n0, n3, id3⟩, ⟨n3, n1, id3⟩, ⟨n1, n2, id3⟩, ⟨n2, n0, id3⟩] with ⟨s4, c4⟩
                rw [hseg] at h
                cases s4 <;> simp only [] at h <;> try (simp at h)
                have := verifyBoth_spec c4 c' _ h hs
                subst this
                have hc3tets : c3.tetList = c1.tetList := t5
                have st := insertSegs3_spec hφ hd hψ g _ c3 c' (by rw [t1]; exact f1) (by rw [t2, g1]; exact cs)
                  (by rw [hc3tets, hc1tets]; simpa using hne) hseg hs (by rw [hextra, hc3tets, hc1tets])
                refine ⟨st.finv, st.sinv, hextra, by rw [hextra]; simpa [ct] using g7, ?_, ?_⟩
                · rw [st.tris, t7, g4]; simp [ctr]
                · rw [st.ledger, hextra, ← hc1tets, ← hc1sum]
                  simp only [ledgerVal, Cav.validSegs, t1, t2, g1]
                  have : (Cav.create.segs.valid) = [] := cvs
                  simp only [this, coneSum, List.map_nil, List.sum_nil, sub_zero]
        · next s2 n2 n3 hbad h23 =>
          simp only [Prod.mk.injEq] at h
          exact (hbad h.1).elim


/-! ### form_edge_split -/

theorem formSplitTris_prefix (g : Grid α) (n0 n1 : Int) (cells : List (Nat × Tri)) (c : Cav) :
    ∃ l, (formSplitTris g n0 n1 c cells).2.1.tetList = c.tetList ++ l := by
  induction cells generalizing c with
  | nil => exact ⟨[], by simp [formSplitTris]⟩
  | cons p rest ih =>
    obtain ⟨cell, tri⟩ := p
    unfold formSplitTris
    simp only
    split
    · exact ⟨[], by simp⟩
    · obtain ⟨l0, h0⟩ := insertSegs_prefix g ((triSegs tri).filter fun s => !(sameEdge n0 n1 s.n0 s.n1))
        { c with triList := c.triList ++ [(cell : Int)] }
      rcases hins : insertSegs g { c with triList := c.triList ++ [(cell : Int)] }
        ((triSegs tri).filter fun s => !(sameEdge n0 n1 s.n0 s.n1)) with ⟨s1, c1⟩
      rw [hins] at h0
      have h0' : c1.tetList = c.tetList ++ l0 := h0
      try rw [hins]
      cases s1
      case ok =>
        obtain ⟨l1, h1⟩ := ih c1
        exact ⟨l0 ++ l1, by rw [h1, h0', List.append_assoc]⟩
      all_goals exact ⟨l0, h0'⟩

theorem formSplitTris_state_mono (g : Grid α) (n0 n1 : Int) (cells : List (Nat × Tri)) (c c' : Cav)
    (s : Refine.Model.Cavity.St) (b : Bool) (h : formSplitTris g n0 n1 c cells = (s, c', b))
    (hs : c'.state = .unknown) : c.state = .unknown := by
  induction cells generalizing c with
  | nil => simp only [formSplitTris, Prod.mk.injEq] at h; rw [← h.2.1] at hs; exact hs
  | cons p rest ih =>
    obtain ⟨cell, tri⟩ := p
    unfold formSplitTris at h
    simp only at h
    split at h
    · simp only [Prod.mk.injEq] at h; rw [← h.2.1] at hs; simp at hs
    · rcases hins : insertSegs g { c with triList := c.triList ++ [(cell : Int)] }
        ((triSegs tri).filter fun s => !(sameEdge n0 n1 s.n0 s.n1)) with ⟨s1, c1⟩
      rw [hins] at h
      have key : c1.state = .unknown → c.state = .unknown := fun h1 =>
        insertSegs_state_mono g _ { c with triList := c.triList ++ [(cell : Int)] } c1 _ hins h1
      cases s1 <;> simp only [] at h
      case ok => exact key (ih c1 h)
      all_goals (simp only [Prod.mk.injEq] at h; exact key (h.2.1 ▸ hs))

theorem formSplitTris_early (g : Grid α) (n0 n1 : Int) (cells : List (Nat × Tri)) (c c' : Cav)
    (s : Refine.Model.Cavity.St) (h : formSplitTris g n0 n1 c cells = (s, c', true)) :
    s ≠ .ok ∨ c'.state = .partition_constrained := by
  induction cells generalizing c with
  | nil => simp [formSplitTris] at h
  | cons p rest ih =>
    obtain ⟨cell, tri⟩ := p
    unfold formSplitTris at h
    simp only at h
    split at h
    · simp only [Prod.mk.injEq, and_true] at h; right; rw [← h.2]
    · rcases hins : insertSegs g { c with triList := c.triList ++ [(cell : Int)] }
        ((triSegs tri).filter fun s => !(sameEdge n0 n1 s.n0 s.n1)) with ⟨s1, c1⟩
      rw [hins] at h
      cases s1 <;> simp only [] at h
      case ok => exact ih c1 h
      all_goals (simp only [Prod.mk.injEq, and_true] at h; left; rw [← h.1]; decide)

theorem formSplitTris_spec {φ : Int → Int → Int → G} (hφ : Alt φ) (hd : Diag φ) (g : Grid α) (n0 n1 : Int)
    (cells : List (Nat × Tri)) (c c' : Cav) (s : Refine.Model.Cavity.St)
    (hf : SlotsInv c.faces) (hsg : SlotsInv c.segs) (htl : c.tetList ≠ [])
    (h : formSplitTris g n0 n1 c cells = (s, c', false)) (hs : c'.state = .unknown)
    (hsame : c'.tetList = c.tetList) :
    SlotsInv c'.faces ∧ SlotsInv c'.segs ∧ c'.node = c.node ∧ c'.surfNode = c.surfNode ∧
    c'.triList = c.triList ++ cells.map (fun p => (p.1 : Int)) ∧ ledgerVal φ c' = ledgerVal φ c := by
  have hψ : Alt2 (fun _ _ => (0 : G)) := ⟨fun _ _ => by simp, fun _ => rfl⟩
  induction cells generalizing c with
  | nil =>
    simp only [formSplitTris, Prod.mk.injEq, and_true] at h
    obtain ⟨_, rfl⟩ := h
    exact ⟨hf, hsg, rfl, rfl, by simp, rfl⟩
  | cons p rest ih =>
    obtain ⟨cell, tri⟩ := p
    unfold formSplitTris at h
    simp only at h
    split at h
    · simp at h
    · rcases hins : insertSegs g { c with triList := c.triList ++ [(cell : Int)] }
        ((triSegs tri).filter fun s => !(sameEdge n0 n1 s.n0 s.n1)) with ⟨s1, c1⟩
      rw [hins] at h
      cases s1 <;> simp only [] at h <;> try (simp at h)
      have hs1 : c1.state = .unknown := formSplitTris_state_mono g n0 n1 rest c1 c' _ _ h hs
      obtain ⟨l0, h0⟩ := insertSegs_prefix g ((triSegs tri).filter fun s => !(sameEdge n0 n1 s.n0 s.n1))
        { c with triList := c.triList ++ [(cell : Int)] }
      rw [hins] at h0
      have h0 : c1.tetList = c.tetList ++ l0 := h0
      obtain ⟨l1, h1⟩ := formSplitTris_prefix g n0 n1 rest c1
      rw [h] at h1
      have h1 : c'.tetList = c1.tetList ++ l1 := h1
      have hnil : l0 = [] ∧ l1 = [] := by
        have e : c.tetList ++ [] = c.tetList ++ (l0 ++ l1) := by
          rw [List.append_nil, ← List.append_assoc, ← h0, ← h1, hsame]
        exact List.append_eq_nil_iff.mp (List.append_cancel_left e).symm
      have ht1 : c1.tetList = c.tetList := by rw [h0, hnil.1]; simp
      have st := insertSegs3_spec hφ hd hψ g _ { c with triList := c.triList ++ [(cell : Int)] } c1 hf hsg htl hins
        hs1 ht1
      obtain ⟨a1, a2, a3, a4, a5, a6⟩ :=
        ih c1 st.finv st.sinv (by rw [ht1]; exact htl) h (by rw [hsame, ht1])
      exact ⟨a1, a2, a3.trans st.node, a4.trans st.surf, by rw [a5, st.tris]; simp, a6.trans st.ledger⟩

/-- **`ref_cavity_form_edge_split`.**  If it returns ok with the state unknown and no tet beyond the ones around the
    edge was pulled in, the cavity lists exactly the tets and tris around the edge and its ledger is
    `∂T − (faces of T through the edge)`. -/
theorem formEdgeSplit_formed {φ : Int → Int → Int → G} (hφ : Alt φ) (hd : Diag φ) (g : Grid α) (n0 n1 newNode : Int)
    (c' : Cav) (h : formEdgeSplit g Cav.create n0 n1 newNode = (.ok, c')) (hs : c'.state = .unknown)
    (hne : g.tets.having2 Tet.nodes n0 n1 ≠ [])
    (hextra : c'.tetList = (g.tets.having2 Tet.nodes n0 n1).map fun p => (p.1 : Int)) :
    EdgeFormed φ g n0 n1 c' := by
  obtain ⟨cf, cs, ct, ctr, cst, cvs, _⟩ := create_facts
  have hcells : ∀ p ∈ g.tets.having2 Tet.nodes n0 n1, g.tets.get? (p.1 : Int) = some p.2 :=
    fun p hp => having2_get g.tets Tet.nodes n0 n1 p hp
  have hψ : Alt2 (fun _ _ => (0 : G)) := ⟨fun _ _ => by simp, fun _ => rfl⟩
  unfold formEdgeSplit at h
  simp only at h
  split at h
  · simp only [Prod.mk.injEq, true_and] at h; rw [← h] at hs; simp at hs
  · split at h
    · next s1 c1 he =>
      simp only [Prod.mk.injEq] at h
      obtain ⟨rfl, rfl⟩ := h
      rcases formSplitTets_early g n0 n1 _ _ _ _ he with e | e
      · exact absurd rfl e
      · rw [e] at hs; cases hs
    · next s1 c1 he =>
      obtain ⟨_, f1, ⟨g1, g2, g3, g4⟩, g5, g6, g7, _, g9, _⟩ :=
        formSplitTets_spec hφ g n0 n1 _ hcells
          { Cav.create with node := newNode, split0 := n0, split1 := n1 } c1 s1 cf he
      have hc1tets : c1.tetList = (g.tets.having2 Tet.nodes n0 n1).map fun p => (p.1 : Int) := by
        rw [g6]; simp [ct]
      have hc1sum : rowsSum φ c1.faces.rows = (c1.tetList.map (tetBd φ g)).sum -
          ((g.tets.having2 Tet.nodes n0 n1).map fun p => faceSum φ (edgeFaces n0 n1 p.2)).sum := by
        rw [g9, hc1tets, tetBd_idx_sum φ g _ hcells, sum_map_sub]
        have : rowsSum φ ({ Cav.create with node := newNode, split0 := n0, split1 := n1 } : Cav).faces.rows = 0 :=
          rowsSum_create φ
        rw [this]; abel
      have hc1segs : c1.validSegs = [] := by simp only [Cav.validSegs, g1]; exact cvs
      have hc1ne : c1.tetList ≠ [] := by rw [hc1tets]; simpa using hne
      have hled1 : ledgerVal φ c1 = (c1.tetList.map (tetBd φ g)).sum -
          ((g.tets.having2 Tet.nodes n0 n1).map fun p => faceSum φ (edgeFaces n0 n1 p.2)).sum := by
        simp only [ledgerVal, hc1segs, coneSum, List.map_nil, List.sum_nil, sub_zero]; exact hc1sum
      have hnd1 : c1.tetList.Nodup := by rw [hc1tets]; simpa [ct] using g7
      split at h
      · next hnt =>
        have := verifyBoth_spec c1 c' _ h hs
        subst this
        have htri0 : g.tris.having2 Tri.nodes n0 n1 = [] := by
          simpa using hnt
        exact ⟨f1, by rw [g1]; exact cs, hc1tets, hnd1, by rw [g4, htri0]; simp [ctr], hled1⟩
      · split at h
        · next s2 c2 he2 =>
          simp only [Prod.mk.injEq] at h
          obtain ⟨rfl, rfl⟩ := h
          rcases formSplitTris_early g n0 n1 _ _ _ _ he2 with e | e
          · exact absurd rfl e
          · rw [e] at hs; cases hs
        · next s2 c2 he2 =>
          split at h
          · simp at h
          · obtain ⟨l2, hl2⟩ := formSplitTris_prefix g n0 n1 (g.tris.having2 Tri.nodes n0 n1) c1
            rw [he2] at hl2
            have hl2 : c2.tetList = c1.tetList ++ l2 := hl2
            split at h
            · -- one tri on the edge: the explicit split segs
              rcases hseg : insertSegs g c2 ((g.tris.having2 Tri.nodes n0 n1).flatMap fun p => (triSegs p.2).flatMap fun s =>
                  if sameEdge n0 n1 s.n0 s.n1 then [(⟨s.n0, newNode, p.2.id⟩ : Seg), ⟨newNode, s.n1, p.2.id⟩] else [])
                with ⟨s4, c4⟩
              rw [hseg] at h
              cases s4 <;> simp only [] at h <;> try (simp at h)
              have := verifyBoth_spec c4 c' _ h hs
              subst this
              obtain ⟨l4, hl4⟩ := insertSegs_prefix g ((g.tris.having2 Tri.nodes n0 n1).flatMap fun p =>
                (triSegs p.2).flatMap fun s =>
                  if sameEdge n0 n1 s.n0 s.n1 then [(⟨s.n0, newNode, p.2.id⟩ : Seg), ⟨newNode, s.n1, p.2.id⟩] else []) c2
              rw [hseg] at hl4
              have hl4 : c'.tetList = c2.tetList ++ l4 := hl4
              have hnil : l2 = [] ∧ l4 = [] := by
                have e : c1.tetList ++ [] = c1.tetList ++ (l2 ++ l4) := by
                  rw [List.append_nil, ← List.append_assoc, ← hl2, ← hl4, hextra, hc1tets]
                exact List.append_eq_nil_iff.mp (List.append_cancel_left e).symm
              have ht2 : c2.tetList = c1.tetList := by rw [hl2, hnil.1]; simp
              have ht4 : c'.tetList = c2.tetList := by rw [hl4, hnil.2]; simp
              have hs2 : c2.state = .unknown := insertSegs_state_mono g _ c2 c' _ hseg hs
              obtain ⟨a1, a2, a3, a4, a5, a6⟩ :=
                formSplitTris_spec hφ hd g n0 n1 _ c1 c2 s2 f1 (by rw [g1]; exact cs) hc1ne he2 hs2 ht2
              have st := insertSegs3_spec hφ hd hψ g _ c2 c' a1 a2 (by rw [ht2]; exact hc1ne) hseg hs ht4
              exact ⟨st.finv, st.sinv, hextra, by rw [hextra, ← hc1tets]; exact hnd1,
                by rw [st.tris, a5, g4]; simp [ctr], by rw [st.ledger, a6, hled1, ht4, ht2]⟩
            · have := verifyBoth_spec c2 c' _ h hs
              subst this
              have ht2 : c'.tetList = c1.tetList := by rw [hextra, hc1tets]
              obtain ⟨a1, a2, a3, a4, a5, a6⟩ :=
                formSplitTris_spec hφ hd g n0 n1 _ c1 c' s2 f1 (by rw [g1]; exact cs) hc1ne he2 hs ht2
              exact ⟨a1, a2, hextra, by rw [hextra, ← hc1tets]; exact hnd1,
                by rw [a5, g4]; simp [ctr], by rw [a6, hled1, ht2]⟩

/-! ### `EdgeMatched` from global conformity (localisation) -/

/-- the adjacency side of a cell store is consistent with its rows: walking the registration order and looking the
    cells up gives the live cells (as a multiset).  True of a store built by `ref_cell_add` / `ref_cell_remove`
    (C14 part B); here a hypothesis on the input grid. -/
def OrderOK {β : Type} (s : Cells β) : Prop :=
  (s.order.filterMap fun c => s.slots.rows.getD c none).Perm s.valid

/-- `φ` restricted to the triples that contain both `n0` and `n1` — still alternating -/
def φEdge (φ : Int → Int → Int → G) (n0 n1 : Int) (a b c : Int) : G :=
  if (a = n0 ∨ b = n0 ∨ c = n0) ∧ (a = n1 ∨ b = n1 ∨ c = n1) then φ a b c else 0

theorem φEdge_alt {φ : Int → Int → Int → G} (hφ : Alt φ) (n0 n1 : Int) : Alt (φEdge φ n0 n1) := by
  refine ⟨fun a b c => ?_, fun a b c => ?_⟩
  · unfold φEdge
    have e : ((b = n0 ∨ c = n0 ∨ a = n0) ∧ (b = n1 ∨ c = n1 ∨ a = n1)) ↔
        ((a = n0 ∨ b = n0 ∨ c = n0) ∧ (a = n1 ∨ b = n1 ∨ c = n1)) := by
      constructor <;> rintro ⟨h1, h2⟩ <;> exact ⟨by tauto, by tauto⟩
    by_cases h : (a = n0 ∨ b = n0 ∨ c = n0) ∧ (a = n1 ∨ b = n1 ∨ c = n1)
    · rw [if_pos h, if_pos (e.mpr h)]; exact hφ.rot a b c
    · rw [if_neg h, if_neg (fun h' => h (e.mp h'))]
  · unfold φEdge
    have e : ((b = n0 ∨ a = n0 ∨ c = n0) ∧ (b = n1 ∨ a = n1 ∨ c = n1)) ↔
        ((a = n0 ∨ b = n0 ∨ c = n0) ∧ (a = n1 ∨ b = n1 ∨ c = n1)) := by
      constructor <;> rintro ⟨h1, h2⟩ <;> exact ⟨by tauto, by tauto⟩
    by_cases h : (a = n0 ∨ b = n0 ∨ c = n0) ∧ (a = n1 ∨ b = n1 ∨ c = n1)
    · rw [if_pos h, if_pos (e.mpr h)]; exact hφ.swap a b c
    · rw [if_neg h, if_neg (fun h' => h (e.mp h'))]; simp

theorem φEdge_face (φ : Int → Int → Int → G) (n0 n1 : Int) (f : Face) :
    φF (φEdge φ n0 n1) f = if f.has n0 && f.has n1 then φF φ f else 0 := by
  simp only [φF, φEdge, Face.has, Bool.and_eq_true, Bool.or_eq_true, beq_iff_eq]
  have e : ((f.n0 = n0 ∨ f.n1 = n0 ∨ f.n2 = n0) ∧ (f.n0 = n1 ∨ f.n1 = n1 ∨ f.n2 = n1)) ↔
      (((n0 = f.n0 ∨ n0 = f.n1) ∨ n0 = f.n2) ∧ ((n1 = f.n0 ∨ n1 = f.n1) ∨ n1 = f.n2)) := by
    constructor <;> rintro ⟨h1, h2⟩ <;> exact ⟨by omega, by omega⟩
  by_cases h : (f.n0 = n0 ∨ f.n1 = n0 ∨ f.n2 = n0) ∧ (f.n0 = n1 ∨ f.n1 = n1 ∨ f.n2 = n1)
  · rw [if_pos h, if_pos (e.mp h)]
  · rw [if_neg h, if_neg (fun h' => h (e.mpr h'))]

theorem faceSum_φEdge (φ : Int → Int → Int → G) (n0 n1 : Int) (l : List Face) :
    faceSum (φEdge φ n0 n1) l = faceSum φ (l.filter fun f => f.has n0 && f.has n1) := by
  induction l with
  | nil => simp [faceSum]
  | cons f t ih =>
    simp only [faceSum, List.map_cons, List.sum_cons, List.filter_cons] at ih ⊢
    rw [φEdge_face, ih]
    by_cases h : (f.has n0 && f.has n1) = true
    · simp only [h, if_true, List.map_cons, List.sum_cons]
    · simp only [h, Bool.false_eq_true, if_false, zero_add]

/-- a face of a tet only has nodes of the tet -/
theorem tetFaces_nodes (t : Tet) (f : Face) (hf : f ∈ tetFaces t) (v : Int) (hv : f.has v = true) :
    t.nodes.contains v = true := by
  rcases t with ⟨a, b, c, d⟩
  rw [tetFaces_eq] at hf
  simp only [List.mem_cons, List.not_mem_nil, or_false] at hf
  simp only [Face.has, Bool.or_eq_true, beq_iff_eq] at hv
  simp only [Tet.nodes, List.contains_cons, List.contains_nil, Bool.or_false, Bool.or_eq_true, beq_iff_eq]
  rcases hf with rfl | rfl | rfl | rfl <;> simp only at hv <;> tauto

theorem edgeFaces_nil (n0 n1 : Int) (t : Tet) (h : ¬ (t.nodes.contains n0 = true ∧ t.nodes.contains n1 = true)) :
    edgeFaces n0 n1 t = [] := by
  unfold edgeFaces
  rw [List.filter_eq_nil_iff]
  intro f hf hh
  simp only [Bool.and_eq_true] at hh
  exact h ⟨tetFaces_nodes t f hf n0 hh.1, tetFaces_nodes t f hf n1 hh.2⟩

/-- `having2` is the registration-order walk filtered by "contains both" -/
theorem having2_eq {β : Type} (s : Cells β) (nodes : β → List Int) (v w : Int) :
    (s.having2 nodes v w).map (·.2) =
      (s.order.filterMap fun c => s.slots.rows.getD c none).filter fun x => (nodes x).contains v && (nodes x).contains w := by
  unfold Cells.having2 Cells.having
  induction s.order with
  | nil => simp
  | cons c rest ih =>
    simp only [List.filterMap_cons]
    cases hrow : s.slots.rows.getD c none with
    | none => simp only [hrow]; exact ih
    | some x =>
      simp only [hrow]
      by_cases hv : (nodes x).contains v = true
      · simp only [hv, if_true, List.filter_cons, Bool.true_and]
        by_cases hw : (nodes x).contains w = true
        · simp only [hw, if_true, List.map_cons]; rw [ih]
        · simp only [hw, Bool.false_eq_true, if_false]; exact ih
      · simp only [hv, Bool.false_eq_true, if_false, List.filter_cons, Bool.false_and]; exact ih

theorem sum_filter_zero {β : Type} (l : List β) (p : β → Bool) (F : β → G) (hz : ∀ x ∈ l, p x = false → F x = 0) :
    (l.map F).sum = ((l.filter p).map F).sum := by
  induction l with
  | nil => simp
  | cons a t ih =>
    have ih := ih (fun x hx => hz x (List.mem_cons_of_mem _ hx))
    simp only [List.map_cons, List.sum_cons, List.filter_cons]
    cases hp : p a with
    | true => simp only [if_true, List.map_cons, List.sum_cons, ih]
    | false => simp only [Bool.false_eq_true, if_false, hz a List.mem_cons_self hp, zero_add, ih]

/-- **localisation**: on a grid whose signed boundary chain vanishes for every alternating `φ` (a conforming mesh)
    and whose adjacency is consistent, the faces through any edge are matched -/
theorem edgeMatched_of_conforming {φ : Int → Int → Int → G} (hφ : Alt φ) (g : Grid α) (n0 n1 : Int)
    (hot : OrderOK g.tets) (hos : OrderOK g.tris)
    (hconf : ∀ χ : Int → Int → Int → G, Alt χ → meshBd χ g = 0) : EdgeMatched φ g n0 n1 := by
  have h := hconf (φEdge φ n0 n1) (φEdge_alt hφ n0 n1)
  unfold meshBd tetsBd at h
  -- tets
  have e1 : (g.tets.valid.map fun t => faceSum (φEdge φ n0 n1) (tetFaces t)).sum =
      ((g.tets.having2 Tet.nodes n0 n1).map fun p => faceSum φ (edgeFaces n0 n1 p.2)).sum := by
    have hF : ∀ t : Tet, faceSum (φEdge φ n0 n1) (tetFaces t) = faceSum φ (edgeFaces n0 n1 t) :=
      fun t => faceSum_φEdge φ n0 n1 (tetFaces t)
    simp only [hF]
    rw [← (hot.map fun t => faceSum φ (edgeFaces n0 n1 t)).sum_eq]
    rw [sum_filter_zero _ (fun x => (Tet.nodes x).contains n0 && (Tet.nodes x).contains n1)
      (fun t => faceSum φ (edgeFaces n0 n1 t))]
    · rw [← having2_eq g.tets Tet.nodes n0 n1, List.map_map]; rfl
    · intro t _ hp
      rw [edgeFaces_nil n0 n1 t (by simpa using hp)]; simp [faceSum]
  -- tris
  have e2 : (g.tris.valid.map fun t => φEdge φ n0 n1 t.n0 t.n1 t.n2).sum =
      ((g.tris.having2 Tri.nodes n0 n1).map fun p => φ p.2.n0 p.2.n1 p.2.n2).sum := by
    rw [← (hos.map fun t => φEdge φ n0 n1 t.n0 t.n1 t.n2).sum_eq]
    rw [sum_filter_zero _ (fun x => (Tri.nodes x).contains n0 && (Tri.nodes x).contains n1)
      (fun t => φEdge φ n0 n1 t.n0 t.n1 t.n2)]
    · rw [← having2_eq g.tris Tri.nodes n0 n1, List.map_map]
      congr 1
      apply List.map_congr_left
      intro p hp
      have hc := (List.mem_filter.mp hp)
      simp only [Function.comp, φEdge]
      have h0 : (Tri.nodes p.2).contains n0 = true := by
        have := (List.mem_filterMap.mp hc.1)
        obtain ⟨cidx, _, hx⟩ := this
        cases hrow : g.tris.slots.rows.getD cidx none with
        | none => rw [hrow] at hx; cases hx
        | some x =>
          rw [hrow] at hx; simp only at hx
          split at hx
          · next hh => simp only [Option.some.injEq] at hx; subst hx; exact hh
          · cases hx
      have h1 : (Tri.nodes p.2).contains n1 = true := hc.2
      simp only [Tri.nodes, List.contains_cons, List.contains_nil, Bool.or_false, Bool.or_eq_true, beq_iff_eq] at h0 h1
      rw [if_pos ⟨by tauto, by tauto⟩]
    · intro t _ hp
      simp only [φEdge]
      rw [if_neg]
      intro hh
      simp only [Tri.nodes, List.contains_cons, List.contains_nil, Bool.or_false, Bool.and_eq_false_iff,
        Bool.or_eq_false_iff, beq_eq_false_iff_ne, ne_eq] at hp
      rcases hp with hp | hp
      · rcases hh.1 with e | e | e
        · exact hp.1 e.symm
        · exact hp.2.1 e.symm
        · exact hp.2.2 e.symm
      · rcases hh.2 with e | e | e
        · exact hp.1 e.symm
        · exact hp.2.1 e.symm
        · exact hp.2.2 e.symm
  rw [e1, e2] at h
  exact sub_eq_zero.mp h


/-! ### a decidable sufficient condition for `meshBd χ g = 0` (used by the non-vacuity examples) -/

/-- every unordered face has signed multiplicity zero among the faces of the live tets and the live boundary tris -/
def gridOrient (g : Grid α) : Bool :=
  let pos := g.tets.valid.flatMap tetFaces
  let neg := g.tris.valid.map fun t => (⟨t.n0, t.n1, t.n2⟩ : Face)
  (pos ++ neg).all fun f => signedCount pos neg (sort3s f.n0 f.n1 f.n2).1 == 0

theorem meshBd_zero_of_orient {φ : Int → Int → Int → G} (hφ : Alt φ) (g : Grid α) (h : gridOrient g = true) :
    meshBd φ g = 0 := by
  have := signed_lists_eq hφ _ _ h
  unfold meshBd tetsBd
  have e1 : faceSum φ (g.tets.valid.flatMap tetFaces) = (g.tets.valid.map fun t => faceSum φ (tetFaces t)).sum := by
    unfold faceSum
    induction g.tets.valid with
    | nil => simp
    | cons t r ih => simp only [List.flatMap_cons, List.map_append, List.sum_append, List.map_cons, List.sum_cons, ih]
  have e2 : faceSum φ (g.tris.valid.map fun t => (⟨t.n0, t.n1, t.n2⟩ : Face)) =
      (g.tris.valid.map fun t => φ t.n0 t.n1 t.n2).sum := by
    unfold faceSum
    rw [List.map_map]; rfl
  rw [← e1, ← e2]; exact this

end Refine.Lemmas.Cavity2
