import Refine.Lemmas.SearchTree

/-!
  Lemmas for C12, geometric part (exact arithmetic): point–segment kernel `dist2seg`
  (`ref_search_distance2`), bounding sphere, convexity of balls.
-/
namespace Refine.Lemmas.Search
open Refine Refine.Model.Geom Refine.Model.Search Refine.ScalarReal

/-- the point `p0 + t (p1 - p0)` -/
def lerp (a b : V3 ℝ) (t : ℝ) : V3 ℝ :=
  ⟨a.x + t * (b.x - a.x), a.y + t * (b.y - a.y), a.z + t * (b.z - a.z)⟩

/-- the point `u a + v b + w c` -/
def comb3 (a b c : V3 ℝ) (u v w : ℝ) : V3 ℝ :=
  ⟨u * a.x + v * b.x + w * c.x, u * a.y + v * b.y + w * c.y, u * a.z + v * b.z + w * c.z⟩

/-- `y` lies on the closed segment `[a,b]` -/
def OnSeg (a b y : V3 ℝ) : Prop := ∃ t : ℝ, 0 ≤ t ∧ t ≤ 1 ∧ y = lerp a b t

/-- `y` lies in the closed triangle `a b c` (convex hull of the three vertices) -/
def InTri (a b c y : V3 ℝ) : Prop :=
  ∃ u v w : ℝ, 0 ≤ u ∧ 0 ≤ v ∧ 0 ≤ w ∧ u + v + w = 1 ∧ y = comb3 a b c u v w

theorem V3.eq_of {a b : V3 ℝ} (hx : a.x = b.x) (hy : a.y = b.y) (hz : a.z = b.z) : a = b := by
  cases a; cases b; simp_all

theorem lerp_zero (a b : V3 ℝ) : lerp a b 0 = a := by
  apply V3.eq_of <;> simp [lerp]

theorem lerp_one (a b : V3 ℝ) : lerp a b 1 = b := by
  apply V3.eq_of <;> simp [lerp]

theorem onSeg_left (a b : V3 ℝ) : OnSeg a b a := ⟨0, le_refl _, zero_le_one, (lerp_zero a b).symm⟩
theorem onSeg_right (a b : V3 ℝ) : OnSeg a b b := ⟨1, zero_le_one, le_refl _, (lerp_one a b).symm⟩

/-! ## `ref_search_distance2` -/

/-- `len2 = dl·dl` -/
def segL (p0 p1 : V3 ℝ) : ℝ :=
  (p1.x - p0.x) * (p1.x - p0.x) + (p1.y - p0.y) * (p1.y - p0.y) + (p1.z - p0.z) * (p1.z - p0.z)

/-- `proj2 = (x - p0)·dl` -/
def segP (p0 p1 x : V3 ℝ) : ℝ :=
  (x.x - p0.x) * (p1.x - p0.x) + (x.y - p0.y) * (p1.y - p0.y) + (x.z - p0.z) * (p1.z - p0.z)

/-- the guard `ref_math_divisible(proj2, len2)` of `ref_search_distance2` -/
def SegGuard (p0 p1 x : V3 ℝ) : Prop := Scalar.divisible (segP p0 p1 x) (segL p0 p1) = true

theorem segL_nonneg (p0 p1 : V3 ℝ) : 0 ≤ segL p0 p1 := by
  unfold segL; nlinarith [mul_self_nonneg (p1.x - p0.x), mul_self_nonneg (p1.y - p0.y), mul_self_nonneg (p1.z - p0.z)]

theorem segL_eq_sqd (p0 p1 : V3 ℝ) : segL p0 p1 = sqd p0 p1 := by unfold segL sqd; ring

/-- the model kernel at `ℝ`, unfolded: clamp the projection parameter, or fall back to the first end point -/
theorem dist2seg_unfold (p0 p1 x : V3 ℝ) :
    dist2seg p0 p1 x =
      if Scalar.divisible (segP p0 p1 x) (segL p0 p1) = true
      then edist x (lerp p0 p1 (min (max (segP p0 p1 x / segL p0 p1) 0) 1))
      else edist x p0 := by
  unfold dist2seg
  simp only [vsub, dot, add_eq, sub_eq, mul_eq, div_eq, sqrt_eq, cmax_eq, cmin_eq, zero_eq, one_eq]
  change (if Scalar.divisible (segP p0 p1 x) (segL p0 p1) = true then _ else _) = _
  by_cases h : Scalar.divisible (segP p0 p1 x) (segL p0 p1) = true
  · rw [if_pos h, if_pos h]
    unfold edist sqd lerp segP segL
    congr 1
    ring
  · rw [if_neg h, if_neg h]
    unfold edist sqd
    congr 1
    ring

/-- squared distance from `x` to a point of the line is a quadratic in the parameter -/
theorem sqd_lerp (p0 p1 x : V3 ℝ) (t : ℝ) :
    sqd x (lerp p0 p1 t) = sqd x p0 - 2 * t * segP p0 p1 x + t ^ 2 * segL p0 p1 := by
  unfold sqd lerp segP segL; ring

theorem sqd_lerp_left (p0 p1 : V3 ℝ) (t : ℝ) : sqd p0 (lerp p0 p1 t) = t ^ 2 * segL p0 p1 := by
  unfold sqd lerp segL; ring

/-- Cauchy–Schwarz in coordinates (Lagrange identity) -/
theorem segP_sq_le (p0 p1 x : V3 ℝ) : segP p0 p1 x ^ 2 ≤ sqd x p0 * segL p0 p1 := by
  unfold segP sqd segL
  nlinarith [sq_nonneg ((x.x - p0.x) * (p1.y - p0.y) - (x.y - p0.y) * (p1.x - p0.x)),
    sq_nonneg ((x.x - p0.x) * (p1.z - p0.z) - (x.z - p0.z) * (p1.x - p0.x)),
    sq_nonneg ((x.y - p0.y) * (p1.z - p0.z) - (x.z - p0.z) * (p1.y - p0.y))]

/-- clamping the unconstrained minimiser of a convex quadratic to `[0,1]` minimises it over `[0,1]` -/
theorem quad_clamp {D P L : ℝ} (hL : 0 < L) (s : ℝ) (hs0 : 0 ≤ s) (hs1 : s ≤ 1) :
    D - 2 * (min (max (P / L) 0) 1) * P + (min (max (P / L) 0) 1) ^ 2 * L ≤ D - 2 * s * P + s ^ 2 * L := by
  obtain ⟨r, rfl⟩ : ∃ r, P = r * L := ⟨P / L, by field_simp⟩
  have hr : r * L / L = r := by field_simp
  rw [hr]
  rcases le_total r 0 with h0 | h0
  · rw [max_eq_right h0, min_eq_left zero_le_one]
    nlinarith [mul_nonneg (mul_nonneg hs0 hL.le) (by linarith : 0 ≤ s - 2 * r)]
  · rw [max_eq_left h0]
    rcases le_total r 1 with h1 | h1
    · rw [min_eq_left h1]
      nlinarith [mul_nonneg (sq_nonneg (s - r)) hL.le]
    · rw [min_eq_right h1]
      nlinarith [mul_nonneg (mul_nonneg (by linarith : 0 ≤ 1 - s) (by linarith : 0 ≤ 2 * r - 1 - s)) hL.le]

/-- the value of `ref_search_distance2` is the distance to a point of the segment (both branches) -/
theorem dist2seg_attained (p0 p1 x : V3 ℝ) : ∃ y, OnSeg p0 p1 y ∧ dist2seg p0 p1 x = edist x y := by
  rw [dist2seg_unfold]
  by_cases h : Scalar.divisible (segP p0 p1 x) (segL p0 p1) = true
  · rw [if_pos h]
    refine ⟨lerp p0 p1 _, ⟨_, ?_, ?_, rfl⟩, rfl⟩
    · exact le_min (le_max_right _ _) zero_le_one
    · exact min_le_right _ _
  · rw [if_neg h]
    exact ⟨p0, onSeg_left p0 p1, rfl⟩

theorem dist2seg_nonneg (p0 p1 x : V3 ℝ) : 0 ≤ dist2seg p0 p1 x := by
  obtain ⟨y, _, h⟩ := dist2seg_attained p0 p1 x
  rw [h]; exact edist_nonneg _ _

/-- when the `ref_math_divisible` guard passes the value is the minimum over the segment -/
theorem dist2seg_le_of_guard (p0 p1 x : V3 ℝ) (h : SegGuard p0 p1 x) (y : V3 ℝ) (hy : OnSeg p0 p1 y) :
    dist2seg p0 p1 x ≤ edist x y := by
  obtain ⟨s, hs0, hs1, rfl⟩ := hy
  rw [dist2seg_unfold, if_pos (show Scalar.divisible (segP p0 p1 x) (segL p0 p1) = true from h)]
  apply edist_le_of_sqd_le
  rw [sqd_lerp, sqd_lerp]
  have hL : 0 < segL p0 p1 := lt_of_le_of_ne (segL_nonneg _ _) (Ne.symm (divisible_ne_zero h))
  exact quad_clamp hL s hs0 hs1

/-- the zero-length branch: both end points coincide and the value is the distance to that point -/
theorem dist2seg_le_of_degenerate (p0 x : V3 ℝ) (y : V3 ℝ) (hy : OnSeg p0 p0 y) :
    dist2seg p0 p0 x ≤ edist x y := by
  obtain ⟨s, _, _, rfl⟩ := hy
  have hy : lerp p0 p0 s = p0 := by apply V3.eq_of <;> simp [lerp]
  rw [hy, dist2seg_unfold]
  have h0 : segL p0 p0 = 0 := by unfold segL; ring
  have hg : ¬ Scalar.divisible (segP p0 p0 x) (segL p0 p0) = true := fun h => divisible_ne_zero h h0
  rw [if_neg hg]

/-- the relative slack `1e-20` of the `ref_math_divisible` guard -/
noncomputable def eps20 : ℝ := 1 / 10 ^ 20

theorem eps20_pos : 0 < eps20 := by unfold eps20; positivity
theorem eps20_lt_one : eps20 < 1 := by unfold eps20; norm_num

/-- when the guard fails, the segment is shorter than `1e-20` times the distance to its first end point -/
theorem seg_short_of_not_guard (p0 p1 x : V3 ℝ) (h : ¬ SegGuard p0 p1 x) :
    edist p0 p1 ≤ eps20 * edist x p0 := by
  unfold SegGuard at h
  rw [divisible_iff] at h
  have h10 : (1 : ℝ) * (10 : ℝ) ^ (20 : ℤ) = 10 ^ 20 := by norm_num
  rw [h10] at h
  have h1 : |(10 : ℝ) ^ 20 * segL p0 p1| ≤ |segP p0 p1 x| := not_lt.mp h
  have h2 : ((10 : ℝ) ^ 20 * segL p0 p1) ^ 2 ≤ segP p0 p1 x ^ 2 := sq_le_sq.mpr h1
  have h3 := segP_sq_le p0 p1 x
  have hL := segL_nonneg p0 p1
  have hD := sqd_nonneg x p0
  have h4 : (10 : ℝ) ^ 40 * segL p0 p1 ≤ sqd x p0 := by
    by_contra hc
    have hc := not_le.mp hc
    have hLpos : 0 < segL p0 p1 := by
      by_contra hn
      have : segL p0 p1 = 0 := le_antisymm (not_lt.mp hn) hL
      rw [this] at hc; linarith
    nlinarith [mul_lt_mul_of_pos_right hc hLpos]
  unfold edist
  rw [Real.sqrt_le_iff]
  refine ⟨mul_nonneg eps20_pos.le (Real.sqrt_nonneg _), ?_⟩
  rw [mul_pow, Real.sq_sqrt hD, ← segL_eq_sqd]
  unfold eps20
  have : ((1 : ℝ) / 10 ^ 20) ^ 2 = 1 / 10 ^ 40 := by norm_num
  rw [this]
  have h5 : (1 : ℝ) / 10 ^ 40 * ((10 : ℝ) ^ 40 * segL p0 p1) = segL p0 p1 := by field_simp
  nlinarith [mul_le_mul_of_nonneg_left h4 (by positivity : (0 : ℝ) ≤ 1 / 10 ^ 40)]

theorem edist_left_lerp_le (p0 p1 : V3 ℝ) (s : ℝ) (hs0 : 0 ≤ s) (hs1 : s ≤ 1) :
    edist p0 (lerp p0 p1 s) ≤ edist p0 p1 := by
  apply edist_le_of_sqd_le
  rw [sqd_lerp_left, ← segL_eq_sqd]
  nlinarith [segL_nonneg p0 p1, mul_nonneg hs0 (segL_nonneg p0 p1)]

/-- in every branch the value is within the relative slack `1e-20` of the minimum over the segment -/
theorem dist2seg_near (p0 p1 x : V3 ℝ) (y : V3 ℝ) (hy : OnSeg p0 p1 y) :
    (1 - eps20) * dist2seg p0 p1 x ≤ edist x y := by
  by_cases h : SegGuard p0 p1 x
  · have h1 := dist2seg_le_of_guard p0 p1 x h y hy
    have h2 := dist2seg_nonneg p0 p1 x
    nlinarith [eps20_pos]
  · have hv : dist2seg p0 p1 x = edist x p0 := by
      rw [dist2seg_unfold, if_neg (show ¬ Scalar.divisible (segP p0 p1 x) (segL p0 p1) = true from h)]
    obtain ⟨s, hs0, hs1, rfl⟩ := hy
    have h1 := seg_short_of_not_guard p0 p1 x h
    have h2 := edist_left_lerp_le p0 p1 s hs0 hs1
    have h3 := edist_triangle x (lerp p0 p1 s) p0
    rw [edist_comm (lerp p0 p1 s) p0] at h3
    rw [hv]
    linarith

/-- the guard passes whenever the query is closer than `1e20` segment lengths to the first end point -/
theorem segGuard_of_close (p0 p1 x : V3 ℝ) (h : eps20 * edist x p0 < edist p0 p1) : SegGuard p0 p1 x := by
  by_contra hn
  exact absurd (seg_short_of_not_guard p0 p1 x hn) (not_le.mpr h)

open Classical in
/-- relative slack of `ref_search_distance2`: `1` when the divisible guard passes or the segment has zero
    length (the value is then the exact minimum), `1 - 1e-20` in the remaining far-field branch -/
noncomputable def segSlack (p0 p1 x : V3 ℝ) : ℝ := if SegGuard p0 p1 x ∨ p0 = p1 then 1 else 1 - eps20

theorem segSlack_le_one (p0 p1 x : V3 ℝ) : segSlack p0 p1 x ≤ 1 := by
  unfold segSlack; split_ifs
  · exact le_refl _
  · linarith [eps20_pos]

theorem segSlack_ge (p0 p1 x : V3 ℝ) : 1 - eps20 ≤ segSlack p0 p1 x := by
  unfold segSlack; split_ifs
  · linarith [eps20_pos]
  · exact le_refl _

theorem segSlack_pos (p0 p1 x : V3 ℝ) : 0 < segSlack p0 p1 x :=
  lt_of_lt_of_le (by linarith [eps20_lt_one]) (segSlack_ge p0 p1 x)

theorem segSlack_eq_one {p0 p1 x : V3 ℝ} (h : SegGuard p0 p1 x ∨ p0 = p1) : segSlack p0 p1 x = 1 := by
  unfold segSlack; rw [if_pos h]

/-- `segSlack · value ≤ dist(x, y)` for every point `y` of the segment -/
theorem segSlack_mul_le (p0 p1 x y : V3 ℝ) (hy : OnSeg p0 p1 y) :
    segSlack p0 p1 x * dist2seg p0 p1 x ≤ edist x y := by
  unfold segSlack
  split_ifs with h
  · rw [one_mul]
    rcases h with h | h
    · exact dist2seg_le_of_guard p0 p1 x h y hy
    · subst h; exact dist2seg_le_of_degenerate p0 x y hy
  · exact dist2seg_near p0 p1 x y hy

/-! ## convexity of balls -/

theorem sqd_lerp_center (c a b : V3 ℝ) (t : ℝ) :
    sqd c (lerp a b t) = (1 - t) * sqd c a + t * sqd c b - t * (1 - t) * sqd a b := by
  unfold sqd lerp; ring

theorem sqd_comb3_center (c p0 p1 p2 : V3 ℝ) (u v w : ℝ) (h : u + v + w = 1) :
    sqd c (comb3 p0 p1 p2 u v w) =
      u * sqd c p0 + v * sqd c p1 + w * sqd c p2 - (u * v * sqd p0 p1 + u * w * sqd p0 p2 + v * w * sqd p1 p2) := by
  have hw : w = 1 - u - v := by linarith
  subst hw
  unfold sqd comb3; ring

theorem edist_le_of_sqd_le_sq {a b : V3 ℝ} {r : ℝ} (hr : 0 ≤ r) (h : sqd a b ≤ r ^ 2) : edist a b ≤ r := by
  unfold edist
  rw [Real.sqrt_le_iff]
  exact ⟨hr, h⟩

theorem sqd_le_sq_of_edist_le {a b : V3 ℝ} {r : ℝ} (h : edist a b ≤ r) : sqd a b ≤ r ^ 2 := by
  rw [← edist_sq]
  exact pow_le_pow_left₀ (edist_nonneg a b) h 2

/-- a ball containing both end points contains the segment -/
theorem onSeg_in_ball (c a b : V3 ℝ) (r : ℝ) (ha : edist c a ≤ r) (hb : edist c b ≤ r) (y : V3 ℝ)
    (hy : OnSeg a b y) : edist c y ≤ r := by
  obtain ⟨t, h0, h1, rfl⟩ := hy
  have hr : 0 ≤ r := le_trans (edist_nonneg c a) ha
  apply edist_le_of_sqd_le_sq hr
  rw [sqd_lerp_center]
  have h2 := sqd_le_sq_of_edist_le ha
  have h3 := sqd_le_sq_of_edist_le hb
  nlinarith [mul_nonneg (mul_nonneg h0 (by linarith : 0 ≤ 1 - t)) (sqd_nonneg a b),
    mul_le_mul_of_nonneg_left h2 (by linarith : 0 ≤ 1 - t), mul_le_mul_of_nonneg_left h3 h0]

/-- a ball containing the three vertices contains the triangle -/
theorem inTri_in_ball (c p0 p1 p2 : V3 ℝ) (r : ℝ) (h0 : edist c p0 ≤ r) (h1 : edist c p1 ≤ r)
    (h2 : edist c p2 ≤ r) (y : V3 ℝ) (hy : InTri p0 p1 p2 y) : edist c y ≤ r := by
  obtain ⟨u, v, w, hu, hv, hw, hs, rfl⟩ := hy
  have hr : 0 ≤ r := le_trans (edist_nonneg c p0) h0
  apply edist_le_of_sqd_le_sq hr
  rw [sqd_comb3_center _ _ _ _ _ _ _ hs]
  have g0 := sqd_le_sq_of_edist_le h0
  have g1 := sqd_le_sq_of_edist_le h1
  have g2 := sqd_le_sq_of_edist_le h2
  have e1 := mul_nonneg (mul_nonneg hu hv) (sqd_nonneg p0 p1)
  have e2 := mul_nonneg (mul_nonneg hu hw) (sqd_nonneg p0 p2)
  have e3 := mul_nonneg (mul_nonneg hv hw) (sqd_nonneg p1 p2)
  have f0 := mul_le_mul_of_nonneg_left g0 hu
  have f1 := mul_le_mul_of_nonneg_left g1 hv
  have f2 := mul_le_mul_of_nonneg_left g2 hw
  have : u * r ^ 2 + v * r ^ 2 + w * r ^ 2 = r ^ 2 := by rw [← add_mul, ← add_mul, hs, one_mul]
  linarith

/-! ## bounding sphere -/

theorem sphereTerm_eq (c p : V3 ℝ) : sphereTerm c p = edist c p := by
  unfold sphereTerm edist sqd
  simp only [add_eq, sub_eq, mul_eq, sqrt_eq]
  congr 1; ring

theorem foldl_cmax_ge_init (c : V3 ℝ) (pts : List (V3 ℝ)) (r0 : ℝ) :
    r0 ≤ pts.foldl (fun r p => Scalar.cmax r (sphereTerm c p)) r0 := by
  induction pts generalizing r0 with
  | nil => exact le_refl _
  | cons p pts ih =>
    rw [List.foldl_cons]
    exact le_trans (by rw [cmax_eq]; exact le_max_left _ _) (ih _)

theorem foldl_cmax_ge_mem (c : V3 ℝ) (pts : List (V3 ℝ)) (r0 : ℝ) (p : V3 ℝ) (hp : p ∈ pts) :
    edist c p ≤ pts.foldl (fun r p => Scalar.cmax r (sphereTerm c p)) r0 := by
  induction pts generalizing r0 with
  | nil => simp at hp
  | cons q pts ih =>
    rw [List.foldl_cons]
    rcases List.mem_cons.mp hp with rfl | hp
    · refine le_trans ?_ (foldl_cmax_ge_init c pts _)
      rw [cmax_eq, sphereTerm_eq]; exact le_max_right _ _
    · exact ih _ hp

/-- every vertex is within `radius` of the centre, whatever the centre is -/
theorem sphereRadius_contains (c : V3 ℝ) (pts : List (V3 ℝ)) (p : V3 ℝ) (hp : p ∈ pts) :
    edist c p ≤ sphereRadius c pts := foldl_cmax_ge_mem c pts _ p hp

theorem sphereRadius_nonneg (c : V3 ℝ) (pts : List (V3 ℝ)) : 0 ≤ sphereRadius c pts := by
  have := foldl_cmax_ge_init c pts (Scalar.zero : ℝ)
  rw [zero_eq] at this
  unfold sphereRadius
  rw [zero_eq]
  exact this

/-- `scale = 1 + 1e-8 ≥ 1` -/
theorem inflate_ge_one : (1 : ℝ) ≤ (inflate : ℝ) := by
  unfold inflate
  rw [add_eq, one_eq, ofDec_eq]
  have : (0 : ℝ) ≤ ((1 : ℤ) : ℝ) * (10 : ℝ) ^ (-8 : ℤ) := by positivity
  linarith

end Refine.Lemmas.Search
