import Refine.Lemmas.UgridBytes

/-! the serial UGRID reader applied to what a writer lays out (`encodeRaw`) returns the mesh -/
namespace Refine.Lemmas.Ugrid
open Refine.Gen Refine.Model.Endian Refine.Model.Ugrid
open Refine.Model.Meshb (Bytes Status Vertex P Cfg takeN encLE decLE toSigned ofSigned int32 wrap32 adjAdd adjAddAll)
open Refine.Lemmas.Codec (int32_iff)

/-! ### what `cellOk` gives -/

theorem cellOk_iff (k : Kind) (n : Nat) (c : List Int) :
    cellOk k n c = true ↔ c.length = k.sizePer ∧ (∀ x ∈ c.take k.nodePer, 0 ≤ x ∧ x < (n : Int)) ∧
      (∀ t ∈ c.drop k.nodePer, int32 t) := by
  simp [cellOk, Kind.sizePer, and_assoc]

theorem cellOk_length {k : Kind} {n : Nat} {c : List Int} (h : cellOk k n c = true) : c.length = k.sizePer :=
  ((cellOk_iff k n c).1 h).1

theorem take_length_of_cellOk {k : Kind} {n : Nat} {c : List Int} (h : cellOk k n c = true) :
    (c.take k.nodePer).length = k.nodePer := by
  have := cellOk_length h
  simp [Kind.sizePer] at this
  simp; omega

theorem connOf_length {k : Kind} {n : Nat} {c : List Int} (h : cellOk k n c = true) :
    (connOf k c).length = k.nodePer := by
  simp only [connOf, List.length_map]; exact take_length_of_cellOk h

theorem connOf_int32 {k : Kind} {n : Nat} (hn : n < 2 ^ 27) {c : List Int} (h : cellOk k n c = true) :
    ∀ x ∈ connOf k c, int32 x := by
  intro x hx
  simp only [connOf, List.mem_map] at hx
  obtain ⟨y, hy, rfl⟩ := hx
  have := ((cellOk_iff k n c).1 h).2.1 y hy
  unfold int32
  constructor <;> omega

theorem tagOf_int32 {k : Kind} {n : Nat} {c : List Int} (ht : k.hasTag = true) (h : cellOk k n c = true) :
    int32 (tagOf k c) := by
  have hl := cellOk_length h
  simp [Kind.sizePer, ht] at hl
  have hd : c.drop k.nodePer = [tagOf k c] := by
    have : (c.drop k.nodePer).length = 1 := by simp [hl]
    match hdc : c.drop k.nodePer, this with
    | [t], _ =>
      have : c[k.nodePer]? = some t := by
        have := List.getElem?_drop (xs := c) (i := k.nodePer) (j := 0)
        simp [hdc] at this
        exact this.symm
      simp [tagOf, List.getD, this]
  exact ((cellOk_iff k n c).1 h).2.2 _ (by rw [hd]; simp)

/-- the stored cell while the tag block has not been read: nodes, then `REF_EMPTY` -/
def stub (k : Kind) (c : List Int) : List Int := c.take k.nodePer ++ (if k.hasTag then [-1] else [])

/-! ### rows -/

theorem rows_flatten (per : Nat) (l : List (List Int)) (h : ∀ x ∈ l, x.length = per) :
    rows per l.length l.flatten = l := by
  induction l with
  | nil => simp [rows]
  | cons a l ih =>
    have ha : a.length = per := h a (by simp)
    simp only [List.length_cons, List.flatten_cons, rows]
    rw [List.take_left' ha, List.drop_left' ha, ih (fun x hx => h x (by simp [hx]))]

/-! ### one row, all rows -/

theorem adjAddAll_ok (cfg : Cfg) (hc : cfg.allocCap = 2 ^ 30) (xs : List Int) (h : ∀ x ∈ xs, 0 ≤ x ∧ x < 2 ^ 27) :
    adjAddAll cfg xs = .ok () := by
  induction xs with
  | nil => rfl
  | cons x xs ih =>
    have hx := h x (by simp)
    have h1 : adjAdd cfg x = .ok () := by
      unfold adjAdd
      have a : ¬ x < 0 := by omega
      have b : ¬ x > 2 ^ 31 - 1 - 100 := by omega
      have c : ¬ cfg.allocCap < 4 * (x.toNat + 100) := by rw [hc]; omega
      simp [a, c]
      omega
    simp only [adjAddAll, h1]
    exact ih (fun y hy => h y (by simp [hy]))

theorem cellOfRow_connOf (cfg : Cfg) (hc : cfg.allocCap = 2 ^ 30) (k : Kind) {n : Nat} (hn : n < 2 ^ 27)
    {c : List Int} (h : cellOk k n c = true) :
    cellOfRow cfg k (n : Int) (connOf k c) = .ok (stub k c) := by
  have hin := ((cellOk_iff k n c).1 h).2.1
  have hm : (connOf k c).map (· - 1) = c.take k.nodePer := by
    simp only [connOf, List.map_map]
    conv_rhs => rw [← List.map_id (c.take k.nodePer)]
    apply List.map_congr_left
    intro x _; simp
  have h1 : (connOf k c).any (fun x => decide (x = -(2 ^ 31 : Int))) = false := by
    rw [List.any_eq_false]
    intro x hx
    simp only [connOf, List.mem_map] at hx
    obtain ⟨y, hy, rfl⟩ := hx
    have := hin y hy
    simp; omega
  have h2 : (connOf k c).any (fun x => decide (x < 1 ∨ (n : Int) < x)) = false := by
    rw [List.any_eq_false]
    intro x hx
    simp only [connOf, List.mem_map] at hx
    obtain ⟨y, hy, rfl⟩ := hx
    have := hin y hy
    simp; omega
  unfold cellOfRow
  simp only [h1, h2, Bool.false_eq_true, if_false, and_false]
  rw [hm, adjAddAll_ok cfg hc _ (fun x hx => by have := hin x hx; omega)]
  rfl

theorem cellsOfRows_connOf (cfg : Cfg) (hc : cfg.allocCap = 2 ^ 30) (k : Kind) {n : Nat} (hn : n < 2 ^ 27)
    (cs : List (List Int)) (h : ∀ c ∈ cs, cellOk k n c = true) :
    cellsOfRows cfg k (n : Int) (cs.map (connOf k)) = .ok (cs.map (stub k)) := by
  induction cs with
  | nil => rfl
  | cons c cs ih =>
    simp only [List.map_cons, cellsOfRows]
    rw [cellOfRow_connOf cfg hc k hn (h c (by simp))]
    simp only
    rw [ih (fun d hd => h d (by simp [hd]))]

/-! ### a connectivity section -/

theorem secConn_eq (fl : Flavor) (k : Kind) (cs : List (List Int)) :
    secConn fl k cs = ((cs.map (connOf k)).flatten).flatMap (Refine.Model.Ugrid.encInt fl) := by
  unfold secConn
  induction cs with
  | nil => simp
  | cons c cs ih => simp [List.flatMap_cons, ih]

theorem secConn_append (fl : Flavor) (k : Kind) (a b : List (List Int)) :
    secConn fl k (a ++ b) = secConn fl k a ++ secConn fl k b := by
  simp [secConn]

theorem flatten_connOf_length (k : Kind) {n : Nat} (cs : List (List Int)) (h : ∀ c ∈ cs, cellOk k n c = true) :
    ((cs.map (connOf k)).flatten).length = k.nodePer * cs.length := by
  induction cs with
  | nil => simp
  | cons c cs ih =>
    simp only [List.map_cons, List.flatten_cons, List.length_append, List.length_cons]
    rw [connOf_length (h c (by simp)), ih (fun d hd => h d (by simp [hd]))]
    rw [Nat.mul_add]; omega

/-- `ref_import_bin_ugrid_c2n` on a connectivity section returns the stored cells, for every chunk size ≥ 1 -/
theorem rdConn_secConn (cfg : Cfg) (hc : cfg.allocCap = 2 ^ 30) (fl : Flavor) (k : Kind) {n : Nat} (hn : n < 2 ^ 27)
    (maxChunk : Nat) (hm : 1 ≤ maxChunk) (fuel : Nat) (cs : List (List Int)) (hf : cs.length ≤ fuel)
    (h : ∀ c ∈ cs, cellOk k n c = true) (r : Bytes) :
    rdConn cfg fl k (n : Int) maxChunk fuel cs.length (secConn fl k cs ++ r) = .ok (cs.map (stub k), r) := by
  induction fuel generalizing cs with
  | zero =>
    have : cs = [] := List.eq_nil_of_length_eq_zero (by omega)
    subst this; simp [rdConn, secConn]
  | succ fuel ih =>
    by_cases h0 : cs.length = 0
    · have : cs = [] := List.eq_nil_of_length_eq_zero h0
      subst this; simp [rdConn, secConn]
    · simp only [rdConn, h0, if_false]
      set chunk := min maxChunk cs.length with hchunk
      have hcpos : 1 ≤ chunk := by omega
      have hcle : chunk ≤ cs.length := by omega
      have hsplit : cs = cs.take chunk ++ cs.drop chunk := (List.take_append_drop chunk cs).symm
      have hA : ∀ c ∈ cs.take chunk, cellOk k n c = true := fun c hc' => h c (List.mem_of_mem_take hc')
      have hB : ∀ c ∈ cs.drop chunk, cellOk k n c = true := fun c hc' => h c (List.mem_of_mem_drop hc')
      have hlenA : (cs.take chunk).length = chunk := by simp; omega
      have hsec : secConn fl k cs ++ r = secConn fl k (cs.take chunk) ++ (secConn fl k (cs.drop chunk) ++ r) := by
        conv_lhs => rw [hsplit, secConn_append]
        simp
      rw [hsec, secConn_eq fl k (cs.take chunk)]
      have hflen : (((cs.take chunk).map (connOf k)).flatten).length = k.nodePer * chunk := by
        rw [flatten_connOf_length k _ hA, hlenA]
      have hint : ∀ x ∈ ((cs.take chunk).map (connOf k)).flatten, int32 x := by
        intro x hx
        simp only [List.mem_flatten, List.mem_map] at hx
        obtain ⟨l, ⟨c, hc', rfl⟩, hxl⟩ := hx
        exact connOf_int32 hn (hA c hc') x hxl
      have hrd := rdInts_flatMap fl _ hint (secConn fl k (cs.drop chunk) ++ r)
      rw [hflen] at hrd
      rw [hrd]
      simp only
      have hrows : rows k.nodePer chunk ((cs.take chunk).map (connOf k)).flatten = (cs.take chunk).map (connOf k) := by
        have := rows_flatten k.nodePer ((cs.take chunk).map (connOf k)) (by
          intro x hx
          simp only [List.mem_map] at hx
          obtain ⟨c, hc', rfl⟩ := hx
          exact connOf_length (hA c hc'))
        rw [List.length_map, hlenA] at this
        exact this
      rw [hrows, cellsOfRows_connOf cfg hc k hn _ hA]
      simp only
      have hlenB : (cs.drop chunk).length = cs.length - chunk := by simp
      have := ih (cs.drop chunk) (by rw [hlenB]; omega) hB
      rw [hlenB] at this
      rw [this]
      simp only
      rw [← List.map_append, List.take_append_drop]

/-! ### tags -/

theorem setTags_stub (k : Kind) (ht : k.hasTag = true) {n : Nat} (cs : List (List Int))
    (h : ∀ c ∈ cs, cellOk k n c = true) :
    setTags k (cs.map (stub k)) (cs.map (tagOf k)) = cs := by
  induction cs with
  | nil => rfl
  | cons c cs ih =>
    simp only [List.map_cons, setTags]
    rw [ih (fun d hd => h d (by simp [hd]))]
    congr 1
    have hc := h c (by simp)
    have hl := cellOk_length hc
    simp [Kind.sizePer, ht] at hl
    have ht' : ((stub k c).take k.nodePer) = c.take k.nodePer := by
      unfold stub
      rw [List.take_append_of_le_length (by simp; omega), List.take_take]
      simp
    rw [ht']
    have : c = c.take k.nodePer ++ c.drop k.nodePer := (List.take_append_drop _ _).symm
    conv_rhs => rw [this]
    congr 1
    have : (c.drop k.nodePer).length = 1 := by simp [hl]
    match hdc : c.drop k.nodePer, this with
    | [t], _ =>
      have : c[k.nodePer]? = some t := by
        have := List.getElem?_drop (xs := c) (i := k.nodePer) (j := 0)
        simp [hdc] at this
        exact this.symm
      simp [tagOf, List.getD, this]

theorem stub_noTag (k : Kind) (ht : k.hasTag = false) {n : Nat} (cs : List (List Int))
    (h : ∀ c ∈ cs, cellOk k n c = true) : cs.map (stub k) = cs := by
  conv_rhs => rw [← List.map_id cs]
  apply List.map_congr_left
  intro c hc
  have hl := cellOk_length (h c hc)
  simp [Kind.sizePer, ht] at hl
  simp [stub, ht, List.take_of_length_le (Nat.le_of_eq hl)]

theorem secTags_eq (fl : Flavor) (k : Kind) (cs : List (List Int)) :
    secTags fl k cs = (cs.map (tagOf k)).flatMap (Refine.Model.Ugrid.encInt fl) := by
  unfold secTags
  induction cs with
  | nil => simp
  | cons c cs ih => simp [List.flatMap_cons, ih]

/-! ### the whole file -/

theorem wf_iff (m : UMesh) :
    WellFormed m = true ↔ m.nodes.length < 2 ^ 27 ∧
      ∀ k : Kind, (m.get k).length < 2 ^ 31 ∧ ∀ c ∈ m.get k, cellOk k m.nodes.length c = true := by
  unfold WellFormed
  simp only [Bool.and_eq_true, decide_eq_true_eq, List.all_eq_true, Kind.all]
  constructor
  · rintro ⟨h0, hk⟩
    refine ⟨h0, fun k => ?_⟩
    have := hk k (by cases k <;> simp)
    exact this
  · rintro ⟨h0, hk⟩
    exact ⟨h0, fun k _ => hk k⟩

theorem hasTag_tri : Kind.hasTag .tri = true := by decide
theorem hasTag_qua : Kind.hasTag .qua = true := by decide
theorem hasTag_tet : Kind.hasTag .tet = false := by decide
theorem hasTag_pyr : Kind.hasTag .pyr = false := by decide
theorem hasTag_pri : Kind.hasTag .pri = false := by decide
theorem hasTag_hex : Kind.hasTag .hex = false := by decide

theorem int32_natCast {n : Nat} (h : n < 2 ^ 31) : int32 (n : Int) := by
  unfold int32; constructor <;> omega

/-- **the serial reader on what a writer lays out**: for every flavour, every reader variant with the 1 GiB allocator
    cap, every chunk size ≥ 1 and every well-formed mesh -/
theorem decode_encodeRaw (cfg : Cfg) (hc : cfg.allocCap = 2 ^ 30) (maxChunk : Nat) (hm : 1 ≤ maxChunk) (fl : Flavor)
    (m : UMesh) (hw : WellFormed m = true) :
    decodeUgridChunked cfg maxChunk fl (encodeRaw fl m) = .ok m := by
  obtain ⟨hn, hk⟩ := (wf_iff m).1 hw
  have htri := hk .tri; have hqua := hk .qua; have htet := hk .tet
  have hpyr := hk .pyr; have hpri := hk .pri; have hhex := hk .hex
  simp only [UMesh.get] at htri hqua htet hpyr hpri hhex
  unfold decodeUgridChunked encodeRaw sectionsRaw
  simp only [List.flatten_cons, List.flatten_nil, List.append_nil]
  -- header
  have hh := rdInts_flatMap fl
    ([m.nodes.length, m.tri.length, m.qua.length, m.tet.length, m.pyr.length, m.pri.length, m.hex.length].map
      fun (n : Nat) => (n : Int))
    (by
      intro x hx
      simp only [List.map_cons, List.map_nil, List.mem_cons, List.not_mem_nil, or_false] at hx
      rcases hx with rfl | rfl | rfl | rfl | rfl | rfl | rfl
      · exact int32_natCast (by omega)
      · exact int32_natCast htri.1
      · exact int32_natCast hqua.1
      · exact int32_natCast htet.1
      · exact int32_natCast hpyr.1
      · exact int32_natCast hpri.1
      · exact int32_natCast hhex.1)
  simp only [List.length_map, List.length_cons, List.length_nil] at hh
  rw [show (0 + 1 + 1 + 1 + 1 + 1 + 1 + 1) = 7 from rfl] at hh
  unfold secHeader
  rw [hh]
  simp only [List.map_cons, List.map_nil, List.getD_cons_zero, List.getD_cons_succ]
  have hneg1 : ¬ (3 * (m.nodes.length : Int) < -(2 ^ 31 : Int)) := by omega
  have hneg2 : ¬ ((m.nodes.length : Int) < 0) := by omega
  simp only [hneg1, hneg2, if_false, Int.toNat_natCast, cnt]
  unfold secNodes
  rw [rdVerts_flatMap]
  simp only
  rw [rdConn_secConn cfg hc fl .tri hn maxChunk hm _ m.tri (Nat.le_refl _) htri.2]
  simp only
  rw [rdConn_secConn cfg hc fl .qua hn maxChunk hm _ m.qua (Nat.le_refl _) hqua.2]
  simp only
  rw [secTags_eq fl .tri]
  have ht1 := rdInts_flatMap fl (m.tri.map (tagOf .tri))
    (by intro x hx; simp only [List.mem_map] at hx; obtain ⟨c, hc', rfl⟩ := hx; exact tagOf_int32 hasTag_tri (htri.2 c hc'))
  simp only [List.length_map] at ht1
  rw [ht1]
  simp only
  rw [secTags_eq fl .qua]
  have ht2 := rdInts_flatMap fl (m.qua.map (tagOf .qua))
    (by intro x hx; simp only [List.mem_map] at hx; obtain ⟨c, hc', rfl⟩ := hx; exact tagOf_int32 hasTag_qua (hqua.2 c hc'))
  simp only [List.length_map] at ht2
  rw [ht2]
  simp only
  rw [rdConn_secConn cfg hc fl .tet hn maxChunk hm _ m.tet (Nat.le_refl _) htet.2]
  simp only
  rw [rdConn_secConn cfg hc fl .pyr hn maxChunk hm _ m.pyr (Nat.le_refl _) hpyr.2]
  simp only
  rw [rdConn_secConn cfg hc fl .pri hn maxChunk hm _ m.pri (Nat.le_refl _) hpri.2]
  simp only
  have := rdConn_secConn cfg hc fl .hex hn maxChunk hm _ m.hex (Nat.le_refl _) hhex.2 []
  simp only [List.append_nil] at this
  rw [this]
  simp only
  rw [setTags_stub .tri hasTag_tri _ htri.2, setTags_stub .qua hasTag_qua _ hqua.2,
    stub_noTag .tet hasTag_tet _ htet.2, stub_noTag .pyr hasTag_pyr _ hpyr.2,
    stub_noTag .pri hasTag_pri _ hpri.2, stub_noTag .hex hasTag_hex _ hhex.2]

end Refine.Lemmas.Ugrid
