import Refine.Lemmas.Rcb
import Mathlib.Data.List.Nodup

/-!
  Helper lemmas for `Refine/Props/C04Rcb.lean`, part 3: `ref_migrate_native_rcb_part` — the owned vertices of
  every rank enter the recursion once, the leaf `ref_mpi_blindsend`s bring every `(part, local)` pair back to the
  owner, and the store loop writes every owned slot exactly once with an id of `[0, npart)`; the other slots keep
  `REF_EMPTY`.
-/
namespace Refine.Lemmas.Rcb
open Refine Refine.Model.Comm Refine.Model.Rcb Refine.Lemmas.Comm

variable {α : Type}

/-! ### the store loop -/

theorem storeParts_length (part : List Int) (recv : List (Int × Int)) :
    (storeParts part recv).length = part.length := by
  unfold storeParts
  induction recv generalizing part with
  | nil => rfl
  | cons x xs ih => simp only [List.foldl_cons]; rw [ih, List.length_set]

/-- a slot no received pair names keeps its value -/
theorem storeParts_other (part : List Int) (recv : List (Int × Int)) (i : Nat)
    (h : ∀ x ∈ recv, x.2.toNat ≠ i) : (storeParts part recv)[i]? = part[i]? := by
  unfold storeParts
  induction recv generalizing part with
  | nil => rfl
  | cons x xs ih =>
    simp only [List.foldl_cons]
    rw [ih _ (fun y hy => h y (List.mem_cons_of_mem _ hy)),
      List.getElem?_set_ne (h x List.mem_cons_self)]

/-- a slot named by a received pair ends with the part of SOME received pair naming it (the last one) -/
theorem storeParts_hit (part : List Int) (recv : List (Int × Int)) (i : Nat) (hi : i < part.length)
    (h : ∃ x ∈ recv, x.2.toNat = i) :
    ∃ x ∈ recv, x.2.toNat = i ∧ (storeParts part recv)[i]? = some x.1 := by
  induction recv generalizing part with
  | nil => obtain ⟨x, hx, _⟩ := h; cases hx
  | cons y ys ih =>
    by_cases hlater : ∃ x ∈ ys, x.2.toNat = i
    · obtain ⟨x, hx, hxi, hget⟩ := ih (part.set y.2.toNat y.1) (by rw [List.length_set]; exact hi) hlater
      refine ⟨x, List.mem_cons_of_mem _ hx, hxi, ?_⟩
      unfold storeParts at hget ⊢
      simpa only [List.foldl_cons] using hget
    · have hy : y.2.toNat = i := by
        obtain ⟨x, hx, hxi⟩ := h
        rcases List.mem_cons.mp hx with rfl | hx
        · exact hxi
        · exact absurd ⟨x, hx, hxi⟩ hlater
      refine ⟨y, List.mem_cons_self, hy, ?_⟩
      have hno : ∀ x ∈ ys, x.2.toNat ≠ i := fun x hx hxi => hlater ⟨x, hx, hxi⟩
      have := storeParts_other (part.set y.2.toNat y.1) ys i hno
      unfold storeParts at this ⊢
      simp only [List.foldl_cons]
      rw [this, hy, List.getElem?_set_self hi]

/-! ### the owned vertices of one rank -/

section Owned

theorem mem_ownedRecs (me : Nat) (nodes : List (PNode α)) (r : Rec α) :
    r ∈ ownedRecs me nodes ↔
      r.owner = me ∧ ∃ nd, nodes[r.loc]? = some nd ∧ nd.part = (me : Int) ∧ r.p = nd.p := by
  unfold ownedRecs
  simp only [List.mem_map, List.mem_filter, List.mem_zipIdx_iff_getElem?, beq_iff_eq]
  constructor
  · rintro ⟨x, ⟨hx, hp⟩, rfl⟩
    exact ⟨rfl, x.1, hx, hp, rfl⟩
  · rintro ⟨ho, nd, hnd, hp, hpp⟩
    refine ⟨(nd, r.loc), ⟨hnd, hp⟩, ?_⟩
    cases r
    simp_all

/-- `(owner, local)` of a record -/
def key (r : Rec α) : Nat × Nat := (r.owner, r.loc)

theorem ownedRecs_keys_nodup (me : Nat) (nodes : List (PNode α)) : ((ownedRecs me nodes).map key).Nodup := by
  unfold ownedRecs
  rw [List.map_map]
  have h1 : ((nodes.zipIdx.filter fun x => x.1.part == (me : Int)).map (·.2)).Nodup := by
    refine List.Nodup.sublist ((List.filter_sublist).map _) ?_
    rw [List.zipIdx_map_snd]
    exact List.nodup_range' 1
  have : (key ∘ fun x : PNode α × Nat => (⟨x.1.p, me, x.2⟩ : Rec α)) = (fun i => (me, i)) ∘ (·.2) := by
    funext x; rfl
  rw [this, ← List.map_map]
  exact h1.map (fun a b h => by simpa using h)

/-- the records of ranks `k, k+1, …` -/
def recsFrom (k : Nat) (w : World (List (PNode α))) : World (List (Rec α)) :=
  (w.zipIdx k).map fun x => ownedRecs x.2 x.1

theorem mapIdx_ownedRecs (w : World (List (PNode α))) :
    (w.mapIdx fun r nodes => ownedRecs r nodes) = recsFrom 0 w := by
  rw [List.mapIdx_eq_zipIdx_map]
  rfl

theorem recsFrom_cons (k : Nat) (x : List (PNode α)) (xs : World (List (PNode α))) :
    recsFrom k (x :: xs) = ownedRecs k x :: recsFrom (k + 1) xs := by
  simp [recsFrom, List.zipIdx_cons]

theorem mem_recsFrom (k : Nat) (w : World (List (PNode α))) (r : Rec α) :
    r ∈ (recsFrom k w).flatten ↔
      k ≤ r.owner ∧ ∃ nodes, w[r.owner - k]? = some nodes ∧ r ∈ ownedRecs r.owner nodes := by
  induction w generalizing k with
  | nil => simp [recsFrom]
  | cons x xs ih =>
    rw [recsFrom_cons, List.flatten_cons, List.mem_append, ih]
    constructor
    · rintro (h | ⟨hk, nodes, hn, hr⟩)
      · have ho := ((mem_ownedRecs k x r).mp h).1
        refine ⟨by omega, x, ?_, by rw [ho]; exact h⟩
        rw [ho]; simp
      · refine ⟨by omega, nodes, ?_, hr⟩
        have : r.owner - k = (r.owner - (k + 1)) + 1 := by omega
        rw [this, List.getElem?_cons_succ]
        exact hn
    · rintro ⟨hk, nodes, hn, hr⟩
      by_cases hko : r.owner = k
      · left
        rw [hko] at hn hr
        simp at hn
        rw [hn]
        exact hr
      · right
        refine ⟨by omega, nodes, ?_, hr⟩
        have : r.owner - k = (r.owner - (k + 1)) + 1 := by omega
        rw [this, List.getElem?_cons_succ] at hn
        exact hn

theorem recsFrom_keys_nodup (k : Nat) (w : World (List (PNode α))) : ((recsFrom k w).flatten.map key).Nodup := by
  induction w generalizing k with
  | nil => simp [recsFrom]
  | cons x xs ih =>
    rw [recsFrom_cons, List.flatten_cons, List.map_append, List.nodup_append]
    refine ⟨ownedRecs_keys_nodup k x, ih (k + 1), ?_⟩
    intro a ha b hb hab
    obtain ⟨r, hr, rfl⟩ := List.mem_map.mp ha
    obtain ⟨r', hr', rfl⟩ := List.mem_map.mp hb
    have h1 := ((mem_ownedRecs k x r).mp hr).1
    have h2 := ((mem_recsFrom (k + 1) xs r').mp hr').1
    have : r.owner = r'.owner := congrArg Prod.fst hab
    omega

theorem recsFrom_length_le (k : Nat) (w : World (List (PNode α))) :
    (recsFrom k w).flatten.length ≤ w.flatten.length := by
  induction w generalizing k with
  | nil => simp [recsFrom]
  | cons x xs ih =>
    rw [recsFrom_cons, List.flatten_cons, List.flatten_cons, List.length_append, List.length_append]
    have : (ownedRecs k x).length ≤ x.length := by
      unfold ownedRecs
      rw [List.length_map]
      exact Nat.le_trans (List.length_filter_le _ _) (by rw [List.length_zipIdx]; exact Nat.le_refl _)
    have := ih (k + 1)
    omega

theorem recsFrom_length (k : Nat) (w : World (List (PNode α))) : (recsFrom k w).length = w.length := by
  simp [recsFrom]

end Owned

/-! ### the leaf exchange -/

section Leaf

/-- what rank `r` receives: the `(part, local)` pairs of the assignments whose owner is `r`, in leaf-rank order -/
def recvOf (A : List (Rec α × Int)) (r : Nat) : List (Int × Int) :=
  (A.filter fun a => a.1.owner == r).map fun a => (a.2, (a.1.loc : Int))

def pairsOf (l : Int × List (Rec α)) : List (Nat × List (Int × Int)) :=
  l.2.map fun r => (r.owner, [(l.1, (r.loc : Int))])

theorem flatMap_pairsOf (leaves : World (Int × List (Rec α))) :
    (leaves.map pairsOf).flatten = (assignments leaves).map fun a => (a.1.owner, [(a.2, (a.1.loc : Int))]) := by
  induction leaves with
  | nil => rfl
  | cons l ls ih =>
    simp only [List.map_cons, List.flatten_cons, ih, assignments, List.flatMap_cons, List.map_append, List.map_map,
      pairsOf]
    rfl

theorem delivered_pairsOf (leaves : World (Int × List (Rec α))) (r : Nat) :
    (delivered r (leaves.map pairsOf)).flatten = recvOf (assignments leaves) r := by
  unfold delivered
  rw [bucket_flatMap, flatMap_pairsOf]
  unfold bucket recvOf
  rw [List.filter_map, List.map_map]
  have : ∀ L : List (Rec α × Int),
      (L.map ((fun x : Nat × List (Int × Int) => x.2) ∘ fun a => (a.1.owner, [(a.2, (a.1.loc : Int))]))).flatten
        = L.map fun a => (a.2, (a.1.loc : Int)) := by
    intro L
    induction L with
    | nil => rfl
    | cons x xs ih => simp only [List.map_cons, List.flatten_cons, ih]; rfl
  rw [this]
  rfl

/-- `leafSend`: owners inside the communicator, fewer than `2^31` records: every rank receives exactly the pairs
    addressed to it -/
theorem leafSend_spec (leaves : World (Int × List (Rec α)))
    (hown : ∀ a ∈ assignments leaves, a.1.owner < leaves.length)
    (htot : ((assignments leaves).length : Int) ≤ INT_MAX) :
    leafSend leaves = some ((List.range leaves.length).map (recvOf (assignments leaves))) := by
  have hargs : (leaves.map fun l : Int × List (Rec α) =>
      (⟨l.2.map fun r => (r.owner : Int), l.2.map fun r => (l.1, (r.loc : Int))⟩ : Blind (Int × Int)))
      = (leaves.map pairsOf).map blindOf := by
    rw [List.map_map]
    apply List.map_congr_left
    intro l _
    simp only [Function.comp, blindOf, pairsOf, List.map_map]
    congr 1
    induction l.2 with
    | nil => rfl
    | cons x xs ih => simp only [List.map_cons, List.flatten_cons, ← ih]; rfl
  have hW : (leaves.map pairsOf).length = leaves.length := by simp
  have hflat : (leaves.map pairsOf).flatten.length = (assignments leaves).length := by
    rw [flatMap_pairsOf, List.length_map]
  have hb := blindsend_spec (α := Int × Int) false RefType.int rfl 0 1 (leaves.map pairsOf)
    (by
      intro pairs hp x hx
      rw [hW]
      have : x ∈ (leaves.map pairsOf).flatten := List.mem_flatten.mpr ⟨pairs, hp, hx⟩
      rw [flatMap_pairsOf] at this
      obtain ⟨a, ha, rfl⟩ := List.mem_map.mp this
      exact hown a ha)
    (by
      intro pairs hp x hx
      obtain ⟨l, _, rfl⟩ := List.mem_map.mp hp
      obtain ⟨r, _, rfl⟩ := List.mem_map.mp hx
      rfl)
    (by intro h; cases h)
    (by
      intro _ pairs hp
      have := length_le_flatten_of_mem _ pairs hp
      rw [hflat] at this
      omega)
    (by
      intro _ r _
      have h1 : (delivered r (leaves.map pairsOf)).length ≤ (leaves.map pairsOf).flatten.length := by
        unfold delivered
        rw [bucket_flatMap]
        unfold bucket
        rw [List.length_map]
        exact List.length_filter_le _ _
      rw [hflat] at h1
      omega)
  unfold leafSend
  simp only []
  rw [hargs, hb]
  simp only [List.all_map, List.map_map, hW]
  have : ((List.range leaves.length).all
      ((fun x : Status × Int × List (Int × Int) => x.1 == Status.ok) ∘ fun r =>
        (Status.ok, ((delivered r (leaves.map pairsOf)).length : Int), (delivered r (leaves.map pairsOf)).flatten)))
      = true := by simp
  rw [if_pos this]
  congr 1
  apply List.map_congr_left
  intro r _
  simp only [Function.comp]
  exact delivered_pairsOf leaves r

end Leaf

/-! ### `ref_migrate_native_rcb_part` -/

section Part
variable [Scalar α] [RcbScalar α]

theorem getElem?_zip_map {β γ δ : Type} (a : List β) (b : List γ) (f : β × γ → δ) (r : Nat) (x : β) (y : γ)
    (ha : a[r]? = some x) (hb : b[r]? = some y) : ((a.zip b).map f)[r]? = some (f (x, y)) := by
  have : (a.zip b)[r]? = some (x, y) := List.getElem?_zip_eq_some.mpr ⟨ha, hb⟩
  rw [List.getElem?_map, this]
  rfl

/-- `ref_migrate_native_rcb_part` for `1 ≤ npart ≤ ref_mpi_n`, any distribution of fewer than `2^31` stored
    vertices, any seed and rand stream: the call succeeds; every slot holding an owned vertex is written exactly once
    (exactly one assignment names it) with a part id of `[0, npart)`; every other slot keeps `REF_EMPTY`. -/
theorem rcbPart_spec (hst : ∀ n : Nat, 2 ≤ n → (splitRatio (α := α) (n : Int)).1 = Status.ok)
    (npart : Nat) (seed : Int) (twod : Bool) (rands : List Nat) (w : World (List (PNode α)))
    (h1 : 1 ≤ npart) (hn : npart ≤ w.length) (htot : (w.flatten.length : Int) ≤ INT_MAX) :
    ∃ leaves parts,
      rcbDirection (transformOf twod rands) seed twod npart 0 (-1) (w.mapIdx fun r nodes => ownedRecs r nodes)
        = some leaves
      ∧ rcbPart npart seed twod rands w = some parts ∧ parts.length = w.length
      ∧ ∀ (r : Nat) (nodes : List (PNode α)), w[r]? = some nodes →
          ∃ pr : List Int, parts[r]? = some pr ∧ pr.length = nodes.length
          ∧ ∀ (i : Nat) (nd : PNode α), nodes[i]? = some nd →
              (nd.part = (r : Int) → ∃ k, pr[i]? = some k ∧ 0 ≤ k ∧ k < (npart : Int)
                  ∧ ((assignments leaves).map fun a => key a.1).count (r, i) = 1
                  ∧ ∃ a ∈ assignments leaves, key a.1 = (r, i) ∧ a.1.p = nd.p ∧ a.2 = k)
              ∧ (nd.part ≠ (r : Int) → pr[i]? = some (-1)) := by
  rw [mapIdx_ownedRecs]
  have hrl := recsFrom_length 0 w
  have hrtot : ((recsFrom 0 w).flatten.length : Int) ≤ INT_MAX := by
    have := recsFrom_length_le 0 w
    omega
  obtain ⟨leaves, hl, hlen, hperm, hrng, _⟩ :=
    rcbDirection_spec hst (transformOf twod rands) seed twod npart 0 (-1) (recsFrom 0 w) h1 (by omega) hrtot
  rw [hrl] at hlen
  have hA : ((assignments leaves).map (·.1)).Perm (recsFrom 0 w).flatten := by
    rw [assignments_fst]; exact hperm
  have hmemA : ∀ a ∈ assignments leaves, a.1 ∈ (recsFrom 0 w).flatten := fun a ha =>
    hA.mem_iff.mp (List.mem_map_of_mem ha)
  have hown : ∀ a ∈ assignments leaves, a.1.owner < leaves.length := by
    intro a ha
    obtain ⟨_, nodes, hnodes, _⟩ := (mem_recsFrom 0 w a.1).mp (hmemA a ha)
    rw [hlen]
    have := (List.getElem?_eq_some_iff.mp hnodes).1
    omega
  have hAlen : ((assignments leaves).length : Int) ≤ INT_MAX := by
    have := hA.length_eq
    rw [List.length_map] at this
    omega
  have hsend := leafSend_spec leaves hown hAlen
  have hArng : ∀ a ∈ assignments leaves, 0 ≤ a.2 ∧ a.2 < (npart : Int) := by
    intro a ha
    simp only [assignments, List.mem_flatMap, List.mem_map] at ha
    obtain ⟨l, hl', _, _, rfl⟩ := ha
    have := hrng l hl'
    omega
  have hnodup : ((assignments leaves).map fun a => key a.1).Nodup := by
    have : ((assignments leaves).map fun a => key a.1) = ((assignments leaves).map (·.1)).map key := by
      rw [List.map_map]; rfl
    rw [this]
    exact ((hA.map key).nodup_iff).mpr (recsFrom_keys_nodup 0 w)
  refine ⟨leaves, (w.zip ((List.range leaves.length).map (recvOf (assignments leaves)))).map fun x =>
    storeParts (List.replicate x.1.length (-1)) x.2, hl, ?_, ?_, ?_⟩
  · unfold rcbPart
    simp only []
    rw [mapIdx_ownedRecs, hl]
    simp only []
    rw [hsend]
  · simp [hlen]
  · intro r nodes hnodes
    have hr : r < w.length := (List.getElem?_eq_some_iff.mp hnodes).1
    have hrecv : ((List.range leaves.length).map (recvOf (assignments leaves)))[r]?
        = some (recvOf (assignments leaves) r) := by
      rw [List.getElem?_map, List.getElem?_range (by omega)]
      rfl
    refine ⟨storeParts (List.replicate nodes.length (-1)) (recvOf (assignments leaves) r),
      getElem?_zip_map _ _ _ r nodes _ hnodes hrecv, by rw [storeParts_length, List.length_replicate], ?_⟩
    intro i nd hnd
    have hi : i < nodes.length := (List.getElem?_eq_some_iff.mp hnd).1
    constructor
    · intro hpart
      -- the record of this vertex went into the recursion, so some assignment names the slot
      have hrec : (⟨nd.p, r, i⟩ : Rec α) ∈ (recsFrom 0 w).flatten := by
        rw [mem_recsFrom]
        exact ⟨Nat.zero_le _, nodes, by simpa using hnodes,
          (mem_ownedRecs r nodes _).mpr ⟨rfl, nd, hnd, hpart, rfl⟩⟩
      obtain ⟨a0, ha0, ha0e⟩ := List.mem_map.mp (hA.mem_iff.mpr hrec)
      have hin : ∃ x ∈ recvOf (assignments leaves) r, x.2.toNat = i := by
        refine ⟨(a0.2, (a0.1.loc : Int)), ?_, ?_⟩
        · unfold recvOf
          refine List.mem_map.mpr ⟨a0, List.mem_filter.mpr ⟨ha0, ?_⟩, rfl⟩
          rw [ha0e]; simp
        · rw [ha0e]; simp
      obtain ⟨x, hx, hxi, hget⟩ :=
        storeParts_hit (List.replicate nodes.length (-1)) _ i (by rw [List.length_replicate]; exact hi) hin
      unfold recvOf at hx
      obtain ⟨a, ha, rfl⟩ := List.mem_map.mp hx
      obtain ⟨haA, hao⟩ := List.mem_filter.mp ha
      have hkey : key a.1 = (r, i) := by
        unfold key
        simp only [beq_iff_eq] at hao
        simp only [Int.toNat_natCast] at hxi
        rw [hao, hxi]
      have hap : a.1.p = nd.p := by
        obtain ⟨_, nodes', hnodes', hmem⟩ := (mem_recsFrom 0 w a.1).mp (hmemA a haA)
        simp only [beq_iff_eq] at hao
        simp only [Int.toNat_natCast] at hxi
        rw [hao] at hnodes' hmem
        simp only [Nat.sub_zero] at hnodes'
        rw [hnodes] at hnodes'
        cases hnodes'
        obtain ⟨_, nd', hnd', _, hpp⟩ := (mem_ownedRecs r nodes a.1).mp hmem
        rw [hxi, hnd] at hnd'
        cases hnd'
        exact hpp
      refine ⟨a.2, hget, (hArng a haA).1, (hArng a haA).2, ?_, a, haA, hkey, hap, rfl⟩
      exact List.count_eq_one_of_mem hnodup (List.mem_map.mpr ⟨a, haA, hkey⟩)
    · intro hpart
      have hno : ∀ x ∈ recvOf (assignments leaves) r, x.2.toNat ≠ i := by
        intro x hx hxi
        unfold recvOf at hx
        obtain ⟨a, ha, rfl⟩ := List.mem_map.mp hx
        obtain ⟨haA, hao⟩ := List.mem_filter.mp ha
        simp only [beq_iff_eq] at hao
        simp only [Int.toNat_natCast] at hxi
        obtain ⟨_, nodes', hnodes', hmem⟩ := (mem_recsFrom 0 w a.1).mp (hmemA a haA)
        rw [hao] at hnodes' hmem
        simp only [Nat.sub_zero] at hnodes'
        rw [hnodes] at hnodes'
        cases hnodes'
        obtain ⟨_, nd', hnd', hp', _⟩ := (mem_ownedRecs r nodes a.1).mp hmem
        rw [hxi, hnd] at hnd'
        cases hnd'
        exact hpart hp'
      rw [storeParts_other _ _ i hno, List.getElem?_replicate, if_pos hi]

/-- the range check of `ref_migrate_report_load_balance` passes on a part array whose owned entries lie in
    `[0, npart)`, `npart ≤ ref_mpi_n` -/
theorem reportOk_of_range (npart : Nat) (w : World (List (PNode α))) (parts : World (List Int))
    (hn : npart ≤ w.length)
    (h : ∀ (r : Nat) (nodes : List (PNode α)), w[r]? = some nodes →
          ∃ pr : List Int, parts[r]? = some pr
          ∧ ∀ (i : Nat) (nd : PNode α), nodes[i]? = some nd →
              nd.part = (r : Int) → ∃ k, pr[i]? = some k ∧ 0 ≤ k ∧ k < (npart : Int)) :
    reportOk w parts = true := by
  unfold reportOk
  rw [List.all_eq_true]
  intro x hx
  have hx' := List.mem_zipIdx_iff_getElem?.mp hx
  obtain ⟨hw, hp⟩ := List.getElem?_zip_eq_some.mp hx'
  obtain ⟨pr, hpr, hall⟩ := h x.2 x.1.1 hw
  rw [hp] at hpr
  cases hpr
  rw [List.all_eq_true]
  intro np hnp
  obtain ⟨i, hi⟩ := List.mem_iff_getElem?.mp hnp
  obtain ⟨h1, h2⟩ := List.getElem?_zip_eq_some.mp hi
  by_cases hown : np.1.part = (x.2 : Int)
  · obtain ⟨k, hk, hk0, hk1⟩ := hall i np.1 h1 hown
    rw [h2] at hk
    cases hk
    have : (npart : Int) ≤ (w.length : Int) := by exact_mod_cast hn
    simp only [Bool.or_eq_true, Bool.and_eq_true, decide_eq_true_eq]
    right
    exact ⟨hk0, by omega⟩
  · simp only [Bool.or_eq_true, bne_iff_ne, ne_eq]
    left
    exact hown

end Part

end Refine.Lemmas.Rcb
