import Refine.Lemmas.MatrixReal
import Mathlib.Tactic.FieldSimp

/-!
  `ref_matrix_inv_gen` (n = 3, Gauss–Jordan with partial pivoting and `ref_math_divisible` guards) and
  `ref_matrix_det_gen` over ℝ.
-/
namespace Refine.Model.Matrix
open Refine Refine.ScalarReal
open _root_.Matrix

/-! ### simp facts for the Nat-indexed accessors -/
section accessors
variable {α : Type}
@[simp] theorem M33.row_zero (a : M33 α) : a.row 0 = a.r0 := rfl
@[simp] theorem M33.row_one (a : M33 α) : a.row 1 = a.r1 := rfl
@[simp] theorem M33.row_two (a : M33 α) : a.row 2 = a.r2 := rfl
@[simp] theorem M33.setRow_zero (a : M33 α) (r : Vec3 α) : a.setRow 0 r = { a with r0 := r } := rfl
@[simp] theorem M33.setRow_one (a : M33 α) (r : Vec3 α) : a.setRow 1 r = { a with r1 := r } := rfl
@[simp] theorem M33.setRow_two (a : M33 α) (r : Vec3 α) : a.setRow 2 r = { a with r2 := r } := rfl
@[simp] theorem Vec3.get_zero (r : Vec3 α) : r.get 0 = r.x := rfl
@[simp] theorem Vec3.get_one (r : Vec3 α) : r.get 1 = r.y := rfl
@[simp] theorem Vec3.get_two (r : Vec3 α) : r.get 2 = r.z := rfl
end accessors

@[ext] theorem Vec3.ext' {u v : Vec3 ℝ} (h1 : u.x = v.x) (h2 : u.y = v.y) (h3 : u.z = v.z) : u = v := by
  cases u; cases v; simp_all

/-! ### the link `inv · orig = a` is kept by every row operation -/

/-- row vector times matrix -/
def rowMul (r : Vec3 ℝ) (o : M33 ℝ) : Vec3 ℝ :=
  ⟨r.x * o.r0.x + r.y * o.r1.x + r.z * o.r2.x,
   r.x * o.r0.y + r.y * o.r1.y + r.z * o.r2.y,
   r.x * o.r0.z + r.y * o.r1.z + r.z * o.r2.z⟩

/-- every row of `inv` times `o` is the corresponding row of `a` -/
structure Linked (o a inv : M33 ℝ) : Prop where
  l0 : rowMul inv.r0 o = a.r0
  l1 : rowMul inv.r1 o = a.r1
  l2 : rowMul inv.r2 o = a.r2

theorem rowMul_divBy (r : Vec3 ℝ) (o : M33 ℝ) (p : ℝ) : rowMul (r.divBy p) o = (rowMul r o).divBy p := by
  ext <;> simp only [rowMul, Vec3.divBy, div_eq] <;> ring

theorem rowMul_axmy (r r' : Vec3 ℝ) (o : M33 ℝ) (s : ℝ) :
    rowMul (r.axmy s r') o = (rowMul r o).axmy s (rowMul r' o) := by
  ext <;> simp only [rowMul, Vec3.axmy, mul_eq, sub_eq] <;> ring

theorem linked_identity (o : M33 ℝ) : Linked o o M33.identity := by
  constructor <;> ext <;> simp only [rowMul, M33.identity, one_eq, zero_eq] <;> ring

theorem Linked.row {o a inv : M33 ℝ} (h : Linked o a inv) (i : Nat) : rowMul (inv.row i) o = a.row i := by
  rcases i with _ | _ | i
  · exact h.l0
  · exact h.l1
  · exact h.l2

theorem Linked.setRow {o a inv : M33 ℝ} (h : Linked o a inv) (i : Nat) (u v : Vec3 ℝ)
    (huv : rowMul v o = u) : Linked o (a.setRow i u) (inv.setRow i v) := by
  rcases i with _ | _ | i
  · exact ⟨huv, h.l1, h.l2⟩
  · exact ⟨h.l0, huv, h.l2⟩
  · exact ⟨h.l0, h.l1, huv⟩

theorem linked_elimRow {o : M33 ℝ} {j i : Nat} {p q : M33 ℝ × M33 ℝ} (hL : Linked o p.1 p.2)
    (h : elimRow j i p = .ok q) : Linked o q.1 q.2 := by
  obtain ⟨a, inv⟩ := p
  unfold elimRow at h
  dsimp only at h
  split_ifs at h
  injection h with h
  subst h
  apply hL.setRow
  rw [rowMul_axmy, hL.row, hL.row]

theorem linked_elimOthers {o : M33 ℝ} {j : Nat} {p q : M33 ℝ × M33 ℝ} (hL : Linked o p.1 p.2)
    (h : elimOthers j p = .ok q) : Linked o q.1 q.2 := by
  unfold elimOthers at h
  split at h
  all_goals
    split at h
    · exact absurd h (by simp)
    · rename_i q' hq'
      exact linked_elimRow (linked_elimRow hL hq') h

theorem linked_scaleRow {o : M33 ℝ} {j : Nat} {p q : M33 ℝ × M33 ℝ} (hL : Linked o p.1 p.2)
    (h : scaleRow j p = .ok q) : Linked o q.1 q.2 := by
  unfold scaleRow at h
  dsimp only at h
  split_ifs at h
  injection h with h
  subst h
  apply hL.setRow
  rw [rowMul_divBy, hL.row]

theorem linked_swapStep {o : M33 ℝ} {j : Nat} {p : M33 ℝ × M33 ℝ} (hL : Linked o p.1 p.2) :
    Linked o (swapStep j p).1 (swapStep j p).2 := by
  unfold swapStep
  dsimp only
  split_ifs
  · unfold M33.swapRows
    apply Linked.setRow
    · apply hL.setRow; exact hL.row _
    · exact hL.row _
  · exact hL

theorem linked_invStep {o : M33 ℝ} {j : Nat} {p q : M33 ℝ × M33 ℝ} (hL : Linked o p.1 p.2)
    (h : invStep j p = .ok q) : Linked o q.1 q.2 := by
  unfold invStep at h
  split at h
  · exact absurd h (by simp)
  · rename_i q' hq'
    exact linked_elimOthers (linked_scaleRow (linked_swapStep hL) hq') h

/-! ### the `a` half: Gauss–Jordan turns `a` into the identity column by column -/

/-- column c of `a` is (v0, v1, v2) -/
def Col (a : M33 ℝ) (c : Nat) (v0 v1 v2 : ℝ) : Prop := a.r0.get c = v0 ∧ a.r1.get c = v1 ∧ a.r2.get c = v2

theorem elimRow_fst {j i : Nat} {p q : M33 ℝ × M33 ℝ} (h : elimRow j i p = .ok q) :
    q.1 = p.1.setRow i ((p.1.row i).axmy ((p.1.row i).get j / (p.1.row j).get j) (p.1.row j)) := by
  obtain ⟨a, inv⟩ := p
  unfold elimRow at h
  dsimp only at h
  split_ifs at h
  injection h with h
  subst h
  rfl

theorem scaleRow_fst {j : Nat} {p q : M33 ℝ × M33 ℝ} (h : scaleRow j p = .ok q) :
    q.1 = p.1.setRow j ((p.1.row j).divBy ((p.1.row j).get j)) ∧ (p.1.row j).get j ≠ 0 := by
  unfold scaleRow at h
  dsimp only at h
  split_ifs at h with hg
  injection h with h
  subst h
  refine ⟨rfl, ?_⟩
  rw [Bool.not_eq_true', Bool.not_eq_false, Bool.and_eq_true_iff] at hg
  unfold Vec3.allDivisible at hg
  rw [Bool.and_eq_true_iff, Bool.and_eq_true_iff] at hg
  exact divisible_ne_zero hg.1.1.1


/-- step j = 0: column 0 becomes e0 -/
theorem invStep0_col {p q : M33 ℝ × M33 ℝ} (h : invStep 0 p = .ok q) : Col q.1 0 1 0 0 := by
  unfold invStep at h
  split at h
  · exact absurd h (by simp)
  rename_i q1 hq1
  obtain ⟨e1, hp⟩ := scaleRow_fst hq1
  rw [elimOthers] at h
  split at h
  · exact absurd h (by simp)
  rename_i q2 hq2
  have e2 := elimRow_fst hq2
  have e3 := elimRow_fst h
  generalize (swapStep 0 p).1 = a1 at e1 hp
  rw [e3, e2, e1]
  simp only [M33.row_zero, M33.row_one, M33.row_two, M33.setRow_zero, M33.setRow_one, M33.setRow_two,
    Vec3.get_zero] at hp ⊢
  refine ⟨?_, ?_, ?_⟩
  · simp only [Vec3.get_zero, Vec3.divBy, div_eq]; exact div_self hp
  · simp only [Vec3.get_zero, Vec3.divBy, Vec3.axmy, div_eq, mul_eq, sub_eq]; field_simp; ring
  · simp only [Vec3.get_zero, Vec3.divBy, Vec3.axmy, div_eq, mul_eq, sub_eq]; field_simp; ring

theorem pivotRow_one (a : M33 ℝ) : pivotRow 1 a = 1 ∨ pivotRow 1 a = 2 := by
  unfold pivotRow
  simp only [Nat.reduceAdd, Nat.reduceLeDiff, false_and, if_false]
  split_ifs <;> simp

theorem pivotRow_two (a : M33 ℝ) : pivotRow 2 a = 2 := by
  unfold pivotRow
  simp

theorem swapStep1_col0 {p : M33 ℝ × M33 ℝ} (h : Col p.1 0 1 0 0) : Col (swapStep 1 p).1 0 1 0 0 := by
  unfold swapStep
  dsimp only
  split_ifs with hb
  · rcases pivotRow_one p.1 with e | e
    · rw [e] at hb; exact absurd hb (by decide)
    · rw [e]
      obtain ⟨h0, h1, h2⟩ := h
      unfold M33.swapRows
      simp only [M33.row_one, M33.row_two, M33.setRow_one, M33.setRow_two]
      exact ⟨h0, h2, h1⟩
  · exact h

theorem swapStep2 (p : M33 ℝ × M33 ℝ) : swapStep 2 p = p := by
  unfold swapStep
  simp [pivotRow_two]

/-- step j = 1 keeps column 0 = e0 and makes column 1 = e1 -/
theorem invStep1_col {p q : M33 ℝ × M33 ℝ} (h : invStep 1 p = .ok q) (hc : Col p.1 0 1 0 0) :
    Col q.1 0 1 0 0 ∧ Col q.1 1 0 1 0 := by
  unfold invStep at h
  split at h
  · exact absurd h (by simp)
  rename_i q1 hq1
  obtain ⟨e1, hp⟩ := scaleRow_fst hq1
  rw [elimOthers] at h
  split at h
  · exact absurd h (by simp)
  rename_i q2 hq2
  have e2 := elimRow_fst hq2
  have e3 := elimRow_fst h
  have hc1 := swapStep1_col0 hc
  generalize (swapStep 1 p).1 = a1 at e1 hp hc1
  obtain ⟨c0, c1, c2⟩ := hc1
  rw [e3, e2, e1]
  simp only [M33.row_zero, M33.row_one, M33.row_two, M33.setRow_zero, M33.setRow_one, M33.setRow_two,
    Vec3.get_zero, Vec3.get_one] at hp c0 c1 c2 ⊢
  refine ⟨⟨?_, ?_, ?_⟩, ⟨?_, ?_, ?_⟩⟩ <;>
    simp only [Vec3.get_zero, Vec3.get_one, Vec3.divBy, Vec3.axmy, div_eq, mul_eq, sub_eq, c0, c1, c2] <;>
    field_simp <;> ring

/-- step j = 2 keeps columns 0, 1 and makes column 2 = e2 -/
theorem invStep2_col {p q : M33 ℝ × M33 ℝ} (h : invStep 2 p = .ok q) (hc0 : Col p.1 0 1 0 0)
    (hc1 : Col p.1 1 0 1 0) : Col q.1 0 1 0 0 ∧ Col q.1 1 0 1 0 ∧ Col q.1 2 0 0 1 := by
  unfold invStep at h
  rw [swapStep2] at h
  split at h
  · exact absurd h (by simp)
  rename_i q1 hq1
  obtain ⟨e1, hp⟩ := scaleRow_fst hq1
  simp only [elimOthers] at h
  split at h
  · exact absurd h (by simp)
  rename_i q2 hq2
  have e2 := elimRow_fst hq2
  have e3 := elimRow_fst h
  generalize p.1 = a1 at e1 hp hc0 hc1
  obtain ⟨c0, c1, c2⟩ := hc0
  obtain ⟨d0, d1, d2⟩ := hc1
  rw [e3, e2, e1]
  simp only [M33.row_zero, M33.row_one, M33.row_two, M33.setRow_zero, M33.setRow_one, M33.setRow_two,
    Vec3.get_zero, Vec3.get_one, Vec3.get_two] at hp c0 c1 c2 d0 d1 d2 ⊢
  refine ⟨⟨?_, ?_, ?_⟩, ⟨?_, ?_, ?_⟩, ⟨?_, ?_, ?_⟩⟩ <;>
    simp only [Vec3.get_zero, Vec3.get_one, Vec3.get_two, Vec3.divBy, Vec3.axmy, div_eq, mul_eq, sub_eq,
      c0, c1, c2, d0, d1, d2] <;>
    field_simp <;> ring

/-- `ref_matrix_inv_gen` (n = 3): whenever it succeeds the result is a left inverse (hence the inverse) -/
theorem invGen3_spec (a b : M33 ℝ) (h : invGen3 a = .ok b) : b.toMat * a.toMat = 1 := by
  unfold invGen3 at h
  split at h
  · exact absurd h (by simp)
  rename_i p1 h1
  split at h
  · exact absurd h (by simp)
  rename_i p2 h2
  split at h
  · exact absurd h (by simp)
  rename_i p3 h3
  injection h with h
  have L0 : Linked a (a, (M33.identity : M33 ℝ)).1 (a, (M33.identity : M33 ℝ)).2 := linked_identity a
  have L3 := linked_invStep (linked_invStep (linked_invStep L0 h1) h2) h3
  have c0 := invStep0_col h1
  obtain ⟨c0', c1'⟩ := invStep1_col h2 c0
  obtain ⟨⟨x0, x1, x2⟩, ⟨y0, y1, y2⟩, ⟨z0, z1, z2⟩⟩ := invStep2_col h3 c0' c1'
  rw [h] at L3
  obtain ⟨l0, l1, l2⟩ := L3
  simp only [Vec3.get_zero, Vec3.get_one, Vec3.get_two] at x0 x1 x2 y0 y1 y2 z0 z1 z2
  have e0 := congrArg Vec3.x l0; have e1 := congrArg Vec3.y l0; have e2 := congrArg Vec3.z l0
  have f0 := congrArg Vec3.x l1; have f1 := congrArg Vec3.y l1; have f2 := congrArg Vec3.z l1
  have g0 := congrArg Vec3.x l2; have g1 := congrArg Vec3.y l2; have g2 := congrArg Vec3.z l2
  simp only [rowMul, x0, x1, x2, y0, y1, y2, z0, z1, z2] at e0 e1 e2 f0 f1 f2 g0 g1 g2
  rw [one_fin_three]
  simp only [M33.toMat, mul_fin_three, e0, e1, e2, f0, f1, f2, g0, g1, g2]

theorem mFull_toMat (m : M6 ℝ) : (mFull m).toMat = m.toMat := rfl

/-- `ref_matrix_inv_m`: whenever it succeeds the result is the two-sided inverse of m
    (the upper triangle of the general inverse suffices because that inverse is symmetric) -/
theorem invM_spec (m r : M6 ℝ) (h : invM m = .ok r) : r.toMat * m.toMat = 1 ∧ m.toMat * r.toMat = 1 := by
  unfold invM at h
  split at h
  · exact absurd h (by simp)
  rename_i inv hinv
  injection h with h
  have hl : inv.toMat * m.toMat = 1 := by
    rw [← mFull_toMat]; exact invGen3_spec _ _ hinv
  have hr : m.toMat * inv.toMat = 1 := mul_eq_one_comm.mp hl
  have hsym : inv.toMatᵀ = inv.toMat := by
    have h1 : inv.toMatᵀ * m.toMat = 1 := by
      have := congrArg _root_.Matrix.transpose hr
      rwa [_root_.Matrix.transpose_mul, M6.toMat_transpose, _root_.Matrix.transpose_one] at this
    calc inv.toMatᵀ = inv.toMatᵀ * (m.toMat * inv.toMat) := by rw [hr, _root_.Matrix.mul_one]
      _ = (inv.toMatᵀ * m.toMat) * inv.toMat := by rw [_root_.Matrix.mul_assoc]
      _ = inv.toMat := by rw [h1, _root_.Matrix.one_mul]
  have hfull : r.toMat = inv.toMat := by
    have e := fun i j => congrFun (congrFun hsym i) j
    have e10 := e 1 0; have e20 := e 2 0; have e21 := e 2 1
    simp [M33.toMat] at e10 e20 e21
    rw [← h]
    simp only [fullM, M6.toMat, M33.toMat, e10, e20, e21]
  rw [hfull]
  exact ⟨hl, hr⟩

/-- `ref_matrix_det_m` (Gaussian elimination without pivoting): a non-zero result is the determinant;
    the other possible result is 0.0 (a pivot failed `ref_math_divisible`, or the determinant is 0) -/
theorem detM_spec (m : M6 ℝ) : detM m = m.toMat.det ∨ detM m = 0 := by
  cases m with
  | mk m11 m12 m13 m22 m23 m33 =>
  unfold detM detGen3 mFull
  simp only [Vec3.axmy, one_eq, zero_eq, mul_eq, sub_eq, div_eq]
  split_ifs with g1 g2 g3
  · right; rfl
  · right; rfl
  · right; rfl
  · left
    rw [Bool.not_eq_true', Bool.not_eq_false] at g1 g3
    have h1 : m11 ≠ 0 := divisible_ne_zero g1
    have h2 : m22 - m12 / m11 * m12 ≠ 0 := divisible_ne_zero g3
    have h3 : m11 * m22 - m12 ^ 2 ≠ 0 := by
      have : m11 * m22 - m12 ^ 2 = (m22 - m12 / m11 * m12) * m11 := by field_simp
      rw [this]; exact mul_ne_zero h2 h1
    rw [_root_.Matrix.det_fin_three]
    simp [M6.toMat]
    field_simp
    ring

end Refine.Model.Matrix
