import Refine.Model.PartMeshb
import Refine.Lemmas.CodecC20
import Refine.Lemmas.PartLemmas

/-! rank 0's side of the parallel meshb reader (`Refine.Model.PartMeshb.parseWith`): what an accepted file
    guarantees about the records that are then routed -/
namespace Refine.Lemmas.PartMeshb
open Refine.Model.Meshb Refine.Model.PartMeshb Refine.Lemmas.Codec
open Refine.Gen.PartMacros

/-! ### records -/

theorem rdLongs_length {v n : Nat} {s r : Bytes} {xs : List Int} (h : rdLongs v n s = .ok (xs, r)) :
    xs.length = n := by
  induction n generalizing s xs with
  | zero => simp [rdLongs] at h; simp [h.1.symm]
  | succ n ih =>
    unfold rdLongs at h
    cases h1 : rdLong v s with
    | error e => simp [h1] at h
    | ok p1 =>
    obtain ⟨x, s1⟩ := p1
    simp only [h1] at h
    cases h2 : rdLongs v n s1 with
    | error e => simp [h2] at h
    | ok p2 =>
    obtain ⟨xs', s2⟩ := p2
    simp only [h2] at h
    injection h with h
    injection h with hx hr
    subst hx hr
    simp [ih h2]

theorem rdRecsAcc_spec {v k n : Nat} {s r : Bytes} {acc rs : List (List Int)}
    (h : rdRecsAcc v k n s acc = .ok (rs, r)) :
    ∃ recs, rs = acc.reverse ++ recs ∧ recs.length = n ∧ ∀ x ∈ recs, x.length = k := by
  induction n generalizing s acc with
  | zero =>
    simp [rdRecsAcc] at h
    exact ⟨[], by simp [h.1.symm], rfl, by simp⟩
  | succ n ih =>
    unfold rdRecsAcc at h
    cases h1 : rdLongs v k s with
    | error e => simp [h1] at h
    | ok p1 =>
    obtain ⟨x, s1⟩ := p1
    simp only [h1] at h
    obtain ⟨recs, hrs, hl, hk⟩ := ih h
    refine ⟨x :: recs, by simp [hrs], by simp [hl], ?_⟩
    intro y hy
    rcases List.mem_cons.1 hy with rfl | hy
    · exact rdLongs_length h1
    · exact hk y hy

theorem rdRecs_spec {v k n : Nat} {s r : Bytes} {rs : List (List Int)} (h : rdRecs v k n s = .ok (rs, r)) :
    rs.length = n ∧ ∀ x ∈ rs, x.length = k := by
  obtain ⟨recs, hrs, hl, hk⟩ := rdRecsAcc_spec (acc := []) h
  simp at hrs
  subst hrs
  exact ⟨hl, hk⟩

/-- an accepted chunk: `sec` records of `node_per + 1` integers, none with a vertex outside `1..nnode` -/
theorem readChunk_ok {v : Nat} {ci : CellInfo} {N : Int} {sec : Nat} {s r : Bytes} {cells : List Cell}
    (h : readChunk v ci N sec s = .ok (cells, r)) :
    ∃ raws : List (List Int), raws.length = sec ∧ (∀ raw ∈ raws, raw.length = ci.nodePer + 1) ∧
      (∀ raw ∈ raws, rawBad ci N raw = false) ∧ cells = raws.map (cellOfRaw ci) := by
  unfold readChunk at h
  split at h
  · simp at h
  · cases h1 : rdRecs v (ci.nodePer + 1) sec s with
    | error e => simp [h1] at h
    | ok p1 =>
    obtain ⟨raws, s1⟩ := p1
    simp only [h1] at h
    split at h
    · simp at h
    · rename_i hany
      injection h with h
      injection h with hc hr
      obtain ⟨hl, hk⟩ := rdRecs_spec h1
      refine ⟨raws, hl, hk, ?_, hc.symm⟩
      intro raw hraw
      by_contra hb
      exact hany (List.any_eq_true.2 ⟨raw, hraw, by simpa using hb⟩)

/-- the in-memory cell of a record that passed the range check: vertices in `[0, nnode)` -/
theorem cellOfRaw_range {ci : CellInfo} {N : Int} {raw : List Int}
    (hp : ci.isPyr = true → ci.nodePer = 5) (hraw : raw.length = ci.nodePer + 1)
    (hok : rawBad ci N raw = false) :
    ((cellOfRaw ci raw).take ci.nodePer).length = ci.nodePer ∧
    ∀ x ∈ (cellOfRaw ci raw).take ci.nodePer, 0 ≤ x ∧ x < N := by
  have hnodes : ∀ y ∈ (raw.take ci.nodePer).map (fun x => x - 1), 0 ≤ y ∧ y < N := by
    intro y hy
    obtain ⟨x, hx, rfl⟩ := List.mem_map.1 hy
    have : badIndex N x = false := by
      by_contra hb
      have : rawBad ci N raw = true := List.any_eq_true.2 ⟨x, hx, by simpa using hb⟩
      simp [this] at hok
    simp only [badIndex, decide_eq_false_iff_not] at this
    omega
  have hlen : ((raw.take ci.nodePer).map (fun x => x - 1)).length = ci.nodePer := by simp [hraw]
  unfold cellOfRaw
  by_cases hpy : ci.isPyr = true
  · have h5 := hp hpy
    have hl5 : (permute Refine.Gen.PyrPerm.partMeshb ((raw.take ci.nodePer).map fun x => x - 1)).length
        = ci.nodePer := by simp [permute, Refine.Gen.PyrPerm.partMeshb, h5]
    simp only [hpy, if_true]
    rw [List.take_left' hl5]
    refine ⟨hl5, ?_⟩
    intro x hx
    simp only [permute, List.mem_map] at hx
    obtain ⟨i, hi, rfl⟩ := hx
    have hi5 : i < 5 := by
      simp only [Refine.Gen.PyrPerm.partMeshb, List.mem_cons, List.not_mem_nil, or_false] at hi
      omega
    have hil : i < ((raw.take ci.nodePer).map fun x => x - 1).length := by rw [hlen, h5]; exact hi5
    rw [List.getD_eq_getElem?_getD, List.getElem?_eq_getElem hil]
    exact hnodes _ (List.getElem_mem hil)
  · simp only [hpy, Bool.false_eq_true, if_false]
    rw [List.take_left' hlen]
    exact ⟨hlen, hnodes⟩

theorem cellOfRaw_length {ci : CellInfo} {raw : List Int}
    (hp : ci.isPyr = true → ci.nodePer = 5) (hraw : raw.length = ci.nodePer + 1) :
    (cellOfRaw ci raw).length = ci.sizePer := by
  unfold cellOfRaw CellInfo.sizePer
  by_cases hpy : ci.isPyr = true
  · have h5 := hp hpy
    by_cases hid : ci.lastId = true <;>
      simp [hpy, hid, permute, Refine.Gen.PyrPerm.partMeshb, h5, hraw]
  · by_cases hid : ci.lastId = true <;> simp [hpy, hid, hraw]

/-- a cell that is fit to be routed: `size_per` integers, every vertex in `[0, nnode)` -/
def CellOK (ci : CellInfo) (N : Int) (c : Cell) : Prop :=
  c.length = ci.sizePer ∧ ∀ x ∈ c.take ci.nodePer, 0 ≤ x ∧ x < N

theorem readChunk_cells_ok {v : Nat} {ci : CellInfo} {N : Int} {sec : Nat} {s r : Bytes} {cells : List Cell}
    (hp : ci.isPyr = true → ci.nodePer = 5) (h : readChunk v ci N sec s = .ok (cells, r)) :
    cells.length = sec ∧ ∀ c ∈ cells, CellOK ci N c := by
  obtain ⟨raws, hl, hk, hb, rfl⟩ := readChunk_ok h
  refine ⟨by simp [hl], ?_⟩
  intro c hc
  obtain ⟨raw, hraw, rfl⟩ := List.mem_map.1 hc
  exact ⟨cellOfRaw_length hp (hk raw hraw), (cellOfRaw_range hp (hk raw hraw) (hb raw hraw)).2⟩

theorem rdCellChunks_ok {v : Nat} {ci : CellInfo} {N chunk ncell : Int} (hp : ci.isPyr = true → ci.nodePer = 5) :
    ∀ (fuel : Nat) (nread : Int) (s r : Bytes) (acc chunks : List (List Cell)),
      rdCellChunks v ci N chunk ncell fuel nread s acc = .ok (chunks, r) →
      (∀ ch ∈ acc, ch ≠ [] ∧ ∀ c ∈ ch, CellOK ci N c) →
      ∀ ch ∈ chunks, ch ≠ [] ∧ ∀ c ∈ ch, CellOK ci N c := by
  intro fuel
  induction fuel with
  | zero =>
    intro nread s r acc chunks h hacc
    unfold rdCellChunks at h
    split at h
    · simp at h
    · injection h with h; injection h with h1 h2; subst h1
      intro ch hch; exact hacc ch (List.mem_reverse.1 hch)
  | succ fuel ih =>
    intro nread s r acc chunks h hacc
    unfold rdCellChunks at h
    split at h
    · simp only at h
      split at h
      · simp at h
      · split at h
        · simp at h
        · rename_i hs0 hsneg
          cases h1 : readChunk v ci N (sectionSize chunk ncell nread).toNat s with
          | error e => simp [h1] at h
          | ok p1 =>
          obtain ⟨cells, s1⟩ := p1
          simp only [h1] at h
          obtain ⟨hl, hok⟩ := readChunk_cells_ok hp h1
          apply ih _ _ _ _ _ h
          intro ch hch
          rcases List.mem_cons.1 hch with rfl | hch
          · refine ⟨?_, hok⟩
            intro hnil
            rw [hnil] at hl
            simp at hl
            omega
          · exact hacc ch hch
    · injection h with h; injection h with h1 h2; subst h1
      intro ch hch; exact hacc ch (List.mem_reverse.1 hch)

theorem rdCellSection_ok {cfg : Cfg} {cm v np : Nat} {ci : CellInfo} {N ncell : Int} {s r : Bytes}
    {chunks : List (List Cell)} (hp : ci.isPyr = true → ci.nodePer = 5)
    (h : rdCellSection cfg cm v np ci N ncell s = .ok (chunks, r)) :
    ∀ ch ∈ chunks, ch ≠ [] ∧ ∀ c ∈ ch, CellOK ci N c := by
  unfold rdCellSection at h
  simp only at h
  split at h
  · simp at h
  · split at h
    · simp at h
    · exact rdCellChunks_ok hp _ _ _ _ _ _ h (by simp)

theorem kwSectionL_cases {α : Type} {v : Nat} {bs : Bytes} {kp : KeyPos} {kw : Nat} {dflt a : α}
    {body : Int → P α} (h : kwSectionL v bs kp kw dflt body = .ok a) :
    a = dflt ∨ ∃ next s0 n s r, jump v bs kp kw = .ok (some (next, s0)) ∧ rdLong v s0 = .ok (n, s) ∧
      body n s = .ok (a, r) ∧ next = tell bs r ∧ countFits n s = true := by
  unfold kwSectionL at h
  cases h1 : jump v bs kp kw with
  | error e => simp [h1] at h
  | ok o =>
    cases o with
    | none => simp [h1] at h; exact .inl h.symm
    | some p =>
      obtain ⟨next, s0⟩ := p
      simp only [h1] at h
      cases h2 : rdLong v s0 with
      | error e => simp [h2] at h
      | ok p2 =>
      obtain ⟨n, s⟩ := p2
      simp only [h2] at h
      cases hfit : countFits n s with
      | false => simp [hfit] at h
      | true =>
      simp only [hfit, Bool.not_true, Bool.false_eq_true, if_false] at h
      cases h3 : body n s with
      | error e => simp [h3] at h
      | ok p3 =>
      obtain ⟨a', r⟩ := p3
      simp only [h3] at h
      split at h
      · rename_i hnext
        injection h with h; subst h
        exact .inr ⟨next, s0, n, s, r, rfl, h2, h3, hnext, hfit⟩
      · simp at h

/-- every group of an accepted file consists of non-empty chunks of routable cells -/
theorem rdCellGroupsP_ok {cfg : Cfg} {cm v np : Nat} {bs : Bytes} {kp : KeyPos} {N : Int}
    {cis : List CellInfo} {gs : List (List (List Cell))}
    (hcis : ∀ ci ∈ cis, ci.isPyr = true → ci.nodePer = 5)
    (h : rdCellGroupsP cfg cm v np bs kp N cis = .ok gs) :
    gs.length = cis.length ∧
    ∀ p ∈ cis.zip gs, ∀ ch ∈ p.2, ch ≠ [] ∧ ∀ c ∈ ch, CellOK p.1 N c := by
  induction cis generalizing gs with
  | nil => simp [rdCellGroupsP] at h; subst h; simp
  | cons ci cis ih =>
    unfold rdCellGroupsP at h
    cases h1 : kwSectionL v bs kp ci.kw [] (fun n => rdCellSection cfg cm v np ci N n) with
    | error e => simp [h1] at h
    | ok g =>
    simp only [h1] at h
    cases h2 : rdCellGroupsP cfg cm v np bs kp N cis with
    | error e => simp [h2] at h
    | ok gs' =>
    simp only [h2] at h
    injection h with h
    subst h
    obtain ⟨hl, hrest⟩ := ih (fun c hc => hcis c (List.mem_cons_of_mem _ hc)) h2
    refine ⟨by simp [hl], ?_⟩
    intro p hp
    simp only [List.zip_cons_cons, List.mem_cons] at hp
    rcases hp with rfl | hp
    · rcases kwSectionL_cases h1 with rfl | ⟨next, s0, n, s, r, _, _, hb, _, _⟩
      · simp
      · exact rdCellSection_ok (hcis ci List.mem_cons_self) hb
    · exact hrest p hp

/-- what `parseWith` went through, for an accepted file -/
theorem parse_inv {cfg : Cfg} {np cm : Nat} {bs : Bytes} {p : Parsed} (h : parseWith cfg np cm bs = .ok p) :
    ∃ v kp s r, header cfg bs = .ok (v, kp) ∧
      rdBlocks v p.twod (blockCounts p.nnode np) s = .ok (p.blocks, r) ∧
      rdCellGroupsP cfg cm v np bs kp p.nnode cellInfos = .ok p.groups ∧
      rdGeomTypesP cfg cm v np bs kp [0, 1, 2] = .ok p.geoms ∧
      rdCad cfg v bs kp = .ok p.cad := by
  unfold parseWith at h
  cases h0 : header cfg bs with
  | error e => simp [h0] at h
  | ok p0 =>
  obtain ⟨v, kp⟩ := p0
  simp only [h0] at h
  cases h1 : jump v bs kp 3 with
  | error e => simp [h1] at h
  | ok o1 =>
  cases o1 with
  | none => simp [h1] at h
  | some q1 =>
  obtain ⟨n1, s1⟩ := q1
  simp only [h1] at h
  cases h2 : rdI32 s1 with
  | error e => simp [h2] at h
  | ok q2 =>
  obtain ⟨dim, s2⟩ := q2
  simp only [h2] at h
  cases h3 : jump v bs kp 4 with
  | error e => simp [h3] at h
  | ok o3 =>
  cases o3 with
  | none => simp [h3] at h
  | some q3 =>
  obtain ⟨next, s3⟩ := q3
  simp only [h3] at h
  cases h4 : rdLong v s3 with
  | error e => simp [h4] at h
  | ok q4 =>
  obtain ⟨nnode, s4⟩ := q4
  simp only [h4] at h
  cases h5 : rdBlocks v (decide (dim = 2)) (blockCounts nnode np) s4 with
  | error e => simp [h5] at h
  | ok q5 =>
  obtain ⟨blocks, s5⟩ := q5
  simp only [h5] at h
  split at h
  · simp at h
  · cases h6 : rdCellGroupsP cfg cm v np bs kp nnode cellInfos with
    | error e => simp [h6] at h
    | ok groups =>
    simp only [h6] at h
    cases h7 : rdGeomTypesP cfg cm v np bs kp [0, 1, 2] with
    | error e => simp [h7] at h
    | ok geoms =>
    simp only [h7] at h
    cases h8 : rdCad cfg v bs kp with
    | error e => simp [h8] at h
    | ok cad =>
    simp only [h8] at h
    injection h with h
    subst h
    exact ⟨v, kp, s4, s5, rfl, h5, h6, h7, h8⟩

/-- every cell an accepted file hands to the routing is fit to be routed -/
theorem parse_cells_ok {cfg : Cfg} {np cm : Nat} {bs : Bytes} {p : Parsed} (h : parseWith cfg np cm bs = .ok p) :
    p.groups.length = cellInfos.length ∧
    ∀ g ∈ cellInfos.zip p.groups, ∀ ch ∈ g.2, ch ≠ [] ∧ ∀ c ∈ ch, CellOK g.1 p.nnode c := by
  obtain ⟨v, kp, s, r, _, _, hg, _, _⟩ := parse_inv h
  exact rdCellGroupsP_ok cellInfos_pyr hg

theorem cellInfos_nodePer_pos : ∀ ci ∈ cellInfos, 2 ≤ ci.nodePer := by decide

theorem cellInfos_length : cellInfos.length = 16 := by decide

end Refine.Lemmas.PartMeshb
