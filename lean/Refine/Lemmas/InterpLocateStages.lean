import Refine.Lemmas.InterpLocateComm

/-!
  The world-level steps of `Refine.Model.InterpLocate` keep the invariant `Good P P3` on every rank:
  `geomStage`, `sweep` / `sweeps` / `processAgents`, `treeStage`, `treeLoop`, `locate`.

  What the senders put into the records is all the invariant needs to know about the exchanges: a geometry seed record
  carries `storeBary twod unwritten b`, a tree record with a cell carries the slots written by `ref_node_bary3` +
  `[3] = 0.0` (2-D) or `ref_node_bary4`, an `ENCLOSING` agent carries the copy of `storeBary twod unwritten b` with
  `ref_interp_bary_inside b`; `exchangeLocated_mem` and `migrate_mem` say nothing else arrives.
-/
set_option linter.unusedSectionVars false

namespace Refine.Lemmas.InterpLocate
open Refine Refine.Model.Geom Refine.Model.Interp Refine.Model.InterpLocate Refine.Model.Comm Refine.Lemmas.Comm
open Refine.Gen

variable {α : Type} [Scalar α] {P P3 : Slots α → Prop}

/-- the invariant on every rank -/
def GoodW (P P3 : Slots α → Prop) (w : World (RankSt α)) : Prop := ∀ st ∈ w, Good P P3 st

/-! ## what the senders put into the records -/

theorem geomSends_bary (r : Nat) (dr : DonorR α) :
    ∀ (targets : List (Int × Int × V3 α)) (who : List Int) (best : List (α × Int)) (l : List (Located α)),
      geomSends r dr targets who best = .ok l → ∀ x ∈ l, ∃ b, x.bary = storeBary dr.d.twod Slots.unwritten b := by
  intro targets
  unfold geomSends
  induction targets with
  | nil =>
    intro who best l h x hx
    simp only [geomSends.go, Except.ok.injEq] at h
    subst h; cases hx
  | cons t ts ih =>
    intro who best l h x hx
    cases who with
    | nil => simp only [geomSends.go, Except.ok.injEq] at h; subst h; cases hx
    | cons p ps =>
      cases best with
      | nil => simp only [geomSends.go, Except.ok.injEq] at h; subst h; cases hx
      | cons b bs =>
        simp only [geomSends.go] at h
        split at h
        · split at h
          · rename_i c wts _
            obtain ⟨l', hl', rfl⟩ := map_eq_ok.mp h
            rcases List.mem_cons.mp hx with rfl | hx'
            · exact ⟨wts, rfl⟩
            · exact ih ps bs l' hl' x hx'
          · cases h
        · exact ih ps bs l h x hx

theorem treeSends_bary (r : Nat) (dr : DonorR α) :
    ∀ (targets : List (Int × Int × V3 α)) (who : List Int) (best : List (α × Int)) (l : List (Located α)) (inc : Bool),
      treeSends r dr targets who best = .ok (l, inc) → ∀ x ∈ l, x.cell ≠ refEmpty →
        ∃ b, x.bary = if dr.d.twod then (Slots.unwritten.zero3).write3 b else Slots.unwritten.write4 b := by
  intro targets
  unfold treeSends
  induction targets with
  | nil =>
    intro who best l inc h x hx
    simp only [treeSends.go, Except.ok.injEq, Prod.mk.injEq] at h
    obtain ⟨rfl, _⟩ := h; cases hx
  | cons t ts ih =>
    intro who best l inc h x hx hc
    cases who with
    | nil =>
      simp only [treeSends.go, Except.ok.injEq, Prod.mk.injEq] at h
      obtain ⟨rfl, _⟩ := h; cases hx
    | cons p ps =>
      cases best with
      | nil =>
        simp only [treeSends.go, Except.ok.injEq, Prod.mk.injEq] at h
        obtain ⟨rfl, _⟩ := h; cases hx
      | cons b bs =>
        simp only [treeSends.go] at h
        split at h
        · split at h
          · split at h
            · cases h
            · split at h
              · rename_i n wts _
                obtain ⟨q, hq, hq2⟩ := map_eq_ok.mp h
                simp only [Prod.mk.injEq] at hq2
                obtain ⟨rfl, _⟩ := hq2
                rcases List.mem_cons.mp hx with rfl | hx'
                · exact ⟨wts, rfl⟩
                · exact ih ps bs q.1 q.2 hq x hx' hc
              · cases h
          · obtain ⟨q, hq, hq2⟩ := map_eq_ok.mp h
            simp only [Prod.mk.injEq] at hq2
            obtain ⟨rfl, _⟩ := hq2
            rcases List.mem_cons.mp hx with rfl | hx'
            · exact absurd rfl hc
            · exact ih ps bs q.1 q.2 hq x hx' hc
        · exact ih ps bs l inc h x hx hc

/-! ## membership in the per-rank maps -/

theorem mem_mapIdx_zip {β γ δ : Type} {l1 : List β} {l2 : List γ} {f : Nat → β × γ → δ} {d : δ}
    (h : d ∈ (l1.zip l2).mapIdx f) : ∃ r q, q ∈ l1.zip l2 ∧ f r q = d := by
  obtain ⟨r, hr, hd⟩ := List.mem_mapIdx.mp h
  exact ⟨r, _, List.getElem_mem hr, hd⟩

/-! ## stage 1 -/

theorem good_geomStage {dw : World (DonorR α)} {rw : World (RecvR α)} {w w' : World (RankSt α)} (hg : GoodW P P3 w)
    (hsend : ∀ dr ∈ dw, ∀ b, geomAccept (storeBary dr.d.twod Slots.unwritten b) = true →
      P (storeBary dr.d.twod Slots.unwritten b))
    (h : geomStage dw rw w = .ok w') : GoodW P P3 w' := by
  unfold geomStage at h
  obtain ⟨xyzs, _, h⟩ := bind_eq_ok.mp h
  obtain ⟨nodes, _, h⟩ := bind_eq_ok.mp h
  simp only at h
  obtain ⟨sends, hsends, h⟩ := bind_eq_ok.mp h
  obtain ⟨recvs, hrecvs, h⟩ := bind_eq_ok.mp h
  obtain ⟨w1, hw1, h⟩ := bind_eq_ok.mp h
  simp only [pure, Except.pure, Except.ok.injEq] at h
  subst h
  intro st' hst'
  simp only [List.mem_map] at hst'
  obtain ⟨st1, hst1, rfl⟩ := hst'
  have hmem := collect_mem hw1 hst1
  obtain ⟨r, q, hq, hqr⟩ := mem_mapIdx_zip hmem
  have hq2 := (List.of_mem_zip hq).2
  have hqw : q.2.1 ∈ w := (List.of_mem_zip hq2).1
  have hqr' : q.2.2 ∈ recvs := (List.of_mem_zip hq2).2
  have hgood : Good P P3 st1 := by
    refine good_geomRecv r q.1 q.2.2 q.2.1 st1 (hg _ hqw) ?_ hqr
    intro it hit hacc
    obtain ⟨l, hl, x, hx, rfl⟩ := exchangeLocated_mem hrecvs hqr' hit
    have hlm := collect_mem hsends hl
    obtain ⟨r2, q2, hq2z, hq2r⟩ := mem_mapIdx_zip hlm
    obtain ⟨b, hb⟩ := geomSends_bary r2 q2.1 _ _ _ l hq2r x hx
    have hdr : q2.1 ∈ dw := (List.of_mem_zip hq2z).1
    simp only at hacc ⊢
    rw [hb] at hacc ⊢
    exact hsend _ hdr b hacc
  exact good_frame hgood rfl rfl hgood.agents

/-! ## stage 2 -/

/-- one sweep keeps the invariant when a walk that ends `ENCLOSING` carries slots with `P` -/
theorem good_sweep {dw : World (DonorR α)} {rw : World (RecvR α)} {w w' : World (RankSt α)} (hg : GoodW P P3 w)
    (hwalk : ∀ dr ∈ dw, ∀ b s0, walkInside b = true →
      P (Slots.copyN InterpConsts.walkCopy s0 (storeBary dr.d.twod Slots.unwritten b)))
    (h : sweep dw rw w = .ok w') : GoodW P P3 w' := by
  unfold sweep at h
  obtain ⟨w1, hw1, h⟩ := bind_eq_ok.mp h
  obtain ⟨ags, hags, h⟩ := bind_eq_ok.mp h
  simp only at h
  obtain ⟨w3, hw3, h⟩ := bind_eq_ok.mp h
  obtain ⟨w4, hw4, h⟩ := bind_eq_ok.mp h
  obtain ⟨w5, hw5, h⟩ := bind_eq_ok.mp h
  -- loop 1
  have g1 : GoodW P P3 w1 := by
    intro st hst
    obtain ⟨r, q, hq, hqr⟩ := mem_mapIdx_zip (collect_mem hw1 hst)
    have hdr := (List.of_mem_zip hq).1
    refine good_walkAll (hg _ (List.of_mem_zip hq).2) ?_ hqr
    intro a a' rnd rnd' e hwk hm he
    unfold walkAgentP at hwk
    obtain ⟨n, b, s0, _, _, hin, hb⟩ := walkLoopP_sound r q.1 _ a a' rnd rnd' e hwk (by rw [hm]; simp) he
    rw [hb]
    exact hwalk _ hdr b s0 hin
  -- migration: the per-node data are untouched, no agent is invented
  have g2 : GoodW P P3 ((w1.zip ags).map fun q => { q.1 with ag := q.2 }) := by
    intro st hst
    simp only [List.mem_map] at hst
    obtain ⟨q, hq, rfl⟩ := hst
    have hq1 := (List.of_mem_zip hq).1
    have hq2 := (List.of_mem_zip hq).2
    refine good_frame (g1 _ hq1) rfl rfl ?_
    intro p hp hm
    obtain ⟨a, ha, p0, hp0, hpp⟩ := migrate_mem hags hq2 hp
    simp only [List.mem_map] at ha
    obtain ⟨st0, hst0, rfl⟩ := ha
    rw [← hpp] at hm ⊢
    exact (g1 _ hst0).agents p0 hp0 hm
  have g3 : GoodW P P3 w3 := by
    intro st hst
    obtain ⟨r, q, hq, hqr⟩ := mem_mapIdx_zip (collect_mem hw3 hst)
    exact good_hopArrive (g2 _ (List.of_mem_zip hq).2) hqr
  have g4 : GoodW P P3 w4 := by
    intro st hst
    obtain ⟨r, q, hq, hqr⟩ := mem_mapIdx_zip (collect_mem hw4 hst)
    exact good_suggestionArrive (g3 _ (List.of_mem_zip hq).2) hqr
  have g5 : GoodW P P3 w5 := by
    intro st hst
    obtain ⟨r, q, hq, hqr⟩ := mem_mapIdx_zip (collect_mem hw5 hst)
    exact good_giveUp (g4 _ (List.of_mem_zip hq).2) hqr
  intro st hst
  obtain ⟨r, q, hq, hqr⟩ := mem_mapIdx_zip (collect_mem h hst)
  exact good_enclose (g5 _ (List.of_mem_zip hq).2) hqr

theorem good_sweeps {dw : World (DonorR α)} {rw : World (RecvR α)}
    (hwalk : ∀ dr ∈ dw, ∀ b s0, walkInside b = true →
      P (Slots.copyN InterpConsts.walkCopy s0 (storeBary dr.d.twod Slots.unwritten b))) :
    ∀ (fuel : Nat) (w w' : World (RankSt α)), GoodW P P3 w → sweeps dw rw fuel w = .ok w' → GoodW P P3 w'
  | 0, w, w', hg, h => by
    simp only [sweeps] at h
    split at h
    · simp only [Except.ok.injEq] at h; subst h; exact hg
    · cases h
  | fuel + 1, w, w', hg, h => by
    simp only [sweeps] at h
    split at h
    · simp only [Except.ok.injEq] at h; subst h; exact hg
    · split at h
      · rename_i w1 hs
        exact good_sweeps hwalk fuel w1 w' (good_sweep hg hwalk hs) h
      · cases h

theorem good_processAgents {dw : World (DonorR α)} {rw : World (RecvR α)} {w w' : World (RankSt α)} (hg : GoodW P P3 w)
    (hwalk : ∀ dr ∈ dw, ∀ b s0, walkInside b = true →
      P (Slots.copyN InterpConsts.walkCopy s0 (storeBary dr.d.twod Slots.unwritten b)))
    (h : processAgents dw rw w = .ok w') : GoodW P P3 w' := by
  unfold processAgents at h
  obtain ⟨w1, hw1, h⟩ := bind_eq_ok.mp h
  simp only at h
  split at h
  · cases h
  · simp only [pure, Except.pure, Except.ok.injEq] at h
    subst h
    intro st hst
    simp only [List.mem_map] at hst
    obtain ⟨st1, hst1, rfl⟩ := hst
    have := good_sweeps hwalk _ _ _ hg hw1 st1 hst1
    exact good_frame this rfl rfl this.agents

/-! ## stage 3 -/

theorem good_treeStage {dw : World (DonorR α)} {ss : World (Refine.Model.Search.Search α)} {rw : World (RecvR α)}
    {fuzz : α} {w w' : World (RankSt α)} {inc : Bool} (hg : GoodW P P3 w)
    (hsend : ∀ dr ∈ dw, ∀ b, P3 (if dr.d.twod then (Slots.unwritten.zero3).write3 b else Slots.unwritten.write4 b))
    (h : treeStage dw ss rw fuzz w = .ok (w', inc)) : GoodW P P3 w' := by
  unfold treeStage at h
  try simp only at h
  obtain ⟨xyzs, _, h⟩ := bind_eq_ok.mp h
  obtain ⟨nodes, _, h⟩ := bind_eq_ok.mp h
  try simp only at h
  obtain ⟨props, _, h⟩ := bind_eq_ok.mp h
  try simp only at h
  obtain ⟨sends, hsends, h⟩ := bind_eq_ok.mp h
  obtain ⟨recvs, hrecvs, h⟩ := bind_eq_ok.mp h
  try simp only at h
  obtain ⟨w2, hw2, h⟩ := bind_eq_ok.mp h
  try simp only at h
  have hgoal : GoodW P P3 (w2.map fun st => { st with nTree := sumAll (w2.map (·.nTree)) }) := by
    intro st' hst'
    simp only [List.mem_map] at hst'
    obtain ⟨st2, hst2, rfl⟩ := hst'
    have hmem := collect_mem hw2 hst2
    simp only [List.mem_map] at hmem
    obtain ⟨q, hq, hqr⟩ := hmem
    have hq1 := (List.of_mem_zip hq).1
    have hq2 := (List.of_mem_zip hq).2
    simp only [List.mem_map] at hq1
    obtain ⟨z, hz, hz1⟩ := hq1
    have hzw : z.1 ∈ w := (List.of_mem_zip hz).1
    have hg1 : Good P P3 q.1 := by
      rw [← hz1]
      exact good_frame (hg _ hzw) rfl rfl (hg _ hzw).agents
    have hgood : Good P P3 st2 := by
      refine good_treeRecv q.2 q.1 st2 hg1 ?_ hqr
      intro it hit hc
      have hq2' : q.2 ∈ List.map (fun x => x) recvs := by simpa using hq2
      obtain ⟨l, hl, x, hx, rfl⟩ := exchangeLocated_mem hrecvs hq2 hit
      simp only [List.mem_map] at hl
      obtain ⟨sd, hsd, rfl⟩ := hl
      have hlm := collect_mem hsends hsd
      obtain ⟨r2, q2, hq2z, hq2r⟩ := mem_mapIdx_zip hlm
      obtain ⟨b, hb⟩ := treeSends_bary r2 q2.1 _ _ _ sd.1 sd.2 hq2r x hx hc
      have hdr : q2.1 ∈ dw := (List.of_mem_zip hq2z).1
      simp only
      rw [hb]
      exact hsend _ hdr b
    exact good_frame hgood rfl rfl hgood.agents
  split at h
  · cases h
  · simp only [pure, Except.pure, Except.ok.injEq, Prod.mk.injEq] at h
    obtain ⟨rfl, _⟩ := h
    exact hgoal

theorem good_treeLoop {dw : World (DonorR α)} {ss : World (Refine.Model.Search.Search α)} {rw : World (RecvR α)}
    (hsend : ∀ dr ∈ dw, ∀ b, P3 (if dr.d.twod then (Slots.unwritten.zero3).write3 b else Slots.unwritten.write4 b)) :
    ∀ (k : Nat) (inc : Bool) (fuzz fuzz' : α) (w w' : World (RankSt α)), GoodW P P3 w →
      treeLoop dw ss rw k inc fuzz w = .ok (w', fuzz') → GoodW P P3 w'
  | 0, inc, fuzz, fuzz', w, w', hg, h => by
    simp only [treeLoop] at h
    split at h
    · cases h
    · simp only [Except.ok.injEq, Prod.mk.injEq] at h
      obtain ⟨rfl, _⟩ := h; exact hg
  | k + 1, inc, fuzz, fuzz', w, w', hg, h => by
    simp only [treeLoop] at h
    split at h
    · cases h
    · rename_i w1 inc1 hts
      have g1 := good_treeStage hg hsend hts
      split at h
      · exact good_treeLoop hsend k true _ fuzz' w1 w' g1 h
      · simp only [Except.ok.injEq, Prod.mk.injEq] at h
        obtain ⟨rfl, _⟩ := h; exact g1

/-! ## `ref_interp_locate` -/

/-- the invariant after `ref_interp_locate`, from three facts about what the senders store -/
theorem good_locate {dw : World (DonorR α)} {ss : World (Refine.Model.Search.Search α)} {rw : World (RecvR α)}
    {fuzz fuzz' : α} {w w' : World (RankSt α)} (hg : GoodW P P3 w)
    (hgeom : ∀ dr ∈ dw, ∀ b, geomAccept (storeBary dr.d.twod Slots.unwritten b) = true →
      P (storeBary dr.d.twod Slots.unwritten b))
    (hwalk : ∀ dr ∈ dw, ∀ b s0, walkInside b = true →
      P (Slots.copyN InterpConsts.walkCopy s0 (storeBary dr.d.twod Slots.unwritten b)))
    (htree : ∀ dr ∈ dw, ∀ b, P3 (if dr.d.twod then (Slots.unwritten.zero3).write3 b else Slots.unwritten.write4 b))
    (h : locate dw ss rw fuzz w = .ok (w', fuzz')) : GoodW P P3 w' := by
  unfold locate at h
  obtain ⟨w1, hw1, h⟩ := bind_eq_ok.mp h
  obtain ⟨w2, hw2, h⟩ := bind_eq_ok.mp h
  exact good_treeLoop htree _ _ _ _ _ _ (good_processAgents (good_geomStage hg hgeom hw1) hwalk hw2) h

/-- the world `ref_interp_create` leaves: nothing located, no agent -/
theorem good_create (ns : List (Nat × Nat)) :
    GoodW P P3 (ns.map fun q => (RankSt.create q.1 q.2 : RankSt α)) := by
  intro st hst
  simp only [List.mem_map] at hst
  obtain ⟨q, _, rfl⟩ := hst
  refine ⟨by simp [RankSt.create], ?_, ?_⟩
  · intro i
    have hs : (List.replicate q.1 0).getD i 0 = 0 := by
      simp only [List.getD_eq_getElem?_getD, List.getElem?_replicate]
      split <;> rfl
    constructor
    · intro h12
      simp only [RankSt.create] at h12
      rw [hs] at h12
      rcases h12 with h12 | h12 <;> cases h12
    · intro h3
      simp only [RankSt.create] at h3
      rw [hs] at h3
      cases h3
  · intro p hp
    simp [RankSt.create, Agents.create] at hp

end Refine.Lemmas.InterpLocate
