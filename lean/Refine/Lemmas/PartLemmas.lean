import Refine.Gen.PartMacros
import Mathlib.Tactic.Linarith
import Mathlib.Tactic.Ring

/-!
  Facts about the *generated* `ref_part.h` macros (`Refine.Gen.PartMacros`, `Int`, `Int.tdiv` = C division).
  `omega` cannot divide by a variable, so the two divisions are reduced by hand to
  `large = small + 1`, `N - 1 = np * small + r` (`0 ≤ r < np`), `nLarge = r + 1`; the rest is `nlinarith`.
-/
namespace Refine.Lemmas.Part
open Refine.Gen.PartMacros

abbrev small (N np : Int) : Int := ref_part_small_part_size N np
abbrev large (N np : Int) : Int := ref_part_large_part_size N np
abbrev nLarge (N np : Int) : Int := ref_part_n_large_part N np
abbrev first (N np k : Int) : Int := ref_part_first N np k
abbrev implicit (N np g : Int) : Int := ref_part_implicit N np g

theorem small_eq (N np : Int) (hN : 1 ≤ N) : small N np = (N - 1) / np := by
  unfold small ref_part_small_part_size
  exact Int.tdiv_eq_ediv_of_nonneg (by omega)

theorem small_nonneg (N np : Int) (hN : 1 ≤ N) (hp : 1 ≤ np) : 0 ≤ small N np := by
  rw [small_eq N np hN]; exact Int.ediv_nonneg (by omega) (by omega)

/-- key lemma 1: the large block is exactly one longer than the small block -/
theorem large_eq (N np : Int) (hN : 1 ≤ N) (hp : 1 ≤ np) : large N np = small N np + 1 := by
  rw [small_eq N np hN]
  unfold large ref_part_large_part_size
  rw [Int.tdiv_eq_ediv_of_nonneg (by omega)]
  have h : N + np - 1 = (N - 1) + 1 * np := by ring
  rw [h, Int.add_mul_ediv_right _ _ (by omega)]

/-- key lemma 2: the number of large blocks is `(N-1) % np + 1` -/
theorem nLarge_eq (N np : Int) (hN : 1 ≤ N) : nLarge N np = (N - 1) % np + 1 := by
  unfold nLarge ref_part_n_large_part
  have h1 := small_eq N np hN
  unfold small at h1
  rw [h1]
  have h := Int.mul_ediv_add_emod (N - 1) np
  linarith

theorem nLarge_pos (N np : Int) (hN : 1 ≤ N) (hp : 1 ≤ np) : 1 ≤ nLarge N np := by
  rw [nLarge_eq N np hN]; have := Int.emod_nonneg (N - 1) (show np ≠ 0 by omega); omega

theorem nLarge_le (N np : Int) (hN : 1 ≤ N) (hp : 1 ≤ np) : nLarge N np ≤ np := by
  rw [nLarge_eq N np hN]; have := Int.emod_lt_of_pos (N - 1) (show 0 < np by omega); omega

/-- `N = np * small + nLarge` (definition of `nLarge`, no division involved) -/
theorem total_eq (N np : Int) : N = np * small N np + nLarge N np := by
  unfold nLarge ref_part_n_large_part small; ring

/-- closed form of `first`: `k * small + min k nLarge` -/
theorem first_eq (N np k : Int) (hN : 1 ≤ N) (hp : 1 ≤ np) :
    first N np k = k * small N np + min k (nLarge N np) := by
  have hl := large_eq N np hN hp
  unfold large at hl
  unfold first ref_part_first
  rw [hl]
  show (if k < nLarge N np then k * (small N np + 1)
        else (k - nLarge N np) * small N np + nLarge N np * (small N np + 1)) = _
  split
  · rw [min_eq_left (by omega)]; ring
  · rw [min_eq_right (by omega)]; ring

/-- Euclidean bracket for a non-negative numerator and positive divisor, stated for `Int.tdiv` -/
theorem tdiv_bracket (a b : Int) (ha : 0 ≤ a) (hb : 0 < b) :
    0 ≤ Int.tdiv a b ∧ Int.tdiv a b * b ≤ a ∧ a < (Int.tdiv a b + 1) * b := by
  rw [Int.tdiv_eq_ediv_of_nonneg ha]
  refine ⟨Int.ediv_nonneg ha (by omega), Int.ediv_mul_le a (by omega), ?_⟩
  exact Int.lt_ediv_add_one_mul_self a hb

end Refine.Lemmas.Part

namespace Refine.Lemmas.Part
open Refine.Gen.PartMacros

/-- In the `else` arm of `ref_part_implicit` the divisor `small` is ≥ 1: the C never divides by zero
    there (and the Lean totalisation `x.tdiv 0 = 0` is never used). -/
theorem implicit_else_divisor_pos (N np g : Int) (hN : 1 ≤ N) (hp : 1 ≤ np) (hg : g < N)
    (hbr : ¬ Int.tdiv g (large N np) < nLarge N np) : 1 ≤ small N np := by
  have hs := small_nonneg N np hN hp
  have hl := large_eq N np hN hp
  have ht := total_eq N np
  have hL := nLarge_le N np hN hp
  by_contra hc
  have hs0 : small N np = 0 := by omega
  rw [hl, hs0] at hbr
  simp at hbr
  rw [hs0] at ht
  omega

/-- the owner computed by `ref_part_implicit`, bracketed by `ref_part_first` -/
theorem implicit_bracket (N np g : Int) (hN : 1 ≤ N) (hp : 1 ≤ np) (hg0 : 0 ≤ g) (hg : g < N) :
    0 ≤ implicit N np g ∧ implicit N np g < np ∧
    first N np (implicit N np g) ≤ g ∧ g < first N np (implicit N np g + 1) := by
  have hs := small_nonneg N np hN hp
  have hl := large_eq N np hN hp
  have ht := total_eq N np
  have hL1 := nLarge_pos N np hN hp
  have hLp := nLarge_le N np hN hp
  rw [first_eq N np _ hN hp, first_eq N np _ hN hp]
  by_cases hbr : Int.tdiv g (large N np) < nLarge N np
  · have hi : implicit N np g = Int.tdiv g (large N np) := by
      unfold implicit ref_part_implicit ref_part_large_implicit
      unfold large nLarge at hbr
      rw [if_pos hbr]
    rw [hi]
    obtain ⟨h0, h1, h2⟩ := tdiv_bracket g (large N np) hg0 (by omega)
    rw [hl] at h0 h1 h2 hbr
    rw [hl]
    generalize Int.tdiv g (small N np + 1) = k at *
    refine ⟨h0, by omega, ?_, ?_⟩
    · rw [min_eq_left (by omega)]; nlinarith
    · rw [min_eq_left (by omega)]; nlinarith
  · have hs1 := implicit_else_divisor_pos N np g hN hp hg hbr
    have hi : implicit N np g =
        Int.tdiv (g - nLarge N np * large N np) (small N np) + nLarge N np := by
      unfold implicit ref_part_implicit ref_part_small_implicit ref_part_total_large
      unfold large nLarge at hbr
      rw [if_neg hbr]
    rw [hi]
    obtain ⟨h0, h1, h2⟩ := tdiv_bracket g (large N np) hg0 (by omega)
    have hge : nLarge N np * large N np ≤ g := by
      have : nLarge N np ≤ Int.tdiv g (large N np) := by omega
      have hlp : 0 < large N np := by omega
      nlinarith
    obtain ⟨j0, j1, j2⟩ := tdiv_bracket (g - nLarge N np * large N np) (small N np) (by omega) (by omega)
    rw [hl] at hge j0 j1 j2
    rw [hl]
    generalize Int.tdiv (g - nLarge N np * (small N np + 1)) (small N np) = j at *
    generalize small N np = s at *
    generalize nLarge N np = L at *
    have hjp : j < np - L := by
      by_contra hc
      have : np - L ≤ j := by omega
      nlinarith
    refine ⟨by omega, by omega, ?_, ?_⟩
    · rw [min_eq_right (by omega)]; nlinarith
    · rw [min_eq_right (by omega)]; nlinarith

end Refine.Lemmas.Part
