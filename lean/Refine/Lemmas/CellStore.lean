import Refine.Model.CellStore

/-!
  Invariant of the `CellStore` and the lemmas behind the cell-store theorems of
  `Refine/Props/C14NodeCell.lean`.
-/
namespace Refine.Model.CellStore
open Refine.Model.NodeIds (Status)

/-! ### the adjacency (node ↦ cells, in iteration order) -/

namespace Adj

theorem first_nonneg {a : Adj} {w : Int} (h : 0 ≤ w) : a.first w = a.lists.getD w.toNat [] := by
  simp [first, Int.not_lt.2 h]

theorem first_neg {a : Adj} {w : Int} (h : w < 0) : a.first w = [] := by simp [first, h]

theorem getD_set_lists {l : List (List Int)} {v w : Nat} {x : List Int} (hv : v < l.length) :
    (l.set v x).getD w [] = if w = v then x else l.getD w [] := by
  by_cases h : w = v
  · subst h; simp [List.getD_eq_getElem?_getD, hv]
  · simp [List.getD_eq_getElem?_getD, h, Ne.symm h]

theorem getD_append_replicate (l : List (List Int)) (k w : Nat) :
    (l ++ List.replicate k []).getD w [] = l.getD w [] := by
  by_cases h : w < l.length
  · simp [List.getD_eq_getElem?_getD, List.getElem?_append_left h]
  · have h' : l.length ≤ w := Nat.le_of_not_lt h
    rw [List.getD_eq_getElem?_getD, List.getElem?_append_right h', List.getD_eq_getElem?_getD,
      List.getElem?_eq_none h']
    by_cases h2 : w - l.length < k
    · simp [h2]
    · simp [h2]

/-- `ref_adj_add` of a non-negative node: push at the front of that node's list -/
theorem add_spec (a : Adj) {node : Int} (hn : 0 ≤ node) (ref : Int) :
    (a.add node ref).1 = .ok ∧
      ∀ w, (a.add node ref).2.first w = if w = node then ref :: a.first w else a.first w := by
  unfold add
  rw [if_neg (Int.not_lt.2 hn)]
  refine ⟨rfl, ?_⟩
  intro w
  simp only
  -- the (possibly grown) list of lists: same entries, long enough
  generalize hL : (if node.toNat ≥ a.lists.length then
      a.lists ++ List.replicate (Nat.max (100 + (node.toNat - a.lists.length)) (a.lists.length / 2)) []
    else a.lists) = L
  have hget : ∀ k, L.getD k [] = a.lists.getD k [] := by
    intro k; rw [← hL]; split
    · exact getD_append_replicate _ _ _
    · rfl
  have hv : node.toNat < L.length := by
    rw [← hL]; split
    · have : 100 + (node.toNat - a.lists.length) ≤
          Nat.max (100 + (node.toNat - a.lists.length)) (a.lists.length / 2) := Nat.le_max_left _ _
      simp only [List.length_append, List.length_replicate]
      omega
    · omega
  by_cases hw : w < 0
  · have : w ≠ node := by omega
    simp [first, hw, this]
  · have hw' : 0 ≤ w := Int.not_lt.1 hw
    rw [first_nonneg hw', first_nonneg hw']
    simp only
    rw [getD_set_lists hv, hget, hget]
    by_cases hwn : w = node
    · subst hwn; simp
    · have : ¬ (w.toNat = node.toNat) := by omega
      simp [hwn, this]

theorem add_neg (a : Adj) {node : Int} (hn : node < 0) (ref : Int) : a.add node ref = (.invalid, a) := by
  simp [add, hn]

/-- `ref_adj_remove` when `ref` is registered with `node`: unlink its first occurrence -/
theorem remove_spec (a : Adj) {node ref : Int} (h : ref ∈ a.first node) :
    (a.remove node ref).1 = .ok ∧
      ∀ w, (a.remove node ref).2.first w = if w = node then (a.first node).erase ref else a.first w := by
  have hn : 0 ≤ node := by
    refine Int.not_lt.1 fun hneg => ?_
    rw [first_neg hneg] at h; simp at h
  have hne : (a.first node).isEmpty = false := by
    cases hl : a.first node with
    | nil => rw [hl] at h; simp at h
    | cons _ _ => rfl
  have hc : (a.first node).contains ref = true := by simpa using h
  have hlen : node.toNat < a.lists.length := by
    refine Nat.lt_of_not_le fun hle => ?_
    rw [first_nonneg hn, List.getD_eq_getElem?_getD, List.getElem?_eq_none hle] at h
    simp at h
  unfold remove
  simp only [hne, hc, Bool.false_eq_true, if_false, Bool.not_true]
  refine ⟨by trivial, ?_⟩
  intro w
  by_cases hw : w < 0
  · have : w ≠ node := by omega
    simp [first, hw, this]
  · have hw' : 0 ≤ w := Int.not_lt.1 hw
    rw [first_nonneg hw', first_nonneg hw']
    simp only
    rw [getD_set_lists hlen]
    have : (w.toNat = node.toNat) ↔ w = node := by omega
    simp only [this]

theorem remove_not_mem (a : Adj) {node ref : Int} (h : ref ∉ a.first node) :
    a.remove node ref = (.invalid, a) := by
  unfold remove
  simp only
  split
  · rfl
  · have : (a.first node).contains ref = false := by simpa using h
    simp only [this, Bool.not_false, if_true]

end Adj


/-! ### register / unregister a cell with all its nodes -/

theorem adjAddAll_spec : ∀ (vs : List Int) (a : Adj) (cell : Int), (∀ v ∈ vs, 0 ≤ v) →
    (CellStore.adjAddAll a vs cell).1 = .ok ∧
      ∀ w x, ((CellStore.adjAddAll a vs cell).2.first w).count x =
        (a.first w).count x + (if x = cell then vs.count w else 0)
  | [], a, cell, _ => by simp [CellStore.adjAddAll]
  | v :: rest, a, cell, h => by
    obtain ⟨hok, hf⟩ := Adj.add_spec a (h v (by simp)) cell
    obtain ⟨ihok, ih⟩ := adjAddAll_spec rest (a.add v cell).2 cell (fun u hu => h u (by simp [hu]))
    unfold CellStore.adjAddAll
    simp only [hok, if_true]
    refine ⟨ihok, ?_⟩
    intro w x
    rw [ih w x, hf w]
    by_cases hwv : w = v
    · subst hwv
      by_cases hx : x = cell
      · subst hx; simp; omega
      · have : ¬ (cell = x) := fun e => hx e.symm
        simp [hx, this]
    · have : ¬ (v = w) := fun e => hwv e.symm
      by_cases hx : x = cell
      · simp [hwv, hx, this]
      · simp [hwv, hx]

theorem adjRemoveAll_spec : ∀ (vs : List Int) (a : Adj) (cell : Int),
    (∀ w, vs.count w ≤ (a.first w).count cell) →
    (CellStore.adjRemoveAll a vs cell).1 = .ok ∧
      ∀ w x, ((CellStore.adjRemoveAll a vs cell).2.first w).count x =
        (a.first w).count x - (if x = cell then vs.count w else 0)
  | [], a, cell, _ => by simp [CellStore.adjRemoveAll]
  | v :: rest, a, cell, h => by
    have hmem : cell ∈ a.first v := by
      have := h v
      simp only [List.count_cons_self] at this
      exact List.count_pos_iff.1 (by omega)
    obtain ⟨hok, hf⟩ := Adj.remove_spec a hmem
    have hpre : ∀ w, rest.count w ≤ ((a.remove v cell).2.first w).count cell := by
      intro w
      have := h w
      rw [hf w]
      by_cases hwv : w = v
      · subst hwv
        simp only [List.count_cons_self, if_true, List.count_erase_self] at this ⊢
        omega
      · have hvw : ¬ (v = w) := fun e => hwv e.symm
        simp only [List.count_cons, hwv, if_false] at this ⊢
        simp [hvw] at this
        exact this
    obtain ⟨ihok, ih⟩ := adjRemoveAll_spec rest (a.remove v cell).2 cell hpre
    unfold CellStore.adjRemoveAll
    simp only [hok, if_true]
    refine ⟨ihok, ?_⟩
    intro w x
    rw [ih w x, hf w]
    by_cases hwv : w = v
    · subst hwv
      by_cases hx : x = cell
      · subst hx
        have := h w
        simp only [List.count_cons_self] at this
        simp only [if_true, List.count_erase_self, List.count_cons_self]
        omega
      · simp [hx, List.count_erase_of_ne hx]
    · have hvw : ¬ (v = w) := fun e => hwv e.symm
      by_cases hx : x = cell
      · simp [hwv, hx, hvw]
      · simp [hwv, hx]


/-! ### the free list threaded through `c2n[1]` -/

namespace CellStore

/-- `CellChain rows b l`: following `row[1]` from head `b` visits exactly the rows `l`, all of them
    invalid (`row[0] = REF_EMPTY`), and ends at `REF_EMPTY` -/
inductive CellChain (rows : List (List Int)) : Int → List Nat → Prop
  | nil : CellChain rows (-1) []
  | cons {i : Nat} {l : List Nat} : i < rows.length → (rows.getD i []).getD 0 (-1) = -1 →
      CellChain rows ((rows.getD i []).getD 1 (-1)) l → CellChain rows (i : Int) (i :: l)

theorem CellChain.nil_iff {rows b l} (h : CellChain rows b l) : b = -1 ↔ l = [] := by
  cases h with
  | nil => simp
  | cons _ _ _ => simp

theorem CellChain.cons_inv {rows b l} (h : CellChain rows b l) (hb : b ≠ -1) :
    ∃ (i : Nat) (l' : List Nat), b = (i : Int) ∧ l = i :: l' ∧ i < rows.length ∧
      (rows.getD i []).getD 0 (-1) = -1 ∧
      CellChain rows ((rows.getD i []).getD 1 (-1)) l' := by
  cases h with
  | nil => exact absurd rfl hb
  | @cons i l' hi hn hc => exact ⟨i, l', rfl, rfl, hi, hn, hc⟩

theorem getD_rows_set_ne {rows : List (List Int)} {v w : Nat} {x : List Int} (h : w ≠ v) :
    (rows.set v x).getD w [] = rows.getD w [] := by
  simp [List.getD_eq_getElem?_getD, Ne.symm h]

theorem getD_rows_set_self {rows : List (List Int)} {v : Nat} {x : List Int} (h : v < rows.length) :
    (rows.set v x).getD v [] = x := by
  simp [List.getD_eq_getElem?_getD, h]

theorem CellChain.set_of_not_mem {rows b l} (h : CellChain rows b l) {v : Nat} {x : List Int} (hv : v ∉ l) :
    CellChain (rows.set v x) b l := by
  induction h with
  | nil => exact .nil
  | @cons i l hi hn _ ih =>
    have hvi : i ≠ v := fun e => hv (by simp [e])
    have hvl : v ∉ l := fun e => hv (by simp [e])
    have hget : (rows.set v x).getD i [] = rows.getD i [] := getD_rows_set_ne hvi
    have := ih hvl
    rw [← hget] at this
    exact .cons (by simpa using hi) (by rw [hget]; exact hn) this

theorem CellChain.append {rows b l} (h : CellChain rows b l) (t : List (List Int)) :
    CellChain (rows ++ t) b l := by
  induction h with
  | nil => exact .nil
  | @cons i l hi hn _ ih =>
    have hget : (rows ++ t).getD i [] = rows.getD i [] := by
      simp [List.getD_eq_getElem?_getD, List.getElem?_append_left hi]
    rw [← hget] at ih
    exact .cons (by simp; omega) (by rw [hget]; exact hn) ih

theorem freeRows_length (sp orig m : Nat) : (freeRows sp orig m).length = m - orig := by simp [freeRows]

theorem freeRows_getD {sp orig m k : Nat} (h : k < m - orig) :
    (freeRows sp orig m).getD k [] =
      freeRow sp (if orig + k + 1 = m then (-1 : Int) else ((orig + k + 1 : Nat) : Int)) := by
  simp [freeRows, List.getD_eq_getElem?_getD, List.getElem?_map, List.getElem?_range h]

theorem freeRow_length {sp : Nat} (h : 2 ≤ sp) (x : Int) : (freeRow sp x).length = sp := by
  simp [freeRow]; omega

theorem freeRow_getD0 (sp : Nat) (x : Int) : (freeRow sp x).getD 0 (-1) = -1 := by simp [freeRow]
theorem freeRow_getD1 (sp : Nat) (x : Int) : (freeRow sp x).getD 1 (-1) = x := by simp [freeRow]

/-- the rows written by create / growth form the chain `j, j+1, …, m-1` -/
theorem cellChain_freeRows (rows : List (List Int)) (sp m : Nat) :
    ∀ (k j : Nat), j + k = m → rows.length ≤ j → 0 < k →
      CellChain (rows ++ freeRows sp rows.length m) (j : Int) (List.range' j k) := by
  intro k
  induction k with
  | zero => intro j _ _ h; omega
  | succ k ih =>
    intro j hjk hgj _
    have hlen : j < (rows ++ freeRows sp rows.length m).length := by simp [freeRows_length]; omega
    have hget : (rows ++ freeRows sp rows.length m).getD j [] =
        freeRow sp (if j + 1 = m then (-1 : Int) else ((j + 1 : Nat) : Int)) := by
      have : j - rows.length < m - rows.length := by omega
      rw [List.getD_eq_getElem?_getD, List.getElem?_append_right hgj, ← List.getD_eq_getElem?_getD,
        freeRows_getD this]
      have : rows.length + (j - rows.length) + 1 = j + 1 := by omega
      rw [this]
    rw [List.range'_succ]
    refine .cons hlen (by rw [hget]; exact freeRow_getD0 _ _) ?_
    rw [hget, freeRow_getD1]
    by_cases hk : k = 0
    · subst hk
      have : j + 1 = m := by omega
      simp [this]; exact .nil
    · have : ¬ (j + 1 = m) := by omega
      simp only [this, if_false]
      exact ih (j + 1) (by omega) (by omega) (by omega)

/-! ### `CellInv` -/

/-- the nodes of cell `c`: the first `node_per` entries of its row -/
def cellNodes (s : CellStore) (c : Int) : List Int := (s.row c.toNat).take s.nodePer

/-- row `r` is a valid cell -/
def liveRow (r : List Int) : Bool := r.getD 0 (-1) != -1

structure CellInv (s : CellStore) : Prop where
  per : 1 ≤ s.nodePer ∧ s.nodePer ≤ s.sizePer ∧ 2 ≤ s.sizePer ∧ s.sizePer ≤ s.nodePer + 1
  rows : ∀ r ∈ s.c2n, r.length = s.sizePer
  chain : ∃ l, CellChain s.c2n s.blank l ∧ l.Nodup ∧ ∀ i, i < s.max → (i ∈ l ↔ s.c2nAt 0 i = -1)
  count : s.n = ((s.c2n.countP liveRow : Nat) : Int)
  nonneg : ∀ c, s.validCell c = true → ∀ v ∈ s.cellNodes c, 0 ≤ v
  /-- derived adjacency exact: the cells registered around `v` are exactly the valid cells containing `v`,
      with multiplicity -/
  adj : ∀ v c, (s.adj.first v).count c = if s.validCell c = true then (s.cellNodes c).count v else 0

theorem validCell_iff {s : CellStore} {c : Int} :
    s.validCell c = true ↔ 0 ≤ c ∧ c.toNat < s.max ∧ s.c2nAt 0 c.toNat ≠ -1 := by
  simp only [validCell, Bool.and_eq_true, decide_eq_true_eq]
  constructor
  · rintro ⟨⟨h1, h2⟩, h3⟩; exact ⟨h1, by omega, h3⟩
  · rintro ⟨h1, h2, h3⟩; exact ⟨⟨h1, by omega⟩, h3⟩

theorem c2nAt_of_ge {s : CellStore} {k c : Nat} (h : s.max ≤ c) : s.c2nAt k c = -1 := by
  simp only [CellStore.max] at h
  have : s.c2n.getD c [] = [] := by
    rw [List.getD_eq_getElem?_getD, List.getElem?_eq_none h]; rfl
  simp only [c2nAt, row, this]
  rfl


theorem liveRow_iff {r : List Int} : liveRow r = true ↔ r.getD 0 (-1) ≠ -1 := by
  unfold liveRow; simp only [bne_iff_ne, ne_eq]

theorem liveRow_false_iff {r : List Int} : liveRow r = false ↔ r.getD 0 (-1) = -1 := by
  unfold liveRow; simp only [bne_eq_false_iff_eq]

theorem getD_rows_eq_getElem {rows : List (List Int)} {i : Nat} (h : i < rows.length) :
    rows.getD i [] = rows[i] := by
  simp [List.getD_eq_getElem?_getD, h]

/-- facts shared by every state whose rows are `s.c2n.set i x` -/
theorem validCell_set_ne {s t : CellStore} {i : Nat} {x : List Int} (hc : t.c2n = s.c2n.set i x)
    {c : Int} (h : c.toNat ≠ i ∨ c < 0) : t.validCell c = s.validCell c := by
  rw [Bool.eq_iff_iff, validCell_iff, validCell_iff]
  simp only [c2nAt, row, CellStore.max, hc, List.length_set]
  rcases h with h | h
  · rw [getD_rows_set_ne h]
  · constructor <;> (rintro ⟨h0, _⟩; omega)

theorem cellNodes_set_ne {s t : CellStore} {i : Nat} {x : List Int} (hc : t.c2n = s.c2n.set i x)
    (hp : t.nodePer = s.nodePer) {c : Int} (h : c.toNat ≠ i) : t.cellNodes c = s.cellNodes c := by
  simp only [cellNodes, row, hc, hp, getD_rows_set_ne h]

theorem cellNodes_set_self {s t : CellStore} {i : Nat} {x : List Int} (hc : t.c2n = s.c2n.set i x)
    (hi : i < s.c2n.length) {c : Int} (h : c.toNat = i) : t.cellNodes c = x.take t.nodePer := by
  simp only [cellNodes, row, hc, h, getD_rows_set_self hi]

theorem liveRow_of_nonneg {nodes : List Int} {np : Nat} (hnp : 1 ≤ np) (h : ∀ v ∈ nodes.take np, 0 ≤ v)
    (hl : np ≤ nodes.length) : liveRow nodes = true := by
  have h0 : 0 < nodes.length := by omega
  have hmem : nodes[0] ∈ nodes.take np := by
    rw [List.mem_take_iff_getElem]
    exact ⟨0, by rw [Nat.lt_min]; omega, rfl⟩
  have := h _ hmem
  rw [liveRow_iff, List.getD_eq_getElem?_getD, List.getElem?_eq_getElem h0]
  simp only [Option.getD_some]
  omega

/-- take a free row off the list and store a cell there, given an adjacency that registers it -/
theorem pop_CellInv {t u : CellStore} (h : CellInv t) (hb : t.blank ≠ -1) {nodes : List Int}
    (hlen : nodes.length = t.sizePer) (hnn : ∀ v ∈ nodes.take t.nodePer, 0 ≤ v)
    (hnp : u.nodePer = t.nodePer) (hsp : u.sizePer = t.sizePer)
    (hc2n : u.c2n = t.c2n.set t.blank.toNat nodes) (hbl : u.blank = t.c2nAt 1 t.blank.toNat)
    (hn : u.n = t.n + 1)
    (hadj : ∀ w x, (u.adj.first w).count x =
      (t.adj.first w).count x + (if x = t.blank then (nodes.take t.nodePer).count w else 0)) :
    CellInv u ∧ 0 ≤ t.blank ∧ t.blank.toNat < t.max ∧ t.validCell t.blank = false := by
  obtain ⟨hper, hrows, ⟨l, hc, hnd, hmem⟩, hcount, hnonneg, hadj0⟩ := h
  obtain ⟨i, l', hbi, rfl, hi, hfree, hc'⟩ := hc.cons_inv hb
  have hil : i ∉ l' := (List.nodup_cons.1 hnd).1
  have htn : t.blank.toNat = i := by omega
  rw [htn] at hc2n hbl
  have hinvalid : t.validCell t.blank = false := by
    rw [Bool.eq_false_iff]
    intro hv
    obtain ⟨_, _, h3⟩ := validCell_iff.1 hv
    rw [htn] at h3
    exact h3 hfree
  have hlive : liveRow nodes = true := liveRow_of_nonneg hper.1 hnn (by omega)
  have hvalid' : u.validCell t.blank = true := by
    rw [validCell_iff]
    refine ⟨by omega, by rw [htn]; simpa [CellStore.max, hc2n] using hi, ?_⟩
    simp only [c2nAt, row, htn, hc2n, getD_rows_set_self hi]
    exact liveRow_iff.1 hlive
  refine ⟨⟨by rw [hnp, hsp]; exact hper, ?_, ⟨l', ?_, (List.nodup_cons.1 hnd).2, ?_⟩, ?_, ?_, ?_⟩,
    by omega, by rw [htn]; exact hi, hinvalid⟩
  · intro r hr
    rw [hc2n] at hr
    rw [hsp]
    rcases List.mem_or_eq_of_mem_set hr with hr | hr
    · exact hrows r hr
    · rw [hr]; exact hlen
  · rw [hc2n, hbl]
    simp only [c2nAt, row]
    exact hc'.set_of_not_mem hil
  · intro j hj
    simp only [CellStore.max, hc2n, List.length_set] at hj
    simp only [c2nAt, row, hc2n]
    by_cases hji : j = i
    · subst hji
      rw [getD_rows_set_self hi]
      have := liveRow_iff.1 hlive
      constructor
      · intro h; exact absurd h hil
      · intro h; exact absurd h this
    · rw [getD_rows_set_ne hji]
      have := hmem j hj
      simp only [List.mem_cons, hji, false_or, c2nAt, row] at this
      exact this
  · rw [hn, hc2n, List.countP_set hi, hcount]
    have h1 : liveRow t.c2n[i] = false := by
      rw [liveRow_false_iff, ← getD_rows_eq_getElem hi]; exact hfree
    simp only [h1, hlive, if_true, Bool.false_eq_true, if_false]
    omega
  · intro c hv v hvm
    by_cases hci : c.toNat = i
    · rw [cellNodes_set_self hc2n hi hci, hnp] at hvm
      exact hnn v hvm
    · rw [validCell_set_ne hc2n (Or.inl hci)] at hv
      rw [cellNodes_set_ne hc2n hnp hci] at hvm
      exact hnonneg c hv v hvm
  · intro v c
    rw [hadj v c, hadj0 v c]
    by_cases hcb : c = t.blank
    · subst hcb
      rw [cellNodes_set_self hc2n hi htn, hnp]
      simp only [hinvalid, hvalid', Bool.false_eq_true, if_false, if_true, Nat.zero_add]
    · have hci : c.toNat ≠ i ∨ c < 0 := by omega
      rw [validCell_set_ne hc2n hci]
      simp only [hcb, if_false, Nat.add_zero]
      split
      · rename_i hv
        have hci' : c.toNat ≠ i := by
          obtain ⟨h0, _, _⟩ := validCell_iff.1 hv
          omega
        rw [cellNodes_set_ne hc2n hnp hci']
      · rfl


theorem getD_rows_append_left {rows t : List (List Int)} {i : Nat} (h : i < rows.length) :
    (rows ++ t).getD i [] = rows.getD i [] := by
  simp [List.getD_eq_getElem?_getD, List.getElem?_append_left h]

theorem getD_freeRows_append {rows : List (List Int)} {sp m i : Nat} (h1 : rows.length ≤ i) (h2 : i < m) :
    ((rows ++ freeRows sp rows.length m).getD i []).getD 0 (-1) = -1 := by
  have : (rows ++ freeRows sp rows.length m).getD i [] =
      freeRow sp (if rows.length + (i - rows.length) + 1 = m then (-1 : Int)
        else ((rows.length + (i - rows.length) + 1 : Nat) : Int)) := by
    rw [List.getD_eq_getElem?_getD, List.getElem?_append_right h1, ← List.getD_eq_getElem?_getD,
      freeRows_getD (by omega)]
  rw [this]
  exact freeRow_getD0 _ _

/-- the growth branch of `ref_cell_add`, explicit chunk -/
def grown (s : CellStore) (chunk : Nat) : CellStore :=
  { s with c2n := s.c2n ++ freeRows s.sizePer s.max (s.max + chunk), blank := (s.max : Int) }

theorem grow_cases (s : CellStore) :
    (s.blank ≠ -1 ∧ s.grow = some s) ∨
    (s.blank = -1 ∧ MAX_LIMIT ≤ s.max ∧ s.grow = none) ∨
    (s.blank = -1 ∧ s.max < MAX_LIMIT ∧ ∃ chunk, 0 < chunk ∧ s.grow = some (grown s chunk)) := by
  unfold grow
  by_cases hb : s.blank = -1
  · simp only [hb, if_true]
    by_cases hm : s.max = MAX_LIMIT
    · exact Or.inr (Or.inl ⟨trivial, by omega, by simp [hm]⟩)
    · simp only [hm, if_false]
      by_cases hlt : MAX_LIMIT - s.max > 0
      · refine Or.inr (Or.inr ⟨trivial, by omega, Nat.min (Nat.max 5000 (s.max + s.max / 2)) (MAX_LIMIT - s.max), ?_, ?_⟩)
        · have : 5000 ≤ Nat.max 5000 (s.max + s.max / 2) := Nat.le_max_left _ _
          rw [Nat.lt_min]; omega
        · simp [hlt, grown]
      · exact Or.inr (Or.inl ⟨trivial, by omega, by simp [hlt]⟩)
  · exact Or.inl ⟨hb, by simp [hb]⟩

theorem grown_facts {s : CellStore} (h : CellInv s) (hb : s.blank = -1) {chunk : Nat} (hchunk : 0 < chunk) :
    CellInv (grown s chunk) ∧ (∀ c, (grown s chunk).validCell c = s.validCell c) ∧
      (∀ c, s.validCell c = true → (grown s chunk).cellNodes c = s.cellNodes c) := by
  obtain ⟨hper, hrows, ⟨l, hc, hnd, hmem⟩, hcount, hnonneg, hadj0⟩ := h
  have hl : l = [] := (hc.nil_iff).1 hb
  subst hl
  have hvalid : ∀ c, (grown s chunk).validCell c = s.validCell c := by
    intro c
    rw [Bool.eq_iff_iff, validCell_iff, validCell_iff]
    simp only [grown, c2nAt, row, CellStore.max, List.length_append, freeRows_length]
    by_cases hlt : c.toNat < s.c2n.length
    · rw [getD_rows_append_left hlt]
      constructor
      · rintro ⟨h0, _, h2⟩; exact ⟨h0, hlt, h2⟩
      · rintro ⟨h0, _, h2⟩; exact ⟨h0, by omega, h2⟩
    · constructor
      · rintro ⟨h0, h1, h2⟩
        exact absurd (getD_freeRows_append (sp := s.sizePer) (m := s.c2n.length + chunk)
          (Nat.le_of_not_lt hlt) (by omega)) h2
      · rintro ⟨_, h1, _⟩; omega
  have hnodes : ∀ c, s.validCell c = true → (grown s chunk).cellNodes c = s.cellNodes c := by
    intro c hv
    obtain ⟨_, h1, _⟩ := validCell_iff.1 hv
    simp only [cellNodes, row, grown, getD_rows_append_left h1]
  refine ⟨⟨hper, ?_, ⟨List.range' s.max chunk, ?_, List.nodup_range', ?_⟩, ?_, ?_, ?_⟩, hvalid, hnodes⟩
  · intro r hr
    simp only [grown, List.mem_append] at hr
    rcases hr with hr | hr
    · exact hrows r hr
    · obtain ⟨k, hk, rfl⟩ := List.mem_iff_getElem.1 hr
      simp only [freeRows, List.getElem_map]
      exact freeRow_length hper.2.2.1 _
  · exact cellChain_freeRows s.c2n s.sizePer (s.max + chunk) chunk s.max rfl (Nat.le_refl _) hchunk
  · intro i hi
    simp only [grown, CellStore.max, List.length_append, freeRows_length] at hi
    simp only [List.mem_range'_1, grown, c2nAt, row]
    by_cases hlt : i < s.max
    · have h1 := hmem i hlt
      simp only [List.not_mem_nil, false_iff, c2nAt, row] at h1
      simp only [CellStore.max] at hlt
      rw [getD_rows_append_left hlt]
      constructor
      · intro h; simp only [CellStore.max] at h; omega
      · intro h; exact absurd h h1
    · simp only [CellStore.max] at hlt ⊢
      have := getD_freeRows_append (rows := s.c2n) (sp := s.sizePer) (m := s.c2n.length + chunk)
        (i := i) (by omega) (by omega)
      simp only [this, iff_true]
      omega
  · simp only [grown, List.countP_append]
    rw [hcount]
    have : (freeRows s.sizePer s.max (s.max + chunk)).countP liveRow = 0 := by
      rw [List.countP_eq_zero]
      intro a ha
      obtain ⟨k, hk, rfl⟩ := List.mem_iff_getElem.1 ha
      simp only [freeRows, List.getElem_map, Bool.not_eq_true]
      exact liveRow_false_iff.2 (freeRow_getD0 _ _)
    omega
  · intro c hv v hvm
    rw [hvalid c] at hv
    rw [hnodes c hv] at hvm
    exact hnonneg c hv v hvm
  · intro v c
    rw [hvalid c]
    show (s.adj.first v).count c = _
    rw [hadj0 v c]
    split
    · rename_i hv; rw [hnodes c hv]
    · rfl

/-- `ref_cell_create` -/
theorem create_CellInv (t : Refine.Gen.CellTables.CellType) (h : 2 ≤ t.nodePer) : CellInv (create t) := by
  have hsp : 2 ≤ t.nodePer + (if t.lastNodeIsId then 1 else 0) := by omega
  refine ⟨⟨by simp only [create]; omega, by simp only [create]; omega, hsp, by simp only [create]; split <;> omega⟩, ?_,
    ⟨List.range' 0 100, ?_, List.nodup_range', ?_⟩, ?_, ?_, ?_⟩
  · intro r hr
    simp only [create] at hr ⊢
    obtain ⟨k, hk, rfl⟩ := List.mem_iff_getElem.1 hr
    simp only [freeRows, List.getElem_map]
    exact freeRow_length hsp _
  · have := cellChain_freeRows [] (t.nodePer + (if t.lastNodeIsId then 1 else 0)) 100 100 0 (by omega)
      (by simp) (by omega)
    simpa [create] using this
  · intro i hi
    have hi' : i < 100 := by simpa [create, CellStore.max, freeRows_length] using hi
    have := getD_freeRows_append (rows := []) (sp := t.nodePer + (if t.lastNodeIsId then 1 else 0))
      (m := 100) (i := i) (by simp) hi'
    simp only [List.nil_append, List.length_nil] at this
    simp only [create, c2nAt, row, this, List.mem_range'_1, iff_true]
    omega
  · simp only [create]
    have : (freeRows (t.nodePer + (if t.lastNodeIsId then 1 else 0)) 0 100).countP liveRow = 0 := by
      rw [List.countP_eq_zero]
      intro a ha
      obtain ⟨k, hk, rfl⟩ := List.mem_iff_getElem.1 ha
      simp only [freeRows, List.getElem_map, Bool.not_eq_true]
      exact liveRow_false_iff.2 (freeRow_getD0 _ _)
    rw [this]; rfl
  · intro c hv
    exfalso
    obtain ⟨h0, h1, h2⟩ := validCell_iff.1 hv
    have h1' : c.toNat < 100 := by simpa [create, CellStore.max, freeRows_length] using h1
    have := getD_freeRows_append (rows := []) (sp := t.nodePer + (if t.lastNodeIsId then 1 else 0))
      (m := 100) (i := c.toNat) (by simp) h1'
    simp only [List.nil_append, List.length_nil] at this
    exact h2 (by simpa [create, c2nAt, row] using this)
  · intro v c
    have hf : (create t).adj.first v = [] := by
      simp only [create, Adj.create, Adj.first]
      split
      · rfl
      · have := Adj.getD_append_replicate [] 10 v.toNat
        simpa using this
    have hnv : (create t).validCell c = false := by
      rw [Bool.eq_false_iff]
      intro hv
      obtain ⟨h0, h1, h2⟩ := validCell_iff.1 hv
      have h1' : c.toNat < 100 := by simpa [create, CellStore.max, freeRows_length] using h1
      have := getD_freeRows_append (rows := []) (sp := t.nodePer + (if t.lastNodeIsId then 1 else 0))
        (m := 100) (i := c.toNat) (by simp) h1'
      simp only [List.nil_append, List.length_nil] at this
      exact h2 (by simpa [create, c2nAt, row] using this)
    rw [hf, hnv]; simp


/-! ### `ref_cell_add` -/

/-- the state after a successful `ref_cell_add` on a store `t` whose free list is not empty -/
def addResult (t : CellStore) (nodes : List Int) : CellStore :=
  { t with blank := t.c2nAt 1 t.blank.toNat, c2n := t.c2n.set t.blank.toNat nodes,
           adj := (adjAddAll t.adj (nodes.take t.nodePer) t.blank).2, n := t.n + 1 }

theorem add_eq {s t : CellStore} {nodes : List Int} (hg : s.grow = some t)
    (hnn : ∀ v ∈ nodes.take t.nodePer, 0 ≤ v) :
    s.add nodes = (.ok, t.blank, addResult t nodes) := by
  have hok := (adjAddAll_spec (nodes.take t.nodePer) t.adj t.blank hnn).1
  simp only [add, hg, hok, if_true, addResult]

theorem add_none {s : CellStore} {nodes : List Int} (hg : s.grow = none) :
    s.add nodes = (.failure, -1, s) := by
  simp only [add, hg]

theorem add_of_grow_CellInv {s t : CellStore} {nodes : List Int} (hg : s.grow = some t) (ht : CellInv t)
    (hb : t.blank ≠ -1) (hlen : nodes.length = t.sizePer) (hnn : ∀ v ∈ nodes.take t.nodePer, 0 ≤ v) :
    (s.add nodes).1 = .ok ∧ CellInv (s.add nodes).2.2 ∧ (s.add nodes).2.1 = t.blank ∧
      t.validCell t.blank = false ∧ 0 ≤ t.blank ∧
      (s.add nodes).2.2.c2n = t.c2n.set t.blank.toNat nodes ∧ (s.add nodes).2.2.nodePer = t.nodePer := by
  rw [add_eq hg hnn]
  obtain ⟨h1, h2, _, h4⟩ := pop_CellInv (u := addResult t nodes)
    ht hb hlen hnn rfl rfl rfl rfl rfl (adjAddAll_spec (nodes.take t.nodePer) t.adj t.blank hnn).2
  exact ⟨rfl, h1, rfl, h4, h2, rfl, rfl⟩

/-- `ref_cell_add` with `size_per` entries whose nodes are non-negative keeps the invariant; it succeeds
    unless the store is at the `REF_INT_MAX/4` growth limit (then `REF_FAILURE`, state unchanged) -/
theorem add_CellInv {s : CellStore} (h : CellInv s) {nodes : List Int} (hlen : nodes.length = s.sizePer)
    (hnn : ∀ v ∈ nodes.take s.nodePer, 0 ≤ v) :
    CellInv (s.add nodes).2.2 ∧ (s.max < MAX_LIMIT → (s.add nodes).1 = .ok) := by
  rcases grow_cases s with ⟨hb, hg⟩ | ⟨hb, hm, hg⟩ | ⟨hb, hm, chunk, hchunk, hg⟩
  · obtain ⟨h1, h2, _⟩ := add_of_grow_CellInv hg h hb hlen hnn
    exact ⟨h2, fun _ => h1⟩
  · rw [add_none hg]
    exact ⟨h, fun hlt => by omega⟩
  · obtain ⟨ht, _, _⟩ := grown_facts h hb hchunk
    have hbt : (grown s chunk).blank ≠ -1 := by simp only [grown]; omega
    obtain ⟨h1, h2, _⟩ := add_of_grow_CellInv (t := grown s chunk) hg ht hbt hlen hnn
    exact ⟨h2, fun _ => h1⟩

/-! ### `ref_cell_remove` -/

theorem getD_set_set_0 {r : List Int} {b : Int} (h : 2 ≤ r.length) :
    ((r.set 0 (-1)).set 1 b).getD 0 (-1) = -1 ∧ ((r.set 0 (-1)).set 1 b).getD 1 (-1) = b := by
  match r, h with
  | a :: c :: rest, _ => simp

/-- put a valid cell's row on the free list, given an adjacency that unregisters it -/
theorem push_CellInv {t u : CellStore} (h : CellInv t) {cell : Int} (hv : t.validCell cell = true)
    (hnp : u.nodePer = t.nodePer) (hsp : u.sizePer = t.sizePer)
    (hc2n : u.c2n = t.c2n.set cell.toNat (((t.row cell.toNat).set 0 (-1)).set 1 t.blank))
    (hbl : u.blank = cell) (hn : u.n = t.n - 1)
    (hadj : ∀ w x, (u.adj.first w).count x =
      (t.adj.first w).count x - (if x = cell then (t.cellNodes cell).count w else 0)) :
    CellInv u := by
  obtain ⟨hper, hrows, ⟨l, hc, hnd, hmem⟩, hcount, hnonneg, hadj0⟩ := h
  obtain ⟨h0, hlt, hlive⟩ := validCell_iff.1 hv
  have hi : cell.toNat < t.c2n.length := hlt
  have hcl : cell.toNat ∉ l := fun hm => hlive ((hmem _ hlt).1 hm)
  have hrowlen : (t.row cell.toNat).length = t.sizePer := by
    simp only [row, getD_rows_eq_getElem hi]
    exact hrows _ (List.getElem_mem hi)
  obtain ⟨hg0, hg1⟩ := getD_set_set_0 (r := t.row cell.toNat) (b := t.blank) (by omega)
  have hinvalid' : u.validCell cell = false := by
    rw [Bool.eq_false_iff]
    intro hv'
    obtain ⟨_, _, h3⟩ := validCell_iff.1 hv'
    simp only [c2nAt, row, hc2n, getD_rows_set_self hi] at h3
    exact h3 hg0
  refine ⟨by rw [hnp, hsp]; exact hper, ?_, ⟨cell.toNat :: l, ?_, List.nodup_cons.2 ⟨hcl, hnd⟩, ?_⟩, ?_, ?_, ?_⟩
  · intro r hr
    rw [hc2n] at hr
    rw [hsp]
    rcases List.mem_or_eq_of_mem_set hr with hr | hr
    · exact hrows r hr
    · rw [hr]; simp only [List.length_set]; exact hrowlen
  · rw [hc2n, hbl]
    have hcast : cell = ((cell.toNat : Nat) : Int) := by omega
    rw [hcast]
    simp only [Int.toNat_natCast]
    refine .cons (by simpa using hi) (by rw [getD_rows_set_self hi]; exact hg0) ?_
    rw [getD_rows_set_self hi, hg1]
    exact hc.set_of_not_mem hcl
  · intro j hj
    simp only [CellStore.max, hc2n, List.length_set] at hj
    simp only [c2nAt, row, hc2n]
    by_cases hji : j = cell.toNat
    · subst hji
      rw [getD_rows_set_self hi]
      exact ⟨fun _ => hg0, fun _ => List.mem_cons_self⟩
    · rw [getD_rows_set_ne hji]
      have := hmem j hj
      simp only [c2nAt, row] at this
      simp only [List.mem_cons, hji, false_or]
      exact this
  · rw [hn, hc2n, List.countP_set hi, hcount]
    have h1 : liveRow t.c2n[cell.toNat] = true := by
      rw [liveRow_iff, ← getD_rows_eq_getElem hi]; exact hlive
    have h2 : liveRow (((t.row cell.toNat).set 0 (-1)).set 1 t.blank) = false := liveRow_false_iff.2 hg0
    have h3 : 0 < t.c2n.countP liveRow := List.countP_pos_iff.2 ⟨_, List.getElem_mem hi, h1⟩
    simp only [h1, h2, if_true, Bool.false_eq_true, if_false]
    omega
  · intro c hvc v hvm
    have hci : c.toNat ≠ cell.toNat := by
      intro e
      have : c = cell := by
        obtain ⟨hc0, _, _⟩ := validCell_iff.1 hvc
        omega
      rw [this, hinvalid'] at hvc
      exact absurd hvc (by simp)
    rw [validCell_set_ne hc2n (Or.inl hci)] at hvc
    rw [cellNodes_set_ne hc2n hnp hci] at hvm
    exact hnonneg c hvc v hvm
  · intro v c
    rw [hadj v c, hadj0 v c]
    by_cases hcb : c = cell
    · subst hcb
      simp only [hv, hinvalid', if_true, Bool.false_eq_true, if_false, Nat.sub_self]
    · have hci : c.toNat ≠ cell.toNat ∨ c < 0 := by omega
      rw [validCell_set_ne hc2n hci]
      simp only [hcb, if_false, Nat.sub_zero]
      split
      · rename_i hvc
        have hci' : c.toNat ≠ cell.toNat := by
          obtain ⟨hc0, _, _⟩ := validCell_iff.1 hvc
          omega
        rw [cellNodes_set_ne hc2n hnp hci']
      · rfl

theorem remove_eq {s : CellStore} (h : CellInv s) {cell : Int} (hv : s.validCell cell = true) :
    s.remove cell = (.ok,
      { s with n := s.n - 1, adj := (adjRemoveAll s.adj (s.cellNodes cell) cell).2,
               c2n := s.c2n.set cell.toNat (((s.row cell.toNat).set 0 (-1)).set 1 s.blank),
               blank := cell }) := by
  have hpre : ∀ w, (s.cellNodes cell).count w ≤ (s.adj.first w).count cell := by
    intro w; rw [h.adj w cell, hv]; simp
  have hok := (adjRemoveAll_spec (s.cellNodes cell) s.adj cell hpre).1
  simp only [remove, hv, Bool.not_true, Bool.false_eq_true, if_false]
  simp only [cellNodes, row] at hok
  simp only [row, hok, ne_eq, not_true_eq_false, if_false]
  rfl

theorem remove_invalid {s : CellStore} {cell : Int} (hv : s.validCell cell = false) :
    s.remove cell = (.invalid, s) := by
  simp [remove, hv]

/-- `ref_cell_remove` of a valid cell succeeds and keeps the invariant -/
theorem remove_CellInv {s : CellStore} (h : CellInv s) {cell : Int} (hv : s.validCell cell = true) :
    (s.remove cell).1 = .ok ∧ CellInv (s.remove cell).2 := by
  rw [remove_eq h hv]
  refine ⟨rfl, ?_⟩
  have hpre : ∀ w, (s.cellNodes cell).count w ≤ (s.adj.first w).count cell := by
    intro w; rw [h.adj w cell, hv]; simp
  exact push_CellInv h hv rfl rfl rfl rfl rfl (adjRemoveAll_spec (s.cellNodes cell) s.adj cell hpre).2


/-! ### `ref_sort_unique_int` and `ref_cell_with` -/

theorem mem_insertU {x y : Int} : ∀ {l : List Int}, y ∈ insertU x l ↔ y = x ∨ y ∈ l
  | [] => by simp [insertU]
  | z :: zs => by
    unfold insertU
    split
    · simp
    · split
      · rename_i h; subst h; simp
      · rw [List.mem_cons, mem_insertU (l := zs), List.mem_cons]
        constructor
        · rintro (h | h | h)
          · exact Or.inr (Or.inl h)
          · exact Or.inl h
          · exact Or.inr (Or.inr h)
        · rintro (h | h | h)
          · exact Or.inr (Or.inl h)
          · exact Or.inl h
          · exact Or.inr (Or.inr h)

theorem insertU_sorted {x : Int} : ∀ {l : List Int}, l.Pairwise (· < ·) → (insertU x l).Pairwise (· < ·)
  | [], _ => by simp [insertU]
  | z :: zs, h => by
    obtain ⟨h1, h2⟩ := List.pairwise_cons.1 h
    unfold insertU
    split
    · rename_i hlt
      refine List.pairwise_cons.2 ⟨?_, h⟩
      intro a ha
      rcases List.mem_cons.1 ha with rfl | ha
      · exact hlt
      · have := h1 a ha; omega
    · split
      · exact h
      · rename_i hnlt hne
        refine List.pairwise_cons.2 ⟨?_, insertU_sorted h2⟩
        intro a ha
        rcases mem_insertU.1 ha with rfl | ha
        · omega
        · exact h1 a ha

theorem mem_uniq {x : Int} : ∀ {l : List Int}, x ∈ uniq l ↔ x ∈ l
  | [] => by simp [uniq]
  | y :: ys => by
    have ih := mem_uniq (x := x) (l := ys)
    simp only [uniq, List.foldr_cons] at ih ⊢
    rw [mem_insertU, ih, List.mem_cons]

theorem uniq_sorted : ∀ (l : List Int), (uniq l).Pairwise (· < ·)
  | [] => by simp [uniq]
  | y :: ys => by
    have ih := uniq_sorted ys
    simp only [uniq, List.foldr_cons] at ih ⊢
    exact insertU_sorted ih

theorem sorted_ext : ∀ {a b : List Int}, a.Pairwise (· < ·) → b.Pairwise (· < ·) →
    (∀ x, x ∈ a ↔ x ∈ b) → a = b
  | [], [], _, _, _ => rfl
  | [], y :: _, _, _, h => by have := (h y).2 (by simp); simp at this
  | x :: _, [], _, _, h => by have := (h x).1 (by simp); simp at this
  | x :: a', y :: b', ha, hb, h => by
    obtain ⟨ha1, ha2⟩ := List.pairwise_cons.1 ha
    obtain ⟨hb1, hb2⟩ := List.pairwise_cons.1 hb
    have hxy : x = y := by
      have h1 := (h x).1 (by simp)
      have h2 := (h y).2 (by simp)
      rcases List.mem_cons.1 h1 with e | h1
      · exact e
      · rcases List.mem_cons.1 h2 with e | h2
        · exact e.symm
        · have := hb1 x h1; have := ha1 y h2; omega
    subst hxy
    congr 1
    apply sorted_ext ha2 hb2
    intro z
    constructor
    · intro hz
      have := (h z).1 (List.mem_cons_of_mem _ hz)
      rcases List.mem_cons.1 this with e | h'
      · have := ha1 z hz; omega
      · exact h'
    · intro hz
      have := (h z).2 (List.mem_cons_of_mem _ hz)
      rcases List.mem_cons.1 this with e | h'
      · have := hb1 z hz; omega
      · exact h'

/-- `ref_sort_unique_int` is a canonical form of the *set* of entries -/
theorem uniq_eq_iff {a b : List Int} : uniq a = uniq b ↔ ∀ x, x ∈ a ↔ x ∈ b := by
  constructor
  · intro h x; rw [← mem_uniq (l := a), h, mem_uniq]
  · intro h
    apply sorted_ext (uniq_sorted a) (uniq_sorted b)
    intro x; rw [mem_uniq, mem_uniq]; exact h x

theorem mem_first_iff {s : CellStore} (h : CellInv s) {v c : Int} :
    c ∈ s.adj.first v ↔ s.validCell c = true ∧ v ∈ s.cellNodes c := by
  rw [← List.count_pos_iff, h.adj v c]
  split
  · rename_i hv; rw [List.count_pos_iff]; simp [hv]
  · rename_i hv; simp [hv]

theorem withLoop_spec {s : CellStore} {target : List Int} :
    ∀ (l : List Int), (∀ c ∈ l, s.validCell c = true) →
      (∃ c, withLoop s target l = (.ok, c) ∧ c ∈ l ∧ uniq (s.cellNodes c) = target) ∨
      (withLoop s target l = (.not_found, -1) ∧ ∀ c ∈ l, uniq (s.cellNodes c) ≠ target)
  | [], _ => Or.inr ⟨rfl, by simp⟩
  | ref :: rest, hl => by
    have hv : s.validCell ref = true := hl ref (by simp)
    unfold withLoop
    simp only [hv, Bool.not_true, Bool.false_eq_true, if_false]
    split
    · rename_i heq
      exact Or.inl ⟨ref, rfl, by simp, heq⟩
    · rename_i hne
      rcases withLoop_spec rest (fun c hc => hl c (by simp [hc])) with ⟨c, h1, h2, h3⟩ | ⟨h1, h2⟩
      · exact Or.inl ⟨c, h1, by simp [h2], h3⟩
      · refine Or.inr ⟨h1, ?_⟩
        intro c hc
        rcases List.mem_cons.1 hc with rfl | hc
        · exact hne
        · exact h2 c hc

/-- `ref_cell_with`: finds a valid cell with the same vertex *set* iff one exists -/
theorem with_spec {s : CellStore} (h : CellInv s) {nodes : List Int} (hlen : nodes.length = s.nodePer) :
    (∃ c, s.withNodes nodes = (.ok, c) ∧ s.validCell c = true ∧ ∀ x, x ∈ s.cellNodes c ↔ x ∈ nodes) ∨
    (s.withNodes nodes = (.not_found, -1) ∧
      ¬ ∃ c, s.validCell c = true ∧ ∀ x, x ∈ s.cellNodes c ↔ x ∈ nodes) := by
  have htake : nodes.take s.nodePer = nodes := by rw [← hlen]; exact List.take_length
  have hvalid : ∀ c ∈ s.adj.first (nodes.getD 0 (-1)), s.validCell c = true :=
    fun c hc => ((mem_first_iff h).1 hc).1
  unfold withNodes
  rw [htake]
  rcases withLoop_spec (target := uniq nodes) _ hvalid with ⟨c, h1, h2, h3⟩ | ⟨h1, h2⟩
  · exact Or.inl ⟨c, h1, hvalid c h2, uniq_eq_iff.1 h3⟩
  · refine Or.inr ⟨h1, ?_⟩
    rintro ⟨c, hv, hset⟩
    have hpos : 0 < nodes.length := by rw [hlen]; exact h.per.1
    have h0 : nodes.getD 0 (-1) ∈ nodes := by
      rw [List.getD_eq_getElem?_getD, List.getElem?_eq_getElem hpos]
      exact List.getElem_mem hpos
    have hc : c ∈ s.adj.first (nodes.getD 0 (-1)) := (mem_first_iff h).2 ⟨hv, (hset _).2 h0⟩
    exact h2 c hc (uniq_eq_iff.2 hset)


/-! ### replacing one node of one cell (`ref_adj_remove; c2n[k] = new; ref_adj_add`) -/

theorem row_length {s : CellStore} (h : CellInv s) {c : Nat} (hc : c < s.max) : (s.row c).length = s.sizePer := by
  simp only [row, getD_rows_eq_getElem hc]
  exact h.rows _ (List.getElem_mem hc)

theorem cellNodes_length {s : CellStore} (h : CellInv s) {c : Int} (hv : s.validCell c = true) :
    (s.cellNodes c).length = s.nodePer := by
  obtain ⟨_, hlt, _⟩ := validCell_iff.1 hv
  simp only [cellNodes, List.length_take, row_length h hlt]
  have := h.per.2.1
  omega

theorem cellNodes_getElem {s : CellStore} (h : CellInv s) {c : Int} (hv : s.validCell c = true) {k : Nat}
    (hk : k < s.nodePer) : ∃ hk' : k < (s.cellNodes c).length, (s.cellNodes c)[k] = s.c2nAt k c.toNat := by
  have hl := cellNodes_length h hv
  refine ⟨by omega, ?_⟩
  obtain ⟨_, hlt, _⟩ := validCell_iff.1 hv
  have hrl := row_length h hlt
  have hkr : k < (s.row c.toNat).length := by have := h.per.2.1; omega
  simp only [cellNodes, List.getElem_take, c2nAt]
  rw [List.getD_eq_getElem?_getD, List.getElem?_eq_getElem hkr]
  rfl

theorem setAt_CellInv {t u : CellStore} (h : CellInv t) {cell : Int} (hv : t.validCell cell = true)
    {k : Nat} (hk : k < t.nodePer) {new : Int} (hnew : 0 ≤ new)
    (hnp : u.nodePer = t.nodePer) (hsp : u.sizePer = t.sizePer)
    (hc2n : u.c2n = t.c2n.set cell.toNat ((t.row cell.toNat).set k new))
    (hbl : u.blank = t.blank) (hn : u.n = t.n)
    (hadj : ∀ w x, (u.adj.first w).count x =
      (t.adj.first w).count x - (if w = t.c2nAt k cell.toNat ∧ x = cell then 1 else 0)
        + (if w = new ∧ x = cell then 1 else 0)) :
    CellInv u ∧ u.validCell cell = true ∧ u.cellNodes cell = (t.cellNodes cell).set k new := by
  have hfull := h
  obtain ⟨hper, hrows, ⟨l, hc, hnd, hmem⟩, hcount, hnonneg, hadj0⟩ := h
  obtain ⟨h0, hlt, hlive⟩ := validCell_iff.1 hv
  have hi : cell.toNat < t.c2n.length := hlt
  have hcl : cell.toNat ∉ l := fun hm => hlive ((hmem _ hlt).1 hm)
  have hrl := row_length hfull hlt
  have hkr : k < (t.row cell.toNat).length := by omega
  -- the first entry of the new row is still not REF_EMPTY
  have hlive' : ((t.row cell.toNat).set k new).getD 0 (-1) ≠ -1 := by
    by_cases hk0 : k = 0
    · subst hk0
      rw [List.getD_eq_getElem?_getD, List.getElem?_set_self hkr]
      simp only [Option.getD_some]; omega
    · rw [List.getD_eq_getElem?_getD, List.getElem?_set_ne hk0, ← List.getD_eq_getElem?_getD]
      exact hlive
  have hvalid' : u.validCell cell = true := by
    rw [validCell_iff]
    refine ⟨h0, by simpa [CellStore.max, hc2n] using hi, ?_⟩
    simp only [c2nAt, row, hc2n, getD_rows_set_self hi]
    exact hlive'
  have hnodes' : u.cellNodes cell = (t.cellNodes cell).set k new := by
    rw [cellNodes_set_self hc2n hi rfl, hnp, List.take_set]
    rfl
  refine ⟨⟨by rw [hnp, hsp]; exact hper, ?_, ⟨l, ?_, hnd, ?_⟩, ?_, ?_, ?_⟩, hvalid', hnodes'⟩
  · intro r hr
    rw [hc2n] at hr
    rw [hsp]
    rcases List.mem_or_eq_of_mem_set hr with hr | hr
    · exact hrows r hr
    · rw [hr, List.length_set]; exact hrl
  · rw [hc2n, hbl]; exact hc.set_of_not_mem hcl
  · intro j hj
    simp only [CellStore.max, hc2n, List.length_set] at hj
    simp only [c2nAt, row, hc2n]
    by_cases hji : j = cell.toNat
    · subst hji
      rw [getD_rows_set_self hi]
      exact ⟨fun hm => absurd hm hcl, fun he => absurd he hlive'⟩
    · rw [getD_rows_set_ne hji]
      exact hmem j hj
  · rw [hn, hc2n, List.countP_set hi, hcount]
    have h1 : liveRow t.c2n[cell.toNat] = true := by
      rw [liveRow_iff, ← getD_rows_eq_getElem hi]; exact hlive
    have h2 : liveRow ((t.row cell.toNat).set k new) = true := liveRow_iff.2 hlive'
    have h3 : 0 < t.c2n.countP liveRow := List.countP_pos_iff.2 ⟨_, List.getElem_mem hi, h1⟩
    simp only [h1, h2, if_true]
    omega
  · intro c hvc v hvm
    by_cases hci : c.toNat = cell.toNat
    · have : c = cell := by
        obtain ⟨hc0, _, _⟩ := validCell_iff.1 hvc
        omega
      subst this
      rw [hnodes'] at hvm
      rcases List.mem_or_eq_of_mem_set hvm with hvm | hvm
      · exact hnonneg c hv v hvm
      · omega
    · rw [validCell_set_ne hc2n (Or.inl hci)] at hvc
      rw [cellNodes_set_ne hc2n hnp hci] at hvm
      exact hnonneg c hvc v hvm
  · intro v c
    rw [hadj v c, hadj0 v c]
    by_cases hcb : c = cell
    · subst hcb
      obtain ⟨hk', hget⟩ := cellNodes_getElem hfull hv hk
      rw [hnodes', List.count_set hk', hget]
      simp only [hv, hvalid', if_true, and_true, beq_iff_eq]
      have e1 : (t.c2nAt k c.toNat = v) ↔ (v = t.c2nAt k c.toNat) := eq_comm
      have e2 : (new = v) ↔ (v = new) := eq_comm
      simp only [e1, e2]
    · have hci : c.toNat ≠ cell.toNat ∨ c < 0 := by omega
      rw [validCell_set_ne hc2n hci]
      simp only [hcb, and_false, if_false, Nat.sub_zero, Nat.add_zero]
      split
      · rename_i hvc
        have hci' : c.toNat ≠ cell.toNat := by
          obtain ⟨hc0, _, _⟩ := validCell_iff.1 hvc
          omega
        rw [cellNodes_set_ne hc2n hnp hci']
      · rfl

theorem count_ite_cons {x c : Int} {L : List Int} (p : Prop) [Decidable p] :
    (if p then c :: L else L).count x = L.count x + (if p ∧ x = c then 1 else 0) := by
  by_cases hp : p <;> by_cases hx : x = c
  · subst hx; simp [hp]
  · simp [hp, hx, List.count_cons_of_ne (Ne.symm hx)]
  · simp [hp]
  · simp [hp]

theorem count_ite_erase {x c : Int} {L : List Int} (p : Prop) [Decidable p] :
    (if p then L.erase c else L).count x = L.count x - (if p ∧ x = c then 1 else 0) := by
  by_cases hp : p <;> by_cases hx : x = c
  · subst hx; simp [hp]
  · simp [hp, hx, List.count_erase_of_ne hx]
  · simp [hp]
  · simp [hp]

/-- the state after one replace step -/
def replaced (s : CellStore) (cell : Int) (k : Nat) (new : Int) : CellStore :=
  { s with adj := ((s.adj.remove (s.c2nAt k cell.toNat) cell).2.add new cell).2,
           c2n := s.c2n.set cell.toNat ((s.row cell.toNat).set k new) }

theorem replaced_spec {s : CellStore} (h : CellInv s) {cell : Int} (hv : s.validCell cell = true)
    {k : Nat} (hk : k < s.nodePer) {new : Int} (hnew : 0 ≤ new) :
    (s.adj.remove (s.c2nAt k cell.toNat) cell).1 = .ok ∧
    ((s.adj.remove (s.c2nAt k cell.toNat) cell).2.add new cell).1 = .ok ∧
    CellInv (replaced s cell k new) ∧ (replaced s cell k new).validCell cell = true ∧
    (replaced s cell k new).cellNodes cell = (s.cellNodes cell).set k new ∧
    (∀ w, (replaced s cell k new).adj.first w =
      if w = new then cell :: (if w = s.c2nAt k cell.toNat then (s.adj.first w).erase cell else s.adj.first w)
      else (if w = s.c2nAt k cell.toNat then (s.adj.first w).erase cell else s.adj.first w)) := by
  obtain ⟨hk', hget⟩ := cellNodes_getElem h hv hk
  have hmem : cell ∈ s.adj.first (s.c2nAt k cell.toNat) :=
    (mem_first_iff h).2 ⟨hv, by rw [← hget]; exact List.getElem_mem hk'⟩
  obtain ⟨hok1, hf1⟩ := Adj.remove_spec s.adj hmem
  obtain ⟨hok2, hf2⟩ := Adj.add_spec (s.adj.remove (s.c2nAt k cell.toNat) cell).2 hnew cell
  have hfirst : ∀ w, (replaced s cell k new).adj.first w =
      if w = new then cell :: (if w = s.c2nAt k cell.toNat then (s.adj.first w).erase cell else s.adj.first w)
      else (if w = s.c2nAt k cell.toNat then (s.adj.first w).erase cell else s.adj.first w) := by
    intro w
    show ((s.adj.remove (s.c2nAt k cell.toNat) cell).2.add new cell).2.first w = _
    rw [hf2 w, hf1 w]
    by_cases hwo : w = s.c2nAt k cell.toNat
    · subst hwo; simp
    · simp [hwo]
  obtain ⟨hinv, hval, hnodes⟩ := setAt_CellInv (u := replaced s cell k new) h hv hk hnew rfl rfl rfl rfl rfl (by
    intro w x
    rw [hfirst w, count_ite_cons, count_ite_erase])
  exact ⟨hok1, hok2, hinv, hval, hnodes, hfirst⟩


/-! ### `ref_cell_replace_node` -/

/-- substitute `old ↦ new` in the node entries `k ≤ j < node_per` of a row -/
def substFrom (np : Nat) (old new : Int) (k : Nat) (r : List Int) : List Int :=
  r.mapIdx fun j v => if k ≤ j ∧ j < np ∧ v = old then new else v

/-- substitute `old ↦ new` in the node entries of a row (the id entry is left alone) -/
def substRow (np : Nat) (old new : Int) (r : List Int) : List Int := substFrom np old new 0 r

theorem substFrom_set_hit {np : Nat} {old new : Int} {k : Nat} {r : List Int} (hk : k < r.length)
    (hnp : k < np) (hget : r.getD k (-1) = old) :
    substFrom np old new (k + 1) (r.set k new) = substFrom np old new k r := by
  apply List.ext_getElem?
  intro j
  simp only [substFrom, List.getElem?_mapIdx, List.getElem?_set]
  by_cases hkj : k = j
  · subst hkj
    have hr : r[k]? = some old := by
      rw [List.getElem?_eq_getElem hk]
      rw [List.getD_eq_getElem?_getD, List.getElem?_eq_getElem hk] at hget
      simpa using hget
    simp only [if_true, hk, hr, Option.map_some]
    have h1 : ¬ (k + 1 ≤ k) := by omega
    simp [h1, hnp]
  · simp only [hkj, if_false]
    cases hr : r[j]? with
    | none => rfl
    | some v =>
      simp only [Option.map_some]
      have : (k + 1 ≤ j) ↔ (k ≤ j) := by omega
      simp only [this]

theorem substFrom_skip {np : Nat} {old new : Int} {k : Nat} {r : List Int}
    (hget : r.getD k (-1) ≠ old ∨ r.length ≤ k) :
    substFrom np old new (k + 1) r = substFrom np old new k r := by
  apply List.ext_getElem?
  intro j
  simp only [substFrom, List.getElem?_mapIdx]
  cases hr : r[j]? with
  | none => rfl
  | some v =>
    simp only [Option.map_some]
    by_cases hkj : k = j
    · subst hkj
      have hlen : k < r.length := (List.getElem?_eq_some_iff.1 hr).1
      have hv : v ≠ old := by
        rcases hget with h | h
        · rw [List.getD_eq_getElem?_getD, hr] at h; simpa using h
        · omega
      simp [hv]
    · have : (k + 1 ≤ j) ↔ (k ≤ j) := by omega
      simp only [this]

theorem substFrom_top {np : Nat} {old new : Int} {k : Nat} {r : List Int} (h : np ≤ k) :
    substFrom np old new k r = r := by
  apply List.ext_getElem?
  intro j
  simp only [substFrom, List.getElem?_mapIdx]
  cases hr : r[j]? with
  | none => rfl
  | some v =>
    have : ¬ (k ≤ j ∧ j < np ∧ v = old) := by omega
    simp [this]

/-- same static shape and same set of valid cells -/
structure SameShape (r s : CellStore) : Prop where
  np : r.nodePer = s.nodePer
  sp : r.sizePer = s.sizePer
  blank : r.blank = s.blank
  n : r.n = s.n
  e2n : r.e2n = s.e2n
  max : r.max = s.max
  valid : ∀ c, r.validCell c = s.validCell c

theorem SameShape.refl (s : CellStore) : SameShape s s := ⟨rfl, rfl, rfl, rfl, rfl, rfl, fun _ => rfl⟩

theorem SameShape.trans {a b c : CellStore} (h1 : SameShape a b) (h2 : SameShape b c) : SameShape a c :=
  ⟨h1.np.trans h2.np, h1.sp.trans h2.sp, h1.blank.trans h2.blank, h1.n.trans h2.n, h1.e2n.trans h2.e2n,
    h1.max.trans h2.max, fun c => (h1.valid c).trans (h2.valid c)⟩

theorem replaced_shape {s : CellStore} (h : CellInv s) {cell : Int} (hv : s.validCell cell = true)
    {k : Nat} (hk : k < s.nodePer) {new : Int} (hnew : 0 ≤ new) :
    SameShape (replaced s cell k new) s ∧
      (∀ c, c ≠ cell.toNat → (replaced s cell k new).row c = s.row c) ∧
      (replaced s cell k new).row cell.toNat = (s.row cell.toNat).set k new := by
  obtain ⟨_, _, _, hval, _, _⟩ := replaced_spec h hv hk hnew
  obtain ⟨h0, hlt, _⟩ := validCell_iff.1 hv
  refine ⟨⟨rfl, rfl, rfl, rfl, rfl, by simp [replaced, CellStore.max], ?_⟩, ?_, ?_⟩
  · intro c
    by_cases hc : c = cell
    · subst hc; rw [hval, hv]
    · exact validCell_set_ne (t := replaced s cell k new) (s := s) rfl (by omega)
  · intro c hc
    simp only [replaced, row, getD_rows_set_ne hc]
  · simp only [replaced, row]
    exact getD_rows_set_self hlt

theorem replaceInCell_spec {cell old new : Int} (hon : old ≠ new) (hnew : 0 ≤ new) :
    ∀ (todo k : Nat) (s : CellStore), CellInv s → s.validCell cell = true → k + todo = s.nodePer →
      ∃ r, replaceInCell s cell old new todo k = (.ok, r) ∧ CellInv r ∧ SameShape r s ∧
        (∀ c, c ≠ cell.toNat → r.row c = s.row c) ∧
        r.row cell.toNat = substFrom s.nodePer old new k (s.row cell.toNat) ∧
        (r.adj.first old).length + ((s.cellNodes cell).drop k).count old = (s.adj.first old).length := by
  intro todo
  induction todo with
  | zero =>
    intro k s h hv hk
    refine ⟨s, rfl, h, SameShape.refl s, fun _ _ => rfl, (substFrom_top (by omega)).symm, ?_⟩
    have : (s.cellNodes cell).drop k = [] := by
      apply List.drop_eq_nil_of_le
      rw [cellNodes_length h hv]; omega
    simp [this]
  | succ todo ih =>
    intro k s h hv hk
    have hklt : k < s.nodePer := by omega
    obtain ⟨hk', hget⟩ := cellNodes_getElem h hv hklt
    obtain ⟨_, hlt, _⟩ := validCell_iff.1 hv
    have hrl := row_length h hlt
    have hkr : k < (s.row cell.toNat).length := by have := h.per.2.1; omega
    have hdrop : (s.cellNodes cell).drop k = s.c2nAt k cell.toNat :: (s.cellNodes cell).drop (k + 1) := by
      rw [List.drop_eq_getElem_cons hk', hget]
    by_cases hold : old = s.c2nAt k cell.toNat
    · obtain ⟨hok1, hok2, hinv', hval', hnodes', hfirst'⟩ := replaced_spec h hv hklt hnew
      obtain ⟨hshape', hrows', hrow'⟩ := replaced_shape h hv hklt hnew
      have hstep : replaceInCell s cell old new (todo + 1) k =
          replaceInCell (replaced s cell k new) cell old new todo (k + 1) := by
        subst hold
        simp only [replaceInCell, if_true, hok1, hok2, ne_eq, not_true_eq_false, if_false]
        rfl
      obtain ⟨r, hr, hrinv, hrshape, hrrows, hrrow, hrlen⟩ :=
        ih (k + 1) (replaced s cell k new) hinv' hval' (by rw [hshape'.np]; omega)
      refine ⟨r, by rw [hstep]; exact hr, hrinv, hrshape.trans hshape', ?_, ?_, ?_⟩
      · intro c hc; rw [hrrows c hc, hrows' c hc]
      · rw [hrrow, hrow', hshape'.np]
        exact substFrom_set_hit hkr hklt (by simp only [c2nAt] at hold; exact hold.symm)
      · rw [hnodes', List.drop_set_of_lt (show k < k + 1 by omega)] at hrlen
        have hmem : cell ∈ s.adj.first old := by
          rw [hold]
          exact (mem_first_iff h).2 ⟨hv, by rw [← hget]; exact List.getElem_mem hk'⟩
        have hfo : (replaced s cell k new).adj.first old = (s.adj.first old).erase cell := by
          rw [hfirst' old, if_neg hon, if_pos hold]
        rw [hfo, List.length_erase_of_mem hmem] at hrlen
        have hpos : 0 < (s.adj.first old).length := List.length_pos_of_mem hmem
        rw [hdrop, ← hold, List.count_cons_self]
        omega
    · have hstep : replaceInCell s cell old new (todo + 1) k = replaceInCell s cell old new todo (k + 1) := by
        simp only [replaceInCell, hold, if_false]
      obtain ⟨r, hr, hrinv, hrshape, hrrows, hrrow, hrlen⟩ := ih (k + 1) s h hv (by omega)
      refine ⟨r, by rw [hstep]; exact hr, hrinv, hrshape, hrrows, ?_, ?_⟩
      · rw [hrrow]
        exact substFrom_skip (Or.inl (by simp only [c2nAt] at hold; exact fun e => hold e.symm))
      · rw [hdrop, List.count_cons_of_ne (fun e => hold e.symm)]
        exact hrlen


theorem substRow_idem {np : Nat} {old new : Int} (hon : old ≠ new) (r : List Int) :
    substRow np old new (substRow np old new r) = substRow np old new r := by
  apply List.ext_getElem?
  intro j
  simp only [substRow, substFrom, List.getElem?_mapIdx]
  cases hr : r[j]? with
  | none => rfl
  | some v =>
    simp only [Option.map_some, Nat.zero_le, true_and]
    by_cases h : j < np ∧ v = old
    · have : ¬ (new = old) := fun e => hon e.symm
      simp [h, this]
    · simp [h]

theorem substRow_of_not_mem {np : Nat} {old new : Int} {r : List Int} (h : old ∉ r.take np) :
    substRow np old new r = r := by
  apply List.ext_getElem?
  intro j
  simp only [substRow, substFrom, List.getElem?_mapIdx]
  cases hr : r[j]? with
  | none => rfl
  | some v =>
    simp only [Option.map_some, Nat.zero_le, true_and]
    obtain ⟨hj, hv⟩ := List.getElem?_eq_some_iff.1 hr
    have : ¬ (j < np ∧ v = old) := by
      rintro ⟨h1, h2⟩
      apply h
      rw [List.mem_take_iff_getElem]
      exact ⟨j, by rw [Nat.lt_min]; exact ⟨h1, hj⟩, by rw [hv, h2]⟩
    simp [this]

theorem substRow_self {np : Nat} {old : Int} (r : List Int) : substRow np old old r = r := by
  apply List.ext_getElem?
  intro j
  simp only [substRow, substFrom, List.getElem?_mapIdx]
  cases hr : r[j]? with
  | none => rfl
  | some v =>
    simp only [Option.map_some, Nat.zero_le, true_and]
    by_cases h : j < np ∧ v = old
    · simp [h]
    · simp [h]

theorem replaceNodeLoop_spec {old new : Int} (hon : old ≠ new) (hnew : 0 ≤ new) :
    ∀ (fuel : Nat) (s : CellStore), CellInv s → (s.adj.first old).length ≤ fuel →
      ∃ r, replaceNodeLoop old new fuel s = some (.ok, r) ∧ CellInv r ∧ SameShape r s ∧
        r.adj.first old = [] ∧
        ∀ c : Nat, substRow s.nodePer old new (r.row c) = substRow s.nodePer old new (s.row c) ∧
          (s.validCell (c : Int) = false → r.row c = s.row c) := by
  intro fuel
  induction fuel with
  | zero =>
    intro s h hlen
    have hnil : s.adj.first old = [] := List.length_eq_zero_iff.1 (by omega)
    exact ⟨s, by simp [replaceNodeLoop, hnil], h, SameShape.refl s, hnil, fun c => ⟨rfl, fun _ => rfl⟩⟩
  | succ fuel ih =>
    intro s h hlen
    cases hl : s.adj.first old with
    | nil =>
      exact ⟨s, by simp [replaceNodeLoop, hl], h, SameShape.refl s, hl, fun c => ⟨rfl, fun _ => rfl⟩⟩
    | cons cell rest =>
      have hmem : cell ∈ s.adj.first old := by rw [hl]; simp
      obtain ⟨hv, hin⟩ := (mem_first_iff h).1 hmem
      obtain ⟨h0, _, _⟩ := validCell_iff.1 hv
      obtain ⟨r1, hr1, hinv1, hshape1, hrows1, hrow1, hlen1⟩ :=
        replaceInCell_spec hon hnew s.nodePer 0 s h hv (by omega)
      have hcnt : 0 < (s.cellNodes cell).count old := List.count_pos_iff.2 hin
      rw [List.drop_zero] at hlen1
      obtain ⟨r, hr, hrinv, hrshape, hrnil, hrrel⟩ := ih r1 hinv1 (by omega)
      refine ⟨r, ?_, hrinv, hrshape.trans hshape1, hrnil, ?_⟩
      · simp only [replaceNodeLoop, hl, hr1, ne_eq, not_true_eq_false, if_false]
        exact hr
      · intro c
        obtain ⟨hc1, hc2⟩ := hrrel c
        rw [hshape1.np] at hc1
        by_cases hcc : c = cell.toNat
        · subst hcc
          refine ⟨?_, ?_⟩
          · rw [hc1, hrow1, ← substRow]
            exact substRow_idem hon _
          · intro hf
            have : ((cell.toNat : Nat) : Int) = cell := by omega
            rw [this, hv] at hf
            exact absurd hf (by simp)
        · rw [hrows1 c hcc] at hc1
          refine ⟨hc1, ?_⟩
          intro hf
          rw [hc2 (by rw [hshape1.valid]; exact hf), hrows1 c hcc]

/-- `ref_cell_replace_node` terminates (the fuel of the model's loop, the length of `old`'s adjacency
    list, is never exhausted) and equals "substitute `old ↦ new` in the node entries of every valid cell" -/
theorem replaceNode_spec {s : CellStore} (h : CellInv s) (old : Int) {new : Int} (hnew : 0 ≤ new) :
    ∃ r, s.replaceNode old new = some (.ok, r) ∧ CellInv r ∧ SameShape r s ∧
      ∀ c : Nat, r.row c =
        if s.validCell (c : Int) = true then substRow s.nodePer old new (s.row c) else s.row c := by
  by_cases hon : old = new
  · subst hon
    refine ⟨s, by simp [replaceNode], h, SameShape.refl s, ?_⟩
    intro c; split
    · exact (substRow_self _).symm
    · rfl
  · obtain ⟨r, hr, hrinv, hrshape, hrnil, hrrel⟩ :=
      replaceNodeLoop_spec hon hnew (s.adj.first old).length s h (Nat.le_refl _)
    refine ⟨r, by simp only [replaceNode, hon, if_false]; exact hr, hrinv, hrshape, ?_⟩
    intro c
    obtain ⟨hc1, hc2⟩ := hrrel c
    split
    · rename_i hv
      have hvr : r.validCell (c : Int) = true := by rw [hrshape.valid]; exact hv
      have hnot : old ∉ r.cellNodes (c : Int) := by
        intro hm
        have := (mem_first_iff hrinv).2 ⟨hvr, hm⟩
        rw [hrnil] at this
        simp at this
      simp only [cellNodes, Int.toNat_natCast, hrshape.np] at hnot
      rw [← hc1, substRow_of_not_mem hnot]
    · rename_i hv
      exact hc2 (by simpa using hv)


/-! ### `ref_cell_replace_whole` -/

/-- overwrite the node entries `k ≤ j < node_per` of a row with those of `nodes` -/
def overwriteFrom (np : Nat) (nodes : List Int) (k : Nat) (r : List Int) : List Int :=
  r.mapIdx fun j v => if k ≤ j ∧ j < np then nodes.getD j (-1) else v

theorem overwriteFrom_set {np : Nat} {nodes : List Int} {k : Nat} {r : List Int} (hk : k < r.length)
    (hnp : k < np) :
    overwriteFrom np nodes (k + 1) (r.set k (nodes.getD k (-1))) = overwriteFrom np nodes k r := by
  apply List.ext_getElem?
  intro j
  simp only [overwriteFrom, List.getElem?_mapIdx, List.getElem?_set]
  by_cases hkj : k = j
  · subst hkj
    have h1 : ¬ (k + 1 ≤ k) := by omega
    simp [hk, h1, hnp]
  · simp only [hkj, if_false]
    cases hr : r[j]? with
    | none => rfl
    | some v =>
      simp only [Option.map_some]
      have : (k + 1 ≤ j) ↔ (k ≤ j) := by omega
      simp only [this]

theorem overwriteFrom_top {np : Nat} {nodes : List Int} {k : Nat} {r : List Int} (h : np ≤ k) :
    overwriteFrom np nodes k r = r := by
  apply List.ext_getElem?
  intro j
  simp only [overwriteFrom, List.getElem?_mapIdx]
  cases hr : r[j]? with
  | none => rfl
  | some v =>
    have : ¬ (k ≤ j ∧ j < np) := by omega
    simp [this]

theorem replaceWholeLoop_spec {cell : Int} {nodes : List Int} :
    ∀ (todo k : Nat) (s : CellStore), CellInv s → s.validCell cell = true → k + todo = s.nodePer →
      (∀ j, j < s.nodePer → 0 ≤ nodes.getD j (-1)) →
      ∃ r, replaceWholeLoop s cell nodes todo k = (.ok, r) ∧ CellInv r ∧ SameShape r s ∧
        (∀ c, c ≠ cell.toNat → r.row c = s.row c) ∧
        r.row cell.toNat = overwriteFrom s.nodePer nodes k (s.row cell.toNat) := by
  intro todo
  induction todo with
  | zero =>
    intro k s h hv hk _
    exact ⟨s, rfl, h, SameShape.refl s, fun _ _ => rfl, (overwriteFrom_top (by omega)).symm⟩
  | succ todo ih =>
    intro k s h hv hk hnn
    have hklt : k < s.nodePer := by omega
    obtain ⟨_, hlt, _⟩ := validCell_iff.1 hv
    have hrl := row_length h hlt
    have hkr : k < (s.row cell.toNat).length := by have := h.per.2.1; omega
    have hnew := hnn k hklt
    obtain ⟨hok1, hok2, hinv', hval', _, _⟩ := replaced_spec h hv hklt hnew
    obtain ⟨hshape', hrows', hrow'⟩ := replaced_shape h hv hklt hnew
    have hstep : replaceWholeLoop s cell nodes (todo + 1) k =
        replaceWholeLoop (replaced s cell k (nodes.getD k (-1))) cell nodes todo (k + 1) := by
      simp only [replaceWholeLoop, hok1, hok2, ne_eq, not_true_eq_false, if_false]
      rfl
    obtain ⟨r, hr, hrinv, hrshape, hrrows, hrrow⟩ :=
      ih (k + 1) (replaced s cell k (nodes.getD k (-1))) hinv' hval' (by rw [hshape'.np]; omega)
        (by rw [hshape'.np]; exact hnn)
    refine ⟨r, by rw [hstep]; exact hr, hrinv, hrshape.trans hshape', ?_, ?_⟩
    · intro c hc; rw [hrrows c hc, hrows' c hc]
    · rw [hrrow, hrow', hshape'.np]
      exact overwriteFrom_set hkr hklt

/-- writing an entry at a position `≥ node_per` (the id) of a valid cell changes nothing else -/
theorem setId_CellInv {t u : CellStore} (h : CellInv t) {cell : Int} (hv : t.validCell cell = true)
    {p : Nat} (hp : t.nodePer ≤ p) {x : Int}
    (hnp : u.nodePer = t.nodePer) (hsp : u.sizePer = t.sizePer)
    (hc2n : u.c2n = t.c2n.set cell.toNat ((t.row cell.toNat).set p x))
    (hbl : u.blank = t.blank) (hn : u.n = t.n) (hadj : u.adj = t.adj) :
    CellInv u ∧ (∀ c, u.validCell c = t.validCell c) := by
  have hfull := h
  obtain ⟨hper, hrows, ⟨l, hc, hnd, hmem⟩, hcount, hnonneg, hadj0⟩ := h
  obtain ⟨h0, hlt, hlive⟩ := validCell_iff.1 hv
  have hi : cell.toNat < t.c2n.length := hlt
  have hcl : cell.toNat ∉ l := fun hm => hlive ((hmem _ hlt).1 hm)
  have hrl := row_length hfull hlt
  have hp0 : p ≠ 0 := by omega
  have hlive' : ((t.row cell.toNat).set p x).getD 0 (-1) ≠ -1 := by
    rw [List.getD_eq_getElem?_getD, List.getElem?_set_ne hp0, ← List.getD_eq_getElem?_getD]
    exact hlive
  have hvalid : ∀ c, u.validCell c = t.validCell c := by
    intro c
    by_cases hcc : c = cell
    · subst hcc
      rw [hv, validCell_iff]
      refine ⟨h0, by simpa [CellStore.max, hc2n] using hi, ?_⟩
      simp only [c2nAt, row, hc2n, getD_rows_set_self hi]
      exact hlive'
    · exact validCell_set_ne hc2n (by omega)
  have hnodes : ∀ c, t.validCell c = true → u.cellNodes c = t.cellNodes c := by
    intro c hvc
    by_cases hci : c.toNat = cell.toNat
    · rw [cellNodes_set_self hc2n hi hci, hnp, List.take_set_of_le hp]
      simp only [cellNodes, hci]
    · exact cellNodes_set_ne hc2n hnp hci
  refine ⟨⟨by rw [hnp, hsp]; exact hper, ?_, ⟨l, ?_, hnd, ?_⟩, ?_, ?_, ?_⟩, hvalid⟩
  · intro r hr
    rw [hc2n] at hr
    rw [hsp]
    rcases List.mem_or_eq_of_mem_set hr with hr | hr
    · exact hrows r hr
    · rw [hr, List.length_set]; exact hrl
  · rw [hc2n, hbl]; exact hc.set_of_not_mem hcl
  · intro j hj
    simp only [CellStore.max, hc2n, List.length_set] at hj
    simp only [c2nAt, row, hc2n]
    by_cases hji : j = cell.toNat
    · subst hji
      rw [getD_rows_set_self hi]
      exact ⟨fun hm => absurd hm hcl, fun he => absurd he hlive'⟩
    · rw [getD_rows_set_ne hji]
      exact hmem j hj
  · rw [hn, hc2n, List.countP_set hi, hcount]
    have h1 : liveRow t.c2n[cell.toNat] = true := by
      rw [liveRow_iff, ← getD_rows_eq_getElem hi]; exact hlive
    have h2 : liveRow ((t.row cell.toNat).set p x) = true := liveRow_iff.2 hlive'
    have h3 : 0 < t.c2n.countP liveRow := List.countP_pos_iff.2 ⟨_, List.getElem_mem hi, h1⟩
    simp only [h1, h2, if_true]
    omega
  · intro c hvc v hvm
    rw [hvalid c] at hvc
    rw [hnodes c hvc] at hvm
    exact hnonneg c hvc v hvm
  · intro v c
    rw [hadj, hadj0 v c, hvalid c]
    split
    · rename_i hvc; rw [hnodes c hvc]
    · rfl

/-- `ref_cell_replace_whole` of a valid cell with non-negative nodes: succeeds, keeps the invariant, the
    cell's row becomes `nodes`, no other row changes -/
theorem replaceWhole_spec {s : CellStore} (h : CellInv s) {cell : Int} (hv : s.validCell cell = true)
    {nodes : List Int} (hlen : nodes.length = s.sizePer) (hnn : ∀ v ∈ nodes.take s.nodePer, 0 ≤ v) :
    ∃ r, s.replaceWhole cell nodes = (.ok, r) ∧ CellInv r ∧ (∀ c, r.validCell c = s.validCell c) ∧
      (∀ c, c ≠ cell.toNat → r.row c = s.row c) ∧ r.row cell.toNat = nodes := by
  have hnn' : ∀ j, j < s.nodePer → 0 ≤ nodes.getD j (-1) := by
    intro j hj
    have hjl : j < nodes.length := by have := h.per.2.1; omega
    apply hnn
    rw [List.mem_take_iff_getElem]
    refine ⟨j, by rw [Nat.lt_min]; exact ⟨hj, hjl⟩, ?_⟩
    rw [List.getD_eq_getElem?_getD, List.getElem?_eq_getElem hjl]; rfl
  obtain ⟨r, hr, hrinv, hrshape, hrrows, hrrow⟩ := replaceWholeLoop_spec s.nodePer 0 s h hv (by omega) hnn'
  obtain ⟨h0, hlt, _⟩ := validCell_iff.1 hv
  have hrl := row_length h hlt
  have hvr : r.validCell cell = true := by rw [hrshape.valid]; exact hv
  have hltr : cell.toNat < r.c2n.length := by
    have := hrshape.max; simp only [CellStore.max] at this hlt; omega
  simp only [replaceWhole, hv, Bool.not_true, Bool.false_eq_true, if_false, hr, ne_eq, not_true_eq_false]
  by_cases hid : s.sizePer > s.nodePer
  · simp only [hid, if_true]
    have hsp1 : s.sizePer - 1 = s.nodePer := by have := h.per.2.2.2; omega
    obtain ⟨hinv2, hvalid2⟩ := setId_CellInv (t := r)
      (u := { r with c2n := r.c2n.set cell.toNat ((r.row cell.toNat).set (s.sizePer - 1)
        (nodes.getD (s.sizePer - 1) (-1))) }) hrinv hvr (p := s.sizePer - 1)
      (by rw [hrshape.np]; omega) rfl rfl rfl rfl rfl rfl
    refine ⟨_, rfl, hinv2, fun c => (hvalid2 c).trans (hrshape.valid c), ?_, ?_⟩
    · intro c hc
      simp only [row, getD_rows_set_ne hc]
      exact hrrows c hc
    · simp only [row, getD_rows_set_self hltr]
      rw [show r.c2n.getD cell.toNat [] = r.row cell.toNat from rfl, hrrow]
      apply List.ext_getElem?
      intro j
      simp only [List.getElem?_set, overwriteFrom, List.getElem?_mapIdx, List.length_mapIdx, hrl, hsp1]
      by_cases hj : s.nodePer = j
      · subst hj
        have : s.nodePer < s.sizePer := hid
        have hjl : s.nodePer < nodes.length := by omega
        simp [this, List.getD_eq_getElem?_getD, List.getElem?_eq_getElem hjl]
      · simp only [hj, if_false]
        by_cases hjl : j < s.sizePer
        · have hjn : j < s.nodePer := by omega
          have hjr : j < (s.row cell.toNat).length := by omega
          have hjnodes : j < nodes.length := by omega
          rw [List.getElem?_eq_getElem hjr, List.getElem?_eq_getElem hjnodes]
          simp [hjn, List.getD_eq_getElem?_getD, List.getElem?_eq_getElem hjnodes]
        · have h1 : (s.row cell.toNat)[j]? = none := List.getElem?_eq_none (by omega)
          have h2 : nodes[j]? = none := List.getElem?_eq_none (by omega)
          rw [h1, h2]; rfl
  · simp only [hid, if_false]
    have hsp : s.sizePer = s.nodePer := by have := h.per.2.1; omega
    refine ⟨r, rfl, hrinv, hrshape.valid, hrrows, ?_⟩
    rw [hrrow]
    apply List.ext_getElem?
    intro j
    simp only [overwriteFrom, List.getElem?_mapIdx]
    by_cases hjl : j < s.sizePer
    · have hjr : j < (s.row cell.toNat).length := by omega
      have hjnodes : j < nodes.length := by omega
      have hjn : j < s.nodePer := by omega
      rw [List.getElem?_eq_getElem hjr, List.getElem?_eq_getElem hjnodes]
      simp [hjn, List.getD_eq_getElem?_getD, List.getElem?_eq_getElem hjnodes]
    · have h1 : (s.row cell.toNat)[j]? = none := List.getElem?_eq_none (by omega)
      have h2 : nodes[j]? = none := List.getElem?_eq_none (by omega)
      rw [h1, h2]; rfl


/-! ### frame and slot reuse -/

/-- `ref_cell_add` does not disturb any valid cell, and the id it returns was not a valid cell -/
theorem add_frame {s : CellStore} (h : CellInv s) {nodes : List Int} (hlen : nodes.length = s.sizePer)
    (hnn : ∀ v ∈ nodes.take s.nodePer, 0 ≤ v) (hok : (s.add nodes).1 = .ok) :
    s.validCell (s.add nodes).2.1 = false ∧
    (s.add nodes).2.2.validCell (s.add nodes).2.1 = true ∧
    (s.add nodes).2.2.cellNodes (s.add nodes).2.1 = nodes.take s.nodePer ∧
    ∀ c, s.validCell c = true →
      (s.add nodes).2.2.validCell c = true ∧ (s.add nodes).2.2.cellNodes c = s.cellNodes c := by
  have key : ∀ t : CellStore, s.grow = some t → CellInv t → t.blank ≠ -1 → t.nodePer = s.nodePer →
      t.sizePer = s.sizePer → (∀ c, t.validCell c = s.validCell c) →
      (∀ c, s.validCell c = true → t.cellNodes c = s.cellNodes c) →
      s.validCell (s.add nodes).2.1 = false ∧
      (s.add nodes).2.2.validCell (s.add nodes).2.1 = true ∧
      (s.add nodes).2.2.cellNodes (s.add nodes).2.1 = nodes.take s.nodePer ∧
      ∀ c, s.validCell c = true →
        (s.add nodes).2.2.validCell c = true ∧ (s.add nodes).2.2.cellNodes c = s.cellNodes c := by
    intro t hg ht hb hnp hsp hval hnodes
    obtain ⟨_, hinv, hcell, hinvalid, h0, hc2n, hnp'⟩ :=
      add_of_grow_CellInv hg ht hb (by rw [hsp]; exact hlen) (by rw [hnp]; exact hnn)
    obtain ⟨_, _, hlt, _⟩ := pop_CellInv (u := addResult t nodes) ht hb (by rw [hsp]; exact hlen)
      (by rw [hnp]; exact hnn) rfl rfl rfl rfl rfl
      (adjAddAll_spec (nodes.take t.nodePer) t.adj t.blank (by rw [hnp]; exact hnn)).2
    have hi : t.blank.toNat < t.c2n.length := hlt
    rw [hcell]
    refine ⟨by rw [← hval]; exact hinvalid, ?_, ?_, ?_⟩
    · rw [validCell_iff]
      refine ⟨h0, by simpa [CellStore.max, hc2n] using hi, ?_⟩
      simp only [c2nAt, row, hc2n, getD_rows_set_self hi]
      exact liveRow_iff.1 (liveRow_of_nonneg h.per.1 hnn (by have := h.per.2.1; omega))
    · rw [cellNodes_set_self hc2n hi rfl, hnp', hnp]
    · intro c hvc
      have hvt : t.validCell c = true := by rw [hval]; exact hvc
      have hne : c.toNat ≠ t.blank.toNat := by
        intro e
        have : c = t.blank := by
          obtain ⟨hc0, _, _⟩ := validCell_iff.1 hvt
          omega
        rw [this, hinvalid] at hvt
        exact absurd hvt (by simp)
      exact ⟨by rw [validCell_set_ne hc2n (Or.inl hne)]; exact hvt,
        by rw [cellNodes_set_ne hc2n (by rw [hnp']) hne, hnodes c hvc]⟩
  rcases grow_cases s with ⟨hb, hg⟩ | ⟨hb, hm, hg⟩ | ⟨hb, hm, chunk, hchunk, hg⟩
  · exact key s hg h hb rfl rfl (fun _ => rfl) (fun _ _ => rfl)
  · rw [add_none hg] at hok; exact absurd hok (by simp)
  · obtain ⟨ht, hval, hnodes⟩ := grown_facts h hb hchunk
    exact key (grown s chunk) hg ht (by simp only [grown]; omega) rfl rfl hval hnodes

/-- `ref_cell_remove` does not disturb any other valid cell -/
theorem remove_frame {s : CellStore} (h : CellInv s) {cell : Int} (hv : s.validCell cell = true) :
    (s.remove cell).2.validCell cell = false ∧ (s.remove cell).2.blank = cell ∧
    ∀ c, c ≠ cell → s.validCell c = true →
      (s.remove cell).2.validCell c = true ∧ (s.remove cell).2.cellNodes c = s.cellNodes c := by
  obtain ⟨h0, hlt, _⟩ := validCell_iff.1 hv
  have hi : cell.toNat < s.c2n.length := hlt
  have hrl := row_length h hlt
  rw [remove_eq h hv]
  refine ⟨?_, rfl, ?_⟩
  · rw [Bool.eq_false_iff]
    intro hv'
    obtain ⟨_, _, h3⟩ := validCell_iff.1 hv'
    simp only [c2nAt, row, getD_rows_set_self hi] at h3
    exact h3 (getD_set_set_0 (r := s.row cell.toNat) (b := s.blank) (by have := h.per.2.2.1; omega)).1
  · intro c hc hvc
    have hne : c.toNat ≠ cell.toNat := by
      obtain ⟨hc0, _, _⟩ := validCell_iff.1 hvc
      omega
    constructor
    · rw [validCell_set_ne (s := s) (i := cell.toNat) rfl (Or.inl hne)]; exact hvc
    · refine cellNodes_set_ne (s := s) (i := cell.toNat)
        (x := ((s.row cell.toNat).set 0 (-1)).set 1 s.blank) ?_ ?_ hne <;> rfl

/-- slot reuse: removing a cell and adding another one returns the freed id -/
theorem remove_add_reuses {s : CellStore} (h : CellInv s) {cell : Int} (hv : s.validCell cell = true)
    {nodes : List Int} (hlen : nodes.length = s.sizePer) (hnn : ∀ v ∈ nodes.take s.nodePer, 0 ≤ v) :
    ((s.remove cell).2.add nodes).1 = .ok ∧ ((s.remove cell).2.add nodes).2.1 = cell := by
  obtain ⟨_, hinv⟩ := remove_CellInv h hv
  obtain ⟨_, hbl, _⟩ := remove_frame h hv
  obtain ⟨h0, _, _⟩ := validCell_iff.1 hv
  have hb : (s.remove cell).2.blank ≠ -1 := by rw [hbl]; omega
  have hg : (s.remove cell).2.grow = some (s.remove cell).2 := by
    rcases grow_cases (s.remove cell).2 with ⟨_, hg⟩ | ⟨hb', _, _⟩ | ⟨hb', _, _⟩
    · exact hg
    · exact absurd hb' hb
    · exact absurd hb' hb
  have hsp : (s.remove cell).2.sizePer = s.sizePer := by rw [remove_eq h hv]
  have hnp : (s.remove cell).2.nodePer = s.nodePer := by rw [remove_eq h hv]
  obtain ⟨hok, _, hcell, _⟩ := add_of_grow_CellInv hg hinv hb (by rw [hsp]; exact hlen)
    (by rw [hnp]; exact hnn)
  exact ⟨hok, by rw [hcell, hbl]⟩


/-! ### `each_ref_cell_having_node2`: `degree_with2` / `list_with2` -/

theorem count_map_const {α} (l : List α) (cell c : Int) :
    (l.map fun _ => cell).count c = if cell = c then l.length else 0 := by
  induction l with
  | nil => simp
  | cons a rest ih =>
    simp only [List.map_cons, List.count_cons, ih, List.length_cons]
    by_cases h : cell = c
    · simp [h]
    · simp [h]

theorem filter_range_count (r : List Int) (x : Int) :
    ∀ np, np ≤ r.length →
      ((List.range np).filter fun k => x == r.getD k (-1)).length = (r.take np).count x := by
  intro np
  induction np with
  | zero => intro _; simp
  | succ np ih =>
    intro hle
    have hlt : np < r.length := by omega
    rw [List.range_succ, List.filter_append, List.length_append, ih (by omega), List.take_add_one,
      List.count_append, List.getElem?_eq_getElem hlt]
    have hg : r.getD np (-1) = r[np] := by simp [List.getD_eq_getElem?_getD, hlt]
    simp only [List.filter_cons, List.filter_nil, hg, Option.toList_some, List.count_cons, List.count_nil,
      Nat.zero_add]
    by_cases h : x = r[np]
    · subst h; simp
    · have h' : ¬ (r[np] = x) := fun e => h e.symm
      simp [h, h']

theorem count_flatMap_having (l : List Int) (f : Int → List Int) (m : Int → Nat) (c : Int)
    (hf : ∀ cell, (f cell).count c = if cell = c then m cell else 0) :
    (l.flatMap f).count c = l.count c * m c := by
  induction l with
  | nil => simp
  | cons a rest ih =>
    rw [List.flatMap_cons, List.count_append, ih, hf a, List.count_cons]
    by_cases h : a = c
    · subst h; simp [Nat.add_mul]; omega
    · simp [h]

/-- `each_ref_cell_having_node2(node0,node1)` reports every valid cell once per pair
    (occurrence of `node0`, occurrence of `node1`): the multiset behind `degree_with2` and `list_with2` -/
theorem having2_count {s : CellStore} (h : CellInv s) (n0 n1 c : Int) :
    (s.having2 n0 n1).count c =
      if s.validCell c = true then (s.cellNodes c).count n0 * (s.cellNodes c).count n1 else 0 := by
  unfold having2
  rw [count_flatMap_having (s.adj.first n0) _
    (fun cell => ((List.range s.nodePer).filter fun k => n1 == s.c2nAt k cell.toNat).length) c
    (fun cell => count_map_const _ cell c), h.adj n0 c]
  split
  · rename_i hv
    obtain ⟨_, hlt, _⟩ := validCell_iff.1 hv
    have hrl := row_length h hlt
    have := filter_range_count (s.row c.toNat) n1 s.nodePer (by have := h.per.2.1; omega)
    simp only [c2nAt, cellNodes] at this ⊢
    rw [this]
  · simp

end CellStore

end Refine.Model.CellStore
