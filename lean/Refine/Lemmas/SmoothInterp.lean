import Refine.Model.SmoothInterp

/-!
  Helper lemmas for `Props/C05Smooth.lean` and `Props/C13Smooth.lean`: specifications of
  `locateNode`, `metricInterpolateNode`, `locateBetween`, `metricInterpolateBetween` against an abstract
  donor relation `D x cell bary` ("`bary` are the weights of position `x` in background cell `cell`"), and the
  loop invariants of the improvers.  No Mathlib needed.
-/
namespace Refine.Lemmas.SmoothInterp
open Refine.Model.SmoothInterp

variable {P B M : Type}

/-- what the theorems assume about the search outcomes: a walk that ends enclosing and a sequential search that
    finds a candidate deliver a donor of the position asked for; the part of an enclosing agent is the part it
    started on (`REF_AGENT_HOP_PART` is never `REF_AGENT_ENCLOSING`) -/
structure Sound (bg : Bg P B M) (D : P → Int → B → Prop) : Prop where
  walk_donor : ∀ p c x c' p' b, bg.walk p c x = .enclosing c' p' b → D x c' b
  walk_part : ∀ p c x c' p' b, bg.walk p c x = .enclosing c' p' b → p' = p
  seq_donor : ∀ x c b, bg.seq x = .found c b → D x c b
  /-- `RUS(REF_EMPTY, best_candidate, "failed to find cell")` -/
  seq_nonempty : ∀ x c b, bg.seq x = .found c b → c ≠ EMPTY
  /-- `ref_cell_valid(ref_cell, REF_EMPTY)` is false -/
  valid_nonempty : bg.valid EMPTY = false

/-- serial run whose sequential fall-back is complete: a position that has a donor at all is found by the sphere
    tree (every bounding sphere contains its cell: `Props/C11Search`) -/
structure Total (bg : Bg P B M) (D : P → Int → B → Prop) : Prop where
  serial : bg.para = false
  seq_complete : ∀ x c b, D x c b → ∃ c' b', bg.seq x = .found c' b' ∧ c' ≠ EMPTY

/-- the vertex is located on this rank, the stored weights are weights of its CURRENT position in the stored donor
    cell, and the stored metric is the interpolation there -/
def Fresh (bg : Bg P B M) (D : P → Int → B → Prop) (s : NodeSt P B M) : Prop :=
  s.cell ≠ EMPTY ∧ s.part = bg.rank ∧ D s.xyz s.cell s.bary ∧ bg.interp s.cell s.bary = some s.met

/-- the weak form: IF the vertex is located on this rank THEN its record is fresh (an unlocated vertex,
    `cell = REF_EMPTY`, is marked for re-location and claims nothing) -/
def MetricAtPosition (bg : Bg P B M) (D : P → Int → B → Prop) (s : NodeSt P B M) : Prop :=
  s.cell ≠ EMPTY → s.part = bg.rank → D s.xyz s.cell s.bary ∧ bg.interp s.cell s.bary = some s.met

theorem Fresh.weak {bg : Bg P B M} {D : P → Int → B → Prop} {s : NodeSt P B M} (h : Fresh bg D s) :
    MetricAtPosition bg D s := fun _ _ => ⟨h.2.2.1, h.2.2.2⟩

theorem metricAtPosition_of_empty {bg : Bg P B M} {D : P → Int → B → Prop} {s : NodeSt P B M} (h : s.cell = EMPTY) :
    MetricAtPosition bg D s := fun hc => absurd h hc

/-- a vertex located on this rank -/
def Local (bg : Bg P B M) (s : NodeSt P B M) : Prop := s.cell ≠ EMPTY ∧ s.part = bg.rank

theorem foundStatus_ok {s : NodeSt P B M} : foundStatus s = .ok ↔ s.cell ≠ EMPTY := by
  unfold foundStatus; split <;> simp_all

theorem foundStatus_notFound {s : NodeSt P B M} : foundStatus s = .notFound ↔ s.cell = EMPTY := by
  unfold foundStatus; split <;> simp_all

theorem foundStatus_ne_failure {s : NodeSt P B M} : foundStatus s ≠ .failure := by
  unfold foundStatus; split <;> simp

/-! ### `ref_interp_locate_node` -/

/-- position and metric are never touched by the location -/
theorem locateNode_frame (bg : Bg P B M) (s : NodeSt P B M) :
    (locateNode bg s).2.xyz = s.xyz ∧ (locateNode bg s).2.met = s.met := by
  unfold locateNode
  split
  · exact ⟨rfl, rfl⟩
  · split
    · exact ⟨rfl, rfl⟩
    · split
      · exact ⟨rfl, rfl⟩
      · split
        · exact ⟨rfl, rfl⟩
        · split <;> exact ⟨rfl, rfl⟩
      · split
        · split <;> exact ⟨rfl, rfl⟩
        · exact ⟨rfl, rfl⟩

/-- no starting guess: skip, `REF_SUCCESS`, nothing changes -/
theorem locateNode_empty (bg : Bg P B M) (s : NodeSt P B M) (h : s.cell = EMPTY) : locateNode bg s = (.ok, s) := by
  unfold locateNode; simp [h]

/-- donor on another part: forget the location, `REF_SUCCESS` -/
theorem locateNode_offpart (bg : Bg P B M) (s : NodeSt P B M) (h : s.cell ≠ EMPTY) (hp : s.part ≠ bg.rank) :
    locateNode bg s = (.ok, { s with cell := EMPTY }) := by
  unfold locateNode
  have : bg.rank ≠ s.part := fun e => hp e.symm
  simp [h, this]

/-- from a local guess the location either finds a donor of the current position on this rank (`REF_SUCCESS`),
    or forgets the cell and reports `REF_NOT_FOUND`, or aborts -/
theorem locateNode_local {bg : Bg P B M} {D : P → Int → B → Prop} (hs : Sound bg D) (s : NodeSt P B M)
    (hl : Local bg s) :
    ((locateNode bg s).1 = .ok ∧ Local bg (locateNode bg s).2 ∧
        D s.xyz (locateNode bg s).2.cell (locateNode bg s).2.bary) ∨
    ((locateNode bg s).1 = .notFound ∧ (locateNode bg s).2 = { s with cell := EMPTY }) ∨
    (locateNode bg s).1 = .failure := by
  obtain ⟨hc, hp⟩ := hl
  unfold locateNode
  have hr : ¬ (bg.rank ≠ s.part) := fun e => e hp.symm
  simp only [hc, if_false, hr]
  cases hw : bg.walk s.part s.cell s.xyz with
  | abort => right; right; rfl
  | enclosing c p b =>
    simp only
    by_cases h1 : bg.rank ≠ p
    · simp [h1]
    · simp only [h1, if_false]
      by_cases h2 : bg.valid c = true
      · simp only [h2, Bool.not_true, Bool.false_eq_true, if_false]
        by_cases h3 : c = EMPTY
        · right; left
          subst h3
          rw [hs.valid_nonempty] at h2
          cases h2
        · left
          refine ⟨foundStatus_ok.mpr h3, ⟨h3, ?_⟩, hs.walk_donor _ _ _ _ _ _ hw⟩
          simp only [ne_eq, Decidable.not_not] at h1
          exact h1.symm
      · simp [h2]
  | lost =>
    simp only
    by_cases hpa : bg.para = true
    · right; left
      simp [hpa, foundStatus_notFound]
    · simp only [hpa, Bool.not_false, if_true]
      cases hq : bg.seq s.xyz with
      | abort => right; right; rfl
      | none => right; left; simp only; exact ⟨foundStatus_notFound.mpr rfl, trivial⟩
      | found c b =>
        left
        simp only
        have hc' : c ≠ EMPTY := hs.seq_nonempty _ _ _ hq
        exact ⟨foundStatus_ok.mpr hc', ⟨hc', hp⟩, hs.seq_donor _ _ _ hq⟩

/-! ### `ref_metric_interpolate_node` -/

/-- a background that is interpolated continuously (`ref adapt -m`, `ref_grid_cache_background`) -/
def Live (cfg : Cfg) : Prop := cfg.hasInterp = true ∧ cfg.continuously = true

theorem interpolate_frame (cfg : Cfg) (bg : Bg P B M) (s : NodeSt P B M) :
    (metricInterpolateNode cfg bg s).2.xyz = s.xyz := by
  unfold metricInterpolateNode
  split
  · rfl
  · split
    · rfl
    · have hf := (locateNode_frame bg s).1
      split
      · rename_i s1 heq
        rw [heq] at hf
        split
        · exact hf
        · split <;> exact hf
      · exact hf

theorem interpolate_noInterp (cfg : Cfg) (bg : Bg P B M) (s : NodeSt P B M) (h : cfg.hasInterp = false) :
    metricInterpolateNode cfg bg s = (.ok, s) := by
  unfold metricInterpolateNode; simp [h]

theorem interpolate_notCont (cfg : Cfg) (bg : Bg P B M) (s : NodeSt P B M) (h1 : cfg.hasInterp = true)
    (h2 : cfg.continuously = false) : metricInterpolateNode cfg bg s = (.ok, { s with cell := EMPTY }) := by
  unfold metricInterpolateNode; simp [h1, h2]

/-- **the hazard**: an unlocated vertex is skipped — `REF_SUCCESS`, metric untouched -/
theorem interpolate_empty {cfg : Cfg} (hl : Live cfg) (bg : Bg P B M) (s : NodeSt P B M) (h : s.cell = EMPTY) :
    metricInterpolateNode cfg bg s = (.ok, s) := by
  unfold metricInterpolateNode
  simp [hl.1, hl.2, locateNode_empty bg s h, h]

/-- a vertex whose donor is on another part is marked unlocated — `REF_SUCCESS`, metric untouched -/
theorem interpolate_offpart {cfg : Cfg} (hl : Live cfg) (bg : Bg P B M) (s : NodeSt P B M) (h : s.cell ≠ EMPTY)
    (hp : s.part ≠ bg.rank) : metricInterpolateNode cfg bg s = (.ok, { s with cell := EMPTY }) := by
  unfold metricInterpolateNode
  simp [hl.1, hl.2, locateNode_offpart bg s h hp]

/-- from a local guess: `REF_SUCCESS` with a FRESH record at the current position, or `REF_NOT_FOUND` with the cell
    forgotten and nothing else changed, or an abort -/
theorem interpolate_local {cfg : Cfg} (hl : Live cfg) {bg : Bg P B M} {D : P → Int → B → Prop} (hs : Sound bg D)
    (s : NodeSt P B M) (hloc : Local bg s) :
    ((metricInterpolateNode cfg bg s).1 = .ok ∧ Fresh bg D (metricInterpolateNode cfg bg s).2) ∨
    ((metricInterpolateNode cfg bg s).1 = .notFound ∧ (metricInterpolateNode cfg bg s).2 = { s with cell := EMPTY }) ∨
    (metricInterpolateNode cfg bg s).1 = .failure := by
  have h := locateNode_local hs s hloc
  have hf := locateNode_frame bg s
  unfold metricInterpolateNode
  simp only [hl.1, hl.2, Bool.not_true, Bool.false_eq_true, if_false]
  rcases hr : locateNode bg s with ⟨st, s1⟩
  rw [hr] at h hf
  simp only at h hf
  rcases h with ⟨hst, hl1, hd⟩ | ⟨hst, hs1⟩ | hst
  · subst hst
    simp only
    have hn : ¬ (s1.cell = EMPTY ∨ bg.rank ≠ s1.part) := by
      rintro (h1 | h1)
      · exact hl1.1 h1
      · exact h1 hl1.2.symm
    simp only [hn, if_false]
    cases hi : bg.interp s1.cell s1.bary with
    | none => right; right; rfl
    | some m =>
      left
      refine ⟨rfl, hl1.1, hl1.2, ?_, hi⟩
      simp only
      rw [hf.1]; exact hd
  · subst hst; right; left; exact ⟨rfl, hs1⟩
  · subst hst; right; right; rfl

/-! ### the back-off loop: one induction, instantiated several times -/

theorem restoreGuess_ok (guess : Int) (s : NodeSt P B M) : restoreGuess guess .ok s = s := by
  unfold restoreGuess; simp

/-- Loop rule.  `Inv` holds of the vertex state at the start of every try, `Acc x` of the state right after a
    successful interpolation at trial position `x`, `Rb` of the state after the roll-back. -/
theorem loop_rule (reinterp : Bool) (cfg : Cfg) (bg : Bg P B M) (g : Guards P B M) (trial : Nat → P) (orig : P)
    (guess : Int) (Inv : NodeSt P B M → Prop) (Acc : P → NodeSt P B M → Prop) (Rb : NodeSt P B M → Prop)
    (hstep : ∀ s x, Inv s → (metricInterpolateNode cfg bg { s with xyz := x }).1 ≠ .failure →
      Inv (restoreGuess guess (metricInterpolateNode cfg bg { s with xyz := x }).1
        (metricInterpolateNode cfg bg { s with xyz := x }).2) ∧
      ((metricInterpolateNode cfg bg { s with xyz := x }).1 = .ok →
        Acc x (metricInterpolateNode cfg bg { s with xyz := x }).2))
    (hre : ∀ x s2, Acc x s2 → (metricInterpolateNode cfg bg s2).1 = .ok →
      Acc x (metricInterpolateNode cfg bg s2).2 ∧ Inv (metricInterpolateNode cfg bg s2).2)
    (hrb : ∀ s, Inv s → (metricInterpolateNode cfg bg { s with xyz := orig }).1 ≠ .failure →
      Rb (metricInterpolateNode cfg bg { s with xyz := orig }).2) :
    ∀ (n k : Nat) (s : NodeSt P B M) (cs : List (Status × NodeSt P B M)), Inv s →
      (∀ j, (loop reinterp cfg bg g trial orig guess n k s cs).outcome = .accepted j →
        Acc (trial j) (loop reinterp cfg bg g trial orig guess n k s cs).st ∧ k ≤ j ∧ j < k + n ∧
        g.accept j (loop reinterp cfg bg g trial orig guess n k s cs).st = true) ∧
      ((loop reinterp cfg bg g trial orig guess n k s cs).outcome = .rolledBack →
        Rb (loop reinterp cfg bg g trial orig guess n k s cs).st) := by
  intro n
  induction n with
  | zero =>
    intro k s cs hinv
    have hb := hrb s hinv
    unfold loop rollback
    rcases hr : metricInterpolateNode cfg bg { s with xyz := orig } with ⟨st, s2⟩
    rw [hr] at hb
    cases st with
    | failure => exact ⟨fun j h => (by simp at h), fun h => (by simp at h)⟩
    | ok => exact ⟨fun j h => (by simp at h), fun _ => hb (by simp)⟩
    | notFound => exact ⟨fun j h => (by simp at h), fun _ => hb (by simp)⟩
  | succ n ih =>
    intro k s cs hinv
    have hst := hstep s (trial k) hinv
    unfold loop
    rcases hr : metricInterpolateNode cfg bg { s with xyz := trial k } with ⟨st, s2⟩
    rw [hr] at hst
    simp only at hst
    -- the recursive call, from any state satisfying the invariant
    have rec_ : ∀ (s' : NodeSt P B M) (cs' : List (Status × NodeSt P B M)), Inv s' →
        (∀ j, (loop reinterp cfg bg g trial orig guess n (k + 1) s' cs').outcome = .accepted j →
          Acc (trial j) (loop reinterp cfg bg g trial orig guess n (k + 1) s' cs').st ∧ k ≤ j ∧ j < k + (n + 1) ∧
          g.accept j (loop reinterp cfg bg g trial orig guess n (k + 1) s' cs').st = true) ∧
        ((loop reinterp cfg bg g trial orig guess n (k + 1) s' cs').outcome = .rolledBack →
          Rb (loop reinterp cfg bg g trial orig guess n (k + 1) s' cs').st) := by
      intro s' cs' hi
      have := ih (k + 1) s' cs' hi
      refine ⟨fun j hj => ?_, this.2⟩
      obtain ⟨a, b, c, d⟩ := this.1 j hj
      exact ⟨a, by omega, by omega, d⟩
    cases st with
    | failure => exact ⟨fun j h => (by simp at h), fun h => (by simp at h)⟩
    | notFound =>
      have h1 := hst (by simp)
      simp only [reduceCtorEq, if_false]
      exact rec_ _ _ h1.1
    | ok =>
      have h1 := hst (by simp)
      have hacc := h1.2 rfl
      have hinv2 : Inv s2 := by have := h1.1; rwa [restoreGuess_ok] at this
      simp only [if_true]
      cases reinterp with
      | false =>
        simp only [Bool.false_eq_true, if_false]
        by_cases ha : g.accept k s2 = true
        · simp only [ha, if_true]
          refine ⟨fun j hj => ?_, fun h => (by simp at h)⟩
          simp only [Outcome.accepted.injEq] at hj
          subst hj
          exact ⟨hacc, by omega, by omega, ha⟩
        · simp only [ha]
          exact rec_ _ _ h1.1
      | true =>
        simp only [if_true]
        by_cases hal : g.allowed k s2 = true
        · simp only [hal, if_true]
          have hre2 := hre (trial k) s2 hacc
          rcases hr2 : metricInterpolateNode cfg bg s2 with ⟨st', s3⟩
          rw [hr2] at hre2
          cases st' with
          | failure => exact ⟨fun j h => (by simp at h), fun h => (by simp at h)⟩
          | notFound => exact ⟨fun j h => (by simp at h), fun h => (by simp at h)⟩
          | ok =>
            have h3 := hre2 rfl
            simp only
            by_cases ha : g.accept k s3 = true
            · simp only [ha, if_true]
              refine ⟨fun j hj => ?_, fun h => (by simp at h)⟩
              simp only [Outcome.accepted.injEq] at hj
              subst hj
              exact ⟨h3.1, by omega, by omega, ha⟩
            · simp only [ha]
              rw [restoreGuess_ok]
              exact rec_ _ _ h3.2
        · simp only [hal]
          exact rec_ _ _ h1.1

/-! ### consequences of `Sound` / `Total` for any entry state -/

/-- whatever the entry state: after an interpolation that did not abort, a vertex that is located on this rank has
    a fresh record (`REF_NOT_FOUND` and the two skip paths leave it unlocated) -/
theorem interpolate_any {cfg : Cfg} (hl : Live cfg) {bg : Bg P B M} {D : P → Int → B → Prop} (hs : Sound bg D)
    (s : NodeSt P B M) (hnf : (metricInterpolateNode cfg bg s).1 ≠ .failure) :
    MetricAtPosition bg D (metricInterpolateNode cfg bg s).2 := by
  by_cases hc : s.cell = EMPTY
  · rw [interpolate_empty hl bg s hc]; exact metricAtPosition_of_empty hc
  · by_cases hp : s.part = bg.rank
    · rcases interpolate_local hl hs s ⟨hc, hp⟩ with ⟨_, hf⟩ | ⟨_, he⟩ | hst
      · exact hf.weak
      · rw [he]; exact metricAtPosition_of_empty rfl
      · exact absurd hst hnf
    · rw [interpolate_offpart hl bg s hc hp]; exact metricAtPosition_of_empty rfl

/-- serial, complete fall-back: from a local guess a position that has a donor is never reported `REF_NOT_FOUND` -/
theorem locateNode_total {bg : Bg P B M} {D : P → Int → B → Prop} (hs : Sound bg D) (ht : Total bg D)
    (s : NodeSt P B M) (hl : Local bg s) (hd : ∃ c b, D s.xyz c b) : (locateNode bg s).1 ≠ .notFound := by
  obtain ⟨hc, hp⟩ := hl
  obtain ⟨c0, b0, hd⟩ := hd
  unfold locateNode
  have hr : ¬ (bg.rank ≠ s.part) := fun e => e hp.symm
  simp only [hc, if_false, hr]
  cases hw : bg.walk s.part s.cell s.xyz with
  | abort => simp
  | enclosing c p b =>
    simp only
    by_cases h1 : bg.rank ≠ p
    · simp [h1]
    · simp only [h1, if_false]
      by_cases h2 : bg.valid c = true
      · simp only [h2, Bool.not_true, Bool.false_eq_true, if_false]
        intro h
        rw [foundStatus_notFound] at h
        simp only at h
        subst h
        rw [hs.valid_nonempty] at h2
        cases h2
      · simp [h2]
  | lost =>
    simp only [ht.serial, Bool.not_false, if_true]
    obtain ⟨c', b', hq, hc'⟩ := ht.seq_complete _ _ _ hd
    rw [hq]
    simp only
    intro h
    rw [foundStatus_notFound] at h
    exact hc' h

theorem interpolate_total {cfg : Cfg} (hl : Live cfg) {bg : Bg P B M} {D : P → Int → B → Prop} (hs : Sound bg D)
    (ht : Total bg D) (s : NodeSt P B M) (hloc : Local bg s) (hd : ∃ c b, D s.xyz c b) :
    (metricInterpolateNode cfg bg s).1 ≠ .notFound := by
  have h := locateNode_total hs ht s hloc hd
  unfold metricInterpolateNode
  simp only [hl.1, hl.2, Bool.not_true, Bool.false_eq_true, if_false]
  rcases hr : locateNode bg s with ⟨st, s1⟩
  rw [hr] at h
  cases st with
  | notFound => exact absurd rfl h
  | failure => simp
  | ok =>
    simp only
    split
    · simp
    · split <;> simp

/-! ### the two degenerate loop shapes -/

/-- when every interpolation is the identity (no background; or an unlocated vertex of a live background) the loop
    only ever changes the coordinates -/
theorem loop_const (reinterp : Bool) (cfg : Cfg) (bg : Bg P B M) (g : Guards P B M) (trial : Nat → P) (orig : P)
    (guess : Int) (s0 : NodeSt P B M)
    (hI : ∀ x, metricInterpolateNode cfg bg { s0 with xyz := x } = (.ok, { s0 with xyz := x }))
    (n k : Nat) (x0 : P) (cs : List (Status × NodeSt P B M)) :
    (∀ j, (loop reinterp cfg bg g trial orig guess n k { s0 with xyz := x0 } cs).outcome = .accepted j →
      (loop reinterp cfg bg g trial orig guess n k { s0 with xyz := x0 } cs).st = { s0 with xyz := trial j } ∧ j < k + n) ∧
    ((loop reinterp cfg bg g trial orig guess n k { s0 with xyz := x0 } cs).outcome = .rolledBack →
      (loop reinterp cfg bg g trial orig guess n k { s0 with xyz := x0 } cs).st = { s0 with xyz := orig }) := by
  have key := loop_rule reinterp cfg bg g trial orig guess (fun s => ∃ x, s = { s0 with xyz := x })
    (fun x s => s = { s0 with xyz := x }) (fun s => s = { s0 with xyz := orig })
    (by
      rintro s x ⟨x', rfl⟩ _
      simp only
      rw [hI x]
      simp only [restoreGuess_ok]
      exact ⟨⟨x, rfl⟩, fun _ => trivial⟩)
    (by
      rintro x s2 rfl _
      rw [hI x]
      exact ⟨rfl, x, rfl⟩)
    (by
      rintro s ⟨x', rfl⟩ _
      simp only
      rw [hI orig])
    n k { s0 with xyz := x0 } cs ⟨x0, rfl⟩
  refine ⟨fun j hj => ?_, key.2⟩
  obtain ⟨a, _, c, _⟩ := key.1 j hj
  exact ⟨a, c⟩

/-- when every interpolation just forgets the cell (`REF_SUCCESS`): background not interpolated continuously, or
    the donor of the vertex lives on another part -/
theorem loop_forget (reinterp : Bool) (cfg : Cfg) (bg : Bg P B M) (g : Guards P B M) (trial : Nat → P) (orig : P)
    (guess : Int) (s0 : NodeSt P B M)
    (hI1 : ∀ x, metricInterpolateNode cfg bg { s0 with xyz := x } = (.ok, { s0 with xyz := x, cell := EMPTY }))
    (hI2 : ∀ x, metricInterpolateNode cfg bg { s0 with xyz := x, cell := EMPTY } =
      (.ok, { s0 with xyz := x, cell := EMPTY }))
    (n k : Nat) (x0 : P) (cs : List (Status × NodeSt P B M)) :
    (∀ j, (loop reinterp cfg bg g trial orig guess n k { s0 with xyz := x0 } cs).outcome = .accepted j →
      (loop reinterp cfg bg g trial orig guess n k { s0 with xyz := x0 } cs).st =
        { s0 with xyz := trial j, cell := EMPTY } ∧ j < k + n) ∧
    ((loop reinterp cfg bg g trial orig guess n k { s0 with xyz := x0 } cs).outcome = .rolledBack →
      (loop reinterp cfg bg g trial orig guess n k { s0 with xyz := x0 } cs).st = { s0 with xyz := orig, cell := EMPTY }) := by
  have key := loop_rule reinterp cfg bg g trial orig guess
    (fun s => ∃ x, s = { s0 with xyz := x } ∨ s = { s0 with xyz := x, cell := EMPTY })
    (fun x s => s = { s0 with xyz := x, cell := EMPTY }) (fun s => s = { s0 with xyz := orig, cell := EMPTY })
    (by
      rintro s x ⟨x', rfl | rfl⟩ _
      · simp only
        rw [hI1 x]
        simp only [restoreGuess_ok]
        exact ⟨⟨x, Or.inr rfl⟩, fun _ => trivial⟩
      · simp only
        rw [hI2 x]
        simp only [restoreGuess_ok]
        exact ⟨⟨x, Or.inr rfl⟩, fun _ => trivial⟩)
    (by
      rintro x s2 rfl _
      rw [hI2 x]
      exact ⟨rfl, x, Or.inr rfl⟩)
    (by
      rintro s ⟨x', rfl | rfl⟩ _
      · simp only
        rw [hI1 orig]
      · simp only
        rw [hI2 orig])
    n k { s0 with xyz := x0 } cs ⟨x0, Or.inl rfl⟩
  refine ⟨fun j hj => ?_, key.2⟩
  obtain ⟨a, _, c, _⟩ := key.1 j hj
  exact ⟨a, c⟩

end Refine.Lemmas.SmoothInterp
