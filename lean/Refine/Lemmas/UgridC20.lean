import Refine.Lemmas.UgridLayout

/-! C20 for the serial UGRID reader: what an accepted file guarantees -/
namespace Refine.Lemmas.Ugrid
open Refine.Gen Refine.Model.Endian Refine.Model.Ugrid
open Refine.Model.Meshb (Bytes Status Vertex P Cfg takeN encLE decLE toSigned ofSigned int32 wrap32 adjAdd adjAddAll)

/-! ### rows -/

theorem rows_length (per n : Nat) (xs : List Int) : (rows per n xs).length = n := by
  induction n generalizing xs with
  | zero => rfl
  | succ n ih => simp [rows, ih]

theorem rows_each (per n : Nat) (xs : List Int) (h : xs.length = per * n) : ∀ r ∈ rows per n xs, r.length = per := by
  induction n generalizing xs with
  | zero => simp [rows]
  | succ n ih =>
    intro r hr
    simp only [rows, List.mem_cons] at hr
    rcases hr with rfl | hr
    · simp; rw [Nat.mul_succ] at h; omega
    · exact ih (xs.drop per) (by simp; rw [Nat.mul_succ] at h; omega) r hr

/-! ### one row -/

theorem adjAddAll_nonneg {cfg : Cfg} {xs : List Int} (h : adjAddAll cfg xs = .ok ()) : ∀ x ∈ xs, 0 ≤ x := by
  induction xs with
  | nil => simp
  | cons x xs ih =>
    simp only [adjAddAll] at h
    cases h1 : adjAdd cfg x with
    | error e => simp [h1] at h
    | ok u =>
      simp only [h1] at h
      intro y hy
      simp only [List.mem_cons] at hy
      rcases hy with rfl | hy
      · unfold adjAdd at h1
        by_cases hneg : y < 0
        · simp [hneg] at h1
        · omega
      · exact ih h y hy

/-- what `cellOfRow` returns: the row minus one, then the tag slot; all nodes non-negative; with the index check, all
    nodes below `nnode` -/
theorem cellOfRow_ok {cfg : Cfg} {k : Kind} {nnode : Int} {raw c : List Int} (h : cellOfRow cfg k nnode raw = .ok c) :
    c = raw.map (· - 1) ++ (if k.hasTag then [-1] else []) ∧ (∀ x ∈ raw, 1 ≤ x) ∧
      (cfg.checkIndex = true → ∀ x ∈ raw, x ≤ nnode) := by
  unfold cellOfRow at h
  split at h
  · simp at h
  · split at h
    · simp at h
    · rename_i hchk
      cases ha : adjAddAll cfg (raw.map (· - 1)) with
      | error e => simp [ha] at h
      | ok u =>
        simp only [ha, Except.ok.injEq] at h
        have hnn := adjAddAll_nonneg ha
        refine ⟨h.symm, ?_, ?_⟩
        · intro x hx
          have := hnn (x - 1) (List.mem_map_of_mem hx)
          omega
        · intro hci x hx
          by_contra hgt
          apply hchk
          refine ⟨hci, ?_⟩
          rw [List.any_eq_true]
          exact ⟨x, hx, by simp; omega⟩

theorem cellsOfRows_ok {cfg : Cfg} {k : Kind} {nnode : Int} {rs cs : List (List Int)}
    (h : cellsOfRows cfg k nnode rs = .ok cs) :
    cs.length = rs.length ∧ ∀ c ∈ cs, ∃ raw ∈ rs, cellOfRow cfg k nnode raw = .ok c := by
  induction rs generalizing cs with
  | nil => simp [cellsOfRows] at h; subst h; simp
  | cons r rs ih =>
    simp only [cellsOfRows] at h
    cases h1 : cellOfRow cfg k nnode r with
    | error e => simp [h1] at h
    | ok c =>
      simp only [h1] at h
      cases h2 : cellsOfRows cfg k nnode rs with
      | error e => simp [h2] at h
      | ok cs' =>
        simp only [h2, Except.ok.injEq] at h
        subst h
        obtain ⟨hl, hm⟩ := ih h2
        refine ⟨by simp [hl], ?_⟩
        intro d hd
        simp only [List.mem_cons] at hd
        rcases hd with rfl | hd
        · exact ⟨r, by simp, h1⟩
        · obtain ⟨raw, hr, hraw⟩ := hm d hd
          exact ⟨raw, by simp [hr], hraw⟩

/-- a successful connectivity read: exactly `rem` cells, exactly `rem × node_per × ibyte` bytes consumed, every cell
    comes from a full row through `cellOfRow` -/
theorem rdConn_ok {cfg : Cfg} {fl : Flavor} {k : Kind} {nnode : Int} {maxChunk : Nat} (hm : 1 ≤ maxChunk)
    {fuel rem : Nat} (hf : rem ≤ fuel) {s r : Bytes} {cs : List (List Int)}
    (h : rdConn cfg fl k nnode maxChunk fuel rem s = .ok (cs, r)) :
    cs.length = rem ∧ s.length = rem * (k.nodePer * fl.ibytes) + r.length ∧
      ∀ c ∈ cs, ∃ raw, raw.length = k.nodePer ∧ cellOfRow cfg k nnode raw = .ok c := by
  induction fuel generalizing rem s cs with
  | zero =>
    have : rem = 0 := by omega
    subst this
    simp [rdConn] at h
    obtain ⟨rfl, rfl⟩ := h
    simp
  | succ fuel ih =>
    simp only [rdConn] at h
    by_cases h0 : rem = 0
    · subst h0
      simp at h
      obtain ⟨rfl, rfl⟩ := h
      simp
    · simp only [h0, if_false] at h
      cases h1 : rdInts fl (k.nodePer * min maxChunk rem) s with
      | error e => simp [h1] at h
      | ok p1 =>
        obtain ⟨raw, s1⟩ := p1
        simp only [h1] at h
        cases h2 : cellsOfRows cfg k nnode (rows k.nodePer (min maxChunk rem) raw) with
        | error e => simp [h2] at h
        | ok cs1 =>
          simp only [h2] at h
          cases h3 : rdConn cfg fl k nnode maxChunk fuel (rem - min maxChunk rem) s1 with
          | error e => simp [h3] at h
          | ok p3 =>
            obtain ⟨cs2, s2⟩ := p3
            simp only [h3, Except.ok.injEq, Prod.mk.injEq] at h
            obtain ⟨rfl, rfl⟩ := h
            obtain ⟨hrl, hrs⟩ := rdInts_len h1
            obtain ⟨hcl, hcm⟩ := cellsOfRows_ok h2
            have hchunk : 1 ≤ min maxChunk rem := by omega
            obtain ⟨hl2, hs2, hm2⟩ := ih (rem := rem - min maxChunk rem) (by omega) h3
            rw [rows_length] at hcl
            refine ⟨by simp [hcl, hl2] <;> omega, ?_, ?_⟩
            · rw [hrs, hs2]
              have : rem = min maxChunk rem + (rem - min maxChunk rem) := by omega
              conv_rhs => rw [this]
              ring
            · intro c hc
              simp only [List.mem_append] at hc
              rcases hc with hc | hc
              · obtain ⟨rw', hr', hraw⟩ := hcm c hc
                exact ⟨rw', rows_each _ _ _ hrl _ hr', hraw⟩
              · exact hm2 c hc

/-! ### tags -/

theorem setTags_length (k : Kind) (cs : List (List Int)) (ts : List Int) : (setTags k cs ts).length = cs.length := by
  induction cs generalizing ts with
  | nil => cases ts <;> simp [setTags]
  | cons c cs ih => cases ts <;> simp [setTags, ih]

theorem setTags_nodes (k : Kind) (cs : List (List Int)) (ts : List Int) (h : ∀ c ∈ cs, k.nodePer ≤ c.length) :
    ∀ c' ∈ setTags k cs ts, ∃ c ∈ cs, c'.take k.nodePer = c.take k.nodePer := by
  induction cs generalizing ts with
  | nil => cases ts <;> simp [setTags]
  | cons c cs ih =>
    cases ts with
    | nil => intro c' hc'; simp only [setTags] at hc'; exact ⟨c', hc', rfl⟩
    | cons t ts =>
      intro c' hc'
      simp only [setTags, List.mem_cons] at hc'
      rcases hc' with rfl | hc'
      · refine ⟨c, by simp, ?_⟩
        have := h c (by simp)
        rw [List.take_append_of_le_length (by simp; omega), List.take_take]; simp
      · obtain ⟨d, hd, he⟩ := ih ts (fun d hd => h d (by simp [hd])) c' hc'
        exact ⟨d, by simp [hd], he⟩

/-! ### the accepted file -/

/-- nodes of a cell produced by `cellOfRow` from a full row -/
theorem cell_nodes {cfg : Cfg} {k : Kind} {nnode : Int} {raw c : List Int} (hl : raw.length = k.nodePer)
    (h : cellOfRow cfg k nnode raw = .ok c) :
    k.nodePer ≤ c.length ∧ (∀ x ∈ c.take k.nodePer, 0 ≤ x) ∧
      (cfg.checkIndex = true → ∀ x ∈ c.take k.nodePer, x < nnode) := by
  obtain ⟨rfl, h1, h2⟩ := cellOfRow_ok h
  have ht : (raw.map (· - 1) ++ (if k.hasTag then [-1] else [])).take k.nodePer = raw.map (· - 1) := by
    rw [List.take_append_of_le_length (by simp [hl]), List.take_of_length_le (by simp [hl])]
  rw [ht]
  refine ⟨by simp [hl], ?_, ?_⟩
  · intro x hx
    simp only [List.mem_map] at hx
    obtain ⟨y, hy, rfl⟩ := hx
    have := h1 y hy; omega
  · intro hci x hx
    simp only [List.mem_map] at hx
    obtain ⟨y, hy, rfl⟩ := hx
    have := h2 hci y hy; omega

/-- everything an accepted file gives, in one statement: sizes and node-index ranges -/
theorem decode_ok {cfg : Cfg} {maxChunk : Nat} (hm : 1 ≤ maxChunk) {fl : Flavor} {bs : Bytes} {m : UMesh}
    (h : decodeUgridChunked cfg maxChunk fl bs = .ok m) :
    (7 * fl.ibytes + m.nodes.length * 24 +
        (3 * m.tri.length + 4 * m.qua.length + m.tri.length + m.qua.length + 4 * m.tet.length + 5 * m.pyr.length +
          6 * m.pri.length + 8 * m.hex.length) * fl.ibytes ≤ bs.length) ∧
    (∀ k : Kind, ∀ c ∈ m.get k, ∀ x ∈ c.take k.nodePer, 0 ≤ x) ∧
    (cfg.checkIndex = true → ∀ k : Kind, ∀ c ∈ m.get k, ∀ x ∈ c.take k.nodePer, x < (m.nodes.length : Int)) := by
  unfold decodeUgridChunked at h
  cases h0 : rdInts fl 7 bs with
  | error e => simp [h0] at h
  | ok p0 =>
    obtain ⟨hdr, s0⟩ := p0
    rw [h0] at h
    dsimp only at h
    by_cases hub : 3 * hdr.getD 0 0 < -(2 ^ 31 : Int)
    · rw [if_pos hub] at h; simp at h
    · rw [if_neg hub] at h
      by_cases hnn : hdr.getD 0 0 < 0
      · rw [if_pos hnn] at h; simp at h
      · rw [if_neg hnn] at h
        cases hv : rdVerts fl (hdr.getD 0 0).toNat s0 with
        | error e => rw [hv] at h; simp at h
        | ok pv =>
        obtain ⟨nodes, s1⟩ := pv
        rw [hv] at h; dsimp only at h
        cases h1 : rdConn cfg fl .tri (hdr.getD 0 0) maxChunk (cnt (hdr.getD 1 0)) (cnt (hdr.getD 1 0)) s1 with
        | error e => rw [h1] at h; simp at h
        | ok p1 =>
        obtain ⟨tri, s2⟩ := p1
        rw [h1] at h; dsimp only at h
        cases h2 : rdConn cfg fl .qua (hdr.getD 0 0) maxChunk (cnt (hdr.getD 2 0)) (cnt (hdr.getD 2 0)) s2 with
        | error e => rw [h2] at h; simp at h
        | ok p2 =>
        obtain ⟨qua, s3⟩ := p2
        rw [h2] at h; dsimp only at h
        cases h3 : rdInts fl (cnt (hdr.getD 1 0)) s3 with
        | error e => rw [h3] at h; simp at h
        | ok p3 =>
        obtain ⟨ttag, s4⟩ := p3
        rw [h3] at h; dsimp only at h
        cases h4 : rdInts fl (cnt (hdr.getD 2 0)) s4 with
        | error e => rw [h4] at h; simp at h
        | ok p4 =>
        obtain ⟨qtag, s5⟩ := p4
        rw [h4] at h; dsimp only at h
        cases h5 : rdConn cfg fl .tet (hdr.getD 0 0) maxChunk (cnt (hdr.getD 3 0)) (cnt (hdr.getD 3 0)) s5 with
        | error e => rw [h5] at h; simp at h
        | ok p5 =>
        obtain ⟨tet, s6⟩ := p5
        rw [h5] at h; dsimp only at h
        cases h6 : rdConn cfg fl .pyr (hdr.getD 0 0) maxChunk (cnt (hdr.getD 4 0)) (cnt (hdr.getD 4 0)) s6 with
        | error e => rw [h6] at h; simp at h
        | ok p6 =>
        obtain ⟨pyr, s7⟩ := p6
        rw [h6] at h; dsimp only at h
        cases h7 : rdConn cfg fl .pri (hdr.getD 0 0) maxChunk (cnt (hdr.getD 5 0)) (cnt (hdr.getD 5 0)) s7 with
        | error e => rw [h7] at h; simp at h
        | ok p7 =>
        obtain ⟨pri, s8⟩ := p7
        rw [h7] at h; dsimp only at h
        cases h8 : rdConn cfg fl .hex (hdr.getD 0 0) maxChunk (cnt (hdr.getD 6 0)) (cnt (hdr.getD 6 0)) s8 with
        | error e => rw [h8] at h; simp at h
        | ok p8 =>
        obtain ⟨hex, s9⟩ := p8
        rw [h8] at h; dsimp only at h
        simp only [Except.ok.injEq] at h
        subst h
        obtain ⟨_, l0⟩ := rdInts_len h0
        obtain ⟨nl, lv⟩ := rdVerts_len hv
        obtain ⟨c1, l1, n1⟩ := rdConn_ok hm (Nat.le_refl _) h1
        obtain ⟨c2, l2, n2⟩ := rdConn_ok hm (Nat.le_refl _) h2
        obtain ⟨t3, l3⟩ := rdInts_len h3
        obtain ⟨t4, l4⟩ := rdInts_len h4
        obtain ⟨c5, l5, n5⟩ := rdConn_ok hm (Nat.le_refl _) h5
        obtain ⟨c6, l6, n6⟩ := rdConn_ok hm (Nat.le_refl _) h6
        obtain ⟨c7, l7, n7⟩ := rdConn_ok hm (Nat.le_refl _) h7
        obtain ⟨c8, l8, n8⟩ := rdConn_ok hm (Nat.le_refl _) h8
        have hnodes : (nodes.length : Int) = hdr.getD 0 0 := by
          rw [nl]; exact Int.toNat_of_nonneg (by omega)
        rw [nodePer_tri] at l1; rw [nodePer_qua] at l2; rw [nodePer_tet] at l5; rw [nodePer_pyr] at l6
        rw [nodePer_pri] at l7; rw [nodePer_hex] at l8
        -- per-cell facts, through setTags for the boundary faces
        have key : ∀ (k : Kind) (cs : List (List Int)),
            (∀ c ∈ cs, ∃ raw, raw.length = k.nodePer ∧ cellOfRow cfg k (hdr.getD 0 0) raw = .ok c) →
            ∀ c ∈ cs, k.nodePer ≤ c.length ∧ (∀ x ∈ c.take k.nodePer, 0 ≤ x) ∧
              (cfg.checkIndex = true → ∀ x ∈ c.take k.nodePer, x < (nodes.length : Int)) := by
          intro k cs hcs c hc
          obtain ⟨raw, hl, hr⟩ := hcs c hc
          have := cell_nodes hl hr
          rw [hnodes]; exact this
        have ktri := key .tri tri n1
        have kqua := key .qua qua n2
        have stri := setTags_nodes .tri tri ttag (fun c hc => (ktri c hc).1)
        have squa := setTags_nodes .qua qua qtag (fun c hc => (kqua c hc).1)
        refine ⟨?_, ?_, ?_⟩
        · simp only [setTags_length]
          rw [l0, lv, l1, l2, l3, l4, l5, l6, l7, l8, c1, c2, c5, c6, c7, c8, nl]
          have e : 7 * fl.ibytes +
              ((hdr.getD 0 0).toNat * 24 +
                (cnt (hdr.getD 1 0) * (3 * fl.ibytes) +
                  (cnt (hdr.getD 2 0) * (4 * fl.ibytes) +
                    (cnt (hdr.getD 1 0) * fl.ibytes +
                      (cnt (hdr.getD 2 0) * fl.ibytes +
                        (cnt (hdr.getD 3 0) * (4 * fl.ibytes) +
                          (cnt (hdr.getD 4 0) * (5 * fl.ibytes) +
                            (cnt (hdr.getD 5 0) * (6 * fl.ibytes) +
                              (cnt (hdr.getD 6 0) * (8 * fl.ibytes) + s9.length))))))))) =
              7 * fl.ibytes + (hdr.getD 0 0).toNat * 24 +
                (3 * cnt (hdr.getD 1 0) + 4 * cnt (hdr.getD 2 0) + cnt (hdr.getD 1 0) + cnt (hdr.getD 2 0) +
                  4 * cnt (hdr.getD 3 0) + 5 * cnt (hdr.getD 4 0) + 6 * cnt (hdr.getD 5 0) +
                  8 * cnt (hdr.getD 6 0)) * fl.ibytes + s9.length := by ring
          omega
        · intro k c hc
          cases k <;> simp only [UMesh.get] at hc
          · obtain ⟨d, hd, he⟩ := stri c hc
            rw [he]; exact (ktri d hd).2.1
          · obtain ⟨d, hd, he⟩ := squa c hc
            rw [he]; exact (kqua d hd).2.1
          · exact (key .tet tet n5 c hc).2.1
          · exact (key .pyr pyr n6 c hc).2.1
          · exact (key .pri pri n7 c hc).2.1
          · exact (key .hex hex n8 c hc).2.1
        · intro hci k c hc
          cases k <;> simp only [UMesh.get] at hc
          · obtain ⟨d, hd, he⟩ := stri c hc
            rw [he]; exact (ktri d hd).2.2 hci
          · obtain ⟨d, hd, he⟩ := squa c hc
            rw [he]; exact (kqua d hd).2.2 hci
          · exact (key .tet tet n5 c hc).2.2 hci
          · exact (key .pyr pyr n6 c hc).2.2 hci
          · exact (key .pri pri n7 c hc).2.2 hci
          · exact (key .hex hex n8 c hc).2.2 hci

theorem indicesInRange_iff (m : UMesh) :
    indicesInRange m = true ↔ ∀ k : Kind, ∀ c ∈ m.get k, ∀ x ∈ c.take k.nodePer, 0 ≤ x ∧ x < (m.nodes.length : Int) := by
  unfold indicesInRange
  simp only [List.all_eq_true, decide_eq_true_eq, Kind.all]
  constructor
  · intro h k; exact h k (by cases k <;> simp)
  · intro h k _; exact h k

end Refine.Lemmas.Ugrid
