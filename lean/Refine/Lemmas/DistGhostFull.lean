import Refine.Model.Dist
import Refine.Lemmas.Comm
import Refine.Lemmas.DistGhost
import Refine.Props.C17
import Mathlib.Data.List.Nodup
import Mathlib.Data.List.Basic
import Mathlib.Data.List.Perm.Subperm

/-!
  The whole of `ref_node_ghost_int / _glob / _dbl` (`Refine.Model.Dist.ghost`): the `alltoall` of the bucket sizes,
  the `alltoallv` of the requested globals, the owner-side lookup, the reply `alltoallv` and the store loop.
  Helper lemmas for `Refine/Props/C06Ghost.lean` (`ghostRefresh_spec`).

  Vocabulary:
  * `ghostsTo me p nodes` — the entries of rank `me` that are ghosts (`part ≠ me`) owned by `p`, slot order;
  * `ghostsAll np me nodes` — all of them, by owner then slot order (the order of `a_global`);
  * `ownerVals w nd` — the values the rank `nd.part` holds for the global `nd.glob`;
  * `nGhosts r nodes`, `nRequests w r` — `a_total` and `b_total` of rank `r`.
-/
namespace Refine.Lemmas.DistGhostFull
open Refine.Model.Dist Refine.Model.Comm Refine.Lemmas.Comm

variable {β : Type}

/-! ## vocabulary -/

/-- the entries of rank `me` that are ghosts (`part ≠ me`) with `part = p`, in slot order -/
def ghostsTo (me p : Nat) (nodes : List (GNode β)) : List (GNode β) :=
  nodes.filter fun nd => nd.part != (me : Int) && nd.part == (p : Int)

/-- all ghost entries of rank `me` whose part is a rank, by owner and then slot order (the order of `a_global`) -/
def ghostsAll (np me : Nat) (nodes : List (GNode β)) : List (GNode β) :=
  ((List.range np).map fun p => ghostsTo me p nodes).flatten

/-- the values the owner holds for the entry `nd` (owner = rank `nd.part`) -/
def ownerVals (w : World (List (GNode β))) (nd : GNode β) : List β :=
  (lookupVals (w.getD nd.part.toNat []) nd.glob).getD []

/-- `a_total` of rank `r`: the number of its ghost entries -/
def nGhosts (r : Nat) (nodes : List (GNode β)) : Nat :=
  (nodes.filter fun nd => nd.part != (r : Int)).length

/-- `b_total` of rank `r`: the number of entries, over all ranks `s`, that are ghosts on `s` and name `r` -/
def nRequests (w : World (List (GNode β))) (r : Nat) : Nat :=
  (w.mapIdx fun s nodes => (ghostsTo s r nodes).length).sum

theorem ghostBuckets_eq (np me : Nat) (nodes : List (GNode β)) :
    ghostBuckets np me nodes = (List.range np).map fun p => (ghostsTo me p nodes).map (·.glob) := rfl

theorem mem_ghostsTo {me p : Nat} {nodes : List (GNode β)} {nd : GNode β} :
    nd ∈ ghostsTo me p nodes ↔ nd ∈ nodes ∧ nd.part ≠ (me : Int) ∧ nd.part = (p : Int) := by
  simp [ghostsTo]

theorem mem_ghostsAll {np me : Nat} {nodes : List (GNode β)} {nd : GNode β} :
    nd ∈ ghostsAll np me nodes ↔ nd ∈ nodes ∧ nd.part ≠ (me : Int) ∧ ∃ p, p < np ∧ nd.part = (p : Int) := by
  simp only [ghostsAll, List.mem_flatten, List.mem_map, List.mem_range]
  constructor
  · rintro ⟨l, ⟨p, hp, rfl⟩, h⟩
    obtain ⟨h1, h2, h3⟩ := mem_ghostsTo.mp h
    exact ⟨h1, h2, p, hp, h3⟩
  · rintro ⟨h1, h2, p, hp, h3⟩
    exact ⟨_, ⟨p, hp, rfl⟩, mem_ghostsTo.mpr ⟨h1, h2, h3⟩⟩

/-! ## small list facts -/

theorem glob_inj {nodes : List (GNode β)} (hnd : (nodes.map (·.glob)).Nodup) {a b : GNode β}
    (ha : a ∈ nodes) (hb : b ∈ nodes) (h : a.glob = b.glob) : a = b :=
  List.inj_on_of_nodup_map hnd ha hb h

/-- with distinct globals the lookup of an entry's global finds that entry -/
theorem lookupVals_of_mem {nodes : List (GNode β)} (hnd : (nodes.map (·.glob)).Nodup) {od : GNode β}
    (hod : od ∈ nodes) : lookupVals nodes od.glob = some od.vals := by
  unfold lookupVals
  cases h : nodes.find? (fun nd => nd.glob == od.glob) with
  | none =>
    rw [List.find?_eq_none] at h
    have := h od hod
    simp at this
  | some x =>
    have hx : x ∈ nodes := List.mem_of_find?_eq_some h
    have hg : x.glob = od.glob := by simpa using List.find?_some h
    rw [glob_inj hnd hx hod hg]
    rfl

theorem mapM_option_eq_some {α γ : Type} (f : α → Option γ) (h : α → γ) (l : List α)
    (H : ∀ a ∈ l, f a = some (h a)) : l.mapM f = some (l.map h) := by
  induction l with
  | nil => simp
  | cons a l ih =>
    rw [List.mapM_cons, H a List.mem_cons_self, ih (fun b hb => H b (List.mem_cons_of_mem _ hb))]
    simp

theorem map_mapIdx' {α γ δ : Type} (l : List α) (f : Nat → α → γ) (g : γ → δ) :
    (l.mapIdx f).map g = l.mapIdx fun i a => g (f i a) := by
  apply List.ext_getElem
  · simp
  · intro i h1 h2
    simp

theorem flatten_map_singleton {α γ : Type} (l : List α) (f : α → γ) :
    (l.map fun x => [f x]).flatten = l.map f := by
  induction l with
  | nil => rfl
  | cons a l ih => simp [ih]

/-- splitting the flat reply buffer into `ldim`-items gives the items back -/
theorem chunks_flatten (ldim : Nat) (items : List (List β)) (h : ∀ it ∈ items, it.length = ldim) :
    chunks ldim items.length items.flatten = items := by
  induction items with
  | nil => rfl
  | cons it items ih =>
    have h1 := h it List.mem_cons_self
    simp only [List.length_cons, chunks, List.flatten_cons]
    rw [List.take_left' h1, List.drop_left' h1, ih (fun x hx => h x (List.mem_cons_of_mem _ hx))]

/-! ## the ghosts of one rank -/

theorem ghostsAll_nodup (np me : Nat) (nodes : List (GNode β)) (hnd : (nodes.map (·.glob)).Nodup) :
    (ghostsAll np me nodes).Nodup := by
  unfold ghostsAll
  rw [List.nodup_flatten]
  constructor
  · intro l hl
    simp only [List.mem_map, List.mem_range] at hl
    obtain ⟨p, _, rfl⟩ := hl
    exact (List.Nodup.of_map _ hnd).filter _
  · rw [List.pairwise_map]
    refine List.Pairwise.imp ?_ (List.nodup_range (n := np))
    intro p q hpq nd h1 h2
    have e1 := (mem_ghostsTo.mp h1).2.2
    have e2 := (mem_ghostsTo.mp h2).2.2
    rw [e1] at e2
    exact hpq (by exact_mod_cast e2)

theorem ghostsAll_glob_nodup (np me : Nat) (nodes : List (GNode β)) (hnd : (nodes.map (·.glob)).Nodup) :
    ((ghostsAll np me nodes).map (·.glob)).Nodup := by
  apply List.Nodup.map_on _ (ghostsAll_nodup np me nodes hnd)
  intro a ha b hb h
  exact glob_inj hnd (mem_ghostsAll.mp ha).1 (mem_ghostsAll.mp hb).1 h

/-- the buckets hold no more than the ghosts (`∑ a_size = a_total`) -/
theorem ghostsAll_length_le (np me : Nat) (nodes : List (GNode β)) (hnd : (nodes.map (·.glob)).Nodup) :
    (ghostsAll np me nodes).length ≤ nGhosts me nodes := by
  unfold nGhosts
  apply List.Subperm.length_le
  apply List.subperm_of_subset (ghostsAll_nodup np me nodes hnd)
  intro nd h
  have := mem_ghostsAll.mp h
  simp only [List.mem_filter, bne_iff_ne, ne_eq]
  exact ⟨this.1, this.2.1⟩

/-- the store loop of one rank fed with `(global, owner's values)` of its ghosts (owner order, then slot order):
    every ghost entry takes the owner's values, the owned entries stay -/
theorem store_rank (w : World (List (GNode β))) (np r : Nat) (nodes : List (GNode β))
    (hnd : (nodes.map (·.glob)).Nodup)
    (hpart : ∀ nd ∈ nodes, nd.part ≠ (r : Int) → ∃ p, p < np ∧ nd.part = (p : Int)) :
    ((ghostsAll np r nodes).map fun nd => (nd.glob, ownerVals w nd)).foldl
        (fun ns gi => storeVals ns gi.1 gi.2) nodes
      = nodes.map fun nd => if nd.part = (r : Int) then nd else { nd with vals := ownerVals w nd } := by
  rw [Refine.Lemmas.DistGhost.foldl_storeVals _ nodes hnd
    (by rw [List.map_map]; exact ghostsAll_glob_nodup np r nodes hnd)]
  apply List.map_congr_left
  intro nd hmem
  cases hf : ((ghostsAll np r nodes).map fun nd => (nd.glob, ownerVals w nd)).find?
      (fun gv => gv.1 == nd.glob) with
  | none =>
    simp only []
    rw [List.find?_eq_none] at hf
    by_cases hp : nd.part = (r : Int)
    · simp [hp]
    · exfalso
      have hin : nd ∈ ghostsAll np r nodes := mem_ghostsAll.mpr ⟨hmem, hp, hpart nd hmem hp⟩
      have := hf (nd.glob, ownerVals w nd) (List.mem_map.mpr ⟨nd, hin, rfl⟩)
      simp at this
  | some gv =>
    simp only []
    have hgv := List.mem_of_find?_eq_some hf
    have hk : gv.1 = nd.glob := by simpa using List.find?_some hf
    obtain ⟨nd', hin', rfl⟩ := List.mem_map.mp hgv
    have hm' := mem_ghostsAll.mp hin'
    have : nd' = nd := glob_inj hnd hm'.1 hmem hk
    subst this
    simp [hm'.2.1]

/-! ## the request exchange (`alltoall` of `a_size`, `alltoallv` of `a_global`) -/

/-- `a_global` of every rank, bucketed -/
def bucketsW (w : World (List (GNode β))) : World (List (List Int)) :=
  w.mapIdx fun r nodes => ghostBuckets w.length r nodes

/-- `a_size` of every rank -/
def aSizeW (w : World (List (GNode β))) : World (List Int) :=
  (bucketsW w).map fun b => b.map fun l => (l.length : Int)

/-- `b_size` of every rank -/
def bSizeW (w : World (List (GNode β))) : World (List Int) := mpiAlltoall (aSizeW w)

/-- the arguments of the first `ref_mpi_alltoallv` -/
def args1W (w : World (List (GNode β))) : World (A2A Int) :=
  ((bucketsW w).zip ((aSizeW w).zip (bSizeW w))).map fun x =>
    ⟨x.1.flatten, x.2.1, List.replicate (isum x.2.2).toNat 0, x.2.2⟩

/-- `blocks1[s][p]`: the globals rank `s` requests from rank `p`, one item (of one scalar) each -/
def blocks1 (w : World (List (GNode β))) : List (List (List (List Int))) :=
  w.mapIdx fun s nodes => (List.range w.length).map fun p =>
    ((ghostsTo s p nodes).map (·.glob)).map fun g => [g]

/-- what rank `r` is asked for, by source rank (the order of `b_global`) -/
def reqGlobs (w : World (List (GNode β))) (r : Nat) : List Int :=
  (w.mapIdx fun s nodes => (ghostsTo s r nodes).map (·.glob)).flatten

def recv1 (w : World (List (GNode β))) (r : Nat) : List Int :=
  List.replicate (isum (countsI (column r (blocks1 w)))).toNat 0

theorem column_blocks1 (w : World (List (GNode β))) (r : Nat) (hr : r < w.length) :
    column r (blocks1 w) = w.mapIdx fun s nodes => ((ghostsTo s r nodes).map (·.glob)).map fun g => [g] := by
  unfold column blocks1
  rw [map_mapIdx']
  apply List.ext_getElem
  · simp
  · intro s h1 h2
    simp only [List.getElem_mapIdx]
    exact getD_map_range w.length r hr _ []

theorem countsI_column_blocks1 (w : World (List (GNode β))) (r : Nat) (hr : r < w.length) :
    countsI (column r (blocks1 w)) = w.mapIdx fun s nodes => ((ghostsTo s r nodes).length : Int) := by
  rw [column_blocks1 w r hr]
  unfold countsI
  rw [map_mapIdx']
  simp

theorem sum_column_blocks1 (w : World (List (GNode β))) (r : Nat) (hr : r < w.length) :
    (countsI (column r (blocks1 w))).sum = (nRequests w r : Int) := by
  rw [countsI_sum_eq_length, column_blocks1 w r hr, nRequests, List.length_flatten, map_mapIdx']
  simp

theorem bSizeW_getElem (w : World (List (GNode β))) (r : Nat) (hr : r < w.length)
    (h : r < (bSizeW w).length) : (bSizeW w)[r] = countsI (column r (blocks1 w)) := by
  rw [countsI_column_blocks1 w r hr]
  simp only [bSizeW, mpiAlltoall, aSizeW, bucketsW, List.getElem_map, List.getElem_range, map_mapIdx']
  apply List.ext_getElem
  · simp
  · intro s h1 h2
    simp only [List.getElem_mapIdx, ghostBuckets_eq, List.map_map, Function.comp_def, List.length_map]
    exact getD_map_range w.length r hr _ _

theorem args1W_eq (w : World (List (GNode β))) : args1W w = a2aWorld (blocks1 w) (recv1 w) := by
  apply List.ext_getElem
  · simp [args1W, bucketsW, aSizeW, bSizeW, mpiAlltoall, a2aWorld, blocks1]
  · intro r h1 h2
    have hr : r < w.length := by simpa [a2aWorld, blocks1] using h2
    simp only [args1W, a2aWorld, List.getElem_map, List.getElem_zip, List.getElem_mapIdx]
    rw [bSizeW_getElem w r hr]
    simp only [aSizeW, bucketsW, blocks1, List.getElem_map, List.getElem_mapIdx, ghostBuckets_eq, recv1]
    congr 1
    · simp only [List.map_map, Function.comp_def]
      congr 1
      apply List.map_congr_left
      intro p _
      exact (flatten_map_singleton _ _).symm
    · simp [countsI, List.map_map, Function.comp_def]

theorem blocks1_length (w : World (List (GNode β))) : (blocks1 w).length = w.length := by
  simp [blocks1]

theorem blocks1_row_sum (w : World (List (GNode β))) (s : Nat) (hs : s < w.length) (h : s < (blocks1 w).length) :
    (countsI (blocks1 w)[s]).sum = ((ghostsAll w.length s w[s]).length : Int) := by
  rw [countsI_sum_eq_length]
  simp only [blocks1, List.getElem_mapIdx, ghostsAll, List.length_flatten, List.map_map, Function.comp_def,
    List.length_map]

theorem column_blocks1_flatten (w : World (List (GNode β))) (r : Nat) (hr : r < w.length) :
    ((column r (blocks1 w)).flatten).flatten = reqGlobs w r := by
  rw [column_blocks1 w r hr, List.flatten_flatten, map_mapIdx', reqGlobs]
  congr 1
  apply List.ext_getElem
  · simp
  · intro s h1 h2
    simp only [List.getElem_mapIdx, List.map_map, Function.comp_def]
    exact flatten_map_singleton _ _

/-- the first `ref_mpi_alltoallv`: every rank receives the globals requested from it, by source rank and then in the
    source's bucket order -/
theorem exch1 (w : World (List (GNode β)))
    (hs : ∀ r (hr : r < w.length), ((ghostsAll w.length r w[r]).length : Int) ≤ INT_MAX)
    (hq : ∀ r, r < w.length → (nRequests w r : Int) ≤ INT_MAX) :
    alltoallv false RefType.long 0 1 (args1W w)
      = some ((List.range w.length).map fun r => (Status.ok, reqGlobs w r)) := by
  rw [args1W_eq]
  have h := Refine.Props.C17.alltoallv_spec RefType.long rfl 0 1 (blocks1 w) (recv1 w)
    (by
      intro b hb blk hblk it hit
      simp only [blocks1, List.mem_mapIdx] at hb
      obtain ⟨s, hs, rfl⟩ := hb
      simp only [List.mem_map] at hblk
      obtain ⟨p, _, rfl⟩ := hblk
      simp only [List.mem_map] at hit
      obtain ⟨g, _, rfl⟩ := hit
      rfl)
    (by
      intro r hr
      have h0 : 0 ≤ (countsI (column r (blocks1 w))).sum := sum_nonneg_int _ (countsI_nonneg _)
      simp only [recv1, List.length_replicate, isum_eq_sum]
      rw [Int.toNat_of_nonneg h0]
      simp)
    (by
      intro b hb
      obtain ⟨s, hsb, rfl⟩ := List.mem_iff_getElem.mp hb
      have hs' : s < w.length := by rwa [blocks1_length] at hsb
      rw [blocks1_row_sum w s hs' hsb]
      have := hs s hs'
      simpa using this)
    (by
      intro r hr
      rw [blocks1_length] at hr
      rw [sum_column_blocks1 w r hr]
      have := hq r hr
      simpa using this)
  rw [blocks1_length] at h
  rw [show ((1 : Int)) = ((1 : Nat) : Int) from rfl, h]
  congr 1
  apply List.map_congr_left
  intro r hr
  rw [column_blocks1_flatten w r (List.mem_range.mp hr)]

end Refine.Lemmas.DistGhostFull
