import Refine.Model.Dist
import Refine.Lemmas.Comm
import Refine.Lemmas.DistGhost
import Refine.Props.C17
import Mathlib.Data.List.Nodup
import Mathlib.Data.List.Basic
import Mathlib.Data.List.Perm.Subperm

/-!
  The whole of `ref_node_ghost_int / _glob / _dbl` (`Refine.Model.Dist.ghost`): the `alltoall` of the bucket sizes,
  the `alltoallv` of the requested globals, the owner-side lookup, the reply `alltoallv` and the store loop.
  Helper lemmas for `Refine/Props/C06Ghost.lean` (`ghostRefresh_spec`).

  Vocabulary:
  * `ghostsTo me p nodes` — the entries of rank `me` that are ghosts (`part ≠ me`) owned by `p`, slot order;
  * `ghostsAll np me nodes` — all of them, by owner then slot order (the order of `a_global`);
  * `ownerVals w nd` — the values the rank `nd.part` holds for the global `nd.glob`;
  * `nGhosts r nodes`, `nRequests w r` — `a_total` and `b_total` of rank `r`.
-/
namespace Refine.Lemmas.DistGhostFull
open Refine.Model.Dist Refine.Model.Comm Refine.Lemmas.Comm

variable {β : Type}

/-! ## vocabulary -/

/-- the entries of rank `me` that are ghosts (`part ≠ me`) with `part = p`, in slot order -/
def ghostsTo (me p : Nat) (nodes : List (GNode β)) : List (GNode β) :=
  nodes.filter fun nd => nd.part != (me : Int) && nd.part == (p : Int)

/-- all ghost entries of rank `me` whose part is a rank, by owner and then slot order (the order of `a_global`) -/
def ghostsAll (np me : Nat) (nodes : List (GNode β)) : List (GNode β) :=
  ((List.range np).map fun p => ghostsTo me p nodes).flatten

/-- the values the owner holds for the entry `nd` (owner = rank `nd.part`) -/
def ownerVals (w : World (List (GNode β))) (nd : GNode β) : List β :=
  (lookupVals (w.getD nd.part.toNat []) nd.glob).getD []

/-- `a_total` of rank `r`: the number of its ghost entries -/
def nGhosts (r : Nat) (nodes : List (GNode β)) : Nat :=
  (nodes.filter fun nd => nd.part != (r : Int)).length

/-- `b_total` of rank `r`: the number of entries, over all ranks `s`, that are ghosts on `s` and name `r` -/
def nRequests (w : World (List (GNode β))) (r : Nat) : Nat :=
  (w.mapIdx fun s nodes => (ghostsTo s r nodes).length).sum

theorem ghostBuckets_eq (np me : Nat) (nodes : List (GNode β)) :
    ghostBuckets np me nodes = (List.range np).map fun p => (ghostsTo me p nodes).map (·.glob) := rfl

theorem mem_ghostsTo {me p : Nat} {nodes : List (GNode β)} {nd : GNode β} :
    nd ∈ ghostsTo me p nodes ↔ nd ∈ nodes ∧ nd.part ≠ (me : Int) ∧ nd.part = (p : Int) := by
  simp [ghostsTo]

theorem mem_ghostsAll {np me : Nat} {nodes : List (GNode β)} {nd : GNode β} :
    nd ∈ ghostsAll np me nodes ↔ nd ∈ nodes ∧ nd.part ≠ (me : Int) ∧ ∃ p, p < np ∧ nd.part = (p : Int) := by
  simp only [ghostsAll, List.mem_flatten, List.mem_map, List.mem_range]
  constructor
  · rintro ⟨l, ⟨p, hp, rfl⟩, h⟩
    obtain ⟨h1, h2, h3⟩ := mem_ghostsTo.mp h
    exact ⟨h1, h2, p, hp, h3⟩
  · rintro ⟨h1, h2, p, hp, h3⟩
    exact ⟨_, ⟨p, hp, rfl⟩, mem_ghostsTo.mpr ⟨h1, h2, h3⟩⟩

/-! ## small list facts -/

theorem glob_inj {nodes : List (GNode β)} (hnd : (nodes.map (·.glob)).Nodup) {a b : GNode β}
    (ha : a ∈ nodes) (hb : b ∈ nodes) (h : a.glob = b.glob) : a = b :=
  List.inj_on_of_nodup_map hnd ha hb h

/-- with distinct globals the lookup of an entry's global finds that entry -/
theorem lookupVals_of_mem {nodes : List (GNode β)} (hnd : (nodes.map (·.glob)).Nodup) {od : GNode β}
    (hod : od ∈ nodes) : lookupVals nodes od.glob = some od.vals := by
  unfold lookupVals
  cases h : nodes.find? (fun nd => nd.glob == od.glob) with
  | none =>
    rw [List.find?_eq_none] at h
    have := h od hod
    simp at this
  | some x =>
    have hx : x ∈ nodes := List.mem_of_find?_eq_some h
    have hg : x.glob = od.glob := by simpa using List.find?_some h
    rw [glob_inj hnd hx hod hg]
    rfl

theorem mapM_option_eq_some {α γ : Type} (f : α → Option γ) (h : α → γ) (l : List α)
    (H : ∀ a ∈ l, f a = some (h a)) : l.mapM f = some (l.map h) := by
  induction l with
  | nil => simp
  | cons a l ih =>
    rw [List.mapM_cons, H a List.mem_cons_self, ih (fun b hb => H b (List.mem_cons_of_mem _ hb))]
    simp

theorem map_mapIdx' {α γ δ : Type} (l : List α) (f : Nat → α → γ) (g : γ → δ) :
    (l.mapIdx f).map g = l.mapIdx fun i a => g (f i a) := by
  apply List.ext_getElem
  · simp
  · intro i h1 h2
    simp

theorem flatten_map_singleton {α γ : Type} (l : List α) (f : α → γ) :
    (l.map fun x => [f x]).flatten = l.map f := by
  induction l with
  | nil => rfl
  | cons a l ih => simp [ih]

theorem getD_lt {α : Type} (l : List α) (d : α) {r : Nat} (h : r < l.length) : l.getD r d = l[r] := by
  simp [List.getD_eq_getElem?_getD, h]

/-- splitting the flat reply buffer into `ldim`-items gives the items back -/
theorem chunks_flatten (ldim : Nat) (items : List (List β)) (h : ∀ it ∈ items, it.length = ldim) :
    chunks ldim items.length items.flatten = items := by
  induction items with
  | nil => rfl
  | cons it items ih =>
    have h1 := h it List.mem_cons_self
    simp only [List.length_cons, chunks, List.flatten_cons]
    rw [List.take_left' h1, List.drop_left' h1, ih (fun x hx => h x (List.mem_cons_of_mem _ hx))]

/-! ## the ghosts of one rank -/

theorem ghostsAll_nodup (np me : Nat) (nodes : List (GNode β)) (hnd : (nodes.map (·.glob)).Nodup) :
    (ghostsAll np me nodes).Nodup := by
  unfold ghostsAll
  rw [List.nodup_flatten]
  constructor
  · intro l hl
    simp only [List.mem_map, List.mem_range] at hl
    obtain ⟨p, _, rfl⟩ := hl
    exact (List.Nodup.of_map _ hnd).filter _
  · rw [List.pairwise_map]
    refine List.Pairwise.imp ?_ (List.nodup_range (n := np))
    intro p q hpq nd h1 h2
    have e1 := (mem_ghostsTo.mp h1).2.2
    have e2 := (mem_ghostsTo.mp h2).2.2
    rw [e1] at e2
    exact hpq (by exact_mod_cast e2)

theorem ghostsAll_glob_nodup (np me : Nat) (nodes : List (GNode β)) (hnd : (nodes.map (·.glob)).Nodup) :
    ((ghostsAll np me nodes).map (·.glob)).Nodup := by
  apply List.Nodup.map_on _ (ghostsAll_nodup np me nodes hnd)
  intro a ha b hb h
  exact glob_inj hnd (mem_ghostsAll.mp ha).1 (mem_ghostsAll.mp hb).1 h

/-- the buckets hold no more than the ghosts (`∑ a_size = a_total`) -/
theorem ghostsAll_length_le (np me : Nat) (nodes : List (GNode β)) (hnd : (nodes.map (·.glob)).Nodup) :
    (ghostsAll np me nodes).length ≤ nGhosts me nodes := by
  unfold nGhosts
  apply List.Subperm.length_le
  apply List.subperm_of_subset (ghostsAll_nodup np me nodes hnd)
  intro nd h
  have := mem_ghostsAll.mp h
  simp only [List.mem_filter, bne_iff_ne, ne_eq]
  exact ⟨this.1, this.2.1⟩

/-- the store loop of one rank fed with `(global, owner's values)` of its ghosts (owner order, then slot order):
    every ghost entry takes the owner's values, the owned entries stay -/
theorem store_rank (w : World (List (GNode β))) (np r : Nat) (nodes : List (GNode β))
    (hnd : (nodes.map (·.glob)).Nodup)
    (hpart : ∀ nd ∈ nodes, nd.part ≠ (r : Int) → ∃ p, p < np ∧ nd.part = (p : Int)) :
    ((ghostsAll np r nodes).map fun nd => (nd.glob, ownerVals w nd)).foldl
        (fun ns gi => storeVals ns gi.1 gi.2) nodes
      = nodes.map fun nd => if nd.part = (r : Int) then nd else { nd with vals := ownerVals w nd } := by
  rw [Refine.Lemmas.DistGhost.foldl_storeVals _ nodes hnd
    (by rw [List.map_map]; exact ghostsAll_glob_nodup np r nodes hnd)]
  apply List.map_congr_left
  intro nd hmem
  cases hf : ((ghostsAll np r nodes).map fun nd => (nd.glob, ownerVals w nd)).find?
      (fun gv => gv.1 == nd.glob) with
  | none =>
    simp only []
    rw [List.find?_eq_none] at hf
    by_cases hp : nd.part = (r : Int)
    · simp [hp]
    · exfalso
      have hin : nd ∈ ghostsAll np r nodes := mem_ghostsAll.mpr ⟨hmem, hp, hpart nd hmem hp⟩
      have := hf (nd.glob, ownerVals w nd) (List.mem_map.mpr ⟨nd, hin, rfl⟩)
      simp at this
  | some gv =>
    simp only []
    have hgv := List.mem_of_find?_eq_some hf
    have hk : gv.1 = nd.glob := by simpa using List.find?_some hf
    obtain ⟨nd', hin', rfl⟩ := List.mem_map.mp hgv
    have hm' := mem_ghostsAll.mp hin'
    have : nd' = nd := glob_inj hnd hm'.1 hmem hk
    subst this
    simp [hm'.2.1]

/-! ## the request exchange (`alltoall` of `a_size`, `alltoallv` of `a_global`) -/

/-- `a_global` of every rank, bucketed -/
def bucketsW (w : World (List (GNode β))) : World (List (List Int)) :=
  w.mapIdx fun r nodes => ghostBuckets w.length r nodes

/-- `a_size` of every rank -/
def aSizeW (w : World (List (GNode β))) : World (List Int) :=
  (bucketsW w).map fun b => b.map fun l => (l.length : Int)

/-- `b_size` of every rank -/
def bSizeW (w : World (List (GNode β))) : World (List Int) := mpiAlltoall (aSizeW w)

/-- the arguments of the first `ref_mpi_alltoallv` -/
def args1W (w : World (List (GNode β))) : World (A2A Int) :=
  ((bucketsW w).zip ((aSizeW w).zip (bSizeW w))).map fun x =>
    ⟨x.1.flatten, x.2.1, List.replicate (isum x.2.2).toNat 0, x.2.2⟩

/-- `blocks1[s][p]`: the globals rank `s` requests from rank `p`, one item (of one scalar) each -/
def blocks1 (w : World (List (GNode β))) : List (List (List (List Int))) :=
  w.mapIdx fun s nodes => (List.range w.length).map fun p =>
    ((ghostsTo s p nodes).map (·.glob)).map fun g => [g]

/-- what rank `r` is asked for, by source rank (the order of `b_global`) -/
def reqGlobs (w : World (List (GNode β))) (r : Nat) : List Int :=
  (w.mapIdx fun s nodes => (ghostsTo s r nodes).map (·.glob)).flatten

def recv1 (w : World (List (GNode β))) (r : Nat) : List Int :=
  List.replicate (isum (countsI (column r (blocks1 w)))).toNat 0

theorem column_blocks1 (w : World (List (GNode β))) (r : Nat) (hr : r < w.length) :
    column r (blocks1 w) = w.mapIdx fun s nodes => ((ghostsTo s r nodes).map (·.glob)).map fun g => [g] := by
  unfold column blocks1
  rw [map_mapIdx']
  apply List.ext_getElem
  · simp
  · intro s h1 h2
    simp only [List.getElem_mapIdx]
    exact getD_map_range w.length r hr _ []

theorem countsI_column_blocks1 (w : World (List (GNode β))) (r : Nat) (hr : r < w.length) :
    countsI (column r (blocks1 w)) = w.mapIdx fun s nodes => ((ghostsTo s r nodes).length : Int) := by
  rw [column_blocks1 w r hr]
  unfold countsI
  rw [map_mapIdx']
  simp

theorem sum_column_blocks1 (w : World (List (GNode β))) (r : Nat) (hr : r < w.length) :
    (countsI (column r (blocks1 w))).sum = (nRequests w r : Int) := by
  rw [countsI_sum_eq_length, column_blocks1 w r hr, nRequests, List.length_flatten, map_mapIdx']
  simp

theorem bSizeW_getElem (w : World (List (GNode β))) (r : Nat) (hr : r < w.length)
    (h : r < (bSizeW w).length) : (bSizeW w)[r] = countsI (column r (blocks1 w)) := by
  rw [countsI_column_blocks1 w r hr]
  simp only [bSizeW, mpiAlltoall, aSizeW, bucketsW, List.getElem_map, List.getElem_range, map_mapIdx']
  apply List.ext_getElem
  · simp
  · intro s h1 h2
    simp only [List.getElem_mapIdx, ghostBuckets_eq, List.map_map, Function.comp_def, List.length_map]
    exact getD_map_range w.length r hr _ _

theorem args1W_eq (w : World (List (GNode β))) : args1W w = a2aWorld (blocks1 w) (recv1 w) := by
  apply List.ext_getElem
  · simp [args1W, bucketsW, aSizeW, bSizeW, mpiAlltoall, a2aWorld, blocks1]
  · intro r h1 h2
    have hr : r < w.length := by simpa [a2aWorld, blocks1] using h2
    simp only [args1W, a2aWorld, List.getElem_map, List.getElem_zip, List.getElem_mapIdx]
    rw [bSizeW_getElem w r hr]
    simp only [aSizeW, bucketsW, blocks1, List.getElem_map, List.getElem_mapIdx, ghostBuckets_eq, recv1]
    congr 1
    · simp only [List.map_map, Function.comp_def]
      congr 1
      apply List.map_congr_left
      intro p _
      exact (flatten_map_singleton _ _).symm
    · simp [countsI, List.map_map, Function.comp_def]

theorem blocks1_length (w : World (List (GNode β))) : (blocks1 w).length = w.length := by
  simp [blocks1]

theorem blocks1_row_sum (w : World (List (GNode β))) (s : Nat) (hs : s < w.length) (h : s < (blocks1 w).length) :
    (countsI (blocks1 w)[s]).sum = ((ghostsAll w.length s w[s]).length : Int) := by
  rw [countsI_sum_eq_length]
  simp only [blocks1, List.getElem_mapIdx, ghostsAll, List.length_flatten, List.map_map, Function.comp_def,
    List.length_map]

theorem column_blocks1_flatten (w : World (List (GNode β))) (r : Nat) (hr : r < w.length) :
    ((column r (blocks1 w)).flatten).flatten = reqGlobs w r := by
  rw [column_blocks1 w r hr, List.flatten_flatten, map_mapIdx', reqGlobs]
  congr 1
  apply List.ext_getElem
  · simp
  · intro s h1 h2
    simp only [List.getElem_mapIdx, List.map_map, Function.comp_def]
    exact flatten_map_singleton _ _

/-- the first `ref_mpi_alltoallv`: every rank receives the globals requested from it, by source rank and then in the
    source's bucket order -/
theorem exch1 (w : World (List (GNode β)))
    (hs : ∀ r (hr : r < w.length), ((ghostsAll w.length r w[r]).length : Int) ≤ INT_MAX)
    (hq : ∀ r, r < w.length → (nRequests w r : Int) ≤ INT_MAX) :
    alltoallv false RefType.long 0 1 (args1W w)
      = some ((List.range w.length).map fun r => (Status.ok, reqGlobs w r)) := by
  rw [args1W_eq]
  have h := Refine.Props.C17.alltoallv_spec RefType.long rfl 0 1 (blocks1 w) (recv1 w)
    (by
      intro b hb blk hblk it hit
      simp only [blocks1, List.mem_mapIdx] at hb
      obtain ⟨s, hs, rfl⟩ := hb
      simp only [List.mem_map] at hblk
      obtain ⟨p, _, rfl⟩ := hblk
      simp only [List.mem_map] at hit
      obtain ⟨g, _, rfl⟩ := hit
      rfl)
    (by
      intro r hr
      have h0 : 0 ≤ (countsI (column r (blocks1 w))).sum := sum_nonneg_int _ (countsI_nonneg _)
      simp only [recv1, List.length_replicate, isum_eq_sum]
      rw [Int.toNat_of_nonneg h0]
      simp)
    (by
      intro b hb
      obtain ⟨s, hsb, rfl⟩ := List.mem_iff_getElem.mp hb
      have hs' : s < w.length := by rwa [blocks1_length] at hsb
      rw [blocks1_row_sum w s hs' hsb]
      have := hs s hs'
      simpa using this)
    (by
      intro r hr
      rw [blocks1_length] at hr
      rw [sum_column_blocks1 w r hr]
      have := hq r hr
      simpa using this)
  rw [blocks1_length] at h
  rw [show ((1 : Int)) = ((1 : Nat) : Int) from rfl, h]
  congr 1
  apply List.map_congr_left
  intro r hr
  rw [column_blocks1_flatten w r (List.mem_range.mp hr)]

/-! ## the owner side -/

/-- the hypothesis of `ghostRefresh_spec` on ghosts: the part of every ghost names a rank in range that stores the
    global with `ldim` values -/
def GhostsOwned (ldim : Nat) (w : World (List (GNode β))) : Prop :=
  ∀ r (hr : r < w.length), ∀ nd ∈ w[r], nd.part ≠ (r : Int) →
    0 ≤ nd.part ∧ nd.part.toNat < w.length ∧
    ∃ od ∈ w.getD nd.part.toNat [], od.glob = nd.glob ∧ od.vals.length = ldim

theorem lookup_ghost {ldim : Nat} {w : World (List (GNode β))}
    (hnd : ∀ nodes ∈ w, (nodes.map (·.glob)).Nodup) (hown : GhostsOwned ldim w)
    {s r : Nat} (hs : s < w.length) (hr : r < w.length) {nd : GNode β} (h : nd ∈ ghostsTo s r w[s]) :
    ∃ vals, lookupVals w[r] nd.glob = some vals ∧ vals.length = ldim := by
  obtain ⟨h1, h2, h3⟩ := mem_ghostsTo.mp h
  obtain ⟨_, _, od, hod, hg, hl⟩ := hown s hs nd h1 h2
  rw [h3, Int.toNat_natCast, getD_lt _ _ hr] at hod
  refine ⟨od.vals, ?_, hl⟩
  rw [← hg]
  exact lookupVals_of_mem (hnd _ (List.getElem_mem hr)) hod

theorem ghost_part_range {ldim : Nat} {w : World (List (GNode β))} (hown : GhostsOwned ldim w)
    {r : Nat} (hr : r < w.length) : ∀ nd ∈ w[r], nd.part ≠ (r : Int) → ∃ p, p < w.length ∧ nd.part = (p : Int) := by
  intro nd hmem hp
  obtain ⟨h0, h1, _⟩ := hown r hr nd hmem hp
  exact ⟨nd.part.toNat, h1, (Int.toNat_of_nonneg h0).symm⟩

/-- `b_vector` of every rank -/
def sendVec (w : World (List (GNode β))) : World (List β) :=
  w.mapIdx fun r nodes => ((reqGlobs w r).map fun g => (lookupVals nodes g).getD []).flatten

theorem mem_reqGlobs {w : World (List (GNode β))} {r : Nat} {g : Int} (h : g ∈ reqGlobs w r) :
    ∃ s, ∃ hs : s < w.length, ∃ nd ∈ ghostsTo s r w[s], nd.glob = g := by
  simp only [reqGlobs, List.mem_flatten, List.mem_mapIdx] at h
  obtain ⟨l, ⟨s, hs, rfl⟩, hg⟩ := h
  obtain ⟨nd, hnd, rfl⟩ := List.mem_map.mp hg
  exact ⟨s, hs, nd, hnd, rfl⟩

/-- every requested global is found by `ref_node_local` on the owner: `b_vector` is filled on every rank -/
theorem bVec_eq {ldim : Nat} (w : World (List (GNode β)))
    (hnd : ∀ nodes ∈ w, (nodes.map (·.glob)).Nodup) (hown : GhostsOwned ldim w) :
    ((w.zip (((List.range w.length).map fun r => (Status.ok, reqGlobs w r)).map (·.2))).map fun x =>
        (x.2.mapM fun g => lookupVals x.1 g).map List.flatten)
      = (sendVec w).map some := by
  apply List.ext_getElem
  · simp [sendVec]
  · intro r h1 h2
    have hr : r < w.length := by simpa [sendVec] using h2
    simp only [List.getElem_map, List.getElem_zip, List.getElem_range, sendVec, List.getElem_mapIdx]
    rw [mapM_option_eq_some (fun g => lookupVals w[r] g) (fun g => (lookupVals w[r] g).getD [])]
    · rfl
    · intro g hg
      obtain ⟨s, hs, nd, hmem, rfl⟩ := mem_reqGlobs hg
      obtain ⟨vals, hv, _⟩ := lookup_ghost hnd hown hs hr hmem
      rw [hv]; rfl

/-! ## the reply exchange -/

/-- the arguments of the second `ref_mpi_alltoallv` -/
def args2W [Inhabited β] (ldim : Nat) (w : World (List (GNode β))) : World (A2A β) :=
  (((sendVec w).map some).zip ((aSizeW w).zip (bSizeW w))).map fun x =>
    ⟨x.1.getD [], x.2.2, List.replicate (ldim * (isum x.2.1).toNat) default, x.2.1⟩

/-- `blocks2[r][s]`: the value items rank `r` returns to rank `s` -/
def blocks2 (w : World (List (GNode β))) : List (List (List (List β))) :=
  w.mapIdx fun r nodesr => w.mapIdx fun s nodess =>
    (ghostsTo s r nodess).map fun nd => (lookupVals nodesr nd.glob).getD []

def recv2 [Inhabited β] (ldim : Nat) (w : World (List (GNode β))) (r : Nat) : List β :=
  List.replicate (ldim * (isum ((aSizeW w).getD r [])).toNat) default

theorem aSizeW_length (w : World (List (GNode β))) : (aSizeW w).length = w.length := by
  simp [aSizeW, bucketsW]

theorem aSizeW_getElem (w : World (List (GNode β))) (r : Nat) (hr : r < w.length) (h : r < (aSizeW w).length) :
    (aSizeW w)[r] = (List.range w.length).map fun p => ((ghostsTo r p w[r]).length : Int) := by
  simp [aSizeW, bucketsW, ghostBuckets_eq, List.map_map, Function.comp_def]

theorem aSizeW_sum (w : World (List (GNode β))) (r : Nat) (hr : r < w.length) (h : r < (aSizeW w).length) :
    ((aSizeW w)[r]).sum = ((ghostsAll w.length r w[r]).length : Int) := by
  have := countsI_sum_eq_length ((List.range w.length).map fun p => ghostsTo r p w[r])
  rw [aSizeW_getElem w r hr h, ghostsAll, ← this]
  simp [countsI, List.map_map, Function.comp_def]

theorem column_blocks2 (w : World (List (GNode β))) (r : Nat) (hr : r < w.length) :
    column r (blocks2 w)
      = w.mapIdx fun p nodesp => (ghostsTo r p w[r]).map fun nd => (lookupVals nodesp nd.glob).getD [] := by
  unfold column blocks2
  rw [map_mapIdx']
  apply List.ext_getElem
  · simp
  · intro p h1 h2
    simp only [List.getElem_mapIdx]
    rw [getD_lt _ _ (by simpa using hr), List.getElem_mapIdx]

theorem countsI_column_blocks2 (w : World (List (GNode β))) (r : Nat) (hr : r < w.length)
    (h : r < (aSizeW w).length) : countsI (column r (blocks2 w)) = (aSizeW w)[r] := by
  rw [column_blocks2 w r hr, aSizeW_getElem w r hr h]
  apply List.ext_getElem
  · simp [countsI]
  · intro p h1 h2
    simp [countsI]

theorem args2W_eq [Inhabited β] (ldim : Nat) (w : World (List (GNode β))) :
    args2W ldim w = a2aWorld (blocks2 w) (recv2 ldim w) := by
  apply List.ext_getElem
  · simp [args2W, sendVec, aSizeW, bucketsW, bSizeW, mpiAlltoall, a2aWorld, blocks2]
  · intro r h1 h2
    have hr : r < w.length := by simpa [a2aWorld, blocks2] using h2
    have hra : r < (aSizeW w).length := by rw [aSizeW_length]; exact hr
    simp only [args2W, a2aWorld, List.getElem_map, List.getElem_zip, List.getElem_mapIdx, Option.getD_some]
    rw [bSizeW_getElem w r hr, countsI_column_blocks2 w r hr hra, countsI_column_blocks1 w r hr]
    simp only [recv2, getD_lt _ _ hra]
    congr 1
    · simp only [sendVec, List.getElem_mapIdx, reqGlobs, blocks2, List.map_flatten, List.flatten_flatten,
        map_mapIdx', List.map_map, Function.comp_def]
    · simp [blocks2, countsI, map_mapIdx']

theorem blocks2_length (w : World (List (GNode β))) : (blocks2 w).length = w.length := by
  simp [blocks2]

theorem blocks2_row_sum (w : World (List (GNode β))) (r : Nat) (h : r < (blocks2 w).length) :
    (countsI (blocks2 w)[r]).sum = (nRequests w r : Int) := by
  rw [countsI_sum_eq_length]
  simp only [blocks2, List.getElem_mapIdx, nRequests, List.length_flatten, map_mapIdx', List.length_map]

/-- what rank `r` receives in the reply: for every ghost (owner order, then slot order) the owner's values -/
theorem column_blocks2_flatten (w : World (List (GNode β))) (r : Nat) (hr : r < w.length) :
    (column r (blocks2 w)).flatten = (ghostsAll w.length r w[r]).map (ownerVals w) := by
  rw [column_blocks2 w r hr, ghostsAll, List.map_flatten, List.map_map]
  congr 1
  apply List.ext_getElem
  · simp
  · intro p h1 h2
    have hp : p < w.length := by simpa using h1
    simp only [List.getElem_mapIdx, List.getElem_map, List.getElem_range, Function.comp_def]
    apply List.map_congr_left
    intro nd hmem
    have h3 := (mem_ghostsTo.mp hmem).2.2
    simp only [ownerVals, h3, Int.toNat_natCast, getD_lt _ _ hp]

/-- the second `ref_mpi_alltoallv`: every rank receives, in the order of its `a_global`, the owner's values -/
theorem exch2 [Inhabited β] (ty : RefType) (hty : ty.mpiOk = true) (ldim : Nat) (w : World (List (GNode β)))
    (hnd : ∀ nodes ∈ w, (nodes.map (·.glob)).Nodup) (hown : GhostsOwned ldim w)
    (hs : ∀ r (hr : r < w.length), (ldim : Int) * ((ghostsAll w.length r w[r]).length : Int) ≤ INT_MAX)
    (hq : ∀ r, r < w.length → (ldim : Int) * (nRequests w r : Int) ≤ INT_MAX) :
    alltoallv false ty 0 (ldim : Int) (args2W ldim w)
      = some ((List.range w.length).map fun r =>
          (Status.ok, ((ghostsAll w.length r (w.getD r [])).map (ownerVals w)).flatten)) := by
  rw [args2W_eq]
  have h := Refine.Props.C17.alltoallv_spec ty hty 0 ldim (blocks2 w) (recv2 ldim w)
    (by
      intro b hb blk hblk it hit
      simp only [blocks2, List.mem_mapIdx] at hb
      obtain ⟨r, hr, rfl⟩ := hb
      simp only [List.mem_mapIdx] at hblk
      obtain ⟨s, hs, rfl⟩ := hblk
      obtain ⟨nd, hmem, rfl⟩ := List.mem_map.mp hit
      obtain ⟨vals, hv, hl⟩ := lookup_ghost hnd hown hs hr hmem
      rw [hv]; exact hl)
    (by
      intro r hr
      rw [blocks2_length] at hr
      have hra : r < (aSizeW w).length := by rw [aSizeW_length]; exact hr
      have h0 : 0 ≤ (countsI (column r (blocks2 w))).sum := sum_nonneg_int _ (countsI_nonneg _)
      simp only [recv2, List.length_replicate, isum_eq_sum, getD_lt _ _ hra]
      rw [← countsI_column_blocks2 w r hr hra]
      push_cast
      rw [Int.toNat_of_nonneg h0])
    (by
      intro b hb
      obtain ⟨r, hrb, rfl⟩ := List.mem_iff_getElem.mp hb
      rw [blocks2_row_sum w r hrb]
      exact hq r (by rwa [blocks2_length] at hrb))
    (by
      intro r hr
      rw [blocks2_length] at hr
      have hra : r < (aSizeW w).length := by rw [aSizeW_length]; exact hr
      rw [countsI_column_blocks2 w r hr hra, aSizeW_sum w r hr hra]
      exact hs r hr)
  rw [blocks2_length] at h
  rw [h]
  congr 1
  apply List.map_congr_left
  intro r hr
  have hr' := List.mem_range.mp hr
  rw [column_blocks2_flatten w r hr', getD_lt _ _ hr']

/-! ## assembly -/

/-- the parallel path of `ghost`, named pieces -/
theorem ghost_unfold [Inhabited β] (ty : RefType) (ldim : Nat) (w : World (List (GNode β)))
    (h : ¬ w.length ≤ 1) :
    ghost ty ldim w =
      match alltoallv false RefType.long 0 1 (args1W w) with
      | none => none
      | some r1 =>
        let bVec : World (Option (List β)) := (w.zip (r1.map (·.2))).map fun x =>
          (x.2.mapM fun g => lookupVals x.1 g).map List.flatten
        if bVec.any Option.isNone then none else
        match alltoallv false ty 0 (ldim : Int) ((bVec.zip ((aSizeW w).zip (bSizeW w))).map fun x =>
            ⟨x.1.getD [], x.2.2, List.replicate (ldim * (isum x.2.1).toNat) default, x.2.1⟩) with
        | none => none
        | some r2 =>
          some ((w.zip ((bucketsW w).zip r2)).map fun x =>
            ((x.2.1.flatten).zip (chunks ldim x.2.1.flatten.length x.2.2.2)).foldl
              (fun nodes gi => storeVals nodes gi.1 gi.2) x.1) := by
  unfold ghost
  simp only [h, if_false]
  rfl

theorem buckets_flatten (np r : Nat) (nodes : List (GNode β)) :
    (ghostBuckets np r nodes).flatten = (ghostsAll np r nodes).map (·.glob) := by
  rw [ghostBuckets_eq, ghostsAll, List.map_flatten, List.map_map]
  rfl

theorem ownerVals_length {ldim : Nat} {w : World (List (GNode β))}
    (hnd : ∀ nodes ∈ w, (nodes.map (·.glob)).Nodup) (hown : GhostsOwned ldim w)
    {r : Nat} (hr : r < w.length) {nd : GNode β} (h : nd ∈ ghostsAll w.length r w[r]) :
    (ownerVals w nd).length = ldim := by
  obtain ⟨h1, h2, p, hp, h3⟩ := mem_ghostsAll.mp h
  obtain ⟨vals, hv, hl⟩ := lookup_ghost hnd hown hr hp (mem_ghostsTo.mpr ⟨h1, h2, h3⟩)
  simp only [ownerVals, h3, Int.toNat_natCast, getD_lt _ _ hp, hv, Option.getD_some, hl]

/-- the parallel path (`np ≥ 2`) of `ref_node_ghost_*` -/
theorem ghost_par [Inhabited β] (ty : RefType) (hty : ty.mpiOk = true) (ldim : Nat)
    (w : World (List (GNode β))) (hnp : ¬ w.length ≤ 1)
    (hnd : ∀ nodes ∈ w, (nodes.map (·.glob)).Nodup) (hown : GhostsOwned ldim w)
    (hs1 : ∀ r (hr : r < w.length), ((ghostsAll w.length r w[r]).length : Int) ≤ INT_MAX)
    (hq1 : ∀ r, r < w.length → (nRequests w r : Int) ≤ INT_MAX)
    (hs2 : ∀ r (hr : r < w.length), (ldim : Int) * ((ghostsAll w.length r w[r]).length : Int) ≤ INT_MAX)
    (hq2 : ∀ r, r < w.length → (ldim : Int) * (nRequests w r : Int) ≤ INT_MAX) :
    ghost ty ldim w = some (w.mapIdx fun r nodes =>
      nodes.map fun nd => if nd.part = (r : Int) then nd else { nd with vals := ownerVals w nd }) := by
  rw [ghost_unfold ty ldim w hnp, exch1 w hs1 hq1]
  simp only []
  rw [bVec_eq w hnd hown]
  have hany : ((sendVec w).map some).any Option.isNone = false := by
    rw [List.any_map]; simp
  simp only [hany, Bool.false_eq_true, if_false]
  have e2 := exch2 ty hty ldim w hnd hown hs2 hq2
  unfold args2W at e2
  rw [e2]
  simp only []
  congr 1
  apply List.ext_getElem
  · simp [bucketsW]
  · intro r h1 h2
    have hr : r < w.length := by simpa using h2
    simp only [List.getElem_map, List.getElem_zip, List.getElem_range, List.getElem_mapIdx, bucketsW,
      getD_lt _ _ hr, buckets_flatten]
    have hlen : ((ghostsAll w.length r w[r]).map (·.glob)).length
        = ((ghostsAll w.length r w[r]).map (ownerVals w)).length := by simp
    rw [hlen, chunks_flatten ldim _ (by
      intro it hit
      obtain ⟨nd, hmem, rfl⟩ := List.mem_map.mp hit
      exact ownerVals_length hnd hown hr hmem), List.zip_map']
    exact store_rank w w.length r w[r] (hnd _ (List.getElem_mem hr)) (ghost_part_range hown hr)

/-! ## every rank count -/

/-- one entry after the refresh -/
def refreshNode (w : World (List (GNode β))) (r : Nat) (nd : GNode β) : GNode β :=
  if nd.part = (r : Int) then nd else { nd with vals := ownerVals w nd }

/-- the world after the refresh -/
def refreshed (w : World (List (GNode β))) : World (List (GNode β)) :=
  w.mapIdx fun r nodes => nodes.map (refreshNode w r)

/-- the `int` range conditions of the two `ref_mpi_alltoallv` calls: `a_total` and `b_total` of every rank, times
    `max 1 ldim` (the first call sends one scalar per item, the second `ldim`) -/
def SizesOk (ldim : Nat) (w : World (List (GNode β))) : Prop :=
  ∀ r (hr : r < w.length),
    ((max 1 ldim : Nat) : Int) * (nGhosts r w[r] : Int) ≤ INT_MAX ∧
    ((max 1 ldim : Nat) : Int) * (nRequests w r : Int) ≤ INT_MAX

theorem scale_le (M k a b X : Int) (hk : 0 ≤ k) (hkM : k ≤ M) (ha : 0 ≤ a) (hab : a ≤ b) (h : M * b ≤ X) :
    k * a ≤ X :=
  le_trans (Int.mul_le_mul hkM hab ha (by omega)) h

/-- with one rank (or none) the hypothesis on ghosts says there are none -/
theorem refreshed_serial {ldim : Nat} (w : World (List (GNode β))) (hnp : w.length ≤ 1)
    (hown : GhostsOwned ldim w) : refreshed w = w := by
  apply List.ext_getElem
  · simp [refreshed]
  · intro r h1 h2
    simp only [refreshed, List.getElem_mapIdx]
    conv_rhs => rw [← List.map_id w[r]]
    apply List.map_congr_left
    intro nd hmem
    by_cases hp : nd.part = (r : Int)
    · simp [refreshNode, hp]
    · exfalso
      obtain ⟨h0, hlt, _⟩ := hown r h2 nd hmem hp
      omega

theorem ghost_full [Inhabited β] (ty : RefType) (hty : ty.mpiOk = true) (ldim : Nat)
    (w : World (List (GNode β)))
    (hnd : ∀ nodes ∈ w, (nodes.map (·.glob)).Nodup) (hown : GhostsOwned ldim w) (hsz : SizesOk ldim w) :
    ghost ty ldim w = some (refreshed w) := by
  by_cases hnp : w.length ≤ 1
  · rw [refreshed_serial w hnp hown]
    unfold ghost
    simp only [hnp, if_true]
  · have hM1 : (1 : Int) ≤ ((max 1 ldim : Nat) : Int) := by
      have : 1 ≤ max 1 ldim := Nat.le_max_left _ _
      exact_mod_cast this
    have hMl : (ldim : Int) ≤ ((max 1 ldim : Nat) : Int) := by
      have : ldim ≤ max 1 ldim := Nat.le_max_right _ _
      exact_mod_cast this
    have hlen : ∀ r (hr : r < w.length),
        ((ghostsAll w.length r w[r]).length : Int) ≤ (nGhosts r w[r] : Int) := by
      intro r hr
      exact_mod_cast ghostsAll_length_le w.length r w[r] (hnd _ (List.getElem_mem hr))
    exact ghost_par ty hty ldim w hnp hnd hown
      (fun r hr => by
        have := scale_le _ 1 _ _ _ (by omega) hM1 (by omega) (hlen r hr) (hsz r hr).1
        simpa using this)
      (fun r hr => by
        have := scale_le _ 1 _ _ _ (by omega) hM1 (by omega) (le_refl _) (hsz r hr).2
        simpa using this)
      (fun r hr => scale_le _ _ _ _ _ (by omega) hMl (by omega) (hlen r hr) (hsz r hr).1)
      (fun r hr => scale_le _ _ _ _ _ (by omega) hMl (by omega) (le_refl _) (hsz r hr).2)

/-! ## consequences -/

theorem refreshNode_glob (w : World (List (GNode β))) (r : Nat) (nd : GNode β) :
    (refreshNode w r nd).glob = nd.glob := by
  unfold refreshNode; split <;> rfl

theorem refreshNode_part (w : World (List (GNode β))) (r : Nat) (nd : GNode β) :
    (refreshNode w r nd).part = nd.part := by
  unfold refreshNode; split <;> rfl

theorem refreshNode_owned (w : World (List (GNode β))) (r : Nat) (nd : GNode β) (h : nd.part = (r : Int)) :
    refreshNode w r nd = nd := by
  simp [refreshNode, h]

theorem refreshed_length (w : World (List (GNode β))) : (refreshed w).length = w.length := by
  simp [refreshed]

theorem refreshed_getD (w : World (List (GNode β))) (r : Nat) (hr : r < w.length) :
    (refreshed w).getD r [] = w[r].map (refreshNode w r) := by
  rw [getD_lt _ _ (by rw [refreshed_length]; exact hr)]
  simp [refreshed]

/-- globals and parts stay, position by position; owned entries stay altogether -/
theorem refreshed_owned (w : World (List (GNode β))) (r : Nat) (hr : r < w.length) :
    (((refreshed w).getD r []).map fun nd => (nd.glob, nd.part)) = (w[r].map fun nd => (nd.glob, nd.part)) ∧
    ∀ i (hi : i < w[r].length), w[r][i].part = (r : Int) → ((refreshed w).getD r [])[i]? = some w[r][i] := by
  rw [refreshed_getD w r hr]
  constructor
  · rw [List.map_map]
    apply List.map_congr_left
    intro nd _
    simp only [Function.comp, refreshNode_glob, refreshNode_part]
  · intro i hi hp
    rw [List.getElem?_map, List.getElem?_eq_getElem hi, Option.map_some, refreshNode_owned w r _ hp]

/-- after the refresh a ghost entry carries what its owner holds — in the refreshed world too, when the owner's copy
    is an owned entry -/
theorem refreshed_ghost {ldim : Nat} (w : World (List (GNode β)))
    (hnd : ∀ nodes ∈ w, (nodes.map (·.glob)).Nodup) (hown : GhostsOwned ldim w)
    (howned : ∀ r (hr : r < w.length), ∀ nd ∈ w[r], nd.part ≠ (r : Int) →
      ∀ od ∈ w.getD nd.part.toNat [], od.glob = nd.glob → od.part = nd.part)
    (r : Nat) (hr : r < w.length) (nd : GNode β) (hmem : nd ∈ (refreshed w).getD r [])
    (hp : nd.part ≠ (r : Int)) :
    lookupVals ((refreshed w).getD nd.part.toNat []) nd.glob = some nd.vals
      ∧ lookupVals (w.getD nd.part.toNat []) nd.glob = some nd.vals := by
  rw [refreshed_getD w r hr] at hmem
  obtain ⟨nd0, hmem0, rfl⟩ := List.mem_map.mp hmem
  rw [refreshNode_part] at hp
  obtain ⟨h0, hlt, od, hod, hg, _⟩ := hown r hr nd0 hmem0 hp
  have hpart := howned r hr nd0 hmem0 hp od hod hg
  rw [refreshNode_part, refreshNode_glob, refreshed_getD w _ hlt]
  rw [getD_lt _ _ hlt] at hod
  have hnd' := hnd _ (List.getElem_mem hlt)
  have hvals : (refreshNode w r nd0).vals = od.vals := by
    simp only [refreshNode, hp, if_false, ownerVals, getD_lt _ _ hlt]
    rw [← hg, lookupVals_of_mem hnd' hod]
    rfl
  have hodp : od.part = ((nd0.part.toNat : Nat) : Int) := by rw [hpart]; omega
  rw [hvals, getD_lt _ _ hlt, ← hg]
  refine ⟨?_, lookupVals_of_mem hnd' hod⟩
  have hfix : refreshNode w nd0.part.toNat od = od := refreshNode_owned w _ od hodp
  have hin : od ∈ w[nd0.part.toNat].map (refreshNode w nd0.part.toNat) :=
    List.mem_map.mpr ⟨od, hod, hfix⟩
  refine lookupVals_of_mem ?_ hin
  rw [List.map_map]
  have : (fun nd => nd.glob) ∘ refreshNode w nd0.part.toNat = fun nd : GNode β => nd.glob := by
    funext x; exact refreshNode_glob w _ x
  rw [this]
  exact hnd'

end Refine.Lemmas.DistGhostFull
