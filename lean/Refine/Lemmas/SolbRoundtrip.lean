import Refine.Lemmas.CodecRoundtrip

/-! `.solb` round trips (C09): scalar/vector fields of any `ldim`, metric tensors in libMeshb order -/
namespace Refine.Lemmas.Codec
open Refine.Model.Meshb Refine.Model.Solb Refine.Gen

structure SolOK (cfg : Cfg) (v : Nat) (s : SolFile) : Prop where
  version : v = 2 ∨ v = 3 ∨ v = 4
  rows_len : ∀ r ∈ s.rows, r.length = s.ldim
  count_lt : s.rows.length < 2 ^ 31
  ldim_lt : s.ldim < 2 ^ 31
  prod_lt : s.ldim * s.rows.length < 2 ^ 31
  cap : 8 * (s.ldim * s.rows.length) ≤ cfg.allocCap
  size_fits : posFits v ((encodeSolb v s).length : Int)

theorem rdLong_encGlob (v : Nat) {n : Nat} (h : n < 2 ^ 31) (r : Bytes) :
    rdLong v (encGlob v n ++ r) = .ok ((n : Int), r) := by
  unfold rdLong encGlob
  by_cases hv : v < 4
  · simp only [hv, if_true]
    unfold rdI32
    rw [rdU_append 4 _ r (by simp), decLE_encLE_of_lt (by have := ofSigned_lt 32 (n : Int); norm_num at this ⊢; omega)]
    simp [toSigned32_ofSigned32 (int32_of_lt h)]
  · simp only [hv, if_false]
    rw [rdU_append 8 _ r (by simp), decLE_encLE_of_lt (by have := ofSigned_lt 64 (n : Int); norm_num at this ⊢; omega)]
    simp [toSigned_ofSigned (bits := 64) (by norm_num) (x := (n : Int)) (by constructor <;> norm_num <;> omega)]

theorem encGlob_length (v n : Nat) : (encGlob v n).length = intSize v := by
  unfold encGlob intSize
  by_cases h : v < 4
  · have : ¬ 3 < v := by omega
    simp [h, this]
  · have : 3 < v := by omega
    simp [h, this]

theorem rdTypes_ones (w : Int → Option Nat) (hw : w 1 = some 1) (k acc : Nat) (r : Bytes) :
    rdTypes w k acc ((List.replicate k (le32 1)).flatten ++ r) = .ok (acc + k, r) := by
  induction k generalizing acc with
  | zero => simp [rdTypes]
  | succ k ih =>
    simp only [List.replicate_succ, List.flatten_cons, List.append_assoc]
    unfold rdTypes
    rw [rdI32_le32 (by norm_num)]
    dsimp only
    simp only [Nat.cast_one, hw]
    rw [ih]
    congr 2; omega

theorem rdF64s_flatMap (xs : List UInt64) (r : Bytes) :
    rdF64s xs.length (xs.flatMap encF64 ++ r) = .ok (xs, r) := by
  induction xs with
  | nil => simp [rdF64s]
  | cons x xs ih =>
    simp only [List.length_cons, List.flatMap_cons, List.append_assoc]
    unfold rdF64s
    rw [rdF64_encF64]
    dsimp only
    rw [ih]

theorem rdRows_flatMap (ldim : Nat) (rows : List (List UInt64)) (r : Bytes)
    (h : ∀ x ∈ rows, x.length = ldim) :
    rdRowsWith (rdF64s ldim) rows.length (rows.flatMap (fun x => x.flatMap encF64) ++ r) = .ok (rows, r) := by
  induction rows with
  | nil => simp [rdRowsWith]
  | cons x rows ih =>
    simp only [List.length_cons, List.flatMap_cons, List.append_assoc]
    unfold rdRowsWith
    rw [← h x (List.mem_cons_self ..), rdF64s_flatMap]
    dsimp only
    rw [h x (List.mem_cons_self ..), ih (fun y hy => h y (List.mem_cons_of_mem _ hy))]

/-- a whole block placed at offset 0 of an array of the same length replaces it -/
theorem place_all (twod : Bool) (rows arr : List (List UInt64)) (h : arr.length = rows.length) :
    place rows.length twod (rows.length : Int) 0 rows arr = rows := by
  unfold place
  apply List.ext_getElem
  · simp [h]
  · intro j h1 h2
    simp only [List.getElem_map, List.getElem_zip, List.getElem_range]
    have hj : j < rows.length := h2
    have c2 : ¬ (twod = true ∧ (0 : Int) ≤ (j : Int) - (rows.length : Int) - 0 ∧
        (j : Int) - (rows.length : Int) - 0 < (rows.length : Int)) := by omega
    have c1 : (0 : Int) ≤ (j : Int) - 0 ∧ (j : Int) - 0 < (rows.length : Int) := by omega
    rw [if_neg c2, if_pos c1]
    have : ((j : Int) - 0).toNat = j := by omega
    rw [this, List.getD_eq_getElem?_getD, List.getElem?_eq_getElem hj]
    rfl

theorem solb_sections_facts {cfg : Cfg} {v : Nat} {twod : Bool} {sol : Sec} (hver : v = 2 ∨ v = 3 ∨ v = 4)
    (hkw : sol.kw = 62) (hex : Sec.exact v sol)
    (hfit : posFits v ((le32 1 ++ le32 v ++ layout v 8 [secDimOf v twod, sol]).length : Int)) :
    ∃ kp r3 r62, header cfg (le32 1 ++ le32 v ++ layout v 8 [secDimOf v twod, sol]) = .ok (v, kp) ∧
      jump v (le32 1 ++ le32 v ++ layout v 8 [secDimOf v twod, sol]) kp 3 =
        .ok (some ((((le32 1 ++ le32 v ++ layout v 8 [secDimOf v twod, sol]).length - r3.length : Nat) : Int),
          le32 (if twod then 2 else 3) ++ r3)) ∧
      jump v (le32 1 ++ le32 v ++ layout v 8 [secDimOf v twod, sol]) kp 62 =
        .ok (some ((((le32 1 ++ le32 v ++ layout v 8 [secDimOf v twod, sol]).length - r62.length : Nat) : Int),
          sol.body ++ r62)) ∧
      r62.length + sol.body.length ≤ (le32 1 ++ le32 v ++ layout v 8 [secDimOf v twod, sol]).length := by
  have hss : ∀ s ∈ [secDimOf v twod, sol], Sec.exact v s ∧ s.kw < 156 := by
    intro s hs
    simp only [List.mem_cons, List.not_mem_nil, or_false] at hs
    rcases hs with rfl | rfl
    · simp [Sec.exact, secDimOf, le32_length]
    · exact ⟨hex, by omega⟩
  have hnd : (([secDimOf v twod, sol].map Sec.kw) ++ [54]).Nodup := by
    simp [secDimOf, hkw]
  obtain ⟨kp, hh, hall, _⟩ := layout_facts (cfg := cfg) hver hss hnd hfit
  obtain ⟨r3, hj3, _⟩ := hall (secDimOf v twod) (by simp)
  obtain ⟨r62, hj62, hl62⟩ := hall sol (by simp)
  simp only [secDimOf] at hj3
  rw [hkw] at hj62
  exact ⟨kp, r3, r62, hh, hj3, hj62, hl62⟩

theorem secSol_exact (v : Nat) (s : SolFile) (h : ∀ r ∈ s.rows, r.length = s.ldim) : Sec.exact v (secSol v s) := by
  simp only [Sec.exact, secSol, List.length_append, encGlob_length, le32_length]
  rw [length_flatMap_const _ _ (s.ldim * 8)]
  · have : ((List.replicate s.ldim (le32 1)).flatten).length = s.ldim * 4 := by
      simp [le32_length]
    rw [this]; unfold headerSize; ring
  · intro r hr
    rw [length_flatMap_const _ _ 8 (fun _ _ => encF64_length _), h r hr]

/-- **C09 scalar/vector fields**: any `ldim`, versions 2–4, any reader configuration -/
theorem roundtrip_solb_with {cfg : Cfg} {v : Nat} {s : SolFile} (ok : SolOK cfg v s) :
    decodeSolbWith cfg s.rows.length (encodeSolb v s) = .ok (s.ldim, s.rows) := by
  obtain ⟨kp, r3, r62, hh, hj3, hj62, hl62⟩ :=
    solb_sections_facts (cfg := cfg) (twod := s.twod) ok.version (by simp [secSol]) (secSol_exact v s ok.rows_len)
      (by have := ok.size_fits; simpa [encodeSolb] using this)
  have hfile : encodeSolb v s = le32 1 ++ le32 v ++ layout v 8 [secDimOf v s.twod, secSol v s] := by
    simp [encodeSolb]
  have hldim : s.ldim < 2 ^ 31 := ok.ldim_lt
  have hplan : scalarPlan cfg s.rows.length (encodeSolb v s) =
      .ok ((if s.twod then 2 else 3), (((encodeSolb v s).length - r62.length : Nat) : Int),
        (s.rows.length : Int), s.ldim, s.rows.flatMap (fun r => r.flatMap encF64) ++ r62) := by
    unfold scalarPlan solPrefix
    rw [hfile, hh]
    dsimp only
    rw [if_neg (by rcases ok.version with rfl | rfl | rfl <;> omega), hj3]
    dsimp only
    rw [rdI32_le32 (by split <;> norm_num)]
    dsimp only
    rw [if_neg (by split <;> norm_num), hj62]
    dsimp only
    simp only [secSol, List.append_assoc]
    rw [rdLong_encGlob v ok.count_lt]
    dsimp only
    rw [rdI32_le32 hldim]
    dsimp only
    simp only [Int.toNat_natCast]
    rw [rdTypes_ones _ (by simp)]
    dsimp only
    rw [if_neg (by omega)]
    rw [if_neg]
    · simp
    · rintro ⟨_, hbad⟩
      apply hbad
      refine ⟨by omega, by exact_mod_cast ok.count_lt, ?_⟩
      rw [List.length_append, length_flatMap_const _ _ (s.ldim * 8)
        (fun r hr => by rw [length_flatMap_const _ _ 8 (fun _ _ => encF64_length _), ok.rows_len r hr])]
      push_cast; nlinarith
  unfold decodeSolbWith
  rw [hplan]
  dsimp only
  have hchunk : chunkOf (s.rows.length : Int) = s.rows.length :=
    chunkOf_small (by omega) (by exact_mod_cast ok.count_lt)
  rw [hchunk]
  have hprod : int32 ((s.ldim : Int) * (s.rows.length : Int)) := by
    have := ok.prod_lt
    unfold int32; constructor
    · have : (0 : Int) ≤ (s.ldim : Int) * (s.rows.length : Int) := by positivity
      omega
    · exact_mod_cast this
  rw [if_neg (by simpa using hprod), if_neg (by have : (0 : Int) ≤ (s.ldim : Int) * (s.rows.length : Int) := by positivity
                                                omega)]
  rw [if_neg (by have := ok.cap; push_cast; omega)]
  -- the read loop: one block
  have hloop : readLoop s.rows.length ((if s.twod then 2 else 3 : Nat) == 2) (s.rows.length : Int) (s.rows.length : Int)
      s.ldim (rdF64s s.ldim) true ((encodeSolb v s).length + 2) 0
      (List.replicate s.rows.length (List.replicate s.ldim 0))
      (s.rows.flatMap (fun r => r.flatMap encF64) ++ r62) = .ok (s.rows, r62) := by
    by_cases hn : s.rows.length = 0
    · have hr : s.rows = [] := List.eq_nil_of_length_eq_zero hn
      unfold readLoop
      simp [hr]
    · unfold readLoop
      rw [if_pos (by omega)]
      dsimp only
      have hw : wrap32 ((s.rows.length : Int) - 0) = s.rows.length := by
        rw [Int.sub_zero]; exact wrap32_of_int32 (int32_of_lt ok.count_lt)
      rw [hw, min_self]
      rw [if_neg (by rintro ⟨_, h⟩; exact h hprod), if_neg (by
        rintro ⟨_, h⟩
        have : (0 : Int) ≤ (s.ldim : Int) * (s.rows.length : Int) := by positivity
        omega)]
      by_cases hl0 : s.ldim = 0
      · -- rows of width 0: nothing to read, the array of empty rows is the result
        rw [if_pos hl0]
        have hrows : s.rows = List.replicate s.rows.length (List.replicate s.ldim 0) := by
          apply List.ext_getElem (by simp)
          intro j h1 h2
          have := ok.rows_len s.rows[j] (List.getElem_mem h1)
          rw [hl0] at this
          have e1 : s.rows[j] = [] := List.eq_nil_of_length_eq_zero this
          simp [List.getElem_replicate, hl0, e1]
        have hb : s.rows.flatMap (fun r => r.flatMap encF64) = [] := by
          rw [List.flatMap_eq_nil_iff]
          intro r hr
          have := ok.rows_len r hr
          rw [hl0] at this
          simp [List.eq_nil_of_length_eq_zero this]
        rw [hb, List.nil_append, Int.zero_add]
        unfold readLoop
        rw [if_neg (by omega)]
        rw [← hrows]
      · rw [if_neg hl0]
        simp only [Int.toNat_natCast]
        rw [rdRows_flatMap s.ldim s.rows r62 ok.rows_len]
        dsimp only
        rw [Int.zero_add, place_all _ _ _ (by simp)]
        unfold readLoop
        rw [if_neg (by omega)]
  rw [hloop]
  dsimp only
  rw [if_pos (tell_sub (by rw [hfile]; omega)).symm]


/-! ### metric tensors -/

structure MetricOK (cfg : Cfg) (v : Nat) (twod : Bool) (ms : List (List UInt64)) : Prop where
  version : v = 2 ∨ v = 3 ∨ v = 4
  len6 : ∀ m ∈ ms, m.length = 6
  /-- a 2-D file stores (m11,m12,m22) only; the reader sets m13 = m23 = 0, m33 = 1 -/
  twod_fill : twod = true → ∀ m ∈ ms, m.getD 2 0 = 0 ∧ m.getD 4 0 = 0 ∧ m.getD 5 0 = 0x3ff0000000000000
  count_lt : 6 * ms.length < 2 ^ 31
  cap : 48 * ms.length ≤ cfg.allocCap
  size_fits : posFits v ((encodeMetricSolb v twod ms).length : Int)

theorem metric_slots_roundtrip (twod : Bool) (m : List UInt64) (h6 : m.length = 6)
    (hfill : twod = true → m.getD 2 0 = 0 ∧ m.getD 4 0 = 0 ∧ m.getD 5 0 = 0x3ff0000000000000) :
    metricFromFile twod (metricToFile twod m) = m := by
  match m, h6 with
  | [a, b, c, d, e, f], _ =>
    cases twod with
    | false => simp [metricFromFile, metricToFile, MetricOrder.read3, MetricOrder.write3, List.idxOf?, List.findIdx?, List.range, List.range.loop, List.findIdx?.go]
    | true =>
      obtain ⟨h2, h4, h5⟩ := hfill rfl
      simp at h2 h4 h5
      subst h2 h4 h5
      simp [metricFromFile, metricToFile, MetricOrder.read2, MetricOrder.write2, MetricOrder.fill2, List.idxOf?, List.findIdx?, List.range, List.range.loop, List.findIdx?.go]

theorem metricToFile_length (twod : Bool) (m : List UInt64) :
    (metricToFile twod m).length = if twod then 3 else 6 := by
  cases twod <;> simp [metricToFile, MetricOrder.write2, MetricOrder.write3]

theorem rdMetricRow_enc (twod : Bool) (m : List UInt64) (r : Bytes) (h6 : m.length = 6)
    (hfill : twod = true → m.getD 2 0 = 0 ∧ m.getD 4 0 = 0 ∧ m.getD 5 0 = 0x3ff0000000000000) :
    rdMetricRow (if twod then 3 else 6) ((metricToFile twod m).flatMap encF64 ++ r) = .ok (m, r) := by
  unfold rdMetricRow
  rw [← metricToFile_length twod m, rdF64s_flatMap]
  dsimp only
  rw [metricToFile_length twod m, show (((if twod then 3 else 6 : Nat) == 3) : Bool) = twod by cases twod <;> rfl]
  rw [metric_slots_roundtrip twod m h6 hfill]

theorem rdMetricRows_flatMap (twod : Bool) (ms : List (List UInt64)) (r : Bytes)
    (h6 : ∀ m ∈ ms, m.length = 6)
    (hfill : twod = true → ∀ m ∈ ms, m.getD 2 0 = 0 ∧ m.getD 4 0 = 0 ∧ m.getD 5 0 = 0x3ff0000000000000) :
    rdRowsWith (rdMetricRow (if twod then 3 else 6)) ms.length
      (ms.flatMap (fun m => (metricToFile twod m).flatMap encF64) ++ r) = .ok (ms, r) := by
  induction ms with
  | nil => simp [rdRowsWith]
  | cons m ms ih =>
    simp only [List.length_cons, List.flatMap_cons, List.append_assoc]
    unfold rdRowsWith
    rw [rdMetricRow_enc twod m _ (h6 m (List.mem_cons_self ..)) (fun ht => hfill ht m (List.mem_cons_self ..))]
    dsimp only
    rw [ih (fun y hy => h6 y (List.mem_cons_of_mem _ hy)) (fun ht y hy => hfill ht y (List.mem_cons_of_mem _ hy))]

theorem rdTypes_one (w : Int → Option Nat) (t : Nat) (ht : t < 2 ^ 31) (k : Nat) (hw : w (t : Int) = some k)
    (r : Bytes) : rdTypes w 1 0 (le32 t ++ r) = .ok (k, r) := by
  unfold rdTypes
  rw [rdI32_le32 ht]
  dsimp only
  rw [hw]
  simp [rdTypes]

theorem secMetric_exact (v : Nat) (twod : Bool) (ms : List (List UInt64)) : Sec.exact v (secMetric v twod ms) := by
  simp only [Sec.exact, secMetric, List.length_append, encGlob_length, le32_length]
  rw [length_flatMap_const _ _ ((if twod then 3 else 6) * 8)]
  · unfold headerSize; ring
  · intro m _
    rw [length_flatMap_const _ _ 8 (fun _ _ => encF64_length _), metricToFile_length]

/-- **C09 metric files**: the tensor that was set is the tensor that is read -/
theorem roundtrip_metric_with {cfg : Cfg} {v : Nat} {twod : Bool} {ms : List (List UInt64)}
    (ok : MetricOK cfg v twod ms) :
    decodeMetricSolbWith cfg ms.length (encodeMetricSolb v twod ms) = .ok ms := by
  obtain ⟨kp, r3, r62, hh, hj3, hj62, hl62⟩ :=
    solb_sections_facts (cfg := cfg) (twod := twod) ok.version (by simp [secMetric]) (secMetric_exact v twod ms)
      (by have := ok.size_fits; simpa [encodeMetricSolb] using this)
  have hfile : encodeMetricSolb v twod ms = le32 1 ++ le32 v ++ layout v 8 [secDimOf v twod, secMetric v twod ms] := by
    simp [encodeMetricSolb]
  have hcount : ms.length < 2 ^ 31 := by have := ok.count_lt; omega
  have hplan : metricPlan cfg ms.length (encodeMetricSolb v twod ms) =
      .ok ((if twod then 2 else 3), (((encodeMetricSolb v twod ms).length - r62.length : Nat) : Int),
        (ms.length : Int), (if twod then 3 else 6),
        ms.flatMap (fun m => (metricToFile twod m).flatMap encF64) ++ r62) := by
    unfold metricPlan solPrefix
    rw [hfile, hh]
    dsimp only
    rw [if_neg (by rcases ok.version with rfl | rfl | rfl <;> omega), hj3]
    dsimp only
    rw [rdI32_le32 (by split <;> norm_num)]
    dsimp only
    rw [if_neg (by split <;> norm_num), hj62]
    dsimp only
    simp only [secMetric, List.append_assoc]
    rw [rdLong_encGlob v hcount]
    dsimp only
    rw [rdI32_le32 (by norm_num)]
    dsimp only
    rw [show ((1 : Nat) : Int).toNat = 1 from rfl]
    rw [rdTypes_one _ 3 (by norm_num) (if twod then 3 else 6) (by cases twod <;> simp)]
    dsimp only
    cases twod <;> simp
  unfold decodeMetricSolbWith
  rw [hplan]
  dsimp only
  have hchunk : chunkOf (ms.length : Int) = ms.length := chunkOf_small (by omega) (by exact_mod_cast hcount)
  rw [hchunk]
  have h6 : int32 (6 * (ms.length : Int)) := by
    have := ok.count_lt; unfold int32; constructor <;> omega
  rw [if_neg (by simpa using h6), if_neg (by omega), if_neg (by have := ok.cap; omega)]
  have hloop : readLoop ms.length ((if twod then 2 else 3 : Nat) == 2) (ms.length : Int) (ms.length : Int)
      (if twod then 3 else 6)
      (rdMetricRow (if twod then 3 else 6)) false
      ((encodeMetricSolb v twod ms).length + 2) 0 (List.replicate ms.length identityMetric)
      (ms.flatMap (fun m => (metricToFile twod m).flatMap encF64) ++ r62) = .ok (ms, r62) := by
    by_cases hn : ms.length = 0
    · have hr : ms = [] := List.eq_nil_of_length_eq_zero hn
      unfold readLoop
      simp [hr]
    · unfold readLoop
      rw [if_pos (by omega)]
      dsimp only
      have hw : wrap32 ((ms.length : Int) - 0) = ms.length := by
        rw [Int.sub_zero]; exact wrap32_of_int32 (int32_of_lt hcount)
      rw [hw, min_self]
      rw [if_neg (by simp), if_neg (by simp)]
      rw [if_neg (by split <;> omega)]
      simp only [Int.toNat_natCast]
      rw [rdMetricRows_flatMap twod ms r62 ok.len6 ok.twod_fill]
      dsimp only
      rw [Int.zero_add, place_all _ _ _ (by simp)]
      unfold readLoop
      rw [if_neg (by omega)]
  rw [hloop]
  dsimp only
  rw [if_pos (tell_sub (by rw [hfile]; omega)).symm]

end Refine.Lemmas.Codec
