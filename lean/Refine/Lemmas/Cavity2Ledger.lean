import Refine.Model.Cavity2
import Refine.Lemmas.Cavity2D
import Refine.Lemmas.CavityValid

/-!
  The boundary bookkeeping of a tet + tri cavity (`ref_cavity_insert_seg` with a non-empty `tet_list`:
  `ref_cavity_add_seg_face`, `ref_cavity_remove_seg_face`, `ref_cavity_remove_seg_add_tets`).

  `coneSum φ n segs = Σ_{live segs} φ(s0, s1, n)` : the cone of the seg list from the seg node — the faces of the
  boundary tris `ref_cavity_replace` creates (attached segs contribute 0 when `φ` vanishes on repeated nodes).
  `ledgerVal φ c = Σ_{live faces} φ − coneSum φ (seg node) (live segs)`.

  Every successful `ref_cavity_insert_seg` leaves `ledgerVal` alone except for the tets
  `ref_cavity_remove_seg_add_tets` pulls in, which contribute their boundary minus the faces that coincide with the
  two tris on the cancelled seg (`insertSeg3_spec`).
-/
namespace Refine.Lemmas.Cavity2
open Refine.Model.Cavity Refine.Model.Cavity2 Refine.Lemmas.Cavity

variable {G : Type} [AddCommGroup G] {α : Type}

theorem diag_aba {φ : Int → Int → Int → G} (hφ : Alt φ) (hd : Diag φ) (a b : Int) : φ a b a = 0 := by
  rw [hφ.rot a a b]; exact hd a b

theorem diag_abb {φ : Int → Int → Int → G} (hφ : Alt φ) (hd : Diag φ) (a b : Int) : φ a b b = 0 := by
  rw [hφ.rot' b b a]; exact hd b a

/-- cone of a seg list from `n` -/
def coneSum (φ : Int → Int → Int → G) (n : Int) (l : List Seg) : G := (l.map fun s => φ s.n0 s.n1 n).sum

/-- `Σ live faces − cone of the live segs` -/
def ledgerVal (φ : Int → Int → Int → G) (c : Cav) : G :=
  rowsSum φ c.faces.rows - coneSum φ c.segNode c.validSegs

/-! ### faces: removal of a live row, insertion of a list -/

theorem faces_remove_spec (φ : Int → Int → Int → G) (s : Slots Face) (i : Nat) (gf : Face) (hinv : SlotsInv s)
    (hg : s.rows.getD i none = some gf) :
    SlotsInv (s.remove i) ∧ rowsSum φ (s.remove i).rows = rowsSum φ s.rows - φF φ gf ∧
    (∀ x ∈ (s.remove i).valid, x ∈ s.valid) := by
  obtain ⟨hi, hp, hb⟩ := Slots.remove_spec s i gf hinv hg
  refine ⟨hi, ?_, ?_⟩
  · simp only [Slots.remove]
    rw [rowsSum_set φ _ _ _ (getD_lt_of_some _ _ _ hg), hg]
    simp [rowVal]
  · intro x hx
    exact hp.symm.subset (List.mem_cons_of_mem _ hx)

theorem insertFaces_spec {φ : Int → Int → Int → G} (hφ : Alt φ) (fs : List Face) (c c' : Cav)
    (hinv : SlotsInv c.faces) (h : insertFaces c fs = (.ok, c')) :
    SlotsInv c'.faces ∧ SameButFaces c c' ∧
    rowsSum φ c'.faces.rows = rowsSum φ c.faces.rows + faceSum φ fs ∧
    (∀ x ∈ c'.validFaces, x ∈ c.validFaces ∨ x ∈ fs) := by
  induction fs generalizing c with
  | nil =>
    simp only [insertFaces, Prod.mk.injEq, true_and] at h; subst h
    exact ⟨hinv, ⟨rfl, rfl, rfl, rfl, rfl, rfl⟩, by simp [faceSum], fun x hx => Or.inl hx⟩
  | cons f t ih =>
    unfold insertFaces at h
    rcases hins : insertFace c f with ⟨s1, c1⟩
    rw [hins] at h
    cases s1 <;> simp only [] at h <;> first | exact (notok h (by decide)).elim | skip
    obtain ⟨hinv1, hs1, hsum1, hmem1⟩ := insertFace_spec hφ c c1 f hinv hins
    obtain ⟨hinv2, hs2, hsum2, hmem2⟩ := ih c1 hinv1 h
    obtain ⟨a1, a2, a3, a4, a5, a6⟩ := hs1
    obtain ⟨b1, b2, b3, b4, b5, b6⟩ := hs2
    refine ⟨hinv2, ⟨b1.trans a1, b2.trans a2, b3.trans a3, b4.trans a4, b5.trans a5, b6.trans a6⟩, ?_, ?_⟩
    · rw [hsum2, hsum1]; simp only [faceSum, List.map_cons, List.sum_cons]; abel
    · intro x hx
      rcases hmem2 x hx with h1 | h1
      · rcases hmem1 x h1 with h2 | h2
        · exact Or.inl h2
        · exact Or.inr (h2 ▸ List.mem_cons_self)
      · exact Or.inr (List.mem_cons_of_mem _ h1)

/-! ### the two seg-face helpers -/

/-- the guard shared by `add_seg_face`, `remove_seg_face`, `remove_seg_add_tets` -/
def SegFaceActive (c : Cav) : Prop := c.tetList ≠ [] ∧ c.state = .unknown

theorem isEmpty_false_of_ne {β : Type} {l : List β} (h : l ≠ []) : l.isEmpty = false := by
  cases l with
  | nil => exact absurd rfl h
  | cons _ _ => rfl

/-- `ref_cavity_remove_seg_face` on an active cavity: the face `(s0, s1, seg node)` is present REVERSED and is
    removed, which adds `φ(s0, s1, seg node)` to the face sum -/
theorem removeSegFace_spec {φ : Int → Int → Int → G} (hφ : Alt φ) (c c' : Cav) (s : Seg)
    (hinv : SlotsInv c.faces) (hact : SegFaceActive c) (h : removeSegFace c s = (.ok, c')) :
    SlotsInv c'.faces ∧ SameButFaces c c' ∧
    rowsSum φ c'.faces.rows = rowsSum φ c.faces.rows + φ s.n0 s.n1 c.segNode ∧
    (∀ x ∈ c'.validFaces, x ∈ c.validFaces) := by
  unfold removeSegFace at h
  rw [isEmpty_false_of_ne hact.1] at h
  simp only [Bool.false_eq_true, if_false, hact.2, ne_eq, not_true_eq_false] at h
  split at h
  · simp at h
  · simp at h
  · next i hfind =>
    obtain ⟨_, gf, hg, hr, _⟩ := findFace_spec _ _ _ _ hfind
    simp only [Prod.mk.injEq, true_and] at h; subst h
    obtain ⟨hi, hsum, hmem⟩ := faces_remove_spec φ c.faces i gf hinv hg
    refine ⟨hi, ⟨hact.2.symm, rfl, rfl, rfl, rfl, rfl⟩, ?_, hmem⟩
    simp only
    rw [hsum, revOf_val hφ (hr rfl)]
    simp only [φF]; abel

/-- `ref_cavity_add_seg_face` on an active cavity adds `φ(s0, s1, seg node)` to the face sum (nothing for an
    attached seg, for which that value is 0) -/
theorem addSegFace_spec {φ : Int → Int → Int → G} (hφ : Alt φ) (hd : Diag φ) (c c' : Cav) (s : Seg)
    (hinv : SlotsInv c.faces) (hact : SegFaceActive c) (h : addSegFace c s = (.ok, c')) :
    SlotsInv c'.faces ∧ SameButFaces c c' ∧
    rowsSum φ c'.faces.rows = rowsSum φ c.faces.rows + φ s.n0 s.n1 c.segNode ∧
    (∀ x ∈ c'.validFaces, x ∈ c.validFaces ∨ x = ⟨s.n0, s.n1, c.segNode⟩) := by
  unfold addSegFace at h
  rw [isEmpty_false_of_ne hact.1] at h
  simp only [Bool.false_eq_true, if_false, hact.2, ne_eq, not_true_eq_false] at h
  split at h
  · next hatt =>
    simp only [Prod.mk.injEq, true_and] at h; subst h
    refine ⟨hinv, ⟨rfl, rfl, rfl, rfl, rfl, rfl⟩, ?_, fun x hx => Or.inl hx⟩
    simp only [Bool.or_eq_true, beq_iff_eq] at hatt
    rcases hatt with e | e
    · rw [← e, diag_aba hφ hd]; simp
    · rw [← e, diag_abb hφ hd]; simp
  · obtain ⟨h1, h2, h3, h4⟩ := insertFace_spec hφ c c' _ hinv h
    exact ⟨h1, h2, by rw [h3]; rfl, h4⟩

/-! ### remove_seg_add_tets -/

/-- the faces of a tet that `ref_cavity_remove_seg_add_tets` inserts: those that are not one of the two tris `skip` -/
def rmSegKeep (g : Grid α) (skip : List Nat) (f : Face) : Bool :=
  match (g.tris.having Tri.nodes f.n0).find? fun p =>
      p.2.nodes.all (fun v => f.has v) && [f.n0, f.n1, f.n2].all (fun v => p.2.nodes.contains v) with
  | some p => !(skip.contains p.1)
  | none => true

theorem rmSegTetFaces_eq (g : Grid α) (skip : List Nat) (c : Cav) (fs : List Face) :
    rmSegTetFaces g skip c fs = insertFaces c (fs.filter (rmSegKeep g skip)) := by
  induction fs generalizing c with
  | nil => rfl
  | cons f t ih =>
    unfold rmSegTetFaces
    simp only
    split
    · next p hp =>
      split
      · next hsk =>
        have hk : rmSegKeep g skip f = false := by
          unfold rmSegKeep; rw [hp]; simp only [hsk, Bool.not_true]
        rw [List.filter_cons, hk]; simp only [Bool.false_eq_true, if_false]; exact ih c
      · next hsk =>
        have hk : rmSegKeep g skip f = true := by
          unfold rmSegKeep; rw [hp]; simp only [hsk, Bool.not_false]
        rw [List.filter_cons, hk]; simp only [if_true, insertFaces]
        rcases insertFace c f with ⟨s1, c1⟩
        cases s1 <;> simp only [] <;> first | exact ih c1 | rfl
    · next hp =>
      have hk : rmSegKeep g skip f = true := by
        unfold rmSegKeep; rw [hp]
      rw [List.filter_cons, hk]; simp only [if_true, insertFaces]
      rcases insertFace c f with ⟨s1, c1⟩
      cases s1 <;> simp only [] <;> first | exact ih c1 | rfl

/-- the kept and the skipped faces of the tet in `cell` -/
def keptFaces (g : Grid α) (skip : List Nat) (cell : Int) : List Face :=
  match g.tets.get? cell with
  | some t => (tetFaces t).filter (rmSegKeep g skip)
  | none => []

def skippedFaces (g : Grid α) (skip : List Nat) (cell : Int) : List Face :=
  match g.tets.get? cell with
  | some t => (tetFaces t).filter fun f => !(rmSegKeep g skip f)
  | none => []

theorem faceSum_filter_split (φ : Int → Int → Int → G) (p : Face → Bool) (l : List Face) :
    faceSum φ l = faceSum φ (l.filter p) + faceSum φ (l.filter fun f => !(p f)) := by
  induction l with
  | nil => simp [faceSum]
  | cons f t ih =>
    simp only [faceSum] at ih ⊢
    cases hp : p f with
    | true =>
      simp only [List.filter_cons, hp, if_true, Bool.not_true, Bool.false_eq_true, if_false, List.map_cons,
        List.sum_cons]
      rw [ih]; abel
    | false =>
      simp only [List.filter_cons, hp, Bool.false_eq_true, if_false, Bool.not_false, if_true, List.map_cons,
        List.sum_cons]
      rw [ih]; abel

theorem kept_eq (φ : Int → Int → Int → G) (g : Grid α) (skip : List Nat) (cell : Int) :
    faceSum φ (keptFaces g skip cell) = tetBd φ g cell - faceSum φ (skippedFaces g skip cell) := by
  unfold keptFaces skippedFaces tetBd
  cases g.tets.get? cell with
  | none => simp [faceSum]
  | some t =>
    simp only
    rw [faceSum_filter_split φ (rmSegKeep g skip) (tetFaces t)]; abel

/-- the cells of a `having` list are live, with the listed content -/
theorem having_get {β : Type} (s : Cells β) (nodes : β → List Int) (v : Int) (p : Nat × β)
    (hp : p ∈ s.having nodes v) : s.get? (p.1 : Int) = some p.2 := by
  simp only [Cells.having, List.mem_filterMap] at hp
  obtain ⟨cidx, _, hc⟩ := hp
  cases hrow : s.slots.rows.getD cidx none with
  | none => rw [hrow] at hc; cases hc
  | some x =>
    rw [hrow] at hc
    simp only at hc
    split at hc
    · simp only [Option.some.injEq] at hc; subst hc
      simp only [Cells.get?, Slots.get?]
      have : ¬ ((cidx : Int) < 0) := by omega
      simp only [this, if_false, Int.toNat_natCast]
      exact hrow
    · cases hc

theorem having2_get {β : Type} (s : Cells β) (nodes : β → List Int) (v w : Int) (p : Nat × β)
    (hp : p ∈ s.having2 nodes v w) : s.get? (p.1 : Int) = some p.2 :=
  having_get s nodes v p (List.mem_filter.mp hp).1

/-- what a run of `rmSegTets` does when it ends ok in state unknown -/
theorem rmSegTets_spec {φ : Int → Int → Int → G} (hφ : Alt φ) (g : Grid α) (skip : List Nat)
    (cells : List (Nat × Tet)) (hcells : ∀ p ∈ cells, g.tets.get? (p.1 : Int) = some p.2)
    (c c' : Cav) (hinv : SlotsInv c.faces) (h : rmSegTets g skip c cells = (.ok, c')) (hs : c'.state = .unknown) :
    SlotsInv c'.faces ∧ c'.segs = c.segs ∧ c'.node = c.node ∧ c'.surfNode = c.surfNode ∧ c'.triList = c.triList ∧
    c.state = .unknown ∧
    ∃ new, c'.tetList = c.tetList ++ new ∧
      (∀ cell ∈ new, (∃ t, g.tets.get? cell = some t)) ∧
      (∀ cell ∈ new, ∃ p ∈ cells, (p.1 : Int) = cell) ∧
      rowsSum φ c'.faces.rows = rowsSum φ c.faces.rows + (new.map fun cell => faceSum φ (keptFaces g skip cell)).sum ∧
      (∀ x ∈ c'.validFaces, x ∈ c.validFaces ∨ ∃ cell ∈ new, x ∈ keptFaces g skip cell) ∧
      new.Nodup ∧ (∀ cell ∈ new, cell ∉ c.tetList) := by
  induction cells generalizing c with
  | nil =>
    simp only [rmSegTets, Prod.mk.injEq, true_and] at h; subst h
    exact ⟨hinv, rfl, rfl, rfl, rfl, hs, [], by simp, by simp, by simp, by simp, fun x hx => Or.inl hx, by simp, by simp⟩
  | cons p rest ih =>
    obtain ⟨cell, tet⟩ := p
    have hrest : ∀ p ∈ rest, g.tets.get? (p.1 : Int) = some p.2 := fun p hp => hcells p (List.mem_cons_of_mem _ hp)
    have hget : g.tets.get? (cell : Int) = some tet := hcells (cell, tet) List.mem_cons_self
    unfold rmSegTets at h
    split at h
    · -- already listed
      obtain ⟨a1, a2, a3, a4, a5, a6, new, b1, b2, b3, b4, b5, b6, b7⟩ := ih hrest c hinv h
      exact ⟨a1, a2, a3, a4, a5, a6, new, b1, b2,
        fun x hx => (b3 x hx).elim fun p hp => ⟨p, List.mem_cons_of_mem _ hp.1, hp.2⟩, b4, b5, b6, b7⟩
    · next hnot =>
      simp only at h
      split at h
      · simp only [Prod.mk.injEq, true_and] at h; subst h; simp at hs
      · rw [rmSegTetFaces_eq] at h
        rcases hins : insertFaces { c with tetList := c.tetList ++ [(cell : Int)] }
          ((tetFaces tet).filter (rmSegKeep g skip)) with ⟨s1, c1⟩
        rw [hins] at h
        cases s1 <;> simp only [] at h <;> first | exact (notok h (by decide)).elim | skip
        obtain ⟨hinv1, hsame1, hsum1, hmem1⟩ :=
          insertFaces_spec hφ _ { c with tetList := c.tetList ++ [(cell : Int)] } c1 hinv hins
        obtain ⟨s1, s2, s3, s4, s5, s6⟩ := hsame1
        obtain ⟨a1, a2, a3, a4, a5, a6, new, b1, b2, b3, b4, b5, b6, b7⟩ := ih hrest c1 hinv1 h
        have hk : keptFaces g skip (cell : Int) = (tetFaces tet).filter (rmSegKeep g skip) := by
          simp [keptFaces, hget]
        have hcellnot : (cell : Int) ∉ c.tetList := fun hm => hnot (List.contains_iff_mem.mpr hm)
        refine ⟨a1, a2.trans s4, a3.trans s2, a4.trans s3, a5.trans s6, s1 ▸ a6, ?_⟩
        refine ⟨(cell : Int) :: new, ?_, ?_, ?_, ?_, ?_, ?_, ?_⟩
        rotate_left 5
        · refine List.nodup_cons.mpr ⟨?_, b6⟩
          intro hm
          exact b7 _ hm (by rw [s5]; simp)
        · intro x hx
          rcases List.mem_cons.mp hx with rfl | hx
          · exact hcellnot
          · intro hm
            exact b7 x hx (by rw [s5]; exact List.mem_append_left _ hm)
        · rw [b1, s5]; simp
        · intro x hx
          rcases List.mem_cons.mp hx with rfl | hx
          · exact ⟨tet, hget⟩
          · exact b2 x hx
        · intro x hx
          rcases List.mem_cons.mp hx with rfl | hx
          · exact ⟨(cell, tet), List.mem_cons_self, rfl⟩
          · exact (b3 x hx).elim fun p hp => ⟨p, List.mem_cons_of_mem _ hp.1, hp.2⟩
        · rw [b4, hsum1]
          simp only [List.map_cons, List.sum_cons, hk]; abel
        · intro x hx
          rcases b5 x hx with h1 | ⟨cl, hcl, hx2⟩
          · rcases hmem1 x h1 with h2 | h2
            · exact Or.inl h2
            · exact Or.inr ⟨(cell : Int), List.mem_cons_self, by rw [hk]; exact h2⟩
          · exact Or.inr ⟨cl, List.mem_cons_of_mem _ hcl, hx2⟩


/-- the two tris on the seg, as `ref_cell_list_with2` lists them -/
def segSkip (g : Grid α) (s : Seg) : List Nat := (g.tris.having2 Tri.nodes s.n0 s.n1).map (·.1)

/-- `ref_cavity_remove_seg_add_tets` on an active cavity -/
theorem removeSegAddTets_spec {φ : Int → Int → Int → G} (hφ : Alt φ) (g : Grid α) (c c' : Cav) (s : Seg)
    (hinv : SlotsInv c.faces) (hact : SegFaceActive c) (h : removeSegAddTets g c s = (.ok, c'))
    (hs : c'.state = .unknown) :
    SlotsInv c'.faces ∧ c'.segs = c.segs ∧ c'.node = c.node ∧ c'.surfNode = c.surfNode ∧ c'.triList = c.triList ∧
    ∃ new, c'.tetList = c.tetList ++ new ∧
      (∀ cell ∈ new, (∃ t, g.tets.get? cell = some t)) ∧
      rowsSum φ c'.faces.rows =
        rowsSum φ c.faces.rows + (new.map fun cell => faceSum φ (keptFaces g (segSkip g s) cell)).sum ∧
      (∀ x ∈ c'.validFaces, x ∈ c.validFaces ∨ ∃ cell ∈ new, x ∈ keptFaces g (segSkip g s) cell) ∧
      new.Nodup ∧ (∀ cell ∈ new, cell ∉ c.tetList) := by
  unfold removeSegAddTets at h
  rw [isEmpty_false_of_ne hact.1] at h
  simp only [Bool.false_eq_true, if_false, hact.2, ne_eq, not_true_eq_false] at h
  split at h
  · simp at h
  · split at h
    · simp at h
    · have hcells : ∀ p ∈ g.tets.having2 Tet.nodes s.n0 s.n1, g.tets.get? (p.1 : Int) = some p.2 :=
        fun p hp => having2_get g.tets Tet.nodes s.n0 s.n1 p hp
      obtain ⟨a1, a2, a3, a4, a5, _, new, b1, b2, _, b4, b5, b6, b7⟩ :=
        rmSegTets_spec hφ g (segSkip g s) _ hcells c c' hinv h hs
      exact ⟨a1, a2, a3, a4, a5, new, b1, b2, b4, b5, b6, b7⟩

theorem coneSum_perm (φ : Int → Int → Int → G) (n : Int) {l1 l2 : List Seg} (hp : l1.Perm l2) :
    coneSum φ n l1 = coneSum φ n l2 := (hp.map fun (s : Seg) => φ s.n0 s.n1 n).sum_eq

theorem segSum_perm (ψ : Int → Int → G) {l1 l2 : List Seg} (hp : l1.Perm l2) :
    segSum ψ l1 = segSum ψ l2 := (hp.map fun (s : Seg) => ψ s.n0 s.n1).sum_eq

theorem segNode_eq {c c' : Cav} (h1 : c'.node = c.node) (h2 : c'.surfNode = c.surfNode) : c'.segNode = c.segNode := by
  simp only [Cav.segNode, h1, h2]

/-- outcome of a successful 3-D `ref_cavity_insert_seg` that leaves the state `unknown` -/
structure SegStep (φ : Int → Int → Int → G) (ψ : Int → Int → G) (g : Grid α) (c c' : Cav) (s : Seg) (new : List Int) :
    Prop where
  finv : SlotsInv c'.faces
  sinv : SlotsInv c'.segs
  node : c'.node = c.node
  surf : c'.surfNode = c.surfNode
  tris : c'.triList = c.triList
  tets : c'.tetList = c.tetList ++ new
  live : ∀ cell ∈ new, ∃ t, g.tets.get? cell = some t
  nodup : new.Nodup
  fresh : ∀ cell ∈ new, cell ∉ c.tetList
  ledger : ledgerVal φ c' = ledgerVal φ c + (new.map fun cell => faceSum φ (keptFaces g (segSkip g s) cell)).sum
  segs : segSum ψ c'.validSegs = segSum ψ c.validSegs + ψ s.n0 s.n1
  segMem : ∀ x ∈ c'.validSegs, x ∈ c.validSegs ∨ x = s
  faceMem : ∀ x ∈ c'.validFaces, x ∈ c.validFaces ∨ x = ⟨s.n0, s.n1, c.segNode⟩ ∨
    ∃ cell ∈ new, x ∈ keptFaces g (segSkip g s) cell

/-- **the 3-D `ref_cavity_insert_seg`.**  On an active cavity (tets listed, state unknown) a successful call either
    flags the cavity (face-id mismatch: `boundary_constrained`; a ghost tet pulled in: `partition_constrained`) or
    keeps `ledgerVal` up to the tets pulled in by `remove_seg_add_tets`, and changes the seg chain by `ψ(s)`. -/
theorem insertSeg3_spec {φ : Int → Int → Int → G} {ψ : Int → Int → G} (hφ : Alt φ) (hd : Diag φ) (hψ : Alt2 ψ)
    (g : Grid α) (c c' : Cav) (s : Seg) (hf : SlotsInv c.faces) (hsg : SlotsInv c.segs) (hact : SegFaceActive c)
    (h : insertSeg g c s = (.ok, c')) :
    c'.state ≠ .unknown ∨ ∃ new, SegStep φ ψ g c c' s new := by
  by_cases hs' : c'.state = .unknown
  swap
  · exact Or.inl hs'
  right
  unfold insertSeg at h
  split at h
  · next i hfind =>
    obtain ⟨_, old, hold, hr, _⟩ := findSegAux_spec _ _ _ _ _ _ hfind
    simp only [Nat.sub_zero] at hold
    rw [hold] at h
    simp only at h
    split at h
    · simp only [Prod.mk.injEq, true_and] at h; subst h; simp at hs'
    · next hid =>
      rcases h1 : removeSegFace { c with segs := c.segs.remove i } s with ⟨s1, c1⟩
      rw [h1] at h
      cases s1 <;> simp only [] at h <;> first | exact (notok h (by decide)).elim | skip
      have hact0 : SegFaceActive { c with segs := c.segs.remove i } := hact
      obtain ⟨f1, ⟨e1, e2, e3, e4, e5, e6⟩, fsum1, fmem1⟩ :=
        removeSegFace_spec hφ { c with segs := c.segs.remove i } c1 s hf hact0 h1
      have hact1 : SegFaceActive c1 := ⟨by rw [e5]; exact hact.1, by rw [e1]; exact hact.2⟩
      obtain ⟨f2, d2, d3, d4, d5, new, t1, t2, fsum2, fmem2, nd2, fr2⟩ :=
        removeSegAddTets_spec hφ g c1 c' s f1 hact1 h hs'
      obtain ⟨hi, hp, hb⟩ := Slots.remove_spec c.segs i old hsg hold
      obtain ⟨hb0, ha0⟩ := hr rfl
      have hn : c'.segNode = c.segNode := segNode_eq (d3.trans e2) (d4.trans e3)
      have hsegs : c'.validSegs = (c.segs.remove i).valid := by
        simp only [Cav.validSegs, d2, e4]
      refine ⟨new, ⟨f2, by rw [d2, e4]; exact hi, d3.trans e2, d4.trans e3, d5.trans e6, by rw [t1, e5], t2, nd2,
        (by intro cell hc; have := fr2 cell hc; rw [e5] at this; exact this), ?_, ?_, ?_, ?_⟩⟩
      · simp only [ledgerVal, hn, hsegs]
        rw [fsum2, fsum1]
        have hc := coneSum_perm φ c.segNode hp
        simp only [coneSum, List.map_cons, List.sum_cons] at hc
        simp only [coneSum, Cav.validSegs]
        rw [hc, ← hb0, ← ha0, hφ.swap s.n0 s.n1 c.segNode]
        simp only [Cav.segNode]; abel
      · rw [hsegs]
        have hc := segSum_perm ψ hp
        simp only [segSum, List.map_cons, List.sum_cons] at hc
        simp only [segSum, Cav.validSegs]
        rw [hc, ← hb0, ← ha0, hψ.swap s.n0 s.n1]; abel
      · intro x hx
        rw [hsegs] at hx
        left
        exact hp.symm.subset (List.mem_cons_of_mem _ hx)
      · intro x hx
        rcases fmem2 x hx with h2 | h2
        · exact Or.inl (fmem1 x h2)
        · exact Or.inr (Or.inr h2)
  · simp at h
  · simp only [] at h
    have hact0 : SegFaceActive { c with segs := (c.segs.add 100 s).1 } := hact
    obtain ⟨f1, ⟨e1, e2, e3, e4, e5, e6⟩, fsum1, fmem1⟩ :=
      addSegFace_spec hφ hd { c with segs := (c.segs.add 100 s).1 } c' s hf hact0 h
    obtain ⟨hi, hp, _, _⟩ := Slots.add_spec c.segs 100 (by decide) s hsg
    have hn : c'.segNode = c.segNode := segNode_eq e2 e3
    have hsegs : c'.validSegs = (c.segs.add 100 s).1.valid := by simp only [Cav.validSegs, e4]
    refine ⟨[], ⟨f1, by rw [e4]; exact hi, e2, e3, e6, by rw [e5]; simp, by simp, by simp, by simp, ?_, ?_, ?_, ?_⟩⟩
    · simp only [ledgerVal, hn, hsegs, List.map_nil, List.sum_nil, add_zero]
      rw [fsum1]
      have hc := coneSum_perm φ c.segNode hp
      simp only [coneSum, List.map_cons, List.sum_cons] at hc
      simp only [coneSum, Cav.validSegs]
      rw [hc]
      simp only [Cav.segNode]; abel
    · rw [hsegs]
      have hc := segSum_perm ψ hp
      simp only [segSum, List.map_cons, List.sum_cons] at hc
      simp only [segSum, Cav.validSegs]
      rw [hc]; abel
    · intro x hx
      rw [hsegs] at hx
      rcases List.mem_cons.mp (hp.subset hx) with rfl | h2
      · exact Or.inr rfl
      · exact Or.inl h2
    · intro x hx
      rcases fmem1 x hx with h2 | h2
      · exact Or.inl h2
      · exact Or.inr (Or.inl h2)

end Refine.Lemmas.Cavity2
