import Refine.Model.Rcb
import Refine.Lemmas.Comm

/-!
  Helper lemmas for `Refine/Props/C04Rcb.lean`, part 1: structure of the recursion of
  `ref_migrate_native_rcb_direction` for ANY scalar type (no order or field law is used; in particular
  nothing depends on what `ref_search_selection` returns):
  the copy loop is a permutation, `ref_mpi_balance` keeps the records, the recursion hands every rank exactly one
  leaf, part ids stay inside `[offset, offset + npart)` and every id is used.
-/
namespace Refine.Lemmas.Rcb
open Refine Refine.Model.Comm Refine.Model.Rcb Refine.Lemmas.Comm

variable {α : Type}

/-! ### lists -/

theorem flatten_map_singleton {β : Type} (l : List β) : (l.map fun x => [x]).flatten = l := by
  induction l with
  | nil => rfl
  | cons x xs ih => simp [ih]

theorem flatten_eq_take_of_tail_nil {β : Type} (L : List (List β)) (k : Nat)
    (h : ∀ r, k ≤ r → r < L.length → L.getD r [] = []) : (L.take k).flatten = L.flatten := by
  induction L generalizing k with
  | nil => simp
  | cons x xs ih =>
    cases k with
    | zero =>
      have hx : x = [] := by simpa using h 0 (Nat.le_refl 0) (by simp)
      have : xs.flatten = [] := by
        have := ih 0 (fun r _ hr => by simpa using h (r + 1) (Nat.zero_le _) (by simpa using hr))
        simpa using this.symm
      simp [hx, this]
    | succ k =>
      have := ih k (fun r hk hr => by simpa using h (r + 1) (by omega) (by simpa using hr))
      simp [this]

theorem flatten_eq_drop_of_head_nil {β : Type} (L : List (List β)) (k : Nat)
    (h : ∀ r, r < k → r < L.length → L.getD r [] = []) : (L.drop k).flatten = L.flatten := by
  induction L generalizing k with
  | nil => simp
  | cons x xs ih =>
    cases k with
    | zero => simp
    | succ k =>
      have hx : x = [] := by simpa using h 0 (by omega) (by simp)
      have := ih k (fun r hk hr => by simpa using h (r + 1) (by omega) (by simpa using hr))
      simp [hx, this]

theorem singletons_flatten_flatten {β : Type} (w : List (List β)) :
    (w.map fun l => l.map fun x => [x]).flatten.flatten = w.flatten := by
  induction w with
  | nil => rfl
  | cons x xs ih =>
    simp only [List.map_cons, List.flatten_cons, List.flatten_append, flatten_map_singleton, ih]

theorem singletons_flatten_length {β : Type} (w : List (List β)) :
    (w.map fun l => l.map fun x => [x]).flatten.length = w.flatten.length := by
  induction w with
  | nil => rfl
  | cons x xs ih => simp only [List.map_cons, List.flatten_cons, List.length_append, List.length_map, ih]

theorem map_flatten_flatten {β : Type} (L : List (List (List β))) :
    (L.map List.flatten).flatten = L.flatten.flatten := by
  induction L with
  | nil => rfl
  | cons x xs ih => simp only [List.map_cons, List.flatten_cons, List.flatten_append, ih]

/-- `(a₁ ++ a₂) ++ (b₁ ++ b₂) ~ (a₁ ++ b₁) ++ (a₂ ++ b₂)` -/
theorem perm_append_swap {β : Type} (a1 a2 b1 b2 : List β) :
    ((a1 ++ a2) ++ (b1 ++ b2)).Perm ((a1 ++ b1) ++ (a2 ++ b2)) := by
  rw [List.append_assoc, List.append_assoc]
  refine List.Perm.append_left a1 ?_
  rw [← List.append_assoc, ← List.append_assoc]
  exact List.Perm.append_right b2 List.perm_append_comm

/-! ### the copy loop -/

section Split
variable [Scalar α]

/-- the copy loop of one rank is a permutation: nothing lost, nothing duplicated, whatever the cut -/
theorem splitLocal_perm (t : M9 α) (c : Cut α) (l : List (Rec α)) :
    ((splitLocal t c l).1 ++ (splitLocal t c l).2).Perm l :=
  List.filter_append_perm (inOuter t c) l

theorem splitLocal_length (t : M9 α) (c : Cut α) (l : List (Rec α)) :
    (splitLocal t c l).1.length + (splitLocal t c l).2.length = l.length := by
  have := (splitLocal_perm t c l).length_eq
  simpa using this

theorem halves_fst_flatten (t : M9 α) (c : Cut α) (w : World (List (Rec α))) :
    ((w.map (splitLocal t c)).map (·.1)).flatten = w.flatten.filter (inOuter t c) := by
  rw [List.filter_flatten, List.map_map]
  rfl

theorem halves_snd_flatten (t : M9 α) (c : Cut α) (w : World (List (Rec α))) :
    ((w.map (splitLocal t c)).map (·.2)).flatten = w.flatten.filter (fun r => !inOuter t c r) := by
  rw [List.filter_flatten, List.map_map]
  rfl

/-- world level: the two halves together are a permutation of all records -/
theorem halves_perm (t : M9 α) (c : Cut α) (w : World (List (Rec α))) :
    (((w.map (splitLocal t c)).map (·.1)).flatten ++ ((w.map (splitLocal t c)).map (·.2)).flatten).Perm
      w.flatten := by
  rw [halves_fst_flatten, halves_snd_flatten]
  exact List.filter_append_perm _ _

end Split

/-! ### `ref_mpi_balance` on records -/

section Balance
variable [Inhabited α]

/-- `balanceRecs` for `0 ≤ first ≤ last < np` and fewer than `2^31` records: succeeds on every rank, keeps the
    number of ranks, keeps the concatenation (order included), leaves nothing outside `[first, last]` -/
theorem balanceRecs_spec' {β : Type} [Inhabited β] (first last : Nat) (w : World (List β))
    (hfl : first ≤ last) (hl : last < w.length) (hr : (w.flatten.length : Int) ≤ INT_MAX) :
    ∃ b : World (List β),
      balance false RefType.dbl 0 1 (first : Int) (last : Int) (w.map fun l => (l.length, l))
        = some (b.map fun x => (Status.ok, (x.length : Int), x))
      ∧ b.length = w.length ∧ b.flatten = w.flatten
      ∧ ∀ r, r < b.length → (r < first ∨ last < r) → b.getD r [] = [] := by
  let ws : World (List (List β)) := w.map fun l => l.map fun x => [x]
  have hws : balanceIn ws = w.map fun l => (l.length, l) := by
    simp only [balanceIn, ws, List.map_map]
    apply List.map_congr_left
    intro l _
    simp [flatten_map_singleton]
  have hlen : ws.length = w.length := by simp [ws]
  have hflat : ws.flatten.flatten = w.flatten := singletons_flatten_flatten w
  have hflen : ws.flatten.length = w.flatten.length := singletons_flatten_length w
  have hi : ∀ its ∈ ws, ∀ it ∈ its, it.length = 1 := by
    intro its hits it hit
    simp only [ws, List.mem_map] at hits
    obtain ⟨l, _, rfl⟩ := hits
    simp only [List.mem_map] at hit
    obtain ⟨x, _, rfl⟩ := hit
    rfl
  have hb := balance_eq false RefType.dbl rfl 0 1 first last ws hfl (by omega) hi (by intro h; cases h)
    (by intro _; rw [hflen]; simpa using hr)
  have hcat : ((List.range ws.length).map (balanced first last ws)).flatten = ws.flatten := by
    rw [← List.flatMap_def]
    unfold balanced
    rw [chunks_flatMap (shareNat ws.flatten.length first last) ws.flatten ws.length,
      prefSum_shareNat_total _ first last ws.length hfl (by omega), List.take_length]
  refine ⟨(List.range ws.length).map fun r => (balanced first last ws r).flatten, ?_, ?_, ?_, ?_⟩
  · rw [← hws, hb, List.map_map]
    congr 1
    apply List.map_congr_left
    intro r _
    simp only [Function.comp]
    have hone : ∀ it ∈ balanced first last ws r, it.length = 1 := by
      intro it hit
      unfold balanced slice at hit
      have h1 := List.mem_of_mem_take hit
      have h2 := List.mem_of_mem_drop h1
      obtain ⟨its, hits, hmem⟩ := List.mem_flatten.mp h2
      exact hi its hits it hmem
    rw [length_flatten_uniform 1 _ hone]
    simp
  · simp [hlen]
  · have := congrArg List.flatten hcat
    rw [← hflat, ← this, ← map_flatten_flatten, List.map_map]
    rfl
  · intro r hrl hout
    simp only [List.length_map, List.length_range] at hrl
    rw [List.getD_eq_getElem?_getD, List.getElem?_map, List.getElem?_range hrl]
    simp only [Option.map_some, Option.getD_some]
    unfold balanced slice
    rw [shareNat_inactive _ first last r hout, List.take_zero]
    rfl

end Balance

section Direction
variable [Scalar α] [RcbScalar α]

theorem balanceRecs_spec (first last : Nat) (w : World (List (Rec α)))
    (hfl : first ≤ last) (hl : last < w.length) (hr : (w.flatten.length : Int) ≤ INT_MAX) :
    ∃ b : World (List (Rec α)), balanceRecs (first : Int) (last : Int) w = some b
      ∧ b.length = w.length ∧ b.flatten = w.flatten
      ∧ ∀ r, r < b.length → (r < first ∨ last < r) → b.getD r [] = [] := by
  obtain ⟨b, hb, h1, h2, h3⟩ := balanceRecs_spec' first last w hfl hl hr
  refine ⟨b, ?_, h1, h2, h3⟩
  unfold balanceRecs
  rw [hb]
  simp only [List.all_map, List.map_map]
  have : (b.all ((fun x : Status × Int × List (Rec α) => x.1 == Status.ok) ∘ fun x =>
      (Status.ok, (x.length : Int), x))) = true := by simp
  rw [if_pos this]
  congr 1
  exact (List.map_congr_left (fun _ _ => rfl)).trans (List.map_id _)

omit [Scalar α] [RcbScalar α] in
/-- assignments made by a list of leaves: every record with the part id of its leaf -/
def assignments (leaves : World (Int × List (Rec α))) : List (Rec α × Int) :=
  leaves.flatMap fun l => l.2.map fun r => (r, l.1)

theorem assignments_append (a b : World (Int × List (Rec α))) :
    assignments (a ++ b) = assignments a ++ assignments b := by
  simp [assignments]

theorem assignments_fst (leaves : World (Int × List (Rec α))) :
    (assignments leaves).map (·.1) = leaves.flatMap (·.2) := by
  induction leaves with
  | nil => rfl
  | cons l ls ih =>
    simp only [assignments, List.flatMap_cons, List.map_append, List.map_map] at ih ⊢
    rw [ih]
    congr 1
    induction l.2 with
    | nil => rfl
    | cons x xs ihx => simp_all

/-- One level of `ref_migrate_native_rcb_direction` (`npart ≥ 2`, inside the precondition): after the cut, the
    copy loop and the two `ref_mpi_balance` calls the front `npart/2` ranks hold exactly the records outside the
    band `[value0, value1]`, the other ranks exactly those inside, and the result is the concatenation of the two
    recursive results. -/
theorem rcbDirection_unfold (hst : ∀ n : Nat, 2 ≤ n → (splitRatio (α := α) (n : Int)).1 = Status.ok)
    (t : M9 α) (seed : Int) (twod : Bool) (npart : Nat) (offset dir : Int) (w : World (List (Rec α)))
    (h2 : 2 ≤ npart) (hlen : npart ≤ w.length) (htot : (w.flatten.length : Int) ≤ INT_MAX) :
    ∃ s0 s1 : World (List (Rec α)),
      s0.length = npart / 2 ∧ s1.length = w.length - npart / 2
      ∧ s0.flatten = w.flatten.filter (inOuter t (cutOf t seed npart dir w))
      ∧ s1.flatten = w.flatten.filter (fun r => !inOuter t (cutOf t seed npart dir w) r)
      ∧ ∀ r0 r1,
          rcbDirection t seed twod (npart / 2) offset (nextDir (cutOf t seed npart dir w).dir twod) s0 = some r0 →
          rcbDirection t seed twod (npart - npart / 2) (offset + ((npart / 2 : Nat) : Int))
            (nextDir (cutOf t seed npart dir w).dir twod) s1 = some r1 →
          rcbDirection t seed twod npart offset dir w = some (r0 ++ r1) := by
  have hstat : (cutOf t seed npart dir w).status = Status.ok := by
    unfold cutOf
    exact hst npart h2
  generalize hc : cutOf t seed npart dir w = c at hstat ⊢
  have hperm := halves_perm t c w
  have hlen0 : (((w.map (splitLocal t c)).map (·.1)).flatten.length : Int) ≤ INT_MAX := by
    have := hperm.length_eq
    simp only [List.length_append] at this
    omega
  have hlen1 : (((w.map (splitLocal t c)).map (·.2)).flatten.length : Int) ≤ INT_MAX := by
    have := hperm.length_eq
    simp only [List.length_append] at this
    omega
  obtain ⟨b0, hb0, hb0len, hb0flat, hb0out⟩ :=
    balanceRecs_spec 0 (npart / 2 - 1) ((w.map (splitLocal t c)).map (·.1)) (Nat.zero_le _)
      (by simp; omega) hlen0
  obtain ⟨b1, hb1, hb1len, hb1flat, hb1out⟩ :=
    balanceRecs_spec (npart / 2) (w.length - 1) ((w.map (splitLocal t c)).map (·.2)) (by omega)
      (by simp; omega) hlen1
  have hc0 : ((npart / 2 - 1 : Nat) : Int) = ((npart / 2 : Nat) : Int) - 1 := by omega
  have hc1 : ((w.length - 1 : Nat) : Int) = (w.length : Int) - 1 := by omega
  rw [hc0] at hb0
  rw [hc1] at hb1
  have hz : ((0 : Nat) : Int) = 0 := rfl
  rw [hz] at hb0
  simp only [List.length_map] at hb0len hb1len
  refine ⟨b0.take (npart / 2), b1.drop (npart / 2), ?_, ?_, ?_, ?_, ?_⟩
  · rw [List.length_take]; omega
  · rw [List.length_drop]; omega
  · rw [← halves_fst_flatten, ← hb0flat]
    apply flatten_eq_take_of_tail_nil
    intro r hk hr
    exact hb0out r hr (Or.inr (by omega))
  · rw [← halves_snd_flatten, ← hb1flat]
    apply flatten_eq_drop_of_head_nil
    intro r hk hr
    exact hb1out r hr (Or.inl hk)
  · intro r0 r1 hr0 hr1
    rw [rcbDirection]
    rw [dif_neg (by omega), dif_neg (by omega), if_neg (by omega)]
    simp only []
    rw [hc, if_neg (by rw [hstat]; decide), hb0, hb1]
    simp only []
    rw [hr0, hr1]

/-- The recursion of `ref_migrate_native_rcb_direction`, for every scalar type whose `ref_migrate_split_ratio`
    does not refuse `npart ≥ 2` (hypothesis `hst`; true of ℝ, see `splitRatio_ok`), every `npart ≥ 1` not larger than
    the communicator, every distribution of fewer than `2^31` records (empty ranks included), every seed, direction
    and cut values:
    every rank ends in exactly one leaf; the records held in the leaves are a permutation of the records handed
    in; the part ids lie in `[offset, offset + npart)`; every id of that range is the id of some rank. -/
theorem rcbDirection_spec (hst : ∀ n : Nat, 2 ≤ n → (splitRatio (α := α) (n : Int)).1 = Status.ok)
    (t : M9 α) (seed : Int) (twod : Bool) :
    ∀ (npart : Nat) (offset dir : Int) (w : World (List (Rec α))),
      1 ≤ npart → npart ≤ w.length → (w.flatten.length : Int) ≤ INT_MAX →
      ∃ leaves, rcbDirection t seed twod npart offset dir w = some leaves
        ∧ leaves.length = w.length
        ∧ (leaves.flatMap (·.2)).Perm w.flatten
        ∧ (∀ l ∈ leaves, offset ≤ l.1 ∧ l.1 < offset + (npart : Int))
        ∧ (∀ k : Int, offset ≤ k → k < offset + (npart : Int) → ∃ l ∈ leaves, l.1 = k) := by
  intro npart
  induction npart using Nat.strongRecOn with
  | ind npart ih =>
    intro offset dir w h1 hlen htot
    by_cases hone : npart = 1
    · subst hone
      rw [rcbDirection, dif_neg (by omega), dif_pos rfl]
      refine ⟨_, rfl, by simp, ?_, ?_, ?_⟩
      · rw [List.flatMap_map]
        simp only [List.flatMap_id']
        exact List.Perm.refl _
      · intro l hl
        simp only [List.mem_map] at hl
        obtain ⟨_, _, rfl⟩ := hl
        simp only [Int.le_refl, true_and]
        omega
      · intro k hk1 hk2
        have hk : k = offset := by omega
        subst hk
        match w, hlen with
        | x :: xs, _ => exact ⟨(k, x), by simp, rfl⟩
    · have h2 : 2 ≤ npart := by omega
      obtain ⟨s0, s1, hs0len, hs1len, hs0flat, hs1flat, hrec⟩ :=
        rcbDirection_unfold hst t seed twod npart offset dir w h2 hlen htot
      generalize cutOf t seed npart dir w = c at hs0flat hs1flat hrec
      have hperm : (s0.flatten ++ s1.flatten).Perm w.flatten := by
        rw [hs0flat, hs1flat]; exact List.filter_append_perm _ _
      have hl01 := hperm.length_eq
      rw [List.length_append] at hl01
      obtain ⟨r0, hr0, hr0len, hr0perm, hr0rng, hr0sur⟩ :=
        ih (npart / 2) (by omega) offset (nextDir c.dir twod) s0 (by omega) (by omega) (by omega)
      obtain ⟨r1, hr1, hr1len, hr1perm, hr1rng, hr1sur⟩ :=
        ih (npart - npart / 2) (by omega) (offset + ((npart / 2 : Nat) : Int)) (nextDir c.dir twod) s1
          (by omega) (by omega) (by omega)
      refine ⟨r0 ++ r1, hrec r0 r1 hr0 hr1, ?_, ?_, ?_, ?_⟩
      · rw [List.length_append, hr0len, hr1len]
        omega
      · rw [List.flatMap_append]
        exact List.Perm.trans (List.Perm.append hr0perm hr1perm) hperm
      · intro l hl
        rcases List.mem_append.mp hl with hl | hl
        · have := hr0rng l hl
          constructor
          · exact this.1
          · have : ((npart / 2 : Nat) : Int) < (npart : Int) := by omega
            omega
        · have := hr1rng l hl
          constructor
          · have : (0 : Int) ≤ ((npart / 2 : Nat) : Int) := by omega
            omega
          · have h3 : ((npart - npart / 2 : Nat) : Int) = (npart : Int) - ((npart / 2 : Nat) : Int) := by omega
            rw [h3] at this
            omega
      · intro k hk1 hk2
        by_cases hk : k < offset + ((npart / 2 : Nat) : Int)
        · obtain ⟨l, hl, hlk⟩ := hr0sur k hk1 hk
          exact ⟨l, List.mem_append_left _ hl, hlk⟩
        · have h3 : ((npart - npart / 2 : Nat) : Int) = (npart : Int) - ((npart / 2 : Nat) : Int) := by omega
          obtain ⟨l, hl, hlk⟩ := hr1sur k (by omega) (by rw [h3]; omega)
          exact ⟨l, List.mem_append_right _ hl, hlk⟩

end Direction

end Refine.Lemmas.Rcb
