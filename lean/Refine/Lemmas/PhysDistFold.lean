import Refine.Model.PhysDist

/-!
  Folding a commutative, associative, idempotent operation (a running `min`) over lists: the result depends only on
  the SET of the elements.  Plus the two list facts the wall-distance model needs: the chunks of
  `ref_phys_bcast_parts` concatenate to the concatenation of the parts, and a query answered chunk after chunk sees
  the fold over all wall elements.  No Mathlib.
-/
namespace Refine.Lemmas.PhysDist
open Refine Refine.Model Refine.Model.Geom Refine.Model.PhysDist

/-- what `min` satisfies on a set `S` of values closed under it.  On `ℝ`: everywhere.  On IEEE doubles with
    `MIN(a,b) = a < b ? a : b`: on the values that are neither NaN nor `-0.0` (then `<` is a strict total order and
    numerically equal values are the same bit pattern), which is where the distance kernels take their values
    (`sqrt` of a sum of squares) -/
structure SemiLatOn {β : Type} (S : β → Prop) (op : β → β → β) : Prop where
  closed : ∀ a b, S a → S b → S (op a b)
  comm : ∀ a b, S a → S b → op a b = op b a
  assoc : ∀ a b c, S a → S b → S c → op (op a b) c = op a (op b c)
  idem : ∀ a, S a → op a a = a

/-- the laws everywhere -/
abbrev SemiLat {β : Type} (op : β → β → β) : Prop := SemiLatOn (fun _ => True) op

section Fold
variable {β : Type} {S : β → Prop} {op : β → β → β}

/-- the order of the semilattice: `a` is below `b` -/
def Below (op : β → β → β) (a b : β) : Prop := op a b = a

theorem below_antisymm (h : SemiLatOn S op) {a b : β} (ha : S a) (hb : S b) (h1 : Below op a b)
    (h2 : Below op b a) : a = b := by
  unfold Below at h1 h2
  rw [← h1, h.comm a b ha hb, h2]

theorem below_refl (h : SemiLatOn S op) (a : β) (ha : S a) : Below op a a := h.idem a ha

theorem below_trans (h : SemiLatOn S op) {a b c : β} (ha : S a) (hb : S b) (hc : S c) (h1 : Below op a b)
    (h2 : Below op b c) : Below op a c := by
  unfold Below at *
  rw [← h1, h.assoc a b c ha hb hc, h2]

theorem op_below_left (h : SemiLatOn S op) (a b : β) (ha : S a) (hb : S b) : Below op (op a b) a := by
  unfold Below
  rw [h.comm (op a b) a (h.closed a b ha hb) ha, ← h.assoc a a b ha ha hb, h.idem a ha]

theorem op_below_right (h : SemiLatOn S op) (a b : β) (ha : S a) (hb : S b) : Below op (op a b) b := by
  unfold Below
  rw [h.assoc a b b ha hb hb, h.idem b hb]

theorem below_op (h : SemiLatOn S op) {z a b : β} (hz : S z) (ha : S a) (hb : S b) (h1 : Below op z a)
    (h2 : Below op z b) : Below op z (op a b) := by
  unfold Below at *
  rw [← h.assoc z a b hz ha hb, h1, h2]

theorem foldl_mem (h : SemiLatOn S op) (L : List β) (d : β) (hd : S d) (hL : ∀ x ∈ L, S x) : S (L.foldl op d) := by
  induction L generalizing d with
  | nil => exact hd
  | cons x xs ih =>
    exact ih (op d x) (h.closed d x hd (hL x List.mem_cons_self)) (fun y hy => hL y (List.mem_cons_of_mem _ hy))

theorem foldl_below_init (h : SemiLatOn S op) (L : List β) (d : β) (hd : S d) (hL : ∀ x ∈ L, S x) :
    Below op (L.foldl op d) d := by
  induction L generalizing d with
  | nil => exact below_refl h d hd
  | cons x xs ih =>
    have hx := hL x List.mem_cons_self
    have hxs : ∀ y ∈ xs, S y := fun y hy => hL y (List.mem_cons_of_mem _ hy)
    have hdx := h.closed d x hd hx
    exact below_trans h (foldl_mem h xs _ hdx hxs) hdx hd (ih (op d x) hdx hxs) (op_below_left h d x hd hx)

theorem foldl_below_mem (h : SemiLatOn S op) (L : List β) (d : β) (hd : S d) (hL : ∀ x ∈ L, S x) (x : β)
    (hx : x ∈ L) : Below op (L.foldl op d) x := by
  induction L generalizing d with
  | nil => cases hx
  | cons y ys ih =>
    have hy := hL y List.mem_cons_self
    have hys : ∀ z ∈ ys, S z := fun z hz => hL z (List.mem_cons_of_mem _ hz)
    have hdy := h.closed d y hd hy
    rcases List.mem_cons.mp hx with rfl | hx
    · exact below_trans h (foldl_mem h ys _ hdy hys) hdy hy (foldl_below_init h ys (op d x) hdy hys)
        (op_below_right h d x hd hy)
    · exact ih (op d y) hdy hys hx

theorem below_foldl (h : SemiLatOn S op) (L : List β) (d z : β) (hz : S z) (hd : S d) (hL : ∀ x ∈ L, S x)
    (hzd : Below op z d) (hzL : ∀ x ∈ L, Below op z x) : Below op z (L.foldl op d) := by
  induction L generalizing d with
  | nil => exact hzd
  | cons y ys ih =>
    have hy := hL y List.mem_cons_self
    exact ih (op d y) (h.closed d y hd hy) (fun x hx => hL x (List.mem_cons_of_mem _ hx))
      (below_op h hz hd hy hzd (hzL y List.mem_cons_self)) (fun x hx => hzL x (List.mem_cons_of_mem _ hx))

/-- **the fold only sees the set of the elements**: duplicates and order are irrelevant -/
theorem foldl_eq_of_same_set (h : SemiLatOn S op) (L1 L2 : List β) (d : β) (hd : S d) (h1 : ∀ x ∈ L1, S x)
    (h2 : ∀ x ∈ L2, S x) (hs : ∀ x, x ∈ L1 ↔ x ∈ L2) : L1.foldl op d = L2.foldl op d := by
  have m1 := foldl_mem h L1 d hd h1
  have m2 := foldl_mem h L2 d hd h2
  apply below_antisymm h m1 m2
  · exact below_foldl h L2 d _ m1 hd h2 (foldl_below_init h L1 d hd h1)
      (fun x hx => foldl_below_mem h L1 d hd h1 x ((hs x).2 hx))
  · exact below_foldl h L1 d _ m2 hd h1 (foldl_below_init h L2 d hd h2)
      (fun x hx => foldl_below_mem h L2 d hd h2 x ((hs x).1 hx))

/-- the same through a map: equal sets of elements give equal folds of their values -/
theorem foldl_map_eq_of_same_set {γ : Type} (h : SemiLatOn S op) (f : γ → β) (E1 E2 : List γ) (d : β) (hd : S d)
    (hf : ∀ e, S (f e)) (hs : ∀ e, e ∈ E1 ↔ e ∈ E2) : (E1.map f).foldl op d = (E2.map f).foldl op d := by
  apply foldl_eq_of_same_set h _ _ d hd
  · intro x hx; obtain ⟨e, _, rfl⟩ := List.mem_map.mp hx; exact hf e
  · intro x hx; obtain ⟨e, _, rfl⟩ := List.mem_map.mp hx; exact hf e
  intro x
  simp only [List.mem_map]
  constructor
  · rintro ⟨e, he, rfl⟩; exact ⟨e, (hs e).1 he, rfl⟩
  · rintro ⟨e, he, rfl⟩; exact ⟨e, (hs e).2 he, rfl⟩

end Fold

/-! ## the chunks of `ref_phys_bcast_parts` -/

theorem chunksGo_flatten {β : Type} (maxN : Int) (fuel : Nat) (L : List (List β)) (h : L.length ≤ fuel) :
    (chunksGo maxN fuel L).flatten = L.flatten := by
  induction fuel generalizing L with
  | zero =>
    have : L = [] := List.eq_nil_of_length_eq_zero (by omega)
    subst this
    rfl
  | succ f ih =>
    match L, h with
    | [], _ => rfl
    | p :: ps, h =>
      simp only [chunksGo, List.flatten_cons]
      rw [ih _ (by simp only [List.length_drop, List.length_cons] at h ⊢; omega), List.append_assoc,
        ← List.flatten_append, List.take_append_drop]

/-- every wall element of every part is in exactly one chunk, in order: the chunks concatenate to the concatenation
    of the parts (for every `max_ncell`, also one smaller than a single part) -/
theorem wallChunks_flatten {β : Type} (maxN : Int) (locals : List (List β)) :
    (wallChunks maxN locals).flatten = locals.flatten :=
  chunksGo_flatten maxN locals.length locals (Nat.le_refl _)

/-- a query that runs through trees, each of which folds `op` over its chunk, ends with the fold over all chunks -/
theorem answerOf_fold {α : Type} (op : α → α → α) (kv : V3 α → Elem α → α) (big : α) (x : V3 α)
    (chunks : List (List (Elem α))) (trees : List (V3 α → α → α))
    (hlen : trees.length = chunks.length)
    (ht : ∀ c (h1 : c < trees.length) (h2 : c < chunks.length) (y : V3 α) (d : α),
      trees[c] y d = (chunks[c].map (kv y)).foldl op d) :
    answerOf trees big x = (chunks.flatten.map (kv x)).foldl op big := by
  unfold answerOf
  induction chunks generalizing trees big with
  | nil =>
    have : trees = [] := List.eq_nil_of_length_eq_zero hlen
    subst this
    rfl
  | cons ch rest ih =>
    match trees, hlen with
    | t :: ts, hlen =>
      simp only [List.foldl_cons, List.flatten_cons, List.map_append, List.foldl_append]
      have h0 := ht 0 (by simp) (by simp) x big
      simp only [List.getElem_cons_zero] at h0
      rw [h0]
      apply ih
      · simpa using hlen
      · intro c h1 h2 y d
        have := ht (c + 1) (by simp; omega) (by simp; omega) y d
        simpa using this

end Refine.Lemmas.PhysDist
