import Refine.Lemmas.InterpLocate
import Refine.Props.C17

/-!
  The exchanges of `Refine.Model.InterpLocate` reduced to `blindsend_spec` (Props/C17):

  * `blindItems_ok`       a successful `blindItems` hands rank `r` exactly `delivered r w`;
  * `exchangeLocated_ok`  the four blind sends of `ref_interp_geom_nodes` / `ref_interp_tree` re-assemble, on rank `r`,
                          exactly the records addressed to `r` — by source rank, then in the source's order;
  * `unpack_pack`         `ref_agents_migrate`: unpacking the three send records of an agent gives the agent back
                          (mode, home, node, part, seed, global, step, xyz and all four weight slots);
  * `migrate_ok`          after `ref_agents_migrate` rank `r` holds the agents that stayed plus, appended in
                          (source rank, slot) order, exactly the agents whose destination is `r`.
-/
set_option linter.unusedSectionVars false

namespace Refine.Lemmas.InterpLocate
open Refine Refine.Model.Geom Refine.Model.Interp Refine.Model.InterpLocate Refine.Model.Comm Refine.Lemmas.Comm
open Refine.Gen

/-! ## records addressed to a rank -/

/-- the records of one sender addressed to `r`, in the sender's order -/
def pick {γ : Type} (r : Nat) (l : List (Nat × γ)) : List γ := (l.filter fun x => x.1 == r).map (·.2)

/-- all records addressed to `r`: by source rank, then in the source's order -/
def deliveredG {γ : Type} (r : Nat) (w : World (List (Nat × γ))) : List γ := w.flatMap (pick r)

theorem delivered_map {γ β : Type} (f : γ → List β) (r : Nat) (w : World (List (Nat × γ))) :
    delivered r (w.map fun l => l.map fun x => (x.1, f x.2)) = (deliveredG r w).map f := by
  induction w with
  | nil => simp [delivered, deliveredG]
  | cons l rest ih =>
    simp only [delivered, deliveredG, List.map_cons, List.flatMap_cons, List.map_append] at ih ⊢
    rw [ih]
    congr 1
    simp only [bucket, pick, List.filter_map, List.map_map]
    rfl

theorem mem_deliveredG {γ : Type} {r : Nat} {w : World (List (Nat × γ))} {x : γ} (h : x ∈ deliveredG r w) :
    ∃ l ∈ w, (r, x) ∈ l := by
  simp only [deliveredG, List.mem_flatMap, pick, List.mem_map, List.mem_filter, beq_iff_eq] at h
  obtain ⟨l, hl, p, ⟨hp, hpr⟩, rfl⟩ := h
  exact ⟨l, hl, by rw [← hpr]; exact hp⟩

theorem chunks_flatten {β : Type} (ldim : Nat) : ∀ (L : List (List β)), (∀ x ∈ L, x.length = ldim) →
    chunks ldim L.length L.flatten = L
  | [], _ => rfl
  | x :: rest, h => by
    have hx : x.length = ldim := h x List.mem_cons_self
    simp only [List.length_cons, chunks, List.flatten_cons]
    rw [List.take_left' hx, List.drop_left' hx, chunks_flatten ldim rest (fun y hy => h y (List.mem_cons_of_mem _ hy))]

theorem sum_lengths {β : Type} (w : List (List β)) (acc : Nat) :
    (w.map List.length).foldl (· + ·) acc = acc + w.flatten.length := by
  induction w generalizing acc with
  | nil => simp
  | cons l rest ih => simp only [List.map_cons, List.foldl_cons, List.flatten_cons, List.length_append, ih]; omega

theorem length_le_flatten {β : Type} {w : List (List β)} {l : List β} (h : l ∈ w) : l.length ≤ w.flatten.length := by
  induction w with
  | nil => cases h
  | cons x rest ih =>
    simp only [List.flatten_cons, List.length_append]
    rcases List.mem_cons.mp h with rfl | h
    · omega
    · have := ih h; omega

theorem delivered_length_le {β : Type} (r : Nat) (w : World (List (Nat × List β))) :
    (delivered r w).length ≤ w.flatten.length := by
  rw [Refine.Props.C17.blindsend_exactly_once, List.length_map]
  exact List.length_filter_le _ _

/-- a successful `blindItems`: rank `r` gets exactly the items addressed to it, in (source rank, source order) -/
theorem blindItems_ok {β : Type} [Inhabited β] (ty : RefType) (hty : ty.ild = true) (ldim : Nat)
    (w : World (List (Nat × List β))) (hi : ∀ ps ∈ w, ∀ x ∈ ps, x.2.length = ldim)
    {res : World (List (List β))} (h : blindItems ty ldim w = .ok res) :
    res = (List.range w.length).map fun r => delivered r w := by
  unfold blindItems at h
  split at h
  · cases h
  · rename_i hdest
    split at h
    · cases h
    · rename_i hsize
      have hd : ∀ pairs ∈ w, ∀ x ∈ pairs, x.1 < w.length := by
        intro pairs hp x hx
        by_contra hc
        apply hdest
        simp only [List.any_eq_true, decide_eq_true_eq]
        exact ⟨pairs, hp, x, hx, Nat.le_of_not_lt hc⟩
      have htot : (ldim : Int) * (w.flatten.length : Nat) ≤ INT_MAX := by
        have := sum_lengths w 0
        simp only [Nat.zero_add] at this
        rw [this] at hsize
        simpa using hsize
      have hsend : false = false → ∀ pairs ∈ w, (ldim : Int) * pairs.length ≤ INT_MAX := by
        intro _ pairs hp
        have h1 : (pairs.length : Int) ≤ (w.flatten.length : Nat) := by exact_mod_cast length_le_flatten hp
        have h2 : (0 : Int) ≤ ldim := Int.natCast_nonneg _
        calc (ldim : Int) * pairs.length ≤ (ldim : Int) * (w.flatten.length : Nat) := Int.mul_le_mul_of_nonneg_left h1 h2
          _ ≤ INT_MAX := htot
      have hrecv : false = false → ∀ r, r < w.length → (ldim : Int) * (delivered r w).length ≤ INT_MAX := by
        intro _ r _
        have h1 : ((delivered r w).length : Int) ≤ (w.flatten.length : Nat) := by exact_mod_cast delivered_length_le r w
        have h2 : (0 : Int) ≤ ldim := Int.natCast_nonneg _
        calc (ldim : Int) * (delivered r w).length ≤ (ldim : Int) * (w.flatten.length : Nat) :=
              Int.mul_le_mul_of_nonneg_left h1 h2
          _ ≤ INT_MAX := htot
      have hspec := Refine.Props.C17.blindsend_spec false ty hty 32767 ldim w hd hi (by intro hh; cases hh) hsend hrecv
      have hform : (w.map fun ps => (⟨ps.map fun x => (x.1 : Int), (ps.map (·.2)).flatten⟩ : Blind β)) = w.map blindOf := rfl
      rw [hform, hspec] at h
      simp only at h
      split at h
      · simp only [Except.ok.injEq] at h
        rw [← h]
        simp only [List.map_map]
        apply List.map_congr_left
        intro r _
        simp only [Function.comp, Int.toNat_natCast]
        apply chunks_flatten
        intro x hx
        rw [Refine.Props.C17.blindsend_exactly_once] at hx
        simp only [List.mem_map, List.mem_filter] at hx
        obtain ⟨p, ⟨hp, _⟩, rfl⟩ := hx
        obtain ⟨ps, hps, hpp⟩ := List.mem_flatten.mp hp
        exact hi ps hps p hpp
      · cases h

/-- `blindItems` SUCCEEDS when every destination is a rank, every item has `ldim` elements and the exchange is not larger
    than `INT_MAX / ldim` records in total -/
theorem blindItems_eq {β : Type} [Inhabited β] (ty : RefType) (hty : ty.ild = true) (ldim : Nat)
    (w : World (List (Nat × List β))) (hd : ∀ ps ∈ w, ∀ x ∈ ps, x.1 < w.length)
    (hi : ∀ ps ∈ w, ∀ x ∈ ps, x.2.length = ldim) (hsz : (ldim : Int) * (w.flatten.length : Nat) ≤ INT_MAX) :
    blindItems ty ldim w = .ok ((List.range w.length).map fun r => delivered r w) := by
  unfold blindItems
  have hg1 : (w.any fun ps => ps.any fun x => decide (w.length ≤ x.1)) = false := by
    rw [Bool.eq_false_iff]
    intro hc
    simp only [List.any_eq_true, decide_eq_true_eq] at hc
    obtain ⟨ps, hps, x, hx, hle⟩ := hc
    exact absurd (hd ps hps x hx) (Nat.not_lt.mpr hle)
  have hg2 : decide (INT_MAX < (ldim : Int) * ((w.map List.length).foldl (· + ·) 0 : Nat)) = false := by
    have := sum_lengths w 0
    simp only [Nat.zero_add] at this
    rw [this]
    simpa using hsz
  simp only [hg1, hg2, Bool.false_eq_true, if_false]
  have hsend : false = false → ∀ pairs ∈ w, (ldim : Int) * pairs.length ≤ INT_MAX := by
    intro _ pairs hp
    have h1 : (pairs.length : Int) ≤ (w.flatten.length : Nat) := by exact_mod_cast length_le_flatten hp
    have h2 : (0 : Int) ≤ ldim := Int.natCast_nonneg _
    calc (ldim : Int) * pairs.length ≤ (ldim : Int) * (w.flatten.length : Nat) := Int.mul_le_mul_of_nonneg_left h1 h2
      _ ≤ INT_MAX := hsz
  have hrecv : false = false → ∀ r, r < w.length → (ldim : Int) * (delivered r w).length ≤ INT_MAX := by
    intro _ r _
    have h1 : ((delivered r w).length : Int) ≤ (w.flatten.length : Nat) := by exact_mod_cast delivered_length_le r w
    have h2 : (0 : Int) ≤ ldim := Int.natCast_nonneg _
    calc (ldim : Int) * (delivered r w).length ≤ (ldim : Int) * (w.flatten.length : Nat) :=
          Int.mul_le_mul_of_nonneg_left h1 h2
      _ ≤ INT_MAX := hsz
  have hspec := Refine.Props.C17.blindsend_spec false ty hty 32767 ldim w hd hi (by intro hh; cases hh) hsend hrecv
  have hform : (w.map fun ps => (⟨ps.map fun x => (x.1 : Int), (ps.map (·.2)).flatten⟩ : Blind β)) = w.map blindOf := rfl
  rw [hform, hspec]
  simp only
  have hall : (((List.range w.length).map fun r =>
      (Status.ok, ((delivered r w).length : Int), (delivered r w).flatten)).all fun x => x.1 == Status.ok) = true := by
    simp [List.all_eq_true]
  rw [if_pos hall]
  congr 1
  simp only [List.map_map]
  apply List.map_congr_left
  intro r _
  simp only [Function.comp, Int.toNat_natCast]
  apply chunks_flatten
  intro x hx
  rw [Refine.Props.C17.blindsend_exactly_once] at hx
  simp only [List.mem_map, List.mem_filter] at hx
  obtain ⟨p, ⟨hp, _⟩, rfl⟩ := hx
  obtain ⟨ps, hps, hpp⟩ := List.mem_flatten.mp hp
  exact hi ps hps p hpp

/-! ## the four blind sends of stage 1 / stage 3 -/

section Exchange
variable {α : Type} [Scalar α]

/-- the world of `(destination, record)` pairs behind an `exchangeLocated` -/
def locatedPairs (w : World (List (Located α))) : World (List (Nat × Located α)) :=
  w.map fun l => l.map fun x => (x.dest, x)

theorem zip_map_range {β γ : Type} (n : Nat) (f : Nat → β) (g : Nat → γ) :
    ((List.range n).map f).zip ((List.range n).map g) = (List.range n).map fun r => (f r, g r) := by
  rw [List.zip_map']

theorem zip_map_same {δ β γ : Type} (l : List δ) (f : δ → β) (g : δ → γ) :
    (l.map f).zip (l.map g) = l.map fun x => (f x, g x) := by
  rw [List.zip_map']

/-- a successful `exchangeLocated`: rank `r` gets exactly the records addressed to it (node, cell, proc and the four
    slots of each record together), by source rank and then in the source's order -/
theorem exchangeLocated_ok (w : World (List (Located α))) {res : World (List (Int × Int × Int × Slots α))}
    (h : exchangeLocated w = .ok res) :
    res = (List.range w.length).map fun r =>
      (deliveredG r (locatedPairs w)).map fun x => (x.node, x.cell, x.proc, x.bary) := by
  unfold exchangeLocated at h
  have e1 : (w.map fun l => l.map fun x => (x.dest, [x.node])) =
      (locatedPairs w).map fun l => l.map fun y => (y.1, (fun x : Located α => [x.node]) y.2) := by
    simp [locatedPairs, List.map_map, Function.comp]
  have e2 : (w.map fun l => l.map fun x => (x.dest, [x.cell])) =
      (locatedPairs w).map fun l => l.map fun y => (y.1, (fun x : Located α => [x.cell]) y.2) := by
    simp [locatedPairs, List.map_map, Function.comp]
  have e3 : (w.map fun l => l.map fun x => (x.dest, [x.proc])) =
      (locatedPairs w).map fun l => l.map fun y => (y.1, (fun x : Located α => [x.proc]) y.2) := by
    simp [locatedPairs, List.map_map, Function.comp]
  have e4 : (w.map fun l => l.map fun x => (x.dest, x.bary.toList)) =
      (locatedPairs w).map fun l => l.map fun y => (y.1, (fun x : Located α => x.bary.toList) y.2) := by
    simp [locatedPairs, List.map_map, Function.comp]
  have hlen : (locatedPairs w).length = w.length := by simp [locatedPairs]
  rw [e1, e2, e3, e4] at h
  split at h
  · rename_i ns cs ps bs h1 h2 h3 h4
    have r1 := blindItems_ok RefType.int rfl 1 _ (by
      intro ps hps x hx
      simp only [List.mem_map] at hps
      obtain ⟨l, _, rfl⟩ := hps
      simp only [List.mem_map] at hx
      obtain ⟨y, _, rfl⟩ := hx
      rfl) h1
    have r2 := blindItems_ok RefType.int rfl 1 _ (by
      intro ps hps x hx
      simp only [List.mem_map] at hps
      obtain ⟨l, _, rfl⟩ := hps
      simp only [List.mem_map] at hx
      obtain ⟨y, _, rfl⟩ := hx
      rfl) h2
    have r3 := blindItems_ok RefType.int rfl 1 _ (by
      intro ps hps x hx
      simp only [List.mem_map] at hps
      obtain ⟨l, _, rfl⟩ := hps
      simp only [List.mem_map] at hx
      obtain ⟨y, _, rfl⟩ := hx
      rfl) h3
    have r4 := blindItems_ok RefType.dbl rfl 4 _ (by
      intro ps hps x hx
      simp only [List.mem_map] at hps
      obtain ⟨l, _, rfl⟩ := hps
      simp only [List.mem_map] at hx
      obtain ⟨y, _, rfl⟩ := hx
      simp) h4
    simp only [List.length_map, hlen] at r1 r2 r3 r4
    simp only [Except.ok.injEq] at h
    rw [← h, r1, r2, r3, r4]
    rw [zip_map_range, zip_map_range, zip_map_range, List.map_map]
    apply List.map_congr_left
    intro r _
    simp only [Function.comp]
    rw [delivered_map (fun x : Located α => [x.node]), delivered_map (fun x : Located α => [x.cell]),
      delivered_map (fun x : Located α => [x.proc]), delivered_map (fun x : Located α => x.bary.toList)]
    rw [zip_map_same, zip_map_same, zip_map_same, List.map_map]
    apply List.map_congr_left
    intro x _
    simp [Function.comp]
  · cases h
  · cases h
  · cases h
  · cases h

/-- every record a rank receives was sent to it by some rank, unchanged -/
theorem exchangeLocated_mem {w : World (List (Located α))} {res : World (List (Int × Int × Int × Slots α))}
    (h : exchangeLocated w = .ok res) {items : List (Int × Int × Int × Slots α)} (hi : items ∈ res)
    {it : Int × Int × Int × Slots α} (hit : it ∈ items) :
    ∃ l ∈ w, ∃ x ∈ l, it = (x.node, x.cell, x.proc, x.bary) := by
  rw [exchangeLocated_ok w h] at hi
  simp only [List.mem_map, List.mem_range] at hi
  obtain ⟨r, _, rfl⟩ := hi
  simp only [List.mem_map] at hit
  obtain ⟨x, hx, rfl⟩ := hit
  obtain ⟨l, hl, hxl⟩ := mem_deliveredG hx
  simp only [locatedPairs, List.mem_map] at hl
  obtain ⟨l0, hl0, rfl⟩ := hl
  simp only [List.mem_map, Prod.mk.injEq] at hxl
  obtain ⟨y, hy, _, rfl⟩ := hxl
  exact ⟨l0, hl0, y, hy, rfl⟩

theorem exchangeLocated_length {w : World (List (Located α))} {res : World (List (Int × Int × Int × Slots α))}
    (h : exchangeLocated w = .ok res) : res.length = w.length := by
  rw [exchangeLocated_ok w h]; simp

end Exchange

/-! ## `ref_agents_migrate` -/

section Migrate
variable {α : Type} [Scalar α]

theorem ofCode_code (m : AMode) : AMode.ofCode m.code = some m := by
  cases m <;> decide

/-- `ref_agents_migrate`, one agent: unpacking its three send records gives the agent back — mode, home, node, part,
    seed, step (the six integers in the order of the C text), the global, the target point and ALL FOUR weight slots
    (a never-written slot stays never written) -/
theorem unpack_pack (a : AgentP α) :
    unpackAgent (packAgent a).1 (packAgent a).2.1 (packAgent a).2.2 = some a := by
  obtain ⟨mode, home, node, part, seed, glob, step, xyz, bary⟩ := a
  obtain ⟨x, y, z⟩ := xyz
  obtain ⟨s0, s1, s2, s3⟩ := bary
  simp only [unpackAgent, packAgent, InterpConsts.packInts, InterpConsts.unpackInts, InterpConsts.nDbls,
    InterpConsts.packXyz, InterpConsts.packBary, InterpConsts.packBaryOffset, InterpConsts.unpackXyz,
    InterpConsts.unpackBary, InterpConsts.unpackBaryOffset, fieldOf, AgentP.intField, Slots.toList, List.map_cons,
    List.map_nil]
  have i0 : List.findIdx (fun x => x == "mode") ["mode", "home", "node", "part", "seed", "step"] = 0 := by decide
  have i1 : List.findIdx (fun x => x == "home") ["mode", "home", "node", "part", "seed", "step"] = 1 := by decide
  have i2 : List.findIdx (fun x => x == "node") ["mode", "home", "node", "part", "seed", "step"] = 2 := by decide
  have i3 : List.findIdx (fun x => x == "part") ["mode", "home", "node", "part", "seed", "step"] = 3 := by decide
  have i4 : List.findIdx (fun x => x == "seed") ["mode", "home", "node", "part", "seed", "step"] = 4 := by decide
  have i5 : List.findIdx (fun x => x == "step") ["mode", "home", "node", "part", "seed", "step"] = 5 := by decide
  simp [i0, i1, i2, i3, i4, i5, ofCode_code, writeAt, List.replicate, Slots.ofList, Slots.copyN, refEmpty]

theorem packAgent_lengths (a : AgentP α) :
    (packAgent a).1.length = InterpConsts.nInts ∧ (packAgent a).2.1.length = InterpConsts.nGlobs ∧
      (packAgent a).2.2.length = InterpConsts.nDbls := by
  obtain ⟨mode, home, node, part, seed, glob, step, xyz, bary⟩ := a
  obtain ⟨x, y, z⟩ := xyz
  obtain ⟨s0, s1, s2, s3⟩ := bary
  simp [packAgent, InterpConsts.packInts, InterpConsts.nInts, InterpConsts.nGlobs, InterpConsts.nDbls,
    InterpConsts.packXyz, InterpConsts.packBary, InterpConsts.packBaryOffset, writeAt, List.replicate, Slots.toList]

/-- the agents that leave, with their destination rank -/
def outPairs (w : World (Agents α)) : World (List (Nat × AgentP α)) :=
  (w.mapIdx fun r a => leaving r a).map fun l => l.map fun p => (p.2.dest.toNat, p.2)

/-- what stays on every rank: the leaving slots are removed by increasing slot -/
def staysOf (w : World (Agents α)) : World (Agents α) :=
  (w.zip (w.mapIdx fun r a => leaving r a)).map fun q => (q.2.map (·.1)).foldl Agents.remove q.1

theorem receiveAgents_packed (a : Agents α) (l : List (AgentP α)) :
    receiveAgents a (l.map fun x => ((packAgent x).1, (packAgent x).2.1, (packAgent x).2.2)) =
      .ok (l.foldl (fun a ag => (a.push ag).2) a) := by
  induction l generalizing a with
  | nil => rfl
  | cons x rest ih =>
    simp only [receiveAgents, List.map_cons, List.foldlM, List.foldl_cons] at ih ⊢
    rw [unpack_pack]
    simp only [bind, Except.bind]
    exact ih _

theorem collect_map_ok {β γ : Type} (l : List β) (g : β → γ) :
    collect (l.map fun q => (Except.ok (g q) : Except ISt γ)) = .ok (l.map g) := by
  induction l with
  | nil => rfl
  | cons x rest ih => simp [collect, ih, Except.map]

theorem zip_range_map {β γ : Type} (l : List β) (F : Nat → γ) :
    l.zip ((List.range l.length).map F) = l.zipIdx.map fun q => (q.1, F q.2) := by
  rw [List.zip_map_right, List.zipIdx_eq_zip_range', List.range_eq_range']
  rfl

/-- `ref_agents_migrate`: on every rank the agents that stay, then one new agent per record addressed to the rank, in
    (source rank, slot) order — each one equal to the agent that was packed (`unpack_pack`) -/
theorem migrate_ok (w : World (Agents α)) {w' : World (Agents α)} (h : migrate w = .ok w') :
    w' = (staysOf w).zipIdx.map fun q => (deliveredG q.2 (outPairs w)).foldl (fun a ag => (a.push ag).2) q.1 := by
  unfold migrate at h
  simp only at h
  split at h
  · cases h
  · split at h
    · rename_i ints globs dbls h1 h2 h3
      have hl : ((w.mapIdx fun r a => leaving r a).map fun l => l.map fun p => (p.2.dest.toNat, p.2)).length = w.length := by
        simp
      have r1 := blindItems_ok RefType.int rfl InterpConsts.nInts _ (by
        intro ps hps x hx
        simp only [List.mem_map] at hps
        obtain ⟨l, _, rfl⟩ := hps
        simp only [List.mem_map] at hx
        obtain ⟨y, _, rfl⟩ := hx
        exact (packAgent_lengths y.2).1) h1
      have r2 := blindItems_ok RefType.long rfl InterpConsts.nGlobs _ (by
        intro ps hps x hx
        simp only [List.mem_map] at hps
        obtain ⟨l, _, rfl⟩ := hps
        simp only [List.mem_map] at hx
        obtain ⟨y, _, rfl⟩ := hx
        exact (packAgent_lengths y.2).2.1) h2
      have r3 := blindItems_ok RefType.dbl rfl InterpConsts.nDbls _ (by
        intro ps hps x hx
        simp only [List.mem_map] at hps
        obtain ⟨l, _, rfl⟩ := hps
        simp only [List.mem_map] at hx
        obtain ⟨y, _, rfl⟩ := hx
        exact (packAgent_lengths y.2).2.2) h3
      rw [List.length_map, hl] at r1 r2 r3
      have hsl : (staysOf w).length = w.length := by simp [staysOf]
      rw [r1, r2, r3] at h
      change collect (((staysOf w).zip _).map _) = _ at h
      rw [zip_map_range, zip_map_range, ← hsl, zip_range_map, List.map_map] at h
      have hfun : ∀ q : Agents α × Nat,
          ((fun q : Agents α × _ => receiveAgents q.1 (q.2.1.zip (q.2.2.1.zip q.2.2.2))) ∘
            fun q : Agents α × Nat => (q.1,
              delivered q.2 (List.map (fun l => List.map (fun y => (y.1, (packAgent y.2).1)) l) (outPairs w)),
              delivered q.2 (List.map (fun l => List.map (fun y => (y.1, (packAgent y.2).2.1)) l) (outPairs w)),
              delivered q.2 (List.map (fun l => List.map (fun y => (y.1, (packAgent y.2).2.2)) l) (outPairs w)))) q =
          Except.ok ((deliveredG q.2 (outPairs w)).foldl (fun a ag => (a.push ag).2) q.1) := by
        intro q
        simp only [Function.comp]
        rw [delivered_map (fun x : AgentP α => (packAgent x).1), delivered_map (fun x : AgentP α => (packAgent x).2.1),
          delivered_map (fun x : AgentP α => (packAgent x).2.2), zip_map_same, zip_map_same]
        exact receiveAgents_packed q.1 _
      have ho : List.map (fun l => List.map (fun p => (p.2.dest.toNat, p.2)) l)
          (List.mapIdx (fun r a => leaving r a) w) = outPairs w := rfl
      rw [ho] at h
      rw [List.map_congr_left (fun q _ => hfun q)] at h
      rw [collect_map_ok] at h
      simp only [Except.ok.injEq] at h
      exact h.symm
    · cases h
    · cases h
    · cases h

/-- **`ref_agents_migrate` SUCCEEDS** when every leaving agent's destination is a rank and at most `INT_MAX / 7` agents
    leave in total: the result is the one `migrate_ok` describes -/
theorem migrate_eq (w : World (Agents α))
    (hdest : ∀ l ∈ (w.mapIdx fun r a => leaving r a), ∀ p ∈ l, 0 ≤ p.2.dest ∧ p.2.dest < (w.length : Int))
    (hsz : (7 : Int) * ((outPairs w).flatten.length : Nat) ≤ INT_MAX) :
    migrate w = .ok ((staysOf w).zipIdx.map fun q =>
      (deliveredG q.2 (outPairs w)).foldl (fun a ag => (a.push ag).2) q.1) := by
  have hol : (outPairs w).length = w.length := by simp [outPairs]
  have hd : ∀ ps ∈ outPairs w, ∀ x ∈ ps, x.1 < (outPairs w).length := by
    intro ps hps x hx
    simp only [outPairs, List.mem_map] at hps
    obtain ⟨l, hl, rfl⟩ := hps
    simp only [List.mem_map] at hx
    obtain ⟨p, hp, rfl⟩ := hx
    obtain ⟨h0, h1⟩ := hdest l hl p hp
    rw [hol]
    simp only
    omega
  have hguard : ((w.mapIdx fun r a => leaving r a).any fun l =>
      l.any fun p => decide (p.2.dest < 0) || decide (p.2.dest ≥ (w.length : Int))) = false := by
    rw [Bool.eq_false_iff]
    intro hc
    simp only [List.any_eq_true, Bool.or_eq_true, decide_eq_true_eq] at hc
    obtain ⟨l, hl, p, hp, hbad⟩ := hc
    obtain ⟨h0, h1⟩ := hdest l hl p hp
    rcases hbad with hb | hb <;> omega
  have hsz' : ∀ k : Nat, k ≤ 7 → (k : Int) * ((outPairs w).flatten.length : Nat) ≤ INT_MAX := by
    intro k hk
    have : (k : Int) * ((outPairs w).flatten.length : Nat) ≤ (7 : Int) * ((outPairs w).flatten.length : Nat) :=
      Int.mul_le_mul_of_nonneg_right (by exact_mod_cast hk) (Int.natCast_nonneg _)
    exact le_trans this hsz
  have flen : ∀ {β : Type} (f : AgentP α → List β),
      ((outPairs w).map fun l => l.map fun y => (y.1, f y.2)).flatten.length = (outPairs w).flatten.length := by
    intro β f
    simp only [List.length_flatten, List.map_map]
    congr 1
    apply List.map_congr_left
    intro l _
    simp
  have r1 := blindItems_eq RefType.int rfl InterpConsts.nInts
    ((outPairs w).map fun l => l.map fun y => (y.1, (packAgent y.2).1))
    (by
      intro ps hps x hx
      simp only [List.mem_map] at hps
      obtain ⟨l, hl, rfl⟩ := hps
      simp only [List.mem_map] at hx
      obtain ⟨y, hy, rfl⟩ := hx
      simpa using hd l hl y hy)
    (by
      intro ps hps x hx
      simp only [List.mem_map] at hps
      obtain ⟨l, _, rfl⟩ := hps
      simp only [List.mem_map] at hx
      obtain ⟨y, _, rfl⟩ := hx
      exact (packAgent_lengths y.2).1)
    (by rw [flen (fun x => (packAgent x).1)]; exact hsz' _ (by decide))
  have r2 := blindItems_eq RefType.long rfl InterpConsts.nGlobs
    ((outPairs w).map fun l => l.map fun y => (y.1, (packAgent y.2).2.1))
    (by
      intro ps hps x hx
      simp only [List.mem_map] at hps
      obtain ⟨l, hl, rfl⟩ := hps
      simp only [List.mem_map] at hx
      obtain ⟨y, hy, rfl⟩ := hx
      simpa using hd l hl y hy)
    (by
      intro ps hps x hx
      simp only [List.mem_map] at hps
      obtain ⟨l, _, rfl⟩ := hps
      simp only [List.mem_map] at hx
      obtain ⟨y, _, rfl⟩ := hx
      exact (packAgent_lengths y.2).2.1)
    (by rw [flen (fun x => (packAgent x).2.1)]; exact hsz' _ (by decide))
  have r3 := blindItems_eq RefType.dbl rfl InterpConsts.nDbls
    ((outPairs w).map fun l => l.map fun y => (y.1, (packAgent y.2).2.2))
    (by
      intro ps hps x hx
      simp only [List.mem_map] at hps
      obtain ⟨l, hl, rfl⟩ := hps
      simp only [List.mem_map] at hx
      obtain ⟨y, hy, rfl⟩ := hx
      simpa using hd l hl y hy)
    (by
      intro ps hps x hx
      simp only [List.mem_map] at hps
      obtain ⟨l, _, rfl⟩ := hps
      simp only [List.mem_map] at hx
      obtain ⟨y, _, rfl⟩ := hx
      exact (packAgent_lengths y.2).2.2)
    (by rw [flen (fun x => (packAgent x).2.2)]; exact hsz' _ (by decide))
  -- the model's `migrate` with the three exchanges evaluated is a successful run: `migrate_ok` names its result
  have hrun : ∃ w', migrate w = .ok w' := by
    unfold migrate
    simp only [hguard, Bool.false_eq_true, if_false]
    have ho : List.map (fun l => List.map (fun p => (p.2.dest.toNat, p.2)) l)
        (List.mapIdx (fun r a => leaving r a) w) = outPairs w := rfl
    rw [ho, r1, r2, r3]
    simp only [List.length_map, hol]
    have hsl : (staysOf w).length = w.length := by simp [staysOf]
    change ∃ w', collect (((staysOf w).zip _).map _) = .ok w'
    rw [zip_map_range, zip_map_range, ← hsl, zip_range_map, List.map_map]
    have hfun : ∀ q : Agents α × Nat,
        ((fun q : Agents α × _ => receiveAgents q.1 (q.2.1.zip (q.2.2.1.zip q.2.2.2))) ∘
          fun q : Agents α × Nat => (q.1,
            delivered q.2 (List.map (fun l => List.map (fun y => (y.1, (packAgent y.2).1)) l) (outPairs w)),
            delivered q.2 (List.map (fun l => List.map (fun y => (y.1, (packAgent y.2).2.1)) l) (outPairs w)),
            delivered q.2 (List.map (fun l => List.map (fun y => (y.1, (packAgent y.2).2.2)) l) (outPairs w)))) q =
        Except.ok ((deliveredG q.2 (outPairs w)).foldl (fun a ag => (a.push ag).2) q.1) := by
      intro q
      simp only [Function.comp]
      rw [delivered_map (fun x : AgentP α => (packAgent x).1), delivered_map (fun x : AgentP α => (packAgent x).2.1),
        delivered_map (fun x : AgentP α => (packAgent x).2.2), zip_map_same, zip_map_same]
      exact receiveAgents_packed q.1 _
    rw [List.map_congr_left (fun q _ => hfun q), collect_map_ok]
    exact ⟨_, rfl⟩
  obtain ⟨w', hw'⟩ := hrun
  rw [hw', migrate_ok w hw']

/-- no agent is invented or altered by a migration: every agent of the new world is an agent of the old one -/
theorem migrate_mem {w w' : World (Agents α)} (h : migrate w = .ok w') {a' : Agents α} (ha : a' ∈ w')
    {p : Nat × AgentP α} (hp : p ∈ a'.act) : ∃ a ∈ w, ∃ q ∈ a.act, q.2 = p.2 := by
  rw [migrate_ok w h] at ha
  simp only [List.mem_map] at ha
  obtain ⟨q, hq, rfl⟩ := ha
  have hq1 : q.1 ∈ staysOf w := by
    have := List.mem_zipIdx hq
    simp only [Nat.zero_add, Nat.sub_zero] at this
    rw [this.2.2]
    exact List.getElem_mem _
  -- agents of a push-fold: the base agents or one of the pushed ones
  have hfold : ∀ (l : List (AgentP α)) (b : Agents α), p ∈ (l.foldl (fun a ag => (a.push ag).2) b).act →
      p ∈ b.act ∨ p.2 ∈ l := by
    intro l
    induction l with
    | nil => intro b hb; exact Or.inl hb
    | cons x rest ih =>
      intro b hb
      rcases ih _ hb with h1 | h1
      · rcases mem_push h1 with h2 | h2
        · exact Or.inl h2
        · exact Or.inr (by rw [h2]; exact List.mem_cons_self)
      · exact Or.inr (List.mem_cons_of_mem _ h1)
  rcases hfold _ _ hp with h1 | h1
  · simp only [staysOf, List.mem_map] at hq1
    obtain ⟨z, hz, hzq⟩ := hq1
    rw [← hzq] at h1
    exact ⟨z.1, (List.of_mem_zip hz).1, p, mem_foldl_remove h1, rfl⟩
  · obtain ⟨l, hl, hx⟩ := mem_deliveredG h1
    simp only [outPairs, List.mem_map] at hl
    obtain ⟨l0, hl0, rfl⟩ := hl
    simp only [List.mem_map, Prod.mk.injEq] at hx
    obtain ⟨y, hy, _, hy2⟩ := hx
    obtain ⟨r, hr, hr2⟩ := List.mem_mapIdx.mp hl0
    subst hr2
    refine ⟨w[r], List.getElem_mem _, y, ?_, hy2⟩
    exact (List.mem_filter.mp hy).1

theorem migrate_length {w w' : World (Agents α)} (h : migrate w = .ok w') : w'.length = w.length := by
  rw [migrate_ok w h]; simp [staysOf]

end Migrate

end Refine.Lemmas.InterpLocate
