import Refine.Model.ContainersAdjCheck
import Refine.Lemmas.ContainersAdj

/-!
  The executable invariant checker `RAdj.invCheck` decides `RAdj.Inv`.
-/

open Refine.Model

namespace Refine.Model.RAdj

/-! ### `chainOf` -/

theorem array_getD_toList (nx : Array Int) (i : Nat) (d : Int) : nx.getD i d = nx.toList.getD i d := by
  simp [Array.getD_eq_getD_getElem?, List.getD_eq_getElem?_getD]

theorem chainOf_sound (nx : Array Int) :
    ∀ (fuel : Nat) (st : Int) (l : List Nat), chainOf nx fuel st = some l → IsChain nx.toList st l := by
  intro fuel
  induction fuel with
  | zero =>
    intro st l h
    unfold chainOf at h
    split at h
    · rename_i he
      cases h; rw [he]; exact .nil
    · cases h
  | succ f ih =>
    intro st l h
    unfold chainOf at h
    split at h
    · rename_i he
      cases h; rw [he]; exact .nil
    · split at h
      · rename_i hr
        split at h
        · rename_i l' hl'
          cases h
          have hst : st = ((st.toNat : Nat) : Int) := (Int.toNat_of_nonneg hr.1).symm
          have hc := ih _ _ hl'
          rw [array_getD_toList] at hc
          rw [hst]
          simp only [Int.toNat_natCast]
          exact .cons (by simpa using hr.2) hc
        · cases h
      · cases h

theorem chainOf_complete (nx : Array Int) {st : Int} {l : List Nat} (h : IsChain nx.toList st l) :
    ∀ fuel, l.length ≤ fuel → chainOf nx fuel st = some l := by
  induction h with
  | nil =>
    intro fuel _
    cases fuel <;> simp [chainOf]
  | @cons i l hi _ ih =>
    intro fuel hf
    cases fuel with
    | zero => simp at hf
    | succ f =>
      have hf' : l.length ≤ f := by simpa using hf
      have hi' : i < nx.size := by simpa using hi
      have := ih f hf'
      rw [← array_getD_toList] at this
      have h0 : (0 : Int) ≤ (i : Int) := by omega
      simp only [chainOf, natCast_ne_EMPTY, if_false, Int.toNat_natCast, hi', h0, and_self,
        if_true, this]

/-! ### `markAll` -/

theorem markAll_iff : ∀ (l : List Nat) (m : Array Bool),
    markAll l m = true ↔ l.Nodup ∧ ∀ k ∈ l, m[k]? = some false := by
  intro l
  induction l with
  | nil => intro m; simp [markAll]
  | cons k l ih =>
    intro m
    unfold markAll
    split
    · rename_i hk
      have hlt : k < m.size := by
        by_contra hcon
        rw [Array.getElem?_eq_none (Nat.le_of_not_lt hcon)] at hk
        cases hk
      rw [ih]
      simp only [Array.getElem?_setIfInBounds, hlt, if_true, List.nodup_cons, List.mem_cons,
        forall_eq_or_imp, hk, true_and]
      constructor
      · rintro ⟨hnd, hall⟩
        refine ⟨⟨?_, hnd⟩, ?_⟩
        · intro hkl
          have := hall k hkl
          simp at this
        · intro j hj
          have := hall j hj
          by_cases e : k = j
          · simp [e] at this
          · simpa [e] using this
      · rintro ⟨⟨hkl, hnd⟩, hall⟩
        refine ⟨hnd, ?_⟩
        intro j hj
        have e : k ≠ j := fun e => hkl (e ▸ hj)
        simpa [e] using hall j hj
    · rename_i hk
      constructor
      · intro h; cases h
      · rintro ⟨-, hall⟩
        exact absurd (hall k List.mem_cons_self) (by intro e; exact hk e)

theorem nodupBelow_iff (n : Nat) (l : List Nat) :
    nodupBelow n l = true ↔ l.Nodup ∧ ∀ k ∈ l, k < n := by
  unfold nodupBelow
  rw [markAll_iff]
  simp only [Array.getElem?_replicate]
  constructor
  · rintro ⟨hnd, hall⟩
    refine ⟨hnd, fun k hk => ?_⟩
    have := hall k hk
    by_contra hcon
    simp [hcon] at this
  · rintro ⟨hnd, hall⟩
    exact ⟨hnd, fun k hk => by simp [hall k hk]⟩

/-! ### from a duplicate-free exact cover to the invariant -/

theorem wit_of_nodup_length (s : RAdj) (B : List Nat) (C : Nat → List Nat)
    (href : s.ref.length = s.next.length) (hle : s.next.length ≤ INT_MAX)
    (hB : IsChain s.next s.blank B) (hC : ∀ v, IsChain s.next (s.first.getD v EMPTY) (C v))
    (hblank : ∀ k ∈ B, s.ref.getD k EMPTY = EMPTY)
    (hnd : (B ++ ((List.range s.first.length).map C).flatten).Nodup)
    (hlen : (B ++ ((List.range s.first.length).map C).flatten).length = s.next.length) :
    Wit s B C := by
  have hout : ∀ v, s.first.length ≤ v → C v = [] := by
    intro v hv
    have h := hC v
    rw [getD_oob _ _ hv] at h
    exact h.of_empty
  have hsub : (B ++ ((List.range s.first.length).map C).flatten) ⊆ List.range s.next.length := by
    intro k hk
    rw [List.mem_range]
    rcases List.mem_append.mp hk with hk | hk
    · exact hB.lt k hk
    · obtain ⟨l, hl, hkl⟩ := List.mem_flatten.mp hk
      obtain ⟨v, -, rfl⟩ := List.mem_map.mp hl
      exact (hC v).lt k hkl
  have hperm := (List.subperm_of_subset hnd hsub).perm_of_length_le (by simp [hlen])
  obtain ⟨hndB, hflat, hdisjB⟩ := List.nodup_append.mp hnd
  obtain ⟨hndC, hpw⟩ := List.nodup_flatten.mp hflat
  rw [List.pairwise_iff_getElem] at hpw
  have hdisj : ∀ a b, a < b → b < s.first.length → ∀ k ∈ C a, k ∉ C b := by
    intro a b hab hb k hka hkb
    have := hpw a b (by simp; omega) (by simp; omega) hab
    simp only [List.getElem_map, List.getElem_range] at this
    exact this hka hkb
  refine
    { ref_len := href, nitem_le := hle, chainB := hB, chainC := hC, nodupB := hndB,
      nodupC := ?_, disjBC := ?_, disjCC := ?_, cover := ?_, blank_ref := hblank }
  · intro v
    by_cases hv : v < s.first.length
    · exact hndC (C v) (List.mem_map.mpr ⟨v, List.mem_range.mpr hv, rfl⟩)
    · rw [hout v (Nat.le_of_not_lt hv)]; exact List.nodup_nil
  · intro v k hk hkC
    by_cases hv : v < s.first.length
    · exact hdisjB k hk k
        (List.mem_flatten.mpr ⟨C v, List.mem_map.mpr ⟨v, List.mem_range.mpr hv, rfl⟩, hkC⟩) rfl
    · rw [hout v (Nat.le_of_not_lt hv)] at hkC; simp at hkC
  · intro v v' hne k hk hk'
    by_cases hv : v < s.first.length
    · by_cases hv' : v' < s.first.length
      · rcases Nat.lt_or_gt_of_ne hne with hlt | hgt
        · exact hdisj v v' hlt hv' k hk hk'
        · exact hdisj v' v hgt hv k hk' hk
      · rw [hout v' (Nat.le_of_not_lt hv')] at hk'; simp at hk'
    · rw [hout v (Nat.le_of_not_lt hv)] at hk; simp at hk
  · intro k hk
    have hk' : k ∈ B ++ ((List.range s.first.length).map C).flatten :=
      hperm.mem_iff.mpr (List.mem_range.mpr hk)
    rcases List.mem_append.mp hk' with hk' | hk'
    · exact Or.inl hk'
    · obtain ⟨l, hl, hkl⟩ := List.mem_flatten.mp hk'
      obtain ⟨v, -, rfl⟩ := List.mem_map.mp hl
      exact Or.inr ⟨v, hkl⟩

/-! ### `invCheck` -/

theorem chainOf_empty (nx : Array Int) (fuel : Nat) : chainOf nx fuel EMPTY = some [] := by
  cases fuel <;> simp [chainOf]

theorem chainOf_sound' {next : List Int} {fuel : Nat} {st : Int} {l : List Nat}
    (h : chainOf next.toArray fuel st = some l) : IsChain next st l := by
  simpa using chainOf_sound next.toArray fuel st l h

theorem chainOf_complete' {next : List Int} {st : Int} {l : List Nat} (h : IsChain next st l)
    (fuel : Nat) (hf : l.length ≤ fuel) : chainOf next.toArray fuel st = some l :=
  chainOf_complete next.toArray (by simpa using h) fuel hf

/-- the items of node `v` as seen by the checker -/
def checkC (s : RAdj) (v : Nat) : List Nat :=
  (chainOf s.next.toArray s.nitem (s.first.getD v EMPTY)).getD []

theorem map_eq_map_range {α β : Type} (l : List α) (g : α → β) (d : α) :
    l.map g = (List.range l.length).map (fun v => g (l.getD v d)) := by
  apply List.ext_getElem
  · simp
  · intro i h1 h2
    have hi : i < l.length := by simpa using h1
    simp [List.getD_eq_getElem?_getD, List.getElem?_eq_getElem hi]

theorem allItems_eq (s : RAdj) :
    s.allItems = (s.blankChain).getD [] ++ ((List.range s.first.length).map (checkC s)).flatten := by
  unfold allItems nodeChains
  rw [List.map_map, map_eq_map_range s.first _ EMPTY]
  rfl

/-- the executable checker is sound: a state dump accepted by `invCheck` satisfies `Inv` -/
theorem invCheck_sound (s : RAdj) (h : s.invCheck = true) : Inv s := by
  unfold invCheck at h
  simp only [Bool.and_eq_true, beq_iff_eq, decide_eq_true_eq, List.all_eq_true] at h
  obtain ⟨⟨⟨⟨⟨⟨h1, h2⟩, h3⟩, h4⟩, h5⟩, h6⟩, h7⟩ := h
  obtain ⟨B, hB⟩ := Option.isSome_iff_exists.mp h3
  rw [hB] at h5
  have hsome : ∀ v, chainOf s.next.toArray s.nitem (s.first.getD v EMPTY) = some (checkC s v) := by
    intro v
    unfold checkC
    by_cases hv : v < s.first.length
    · have hmem : chainOf s.next.toArray s.nitem (s.first.getD v EMPTY) ∈ s.nodeChains := by
        unfold nodeChains
        refine List.mem_map.mpr ⟨s.first.getD v EMPTY, ?_, rfl⟩
        simp [List.getD_eq_getElem?_getD, List.getElem?_eq_getElem hv]
      obtain ⟨x, hx⟩ := Option.isSome_iff_exists.mp (h4 _ hmem)
      rw [hx]; rfl
    · rw [getD_oob _ _ (Nat.le_of_not_lt hv), chainOf_empty]; rfl
  rw [nodupBelow_iff] at h7
  rw [allItems_eq, hB] at h6 h7
  refine ⟨B, checkC s, wit_of_nodup_length s B (checkC s) h1 h2 (chainOf_sound' hB)
    (fun v => chainOf_sound' (hsome v)) ?_ h7.1 h6⟩
  intro k hk
  have := h5 k hk
  simpa using this

/-- the executable checker is complete: it accepts every state satisfying `Inv` -/
theorem invCheck_complete (s : RAdj) (h : Inv s) : s.invCheck = true := by
  obtain ⟨B, C, w⟩ := h
  have hB : s.blankChain = some B := chainOf_complete' w.chainB _ w.B_length
  have hsome : ∀ v, chainOf s.next.toArray s.nitem (s.first.getD v EMPTY) = some (C v) :=
    fun v => chainOf_complete' (w.chainC v) _ (w.C_length v)
  have hCC : (List.range s.first.length).map (checkC s) = (List.range s.first.length).map C := by
    apply List.map_congr_left
    intro v _
    unfold checkC
    rw [hsome v]; rfl
  have hall : s.allItems = B ++ ((List.range s.first.length).map C).flatten := by
    rw [allItems_eq, hB, hCC]; rfl
  have hperm := w.perm_range
  unfold invCheck
  simp only [Bool.and_eq_true, beq_iff_eq, decide_eq_true_eq, List.all_eq_true]
  refine ⟨⟨⟨⟨⟨⟨w.ref_len, w.nitem_le⟩, ?_⟩, ?_⟩, ?_⟩, ?_⟩, ?_⟩
  · rw [hB]; rfl
  · intro o ho
    unfold nodeChains at ho
    obtain ⟨x, hx, rfl⟩ := List.mem_map.mp ho
    obtain ⟨v, hv, rfl⟩ := List.mem_iff_getElem.mp hx
    have := hsome v
    rw [List.getD_eq_getElem?_getD, List.getElem?_eq_getElem hv] at this
    simp only [Option.getD_some] at this
    rw [this]; rfl
  · rw [hB]
    intro k hk
    have := w.blank_ref k hk
    simpa using this
  · rw [hall, hperm.length_eq, List.length_range]; rfl
  · rw [nodupBelow_iff, hall]
    refine ⟨hperm.nodup_iff.mpr List.nodup_range, ?_⟩
    intro k hk
    exact List.mem_range.mp (hperm.mem_iff.mp hk)

theorem invCheck_iff (s : RAdj) : s.invCheck = true ↔ Inv s :=
  ⟨invCheck_sound s, invCheck_complete s⟩

/-- `Inv` is decidable, by running the checker -/
instance (s : RAdj) : Decidable (Inv s) := decidable_of_iff _ (invCheck_iff s)

/-! ### examples -/

example : create.invCheck = true := by decide

example : (((create.add 3 7).1.add 3 8).1.remove 3 7).1.invCheck = true := by decide

/-- `add 12` grows `first[]` to 110 nodes -/
example : ((((create.add 3 7).1.add 12 8).1.add 3 9).1.remove 3 7).1.invCheck = true := by
  decide +kernel

/-- a corrupted state (node 0 points into the free list) is rejected -/
example : ({ create with first := (0 : Int) :: create.first.tail } : RAdj).invCheck = false := by decide

end Refine.Model.RAdj
