import Refine.Scalar
import Mathlib.Analysis.SpecialFunctions.Pow.Real
import Mathlib.Analysis.SpecialFunctions.Sqrt

/-!
  The lawful instance `Scalar ℝ` and the bridge lemmas that rewrite the
  operations-only vocabulary of the models into Mathlib's real arithmetic.
  Theorems about `REF_DBL` kernels are stated at this instance: they hold in
  exact arithmetic; rounding is modelled (the `Float` instance), not verified.
-/
namespace Refine

noncomputable instance instScalarReal : Scalar ℝ where
  add := fun a b => a + b
  sub := fun a b => a - b
  mul := fun a b => a * b
  div := fun a b => a / b
  neg := fun a => -a
  abs := fun a => |a|
  sqrt := Real.sqrt
  exp := Real.exp
  log := Real.log
  pow := fun a b => a ^ b
  ofInt := fun i => (i : ℝ)
  ofDec := fun m e => (m : ℝ) * (10 : ℝ) ^ e
  le := fun a b => decide (a ≤ b)
  lt := fun a b => decide (a < b)
  isFinite := fun _ => true

namespace ScalarReal
open Scalar

@[simp] theorem add_eq (a b : ℝ) : Scalar.add a b = a + b := rfl
@[simp] theorem sub_eq (a b : ℝ) : Scalar.sub a b = a - b := rfl
@[simp] theorem mul_eq (a b : ℝ) : Scalar.mul a b = a * b := rfl
@[simp] theorem div_eq (a b : ℝ) : Scalar.div a b = a / b := rfl
@[simp] theorem neg_eq (a : ℝ) : Scalar.neg a = -a := rfl
@[simp] theorem abs_eq (a : ℝ) : Scalar.abs a = |a| := rfl
@[simp] theorem sqrt_eq (a : ℝ) : Scalar.sqrt a = Real.sqrt a := rfl
@[simp] theorem exp_eq (a : ℝ) : Scalar.exp a = Real.exp a := rfl
@[simp] theorem log_eq (a : ℝ) : Scalar.log a = Real.log a := rfl
@[simp] theorem pow_eq (a b : ℝ) : Scalar.pow a b = a ^ b := rfl
@[simp] theorem ofInt_eq (i : Int) : (Scalar.ofInt i : ℝ) = (i : ℝ) := rfl
@[simp] theorem ofDec_eq (m e : Int) : (Scalar.ofDec m e : ℝ) = (m : ℝ) * (10 : ℝ) ^ e := rfl
@[simp] theorem isFinite_eq (a : ℝ) : Scalar.isFinite a = true := rfl
@[simp] theorem le_iff (a b : ℝ) : Scalar.le a b = true ↔ a ≤ b := by simp [Scalar.le]
@[simp] theorem lt_iff (a b : ℝ) : Scalar.lt a b = true ↔ a < b := by simp [Scalar.lt]
theorem le_false_iff (a b : ℝ) : Scalar.le a b = false ↔ b < a := by simp [Scalar.le]
theorem lt_false_iff (a b : ℝ) : Scalar.lt a b = false ↔ b ≤ a := by simp [Scalar.lt]

@[simp] theorem zero_eq : (Scalar.zero : ℝ) = 0 := by simp [Scalar.zero]
@[simp] theorem one_eq : (Scalar.one : ℝ) = 1 := by simp [Scalar.one]
@[simp] theorem two_eq : (Scalar.two : ℝ) = 2 := by simp [Scalar.two]

theorem cmax_eq (a b : ℝ) : Scalar.cmax a b = max a b := by
  unfold Scalar.cmax
  by_cases h : b < a
  · rw [if_pos ((lt_iff _ _).mpr h)]; exact (max_eq_left h.le).symm
  · rw [if_neg (fun hh => h ((lt_iff _ _).mp hh))]; exact (max_eq_right (not_lt.mp h)).symm

theorem cmin_eq (a b : ℝ) : Scalar.cmin a b = min a b := by
  unfold Scalar.cmin
  by_cases h : a < b
  · rw [if_pos ((lt_iff _ _).mpr h)]; exact (min_eq_left h.le).symm
  · rw [if_neg (fun hh => h ((lt_iff _ _).mp hh))]; exact (min_eq_right (not_lt.mp h)).symm

theorem cabs_eq (a : ℝ) : Scalar.cabs a = |a| := by
  unfold Scalar.cabs
  have h0 : (Scalar.ofInt 0 : ℝ) = 0 := by rw [ofInt_eq]; exact Int.cast_zero
  rw [h0]
  by_cases h : (0 : ℝ) < a
  · rw [if_pos ((lt_iff _ _).mpr h)]; exact (abs_of_pos h).symm
  · rw [if_neg (fun hh => h ((lt_iff _ _).mp hh)), neg_eq]; exact (abs_of_nonpos (not_lt.mp h)).symm

theorem divisible_iff (n d : ℝ) :
    Scalar.divisible n d = true ↔ |n| < |(1 : ℝ) * (10 : ℝ) ^ (20 : ℤ) * d| := by
  unfold Scalar.divisible
  rw [lt_iff, cabs_eq, cabs_eq, mul_eq, ofDec_eq, Int.cast_one]

/-- a passed `divisible` guard implies a non-zero denominator -/
theorem divisible_ne_zero {n d : ℝ} (h : Scalar.divisible n d = true) : d ≠ 0 := by
  rw [divisible_iff] at h
  intro hd
  subst hd
  rw [mul_zero, abs_zero] at h
  exact absurd h (not_lt.mpr (abs_nonneg n))

end ScalarReal
end Refine
