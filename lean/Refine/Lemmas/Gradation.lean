import Refine.Model.Gradation
import Refine.Props.C16
import Refine.Lemmas.MetricSpd

/-!
  Helper lemmas for `Props/C10Gradation.lean`: the Loewner order on vertex tensors and on fields, the effect of
  one `ref_matrix_intersect` write-back on a field, and the exactness predicates that walk the same call
  sequence as the executable sweeps (`Props/C16.InnerExact` for every write-back call actually made).
-/
namespace Refine.Model.Gradation
open Refine Refine.Scalar Refine.ScalarReal Refine.Model.Matrix Refine.Model.Metric
open Refine.Props.C16 (InnerExact intersect_ge_left intersect_spd)
open Refine.Model.Geom (V3)

/-- Loewner order: `xᵀ a x ≤ xᵀ b x` for every x -/
def LeM (a b : M6 ℝ) : Prop := ∀ x : Vec3 ℝ, vtMv a x ≤ vtMv b x

/-- vertex-wise Loewner order on fields of the same length -/
def FieldLe (f g : List (M6 ℝ)) : Prop := f.length = g.length ∧ ∀ i, LeM (mAt f i) (mAt g i)

theorem LeM.refl (a : M6 ℝ) : LeM a a := fun _ => le_rfl
theorem LeM.trans {a b c : M6 ℝ} (h1 : LeM a b) (h2 : LeM b c) : LeM a c := fun x => le_trans (h1 x) (h2 x)
theorem FieldLe.refl (f : List (M6 ℝ)) : FieldLe f f := ⟨rfl, fun _ => LeM.refl _⟩
theorem FieldLe.trans {f g h : List (M6 ℝ)} (h1 : FieldLe f g) (h2 : FieldLe g h) : FieldLe f h :=
  ⟨h1.1.trans h2.1, fun i => (h1.2 i).trans (h2.2 i)⟩

theorem LeM.spd {a b : M6 ℝ} (h : LeM a b) (ha : SPD a) : SPD b := fun x hx => lt_of_lt_of_le (ha x hx) (h x)

theorem mAt_mem {f : List (M6 ℝ)} {i : Nat} (h : i < f.length) : mAt f i ∈ f := by
  unfold mAt
  simp only [List.getD_eq_getElem?_getD, List.getElem?_eq_getElem h, Option.getD_some]
  exact List.getElem_mem h

theorem mem_mAt {f : List (M6 ℝ)} {m : M6 ℝ} (h : m ∈ f) : ∃ i, i < f.length ∧ mAt f i = m := by
  obtain ⟨i, hi, rfl⟩ := List.getElem_of_mem h
  exact ⟨i, hi, by unfold mAt; simp only [List.getD_eq_getElem?_getD, List.getElem?_eq_getElem hi, Option.getD_some]⟩

/-- positive definiteness is upward closed in the vertex-wise Loewner order -/
theorem FieldLe.spd {f g : List (M6 ℝ)} (h : FieldLe f g) (hf : ∀ m ∈ f, SPD m) : ∀ m ∈ g, SPD m := by
  intro m hm
  obtain ⟨i, hi, rfl⟩ := mem_mAt hm
  exact (h.2 i).spd (hf _ (mAt_mem (h.1 ▸ hi)))

theorem mAt_set_self {f : List (M6 ℝ)} {a : Nat} (m : M6 ℝ) (h : a < f.length) : mAt (f.set a m) a = m := by
  unfold mAt
  have h' : a < (f.set a m).length := by rw [List.length_set]; exact h
  simp only [List.getD_eq_getElem?_getD, List.getElem?_eq_getElem h', Option.getD_some, List.getElem_set_self]

theorem mAt_set_ne {f : List (M6 ℝ)} {a i : Nat} (m : M6 ℝ) (h : a ≠ i) : mAt (f.set a m) i = mAt f i := by
  unfold mAt
  simp only [List.getD_eq_getElem?_getD, List.getElem?_set_ne h]

/-- replacing one vertex tensor by a larger one enlarges the field -/
theorem fieldLe_set {f : List (M6 ℝ)} {a : Nat} {m : M6 ℝ} (h : LeM (mAt f a) m) : FieldLe f (f.set a m) := by
  refine ⟨(List.length_set ..).symm, fun i => ?_⟩
  by_cases hia : a = i
  · subst hia
    by_cases hl : a < f.length
    · rw [mAt_set_self m hl]; exact h
    · rw [List.set_eq_of_length_le (not_lt.mp hl)]; exact LeM.refl _
  · rw [mAt_set_ne m hia]; exact LeM.refl _

/-- the eigen-decomposition hypotheses of `Props/C16` for one call `ref_matrix_intersect(m1, m2, ·)` -/
def CallExact (m1 m2 : M6 ℝ) : Prop := ∃ s is d1 d2, InnerExact m1 m2 s is d1 d2

theorem intersect_leM {m1 m2 m12 : M6 ℝ} (H : CallExact m1 m2) (h : intersect m1 m2 = .ok m12) : LeM m1 m12 := by
  obtain ⟨s, is, d1, d2, H⟩ := H
  exact fun x => intersect_ge_left H h x

/-- the write-back `intersect(metric[a], X, metric[a])` only enlarges the field -/
theorem fieldLe_set_intersect {f : List (M6 ℝ)} {a : Nat} {X m : M6 ℝ} (H : CallExact (mAt f a) X)
    (h : intersect (mAt f a) X = .ok m) : FieldLe f (f.set a m) :=
  fieldLe_set (intersect_leM H h)

/-! ### metric-space gradation -/

/-- exactness for the write-back call of one end (whatever the inner `limited` came out as) -/
def UpdExact (logR : ℝ) (dir : Vec3 ℝ) (orig metric : List (M6 ℝ)) (a b : Nat) : Prop :=
  ∀ limited, intersect (mAt orig a) (limitMS logR (mAt orig b) dir) = .ok limited → CallExact (mAt metric a) limited

/-- exactness for the (at most two) write-back calls of one edge -/
def EdgeExact (xyz : List (V3 ℝ)) (logR : ℝ) (orig metric : List (M6 ℝ)) (e : Nat × Nat) : Prop :=
  UpdExact logR (direction xyz e.1 e.2) orig metric e.1 e.2 ∧
  ∀ metric1, msUpdate logR (direction xyz e.1 e.2) orig metric e.1 e.2 = some metric1 →
    UpdExact logR (direction xyz e.1 e.2) orig metric1 e.2 e.1

/-- exactness along the edge loop: the predicate walks the same fold as `msSweep` -/
def FoldExact (xyz : List (V3 ℝ)) (logR : ℝ) (orig : List (M6 ℝ)) : List (M6 ℝ) → List (Nat × Nat) → Prop
  | _, [] => True
  | metric, e :: es => EdgeExact xyz logR orig metric e ∧ FoldExact xyz logR orig (msEdge xyz logR orig metric e) es

/-- exactness along `k` consecutive sweeps -/
def SweepsExact (xyz : List (V3 ℝ)) (r : ℝ) (edges : List (Nat × Nat)) : Nat → List (M6 ℝ) → Prop
  | 0, _ => True
  | k + 1, metric => FoldExact xyz (Real.log r) metric metric edges ∧ SweepsExact xyz r edges k (msSweep xyz r edges metric)

theorem msUpdate_ge {logR : ℝ} {dir : Vec3 ℝ} {orig metric metric1 : List (M6 ℝ)} {a b : Nat}
    (H : UpdExact logR dir orig metric a b) (h : msUpdate logR dir orig metric a b = some metric1) :
    FieldLe metric metric1 := by
  unfold msUpdate at h
  cases h1 : intersect (mAt orig a) (limitMS logR (mAt orig b) dir) with
  | error e => rw [h1] at h; cases h
  | ok limited =>
    rw [h1] at h
    dsimp only at h
    cases h2 : intersect (mAt metric a) limited with
    | error e => rw [h2] at h; cases h
    | ok m =>
      rw [h2] at h
      injection h with h
      subst h
      exact fieldLe_set_intersect (H limited h1) h2

theorem msEdge_ge {xyz : List (V3 ℝ)} {logR : ℝ} {orig metric : List (M6 ℝ)} {e : Nat × Nat}
    (H : EdgeExact xyz logR orig metric e) : FieldLe metric (msEdge xyz logR orig metric e) := by
  unfold msEdge
  dsimp only
  cases h1 : msUpdate logR (direction xyz e.1 e.2) orig metric e.1 e.2 with
  | none => exact FieldLe.refl _
  | some metric1 =>
    dsimp only
    have g1 := msUpdate_ge H.1 h1
    cases h2 : msUpdate logR (direction xyz e.1 e.2) orig metric1 e.2 e.1 with
    | none => exact g1
    | some metric2 => exact g1.trans (msUpdate_ge (H.2 metric1 h1) h2)

theorem msFold_ge {xyz : List (V3 ℝ)} {logR : ℝ} {orig : List (M6 ℝ)} (edges : List (Nat × Nat)) (metric : List (M6 ℝ))
    (H : FoldExact xyz logR orig metric edges) : FieldLe metric (edges.foldl (msEdge xyz logR orig) metric) := by
  induction edges generalizing metric with
  | nil => exact FieldLe.refl _
  | cons e es ih =>
    rw [List.foldl_cons]
    exact (msEdge_ge H.1).trans (ih _ H.2)

/-! ### mixed-space gradation -/

def MixedUpdExact (logR t dist : ℝ) (dir : Vec3 ℝ) (orig metric : List (M6 ℝ)) (a b : Nat) : Prop :=
  ∀ lim limited, limitMixed logR t dist (mAt orig b) dir = .ok lim → intersect (mAt orig a) lim = .ok limited →
    CallExact (mAt metric a) limited

noncomputable def mixedDist (xyz : List (V3 ℝ)) (e : Nat × Nat) : ℝ :=
  Scalar.sqrt ((direction xyz e.1 e.2).x *. (direction xyz e.1 e.2).x +. (direction xyz e.1 e.2).y *. (direction xyz e.1 e.2).y +.
    (direction xyz e.1 e.2).z *. (direction xyz e.1 e.2).z)

def MixedEdgeExact (xyz : List (V3 ℝ)) (logR t : ℝ) (orig metric : List (M6 ℝ)) (e : Nat × Nat) : Prop :=
  MixedUpdExact logR t (mixedDist xyz e) (direction xyz e.1 e.2) orig metric e.1 e.2 ∧
  ∀ metric1, mixedUpdate logR t (mixedDist xyz e) (direction xyz e.1 e.2) orig metric e.1 e.2 = .ok metric1 →
    MixedUpdExact logR t (mixedDist xyz e) (direction xyz e.1 e.2) orig metric1 e.2 e.1

def MixedFoldExact (xyz : List (V3 ℝ)) (logR t : ℝ) (orig : List (M6 ℝ)) : List (M6 ℝ) → List (Nat × Nat) → Prop
  | _, [] => True
  | metric, e :: es => MixedEdgeExact xyz logR t orig metric e ∧
      ∀ metric1, mixedEdge xyz logR t orig metric e = .ok metric1 → MixedFoldExact xyz logR t orig metric1 es

theorem mixedUpdate_ge {logR t dist : ℝ} {dir : Vec3 ℝ} {orig metric metric1 : List (M6 ℝ)} {a b : Nat}
    (H : MixedUpdExact logR t dist dir orig metric a b)
    (h : mixedUpdate logR t dist dir orig metric a b = .ok metric1) : FieldLe metric metric1 := by
  unfold mixedUpdate at h
  cases h0 : limitMixed logR t dist (mAt orig b) dir with
  | error e => rw [h0] at h; cases h
  | ok lim =>
    rw [h0] at h
    dsimp only at h
    cases h1 : intersect (mAt orig a) lim with
    | error e =>
      rw [h1] at h
      injection h with h
      subst h
      exact FieldLe.refl _
    | ok limited =>
      rw [h1] at h
      dsimp only at h
      cases h2 : intersect (mAt metric a) limited with
      | error e => rw [h2] at h; cases h
      | ok m =>
        rw [h2] at h
        injection h with h
        subst h
        exact fieldLe_set_intersect (H lim limited h0 h1) h2

theorem mixedEdge_ge {xyz : List (V3 ℝ)} {logR t : ℝ} {orig metric metric2 : List (M6 ℝ)} {e : Nat × Nat}
    (H : MixedEdgeExact xyz logR t orig metric e) (h : mixedEdge xyz logR t orig metric e = .ok metric2) :
    FieldLe metric metric2 := by
  unfold mixedEdge at h
  dsimp only at h
  cases h1 : mixedUpdate logR t (mixedDist xyz e) (direction xyz e.1 e.2) orig metric e.1 e.2 with
  | error err => unfold mixedDist at h1; rw [h1] at h; cases h
  | ok metric1 =>
    have h1' := h1
    unfold mixedDist at h1'
    rw [h1'] at h
    dsimp only at h
    exact (mixedUpdate_ge H.1 h1).trans (mixedUpdate_ge (H.2 metric1 h1) h)

theorem mixedFold_ge {xyz : List (V3 ℝ)} {logR t : ℝ} {orig : List (M6 ℝ)} (edges : List (Nat × Nat))
    (metric out : List (M6 ℝ)) (H : MixedFoldExact xyz logR t orig metric edges)
    (h : mixedFold xyz logR t orig edges metric = .ok out) : FieldLe metric out := by
  induction edges generalizing metric with
  | nil =>
    unfold mixedFold at h
    injection h with h
    subst h
    exact FieldLe.refl _
  | cons e es ih =>
    unfold mixedFold at h
    cases h1 : mixedEdge xyz logR t orig metric e with
    | error err => rw [h1] at h; cases h
    | ok metric1 =>
      rw [h1] at h
      exact (mixedEdge_ge H.1 h1).trans (ih metric1 (H.2 metric1 h1) h)

/-! ### the embedding block -/

theorem twodM_of_embedded {m : M6 ℝ} (h : IsEmbedded m) : twodM m = m := by
  cases m with
  | mk a b c d e f =>
    obtain ⟨h13, h23, h33⟩ := h
    simp only at h13 h23 h33
    subst h13 h23 h33
    simp [twodM, ofInt_eq]

theorem mAt_map_twodM (g : List (M6 ℝ)) (i : Nat) (h : i < g.length) : mAt (g.map twodM) i = twodM (mAt g i) := by
  unfold mAt
  simp [List.getD_eq_getElem?_getD, h]

theorem mAt_of_le {f : List (M6 ℝ)} {i : Nat} (h : f.length ≤ i) :
    mAt f i = ⟨Scalar.zero, Scalar.zero, Scalar.zero, Scalar.zero, Scalar.zero, Scalar.zero⟩ := by
  unfold mAt
  simp [List.getD_eq_getElem?_getD, List.getElem?_eq_none h]

/-- re-imposing the embedding keeps dominance over an embedded field -/
theorem fieldLe_map_twodM {f g : List (M6 ℝ)} (he : ∀ m ∈ f, IsEmbedded m) (h : FieldLe f g) :
    FieldLe f (g.map twodM) := by
  refine ⟨by rw [List.length_map]; exact h.1, fun i => ?_⟩
  by_cases hi : i < g.length
  · rw [mAt_map_twodM g i hi]
    intro x
    have hf : twodM (mAt f i) = mAt f i := twodM_of_embedded (he _ (mAt_mem (h.1 ▸ hi)))
    rw [← hf, vtMv_twodM, vtMv_twodM]
    have := h.2 i ⟨x.x, x.y, 0⟩
    linarith
  · have hi' : g.length ≤ i := not_lt.mp hi
    rw [mAt_of_le (show f.length ≤ i by rw [h.1]; exact hi'), mAt_of_le (show (g.map twodM).length ≤ i by rw [List.length_map]; exact hi')]
    exact LeM.refl _

end Refine.Model.Gradation
