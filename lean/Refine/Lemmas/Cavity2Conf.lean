import Refine.Lemmas.Cavity2Form

/-!
  `ref_cavity_enlarge_seg` / `ref_cavity_enlarge_conforming` on a cavity that lists tets: every call that changes the
  cavity and leaves the state unknown lists one new live boundary tri (and possibly new live tets), so the budgets of
  the modelled loop are never exhausted.
-/
namespace Refine.Lemmas.Cavity2
open Refine.Model.Cavity Refine.Model.Cavity2 Refine.Lemmas.Cavity Refine.Props.C01

variable {α : Type}

/-- both lists only grow, by live cells that were not listed -/
structure Grow (g : Grid α) (c c' : Cav) : Prop where
  finv : SlotsInv c'.faces
  sinv : SlotsInv c'.segs
  node : c'.node = c.node
  surf : c'.surfNode = c.surfNode
  tets : ∃ new, c'.tetList = c.tetList ++ new ∧ new.Nodup ∧ (∀ cell ∈ new, cell ∉ c.tetList) ∧
    (∀ cell ∈ new, ∃ t, g.tets.get? cell = some t)
  tris : ∃ new, c'.triList = c.triList ++ new ∧ new.Nodup ∧ (∀ cell ∈ new, cell ∉ c.triList) ∧
    (∀ cell ∈ new, ∃ t, g.tris.get? cell = some t)

theorem Grow.refl (g : Grid α) (c : Cav) (hf : SlotsInv c.faces) (hs : SlotsInv c.segs) : Grow g c c :=
  ⟨hf, hs, rfl, rfl, ⟨[], by simp, by simp, by simp, by simp⟩, ⟨[], by simp, by simp, by simp, by simp⟩⟩

theorem ext_trans {β : Type} {l1 l2 l3 : List Int} {P : Int → Prop}
    (h1 : ∃ new, l2 = l1 ++ new ∧ new.Nodup ∧ (∀ cell ∈ new, cell ∉ l1) ∧ (∀ cell ∈ new, P cell))
    (h2 : ∃ new, l3 = l2 ++ new ∧ new.Nodup ∧ (∀ cell ∈ new, cell ∉ l2) ∧ (∀ cell ∈ new, P cell)) :
    ∃ new, l3 = l1 ++ new ∧ new.Nodup ∧ (∀ cell ∈ new, cell ∉ l1) ∧ (∀ cell ∈ new, P cell) := by
  obtain ⟨n1, t1, d1, f1, p1⟩ := h1
  obtain ⟨n2, t2, d2, f2, p2⟩ := h2
  refine ⟨n1 ++ n2, by rw [t2, t1, List.append_assoc], ?_, ?_, ?_⟩
  · refine List.nodup_append.mpr ⟨d1, d2, ?_⟩
    intro x hx y hy hxy
    subst hxy
    exact f2 x hy (by rw [t1]; exact List.mem_append_right _ hx)
  · intro x hx
    rcases List.mem_append.mp hx with h | h
    · exact f1 x h
    · intro hm; exact f2 x h (by rw [t1]; exact List.mem_append_left _ hm)
  · intro x hx
    rcases List.mem_append.mp hx with h | h
    · exact p1 x h
    · exact p2 x h

theorem Grow.trans {g : Grid α} {a b c : Cav} (h1 : Grow g a b) (h2 : Grow g b c) : Grow g a c :=
  ⟨h2.finv, h2.sinv, h2.node.trans h1.node, h2.surf.trans h1.surf,
    ext_trans (β := Unit) h1.tets h2.tets, ext_trans (β := Unit) h1.tris h2.tris⟩

theorem CavInv.of_grow {g : Grid α} {c c' : Cav} (h : CavInv g c) (st : Grow g c c') : CavInv g c' := by
  obtain ⟨n1, t1, d1, f1, l1⟩ := st.tets
  obtain ⟨n2, t2, d2, f2, l2⟩ := st.tris
  refine ⟨st.finv, st.sinv, ?_, ?_, ?_, ?_⟩
  · intro cell hc
    rw [t1] at hc
    rcases List.mem_append.mp hc with h1 | h1
    · exact h.tetsLive cell h1
    · exact l1 cell h1
  · rw [t1]
    refine List.nodup_append.mpr ⟨h.tetsNodup, d1, ?_⟩
    intro x hx y hy hxy
    subst hxy
    exact f1 x hy hx
  · intro cell hc
    rw [t2] at hc
    rcases List.mem_append.mp hc with h1 | h1
    · exact h.trisLive cell h1
    · exact l2 cell h1
  · rw [t2]
    refine List.nodup_append.mpr ⟨h.trisNodup, d2, ?_⟩
    intro x hx y hy hxy
    subst hxy
    exact f2 x hy hx

theorem Grow.tets_ne {g : Grid α} {c c' : Cav} (st : Grow g c c') (h : c.tetList ≠ []) : c'.tetList ≠ [] := by
  obtain ⟨n1, t1, _⟩ := st.tets
  rw [t1]
  intro e
  exact h (List.append_eq_nil_iff.mp e).1

/-- one successful 3-D seg insertion that leaves the state unknown -/
theorem insertSeg_grow (g : Grid α) (c c' : Cav) (s : Seg) (hf : SlotsInv c.faces) (hsg : SlotsInv c.segs)
    (htl : c.tetList ≠ []) (h : insertSeg g c s = (.ok, c')) (hs : c'.state = .unknown) : Grow g c c' := by
  have hφ : Alt (fun _ _ _ => (0 : Int)) := ⟨fun _ _ _ => rfl, fun _ _ _ => by simp⟩
  have hd : Diag (fun _ _ _ => (0 : Int)) := fun _ _ => rfl
  have hψ : Alt2 (fun _ _ => (0 : Int)) := ⟨fun _ _ => by simp, fun _ => rfl⟩
  have hs0 := insertSeg_state_mono g c c' s _ h hs
  rcases insertSeg3_spec hφ hd hψ g c c' s hf hsg ⟨htl, hs0⟩ h with hbad | ⟨new, st⟩
  · exact absurd hs hbad
  · exact ⟨st.finv, st.sinv, st.node, st.surf, ⟨new, st.tets, st.nodup, st.fresh, st.live⟩,
      ⟨[], by rw [st.tris]; simp, by simp, by simp, by simp⟩⟩

theorem addTriSegs_state_mono (g : Grid α) (ss : List Seg) (c c' : Cav) (st : Refine.Model.Cavity.St)
    (h : addTriSegs g c ss = (st, c')) (hs : c'.state = .unknown) : c.state = .unknown := by
  induction ss generalizing c with
  | nil => simp only [addTriSegs, Prod.mk.injEq] at h; rw [← h.2] at hs; exact hs
  | cons s t ih =>
    unfold addTriSegs at h
    rcases hins : insertSeg g c s with ⟨s1, c1⟩
    rw [hins] at h
    cases s1 <;> simp only [] at h
    case ok =>
      split at h
      · simp only [Prod.mk.injEq] at h
        exact insertSeg_state_mono g c c1 s _ hins (h.2 ▸ hs)
      · exact insertSeg_state_mono g c c1 s _ hins (ih c1 h)
    all_goals (simp only [Prod.mk.injEq] at h; exact insertSeg_state_mono g c c1 s _ hins (h.2 ▸ hs))

theorem addTriSegs_grow (g : Grid α) (ss : List Seg) (c c' : Cav) (hf : SlotsInv c.faces) (hsg : SlotsInv c.segs)
    (htl : c.tetList ≠ []) (h : addTriSegs g c ss = (.ok, c')) (hs : c'.state = .unknown) : Grow g c c' := by
  induction ss generalizing c with
  | nil =>
    simp only [addTriSegs, Prod.mk.injEq, true_and] at h; subst h
    exact Grow.refl g c hf hsg
  | cons s t ih =>
    unfold addTriSegs at h
    rcases hins : insertSeg g c s with ⟨s1, c1⟩
    rw [hins] at h
    cases s1 <;> simp only [] at h <;> first | exact (notok h (by decide)).elim | skip
    split at h
    · next hne =>
      simp only [Prod.mk.injEq, true_and] at h; subst h; exact absurd hs hne
    · have hs1 : c1.state = .unknown := addTriSegs_state_mono g t c1 c' _ h hs
      have g1 := insertSeg_grow g c c1 s hf hsg htl hins hs1
      exact g1.trans (ih c1 g1.finv g1.sinv (g1.tets_ne htl) h)

/-- `ref_cavity_add_tri` on a cavity that lists tets, ok + state unknown: nothing happened, or the tri (live, not
    listed) was pushed and the lists grew -/
theorem addTri_grow (g : Grid α) (c c' : Cav) (cell : Int) (hf : SlotsInv c.faces) (hsg : SlotsInv c.segs)
    (htl : c.tetList ≠ []) (h : addTri g c cell = (.ok, c')) (hs : c'.state = .unknown) :
    c' = c ∨ (Grow g c c' ∧ c.triList.length < c'.triList.length) := by
  unfold addTri at h
  split at h
  · simp at h
  · next tri hget =>
    split at h
    · simp only [Prod.mk.injEq, true_and] at h; exact Or.inl h.symm
    · next hnot =>
      split at h
      · simp only [Prod.mk.injEq, true_and] at h; subst h; simp at hs
      · right
        have g1 := addTriSegs_grow g (triSegs tri) { c with triList := c.triList ++ [cell] } c' hf hsg htl h hs
        obtain ⟨n2, t2, d2, f2, l2⟩ := g1.tris
        have hcellnot : cell ∉ c.triList := fun hm => hnot (List.contains_iff_mem.mpr hm)
        refine ⟨⟨g1.finv, g1.sinv, g1.node, g1.surf, g1.tets, ?_⟩, ?_⟩
        · refine ⟨cell :: n2, by rw [t2]; simp, ?_, ?_, ?_⟩
          · refine List.nodup_cons.mpr ⟨?_, d2⟩
            intro hm
            exact f2 cell hm (by simp)
          · intro x hx
            rcases List.mem_cons.mp hx with rfl | hx
            · exact hcellnot
            · intro hm
              exact f2 x hx (List.mem_append_left _ hm)
          · intro x hx
            rcases List.mem_cons.mp hx with rfl | hx
            · exact ⟨tri, hget⟩
            · exact l2 x hx
        · rw [t2]; simp only [List.length_append, List.length_cons, List.length_nil]; omega

theorem addTri_state_mono (g : Grid α) (c c' : Cav) (cell : Int) (st : Refine.Model.Cavity.St)
    (h : addTri g c cell = (st, c')) (hs : c'.state = .unknown) : c.state = .unknown := by
  unfold addTri at h
  split at h
  · simp only [Prod.mk.injEq] at h; rw [← h.2] at hs; exact hs
  · split at h
    · simp only [Prod.mk.injEq] at h; rw [← h.2] at hs; exact hs
    · split at h
      · simp only [Prod.mk.injEq] at h; rw [← h.2] at hs; simp at hs
      · exact addTriSegs_state_mono g _ { c with triList := c.triList ++ [cell] } c' _ h hs

/-- `ref_cavity_enlarge_seg`, ok + state unknown, on a cavity that lists tets: exactly one of the two tris on the seg
    was listed; the other one is now listed too -/
theorem enlargeSeg_grow (g : Grid α) (c c' : Cav) (i : Nat) (hf : SlotsInv c.faces) (hsg : SlotsInv c.segs)
    (htl : c.tetList ≠ []) (h : enlargeSeg g c i = (.ok, c')) (hs : c'.state = .unknown) :
    c.state = .unknown ∧ (c' = c ∨ (Grow g c c' ∧ c.triList.length < c'.triList.length)) := by
  unfold enlargeSeg at h
  split at h
  · simp at h
  · next s hs0 =>
    split at h
    · next p0 p1 hl =>
      simp only at h
      split at h
      · simp at h
      · next hne =>
        cases h0 : c.triList.contains (p0.1 : Int) <;> cases h1 : c.triList.contains (p1.1 : Int) <;>
          simp only [h0, h1] at h hne
        · exact absurd rfl hne
        · -- have1 only: add p0
          simp only [Bool.false_eq_true, if_false, if_true] at h
          exact ⟨addTri_state_mono g c c' _ _ h hs, addTri_grow g c c' _ hf hsg htl h hs⟩
        · -- have0 only: add p1
          simp only [if_true, Bool.false_eq_true, if_false] at h
          rcases ha : addTri g c (p1.1 : Int) with ⟨s1, c1⟩
          rw [ha] at h
          cases s1 <;> simp only [] at h
          case ok =>
            simp only [Prod.mk.injEq, true_and] at h; subst h
            exact ⟨addTri_state_mono g c c1 _ _ ha hs, addTri_grow g c c1 _ hf hsg htl ha hs⟩
          all_goals (simp at h)
        · exact absurd rfl hne
    · simp at h
    · simp only [Prod.mk.injEq, true_and] at h; subst h; simp at hs


/-! ### the conforming loop -/

theorem scanConf_hit (g : Grid α) (conf : Cav → Seg → Bool) (c : Cav) (hf : SlotsInv c.faces) (hsg : SlotsInv c.segs)
    (htl : c.tetList ≠ []) (rows : List (Option Seg)) (i : Nat) (st : Bool) (j : Nat) (c' : Cav) (st' : Bool)
    (h : scanConf g conf c rows i st = .hit j c' st') :
    c.state = .unknown ∧ c'.state = .unknown ∧ Grow g c c' ∧ c.triList.length < c'.triList.length := by
  induction rows generalizing i st with
  | nil => simp [scanConf] at h
  | cons r t ih =>
    cases r with
    | none => exact ih (i + 1) st h
    | some s =>
      unfold scanConf at h
      split at h
      · exact ih (i + 1) st h
      · split at h
        · exact ih (i + 1) st h
        · rcases he : enlargeSeg g c i with ⟨s1, c1⟩
          rw [he] at h
          cases s1 <;> simp only [] at h
          case ok =>
            split at h
            · cases h
            · next hun =>
              split at h
              · exact ih (i + 1) true h
              · next hne =>
                simp only [Scan.hit.injEq] at h
                obtain ⟨rfl, rfl, rfl⟩ := h
                have hs1 : c1.state = .unknown := by simpa using hun
                obtain ⟨h0, hcase⟩ := enlargeSeg_grow g c c1 i hf hsg htl he hs1
                rcases hcase with e | ⟨hg, hl⟩
                · exact absurd e hne
                · exact ⟨h0, hs1, hg, hl⟩
          all_goals cases h

theorem confSweep_no_fuel (g : Grid α) (conf : Cav → Seg → Bool) (k : Nat) (c : Cav) (i : Nat) (grew : Bool)
    (hinv : CavInv g c) (htl : c.tetList ≠ []) (hk : g.tris.slots.rows.length < c.triList.length + k) (c' : Cav) :
    confSweep g conf k c i grew ≠ .fuel c' := by
  induction k generalizing c i grew with
  | zero =>
    have := hinv.tri_length_le
    omega
  | succ k ih =>
    unfold confSweep
    split
    · simp
    · simp
    · next j c1 st1 hsc =>
      obtain ⟨_, _, hg, hl⟩ := scanConf_hit g conf c hinv.finv hinv.sinv htl _ _ _ _ _ _ hsc
      exact ih c1 (j + 1) true (hinv.of_grow hg) (hg.tets_ne htl) (by omega)

/-- a sweep that runs to the end: the lists only grew; if anything changed the tri list got longer -/
theorem confSweep_done (g : Grid α) (conf : Cav → Seg → Bool) (k : Nat) (c : Cav) (i : Nat) (grew : Bool) (c' : Cav)
    (grew' : Bool) (hinv : CavInv g c) (htl : c.tetList ≠ []) (h : confSweep g conf k c i grew = .done c' grew') :
    Grow g c c' ∧ (c' ≠ c → c.triList.length < c'.triList.length) := by
  induction k generalizing c i grew with
  | zero => simp [confSweep] at h
  | succ k ih =>
    unfold confSweep at h
    split at h
    · simp only [SweepRes.done.injEq] at h
      obtain ⟨rfl, _⟩ := h
      exact ⟨Grow.refl g c hinv.finv hinv.sinv, fun hne => absurd rfl hne⟩
    · cases h
    · next j c1 st1 hsc =>
      obtain ⟨_, _, hg, hl⟩ := scanConf_hit g conf c hinv.finv hinv.sinv htl _ _ _ _ _ _ hsc
      obtain ⟨g2, hl2⟩ := ih c1 (j + 1) true (hinv.of_grow hg) (hg.tets_ne htl) h
      refine ⟨hg.trans g2, fun _ => ?_⟩
      by_cases e : c' = c1
      · subst e; exact hl
      · exact lt_trans hl (hl2 e)

theorem confLoop_no_fuel (g : Grid α) (conf : Cav → Seg → Bool) (adds n : Nat) (c : Cav) (hinv : CavInv g c)
    (htl : c.tetList ≠ []) (hadds : g.tris.slots.rows.length < adds)
    (hn : g.tris.slots.rows.length < c.triList.length + n) (c' : Cav) :
    confLoop g conf adds n c ≠ .inl (.fuel c') := by
  induction n generalizing c with
  | zero =>
    have := hinv.tri_length_le
    omega
  | succ n ih =>
    unfold confLoop
    split
    · next c1 grew hsw =>
      obtain ⟨hg, hl⟩ := confSweep_done g conf adds c 0 false c1 grew hinv htl hsw
      split
      · simp
      · split
        · simp
        · next hne =>
          have := hl hne
          exact ih c1 (hinv.of_grow hg) (hg.tets_ne htl) (by omega)
    · simp
    · next c1 hsw =>
      exact absurd hsw (confSweep_no_fuel g conf adds c 0 false hinv htl (by omega) c1)


theorem confLoop_done (g : Grid α) (conf : Cav → Seg → Bool) (adds n : Nat) (c c' : Cav) (hinv : CavInv g c)
    (htl : c.tetList ≠ []) (h : confLoop g conf adds n c = .inr c') : Grow g c c' := by
  induction n generalizing c with
  | zero => simp [confLoop] at h
  | succ n ih =>
    unfold confLoop at h
    split at h
    · next c1 grew hsw =>
      obtain ⟨hg, _⟩ := confSweep_done g conf adds c 0 false c1 grew hinv htl hsw
      split at h
      · simp only [Sum.inr.injEq] at h; subst h; exact hg
      · split at h
        · cases h
        · exact hg.trans (ih c1 (hinv.of_grow hg) (hg.tets_ne htl) h)
    · cases h
    · cases h

end Refine.Lemmas.Cavity2
