import Refine.Model.InterpLocate
import Mathlib.Tactic.Linarith

/-!
  Local (one rank) lemmas about `Refine.Model.InterpLocate`: the `Except` plumbing, the four weight slots, the agent
  container, and the preservation of a per-node / per-agent invariant by every rank-local step of the staging.

  The invariant is parametric: `P` is what the slots stored by stage 1 (geometry seeds) and stage 2 (walks) satisfy,
  `P3` what stage 3 (tree) stores satisfy.  `Props/C11Locate.lean` instantiates it with "every weight `≥ inside`"
  (`locate_accepts_only_inside`) and with "every slot written, the 4th of a 2-D donor is `0`"
  (`locate_all_slots_written`).
-/
set_option linter.unusedSectionVars false

namespace Refine.Lemmas.InterpLocate
open Refine Refine.Model.Geom Refine.Model.Interp Refine.Model.InterpLocate Refine.Model.Comm
open Refine.Gen

/-! ## `Except` -/

theorem bind_eq_ok {ε β γ : Type} {x : Except ε β} {f : β → Except ε γ} {c : γ} :
    (x >>= f) = .ok c ↔ ∃ b, x = .ok b ∧ f b = .ok c := by
  cases x with
  | error e => simp [bind, Except.bind]
  | ok b => simp [bind, Except.bind]

theorem map_eq_ok {ε β γ : Type} {x : Except ε β} {f : β → γ} {c : γ} :
    (x.map f) = .ok c ↔ ∃ b, x = .ok b ∧ f b = c := by
  cases x with
  | error e => simp [Except.map]
  | ok b => simp [Except.map]

/-- `collect` succeeds exactly when every entry does; the results are in the same positions -/
theorem collect_ok {β : Type} : ∀ (l : List (Except ISt β)) (l' : List β), collect l = .ok l' →
    List.Forall₂ (fun e b => e = Except.ok b) l l'
  | [], l', h => by
    simp only [collect, Except.ok.injEq] at h
    subst h
    exact List.Forall₂.nil
  | .error e :: rest, l', h => by simp [collect] at h
  | .ok b :: rest, l', h => by
    simp only [collect] at h
    obtain ⟨t, ht, rfl⟩ := map_eq_ok.mp h
    exact List.Forall₂.cons rfl (collect_ok rest t ht)

theorem collect_mem {β : Type} : ∀ {l : List (Except ISt β)} {l' : List β}, collect l = .ok l' → ∀ {b : β}, b ∈ l' →
    Except.ok b ∈ l
  | [], l', h, b, hb => by
    simp only [collect, Except.ok.injEq] at h
    subst h; cases hb
  | .error e :: rest, l', h, b, hb => by simp [collect] at h
  | .ok a :: rest, l', h, b, hb => by
    simp only [collect] at h
    obtain ⟨t, ht, rfl⟩ := map_eq_ok.mp h
    rcases List.mem_cons.mp hb with rfl | hb'
    · exact List.mem_cons_self
    · exact List.mem_cons_of_mem _ (collect_mem ht hb')

theorem collect_length {β : Type} : ∀ {l : List (Except ISt β)} {l' : List β}, collect l = .ok l' → l'.length = l.length
  | [], l', h => by
    simp only [collect, Except.ok.injEq] at h
    subst h; rfl
  | .error e :: rest, l', h => by simp [collect] at h
  | .ok a :: rest, l', h => by
    simp only [collect] at h
    obtain ⟨t, ht, rfl⟩ := map_eq_ok.mp h
    simp [collect_length ht]

/-- an invariant carried by a `foldlM` in `Except` -/
theorem foldlM_inv {β σ : Type} (I : σ → Prop) (f : σ → β → Except ISt σ) (hf : ∀ s b s', I s → f s b = .ok s' → I s') :
    ∀ (l : List β) (s s' : σ), I s → l.foldlM f s = .ok s' → I s'
  | [], s, s', hs, h => by
    simp only [List.foldlM, pure, Except.pure, Except.ok.injEq] at h
    subst h; exact hs
  | b :: rest, s, s', hs, h => by
    simp only [List.foldlM] at h
    obtain ⟨s1, h1, h2⟩ := bind_eq_ok.mp h
    exact foldlM_inv I f hf rest s1 s' (hf s b s1 hs h1) h2

/-! ## lists -/

theorem getD_set_self {β : Type} (l : List β) (i : Nat) (v d : β) (h : i < l.length) : (l.set i v).getD i d = v := by
  simp [List.getD, h]

theorem getD_set_ne {β : Type} (l : List β) (i j : Nat) (v d : β) (h : i ≠ j) : (l.set i v).getD j d = l.getD j d := by
  simp [List.getD, h]

theorem set_of_length_le {β : Type} (l : List β) (i : Nat) (v : β) (h : l.length ≤ i) : l.set i v = l :=
  List.set_eq_of_length_le h

/-! ## slots -/

section Slots
variable {α : Type}

@[simp] theorem copyN_four (d s : Slots α) : Slots.copyN 4 d s = s := by
  cases s; simp [Slots.copyN]

@[simp] theorem ofList_toList (s : Slots α) : Slots.ofList s.toList = s := by
  cases s; simp [Slots.ofList, Slots.toList]

@[simp] theorem toList_length (s : Slots α) : s.toList.length = 4 := by simp [Slots.toList]

end Slots

section Generic
variable {α : Type} [Scalar α]

theorem storeBary_twod (s : Slots α) (b : B4 α) :
    storeBary true s b = ⟨some b.b0, some b.b1, some b.b2, some lit0⟩ := by
  simp [storeBary, Slots.write3, Slots.zero3]

theorem storeBary_3d (s : Slots α) (b : B4 α) :
    storeBary false s b = ⟨some b.b0, some b.b1, some b.b2, some b.b3⟩ := by
  simp [storeBary, Slots.write4]

/-! ## the agent container -/

theorem mem_insertSorted {id : Nat} {ag : AgentP α} {l : List (Nat × AgentP α)} {p : Nat × AgentP α}
    (h : p ∈ Agents.insertSorted id ag l) : p ∈ l ∨ p = (id, ag) := by
  induction l with
  | nil =>
    simp only [Agents.insertSorted, List.mem_singleton] at h
    exact Or.inr h
  | cons q rest ih =>
    simp only [Agents.insertSorted] at h
    split at h
    · rcases List.mem_cons.mp h with h | h
      · exact Or.inr h
      · exact Or.inl h
    · rcases List.mem_cons.mp h with h | h
      · exact Or.inl (h ▸ List.mem_cons_self)
      · rcases ih h with h | h
        · exact Or.inl (List.mem_cons_of_mem _ h)
        · exact Or.inr h

theorem alloc_act (a : Agents α) : a.alloc.2.act = a.act := by
  unfold Agents.alloc
  split
  · rfl
  · split <;> rfl

theorem mem_push {a : Agents α} {ag : AgentP α} {p : Nat × AgentP α} (h : p ∈ (a.push ag).2.act) :
    p ∈ a.act ∨ p.2 = ag := by
  simp only [Agents.push] at h
  rcases mem_insertSorted h with h | h
  · rw [alloc_act] at h; exact Or.inl h
  · exact Or.inr (by rw [h])

theorem mem_remove {a : Agents α} {id : Nat} {p : Nat × AgentP α} (h : p ∈ (a.remove id).act) : p ∈ a.act := by
  unfold Agents.remove at h
  split at h
  · exact (List.mem_filter.mp h).1
  · exact h

theorem mem_set {a : Agents α} {id : Nat} {ag : AgentP α} {p : Nat × AgentP α} (h : p ∈ (a.set id ag).act) :
    p ∈ a.act ∨ p.2 = ag := by
  simp only [Agents.set, List.mem_map] at h
  obtain ⟨q, hq, rfl⟩ := h
  split
  · exact Or.inr rfl
  · exact Or.inl hq

theorem mem_foldl_remove {ids : List Nat} {a : Agents α} {p : Nat × AgentP α}
    (h : p ∈ (ids.foldl Agents.remove a).act) : p ∈ a.act := by
  induction ids generalizing a with
  | nil => exact h
  | cons i rest ih => exact mem_remove (ih h)

theorem mem_deleteNode {a : Agents α} {node : Int} {p : Nat × AgentP α} (h : p ∈ (a.deleteNode node).act) :
    p ∈ a.act := mem_foldl_remove h

theorem get?_mem {a : Agents α} {id : Nat} {ag : AgentP α} (h : a.get? id = some ag) : ∃ p ∈ a.act, p.2 = ag := by
  simp only [Agents.get?, Option.map_eq_some_iff] at h
  obtain ⟨p, hp, rfl⟩ := h
  exact ⟨p, List.mem_of_find?_eq_some hp, rfl⟩

/-! ## the invariant -/

/-- per node: what the stored slots satisfy, by the stage that stored them -/
def NodeOK (P P3 : Slots α → Prop) (st : RankSt α) (i : Nat) : Prop :=
  ((st.stage.getD i 0 = 1 ∨ st.stage.getD i 0 = 2) → P (st.baryOf i)) ∧ (st.stage.getD i 0 = 3 → P3 (st.baryOf i))

/-- per agent: an `ENCLOSING` agent carries slots with `P` -/
def AgOK (P : Slots α → Prop) (ag : Agents α) : Prop := ∀ p ∈ ag.act, p.2.mode = AMode.enclosing → P p.2.bary

/-- the rank-local invariant -/
structure Good (P P3 : Slots α → Prop) (st : RankSt α) : Prop where
  wf : st.bary.length = st.stage.length
  nodes : ∀ i, NodeOK P P3 st i
  agents : AgOK P st.ag

variable {P P3 : Slots α → Prop}

theorem agOK_push {a : Agents α} {ag : AgentP α} (h : AgOK P a) (hag : ag.mode = AMode.enclosing → P ag.bary) :
    AgOK P (a.push ag).2 := by
  intro p hp hm
  rcases mem_push hp with hp | hp
  · exact h p hp hm
  · rw [hp] at hm ⊢; exact hag hm

theorem agOK_remove {a : Agents α} {id : Nat} (h : AgOK P a) : AgOK P (a.remove id) :=
  fun p hp hm => h p (mem_remove hp) hm

theorem agOK_set {a : Agents α} {id : Nat} {ag : AgentP α} (h : AgOK P a) (hag : ag.mode = AMode.enclosing → P ag.bary) :
    AgOK P (a.set id ag) := by
  intro p hp hm
  rcases mem_set hp with hp | hp
  · exact h p hp hm
  · rw [hp] at hm ⊢; exact hag hm

theorem agOK_deleteNode {a : Agents α} {node : Int} (h : AgOK P a) : AgOK P (a.deleteNode node) :=
  fun p hp hm => h p (mem_deleteNode hp) hm

/-- a change that leaves `bary` and `stage` alone keeps every `NodeOK` -/
theorem good_frame {st st' : RankSt α} (h : Good P P3 st) (hb : st'.bary = st.bary) (hs : st'.stage = st.stage)
    (ha : AgOK P st'.ag) : Good P P3 st' := by
  refine ⟨by rw [hb, hs]; exact h.wf, ?_, ha⟩
  intro i
  have := h.nodes i
  simpa [NodeOK, RankSt.baryOf, hb, hs] using this

/-- `RankSt.store`: the node gets new slots and a stage tag; the new pair must satisfy its own clause -/
theorem good_store {st : RankSt α} (h : Good P P3 st) (node : Nat) (cell proc : Int) (n : Nat) (src : Slots α) (sg : Nat)
    (h12 : sg = 1 ∨ sg = 2 → P (Slots.copyN n (st.baryOf node) src))
    (h3 : sg = 3 → P3 (Slots.copyN n (st.baryOf node) src)) :
    Good P P3 (st.store node cell proc n src sg) := by
  refine ⟨by simp [RankSt.store, h.wf], ?_, h.agents⟩
  intro i
  have hold := h.nodes i
  unfold NodeOK RankSt.baryOf at hold ⊢
  unfold RankSt.store
  simp only
  by_cases hi : node = i
  · subst hi
    by_cases hl : node < st.stage.length
    · have hlb : node < st.bary.length := by rw [h.wf]; exact hl
      rw [getD_set_self _ _ _ _ hl, getD_set_self _ _ _ _ hlb]
      exact ⟨h12, h3⟩
    · have hl' : st.stage.length ≤ node := Nat.le_of_not_lt hl
      have hlb : st.bary.length ≤ node := by rw [h.wf]; exact hl'
      rw [set_of_length_le _ _ _ hl', set_of_length_le _ _ _ hlb]
      exact hold
  · rw [getD_set_ne _ _ _ _ _ hi, getD_set_ne _ _ _ _ _ hi]
    exact hold

/-! ## `ref_interp_push_onto_queue` -/

theorem good_pushOne (r : Nat) (rc : RecvR α) (node : Nat) (st : RankSt α) (other : Nat) (h : Good P P3 st) :
    Good P P3 (pushOne r rc node st other) := by
  unfold pushOne
  simp only
  split
  · split
    · exact good_frame h rfl rfl (agOK_push h.agents (by simp))
    · exact h
  · exact good_frame h rfl rfl (agOK_push h.agents (by simp))

theorem good_foldl_pushOne (r : Nat) (rc : RecvR α) (node : Nat) (l : List Nat) (st : RankSt α) (h : Good P P3 st) :
    Good P P3 (l.foldl (pushOne r rc node) st) := by
  induction l generalizing st with
  | nil => exact h
  | cons o rest ih => exact ih _ (good_pushOne r rc node st o h)

theorem good_pushOntoQueue {r : Nat} {rc : RecvR α} {st st' : RankSt α} {node : Nat} (h : Good P P3 st)
    (hq : pushOntoQueue r rc st node = .ok st') : Good P P3 st' := by
  unfold pushOntoQueue at hq
  split at hq
  · cases hq
  · simp only [Except.ok.injEq] at hq
    subst hq
    exact good_foldl_pushOne r rc node _ st h

/-! ## the copy loops have the bound 4 in the C text (regenerated: `Gen/InterpConsts.lean`) -/

theorem geomCopy_eq : InterpConsts.geomCopy = 4 := rfl
theorem walkCopy_eq : InterpConsts.walkCopy = 4 := rfl
theorem processCopy_eq : InterpConsts.processCopy = 4 := rfl
theorem treeCopy_eq : InterpConsts.treeCopy = 4 := rfl

/-! ## the receive loops of stage 1 and stage 3 -/

/-- `geomRecv`: every accepted record stores slots with `P` -/
theorem good_geomRecv (r : Nat) (rc : RecvR α) :
    ∀ (items : List (Int × Int × Int × Slots α)) (st st' : RankSt α), Good P P3 st →
      (∀ it ∈ items, geomAccept it.2.2.2 = true → P it.2.2.2) →
      geomRecv r rc st items = .ok st' → Good P P3 st'
  | [], st, st', h, _, hr => by
    simp only [geomRecv, Except.ok.injEq] at hr
    subst hr; exact h
  | (node, cell, proc, bary) :: rest, st, st', h, hit, hr => by
    have hrest : ∀ it ∈ rest, geomAccept it.2.2.2 = true → P it.2.2.2 :=
      fun it hi => hit it (List.mem_cons_of_mem _ hi)
    simp only [geomRecv] at hr
    by_cases hacc : geomAccept bary = true
    · rw [if_pos hacc] at hr
      split at hr
      · cases hr
      · have hPb : P bary := hit _ List.mem_cons_self hacc
        -- the state just before `pushOntoQueue`
        split at hr
        · rename_i st1 hq
          refine good_geomRecv r rc rest st1 st' ?_ hrest hr
          refine good_pushOntoQueue ?_ hq
          apply good_store
          · split
            · exact good_frame h rfl rfl (agOK_deleteNode h.agents)
            · exact good_frame h rfl rfl h.agents
          · intro _; rw [geomCopy_eq, copyN_four]; exact hPb
          · intro h3; cases h3
        · cases hr
    · rw [if_neg hacc] at hr
      refine good_geomRecv r rc rest _ st' ?_ hrest hr
      exact good_frame h rfl rfl h.agents

/-- `treeRecv`: every record with a cell stores slots with `P3` -/
theorem good_treeRecv :
    ∀ (items : List (Int × Int × Int × Slots α)) (st st' : RankSt α), Good P P3 st →
      (∀ it ∈ items, it.2.1 ≠ refEmpty → P3 it.2.2.2) →
      treeRecv st items = .ok st' → Good P P3 st'
  | [], st, st', h, _, hr => by
    simp only [treeRecv, Except.ok.injEq] at hr
    subst hr; exact h
  | (node, cell, proc, bary) :: rest, st, st', h, hit, hr => by
    have hrest : ∀ it ∈ rest, it.2.1 ≠ refEmpty → P3 it.2.2.2 := fun it hi => hit it (List.mem_cons_of_mem _ hi)
    simp only [treeRecv] at hr
    split at hr
    · cases hr
    · have h1 : Good P P3 (if st.hired.getD node.toNat false = true
          then { st with ag := st.ag.deleteNode node, hired := st.hired.set node.toNat false } else st) := by
        split
        · exact good_frame h rfl rfl (agOK_deleteNode h.agents)
        · exact h
      by_cases hc : (cell != refEmpty) = true
      · rw [if_pos hc] at hr
        refine good_treeRecv rest _ st' ?_ hrest hr
        have hne : cell ≠ refEmpty := by simpa using hc
        have hP3 : P3 bary := hit _ List.mem_cons_self hne
        have hs := good_store (P := P) (P3 := P3) h1 node.toNat cell proc InterpConsts.treeCopy bary 3
          (by intro h12; rcases h12 with h12 | h12 <;> cases h12)
          (by intro _; rw [treeCopy_eq, copyN_four]; exact hP3)
        exact good_frame hs rfl rfl hs.agents
      · rw [if_neg hc] at hr
        refine good_treeRecv rest _ st' ?_ hrest hr
        exact good_frame h1 rfl rfl h1.agents

/-! ## the walk -/

/-- what an agent that comes back `ENCLOSING` from one loop body carries -/
theorem walkIterP_done {r : Nat} {dr : DonorR α} {a a' : AgentP α} {rnd : Nat} (h : walkIterP r dr a rnd = .done a') :
    ∃ n b, dr.d.cellAt a.seed = some n ∧ b = (Refine.Model.Interp.baryOf dr.d n a.xyz).2 ∧ walkInside b = true ∧
      a' = { a with mode := AMode.enclosing,
                    bary := Slots.copyN InterpConsts.walkCopy a.bary (storeBary dr.d.twod Slots.unwritten b) } := by
  unfold walkIterP at h
  cases hca : dr.d.cellAt a.seed with
  | none => simp [hca] at h
  | some n =>
    simp only [hca] at h
    rcases hb : Refine.Model.Interp.baryOf dr.d n a.xyz with ⟨st, b⟩
    rw [hb] at h
    cases st with
    | ok =>
      simp only at h
      by_cases hi : walkInside b = true
      · rw [if_pos hi] at h
        cases h
        exact ⟨n, b, rfl, by rw [hb], hi, rfl⟩
      · rw [if_neg hi] at h
        split at h
        · cases h
        · split at h <;> cases h
    | divZero =>
      simp only at h
      by_cases hi : walkInside b = true
      · rw [if_pos hi] at h
        cases h
        exact ⟨n, b, rfl, by rw [hb], hi, rfl⟩
      · rw [if_neg hi] at h
        split at h
        · cases h
        · split at h <;> cases h
    | failure => simp at h
    | invalid => simp at h
    | implement => simp at h

theorem updateSeedP_mode (r : Nat) (dr : DonorR α) (a : AgentP α) (face : List Nat) (rnd : Nat) :
    (updateSeedP r dr a face rnd).2.1.mode ≠ AMode.enclosing ∨ (updateSeedP r dr a face rnd).2.1.mode = a.mode := by
  unfold updateSeedP
  simp only
  split
  · right; rfl
  · split
    · left; simp
    · split
      · left; simp
      · split
        · left; simp
        · right; rfl
  · split
    · right; rfl
    · split <;> right <;> rfl
  · right; rfl

theorem walkIterP_next {r : Nat} {dr : DonorR α} {a a' : AgentP α} {rnd rnd' : Nat}
    (h : walkIterP r dr a rnd = .next a' rnd') : a'.mode ≠ AMode.enclosing ∨ a'.mode = a.mode := by
  unfold walkIterP at h
  cases hca : dr.d.cellAt a.seed with
  | none => simp [hca] at h
  | some n =>
    simp only [hca] at h
    rcases hb : Refine.Model.Interp.baryOf dr.d n a.xyz with ⟨st, b⟩
    rw [hb] at h
    cases st with
    | ok =>
      simp only at h
      split at h
      · cases h
      · split at h
        · cases h
        · rename_i face _
          have hm := updateSeedP_mode r dr a face rnd
          split at h
          · rename_i a'' rnd'' hu
            cases h
            rw [hu] at hm
            exact hm
          · cases h
    | divZero =>
      simp only at h
      split at h
      · cases h
      · split at h
        · cases h
        · rename_i face _
          have hm := updateSeedP_mode r dr a face rnd
          split at h
          · rename_i a'' rnd'' hu
            cases h
            rw [hu] at hm
            exact hm
          · cases h
    | failure => simp at h
    | invalid => simp at h
    | implement => simp at h

/-- `ref_interp_walk_agent` is sound: an agent that was not `ENCLOSING` and comes back `ENCLOSING` holds a valid cell of
    this rank's donor, the weights of ITS target point in that cell, all passing `ref_interp_bary_inside`, copied by the
    loop of the C text; its target point, home and node are untouched -/
theorem walkLoopP_sound (r : Nat) (dr : DonorR α) :
    ∀ (fuel : Nat) (a a' : AgentP α) (rnd rnd' : Nat) (st : ISt), walkLoopP r dr fuel a rnd = (st, a', rnd') →
      a.mode ≠ AMode.enclosing → a'.mode = AMode.enclosing →
      ∃ n b s0, dr.d.cellAt a'.seed = some n ∧ b = (Refine.Model.Interp.baryOf dr.d n a'.xyz).2 ∧ walkInside b = true ∧
        a'.bary = Slots.copyN InterpConsts.walkCopy s0 (storeBary dr.d.twod Slots.unwritten b)
  | 0, a, a', rnd, rnd', st, h, _, he => by
    simp only [walkLoopP, Prod.mk.injEq] at h
    obtain ⟨_, rfl, _⟩ := h
    simp at he
  | fuel + 1, a, a', rnd, rnd', st, h, hm, he => by
    simp only [walkLoopP] at h
    by_cases hw : a.mode = AMode.walking
    · simp only [hw, bne_self_eq_false, Bool.false_eq_true, if_false] at h
      cases hi : walkIterP r dr a rnd with
      | error e =>
        simp only [hi, Prod.mk.injEq] at h
        obtain ⟨_, rfl, _⟩ := h
        exact absurd he hm
      | done a1 =>
        simp only [hi, Prod.mk.injEq] at h
        obtain ⟨_, rfl, _⟩ := h
        obtain ⟨n, b, h1, h2, h3, rfl⟩ := walkIterP_done hi
        exact ⟨n, b, a.bary, h1, h2, h3, rfl⟩
      | next a1 rnd1 =>
        simp only [hi] at h
        refine walkLoopP_sound r dr fuel _ a' rnd1 rnd' st h ?_ he
        simp only
        rcases walkIterP_next hi with h1 | h1
        · exact h1
        · rw [h1, hw]; simp
    · have : (a.mode != AMode.walking) = true := by simp [hw]
      simp only [this, if_true, Prod.mk.injEq] at h
      obtain ⟨_, rfl, _⟩ := h
      exact absurd he hm

/-! ## the five `each_active_ref_agent` loops -/

/-- loop 1 keeps the invariant when every walk that ends `ENCLOSING` carries slots with `P` -/
theorem good_walkAll {r : Nat} {dr : DonorR α} {st st' : RankSt α} (h : Good P P3 st)
    (hwalk : ∀ (a a' : AgentP α) (rnd rnd' : Nat) (e : ISt), walkAgentP r dr a rnd = (e, a', rnd') →
      a.mode = AMode.walking → a'.mode = AMode.enclosing → P a'.bary)
    (hw : walkAll r dr st = .ok st') : Good P P3 st' := by
  unfold walkAll at hw
  refine foldlM_inv (Good P P3) _ ?_ _ st st' h hw
  intro s id s' hs hstep
  try simp only at hstep
  split at hstep
  · rename_i a hget
    split at hstep
    · rename_i hcond
      split at hstep
      · rename_i a' rnd' hwk
        simp only [Except.ok.injEq] at hstep
        subst hstep
        have hmode : a.mode = AMode.walking := by
          simp only [Bool.and_eq_true, beq_iff_eq] at hcond
          exact hcond.1
        exact good_frame hs rfl rfl (agOK_set hs.agents (hwalk a a' s.rnd rnd' _ hwk hmode))
      · cases hstep
    · simp only [Except.ok.injEq] at hstep; subst hstep; exact hs
  · simp only [Except.ok.injEq] at hstep; subst hstep; exact hs

theorem good_hopArrive {r : Nat} {dr : DonorR α} {st st' : RankSt α} (h : Good P P3 st)
    (hw : hopArrive r dr st = .ok st') : Good P P3 st' := by
  unfold hopArrive at hw
  refine foldlM_inv (Good P P3) _ ?_ _ st st' h hw
  intro s id s' hs hstep
  try simp only at hstep
  split at hstep
  · split at hstep
    · split at hstep
      · simp only [Except.ok.injEq] at hstep
        subst hstep
        exact good_frame hs rfl rfl (agOK_set hs.agents (by simp))
      · cases hstep
    · simp only [Except.ok.injEq] at hstep; subst hstep; exact hs
  · simp only [Except.ok.injEq] at hstep; subst hstep; exact hs

theorem good_suggestionArrive {r : Nat} {rc : RecvR α} {st st' : RankSt α} (h : Good P P3 st)
    (hw : suggestionArrive r rc st = .ok st') : Good P P3 st' := by
  unfold suggestionArrive at hw
  refine foldlM_inv (Good P P3) _ ?_ _ st st' h hw
  intro s id s' hs hstep
  try simp only at hstep
  split at hstep
  · split at hstep
    · split at hstep
      · split at hstep
        · simp only [Except.ok.injEq] at hstep
          subst hstep
          exact good_frame hs rfl rfl (agOK_remove hs.agents)
        · simp only [Except.ok.injEq] at hstep
          subst hstep
          exact good_frame hs rfl rfl (agOK_set hs.agents (by simp))
      · cases hstep
    · simp only [Except.ok.injEq] at hstep; subst hstep; exact hs
  · simp only [Except.ok.injEq] at hstep; subst hstep; exact hs

theorem good_giveUp {r : Nat} {rc : RecvR α} {st st' : RankSt α} (h : Good P P3 st)
    (hw : giveUp r rc st = .ok st') : Good P P3 st' := by
  unfold giveUp at hw
  refine foldlM_inv (Good P P3) _ ?_ _ st st' h hw
  intro s id s' hs hstep
  try simp only at hstep
  split at hstep
  · split at hstep
    · split at hstep
      · cases hstep
      · simp only [Except.ok.injEq] at hstep
        subst hstep
        refine good_frame (st := s) hs ?_ ?_ ?_
        · split <;> rfl
        · split <;> rfl
        · refine agOK_remove ?_
          split <;> exact hs.agents
    · simp only [Except.ok.injEq] at hstep; subst hstep; exact hs
  · simp only [Except.ok.injEq] at hstep; subst hstep; exact hs

theorem good_enclose {r : Nat} {rc : RecvR α} {st st' : RankSt α} (h : Good P P3 st)
    (hw : enclose r rc st = .ok st') : Good P P3 st' := by
  unfold enclose at hw
  refine foldlM_inv (Good P P3) _ ?_ _ st st' h hw
  intro s id s' hs hstep
  try simp only at hstep
  split at hstep
  · rename_i a hget
    split at hstep
    · rename_i hcond
      split at hstep
      · cases hstep
      · refine good_pushOntoQueue ?_ hstep
        have hmode : a.mode = AMode.enclosing := by
          simp only [Bool.and_eq_true, beq_iff_eq] at hcond
          exact hcond.1
        obtain ⟨p, hp, hpa⟩ := get?_mem hget
        have hPa : P a.bary := by rw [← hpa]; exact hs.agents p hp (by rw [hpa]; exact hmode)
        have hs2 := good_store (P := P) (P3 := P3) hs a.node.toNat a.seed a.part InterpConsts.processCopy a.bary 2
          (by intro _; rw [processCopy_eq, copyN_four]; exact hPa) (by intro h3; cases h3)
        exact good_frame hs2 rfl rfl (agOK_remove hs2.agents)
    · simp only [Except.ok.injEq] at hstep; subst hstep; exact hs
  · simp only [Except.ok.injEq] at hstep; subst hstep; exact hs

end Generic

end Refine.Lemmas.InterpLocate
