import Refine.Model.Cavity
import Mathlib.Algebra.BigOperators.Group.Finset.Basic
import Mathlib.Algebra.BigOperators.Group.List.Basic
import Mathlib.Tactic.Abel

/-!
  Chain-level lemmas for the cavity machine (`Refine/Model/Cavity.lean`).

  `Alt φ`      : `φ : Node³ → G` is alternating (`φ(b,c,a) = φ(a,b,c)`, `φ(b,a,c) = −φ(a,b,c)`).
  `faceSum φ l`: `Σ_{f∈l} φ f`.
  Part 1: slot bookkeeping (`Slots.Inv`: the blank chain is duplicate-free and points at blank rows);
          `insertFace` changes the face sum by exactly `φ f` (cancellation with the reverse included).
  Part 2: `addTetFaces / addTet / addTets` — theorem (a).
-/
namespace Refine.Lemmas.Cavity
open Refine.Model.Cavity

variable {G : Type} [AddCommGroup G]

/-- alternating maps on ordered node triples -/
structure Alt (φ : Int → Int → Int → G) : Prop where
  rot : ∀ a b c, φ b c a = φ a b c
  swap : ∀ a b c, φ b a c = - φ a b c

/-- vanishing on repeated nodes (automatic when `G` has no 2-torsion) -/
def Diag (φ : Int → Int → Int → G) : Prop := ∀ a b, φ a a b = 0

def φF (φ : Int → Int → Int → G) (f : Face) : G := φ f.n0 f.n1 f.n2

def faceSum (φ : Int → Int → Int → G) (l : List Face) : G := (l.map (φF φ)).sum

/-- value of a row: blank rows count 0 -/
def rowVal (φ : Int → Int → Int → G) : Option Face → G
  | none => 0
  | some f => φF φ f

def rowsSum (φ : Int → Int → Int → G) (rows : List (Option Face)) : G := (rows.map (rowVal φ)).sum

theorem rowsSum_eq_faceSum (φ : Int → Int → Int → G) (rows : List (Option Face)) :
    rowsSum φ rows = faceSum φ rows.reduceOption := by
  induction rows with
  | nil => simp [rowsSum, faceSum, List.reduceOption]
  | cons r t ih =>
    cases r with
    | none =>
      simp only [rowsSum, faceSum, List.reduceOption, List.map_cons, List.sum_cons, rowVal, zero_add,
        List.filterMap_cons, id] at *
      exact ih
    | some f =>
      simp only [rowsSum, faceSum, List.reduceOption, List.map_cons, List.sum_cons, rowVal,
        List.filterMap_cons, id] at *
      rw [ih]

theorem rowsSum_set (φ : Int → Int → Int → G) (rows : List (Option Face)) (i : Nat) (x : Option Face)
    (hi : i < rows.length) :
    rowsSum φ (rows.set i x) = rowsSum φ rows - rowVal φ (rows.getD i none) + rowVal φ x := by
  induction rows generalizing i with
  | nil => simp at hi
  | cons r t ih =>
    cases i with
    | zero => simp [rowsSum]; abel
    | succ j =>
      have hj : j < t.length := by simpa using hi
      have := ih j hj
      simp only [rowsSum, List.set_cons_succ, List.map_cons, List.sum_cons, List.getD_cons_succ] at *
      rw [this]; abel

theorem rowsSum_append_blank (φ : Int → Int → Int → G) (rows : List (Option Face)) (k : Nat) :
    rowsSum φ (rows ++ List.replicate k none) = rowsSum φ rows := by
  simp [rowsSum, rowVal]

/-! ### sameAs / revOf -/

theorem sameAs_val {φ : Int → Int → Int → G} (hφ : Alt φ) {f g : Face} (h : f.sameAs g = true) :
    φF φ f = φF φ g := by
  simp only [Face.sameAs, Bool.or_eq_true, Bool.and_eq_true, beq_iff_eq] at h
  simp only [φF]
  rcases h with (⟨⟨h0, h1⟩, h2⟩ | ⟨⟨h0, h1⟩, h2⟩) | ⟨⟨h0, h1⟩, h2⟩
  · rw [h0, h1, h2]
  · rw [← h0, ← h1, ← h2]; exact (hφ.rot _ _ _).symm
  · rw [← h0, ← h1, ← h2, hφ.rot]

theorem revOf_val {φ : Int → Int → Int → G} (hφ : Alt φ) {f g : Face} (h : f.revOf g = true) :
    φF φ g = - φF φ f := by
  simp only [Face.revOf, Bool.or_eq_true, Bool.and_eq_true, beq_iff_eq] at h
  simp only [φF]
  rcases h with (⟨⟨h0, h1⟩, h2⟩ | ⟨⟨h0, h1⟩, h2⟩) | ⟨⟨h0, h1⟩, h2⟩
  · -- g = (f2,f1,f0)
    rw [← h0, ← h1, ← h2, ← hφ.rot f.n0 f.n1 f.n2, hφ.swap]
  · -- g = (f1,f0,f2)
    rw [← h0, ← h1, ← h2, hφ.swap]
  · -- g = (f0,f2,f1)
    rw [← h0, ← h1, ← h2, ← hφ.rot f.n0 f.n2 f.n1, hφ.swap, hφ.rot]

/-! ### findFace -/

theorem findFaceAux_spec (f : Face) (rows : List (Option Face)) (k i : Nat) (r : Bool)
    (h : findFaceAux f rows k = some (i, r)) :
    k ≤ i ∧ i - k < rows.length ∧ ∃ g, rows.getD (i - k) none = some g ∧
      (r = true → f.revOf g = true) ∧ (r = false → f.sameAs g = true) := by
  induction rows generalizing k with
  | nil => simp [findFaceAux] at h
  | cons x t ih =>
    cases x with
    | none =>
      simp only [findFaceAux] at h
      obtain ⟨h1, h2, g, hg, hr⟩ := ih (k + 1) h
      refine ⟨by omega, by simp only [List.length_cons]; omega, g, ?_, hr⟩
      have : i - k = (i - (k + 1)) + 1 := by omega
      rw [this, List.getD_cons_succ]; exact hg
    | some g0 =>
      simp only [findFaceAux] at h
      split at h
      · next hs =>
        simp only [Option.some.injEq, Prod.mk.injEq] at h
        obtain ⟨rfl, rfl⟩ := h
        exact ⟨le_refl _, by simp, g0, by simp, by simp, fun _ => hs⟩
      · split at h
        · next hs hr =>
          simp only [Option.some.injEq, Prod.mk.injEq] at h
          obtain ⟨rfl, rfl⟩ := h
          exact ⟨le_refl _, by simp, g0, by simp, fun _ => hr, by simp⟩
        · obtain ⟨h1, h2, g, hg, hr⟩ := ih (k + 1) h
          refine ⟨by omega, by simp only [List.length_cons]; omega, g, ?_, hr⟩
          have : i - k = (i - (k + 1)) + 1 := by omega
          rw [this, List.getD_cons_succ]; exact hg

theorem findFace_spec (s : Slots Face) (f : Face) (i : Nat) (r : Bool) (h : findFace s f = some (i, r)) :
    i < s.rows.length ∧ ∃ g, s.rows.getD i none = some g ∧
      (r = true → f.revOf g = true) ∧ (r = false → f.sameAs g = true) := by
  have := findFaceAux_spec f s.rows 0 i r h
  simpa using this.2

/-! ### the blank-chain invariant -/

/-- the blank chain is duplicate-free and every entry is the index of a blank row -/
structure SlotsInv {α : Type} (s : Slots α) : Prop where
  nodup : s.blank.Nodup
  blank : ∀ i ∈ s.blank, i < s.rows.length ∧ s.rows.getD i none = none

theorem SlotsInv.create {α : Type} (n : Nat) : SlotsInv (Slots.create n : Slots α) := by
  refine ⟨List.nodup_range, ?_⟩
  intro i hi
  simp only [Slots.create, List.mem_range] at hi
  simp [Slots.create, hi, List.getD_eq_getElem?_getD]

theorem SlotsInv.grow {α : Type} {s : Slots α} (h : SlotsInv s) (m : Nat) : SlotsInv (s.grow m) := by
  unfold Slots.grow
  split
  · refine ⟨?_, ?_⟩
    · simp only
      exact (List.nodup_range).map (fun a b hab => by omega)
    · intro i hi
      simp only [List.mem_map, List.mem_range] at hi
      obtain ⟨k, hk, rfl⟩ := hi
      simp only [List.length_append, List.length_replicate]
      refine ⟨by omega, ?_⟩
      rw [List.getD_eq_getElem?_getD, List.getElem?_append_right (by omega)]
      simp [hk]
  · exact h

theorem grow_blank_ne {α : Type} (s : Slots α) (m : Nat) (hm : 0 < m) : (s.grow m).blank ≠ [] := by
  unfold Slots.grow
  split
  · simp only [ne_eq, List.map_eq_nil_iff, List.range_eq_nil]
    have : 0 < Nat.max m (s.rows.length + s.rows.length / 2) := lt_of_lt_of_le hm (Nat.le_max_left _ _)
    omega
  · next h => simp [h]


/-! ### insertFace -/

/-- everything `insertFace` leaves alone -/
def SameButFaces (c c' : Cav) : Prop :=
  c'.state = c.state ∧ c'.node = c.node ∧ c'.surfNode = c.surfNode ∧ c'.segs = c.segs ∧
  c'.tetList = c.tetList ∧ c'.triList = c.triList

theorem insertFace_spec {φ : Int → Int → Int → G} (hφ : Alt φ) (c c' : Cav) (f : Face)
    (hinv : SlotsInv c.faces) (h : insertFace c f = (.ok, c')) :
    SlotsInv c'.faces ∧ SameButFaces c c' ∧
    rowsSum φ c'.faces.rows = rowsSum φ c.faces.rows + φF φ f ∧
    (∀ x ∈ c'.validFaces, x ∈ c.validFaces ∨ x = f) := by
  unfold insertFace at h
  split at h
  · -- reversed face present: cancel
    next i hfind =>
    obtain ⟨hi, g, hg, hr, _⟩ := findFace_spec _ _ _ _ hfind
    simp only [Prod.mk.injEq, true_and] at h
    subst h
    have hnot : i ∉ c.faces.blank := by
      intro hmem
      have := (hinv.blank i hmem).2
      rw [hg] at this; cases this
    refine ⟨⟨?_, ?_⟩, ⟨rfl, rfl, rfl, rfl, rfl, rfl⟩, ?_, ?_⟩
    · simp only [Slots.remove, List.nodup_cons]; exact ⟨hnot, hinv.nodup⟩
    · intro j hj
      simp only [Slots.remove, List.mem_cons] at hj
      simp only [Slots.remove, List.length_set]
      rcases hj with rfl | hj
      · exact ⟨hi, by simp [List.getD_eq_getElem?_getD, hi]⟩
      · refine ⟨(hinv.blank j hj).1, ?_⟩
        have := (hinv.blank j hj).2
        rw [List.getD_eq_getElem?_getD, List.getElem?_set]
        split
        · simp
        · rw [← List.getD_eq_getElem?_getD]; exact this
    · simp only [Slots.remove]
      rw [rowsSum_set φ _ _ _ hi, hg]
      simp only [rowVal, revOf_val hφ (hr rfl)]
      abel
    · intro x hx
      left
      simp only [Cav.validFaces, Slots.valid, Slots.remove, List.reduceOption, List.mem_filterMap, id] at hx ⊢
      obtain ⟨a, ha, rfl⟩ := hx
      rcases List.mem_or_eq_of_mem_set ha with h1 | h1
      · exact ⟨_, h1, rfl⟩
      · cases h1
  · simp at h
  · -- not found: take a blank row
    simp only [Prod.mk.injEq, true_and] at h
    subst h
    have hgi := SlotsInv.grow hinv 100
    have hne := grow_blank_ne c.faces 100 (by decide)
    simp only [Slots.add]
    cases hb : (c.faces.grow 100).blank with
    | nil => exact absurd hb hne
    | cons i rest =>
      have hnd := hgi.nodup
      rw [hb] at hnd
      have hi := hgi.blank i (by rw [hb]; simp)
      have hsum : rowsSum φ (c.faces.grow 100).rows = rowsSum φ c.faces.rows := by
        unfold Slots.grow; split
        · exact rowsSum_append_blank φ _ _
        · rfl
      have hmem : ∀ x, some x ∈ (c.faces.grow 100).rows → some x ∈ c.faces.rows := by
        intro x hx
        unfold Slots.grow at hx; split at hx
        · simp only [List.mem_append, List.mem_replicate] at hx
          rcases hx with hx | ⟨_, hx⟩
          · exact hx
          · cases hx
        · exact hx
      refine ⟨⟨(List.nodup_cons.mp hnd).2, ?_⟩, ⟨rfl, rfl, rfl, rfl, rfl, rfl⟩, ?_, ?_⟩
      · intro j hj
        simp only [List.length_set]
        have hj' := hgi.blank j (by rw [hb]; exact List.mem_cons_of_mem _ hj)
        refine ⟨hj'.1, ?_⟩
        have hne : i ≠ j := by
          intro e; subst e; exact (List.nodup_cons.mp hnd).1 hj
        rw [List.getD_eq_getElem?_getD, List.getElem?_set_ne hne, ← List.getD_eq_getElem?_getD]
        exact hj'.2
      · simp only
        rw [rowsSum_set φ _ _ _ hi.1, hi.2, hsum]
        simp [rowVal]
      · intro x hx
        simp only [Cav.validFaces, Slots.valid, List.reduceOption, List.mem_filterMap, id] at hx ⊢
        obtain ⟨a, ha, rfl⟩ := hx
        rcases List.mem_or_eq_of_mem_set ha with h1 | h1
        · left; exact ⟨_, hmem _ h1, rfl⟩
        · right; exact Option.some.inj h1

theorem insertFace_status (c : Cav) (f : Face) : (insertFace c f).1 = .ok ∨ (insertFace c f).1 = .invalid := by
  unfold insertFace; split <;> simp

/-! ### add_tet : theorem (a) -/

/-- invariants carried along a sequence of insertions: face sum, slot invariant, untouched fields -/
structure Step (φ : Int → Int → Int → G) (c c' : Cav) (delta : G) : Prop where
  inv : SlotsInv c'.faces
  sum : rowsSum φ c'.faces.rows = rowsSum φ c.faces.rows + delta
  segs : c'.segs = c.segs
  node : c'.node = c.node

theorem insertFace_state (c : Cav) (f : Face) : (insertFace c f).2.state = c.state := by
  unfold insertFace; split <;> rfl

theorem addTetFaces_state {α : Type} (g : Grid α) (fs : List Face) (c c' : Cav) (s : St)
    (h : addTetFaces g c fs = (s, c')) (hs : c'.state = .unknown) : c.state = .unknown := by
  induction fs generalizing c with
  | nil => simp only [addTetFaces, Prod.mk.injEq] at h; rw [← h.2] at hs; exact hs
  | cons f t ih =>
    unfold addTetFaces at h
    split at h
    · simp only [Prod.mk.injEq] at h; rw [← h.2] at hs; simp at hs
    · rcases hins : insertFace c f with ⟨s1, c1⟩
      have hst : c1.state = c.state := by have := insertFace_state c f; rw [hins] at this; exact this
      rw [hins] at h
      cases s1 <;> simp only [] at h
      case ok =>
        split at h
        · simp only [Prod.mk.injEq] at h; rw [← h.2] at hs; rw [← hst]; exact hs
        · rw [← hst]; exact ih c1 h
      all_goals (simp only [Prod.mk.injEq] at h; rw [← h.2] at hs; rw [← hst]; exact hs)

theorem addTet_state {α : Type} (g : Grid α) (cell : Int) (c c' : Cav) (s : St)
    (h : addTet g c cell = (s, c')) (hs : c'.state = .unknown) : c.state = .unknown := by
  unfold addTet at h
  split at h
  · simp only [Prod.mk.injEq] at h; rw [← h.2] at hs; exact hs
  · split at h
    · simp only [Prod.mk.injEq] at h; rw [← h.2] at hs; exact hs
    · exact addTetFaces_state g _ { c with tetList := c.tetList ++ [cell] } c' s h hs

theorem addTets_state {α : Type} (g : Grid α) (cells : List Int) (c c' : Cav) (s : St)
    (h : addTets g c cells = (s, c')) (hs : c'.state = .unknown) : c.state = .unknown := by
  induction cells generalizing c with
  | nil => simp only [addTets, Prod.mk.injEq] at h; rw [← h.2] at hs; exact hs
  | cons t rest ih =>
    unfold addTets at h
    rcases h1 : addTet g c t with ⟨s1, c1⟩
    rw [h1] at h
    cases s1 <;> simp only [] at h
    case ok => exact addTet_state g t c c1 _ h1 (ih c1 h)
    all_goals (simp only [Prod.mk.injEq] at h; exact addTet_state g t c c1 _ h1 (h.2 ▸ hs))

theorem addTetFaces_spec {α : Type} {φ : Int → Int → Int → G} (hφ : Alt φ) (g : Grid α) (fs : List Face)
    (c c' : Cav) (hinv : SlotsInv c.faces) (h : addTetFaces g c fs = (.ok, c')) (hs : c'.state = .unknown) :
    Step φ c c' (faceSum φ fs) ∧ c'.tetList = c.tetList ∧
    (∀ x ∈ c'.validFaces, x ∈ c.validFaces ∨ x ∈ fs) := by
  induction fs generalizing c with
  | nil =>
    simp only [addTetFaces, Prod.mk.injEq, true_and] at h; subst h
    exact ⟨⟨hinv, by simp [faceSum], rfl, rfl⟩, rfl, fun x hx => Or.inl hx⟩
  | cons f t ih =>
    unfold addTetFaces at h
    split at h
    · simp only [Prod.mk.injEq, true_and] at h; subst h; simp at hs
    · rcases hins : insertFace c f with ⟨s1, c1⟩
      rw [hins] at h
      cases s1 <;> simp only [] at h
      case ok =>
        obtain ⟨hinv1, ⟨hst, hnode, _, hsegs, htl, _⟩, hsum1, hmem1⟩ := insertFace_spec hφ c c1 f hinv hins
        split at h
        · next hne =>
          simp only [Prod.mk.injEq, true_and] at h; subst h; exact absurd hs hne
        · obtain ⟨st, htl2, hmem2⟩ := ih c1 hinv1 h
          refine ⟨⟨st.inv, ?_, st.segs.trans hsegs, st.node.trans hnode⟩, htl2.trans htl, ?_⟩
          · rw [st.sum, hsum1]; simp only [faceSum, List.map_cons, List.sum_cons]; abel
          · intro x hx
            rcases hmem2 x hx with h1 | h1
            · rcases hmem1 x h1 with h2 | h2
              · exact Or.inl h2
              · exact Or.inr (h2 ▸ List.mem_cons_self)
            · exact Or.inr (List.mem_cons_of_mem _ h1)
      all_goals (simp only [Prod.mk.injEq] at h; exact absurd h.1 (by decide))

/-- signed boundary of the tet stored in cell `cell` (0 for an invalid cell) -/
def tetBd {α : Type} (φ : Int → Int → Int → G) (g : Grid α) (cell : Int) : G :=
  match g.tets.get? cell with
  | some t => faceSum φ (tetFaces t)
  | none => 0

/-- the faces of the listed cells -/
def cellFaces {α : Type} (g : Grid α) (cells : List Int) : List Face :=
  cells.flatMap fun cell => match g.tets.get? cell with | some t => tetFaces t | none => []

theorem addTet_spec {α : Type} {φ : Int → Int → Int → G} (hφ : Alt φ) (g : Grid α) (cell : Int)
    (c c' : Cav) (hinv : SlotsInv c.faces) (h : addTet g c cell = (.ok, c')) (hs : c'.state = .unknown) :
    ∃ new, c'.tetList = c.tetList ++ new ∧ Step φ c c' ((new.map (tetBd φ g)).sum) ∧
      (∀ x ∈ c'.validFaces, x ∈ c.validFaces ∨ x ∈ cellFaces g new) ∧
      (∀ cell ∈ new, ∃ t, g.tets.get? cell = some t) := by
  unfold addTet at h
  split at h
  · simp at h
  · next tet hget =>
    split at h
    · simp only [Prod.mk.injEq, true_and] at h; subst h
      exact ⟨[], by simp, ⟨hinv, by simp, rfl, rfl⟩, fun x hx => Or.inl hx, by simp⟩
    · obtain ⟨st, htl, hmem⟩ :=
        addTetFaces_spec hφ g (tetFaces tet) { c with tetList := c.tetList ++ [cell] } c' hinv h hs
      refine ⟨[cell], htl, ⟨st.inv, ?_, st.segs, st.node⟩, ?_, ?_⟩
      · rw [st.sum]; simp [tetBd, hget]
      · intro x hx
        rcases hmem x hx with h1 | h1
        · exact Or.inl h1
        · right; simp [cellFaces, hget, h1]
      · intro x hx; simp only [List.mem_singleton] at hx; subst hx; exact ⟨tet, hget⟩

theorem addTets_spec {α : Type} {φ : Int → Int → Int → G} (hφ : Alt φ) (g : Grid α) (cells : List Int)
    (c c' : Cav) (hinv : SlotsInv c.faces) (h : addTets g c cells = (.ok, c')) (hs : c'.state = .unknown) :
    ∃ new, c'.tetList = c.tetList ++ new ∧ Step φ c c' ((new.map (tetBd φ g)).sum) ∧
      (∀ x ∈ c'.validFaces, x ∈ c.validFaces ∨ x ∈ cellFaces g new) ∧
      (∀ cell ∈ new, ∃ t, g.tets.get? cell = some t) := by
  induction cells generalizing c with
  | nil =>
    simp only [addTets, Prod.mk.injEq, true_and] at h; subst h
    exact ⟨[], by simp, ⟨hinv, by simp, rfl, rfl⟩, fun x hx => Or.inl hx, by simp⟩
  | cons t rest ih =>
    unfold addTets at h
    rcases h1 : addTet g c t with ⟨s1, c1⟩
    rw [h1] at h
    cases s1 <;> simp only [] at h
    case ok =>
      have hs1 : c1.state = .unknown := addTets_state g rest c1 c' _ h hs
      obtain ⟨n1, htl1, st1, hm1, hv1⟩ := addTet_spec hφ g t c c1 hinv h1 hs1
      obtain ⟨n2, htl2, st2, hm2, hv2⟩ := ih c1 st1.inv h
      refine ⟨n1 ++ n2, by rw [htl2, htl1, List.append_assoc], ⟨st2.inv, ?_, st2.segs.trans st1.segs,
        st2.node.trans st1.node⟩, ?_, ?_⟩
      rotate_left 2
      · intro x hx
        rcases List.mem_append.mp hx with h | h
        · exact hv1 x h
        · exact hv2 x h
      · rw [st2.sum, st1.sum]; simp only [List.map_append, List.sum_append]; abel
      · intro x hx
        rcases hm2 x hx with h2 | h2
        · rcases hm1 x h2 with h3 | h3
          · exact Or.inl h3
          · right; simp only [cellFaces, List.flatMap_append, List.mem_append]; exact Or.inl h3
        · right; simp only [cellFaces, List.flatMap_append, List.mem_append]; exact Or.inr h2
    all_goals (simp only [Prod.mk.injEq] at h; exact absurd h.1 (by decide))

end Refine.Lemmas.Cavity
