import Refine.Lemmas.Mixed

/-!
  Frame lemmas for `Refine/Model/Mixed.lean`: each guarded operator leaves the four non-simplex groups and the
  validity / coordinates of their vertices unchanged.
-/
namespace Refine.MixedLemmas
open Refine Refine.Model Refine.Model.Guards Refine.Model.Mixed Refine.GuardsRules

variable {P : Type}

/-! ## coordinate lookups -/

theorem find_append_ne (pts : List (Nat × P)) {n new : Nat} (p : P) (h : n ≠ new) :
    (pts ++ [(new, p)]).find? (fun q => q.1 == n) = pts.find? (fun q => q.1 == n) := by
  rw [List.find?_append]
  have hb : (new == n) = false := beq_false_of_ne (Ne.symm h)
  have : [(new, p)].find? (fun q => q.1 == n) = none := by
    show (match (new == n) with | true => some (new, p) | false => none) = none
    rw [hb]
  rw [this, Option.or_none]

theorem find_filter_keep (pts : List (Nat × P)) (keep : Nat × P → Bool) (n : Nat)
    (h : ∀ q ∈ pts, q.1 = n → keep q = true) :
    (pts.filter keep).find? (fun q => q.1 == n) = pts.find? (fun q => q.1 == n) := by
  induction pts with
  | nil => rfl
  | cons q rest ih =>
    have ih' := ih fun q' hq' => h q' (List.mem_cons_of_mem _ hq')
    by_cases hk : keep q = true
    · rw [List.filter_cons_of_pos hk, List.find?_cons, List.find?_cons, ih']
    · have hne : ¬ q.1 = n := fun e => hk (h q List.mem_cons_self e)
      have hb : (q.1 == n) = false := beq_false_of_ne hne
      rw [List.filter_cons_of_neg hk, List.find?_cons, ih', hb]

theorem find_map_move (pts : List (Nat × P)) (node n : Nat) (p : P) (h : n ≠ node) :
    (pts.map fun q => if q.1 == node then (q.1, p) else q).find? (fun q => q.1 == n) =
      pts.find? (fun q => q.1 == n) := by
  induction pts with
  | nil => rfl
  | cons q rest ih =>
    rw [List.map_cons, List.find?_cons, List.find?_cons, ih]
    by_cases hq : (q.1 == node) = true
    · have hqn : q.1 = node := by simpa using hq
      have : ¬ q.1 = n := fun e => h (e ▸ hqn)
      have hb : (q.1 == n) = false := beq_false_of_ne this
      simp only [hq, if_true, hb]
    · simp only [hq, Bool.false_eq_true, if_false]

theorem valid_iff_xyz (m : Mesh P) (n : Nat) : m.valid n = true ↔ (m.xyz? n).isSome = true := by
  unfold Mesh.valid Mesh.xyz?
  rw [Option.isSome_map, List.find?_isSome, List.any_eq_true]

theorem mem_frozenNodes (m : Mesh P) (n : Nat) : n ∈ m.frozenNodes ↔ OnFrozen m.g n := by
  unfold Mesh.frozenNodes Mesh.frozenCells OnFrozen
  simp only [List.mem_flatMap, List.mem_append]
  constructor
  · rintro ⟨c, (((hc | hc) | hc) | hc), hn⟩
    · exact ⟨c, Or.inl hc, hn⟩
    · exact ⟨c, Or.inr (Or.inl hc), hn⟩
    · exact ⟨c, Or.inr (Or.inr (Or.inl hc)), hn⟩
    · exact ⟨c, Or.inr (Or.inr (Or.inr hc)), hn⟩
  · rintro ⟨c, (hc | hc | hc | hc), hn⟩
    · exact ⟨c, Or.inl (Or.inl (Or.inl hc)), hn⟩
    · exact ⟨c, Or.inl (Or.inl (Or.inr hc)), hn⟩
    · exact ⟨c, Or.inl (Or.inr hc), hn⟩
    · exact ⟨c, Or.inr hc, hn⟩

/-- every vertex of a frozen cell is a valid node -/
def FrozenValid (m : Mesh P) : Prop := ∀ n ∈ m.frozenNodes, m.valid n = true

/-- same non-simplex groups -/
def SameFrozenGroups (g' g : Grid) : Prop := g'.qua = g.qua ∧ g'.pyr = g.pyr ∧ g'.pri = g.pri ∧ g'.hex = g.hex

theorem SameFrozenGroups.refl (g : Grid) : SameFrozenGroups g g := ⟨rfl, rfl, rfl, rfl⟩

theorem frozenNodes_eq {m' m : Mesh P} (hg : SameFrozenGroups m'.g m.g) : m'.frozenNodes = m.frozenNodes := by
  unfold Mesh.frozenNodes Mesh.frozenCells
  rw [hg.1, hg.2.1, hg.2.2.1, hg.2.2.2]

theorem frozen_eq_of {m' m : Mesh P} (hg : SameFrozenGroups m'.g m.g)
    (hx : ∀ n ∈ m.frozenNodes, m'.xyz? n = m.xyz? n) : m'.frozen = m.frozen := by
  unfold Mesh.frozen
  rw [frozenNodes_eq hg, hg.1, hg.2.1, hg.2.2.1, hg.2.2.2]
  congr 1
  apply List.map_congr_left
  intro n hn
  rw [hx n hn]

theorem frozenValid_of_frozen_eq {m' m : Mesh P} (h : m'.frozen = m.frozen) (hv : FrozenValid m) : FrozenValid m' := by
  unfold Mesh.frozen at h
  have hn : m'.frozenNodes = m.frozenNodes := by
    have := congrArg (fun x => x.2.map (·.1)) h
    simpa [List.map_map, Function.comp_def] using this
  intro n hnm
  rw [hn] at hnm
  rw [valid_iff_xyz]
  have h2 := congrArg Prod.snd h
  simp only at h2
  rw [hn] at h2
  have hx : m'.xyz? n = m.xyz? n := by
    have := List.map_inj_left.mp h2 n hnm
    exact (Prod.mk.inj this).2
  rw [hx, ← valid_iff_xyz]
  exact hv n hnm

/-! ## the kernels touch tet / tri / edg rows only -/

theorem splitCells_groups (g : Grid) (n0 n1 new : Nat) : SameFrozenGroups (splitCells g n0 n1 new).2 g := by
  unfold splitCells SameFrozenGroups
  dsimp only
  split_ifs <;> exact ⟨rfl, rfl, rfl, rfl⟩

theorem collapseCells_groups (g : Grid) (n0 n1 : Nat) : SameFrozenGroups (Collapse.collapseEdge g n0 n1).2 g := by
  unfold Collapse.collapseEdge SameFrozenGroups
  dsimp only
  split_ifs <;> exact ⟨rfl, rfl, rfl, rfl⟩

theorem swapCells_groups (g : Grid) (n0 n1 : Nat) : SameFrozenGroups (swapCells g n0 n1).2 g := by
  unfold swapCells SameFrozenGroups
  split <;> (try split) <;> exact ⟨rfl, rfl, rfl, rfl⟩

/-! ## frames of the operators -/

theorem addNode_frame (m : Mesh P) (new : Nat) (p : P) (hv : FrozenValid m) :
    (addNode m new p).2.g = m.g ∧ ∀ n ∈ m.frozenNodes, (addNode m new p).2.xyz? n = m.xyz? n := by
  unfold addNode
  by_cases h : m.valid new = true
  · rw [if_pos h]
    exact ⟨rfl, fun _ _ => rfl⟩
  · rw [if_neg h]
    refine ⟨rfl, ?_⟩
    intro n hn
    have hne : n ≠ new := fun e => h (e ▸ hv n hn)
    unfold Mesh.xyz?
    simp only
    rw [find_append_ne _ _ hne]

theorem splitEdge_frame (m : Mesh P) (n0 n1 new : Nat) (p : P) (hv : FrozenValid m) :
    (splitEdge m n0 n1 new p).2.frozen = m.frozen := by
  have ha := addNode_frame m new p hv
  unfold splitEdge
  dsimp only
  by_cases h : (addNode m new p).1 ≠ .ok
  · rw [if_pos h]
    exact frozen_eq_of (by rw [ha.1]; exact SameFrozenGroups.refl _) ha.2
  · rw [if_neg h]
    refine frozen_eq_of (m := m) ?_ ?_
    · have := splitCells_groups (addNode m new p).2.g n0 n1 new
      rw [ha.1] at this ⊢
      exact this
    · intro n hn
      exact ha.2 n hn

theorem removeNode_frame (m : Mesh P) (n1 : Nat) (hfree : n1 ∉ m.frozenNodes) :
    (removeNode m n1).2.g = m.g ∧ ∀ n ∈ m.frozenNodes, (removeNode m n1).2.xyz? n = m.xyz? n := by
  unfold removeNode
  by_cases h : m.valid n1 = true
  · rw [if_pos h]
    refine ⟨rfl, ?_⟩
    intro n hn
    have hne : n ≠ n1 := fun e => hfree (e ▸ hn)
    unfold Mesh.xyz?
    simp only
    rw [find_filter_keep]
    intro q _ hq
    have : ¬ q.1 = n1 := fun e => hne (hq ▸ e)
    simp [this]
  · rw [if_neg h]
    exact ⟨rfl, fun _ _ => rfl⟩

theorem collapseEdge_frame (m : Mesh P) (n0 n1 : Nat) (hfree : n1 ∉ m.frozenNodes) :
    (collapseEdge m n0 n1).2.frozen = m.frozen := by
  unfold collapseEdge
  dsimp only
  have hg := collapseCells_groups m.g n0 n1
  by_cases h : (Collapse.collapseEdge m.g n0 n1).1 ≠ .ok
  · rw [if_pos h]
    exact frozen_eq_of (m := m) hg fun n _ => rfl
  · rw [if_neg h]
    let m1 : Mesh P := { m with g := (Collapse.collapseEdge m.g n0 n1).2 }
    have hn1 : m1.frozenNodes = m.frozenNodes := frozenNodes_eq hg
    have hr := removeNode_frame m1 n1 (by rw [hn1]; exact hfree)
    refine frozen_eq_of (m' := (removeNode m1 n1).2) (m := m) ?_ ?_
    · rw [hr.1]
      exact hg
    · intro n hn
      have := hr.2 n (by rw [hn1]; exact hn)
      exact this

theorem swapTriEdge_frame (m : Mesh P) (n0 n1 : Nat) : (swapTriEdge m n0 n1).2.frozen = m.frozen := by
  unfold swapTriEdge
  exact frozen_eq_of (swapCells_groups m.g n0 n1) fun n _ => rfl

theorem moveNode_frame (m : Mesh P) (node : Nat) (p : P) (hfree : node ∉ m.frozenNodes) :
    (moveNode m node p).frozen = m.frozen := by
  refine frozen_eq_of (m' := moveNode m node p) (m := m) ⟨rfl, rfl, rfl, rfl⟩ ?_
  intro n hn
  have hne : n ≠ node := fun e => hfree (e ▸ hn)
  unfold moveNode Mesh.xyz?
  simp only
  rw [find_map_move _ _ _ _ hne]

/-- the vertices `ref_cavity_replace` drops -/
def cavityGone (m : Mesh P) (delTet delTri newTet newTri : List Cell) : List Nat :=
  ((delTet ++ delTri).flatMap (·.nodes)).filter fun n =>
    nodeEmpty (eraseAll (m.g.tri ++ newTri) delTri) n && nodeEmpty (eraseAll (m.g.tet ++ newTet) delTet) n

theorem cavityReplace_frame (m : Mesh P) (dt dr nt nr : List Cell)
    (hsafe : ∀ n ∈ m.frozenNodes, n ∉ cavityGone m dt dr nt nr) :
    (cavityReplace m dt dr nt nr).frozen = m.frozen := by
  refine frozen_eq_of (m' := cavityReplace m dt dr nt nr) (m := m) ⟨rfl, rfl, rfl, rfl⟩ ?_
  intro n hn
  unfold cavityReplace Mesh.xyz?
  simp only
  rw [find_filter_keep]
  intro q _ hq
  have hgone : n ∉ cavityGone m dt dr nt nr := hsafe n hn
  rw [hq]
  show (!(cavityGone m dt dr nt nr).contains n) = true
  simpa using hgone

end Refine.MixedLemmas
