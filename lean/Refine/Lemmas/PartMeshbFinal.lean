import Refine.Lemmas.PartMeshbWorld

/-! `distribute` in closed form: the world when `ref_part_meshb` reaches the orientation pass -/
namespace Refine.Lemmas.PartMeshb
open Refine.Model.Meshb Refine.Model.PartMeshb
open Refine.Model.Comm (World)
open Refine.Gen.PartMacros

/-! ### the groups as `placeGroups` sees them -/

theorem getElem?_groupsOf_iff (p : Parsed) (i : Nat) (t : CellInfo × Nat × List (List Cell)) :
    (groupsOf p)[i]? = some t ↔ cellInfos[i]? = some t.1 ∧ t.2.1 = i ∧ p.groups[i]? = some t.2.2 := by
  unfold groupsOf
  rw [List.getElem?_map, Option.map_eq_some_iff]
  constructor
  · rintro ⟨⟨⟨ci, k⟩, chs⟩, hx, rfl⟩
    rw [List.getElem?_zip_eq_some, List.getElem?_zipIdx, Option.map_eq_some_iff] at hx
    obtain ⟨⟨a, ha, hak⟩, hg⟩ := hx
    simp only [Prod.mk.injEq] at hak
    obtain ⟨rfl, hk⟩ := hak
    exact ⟨ha, by show k = i; omega, hg⟩
  · rintro ⟨h1, h2, h3⟩
    obtain ⟨ci, k, chs⟩ := t
    simp only at h1 h2 h3
    subst h2
    refine ⟨((ci, k), chs), ?_, rfl⟩
    rw [List.getElem?_zip_eq_some, List.getElem?_zipIdx, Option.map_eq_some_iff]
    exact ⟨⟨ci, h1, by simp⟩, h3⟩

theorem mem_groupsOf {p : Parsed} {t : CellInfo × Nat × List (List Cell)} (h : t ∈ groupsOf p) :
    cellInfos[t.2.1]? = some t.1 ∧ p.groups[t.2.1]? = some t.2.2 ∧ (t.1, t.2.2) ∈ cellInfos.zip p.groups := by
  obtain ⟨i, hi⟩ := List.mem_iff_getElem?.1 h
  obtain ⟨h1, h2, h3⟩ := (getElem?_groupsOf_iff p i t).1 hi
  subst h2
  exact ⟨h1, h3, List.mem_iff_getElem?.2 ⟨t.2.1, List.getElem?_zip_eq_some.2 ⟨h1, h3⟩⟩⟩

theorem groupsOf_keys_nodup (p : Parsed) : ((groupsOf p).map (·.2.1)).Nodup := by
  rw [List.nodup_iff_getElem?_ne_getElem?]
  intro i j hij hj
  rw [List.length_map] at hj
  have hi : i < (groupsOf p).length := by omega
  rw [List.getElem?_map, List.getElem?_map, List.getElem?_eq_getElem hi, List.getElem?_eq_getElem hj]
  simp only [Option.map_some, ne_eq, Option.some.injEq]
  have h1 := ((getElem?_groupsOf_iff p i _).1 (List.getElem?_eq_getElem hi)).2.1
  have h2 := ((getElem?_groupsOf_iff p j _).1 (List.getElem?_eq_getElem hj)).2.1
  omega

/-- the cells of group `j` on rank `r` when the reader is done, in local order, as stored -/
def finalGroup (N : Int) (np : Nat) (p : Parsed) (j r : Nat) : List Cell :=
  match cellInfos[j]?, p.groups[j]? with
  | some ci, some chs => (finalRaw N np ci r chs.flatten).map (norm ci)
  | _, _ => []

theorem finalG_groupsOf (N : Int) (np : Nat) (p : Parsed) :
    finalG N np (groupsOf p) (fun _ _ => []) = finalGroup N np p := by
  funext j r
  unfold finalG finalGroup
  cases hf : (groupsOf p).find? (fun t => t.2.1 == j) with
  | some t =>
    have hk := List.find?_some hf
    have hm := List.mem_of_find?_eq_some hf
    simp only [beq_iff_eq] at hk
    obtain ⟨h1, h2, _⟩ := mem_groupsOf hm
    rw [hk] at h1 h2
    simp only [h1, h2]
  | none =>
    rw [List.find?_eq_none] at hf
    cases h1 : cellInfos[j]? with
    | none => rfl
    | some ci =>
      cases h2 : p.groups[j]? with
      | none => rfl
      | some chs =>
        exfalso
        have : (groupsOf p)[j]? = some (ci, j, chs) := (getElem?_groupsOf_iff p j _).2 ⟨h1, rfl, h2⟩
        exact hf _ (List.mem_iff_getElem?.2 ⟨j, this⟩) (by simp)

/-! ### what an accepted file has to satisfy for the closed form -/

/-- vertex count positive, the vertex blocks are the blocks of the partition, every cell is routable, and no two
    cells of a group have the same vertex set -/
structure ParsedOK (np : Nat) (p : Parsed) : Prop where
  nn : 1 ≤ p.nnode
  blocks : BlocksOK p.nnode np p.blocks
  cells : ∀ g ∈ cellInfos.zip p.groups, ∀ ch ∈ g.2, ∀ c ∈ ch, CellOK g.1 p.nnode c
  dist : ∀ g ∈ cellInfos.zip p.groups, Distinct g.1 g.2.flatten

/-! ### vertex tables that differ only in coordinates of ghosts -/

theorem RankInv.transfer {N : Int} {np : Nat} {V : Int → Vertex} {r : Nat} {st st' : PRank}
    (h : RankInv N np V r st) (F : PNode → PNode) (hF : ∀ n, (F n).glob = n.glob ∧ (F n).part = n.part)
    (hx : ∀ n ∈ st.nodes, n.part = (r : Int) → (F n).xyz = n.xyz)
    (hn : st'.nodes = st.nodes.map F) (hc : st'.cells = st.cells) : RankInv N np V r st' := by
  have hhas : ∀ g, st'.has g = st.has g := by
    intro g
    rw [Bool.eq_iff_iff, has_iff, has_iff, hn]
    constructor
    · rintro ⟨n, hn', hg⟩
      obtain ⟨m, hm, rfl⟩ := List.mem_map.1 hn'
      exact ⟨m, hm, by rw [← (hF m).1]; exact hg⟩
    · rintro ⟨n, hn', hg⟩
      exact ⟨F n, List.mem_map.2 ⟨n, hn', rfl⟩, by rw [(hF n).1]; exact hg⟩
  have hgrp : ∀ j, st'.group j = st.group j := by intro j; simp [PRank.group, hc]
  constructor
  · intro n hn'
    rw [hn] at hn'
    obtain ⟨m, hm, rfl⟩ := List.mem_map.1 hn'
    rw [(hF m).1, (hF m).2]
    exact h.parts m hm
  · rw [hn, List.map_map]
    have : ((fun n : PNode => n.glob) ∘ F) = fun n => n.glob := by funext n; exact (hF n).1
    rw [this]; exact h.nodup
  · intro g h0 h1 hi; rw [hhas]; exact h.owned g h0 h1 hi
  · intro n hn' hp
    rw [hn] at hn'
    obtain ⟨m, hm, rfl⟩ := List.mem_map.1 hn'
    rw [(hF m).2] at hp
    rw [hx m hm hp, (hF m).1]
    exact h.xyz m hm hp
  · rw [hc]; exact h.ncells
  · intro k ci hk c hc' x hx'
    rw [hgrp] at hc'; rw [hhas]
    exact h.verts k ci hk c hc' x hx'
  · intro n hn' hp
    rw [hn] at hn'
    obtain ⟨m, hm, rfl⟩ := List.mem_map.1 hn'
    rw [(hF m).2] at hp
    obtain ⟨k, ci, hk, c, hc', hx'⟩ := h.ghosts m hm hp
    exact ⟨k, ci, hk, c, by rw [hgrp]; exact hc', by rw [(hF m).1]; exact hx'⟩

theorem getD_map_lt {α β : Type} (l : List α) (f : α → β) (r : Nat) (h : r < l.length) (d : α) (e : β) :
    (l.map f).getD r e = f (l.getD r d) := by
  simp [List.getD_eq_getElem?_getD, h]

theorem addGeoms_frame (t : Nat) (st : PRank) (recs : List RawGeom) :
    (addGeoms t st recs).nodes = st.nodes ∧ (addGeoms t st recs).cells = st.cells ∧
    (addGeoms t st recs).cad = st.cad ∧ (addGeoms t st recs).nGlobal = st.nGlobal := ⟨rfl, rfl, rfl, rfl⟩

theorem foldl_addGeoms_frame (l : List (List RawGeom × Nat)) : ∀ (st : PRank),
    (l.foldl (fun st gt => addGeoms gt.2 st gt.1) st).nodes = st.nodes ∧
    (l.foldl (fun st gt => addGeoms gt.2 st gt.1) st).cells = st.cells ∧
    (l.foldl (fun st gt => addGeoms gt.2 st gt.1) st).nGlobal = st.nGlobal := by
  induction l with
  | nil => intro st; exact ⟨rfl, rfl, rfl⟩
  | cons a l ih =>
    intro st
    rw [List.foldl_cons]
    obtain ⟨h1, h2, h3⟩ := ih (addGeoms a.2 st a.1)
    exact ⟨h1, h2, h3⟩

/-- `ref_geom_ghost` touches the geometry records only (given that every ghost's owner knows the vertex) -/
theorem geomGhost_frame (np : Nat) (w : World PRank)
    (hown : ∀ r, r < w.length → ∀ n ∈ (w.getD r default).nodes,
      (w.getD n.part.toNat default).has n.glob = true) :
    ∃ w', geomGhost np w = .ok w' ∧ w'.length = w.length ∧ ∀ r, r < w.length →
      ((w'.getD r default).nodes = (w.getD r default).nodes ∧ (w'.getD r default).cells = (w.getD r default).cells ∧
       (w'.getD r default).cad = (w.getD r default).cad ∧ (w'.getD r default).nGlobal = (w.getD r default).nGlobal) := by
  unfold geomGhost
  split
  · exact ⟨w, rfl, rfl, fun _ _ => ⟨rfl, rfl, rfl, rfl⟩⟩
  · exact mapRanks_rel _
      (fun _ st st' => st'.nodes = st.nodes ∧ st'.cells = st.cells ∧ st'.cad = st.cad ∧ st'.nGlobal = st.nGlobal)
      w (by
        intro r hr
        dsimp only
        rw [if_neg]
        · exact ⟨_, rfl, rfl, rfl, rfl, rfl⟩
        · intro hany
          rw [List.any_eq_true] at hany
          obtain ⟨n, hn, hb⟩ := hany
          have := hown r hr n (List.mem_of_mem_filter hn)
          rw [this] at hb
          simp at hb)

/-- the entry a ghost ends with after `ref_node_ghost_real` -/
def ghostFill (w : World PRank) (r : Nat) (n : PNode) : PNode :=
  if n.part != (r : Int) then
    match (w.getD n.part.toNat default).nodes.find? fun o => o.glob == n.glob with
    | some o => { n with xyz := o.xyz }
    | none => n
  else n

theorem ghostReal_frame (np : Nat) (hnp : ¬ np ≤ 1) (w : World PRank)
    (hown : ∀ r, r < w.length → ∀ n ∈ (w.getD r default).nodes,
      (w.getD n.part.toNat default).has n.glob = true) :
    ∃ w', ghostReal np w = .ok w' ∧ w'.length = w.length ∧ ∀ r, r < w.length →
      ((w'.getD r default).nodes = (w.getD r default).nodes.map (ghostFill w r) ∧
       (w'.getD r default).cells = (w.getD r default).cells ∧
       (w'.getD r default).cad = (w.getD r default).cad ∧ (w'.getD r default).nGlobal = (w.getD r default).nGlobal) := by
  unfold ghostReal
  rw [if_neg hnp]
  exact mapRanks_rel _
    (fun r st st' => st'.nodes = st.nodes.map (ghostFill w r) ∧ st'.cells = st.cells ∧ st'.cad = st.cad ∧
      st'.nGlobal = st.nGlobal)
    w (by
      intro r hr
      rw [if_neg]
      · exact ⟨_, rfl, rfl, rfl, rfl, rfl⟩
      · intro hany
        rw [List.any_eq_true] at hany
        obtain ⟨n, hn, hb⟩ := hany
        have := hown r hr n hn
        rw [this] at hb
        simp at hb)

/-- the world just before the orientation pass -/
structure FinalIs (N : Int) (np : Nat) (V : Int → Vertex) (O : Nat → List PNode) (G : Nat → Nat → List Cell)
    (cad : Bytes) (w : World PRank) : Prop where
  len : w.length = np
  inv : ∀ r, r < np → RankInv N np V r (w.getD r default)
  grp : ∀ r, r < np → ∀ j, (w.getD r default).group j = G j r
  own : ∀ r, r < np → (w.getD r default).nodes.filter (fun n => n.part == (r : Int)) = O r
  xyz : ∀ r, r < np → ∀ n ∈ (w.getD r default).nodes, n.xyz = some (V n.glob)
  glob : ∀ r, r < np → (w.getD r default).nGlobal = N
  cad : ∀ r, r < np → (w.getD r default).cad = cad

/-- `distribute` on the data of an accepted file (vertex count positive, blocks as partitioned, cells routable and
    pairwise different as vertex sets): it succeeds, and the world is the closed form -/
theorem distribute_ok {np : Nat} (hnp : 1 ≤ np) {p : Parsed} (hp : ParsedOK np p) :
    ∃ w, distribute np p = .ok w ∧
      FinalIs p.nnode np (vertexOf p.nnode np p.blocks) (fun r => ownedNodes p.nnode np r (p.blocks.getD r []))
        (finalGroup p.nnode np p) p.cad w := by
  set N := p.nnode with hNdef
  set V := vertexOf N np p.blocks with hV
  have hW0 := initWorld_is hp.nn hnp p.blocks hp.blocks
  obtain ⟨w1, h1, hW1⟩ := placeGroups_ok (V := V)
    (O := fun r => ownedNodes N np r (p.blocks.getD r [])) hnp (groupsOf p) (fun _ _ => []) _ hW0
    (by
      intro t ht
      obtain ⟨a, _, c⟩ := mem_groupsOf ht
      exact ⟨a, hp.cells _ c, hp.dist _ c, fun _ _ => rfl⟩)
    (groupsOf_keys_nodup p)
  rw [finalG_groupsOf] at hW1
  unfold distribute
  simp only
  rw [h1]
  simp only
  -- the geometry records and the CAD bytes leave vertices and cells alone
  set w3 : World PRank := (w1.map fun st => (p.geoms.zipIdx.foldl (fun st gt => addGeoms gt.2 st gt.1) st)).map
    fun st => { st with cad := p.cad } with hw3
  have hw3len : w3.length = np := by simp [hw3, hW1.len]
  have hw3get : ∀ r, r < np → (w3.getD r default).nodes = (w1.getD r default).nodes ∧
      (w3.getD r default).cells = (w1.getD r default).cells ∧ (w3.getD r default).cad = p.cad ∧
      (w3.getD r default).nGlobal = (w1.getD r default).nGlobal := by
    intro r hr
    have hr1 : r < w1.length := by rw [hW1.len]; exact hr
    rw [hw3, getD_map_lt _ _ r (by simpa using hr1) default default,
      getD_map_lt _ _ r hr1 default default]
    obtain ⟨a, b, c⟩ := foldl_addGeoms_frame p.geoms.zipIdx (w1.getD r default)
    exact ⟨a, b, rfl, c⟩
  have hinv3 : ∀ r, r < np → RankInv N np V r (w3.getD r default) := by
    intro r hr
    obtain ⟨a, b, _, _⟩ := hw3get r hr
    exact (hW1.inv r hr).transfer id (fun _ => ⟨rfl, rfl⟩) (fun _ _ _ => rfl) (by rw [a]; simp) b
  -- the owner of a ghost knows the vertex
  have howner : ∀ (w : World PRank), w.length = np → (∀ r, r < np → RankInv N np V r (w.getD r default)) →
      ∀ r, r < np → ∀ n ∈ (w.getD r default).nodes,
        n.part.toNat < np ∧ ((n.part.toNat : Nat) : Int) = n.part ∧ (w.getD n.part.toNat default).has n.glob = true := by
    intro w _ hinv r hr n hn
    obtain ⟨h0, h1', hpq⟩ := (hinv r hr).parts n hn
    obtain ⟨i0, i1⟩ := imp_range (N := N) hnp h0 h1'
    rw [← hpq] at i0 i1
    have hq : n.part.toNat < np := by omega
    have hqc : ((n.part.toNat : Nat) : Int) = n.part := Int.toNat_of_nonneg i0
    exact ⟨hq, hqc, (hinv _ hq).owned n.glob h0 h1' (by rw [hqc]; exact hpq.symm)⟩
  -- `ref_geom_ghost`
  have hgg : ∃ w4, geomGhost np w3 = .ok w4 ∧ w4.length = np ∧ ∀ r, r < np →
      (w4.getD r default).nodes = (w3.getD r default).nodes ∧ (w4.getD r default).cells = (w3.getD r default).cells ∧
      (w4.getD r default).cad = (w3.getD r default).cad ∧ (w4.getD r default).nGlobal = (w3.getD r default).nGlobal := by
    obtain ⟨w4, h4, hl4, hR4⟩ := geomGhost_frame np w3 (by
      intro r hr n hn
      rw [hw3len] at hr
      exact (howner w3 hw3len hinv3 r hr n hn).2.2)
    exact ⟨w4, h4, by rw [hl4, hw3len], fun r hr => hR4 r (by rw [hw3len]; exact hr)⟩
  obtain ⟨w4, h4, hl4, hw4get⟩ := hgg
  rw [h4]
  simp only
  have hinv4 : ∀ r, r < np → RankInv N np V r (w4.getD r default) := by
    intro r hr
    obtain ⟨a, b, _, _⟩ := hw4get r hr
    exact (hinv3 r hr).transfer id (fun _ => ⟨rfl, rfl⟩) (fun _ _ _ => rfl) (by rw [a]; simp) b
  have hgrp4 : ∀ r, r < np → ∀ j, (w4.getD r default).group j = finalGroup N np p j r := by
    intro r hr j
    rw [← hW1.grp r hr j]
    simp only [PRank.group, (hw4get r hr).2.1, (hw3get r hr).2.1]
  have hown4 : ∀ r, r < np → (w4.getD r default).nodes.filter (fun n => n.part == (r : Int)) =
      ownedNodes N np r (p.blocks.getD r []) := by
    intro r hr
    rw [(hw4get r hr).1, (hw3get r hr).1]
    exact hW1.own r hr
  -- `ref_node_ghost_real`
  unfold ghostReal
  by_cases h1' : np ≤ 1
  · rw [if_pos h1']
    have hnp1 : np = 1 := by omega
    refine ⟨w4, rfl, hl4, hinv4, hgrp4, hown4, ?_, ?_, ?_⟩
    · intro r hr n hn
      obtain ⟨h0, h1'', hpq⟩ := (hinv4 r hr).parts n hn
      obtain ⟨i0, i1⟩ := imp_range (N := N) hnp h0 h1''
      have : n.part = (r : Int) := by rw [hpq]; subst hnp1; omega
      exact (hinv4 r hr).xyz n hn this
    · intro r hr
      rw [(hw4get r hr).2.2.2, (hw3get r hr).2.2.2]
      exact (hW1.geo r hr).2.2
    · intro r hr
      rw [(hw4get r hr).2.2.1]
      exact (hw3get r hr).2.2.1
  · obtain ⟨w5, h5, hl5, hR5⟩ := ghostReal_frame np h1' w4 (by
      intro r hr n hn
      rw [hl4] at hr
      exact (howner w4 hl4 hinv4 r hr n hn).2.2)
    have hFgp : ∀ r n, (ghostFill w4 r n).glob = n.glob ∧ (ghostFill w4 r n).part = n.part := by
      intro r n
      simp only [ghostFill]
      split
      · split <;> exact ⟨rfl, rfl⟩
      · exact ⟨rfl, rfl⟩
    refine ⟨w5, h5, by rw [hl5, hl4], ?_, ?_, ?_, ?_, ?_, ?_⟩
    · intro r hr
      obtain ⟨a, b, _, _⟩ := hR5 r (by rw [hl4]; exact hr)
      apply (hinv4 r hr).transfer (ghostFill w4 r) (hFgp r) _ a b
      intro n _ hp'
      simp only [ghostFill]
      rw [if_neg]
      simp [hp']
    · intro r hr j
      obtain ⟨_, b, _, _⟩ := hR5 r (by rw [hl4]; exact hr)
      rw [← hgrp4 r hr j]
      simp only [PRank.group, b]
    · intro r hr
      obtain ⟨a, _, _, _⟩ := hR5 r (by rw [hl4]; exact hr)
      rw [a, List.filter_map, ← hown4 r hr]
      have hfe : (w4.getD r default).nodes.filter ((fun n => n.part == (r : Int)) ∘ ghostFill w4 r) =
          (w4.getD r default).nodes.filter (fun n => n.part == (r : Int)) := by
        apply List.filter_congr
        intro n _
        simp only [Function.comp, (hFgp r n).2]
      rw [hfe]
      conv_rhs => rw [← List.map_id ((w4.getD r default).nodes.filter fun n => n.part == (r : Int))]
      apply List.map_congr_left
      intro n hn
      have hp' : n.part = (r : Int) := by simpa using (List.mem_filter.1 hn).2
      simp only [ghostFill, id]
      rw [if_neg]
      simp [hp']
    · intro r hr n' hn'
      obtain ⟨a, _, _, _⟩ := hR5 r (by rw [hl4]; exact hr)
      rw [a] at hn'
      obtain ⟨n, hn, rfl⟩ := List.mem_map.1 hn'
      rw [(hFgp r n).1]
      by_cases hp' : n.part = (r : Int)
      · have : ghostFill w4 r n = n := by simp only [ghostFill]; rw [if_neg]; simp [hp']
        rw [this]
        exact (hinv4 r hr).xyz n hn hp'
      · obtain ⟨hq, hqc, hhas⟩ := howner w4 hl4 hinv4 r hr n hn
        have hne : (n.part != (r : Int)) = true := by simpa using hp'
        simp only [ghostFill, hne, if_true]
        cases hf : (w4.getD n.part.toNat default).nodes.find? (fun o => o.glob == n.glob) with
        | none =>
          exfalso
          rw [List.find?_eq_none] at hf
          obtain ⟨o, ho, hog⟩ := (has_iff _ _).1 hhas
          exact hf o ho (by simp [hog])
        | some o =>
          simp only
          have hog := List.find?_some hf
          have hom := List.mem_of_find?_eq_some hf
          simp only [beq_iff_eq] at hog
          have hop := ((hinv4 _ hq).parts o hom).2.2
          have hnp' := ((hinv4 r hr).parts n hn).2.2
          have : o.part = ((n.part.toNat : Nat) : Int) := by rw [hop, hog, hqc, hnp']
          rw [(hinv4 _ hq).xyz o hom this, hog]
    · intro r hr
      obtain ⟨_, _, _, d⟩ := hR5 r (by rw [hl4]; exact hr)
      rw [d, (hw4get r hr).2.2.2, (hw3get r hr).2.2.2]
      exact (hW1.geo r hr).2.2
    · intro r hr
      obtain ⟨_, _, c, _⟩ := hR5 r (by rw [hl4]; exact hr)
      rw [c, (hw4get r hr).2.2.1]
      exact (hw3get r hr).2.2.1

end Refine.Lemmas.PartMeshb
