import Refine.Model.Cavity
import Refine.Lemmas.ScalarReal

/-! `ref_cavity_check_visible`: a `VISIBLE` verdict means every new tet passed the `min_volume` test. -/
namespace Refine.Lemmas.Cavity
open Refine Refine.Model.Cavity Refine.Model.Geom

variable {α : Type} [Scalar α]

theorem checkVisibleLoop_true (g : Grid α) (node : Int) (fs : List Face)
    (h : checkVisibleLoop g node fs = some true) :
    ∀ f ∈ fs, f.has node = false →
      ∃ v, tetVolAt g f.n0 f.n1 f.n2 node = some v ∧ (v <=. (minVolume : α)) = false := by
  induction fs with
  | nil => simp
  | cons f t ih =>
    unfold checkVisibleLoop at h
    intro x hx hnot
    split at h
    · next hhas =>
      rcases List.mem_cons.mp hx with rfl | hx
      · rw [hhas] at hnot; cases hnot
      · exact ih h x hx hnot
    · next hhas =>
      cases hv : tetVolAt g f.n0 f.n1 f.n2 node with
      | none => rw [hv] at h; cases h
      | some v =>
        rw [hv] at h
        simp only at h
        split at h
        · cases h
        · next hle =>
          rcases List.mem_cons.mp hx with rfl | hx
          · exact ⟨v, hv, by simpa using hle⟩
          · exact ih h x hx hnot

/-- `checkVisible` on a cavity in state `unknown` that ends in state `visible` ran the whole loop -/
theorem checkVisible_visible (g : Grid α) (c c' : Cav) (s : Refine.Model.Cavity.St) (h : checkVisible g c = (s, c'))
    (h0 : c.state = .unknown) (h1 : c'.state = .visible) :
    s = .ok ∧ c' = { c with state := .visible } ∧ checkVisibleLoop g c.node c.validFaces = some true := by
  unfold checkVisible at h
  split at h
  · simp only [Prod.mk.injEq] at h; rw [← h.2, h0] at h1; cases h1
  · rw [if_neg (by simp [h0])] at h
    cases hl : checkVisibleLoop g c.node c.validFaces with
    | none => rw [hl] at h; simp only [Prod.mk.injEq] at h; rw [← h.2, h0] at h1; cases h1
    | some b =>
      rw [hl] at h
      cases b with
      | true => simp only [Prod.mk.injEq] at h; exact ⟨h.1.symm, h.2.symm, rfl⟩
      | false => simp only [Prod.mk.injEq] at h; rw [← h.2] at h1; cases h1

end Refine.Lemmas.Cavity
