import Refine.Model.ReproEdge
import Refine.Lemmas.CellStore

/-!
  Lemmas behind the `ref_edge_create` theorems of `Refine/Props/C18Mech.lean`:
  the adjacency-chain lookup of `ref_edge_with` agrees with plain list membership (`EdgeInv`), so the
  executable `uniqAll` equals the specification fold `specStep`; facts about that fold.
-/
namespace Refine.Model.ReproEdge
open Refine.Model.NodeIds (Status)
open Refine.Model.CellStore

namespace EdgeSt

theorem edgeMatch_iff {p : Int × Int} {a b : Int} :
    edgeMatch p a b = true ↔ (p.1 = a ∧ p.2 = b) ∨ (p.1 = b ∧ p.2 = a) := by
  simp [edgeMatch]

theorem edgeMatch_self (p : Int × Int) : edgeMatch p p.1 p.2 = true := by
  simp [edgeMatch]

theorem edgeMatch_symm {p q : Int × Int} (h : edgeMatch p q.1 q.2 = true) : edgeMatch q p.1 p.2 = true := by
  rw [edgeMatch_iff] at h ⊢
  rcases h with ⟨h1, h2⟩ | ⟨h1, h2⟩
  · exact Or.inl ⟨h1.symm, h2.symm⟩
  · exact Or.inr ⟨h2.symm, h1.symm⟩

theorem edgeMatch_trans {p q : Int × Int} {a b : Int} (h1 : edgeMatch p a b = true) (h2 : edgeMatch q a b = true) :
    edgeMatch p q.1 q.2 = true := by
  rw [edgeMatch_iff] at h1 h2 ⊢
  rcases h1 with ⟨x1, x2⟩ | ⟨x1, x2⟩ <;> rcases h2 with ⟨y1, y2⟩ | ⟨y1, y2⟩
  · exact Or.inl ⟨x1.trans y1.symm, x2.trans y2.symm⟩
  · exact Or.inr ⟨x1.trans y2.symm, x2.trans y1.symm⟩
  · exact Or.inr ⟨x1.trans y2.symm, x2.trans y1.symm⟩
  · exact Or.inl ⟨x1.trans y1.symm, x2.trans y2.symm⟩

/-- the adjacency is exact: the chain of a non-negative node holds exactly the indices of the edges that
    have it as an end point; all end points are non-negative -/
structure EdgeInv (s : EdgeSt) : Prop where
  nonneg : ∀ p ∈ s.e2n, 0 ≤ p.1 ∧ 0 ≤ p.2
  adj : ∀ v e, 0 ≤ v → (e ∈ s.adj.first v ↔
    0 ≤ e ∧ e.toNat < s.e2n.length ∧ ((s.e2n.getD e.toNat (-1, -1)).1 = v ∨ (s.e2n.getD e.toNat (-1, -1)).2 = v))

theorem getD_replicate_nil : ∀ (n k : Nat), (List.replicate n ([] : List Int)).getD k [] = []
  | 0, _ => rfl
  | _ + 1, 0 => rfl
  | n + 1, k + 1 => by
    rw [List.replicate_succ, List.getD_cons_succ]; exact getD_replicate_nil n k

theorem create_first (v : Int) : Adj.create.first v = [] := by
  unfold Adj.first Adj.create
  split
  · rfl
  · exact getD_replicate_nil 10 _

theorem empty_inv : EdgeInv empty := by
  refine ⟨by simp [empty], ?_⟩
  intro v e _
  simp only [empty, create_first]
  simp

theorem getD_mem {l : List (Int × Int)} {i : Nat} (h : i < l.length) : l.getD i (-1, -1) ∈ l := by
  rw [List.getD_eq_getElem?_getD, List.getElem?_eq_getElem h]
  exact List.getElem_mem h

/-- `ref_edge_with` finds nothing iff no listed edge joins the two nodes -/
theorem withNodes_none_iff {s : EdgeSt} (h : EdgeInv s) {a b : Int} (ha : 0 ≤ a) :
    s.withNodes a b = none ↔ s.e2n.any (fun q => edgeMatch q a b) = false := by
  unfold withNodes
  rw [List.find?_eq_none]
  constructor
  · intro hf
    rw [Bool.eq_false_iff]
    intro hany
    rw [List.any_eq_true] at hany
    obtain ⟨q, hq, hm⟩ := hany
    obtain ⟨i, hi, rfl⟩ := List.getElem_of_mem hq
    have hend : (s.e2n[i]).1 = a ∨ (s.e2n[i]).2 = a := by
      rw [edgeMatch_iff] at hm
      rcases hm with ⟨x, _⟩ | ⟨_, x⟩
      · exact Or.inl x
      · exact Or.inr x
    have hget : s.e2n.getD i (-1, -1) = s.e2n[i] := by
      rw [List.getD_eq_getElem?_getD, List.getElem?_eq_getElem hi]; rfl
    have hmem : ((i : Nat) : Int) ∈ s.adj.first a := by
      rw [h.adj a _ ha]
      refine ⟨by omega, by simpa using hi, ?_⟩
      simp only [Int.toNat_natCast, hget]
      exact hend
    have := hf _ hmem
    simp only [Int.toNat_natCast, hget, hm] at this
    exact absurd trivial this
  · intro hany e he
    rw [h.adj a e ha] at he
    obtain ⟨_, hlt, _⟩ := he
    intro hm
    have : s.e2n.any (fun q => edgeMatch q a b) = true :=
      List.any_eq_true.2 ⟨_, getD_mem hlt, hm⟩
    rw [hany] at this
    exact absurd this (by simp)

theorem getD_append_one {l : List (Int × Int)} {p : Int × Int} (i : Nat) :
    (l ++ [p]).getD i (-1, -1) = if i < l.length then l.getD i (-1, -1) else if i = l.length then p else (-1, -1) := by
  simp only [List.getD_eq_getElem?_getD]
  by_cases h : i < l.length
  · simp [h, List.getElem?_append_left h]
  · have h' : l.length ≤ i := Nat.le_of_not_lt h
    rw [List.getElem?_append_right h']
    by_cases h2 : i = l.length
    · simp [h2]
    · have : i - l.length ≠ 0 := by omega
      simp [h, h2]
      cases hk : i - l.length with
      | zero => omega
      | succ k => simp

/-- one `ref_edge_uniq` of a non-negative pair: succeeds, keeps the invariant, and is the specification step -/
theorem uniq_spec {s : EdgeSt} (h : EdgeInv s) {a b : Int} (ha : 0 ≤ a) (hb : 0 ≤ b) :
    (s.uniq a b).1 = .ok ∧ EdgeInv (s.uniq a b).2 ∧ (s.uniq a b).2.e2n = specStep s.e2n (a, b) := by
  unfold uniq specStep
  cases hw : s.withNodes a b with
  | some e =>
    have hne : ¬ (s.withNodes a b = none) := by rw [hw]; simp
    rw [withNodes_none_iff h ha] at hne
    have hany : s.e2n.any (fun q => edgeMatch q a b) = true := by
      cases hx : s.e2n.any (fun q => edgeMatch q a b)
      · exact absurd hx hne
      · rfl
    simp only [hany, if_true]
    exact ⟨trivial, h, trivial⟩
  | none =>
    have hany := (withNodes_none_iff h ha).1 hw
    simp only [hany, Bool.false_eq_true, if_false]
    obtain ⟨ok0, f0⟩ := Adj.add_spec s.adj ha (s.e2n.length : Int)
    obtain ⟨ok1, f1⟩ := Adj.add_spec (s.adj.add a (s.e2n.length : Int)).2 hb (s.e2n.length : Int)
    simp only [ok0, ne_eq, not_true_eq_false, if_false]
    refine ⟨ok1, ?_, trivial⟩
    refine ⟨?_, ?_⟩
    · intro p hp
      rw [List.mem_append] at hp
      rcases hp with hp | hp
      · exact h.nonneg p hp
      · simp only [List.mem_singleton] at hp; subst hp; exact ⟨ha, hb⟩
    · intro v e hv
      simp only [f1, f0, List.length_append, List.length_singleton]
      have hold := h.adj v e hv
      have hgd := getD_append_one (l := s.e2n) (p := (a, b)) e.toNat
      by_cases hlt : 0 ≤ e ∧ e.toNat < s.e2n.length
      · -- an old edge index
        have hne : e ≠ (s.e2n.length : Int) := by omega
        rw [hgd, if_pos hlt.2]
        have : (e ∈ (if v = b then (s.e2n.length : Int) :: (if v = a then (s.e2n.length : Int) :: s.adj.first v else s.adj.first v)
            else (if v = a then (s.e2n.length : Int) :: s.adj.first v else s.adj.first v))) ↔ e ∈ s.adj.first v := by
          split <;> split <;> simp [hne]
        rw [this, hold]
        constructor
        · rintro ⟨h1, h2, h3⟩; exact ⟨h1, by omega, h3⟩
        · rintro ⟨h1, _, h3⟩; exact ⟨h1, hlt.2, h3⟩
      · -- not an old index: in no old chain
        have hnot : e ∉ s.adj.first v := by
          intro hm; rw [hold] at hm; exact hlt ⟨hm.1, hm.2.1⟩
        by_cases he : e = (s.e2n.length : Int)
        · subst he
          simp only [Int.toNat_natCast] at hgd ⊢
          rw [hgd]
          simp only [Nat.lt_irrefl, if_false, if_true]
          constructor
          · intro hm
            refine ⟨by omega, by omega, ?_⟩
            by_cases hvb : v = b
            · exact Or.inr hvb.symm
            · by_cases hva : v = a
              · exact Or.inl hva.symm
              · simp only [hvb, hva, if_false] at hm
                exact absurd hm hnot
          · rintro ⟨_, _, h3⟩
            rcases h3 with h3 | h3
            · subst h3
              by_cases hvb : a = b
              · simp [hvb]
              · simp [hvb]
            · subst h3
              simp
        · have hmem : ¬ (e ∈ (if v = b then (s.e2n.length : Int) :: (if v = a then (s.e2n.length : Int) :: s.adj.first v else s.adj.first v)
              else (if v = a then (s.e2n.length : Int) :: s.adj.first v else s.adj.first v))) := by
            split <;> split <;> simp [he, hnot]
          constructor
          · intro hm; exact absurd hm hmem
          · rintro ⟨h1, h2, _⟩
            exfalso
            apply hlt
            refine ⟨h1, ?_⟩
            have : e.toNat ≠ s.e2n.length := by omega
            omega

/-- the whole loop over non-negative pairs: never fails, and the resulting `e2n` is the specification fold -/
theorem uniqAll_spec : ∀ (ps : List (Int × Int)) {s : EdgeSt}, EdgeInv s → (∀ p ∈ ps, 0 ≤ p.1 ∧ 0 ≤ p.2) →
    (uniqAll s ps).1 = .ok ∧ EdgeInv (uniqAll s ps).2 ∧ (uniqAll s ps).2.e2n = ps.foldl specStep s.e2n
  | [], s, h, _ => ⟨rfl, h, rfl⟩
  | p :: ps, s, h, hp => by
    obtain ⟨hpa, hpb⟩ := hp p (List.mem_cons_self ..)
    obtain ⟨ok, inv, he⟩ := uniq_spec h hpa hpb
    have ih := uniqAll_spec ps inv (fun q hq => hp q (List.mem_cons_of_mem _ hq))
    unfold uniqAll
    simp only [ok, if_true, List.foldl_cons]
    rw [← he]
    exact ih

end EdgeSt

open EdgeSt

/-! ### the specification fold -/

theorem foldl_specStep_append (ps : List (Int × Int)) (acc : List (Int × Int)) :
    ∃ l, ps.foldl specStep acc = acc ++ l ∧ l.Sublist ps := by
  induction ps generalizing acc with
  | nil => exact ⟨[], by simp, List.Sublist.refl _⟩
  | cons p ps ih =>
    simp only [List.foldl_cons]
    by_cases hany : acc.any (fun q => edgeMatch q p.1 p.2) = true
    · have hs : specStep acc p = acc := by simp only [specStep, hany, if_true]
      rw [hs]
      obtain ⟨l, h1, h2⟩ := ih acc
      exact ⟨l, h1, h2.cons _⟩
    · have hs : specStep acc p = acc ++ [p] := by simp [specStep, hany]
      rw [hs]
      obtain ⟨l, h1, h2⟩ := ih (acc ++ [p])
      refine ⟨p :: l, ?_, h2.cons₂ _⟩
      rw [h1]; simp

/-- the result lists pairs in the order of their first appearance in the loop -/
theorem specEdges_sublist (ps : List (Int × Int)) : (specEdges ps).Sublist ps := by
  obtain ⟨l, h1, h2⟩ := foldl_specStep_append ps []
  unfold specEdges
  rw [h1]; simpa using h2

theorem foldl_specStep_covers (ps : List (Int × Int)) (acc : List (Int × Int)) :
    (∀ q ∈ acc, (ps.foldl specStep acc).any (fun r => edgeMatch r q.1 q.2) = true) ∧
    (∀ p ∈ ps, (ps.foldl specStep acc).any (fun r => edgeMatch r p.1 p.2) = true) := by
  induction ps generalizing acc with
  | nil =>
    refine ⟨?_, by simp⟩
    intro q hq
    exact List.any_eq_true.2 ⟨q, hq, edgeMatch_self q⟩
  | cons p ps ih =>
    simp only [List.foldl_cons]
    obtain ⟨ih1, ih2⟩ := ih (specStep acc p)
    have hacc : ∀ q ∈ acc, q ∈ specStep acc p := by
      intro q hq; unfold specStep; split
      · exact hq
      · exact List.mem_append_left _ hq
    refine ⟨fun q hq => ih1 q (hacc q hq), ?_⟩
    intro q hq
    rw [List.mem_cons] at hq
    rcases hq with rfl | hq
    · -- p itself: either matched by something in acc (kept) or appended
      unfold specStep at ih1 ⊢
      by_cases hany : acc.any (fun r => edgeMatch r q.1 q.2) = true
      · simp only [hany, if_true] at ih1 ⊢
        obtain ⟨r, hr, hm⟩ := List.any_eq_true.1 hany
        obtain ⟨t, ht, hm2⟩ := List.any_eq_true.1 (ih1 r hr)
        exact List.any_eq_true.2 ⟨t, ht, edgeMatch_trans hm2 (edgeMatch_symm hm)⟩
      · simp only [hany, Bool.false_eq_true, if_false] at ih1 ⊢
        exact ih1 q (List.mem_append_right _ (List.mem_singleton.2 rfl))
    · exact ih2 q hq

/-- no two listed edges join the same two nodes -/
def NoDup (l : List (Int × Int)) : Prop := l.Pairwise fun q r => edgeMatch q r.1 r.2 = false

theorem specStep_noDup {acc : List (Int × Int)} (h : NoDup acc) (p : Int × Int) : NoDup (specStep acc p) := by
  unfold specStep
  split
  · exact h
  · rename_i hany
    unfold NoDup
    rw [List.pairwise_append]
    refine ⟨h, List.pairwise_singleton _ _, ?_⟩
    intro q hq r hr
    simp only [List.mem_singleton] at hr; subst hr
    cases hm : edgeMatch q r.1 r.2
    · rfl
    · exact absurd (List.any_eq_true.2 ⟨q, hq, hm⟩) hany

theorem foldl_specStep_noDup (ps : List (Int × Int)) {acc : List (Int × Int)} (h : NoDup acc) :
    NoDup (ps.foldl specStep acc) := by
  induction ps generalizing acc with
  | nil => exact h
  | cons p ps ih => exact ih (specStep_noDup h p)

theorem countP_le_one_of_noDup {l : List (Int × Int)} (h : NoDup l) (a b : Int) :
    l.countP (fun q => edgeMatch q a b) ≤ 1 := by
  induction l with
  | nil => simp
  | cons q l ih =>
    unfold NoDup at h
    rw [List.pairwise_cons] at h
    rw [List.countP_cons]
    by_cases hm : edgeMatch q a b = true
    · have : l.countP (fun r => edgeMatch r a b) = 0 := by
        rw [List.countP_eq_zero]
        intro r hr hr2
        have := h.1 r hr
        have hqr := edgeMatch_trans hm hr2
        rw [this] at hqr
        exact absurd hqr (by simp)
      simp [hm, this]
    · have := ih h.2
      simp [hm]
      exact this

/-- every pair visited by the loop is listed exactly once (as an undirected edge) -/
theorem specEdges_count_one (ps : List (Int × Int)) {p : Int × Int} (hp : p ∈ ps) :
    (specEdges ps).countP (fun q => edgeMatch q p.1 p.2) = 1 := by
  have h1 : (specEdges ps).countP (fun q => edgeMatch q p.1 p.2) ≤ 1 :=
    countP_le_one_of_noDup (foldl_specStep_noDup ps (List.Pairwise.nil)) p.1 p.2
  have h2 : 0 < (specEdges ps).countP (fun q => edgeMatch q p.1 p.2) := by
    rw [List.countP_pos_iff]
    obtain ⟨r, hr, hm⟩ := List.any_eq_true.1 ((foldl_specStep_covers ps []).2 p hp)
    exact ⟨r, hr, hm⟩
  omega

/-! ### the loop reads nothing but the live-cell sequence -/

/-- every entry of the store's `e2n` table addresses one of the `node_per` nodes -/
def E2nInRange (s : CellStore) : Prop := ∀ ab ∈ s.e2n, ab.1 < s.nodePer ∧ ab.2 < s.nodePer

theorem getD_take {l : List Int} {k n : Nat} (h : k < n) : (l.take n).getD k (-1) = l.getD k (-1) := by
  simp only [List.getD_eq_getElem?_getD, List.getElem?_take, h, if_true]

theorem cellEdgePairs_eq (s : CellStore) (h : E2nInRange s) :
    cellEdgePairs s = (liveSeq s).flatMap (pairsOfCell s.e2n) := by
  unfold cellEdgePairs liveSeq
  rw [List.flatMap_map]
  congr 1
  funext c
  unfold pairsOfCell
  apply List.map_congr_left
  intro ab hab
  obtain ⟨h1, h2⟩ := h ab hab
  simp only [CellStore.c2nAt, getD_take h1, getD_take h2]

/-- what the edge loop reads of one store -/
def liveKey (s : CellStore) : List (Nat × Nat) × List (List Int) := (s.e2n, liveSeq s)

def pairsOfKey (k : List (Nat × Nat) × List (List Int)) : List (Int × Int) := k.2.flatMap (pairsOfCell k.1)

theorem flatMap_congr' {α β : Type} {l : List α} {f g : α → List β} (h : ∀ x ∈ l, f x = g x) :
    l.flatMap f = l.flatMap g := by
  induction l with
  | nil => rfl
  | cons x xs ih =>
    simp only [List.flatMap_cons]
    rw [h x (List.mem_cons_self ..), ih (fun y hy => h y (List.mem_cons_of_mem _ hy))]

theorem gridPairs_eq (groups : List CellStore) (h : ∀ s ∈ groups, E2nInRange s) :
    gridPairs groups =
      ((((groups.map liveKey).drop 8).take 8) ++ (((groups.map liveKey).drop 3).take 5)).flatMap pairsOfKey := by
  unfold gridPairs
  rw [← List.map_drop, ← List.map_drop, ← List.map_take, ← List.map_take, ← List.map_append, List.flatMap_map]
  apply flatMap_congr'
  intro s hs
  have hmem : s ∈ groups := by
    rw [List.mem_append] at hs
    rcases hs with hs | hs
    · exact List.mem_of_mem_drop (List.mem_of_mem_take hs)
    · exact List.mem_of_mem_drop (List.mem_of_mem_take hs)
  rw [cellEdgePairs_eq s (h s hmem)]
  rfl

end Refine.Model.ReproEdge
