import Refine.Model.SmoothInterp
import Refine.Model.Metric
import Refine.Lemmas.MetricInterp
import Refine.Lemmas.ScalarReal
import Mathlib.Tactic.Ring
import Mathlib.Tactic.FieldSimp

/-! the back-off positions over ℝ: `trial k = original + 2^-k (ideal - original)` -/
namespace Refine.Lemmas.SmoothInterp
open Refine Refine.ScalarReal Refine.Model.SmoothInterp
open Refine.Model.Geom (V3)

theorem backoffAt_real (k : Nat) : (backoffAt k : ℝ) = (1 / 2 : ℝ) ^ k := by
  induction k with
  | zero => simp [backoffAt]
  | succ k ih =>
    unfold backoffAt
    rw [ih]
    simp only [mul_eq, ofDec_eq]
    rw [pow_succ]
    norm_num

theorem trialPos_real (ideal original : V3 ℝ) (k : Nat) :
    (trialPos ideal original k).x = original.x + (1 / 2 : ℝ) ^ k * (ideal.x - original.x) ∧
    (trialPos ideal original k).y = original.y + (1 / 2 : ℝ) ^ k * (ideal.y - original.y) ∧
    (trialPos ideal original k).z = original.z + (1 / 2 : ℝ) ^ k * (ideal.z - original.z) := by
  unfold trialPos
  simp only [add_eq, sub_eq, mul_eq, ofInt_eq, backoffAt_real]
  refine ⟨?_, ?_, ?_⟩ <;> (push_cast; ring)

/-! ### a log-linear tetrahedral background -/

open Refine Refine.Model.Matrix Refine.Model.Metric in
open Refine.Model.Geom (V3 B4) in
/-- a tetrahedral background whose vertex logs are an affine function of position: the kernel `Bg.interp` is
    `ref_metric_interpolate_node`'s (`Model/Metric.interpolateNode`) on the four vertex logs of the donor cell -/
noncomputable def loglinInterp (verts : Int → V3 ℝ × V3 ℝ × V3 ℝ × V3 ℝ) (L0 Lx Ly Lz : M6 ℝ) (c : Int) (b : B4 ℝ) :
    Option (M6 ℝ × M6 ℝ) :=
  match interpolateNode 4 b (affM L0 Lx Ly Lz (verts c).1) (affM L0 Lx Ly Lz (verts c).2.1)
      (affM L0 Lx Ly Lz (verts c).2.2.1) (affM L0 Lx Ly Lz (verts c).2.2.2) with
  | .ok p => some p
  | .error _ => none

open Refine Refine.Model.Matrix in
open Refine.Model.Geom (V3 B4) in
/-- `b` are barycentric coordinates of `x` in cell `c`: non-negative, sum one, reproduce the point -/
def BaryDonor (verts : Int → V3 ℝ × V3 ℝ × V3 ℝ × V3 ℝ) (x : V3 ℝ) (c : Int) (b : B4 ℝ) : Prop :=
  0 ≤ b.b0 ∧ 0 ≤ b.b1 ∧ 0 ≤ b.b2 ∧ 0 ≤ b.b3 ∧ b.b0 + b.b1 + b.b2 + b.b3 = 1 ∧
  b.b0 * (verts c).1.x + b.b1 * (verts c).2.1.x + b.b2 * (verts c).2.2.1.x + b.b3 * (verts c).2.2.2.x = x.x ∧
  b.b0 * (verts c).1.y + b.b1 * (verts c).2.1.y + b.b2 * (verts c).2.2.1.y + b.b3 * (verts c).2.2.2.y = x.y ∧
  b.b0 * (verts c).1.z + b.b1 * (verts c).2.1.z + b.b2 * (verts c).2.2.1.z + b.b3 * (verts c).2.2.2.z = x.z


end Refine.Lemmas.SmoothInterp
