import Refine.Model.SmoothInterp
import Refine.Lemmas.ScalarReal
import Mathlib.Tactic.Ring
import Mathlib.Tactic.FieldSimp

/-! the back-off positions over ℝ: `trial k = original + 2^-k (ideal - original)` -/
namespace Refine.Lemmas.SmoothInterp
open Refine Refine.ScalarReal Refine.Model.SmoothInterp
open Refine.Model.Geom (V3)

theorem backoffAt_real (k : Nat) : (backoffAt k : ℝ) = (1 / 2 : ℝ) ^ k := by
  induction k with
  | zero => simp [backoffAt]
  | succ k ih =>
    unfold backoffAt
    rw [ih]
    simp only [mul_eq, ofDec_eq]
    rw [pow_succ]
    norm_num

theorem trialPos_real (ideal original : V3 ℝ) (k : Nat) :
    (trialPos ideal original k).x = original.x + (1 / 2 : ℝ) ^ k * (ideal.x - original.x) ∧
    (trialPos ideal original k).y = original.y + (1 / 2 : ℝ) ^ k * (ideal.y - original.y) ∧
    (trialPos ideal original k).z = original.z + (1 / 2 : ℝ) ^ k * (ideal.z - original.z) := by
  unfold trialPos
  simp only [add_eq, sub_eq, mul_eq, ofInt_eq, backoffAt_real]
  refine ⟨?_, ?_, ?_⟩ <;> (push_cast; ring)

end Refine.Lemmas.SmoothInterp
