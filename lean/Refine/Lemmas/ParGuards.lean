import Refine.Model.Par

/-!
  Ownership guards of `Refine.Model.Par`: what a `true` answer guarantees about the cells the kernel touches,
  and the disjointness argument built on it.
-/
namespace Refine.Lemmas.Par
open Refine.Model.Par

/-- all nodes of `c` have `part = me` -/
def FullyOwned (part : Nat → Nat) (me : Nat) (c : Cell) : Prop := ∀ v ∈ c, part v = me

theorem allOwned_iff (part : Nat → Nat) (me : Nat) (c : Cell) :
    allOwned part me c = true ↔ FullyOwned part me c := by
  simp [allOwned, owned, FullyOwned]

theorem mem_having (cells : List Cell) (n : Nat) (c : Cell) : c ∈ having cells n ↔ c ∈ cells ∧ n ∈ c := by
  simp [having]

theorem aboutLoop_iff (part : Nat → Nat) (me : Nat) (cs : List Cell) :
    aboutLoop part me cs = true ↔ ∀ c ∈ cs, FullyOwned part me c := by
  induction cs with
  | nil => simp [aboutLoop]
  | cons c cs ih =>
    simp only [aboutLoop, List.mem_cons, forall_eq_or_imp]
    by_cases h : allOwned part me c = true
    · simp [h, ih, (allOwned_iff part me c).mp h]
    · have h' : ¬ FullyOwned part me c := fun hf => h ((allOwned_iff part me c).mpr hf)
      simp [h, h']

theorem gemLoop_iff (part : Nat → Nat) (me n1 : Nat) (cs : List Cell) :
    gemLoop part me n1 cs = true ↔ ∀ c ∈ cs, n1 ∈ c → FullyOwned part me c := by
  induction cs with
  | nil => simp [gemLoop]
  | cons c cs ih =>
    simp only [gemLoop, List.mem_cons, forall_eq_or_imp]
    by_cases hc : n1 ∈ c
    · by_cases h : allOwned part me c = true
      · simp [hc, h, ih, (allOwned_iff part me c).mp h]
      · have h' : ¬ FullyOwned part me c := fun hf => h ((allOwned_iff part me c).mpr hf)
        simp [hc, h, h']
    · simp [hc, ih]

/-- ref_cell_local_gem answers `true` exactly when every cell containing both edge nodes is fully owned -/
theorem cellLocalGem_iff (cells : List Cell) (part : Nat → Nat) (me n0 n1 : Nat) :
    cellLocalGem cells part me n0 n1 = true ↔ ∀ c ∈ cells, n0 ∈ c → n1 ∈ c → FullyOwned part me c := by
  simp only [cellLocalGem, gemLoop_iff, mem_having]
  constructor
  · intro h c hc h0 h1; exact h c ⟨hc, h0⟩ h1
  · intro h c hc h1; exact h c hc.1 hc.2 h1

theorem swapLocalCell_iff (tris : List Cell) (part : Nat → Nat) (me n0 n1 : Nat) :
    swapLocalCell tris part me n0 n1 = true ↔ ∀ c ∈ tris, n0 ∈ c → n1 ∈ c → FullyOwned part me c :=
  cellLocalGem_iff tris part me n0 n1

theorem smoothLocalCellAbout_iff (cells : List Cell) (part : Nat → Nat) (me n : Nat) :
    smoothLocalCellAbout cells part me n = true ↔ ∀ c ∈ cells, n ∈ c → FullyOwned part me c := by
  simp only [smoothLocalCellAbout, aboutLoop_iff, mem_having]
  constructor
  · intro h c hc h0; exact h c ⟨hc, h0⟩
  · intro h c hc; exact h c hc.1 hc.2

theorem collapseEdgeLocalCell_iff (tets tris : List Cell) (part : Nat → Nat) (me n0 n1 : Nat) :
    collapseEdgeLocalCell tets tris part me n0 n1 = true ↔
      ∀ c, (c ∈ tets ∨ c ∈ tris) → (n0 ∈ c ∨ n1 ∈ c) → FullyOwned part me c := by
  have key : ∀ cs n, aboutLoop part me (having cs n) = true ↔ ∀ c ∈ cs, n ∈ c → FullyOwned part me c :=
    fun cs n => smoothLocalCellAbout_iff cs part me n
  unfold collapseEdgeLocalCell
  by_cases h1 : aboutLoop part me (having tets n1) = true
  · by_cases h2 : aboutLoop part me (having tets n0) = true
    · by_cases h3 : aboutLoop part me (having tris n1) = true
      · by_cases h4 : aboutLoop part me (having tris n0) = true
        · simp only [h1, h2, h3, h4, Bool.not_true, Bool.false_eq_true, if_false, true_iff]
          rintro c (hc | hc) (hn | hn)
          · exact (key tets n0).mp h2 c hc hn
          · exact (key tets n1).mp h1 c hc hn
          · exact (key tris n0).mp h4 c hc hn
          · exact (key tris n1).mp h3 c hc hn
        · simp only [h1, h2, h3, h4, Bool.not_true, Bool.false_eq_true, if_false, Bool.not_false, if_true,
            false_iff]
          intro h; exact h4 ((key tris n0).mpr fun c hc hn => h c (Or.inr hc) (Or.inl hn))
      · simp only [h1, h2, h3, Bool.not_true, Bool.false_eq_true, if_false, Bool.not_false, if_true, false_iff]
        intro h; exact h3 ((key tris n1).mpr fun c hc hn => h c (Or.inr hc) (Or.inr hn))
    · simp only [h1, h2, Bool.not_true, Bool.false_eq_true, if_false, Bool.not_false, if_true, false_iff]
      intro h; exact h2 ((key tets n0).mpr fun c hc hn => h c (Or.inl hc) (Or.inl hn))
  · simp only [h1, Bool.not_false, if_true, Bool.false_eq_true, false_iff]
    intro h; exact h1 ((key tets n1).mpr fun c hc hn => h c (Or.inl hc) (Or.inr hn))

/-! ### the disjointness argument -/

/-- storage rule of the distributed mesh: rank `q` stores cell `c` iff some vertex of `c` has `part = q` -/
def StoredOn (part : Nat → Nat) (q : Nat) (c : Cell) : Prop := ∃ v ∈ c, part v = q

/-- a fully owned, non-empty cell is stored on its owner and on nobody else -/
theorem fullyOwned_stored_iff (part : Nat → Nat) (r q : Nat) (c : Cell) (hne : c ≠ [])
    (h : FullyOwned part r c) : StoredOn part q c ↔ q = r := by
  constructor
  · rintro ⟨v, hv, hq⟩; rw [← hq, h v hv]
  · rintro rfl
    obtain ⟨v, hv⟩ := List.exists_mem_of_ne_nil c hne
    exact ⟨v, hv, h v hv⟩

end Refine.Lemmas.Par
